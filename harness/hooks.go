package main

import (
	"encoding/hex"
	"fmt"
	"reflect"
	"strconv"
	"strings"
)

func init() {
	extraOps["resolve"] = opResolve
	extraOps["desc"] = opDesc
	extraOps["span"] = opSpan
	extraOps["bitset"] = opBitset
	extraOps["descmap"] = opDescMap
	extraOps["unknown"] = opUnknown
	extraOps["unknownops"] = opUnknownOps
	extraOps["dispatch"] = opDispatch
	extraOps["api3"] = opAPI3
	extraOps["badarg"] = opBadArg
}

const noHooks = "(harness-error 6e6f686f6f6b73)" // "nohooks"

func atoi(x *sx) int {
	n, _ := strconv.Atoi(x.atom)
	return n
}

// resolve TYPE: what internal/defs makes of the struct definition
func opResolve(a []*sx) string {
	if !hooksAvailable {
		return noHooks
	}
	t, ok := verifTypes[a[0].atom]
	if !ok {
		return "(harness-error " + hexs("unknown type") + ")"
	}
	s, err := hkResolve(t)
	if err != nil {
		if strings.HasPrefix(err.Error(), "panic:") {
			return panicStr(err.Error())
		}
		return "(err other " + hexs(err.Error()) + ")"
	}
	return "(ok " + s + ")"
}

// desc TYPE probe...: what desc.go computes once for the type
func opDesc(a []*sx) string {
	if !hooksAvailable {
		return noHooks
	}
	t, ok := verifTypes[a[0].atom]
	if !ok {
		return "(harness-error " + hexs("unknown type") + ")"
	}
	probes := make([]int, 0, len(a))
	for _, x := range a[1:] {
		probes = append(probes, atoi(x))
	}
	s, err := hkDesc(t, probes)
	if err != nil {
		if strings.HasPrefix(err.Error(), "panic:") {
			return panicStr(err.Error())
		}
		return "(err other " + hexs(err.Error()) + ")"
	}
	return "(ok " + s + ")"
}

// span (n align) (n align) ...
func opSpan(a []*sx) string {
	if !hooksAvailable {
		return noHooks
	}
	reqs := make([][2]int, 0, len(a))
	for _, r := range a {
		reqs = append(reqs, [2]int{atoi(r.list[0]), atoi(r.list[1])})
	}
	var sb strings.Builder
	sb.WriteString("(ok")
	for _, r := range hkSpan(reqs) {
		fmt.Fprintf(&sb, " (%d %d %d)", r[0], r[1], r[2])
	}
	sb.WriteString(")")
	return sb.String()
}

// bitset (op id) ...   op: 0 set, 1 unset, 2 test
func opBitset(a []*sx) string {
	if !hooksAvailable {
		return noHooks
	}
	ops := make([][2]int, 0, len(a))
	for _, r := range a {
		ops = append(ops, [2]int{atoi(r.list[0]), atoi(r.list[1])})
	}
	var sb strings.Builder
	sb.WriteString("(ok")
	for _, b := range hkBitset(ops) {
		if b {
			sb.WriteString(" 1")
		} else {
			sb.WriteString(" 0")
		}
	}
	sb.WriteString(")")
	return sb.String()
}

// descmap (op key val) ...   op: 0 set, 1 get
func opDescMap(a []*sx) string {
	if !hooksAvailable {
		return noHooks
	}
	ops := make([][3]int, 0, len(a))
	for _, r := range a {
		v := 0
		if len(r.list) > 2 {
			v = atoi(r.list[2])
		}
		ops = append(ops, [3]int{atoi(r.list[0]), atoi(r.list[1]), v})
	}
	var sb strings.Builder
	sb.WriteString("(ok")
	for _, x := range hkDescMap(ops) {
		fmt.Fprintf(&sb, " %d", x)
	}
	sb.WriteString(")")
	return sb.String()
}

// unknown HEX (off sz) ...
func opUnknown(a []*sx) string {
	if !hooksAvailable {
		return noHooks
	}
	b, _ := hex.DecodeString(a[0].atom)
	adds := make([][2]int, 0, len(a))
	for _, r := range a[1:] {
		adds = append(adds, [2]int{atoi(r.list[0]), atoi(r.list[1])})
	}
	return "(ok " + hexs(string(hkUnknown(b, adds))) + ")"
}

// unknownops HEX (op x y) ...: one pooled recorder through Reset / Add / Copy / Size
func opUnknownOps(a []*sx) string {
	if !hooksAvailable {
		return noHooks
	}
	b, _ := hex.DecodeString(a[0].atom)
	ops := make([][3]int, 0, len(a))
	for _, r := range a[1:] {
		o := [3]int{atoi(r.list[0]), 0, 0}
		if len(r.list) > 2 {
			o[1], o[2] = atoi(r.list[1]), atoi(r.list[2])
		}
		ops = append(ops, o)
	}
	var sb strings.Builder
	func() {
		defer func() {
			if r := recover(); r != nil {
				sb.WriteString(" panic")
			}
		}()
		sb.WriteString("(ok")
		for _, o := range hkUnknownOps(b, ops) {
			sb.WriteString(" " + hexs(string(o)))
		}
	}()
	sb.WriteString(")")
	return sb.String()
}

func opDispatch(a []*sx) string {
	if !hooksAvailable {
		return noHooks
	}
	return "(ok " + strings.Join(strings.Fields(strings.Join(hkDispatch(), " ; ")), "_") + ")"
}

// api3 TYPE: the three entry points on a zero value (pointer argument) of a
// type whose definition may be unsupported; each twice.  Reports, per call,
// ok / err / panic, and whether the buffer and the destination stayed untouched.
func opAPI3(a []*sx) string {
	t, ok := verifTypes[a[0].atom]
	if !ok {
		return "(harness-error " + hexs("unknown type") + ")"
	}
	var sb strings.Builder
	for round := 0; round < 2; round++ {
		p := reflect.New(t)
		sz := safeSize(p.Interface())
		sb.WriteString(cls(sz) + " ")
		bl := 64
		if strings.HasPrefix(sz, "(size ") {
			if n, _ := strconv.Atoi(strings.TrimSuffix(strings.TrimPrefix(sz, "(size "), ")")); n > 0 && n < 1<<20 {
				bl = n + 16
			}
		}
		buf := make([]byte, bl)
		for i := range buf {
			buf[i] = guardByte
		}
		_, es := safeEnc(buf, p.Interface())
		touched := false
		for _, c := range buf {
			if c != guardByte {
				touched = true
			}
		}
		sb.WriteString(cls2(es, touched) + " ")
		q := reflect.New(t)
		before := fmt.Sprintf("%#v", q.Elem().Interface())
		_, ds := safeDec([]byte{8, 0, 1, 0, 0, 0, 7, 0}, q.Interface())
		after := fmt.Sprintf("%#v", q.Elem().Interface())
		sb.WriteString(cls2(ds, before != after) + " ")
	}
	return strings.TrimSpace(sb.String())
}

func cls(s string) string {
	switch {
	case strings.HasPrefix(s, "(size "):
		return "ok"
	case strings.HasPrefix(s, "(sizepanic "):
		return "panic"
	}
	return "other"
}

func cls2(es string, touched bool) string {
	r := "ok"
	switch {
	case es == "":
	case strings.HasPrefix(es, "(err "):
		r = "err"
	case strings.HasPrefix(es, "(panic "):
		r = "panic"
	default:
		r = "other"
	}
	if touched {
		r += "+touched"
	}
	return r
}

// badarg KIND: arguments that are not a (pointer to a) struct
func opBadArg(a []*sx) string {
	var v interface{}
	t := verifTypes["Leaf"]
	switch a[0].atom {
	case "nil":
		v = nil
	case "int":
		v = 42
	case "string":
		v = "x"
	case "ptrint":
		x := 1
		v = &x
	case "slice":
		v = []int32{1}
	case "map":
		v = map[string]int32{}
	case "ptrptr":
		p := reflect.New(t)
		pp := reflect.New(p.Type())
		pp.Elem().Set(p)
		v = pp.Interface()
	case "nilptr":
		v = reflect.Zero(reflect.PtrTo(t)).Interface()
	case "func":
		v = func() {}
	case "ptrslice":
		x := []int32{1}
		v = &x
	case "ptrmap":
		x := map[string]int32{}
		v = &x
	case "nilptrint":
		v = (*int)(nil)
	case "nilptrptr":
		v = reflect.Zero(reflect.PtrTo(reflect.PtrTo(t))).Interface()
	case "float":
		v = 1.5
	case "array":
		v = [2]int32{1, 2}
	case "chan":
		v = make(chan int)
	case "ptriface":
		var x interface{} = reflect.New(t).Interface()
		v = &x
	case "ptr":
		v = reflect.New(t).Interface()
	case "struct":
		v = reflect.New(t).Elem().Interface()
	}
	sz := safeSize(v)
	buf := make([]byte, 16)
	_, es := safeEnc(buf, v)
	_, ds := safeDec([]byte{0}, v)
	return cls(sz) + " " + cls2(es, false) + " " + cls2(ds, false)
}
