// Command verifharness executes cases against the real frugal API and prints
// what it observed.  It is a line-oriented server: one case per input line,
// one observation per output line.  The generated file types_gen.go supplies
// the struct types (registry) of the run's type universe.
package main

import (
	"bufio"
	"encoding/hex"
	"errors"
	"fmt"
	"io"
	"math"
	"os"
	"reflect"
	"runtime"
	"runtime/debug"
	"sort"
	"strconv"
	"strings"
	"unsafe"

	"github.com/cloudwego/frugal"
	"github.com/cloudwego/gopkg/protocol/thrift"
)

// ---------------------------------------------------------------- s-expr

type sx struct {
	atom string
	list []*sx
	isl  bool
}

func parseSx(s string) (*sx, error) {
	pos := 0
	var parse func() (*sx, error)
	skip := func() {
		for pos < len(s) && (s[pos] == ' ' || s[pos] == '\t') {
			pos++
		}
	}
	parse = func() (*sx, error) {
		skip()
		if pos >= len(s) {
			return nil, errors.New("eof")
		}
		if s[pos] == '(' {
			pos++
			r := &sx{isl: true}
			for {
				skip()
				if pos >= len(s) {
					return nil, errors.New("unclosed")
				}
				if s[pos] == ')' {
					pos++
					return r, nil
				}
				e, err := parse()
				if err != nil {
					return nil, err
				}
				r.list = append(r.list, e)
			}
		}
		st := pos
		for pos < len(s) && s[pos] != ' ' && s[pos] != '(' && s[pos] != ')' && s[pos] != '\t' {
			pos++
		}
		return &sx{atom: s[st:pos]}, nil
	}
	return parse()
}

// ---------------------------------------------------------------- values

// fieldOrder gives, per struct type, the Go field names of the tagged fields
// sorted by field id (the order of the model's VT field list).
func fieldOrder(t reflect.Type) []string { return verifFields[t.Name()] }

// spare gives b eight bytes of spare capacity holding a guard pattern, so that a
// write past len(b) into the caller's array is visible afterwards.
func spare(b []byte) []byte {
	r := make([]byte, len(b), len(b)+8)
	copy(r, b)
	t := r[len(b):cap(r)]
	for i := range t {
		t[i] = guardByte
	}
	return r
}

// spareTail is what is currently stored in the spare capacity of b.
func spareTail(b []byte) string {
	if cap(b) == len(b) {
		return ""
	}
	return hex.EncodeToString(b[len(b):cap(b)])
}

func setHolder(v reflect.Value, b []byte) {
	fv := v.FieldByName("_unknownFields")
	if !fv.IsValid() || !fv.CanAddr() {
		return
	}
	reflect.NewAt(fv.Type(), unsafe.Pointer(fv.UnsafeAddr())).Elem().SetBytes(b)
}

func getHolder(v reflect.Value) []byte {
	fv := v.FieldByName("_unknownFields")
	if !fv.IsValid() || fv.Kind() != reflect.Slice {
		return nil
	}
	return fv.Bytes()
}

// build stores the value described by x into the addressable v.
func build(v reflect.Value, x *sx) error {
	t := v.Type()
	if !x.isl || len(x.list) == 0 {
		return fmt.Errorf("bad value syntax")
	}
	head := x.list[0].atom
	args := x.list[1:]
	switch head {
	case "s":
		u, err := strconv.ParseUint(args[0].atom, 10, 64)
		if err != nil {
			return err
		}
		switch t.Kind() {
		case reflect.Bool:
			*(*byte)(unsafe.Pointer(v.UnsafeAddr())) = byte(u)
		case reflect.Int8:
			v.SetInt(int64(int8(u)))
		case reflect.Int16:
			v.SetInt(int64(int16(u)))
		case reflect.Int32:
			v.SetInt(int64(int32(u)))
		case reflect.Int64, reflect.Int:
			v.SetInt(int64(u))
		case reflect.Float64:
			v.SetFloat(math.Float64frombits(u))
		default:
			return fmt.Errorf("scalar for %s", t)
		}
	case "b", "bn":
		var bs []byte
		if head == "b" {
			bs = []byte{}
			if len(args) > 0 {
				var err error
				bs, err = hex.DecodeString(args[0].atom)
				if err != nil {
					return err
				}
			}
		}
		switch t.Kind() {
		case reflect.String:
			v.SetString(string(bs))
		case reflect.Slice:
			if bs != nil {
				bs = spare(bs)
			}
			v.SetBytes(bs)
		default:
			return fmt.Errorf("bytes for %s", t)
		}
	case "ln":
		v.Set(reflect.Zero(t))
	case "l":
		s := reflect.MakeSlice(t, len(args), len(args))
		for i, a := range args {
			if err := build(s.Index(i), a); err != nil {
				return err
			}
		}
		v.Set(s)
	case "mn":
		v.Set(reflect.Zero(t))
	case "m":
		m := reflect.MakeMapWithSize(t, 0)
		for i := 0; i+1 < len(args); i += 2 {
			k := reflect.New(t.Key()).Elem()
			e := reflect.New(t.Elem()).Elem()
			if err := build(k, args[i]); err != nil {
				return err
			}
			if err := build(e, args[i+1]); err != nil {
				return err
			}
			m.SetMapIndex(k, e)
		}
		v.Set(m)
	case "pn":
		v.Set(reflect.Zero(t))
	case "p":
		p := reflect.New(t.Elem())
		if err := build(p.Elem(), args[0]); err != nil {
			return err
		}
		v.Set(p)
	case "t":
		if t.Kind() != reflect.Struct {
			return fmt.Errorf("struct for %s", t)
		}
		names := fieldOrder(t)
		if len(args)-1 != len(names) {
			return fmt.Errorf("struct %s: %d values for %d fields", t, len(args)-1, len(names))
		}
		if h := args[0].atom; h != "-" {
			bs, err := hex.DecodeString(h)
			if err != nil {
				return err
			}
			setHolder(v, spare(bs))
		}
		for i, n := range names {
			if err := build(v.FieldByName(n), args[i+1]); err != nil {
				return err
			}
		}
	default:
		return fmt.Errorf("unknown head %q", head)
	}
	return nil
}

// dump prints v in the value syntax.  Map entries are sorted by the dump of
// the key so that two dumps of the same value are equal strings.
func dump(sb *strings.Builder, v reflect.Value) {
	t := v.Type()
	switch t.Kind() {
	case reflect.Bool:
		var b byte
		if v.CanAddr() {
			b = *(*byte)(unsafe.Pointer(v.UnsafeAddr()))
		} else if v.Bool() {
			b = 1
		}
		fmt.Fprintf(sb, "(s %d)", b)
	case reflect.Int8:
		fmt.Fprintf(sb, "(s %d)", uint8(v.Int()))
	case reflect.Int16:
		fmt.Fprintf(sb, "(s %d)", uint16(v.Int()))
	case reflect.Int32:
		fmt.Fprintf(sb, "(s %d)", uint32(v.Int()))
	case reflect.Int64, reflect.Int:
		fmt.Fprintf(sb, "(s %d)", uint64(v.Int()))
	case reflect.Float64:
		fmt.Fprintf(sb, "(s %d)", math.Float64bits(v.Float()))
	case reflect.String:
		if v.Len() == 0 {
			sb.WriteString("(b)")
		} else {
			fmt.Fprintf(sb, "(b %s)", hex.EncodeToString([]byte(v.String())))
		}
	case reflect.Slice:
		if t.Elem().Kind() == reflect.Uint8 {
			if v.IsNil() {
				sb.WriteString("(bn)")
			} else if v.Len() == 0 {
				sb.WriteString("(b)")
			} else {
				fmt.Fprintf(sb, "(b %s)", hex.EncodeToString(v.Bytes()))
			}
			return
		}
		if v.IsNil() {
			sb.WriteString("(ln)")
			return
		}
		sb.WriteString("(l")
		for i := 0; i < v.Len(); i++ {
			sb.WriteByte(' ')
			dump(sb, v.Index(i))
		}
		sb.WriteByte(')')
	case reflect.Map:
		if v.IsNil() {
			sb.WriteString("(mn)")
			return
		}
		type ent struct{ k, e string }
		var es []ent
		it := v.MapRange()
		for it.Next() {
			var kb, eb strings.Builder
			// copy to addressable temporaries so that raw bool bytes are visible
			k := reflect.New(t.Key()).Elem()
			k.Set(it.Key())
			e := reflect.New(t.Elem()).Elem()
			e.Set(it.Value())
			dump(&kb, k)
			dump(&eb, e)
			es = append(es, ent{kb.String(), eb.String()})
		}
		sort.SliceStable(es, func(i, j int) bool {
			if es[i].k != es[j].k {
				return es[i].k < es[j].k
			}
			return es[i].e < es[j].e
		})
		sb.WriteString("(m")
		for _, e := range es {
			sb.WriteByte(' ')
			sb.WriteString(e.k)
			sb.WriteByte(' ')
			sb.WriteString(e.e)
		}
		sb.WriteByte(')')
	case reflect.Ptr:
		if v.IsNil() {
			sb.WriteString("(pn)")
			return
		}
		sb.WriteString("(p ")
		dump(sb, v.Elem())
		sb.WriteByte(')')
	case reflect.Struct:
		sb.WriteString("(t ")
		h := []byte(nil)
		if v.CanAddr() {
			h = getHolder(v)
		}
		if len(h) == 0 {
			sb.WriteString("-")
		} else {
			sb.WriteString(hex.EncodeToString(h))
		}
		for _, n := range fieldOrder(t) {
			sb.WriteByte(' ')
			dump(sb, v.FieldByName(n))
		}
		sb.WriteByte(')')
	default:
		fmt.Fprintf(sb, "(unsupported %s)", t)
	}
}

// snapshot is the dump of a value plus the content of the spare capacity of every byte slice in it
func snapshot(v reflect.Value) string {
	var sb strings.Builder
	dump(&sb, v)
	tails(&sb, v)
	return sb.String()
}

func tails(sb *strings.Builder, v reflect.Value) {
	t := v.Type()
	switch t.Kind() {
	case reflect.Slice:
		if v.IsNil() {
			return
		}
		if t.Elem().Kind() == reflect.Uint8 {
			sb.WriteString("|" + spareTail(v.Bytes()))
			return
		}
		for i := 0; i < v.Len(); i++ {
			tails(sb, v.Index(i))
		}
	case reflect.Map:
		if v.IsNil() {
			return
		}
		var parts []string
		it := v.MapRange()
		for it.Next() {
			var b strings.Builder
			e := reflect.New(t.Elem()).Elem()
			e.Set(it.Value())
			tails(&b, e)
			parts = append(parts, b.String())
		}
		sort.Strings(parts)
		sb.WriteString(strings.Join(parts, ""))
	case reflect.Ptr:
		if !v.IsNil() {
			tails(sb, v.Elem())
		}
	case reflect.Struct:
		for _, n := range fieldOrder(t) {
			tails(sb, v.FieldByName(n))
		}
		if v.CanAddr() {
			if h := getHolder(v); h != nil {
				sb.WriteString("|h" + spareTail(h))
			}
		}
	}
}

func dumpStr(v reflect.Value) string {
	var sb strings.Builder
	dump(&sb, v)
	return sb.String()
}

// ---------------------------------------------------------------- errors

func hexs(s string) string {
	if s == "" {
		return "-"
	}
	return hex.EncodeToString([]byte(s))
}

func errClass(err error) string {
	var pe *thrift.ProtocolException
	if errors.Is(err, io.ErrShortBuffer) {
		return "(err short " + hexs(err.Error()) + ")"
	}
	if errors.As(err, &pe) {
		return fmt.Sprintf("(err pe%d %s)", pe.TypeID(), hexs(err.Error()))
	}
	return "(err other " + hexs(err.Error()) + ")"
}

func panicStr(r interface{}) string {
	return "(panic " + hexs(fmt.Sprint(r)) + ")"
}

// ---------------------------------------------------------------- ops

func newOf(name string) (reflect.Value, error) {
	t, ok := verifTypes[name]
	if !ok {
		return reflect.Value{}, fmt.Errorf("unknown type %s", name)
	}
	return reflect.New(t), nil
}

type initDefault interface{ InitDefault() }

func mkDst(name string, x *sx) (reflect.Value, error) {
	p, err := newOf(name)
	if err != nil {
		return p, err
	}
	if !x.isl {
		switch x.atom {
		case "fresh":
			if d, ok := p.Interface().(initDefault); ok {
				d.InitDefault()
			}
		case "zero":
		default:
			return p, fmt.Errorf("bad dst %q", x.atom)
		}
		return p, nil
	}
	return p, build(p.Elem(), x)
}

func arg(p reflect.Value, mode string) interface{} {
	if mode == "val" {
		return p.Elem().Interface()
	}
	return p.Interface()
}

func safeSize(v interface{}) (s string) {
	defer func() {
		if r := recover(); r != nil {
			s = "(sizepanic " + hexs(fmt.Sprint(r)) + ")"
		}
	}()
	return fmt.Sprintf("(size %d)", frugal.EncodedSize(v))
}

func safeEnc(buf []byte, v interface{}) (n int, s string) {
	defer func() {
		if r := recover(); r != nil {
			n, s = -1, panicStr(r)
		}
	}()
	n, err := frugal.EncodeObject(buf, nil, v)
	if err != nil {
		return -1, errClass(err)
	}
	return n, ""
}

func safeDec(buf []byte, v interface{}) (n int, s string) {
	defer func() {
		if r := recover(); r != nil {
			n, s = -1, panicStr(r)
		}
	}()
	n, err := frugal.DecodeObject(buf, v)
	if err != nil {
		return -1, errClass(err)
	}
	return n, ""
}

const guardByte = 0xA5

// opEnc: enc TYPE MODE VAL [EXTRA]
// EncodedSize, then EncodeObject into a buffer of size+EXTRA bytes (default
// 64) carved from a larger guard-filled array; reports size, bytes, whether
// the value changed, whether guard bytes survived, and a second encoding.
func opEnc(a []*sx) string {
	p, err := newOf(a[0].atom)
	if err != nil {
		return "(harness-error " + hexs(err.Error()) + ")"
	}
	if err := build(p.Elem(), a[2]); err != nil {
		return "(harness-error " + hexs(err.Error()) + ")"
	}
	mode := a[1].atom
	before := snapshot(p.Elem())
	v := arg(p, mode)
	sz := safeSize(v)
	afterSize := snapshot(p.Elem())
	n := 0
	if strings.HasPrefix(sz, "(size ") {
		n, _ = strconv.Atoi(strings.TrimSuffix(strings.TrimPrefix(sz, "(size "), ")"))
	}
	if n < 0 || n > 1<<28 {
		n = 1 << 16
	}
	extra := 64
	if len(a) > 3 {
		extra, _ = strconv.Atoi(a[3].atom)
	}
	arr := make([]byte, n+extra+32)
	for i := range arr {
		arr[i] = guardByte
	}
	buf := arr[:n+extra]
	wn, es := safeEnc(buf, v)
	after := snapshot(p.Elem())
	var out strings.Builder
	out.WriteString(sz)
	if es != "" {
		out.WriteString(" " + es)
	} else {
		fmt.Fprintf(&out, " (ok %d %s)", wn, hexs(string(arr[:wn])))
	}
	guard := "guard-ok"
	lo := wn
	if lo < 0 {
		lo = 0
	}
	for i := lo; i < len(arr); i++ {
		if arr[i] != guardByte {
			guard = fmt.Sprintf("guard-broken-at-%d", i)
			break
		}
	}
	out.WriteString(" " + guard)
	if before == afterSize && before == after {
		out.WriteString(" value-same")
	} else {
		out.WriteString(" value-changed")
	}
	// second encoding of the same unmodified value
	arr2 := make([]byte, n+extra)
	wn2, es2 := safeEnc(arr2, v)
	if es2 != "" {
		out.WriteString(" " + es2)
	} else {
		fmt.Fprintf(&out, " (ok %d %s)", wn2, hexs(string(arr2[:wn2])))
	}
	return out.String()
}

// opEncBuf: encbuf TYPE MODE VAL BLEN SPARE
// EncodeObject(arr[:BLEN]) where arr has BLEN+SPARE bytes, all guard-filled.
func opEncBuf(a []*sx) string {
	p, err := newOf(a[0].atom)
	if err != nil {
		return "(harness-error " + hexs(err.Error()) + ")"
	}
	if err := build(p.Elem(), a[2]); err != nil {
		return "(harness-error " + hexs(err.Error()) + ")"
	}
	blen, _ := strconv.Atoi(a[3].atom)
	spare, _ := strconv.Atoi(a[4].atom)
	arr := make([]byte, blen+spare)
	for i := range arr {
		arr[i] = guardByte
	}
	v := arg(p, a[1].atom)
	wn, es := safeEnc(arr[:blen], v)
	var out strings.Builder
	if es != "" {
		out.WriteString(es)
		wn = 0
	} else {
		fmt.Fprintf(&out, "(ok %d %s)", wn, hexs(string(arr[:wn])))
	}
	guard := "guard-ok"
	// bytes at index >= min(blen, n) must be untouched on success; on error
	// nothing beyond the buffer (index >= blen) may be touched
	lo := wn
	if es != "" {
		lo = blen
	}
	for i := lo; i < len(arr); i++ {
		if arr[i] != guardByte {
			guard = fmt.Sprintf("guard-broken-at-%d", i)
			break
		}
	}
	out.WriteString(" " + guard)
	return out.String()
}

// opDec: dec TYPE DST HEX
func opDec(a []*sx) string {
	p, err := mkDst(a[0].atom, a[1])
	if err != nil {
		return "(harness-error " + hexs(err.Error()) + ")"
	}
	in := []byte{}
	if a[2].atom != "-" {
		in, err = hex.DecodeString(a[2].atom)
		if err != nil {
			return "(harness-error " + hexs(err.Error()) + ")"
		}
	}
	// exact-capacity copy so that reads past the end are out of the slice
	buf := make([]byte, len(in))
	copy(buf, in)
	n, es := safeDec(buf, p.Interface())
	same := "input-same"
	if string(buf) != string(in) {
		same = "input-changed"
	}
	if es != "" {
		return es + " " + same
	}
	return fmt.Sprintf("(ok %d %s) %s", n, dumpStr(p.Elem()), same)
}

// opRt: rt TYPE MODE VAL -- encode, then decode into a fresh destination
func opRt(a []*sx) string {
	p, err := newOf(a[0].atom)
	if err != nil {
		return "(harness-error " + hexs(err.Error()) + ")"
	}
	if err := build(p.Elem(), a[2]); err != nil {
		return "(harness-error " + hexs(err.Error()) + ")"
	}
	v := arg(p, a[1].atom)
	sz := safeSize(v)
	if !strings.HasPrefix(sz, "(size ") {
		return sz
	}
	n, _ := strconv.Atoi(strings.TrimSuffix(strings.TrimPrefix(sz, "(size "), ")"))
	if n < 0 || n > 1<<28 {
		return sz + " (harness-error -)"
	}
	buf := make([]byte, n)
	wn, es := safeEnc(buf, v)
	if es != "" {
		return sz + " " + es
	}
	q, _ := mkDst(a[0].atom, &sx{atom: "fresh"})
	dn, ds := safeDec(buf[:wn], q.Interface())
	if ds != "" {
		return fmt.Sprintf("%s (ok %d %s) %s", sz, wn, hexs(string(buf[:wn])), ds)
	}
	return fmt.Sprintf("%s (ok %d %s) (ok %d %s)", sz, wn, hexs(string(buf[:wn])), dn, dumpStr(q.Elem()))
}

// opHop: hop TYPE HEX -- decode into a fresh destination, then re-encode it
// hasNoCopy: some field reachable from t carries the nocopy option
func hasNoCopy(t reflect.Type, seen map[reflect.Type]bool) bool {
	if seen[t] {
		return false
	}
	seen[t] = true
	switch t.Kind() {
	case reflect.Ptr, reflect.Slice:
		return hasNoCopy(t.Elem(), seen)
	case reflect.Map:
		return hasNoCopy(t.Key(), seen) || hasNoCopy(t.Elem(), seen)
	case reflect.Struct:
		for i := 0; i < t.NumField(); i++ {
			f := t.Field(i)
			if strings.Contains(string(f.Tag), "nocopy") || hasNoCopy(f.Type, seen) {
				return true
			}
		}
	}
	return false
}

func opHop(a []*sx) string {
	p, err := mkDst(a[0].atom, &sx{atom: "fresh"})
	if err != nil {
		return "(harness-error " + hexs(err.Error()) + ")"
	}
	in := []byte{}
	if a[1].atom != "-" {
		in, err = hex.DecodeString(a[1].atom)
		if err != nil {
			return "(harness-error " + hexs(err.Error()) + ")"
		}
	}
	buf := make([]byte, len(in))
	copy(buf, in)
	n, es := safeDec(buf, p.Interface())
	if es != "" {
		return es
	}
	out := fmt.Sprintf("(ok %d %s)", n, dumpStr(p.Elem()))
	// the intermediary reuses its receive buffer before forwarding: unless a field asked for
	// nocopy, the decoded object owns everything, the holder included
	if !hasNoCopy(p.Elem().Type(), map[reflect.Type]bool{}) {
		for i := range buf {
			buf[i] = 0xA5
		}
	}
	sz := safeSize(p.Interface())
	out += " " + sz
	if !strings.HasPrefix(sz, "(size ") {
		return out
	}
	m, _ := strconv.Atoi(strings.TrimSuffix(strings.TrimPrefix(sz, "(size "), ")"))
	if m < 0 || m > 1<<28 {
		return out + " (harness-error -)"
	}
	ob := make([]byte, m)
	wn, es2 := safeEnc(ob, p.Interface())
	if es2 != "" {
		return out + " " + es2
	}
	return out + fmt.Sprintf(" (ok %d %s)", wn, hexs(string(ob[:wn])))
}

func dispatch(op string, a []*sx) (res string) {
	defer func() {
		if r := recover(); r != nil {
			res = "(harness-panic " + hexs(fmt.Sprint(r)) + ")"
		}
	}()
	switch op {
	case "enc":
		return opEnc(a)
	case "encbuf":
		return opEncBuf(a)
	case "dec":
		return opDec(a)
	case "rt":
		return opRt(a)
	case "hop":
		return opHop(a)
	case "gc":
		runtime.GC()
		return "(ok)"
	}
	if f, ok := extraOps[op]; ok {
		return f(a)
	}
	return "(harness-error " + hexs("unknown op "+op) + ")"
}

var extraOps = map[string]func([]*sx) string{}

func main() {
	debug.SetMaxStack(256 << 20)
	in := bufio.NewReaderSize(os.Stdin, 1<<20)
	out := bufio.NewWriterSize(os.Stdout, 1<<20)
	defer out.Flush()
	for {
		line, err := in.ReadString('\n')
		line = strings.TrimRight(line, "\n")
		if line != "" {
			// "<id> (op args...)"
			sp := strings.IndexByte(line, ' ')
			id, rest := line[:sp], line[sp+1:]
			// progress marker: if the process dies, the parent knows where
			fmt.Fprintf(out, "@ %s\n", id)
			out.Flush()
			x, perr := parseSx(rest)
			var res string
			if perr != nil || !x.isl || len(x.list) == 0 {
				res = "(harness-error " + hexs("parse") + ")"
			} else {
				res = dispatch(x.list[0].atom, x.list[1:])
			}
			fmt.Fprintf(out, "= %s %s\n", id, res)
			out.Flush()
		}
		if err != nil {
			return
		}
	}
}
