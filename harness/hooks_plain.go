//go:build !verif

package main

import (
	"errors"
	"reflect"
)

// fallback when the tagged hooks do not compile against the current tree: the public entry
// points are still exercised, the component-level operations answer "nohooks"
const hooksAvailable = false

func hkResolve(t reflect.Type) (string, error)            { return "", errors.New("nohooks") }
func hkSpan(reqs [][2]int) [][3]int                       { return nil }
func hkBitset(ops [][2]int) []bool                        { return nil }
func hkDescMap(ops [][3]int) []int                        { return nil }
func hkUnknown(b []byte, adds [][2]int) []byte            { return nil }
func hkDispatch() []string                                { return nil }
func hkUnknownOps(b []byte, ops [][3]int) [][]byte        { return nil }
func hkDesc(t reflect.Type, probes []int) (string, error) { return "", errors.New("nohooks") }
