//go:build verif

package main

import "github.com/cloudwego/frugal"

// the verif-tagged hooks of /repo (internal/reflect/verif_hooks.go, verif_export.go)
const hooksAvailable = true

var (
	hkResolve    = frugal.VerifResolve
	hkDesc       = frugal.VerifDesc
	hkSpan       = frugal.VerifSpan
	hkBitset     = frugal.VerifBitset
	hkDescMap    = frugal.VerifDescMap
	hkUnknown    = frugal.VerifUnknown
	hkUnknownOps = frugal.VerifUnknownOps
	hkDispatch   = frugal.VerifDispatch
)
