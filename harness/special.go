package main

import (
	"encoding/hex"
	"fmt"
	"os"
	"reflect"
	"runtime"
	"runtime/debug"
	"sort"
	"strconv"
	"strings"
	"sync"
	"sync/atomic"
	"time"
	"unsafe"

	"github.com/cloudwego/frugal"
	fdebug "github.com/cloudwego/frugal/debug"
)

func init() {
	extraOps["mem"] = opMem
	extraOps["hammer"] = opHammer
	extraOps["decm"] = opDecM
	extraOps["allocs"] = opAllocs
	extraOps["legacy"] = opLegacy
	extraOps["env"] = opEnv
	extraOps["parseuint"] = opParseUint
	extraOps["conc"] = opConc
	extraOps["keep"] = opKeep
	extraOps["recheck"] = opRecheck
}

// ---------------------------------------------------------------- memory regions (C06, C14)

type piece struct {
	path  string
	kind  string // ptr | slice | string | bytes
	addr  uintptr
	size  uintptr // bytes in use (len * elem size)
	capb  uintptr // bytes of capacity
	align uintptr
}

// Go's heap arenas start at 0x00c000000000 on linux/amd64; anything below is
// static data of the binary (string constants assigned by InitDefault, the
// zero-size sentinel): shared and immutable, not memory created by a decode.
const heapBase = 0x00c000000000

func walkPieces(v reflect.Value, path string, out *[]piece) {
	walkPieces0(v, path, out)
	n := 0
	for _, p := range *out {
		// static pieces are kept only when their extent is suspicious (capacity beyond length)
		if p.addr >= heapBase || p.capb != p.size {
			(*out)[n] = p
			n++
		}
	}
	*out = (*out)[:n]
}

func walkPieces0(v reflect.Value, path string, out *[]piece) {
	t := v.Type()
	switch t.Kind() {
	case reflect.String:
		s := v.String()
		if len(s) > 0 {
			*out = append(*out, piece{path, "string", uintptr(unsafe.Pointer(unsafe.StringData(s))), uintptr(len(s)), uintptr(len(s)), 1})
		} else if d := unsafe.StringData(s); d != nil {
			// an empty string still carries a data pointer, which keeps what it points into alive
			*out = append(*out, piece{path, "empty", uintptr(unsafe.Pointer(d)), 0, 0, 1})
		}
	case reflect.Slice:
		if v.IsNil() {
			return
		}
		es := t.Elem().Size()
		k := "slice"
		if t.Elem().Kind() == reflect.Uint8 {
			k = "bytes"
		}
		if v.Cap() > 0 {
			*out = append(*out, piece{path, k, v.Pointer(), uintptr(v.Len()) * es, uintptr(v.Cap()) * es, uintptr(t.Elem().Align())})
		} else if v.Len() > 0 {
			*out = append(*out, piece{path, k + "-cap0", v.Pointer(), uintptr(v.Len()) * es, 0, uintptr(t.Elem().Align())})
		} else {
			*out = append(*out, piece{path, "empty", v.Pointer(), 0, 0, 1})
		}
		if t.Elem().Kind() != reflect.Uint8 {
			for i := 0; i < v.Len(); i++ {
				walkPieces0(v.Index(i), fmt.Sprintf("%s[%d]", path, i), out)
			}
		}
	case reflect.Map:
		if v.IsNil() {
			return
		}
		it := v.MapRange()
		for it.Next() {
			k := reflect.New(t.Key()).Elem()
			k.Set(it.Key())
			e := reflect.New(t.Elem()).Elem()
			e.Set(it.Value())
			ks := dumpStr(k)
			walkPieces0(k, path+"{k:"+ks+"}", out)
			walkPieces0(e, path+"{v:"+ks+"}", out)
		}
	case reflect.Ptr:
		if v.IsNil() {
			return
		}
		if sz := t.Elem().Size(); sz > 0 {
			*out = append(*out, piece{path, "ptr", v.Pointer(), sz, sz, uintptr(t.Elem().Align())})
		}
		walkPieces0(v.Elem(), path+"*", out)
	case reflect.Struct:
		for _, n := range fieldOrder(t) {
			walkPieces0(v.FieldByName(n), path+"."+n, out)
		}
		if h := func() []byte {
			if v.CanAddr() {
				return getHolder(v)
			}
			return nil
		}(); len(h) > 0 {
			*out = append(*out, piece{path + "._unknownFields", "bytes", uintptr(unsafe.Pointer(unsafe.SliceData(h))), uintptr(len(h)), uintptr(cap(h)), 1})
		}
	}
}

// objects kept alive across cases of one session (histories of decodes)
type kept struct {
	val    reflect.Value
	dump   string
	pieces []piece
	buf    []byte
	inbuf  map[string]bool
}

var keepers []*kept

// analyse checks the pieces of one decoded object against each other, against
// the input buffer and against the pieces of all kept objects.
func analyse(ps []piece, buf []byte, others []*kept) (problems []string, inbuf []piece) {
	var b0, b1 uintptr
	if len(buf) > 0 {
		b0 = uintptr(unsafe.Pointer(&buf[0]))
		b1 = b0 + uintptr(len(buf))
	}
	for _, p := range ps {
		if p.align > 0 && p.addr%p.align != 0 {
			problems = append(problems, fmt.Sprintf("misaligned:%s:%s:addr%%%d=%d", p.kind, p.path, p.align, p.addr%p.align))
		}
		if (p.kind == "slice" || p.kind == "bytes") && p.capb != p.size {
			problems = append(problems, fmt.Sprintf("cap!=len:%s:%s:%d:%d", p.kind, p.path, p.size, p.capb))
		}
		if strings.HasSuffix(p.kind, "-cap0") {
			problems = append(problems, fmt.Sprintf("cap0:%s", p.path))
		}
		if len(buf) > 0 && p.size > 0 && p.addr < b1 && p.addr+p.capb > b0 {
			inbuf = append(inbuf, p)
		}
		if len(buf) > 0 && p.kind == "empty" && p.addr >= b0 && p.addr <= b1 {
			problems = append(problems, fmt.Sprintf("empty-value-references-input:%s:+%d", p.path, p.addr-b0))
		}
	}
	// pairwise overlap up to capacity, within the object
	srt := make([]piece, 0, len(ps))
	for _, p := range ps {
		if p.capb > 0 {
			srt = append(srt, p)
		}
	}
	sort.Slice(srt, func(i, j int) bool { return srt[i].addr < srt[j].addr })
	for i := 0; i+1 < len(srt); i++ {
		a, b := srt[i], srt[i+1]
		if a.addr+a.capb > b.addr {
			// a struct reached through a pointer legitimately contains nothing else; by-value
			// parts are not pieces, so any overlap is a defect
			problems = append(problems, fmt.Sprintf("overlap:%s(%s):%s(%s)", a.path, a.kind, b.path, b.kind))
		}
	}
	for oi, o := range others {
		for _, q := range o.pieces {
			if q.capb == 0 || o.inbuf[q.path] {
				continue
			}
			for _, p := range srt {
				if p.addr < q.addr+q.capb && q.addr < p.addr+p.capb {
					problems = append(problems, fmt.Sprintf("overlap-with-kept%d:%s:%s", oi, p.path, q.path))
				}
			}
		}
	}
	return
}

// mem TYPE HEX: decode into a fresh destination and examine the memory of the result.
// Output: (ok n VALUE) problems... (inbuf (path off len cap)...) flip-outside:<same|changed> (flips (path same|changed|other)...)
func opMem(a []*sx) string {
	p, err := mkDst(a[0].atom, &sx{atom: "fresh"})
	if err != nil {
		return "(harness-error " + hexs(err.Error()) + ")"
	}
	in, _ := hex.DecodeString(strings.TrimPrefix(a[1].atom, "-"))
	buf := make([]byte, len(in))
	copy(buf, in)
	n, es := safeDec(buf, p.Interface())
	if es != "" {
		return es
	}
	var ps []piece
	walkPieces(p.Elem(), "", &ps)
	problems, inb := analyse(ps, buf, keepers)
	d0 := dumpStr(p.Elem())
	var sb strings.Builder
	fmt.Fprintf(&sb, "(ok %d %s) (problems", n, d0)
	for _, q := range problems {
		sb.WriteString(" " + pathTok(q))
	}
	sb.WriteString(") (inbuf")
	b0 := uintptr(0)
	if len(buf) > 0 {
		b0 = uintptr(unsafe.Pointer(&buf[0]))
	}
	covered := make([]bool, len(buf))
	for _, q := range inb {
		off := int(q.addr - b0)
		fmt.Fprintf(&sb, " (%s %d %d %d)", pathTok(q.path), off, q.size, q.capb)
		for i := off; i < off+int(q.capb) && i < len(buf); i++ {
			if i >= 0 {
				covered[i] = true
			}
		}
	}
	sb.WriteString(")")
	// bytes outside every in-buffer piece: changing them must not show in the value
	for i := range buf {
		if !covered[i] {
			buf[i] ^= 0xff
		}
	}
	if dumpStr(p.Elem()) == d0 {
		sb.WriteString(" flip-outside:same")
	} else {
		sb.WriteString(" flip-outside:changed")
	}
	for i := range buf {
		if !covered[i] {
			buf[i] ^= 0xff
		}
	}
	// bytes of each in-buffer piece: changing them shows through that piece
	sb.WriteString(" (flips")
	for _, q := range inb {
		off := int(q.addr - b0)
		for i := off; i < off+int(q.size); i++ {
			buf[i] ^= 0xff
		}
		d1 := dumpStr(p.Elem())
		for i := off; i < off+int(q.size); i++ {
			buf[i] ^= 0xff
		}
		r := "same"
		if d1 != d0 {
			r = "changed"
		}
		fmt.Fprintf(&sb, " (%s %s)", pathTok(q.path), r)
	}
	sb.WriteString(")")
	runtime.KeepAlive(buf)
	return sb.String()
}

func pathTok(p string) string {
	if p == "" {
		return "-"
	}
	r := strings.NewReplacer(" ", "_", "(", "<", ")", ">")
	return r.Replace(p)
}

// keep TYPE HEX: decode, examine like mem, and keep the object (and its own
// input buffer, afterwards overwritten) alive for later recheck cases.
func opKeep(a []*sx) string {
	p, err := mkDst(a[0].atom, &sx{atom: "fresh"})
	if err != nil {
		return "(harness-error " + hexs(err.Error()) + ")"
	}
	in, _ := hex.DecodeString(strings.TrimPrefix(a[1].atom, "-"))
	buf := make([]byte, len(in))
	copy(buf, in)
	n, es := safeDec(buf, p.Interface())
	if es != "" {
		return es
	}
	var ps []piece
	walkPieces(p.Elem(), "", &ps)
	problems, inb := analyse(ps, buf, keepers)
	k := &kept{val: p, dump: dumpStr(p.Elem()), pieces: ps, buf: buf, inbuf: map[string]bool{}}
	for _, q := range inb {
		k.inbuf[q.path] = true
	}
	// the input buffer is reused by the caller: overwrite it unless the type asks for nocopy views;
	// without the option nothing of the object may lie in the input
	if !hasNoCopy(p.Elem().Type(), map[reflect.Type]bool{}) {
		for _, q := range inb {
			problems = append(problems, "views-input-without-nocopy:"+q.path)
		}
		for i := range buf {
			buf[i] = 0xEE
		}
	}
	keepers = append(keepers, k)
	for i := range problems {
		problems[i] = pathTok(problems[i])
	}
	return fmt.Sprintf("(ok %d %s) (problems %s)", n, k.dump, strings.Join(problems, " "))
}

// recheck: force GCs and verify that every kept object still dumps the same
func opRecheck(a []*sx) string {
	runtime.GC()
	debug.FreeOSMemory()
	runtime.GC()
	bad := 0
	for _, k := range keepers {
		if dumpStr(k.val.Elem()) != k.dump {
			bad++
		}
	}
	return fmt.Sprintf("(ok %d %d)", len(keepers), bad)
}

// ---------------------------------------------------------------- allocation and time (C05, C18)

// decm TYPE HEX: TotalAlloc delta and wall time of one DecodeObject
func opDecM(a []*sx) string {
	p, err := mkDst(a[0].atom, &sx{atom: "fresh"})
	if err != nil {
		return "(harness-error " + hexs(err.Error()) + ")"
	}
	in, _ := hex.DecodeString(strings.TrimPrefix(a[1].atom, "-"))
	var m0, m1 runtime.MemStats
	runtime.ReadMemStats(&m0)
	t0 := time.Now()
	n, es := safeDec(in, p.Interface())
	dt := time.Since(t0)
	runtime.ReadMemStats(&m1)
	r := "ok"
	if es != "" {
		r = "err"
		if strings.HasPrefix(es, "(panic") {
			r = "panic"
		}
	}
	return fmt.Sprintf("(%s %d %d %d %d)", r, n, len(in), m1.TotalAlloc-m0.TotalAlloc, dt.Microseconds())
}

// allocs TYPE VAL: heap allocations of EncodedSize + EncodeObject(pointer, big buffer) after
// first use: minimum Mallocs delta over 5 batches of 20 repetitions
func opAllocs(a []*sx) string {
	p, err := newOf(a[0].atom)
	if err != nil {
		return "(harness-error " + hexs(err.Error()) + ")"
	}
	if err := build(p.Elem(), a[1]); err != nil {
		return "(harness-error " + hexs(err.Error()) + ")"
	}
	v := p.Interface()
	sz := safeSize(v)
	if !strings.HasPrefix(sz, "(size ") {
		return sz
	}
	n, _ := strconv.Atoi(strings.TrimSuffix(strings.TrimPrefix(sz, "(size "), ")"))
	buf := make([]byte, n+64)
	if _, es := safeEnc(buf, v); es != "" {
		return es
	}
	old := debug.SetGCPercent(-1)
	defer debug.SetGCPercent(old)
	minS, minE := uint64(1<<62), uint64(1<<62)
	var m0, m1, m2 runtime.MemStats
	for b := 0; b < 5; b++ {
		runtime.ReadMemStats(&m0)
		for i := 0; i < 20; i++ {
			frugal.EncodedSize(v)
		}
		runtime.ReadMemStats(&m1)
		for i := 0; i < 20; i++ {
			frugal.EncodeObject(buf, nil, v)
		}
		runtime.ReadMemStats(&m2)
		if d := m1.Mallocs - m0.Mallocs; d < minS {
			minS = d
		}
		if d := m2.Mallocs - m1.Mallocs; d < minE {
			minE = d
		}
	}
	return fmt.Sprintf("(ok %d %d)", minS, minE)
}

// ---------------------------------------------------------------- legacy controls (C17)

// legacy NAME [ARG] [TYPE]
func opLegacy(a []*sx) (res string) {
	defer func() {
		if r := recover(); r != nil {
			res = panicStr(r)
		}
	}()
	arg := 0
	if len(a) > 1 {
		arg = atoi(a[1])
	}
	switch a[0].atom {
	case "Pretouch":
		var t reflect.Type
		if len(a) > 2 {
			t = verifTypes[a[2].atom]
		}
		var err error
		switch arg % 4 {
		case 0:
			err = frugal.Pretouch(t)
		case 1:
			err = frugal.Pretouch(t, frugal.WithMaxInlineDepth(arg), frugal.WithMaxInlineILSize(arg*100), frugal.WithMaxPretouchDepth(arg))
		case 2:
			err = frugal.Pretouch(nil)
		default:
			err = frugal.Pretouch(reflect.PtrTo(t), frugal.WithMaxPretouchDepth(0))
		}
		if err != nil {
			return "(err other " + hexs(err.Error()) + ")"
		}
		return "(ok 0)"
	case "NoJIT":
		frugal.NoJIT(arg%2 == 1)
		return "(ok 0)"
	case "SetMaxInlineDepth":
		return fmt.Sprintf("(ok %d)", frugal.SetMaxInlineDepth(arg))
	case "SetMaxInlineILSize":
		return fmt.Sprintf("(ok %d)", frugal.SetMaxInlineILSize(arg))
	case "GetStats":
		s := fdebug.GetStats()
		if s != (fdebug.Stats{}) {
			return "(ok 1)"
		}
		return "(ok 0)"
	case "WithOptions":
		o1, o2, o3 := frugal.WithMaxInlineDepth(arg), frugal.WithMaxInlineILSize(arg), frugal.WithMaxPretouchDepth(arg)
		if o1 == nil || o2 == nil || o3 == nil {
			return "(ok 1)"
		}
		o1(nil)
		o2(nil)
		o3(nil)
		return "(ok 0)"
	}
	return "(harness-error " + hexs("unknown legacy fn") + ")"
}

// env: the FRUGAL_* environment of this process
func opEnv(a []*sx) string {
	return "(ok " + hexs(os.Getenv("FRUGAL_MAX_INLINE_DEPTH")+"|"+os.Getenv("FRUGAL_MAX_INLINE_IL_SIZE")) + ")"
}

// ---------------------------------------------------------------- concurrency (C08)

// conc N (case) (case) ...: every goroutine g = 0..N-1 executes the cases whose index i has
// i % N == g, all released by one barrier.  Cases are enc / dec / rt forms.  The result lists
// each case's observation in index order.
func opConc(a []*sx) string {
	n := atoi(a[0])
	cs := a[1:]
	res := make([]string, len(cs))
	var wg sync.WaitGroup
	start := make(chan struct{})
	for g := 0; g < n; g++ {
		wg.Add(1)
		go func(g int) {
			defer wg.Done()
			<-start
			for i := g; i < len(cs); i += n {
				c := cs[i]
				res[i] = dispatch(c.list[0].atom, c.list[1:])
			}
		}(g)
	}
	close(start)
	done := make(chan struct{})
	go func() { wg.Wait(); close(done) }()
	// deadlock watchdog: after 60 s look at the goroutines' states; only goroutines parked in a
	// synchronisation primitive count as deadlocked, running or runnable ones are merely slow
	// (loaded machine, race detector) and get more time
	for round := 0; ; round++ {
		finished := false
		select {
		case <-done:
			finished = true
		case <-time.After(60 * time.Second):
		}
		if finished {
			break
		}
		buf := make([]byte, 1<<20)
		buf = buf[:runtime.Stack(buf, true)]
		blocked, active := 0, 0
		for _, g := range strings.Split(string(buf), "\n\n") {
			if !strings.Contains(g, "main.opConc.func1") {
				continue
			}
			hdr := g
			if i := strings.Index(g, "\n"); i >= 0 {
				hdr = g[:i]
			}
			if strings.Contains(hdr, "semacquire") || strings.Contains(hdr, "sync.Mutex") || strings.Contains(hdr, "sync.RWMutex") ||
				strings.Contains(hdr, "chan receive") || strings.Contains(hdr, "chan send") || strings.Contains(hdr, "select") ||
				strings.Contains(hdr, "sync.Cond") || strings.Contains(hdr, "sync.WaitGroup") {
				blocked++
			} else {
				active++
			}
		}
		if blocked > 0 && active == 0 {
			return "(deadlock)"
		}
		if round >= 9 {
			return "(slow)"
		}
	}
	var sb strings.Builder
	sb.WriteString("(ok")
	for _, r := range res {
		sb.WriteString(" (" + r + ")")
	}
	sb.WriteString(")")
	return sb.String()
}

// hammer TYPE MODE MILLIS VAL...: goroutines (4 per core, shared out over the values) call
// EncodedSize and EncodeObject on their own immutable value of one struct type, again and
// again for MILLIS ms; every result is compared with a sequential reference taken through a
// pointer before the goroutines start.
// Output: (ref SIZE...) (badsize N) (badbytes N) (errors N) (panics N) (calls N)
func opHammer(a []*sx) string {
	mode := a[1].atom
	ms := atoi(a[2])
	type item struct {
		p    reflect.Value
		size int
		ref  []byte
	}
	var items []item
	var sb strings.Builder
	sb.WriteString("(ref")
	for _, x := range a[3:] {
		p, err := newOf(a[0].atom)
		if err != nil {
			return "(harness-error " + hexs(err.Error()) + ")"
		}
		if err := build(p.Elem(), x); err != nil {
			return "(harness-error " + hexs(err.Error()) + ")"
		}
		n := frugal.EncodedSize(p.Interface())
		buf := make([]byte, n)
		wn, err := frugal.EncodeObject(buf, nil, p.Interface())
		if err != nil || wn != n {
			return "(harness-error " + hexs("reference encode failed") + ")"
		}
		items = append(items, item{p, n, buf})
		fmt.Fprintf(&sb, " %d", n)
	}
	sb.WriteString(")")
	var badSize, badBytes, errs, panics, calls int64
	var wg sync.WaitGroup
	start := make(chan struct{})
	deadline := time.Now().Add(time.Duration(ms) * time.Millisecond)
	g := 4 * runtime.GOMAXPROCS(0)
	for i := 0; i < g; i++ {
		it := items[i%len(items)]
		wg.Add(1)
		go func(it item, i int) {
			defer wg.Done()
			v := arg(it.p, mode)
			buf := make([]byte, it.size+64)
			<-start
			for k := 0; time.Now().Before(deadline); k++ {
				func() {
					defer func() {
						if r := recover(); r != nil {
							atomic.AddInt64(&panics, 1)
						}
					}()
					atomic.AddInt64(&calls, 1)
					if n := frugal.EncodedSize(v); n != it.size {
						atomic.AddInt64(&badSize, 1)
					}
					if (k+i)%4 == 0 {
						wn, err := frugal.EncodeObject(buf, nil, v)
						if err != nil {
							atomic.AddInt64(&errs, 1)
						} else if wn != it.size || string(buf[:wn]) != string(it.ref) {
							atomic.AddInt64(&badBytes, 1)
						}
					}
				}()
			}
		}(it, i)
	}
	close(start)
	wg.Wait()
	fmt.Fprintf(&sb, " (badsize %d) (badbytes %d) (errors %d) (panics %d) (calls %d)", badSize, badBytes, errs, panics, calls)
	return sb.String()
}

// parseuint HEX: what the Go standard library's strconv.ParseUint(s, 0, 64) says about s -- the
// function internal/opts.parseOrDefault relies on and coq/EnvParse.v transcribes.
func opParseUint(a []*sx) string {
	in, _ := hex.DecodeString(strings.TrimPrefix(a[0].atom, "-"))
	v, err := strconv.ParseUint(string(in), 0, 64)
	if err != nil {
		return "(err)"
	}
	return "(ok " + strconv.FormatUint(v, 10) + ")"
}
