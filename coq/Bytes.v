(* Bytes.v -- big-endian fixed-width integers over byte lists.
   Models internal/reflect/utils.go appendUint16/32/64 and
   encoding/binary.BigEndian.UintNN as the decoder uses them. *)
From Coq Require Import List NArith Bool.
Import ListNotations.
Open Scope N_scope.

Definition len {A} (l : list A) : N := N.of_nat (length l).

(* w bytes, most significant first; the value is reduced mod 256^w (Go's
   uintN conversion followed by the shifts of appendUintN). *)
Fixpoint be_put (w : nat) (x : N) : list N :=
  match w with
  | O => []
  | S w' => be_put w' (x / 256) ++ [x mod 256]
  end.

Definition be_step (a b : N) : N := a * 256 + b.
Definition be_get (bs : list N) : N := fold_left be_step bs 0.

Definition pow8 (w : nat) : N := 2 ^ (8 * N.of_nat w).

Definition is_byte (b : N) : bool := b <? 256.
Definition bytes_ok (bs : list N) : bool := forallb is_byte bs.

(* int64(int32(x)) for a 32-bit pattern x, as a 64-bit pattern *)
Definition sext32 (x : N) : N := if x <? 2 ^ 31 then x else x + (2 ^ 64 - 2 ^ 32).
(* uint32(int64) : low 32 bits of a 64-bit pattern *)
Definition low32 (x : N) : N := x mod 2 ^ 32.
(* int32 from a 32-bit pattern is negative *)
Definition neg32 (x : N) : bool := 2 ^ 31 <=? x.

(* the 64-bit patterns that survive uint32 + sign extension *)
Definition enum32 (x : N) : bool := (x <? 2 ^ 31) || ((2 ^ 64 - 2 ^ 31 <=? x) && (x <? 2 ^ 64)).

(* [short bs n] = (len bs <? n), computed by walking at most n cells, so that a
   check costs what the data it guards costs (lemma short_spec in proofs/) *)
Fixpoint short (bs : list N) (n : N) : bool :=
  match bs with
  | [] => 0 <? n
  | _ :: r => if n =? 0 then false else short r (N.pred n)
  end.

(* split off n bytes; the comparison is made in N so that a hostile count is
   never converted to nat *)
Definition take (n : N) (bs : list N) : option (list N * list N) :=
  if short bs n then None
  else Some (firstn (N.to_nat n) bs, skipn (N.to_nat n) bs).

Definition nthN (bs : list N) (i : N) : option N :=
  if len bs <=? i then None else nth_error bs (N.to_nat i).

Definition lt31 (n : N) : bool := n <? 2 ^ 31.
