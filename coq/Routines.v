(* Routines.v -- vocabulary in which the translator describes the bodies of
   the specialised append routines (append_list_fast.go, append_map_fast.go,
   append_list.go, append_map.go). *)
From Coq Require Import List NArith Bool.
Import ListNotations.
Open Scope N_scope.

(* how one key / value / element is written *)
Inductive wr :=
| WrBool     (* appendMapBool(b, x): 1 if x else 0, x read as a 1-byte bool *)
| WrByte     (* append(b, x): x read as 1 byte *)
| WrU16      (* appendUint16, x read as 2 bytes *)
| WrU32      (* appendUint32, x read as 4 bytes *)
| WrU64      (* appendUint64, x read as 8 bytes *)
| WrEnum     (* appendUint32(uint32(x)), x read as int64 *)
| WrStr      (* appendUint32(len) ++ bytes, x read as a string header *)
| WrFunc     (* t.X.AppendFunc(t.X, b, p or *p by t.X.IsPointer) *)
| WrAny      (* appendAny(t.X, b, p) *)
| WrBad.     (* body not recognised by the translator *)

Inductive iter :=
| ItRange    (* for k, v := range over the map pointer cast to a map[K]V type *)
| ItReflect  (* newMapIter(rvWithPtr(t.RV, p)) : reflect iterator on the real type *)
| ItBad.

Record mroutine := mkMR {
  m_iter : iter;
  m_key : wr;
  m_val : wr;
  m_shape : bool   (* header written first; return on n == 0; n-- per entry; checkMapN(n) at the end *)
}.

Record lroutine := mkLR {
  l_elem : wr;
  l_shape : bool   (* header first; return on n == 0; elements visited in index order, stride t.Size *)
}.
