(* LegacyDefs.v -- vocabulary for the legacy JIT-era controls (frugal.go,
   options.go, debug/debug.go) as classified by the translator. *)
Inductive legacy_fn :=
| LPretouch | LNoJIT | LWithMaxInlineDepth | LWithMaxInlineILSize | LWithMaxPretouchDepth
| LSetMaxInlineDepth | LSetMaxInlineILSize | LGetStats.

Inductive body :=
| BReturnsNil            (* { return nil } *)
| BEmpty                 (* { } with no results *)
| BReturnsArg            (* { return x } for the only parameter x *)
| BReturnsEmptyClosure   (* { return func(...) {} } *)
| BReturnsZeroStruct     (* { return T{} } *)
| BOther.
