(* TypeCache.v -- model of the process-wide cache of type nodes,
   internal/reflect/ttype.go:

     type ttypesK struct { T string; S reflect.Type }
     var ttypes = map[ttypesK]*tType{}
     func newTType(x *defs.Type) *tType {
         k := ttypesK{T: x.String(), S: x.S}
         if t := ttypes[k]; t != nil { return t }
         t := &tType{}; ttypes[k] = t
         ... fill t from x.T, x.Tag(), x.IsEnum(), x.S ...
         if x.K != nil { t.K = newTType(x.K) }
         if x.V != nil { t.V = newTType(x.V) }
         ...
         return t }

   and of Type.String() of package defs (internal/defs/types.go), the T part of the key.

   A defs.Type carries its Go type in the field S; doParseType sets S to the
   Go type it is matching at every level (vt for the node, vt.Key() / vt.Elem()
   for K / V).  The [dtype] of Tags.v has no S field, so every function here
   takes the Go type next to the [dtype] and walks the two in parallel:
   x.K.S is [sub_k vt], x.V.S is [sub_v vt]  (this is how go_shape of
   proofs/TagsStruct.v relates them).

   The composition of the key (which of T and S take part) is a parameter of
   the model; what the Go source says it is made of is read by the translator
   on every run (gen/CacheKey.v, checked in CacheChecks.v). *)
From Coq Require Import List NArith Bool.
From Frugal Require Import Bytes Values Desc Tags.
Import ListNotations.
Open Scope N_scope.

(* ---- x.K.S and x.V.S ---- *)
Definition sub_k (vt : gotype) : gotype :=
  match vt with GMap k _ => k | _ => GUnsup 0 end.           (* vt.Key() *)
Definition sub_v (vt : gotype) : gotype :=
  match vt with GMap _ v => v | GSlice e => e | GPtr e => e | _ => GUnsup 0 end.   (* vt.Elem() *)

Definition dt_k (d : dtype) : option dtype := match d with DT _ k _ _ => k end.
Definition dt_v (d : dtype) : option dtype := match d with DT _ _ v _ => v end.

(* ---- Type.String() of package defs ---- *)
Definition s_bool : str := [98; 111; 111; 108].                 (* "bool" *)
Definition s_i8 : str := [105; 56].                             (* "i8" *)
Definition s_double : str := [100; 111; 117; 98; 108; 101].     (* "double" *)
Definition s_i16 : str := [105; 49; 54].                        (* "i16" *)
Definition s_i32 : str := [105; 51; 50].                        (* "i32" *)
Definition s_i64 : str := [105; 54; 52].                        (* "i64" *)
Definition s_string : str := [115; 116; 114; 105; 110; 103].    (* "string" *)
Definition s_enum : str := [101; 110; 117; 109].                (* "enum" *)
Definition s_binary : str := [98; 105; 110; 97; 114; 121].      (* "binary" *)
Definition s_map_lt : str := [109; 97; 112; 60].                (* "map<" *)
Definition s_set_lt : str := [115; 101; 116; 60].               (* "set<" *)
Definition s_list_lt : str := [108; 105; 115; 116; 60].         (* "list<" *)
Definition c_colon : N := 58.                                   (* ':' *)
Definition c_gt : N := 62.                                      (* '>' *)
Definition c_star : N := 42.                                    (* '*' *)

(* One case per tag, as in the Go switch.  t.S.Name() is [go_name vt].  Where
   the Go code would dereference a nil K / V (t.K.String() on a nil *Type
   panics) the model prints nothing; doParseType never builds such a Type
   (go_shape excludes it).  The Go default case (an unknown tag number) has no
   counterpart: [dtag] has exactly the fourteen tags. *)
Fixpoint dt_string (vt : gotype) (d : dtype) {struct d} : str :=
  match d with
  | DT t k v _ =>
      match t with
      | DBool => s_bool
      | DI8 => s_i8
      | DDouble => s_double
      | DI16 => s_i16
      | DI32 => s_i32
      | DI64 => s_i64
      | DString => s_string
      | DStruct => go_name vt
      | DMap =>
          match k, v with
          | Some k', Some v' =>
              s_map_lt ++ dt_string (sub_k vt) k' ++ c_colon :: dt_string (sub_v vt) v' ++ [c_gt]
          | _, _ => []
          end
      | DSet => match v with Some v' => s_set_lt ++ dt_string (sub_v vt) v' ++ [c_gt] | None => [] end
      | DList => match v with Some v' => s_list_lt ++ dt_string (sub_v vt) v' ++ [c_gt] | None => [] end
      | DEnum => s_enum
      | DBinary => s_binary
      | DPointer => match v with Some v' => c_star :: dt_string (sub_v vt) v' | None => [] end
      end
  end.

(* ---- the key ---- *)
Fixpoint gotype_eqb (a b : gotype) {struct a} : bool :=
  match a, b with
  | GBool, GBool | GInt, GInt | GInt8, GInt8 | GInt16, GInt16 | GInt32, GInt32
  | GFloat64, GFloat64 | GString, GString | GUint8, GUint8 => true
  | GInt64 n, GInt64 m => str_eqb n m
  | GSlice x, GSlice y => gotype_eqb x y
  | GMap k v, GMap k' v' => gotype_eqb k k' && gotype_eqb v v'
  | GPtr x, GPtr y => gotype_eqb x y
  | GStruct s n, GStruct s' n' => (s =? s') && str_eqb n n'
  | GUnsup k, GUnsup k' => k =? k'
  | _, _ => false
  end.

(* ttypesK with the fields that take part; a field left out of the key
   literal has its zero value ("" / nil) in every key *)
Definition ckey_t : Type := (str * option gotype)%type.

Definition ckey (hasT hasS : bool) (vt : gotype) (d : dtype) : ckey_t :=
  (if hasT then dt_string vt d else [], if hasS then Some vt else None).

Definition key_eqb (a b : ckey_t) : bool :=
  str_eqb (fst a) (fst b)
  && match snd a, snd b with
     | Some x, Some y => gotype_eqb x y
     | None, None => true
     | _, _ => false
     end.

(* ---- nodes ---- *)
(* What newTType stores in a tType that is not a function of the rest:
   Tag = x.T, RT = x.S, K, V.  Every other field is computed from these (see
   [node_wire], [node_ty] and the note at the end of the file).
   [NOpen] stands for a pointer to a tType that is still under construction:
   the Go code stores the empty node in the map BEFORE it descends into K and
   V, so a lookup made from inside the descent can return it (the result is
   then a cyclic structure). *)
Inductive node : Type :=
| Node (tag : dtag) (rt : gotype) (k v : option node)
| NOpen.

(* the node newTType builds from x when nothing it needs is cached: a function of x alone *)
Fixpoint node_of (vt : gotype) (d : dtype) {struct d} : node :=
  match d with
  | DT t k v _ =>
      Node t vt
           (match k with Some k' => Some (node_of (sub_k vt) k') | None => None end)
           (match v with Some v' => Some (node_of (sub_v vt) v') | None => None end)
  end.

(* t.T / t.WT = ttype(x.Tag()): the wire tag, looking through enum / binary / pointer *)
Fixpoint node_wire (n : node) : dtag :=
  match n with
  | Node DEnum _ _ _ => DI32
  | Node DBinary _ _ _ => DString
  | Node DPointer _ _ (Some v) => node_wire v
  | Node t _ _ _ => t
  | NOpen => DBool
  end.

(* the schema type the codec works with (Desc.v), read off the node; a struct
   node names its struct by RT, as in Go (t.Sd is looked up from t.RT) *)
Fixpoint node_ty (n : node) : ty :=
  match n with
  | NOpen => TBool
  | Node t rt k v =>
      match t with
      | DBool => TBool | DI8 => TI8 | DDouble => TDouble | DI16 => TI16
      | DI32 => TI32 | DI64 => TI64 | DString => TString
      | DEnum => TEnum | DBinary => TBinary
      | DStruct => TStruct (match rt with GStruct s _ => s | _ => 0 end)
      | DMap => match k, v with Some k', Some v' => TMap (node_ty k') (node_ty v') | _, _ => TBool end
      | DSet => match v with Some v' => TList true (node_ty v') | None => TBool end
      | DList => match v with Some v' => TList false (node_ty v') | None => TBool end
      | DPointer => match v with Some v' => TPtr (node_ty v') | None => TBool end
      end
  end.

(* ---- the cache: the Go map as an association list ---- *)
Definition cache : Type := list (ckey_t * node).

Fixpoint lookup (key : ckey_t) (c : cache) : option node :=
  match c with
  | [] => None
  | (k, n) :: r => if key_eqb key k then Some n else lookup key r
  end.

(* the fields of the node stored under [key] are assigned through the pointer *)
Definition fill (key : ckey_t) (n : node) (c : cache) : cache :=
  map (fun e : ckey_t * node => if key_eqb (fst e) key then (key, n) else e) c.

(* newTType.  On a miss the empty node is stored first ([NOpen]), then K and V
   are built with the cache threaded through, then the node is complete: the
   entry of the key shows the finished node. *)
Fixpoint new_ttype (hasT hasS : bool) (c : cache) (vt : gotype) (d : dtype) {struct d} : cache * node :=
  let key := ckey hasT hasS vt d in
  match lookup key c with
  | Some n => (c, n)                                            (* if t := ttypes[k]; t != nil *)
  | None =>
      match d with
      | DT t k v _ =>
          let c0 := (key, NOpen) :: c in                        (* ttypes[k] = t *)
          let '(c1, kn) :=
            match k with                                        (* if x.K != nil *)
            | Some k' => let '(c', n) := new_ttype hasT hasS c0 (sub_k vt) k' in (c', Some n)
            | None => (c0, None)
            end in
          let '(c2, vn) :=
            match v with                                        (* if x.V != nil *)
            | Some v' => let '(c', n) := new_ttype hasT hasS c1 (sub_v vt) v' in (c', Some n)
            | None => (c1, None)
            end in
          let n := Node t vt kn vn in
          (fill key n c2, n)
      end
  end.

(* "if x.K != nil { t.K = newTType(x.K) }" on its own, for the unfolding lemma *)
Definition new_opt (hasT hasS : bool) (c : cache) (vt : gotype) (od : option dtype) : cache * option node :=
  match od with
  | Some d => let '(c', n) := new_ttype hasT hasS c vt d in (c', Some n)
  | None => (c, None)
  end.

(* a call history: requests served one after the other by the same cache *)
Fixpoint serve (hasT hasS : bool) (c : cache) (reqs : list (gotype * dtype)) : cache * list node :=
  match reqs with
  | [] => (c, [])
  | (vt, d) :: r =>
      let '(c1, n) := new_ttype hasT hasS c vt d in
      let '(c2, ns) := serve hasT hasS c1 r in
      (c2, n :: ns)
  end.

(* the node a fresh process returns *)
Definition fresh_node (hasT hasS : bool) (vt : gotype) (d : dtype) : node :=
  snd (new_ttype hasT hasS [] vt d).

(* Left out of the node on purpose.  newTType also sets
     T (= ttype(x.Tag()), tENUM when x.IsEnum()), WT, IsPointer, SimpleType, FixedSize
                                     functions of Tag and of V's node ([node_wire]);
     Size, Align, MallocAbiType, RV  functions of RT = x.S;
     EncodedSizeFunc, AppendFunc (updateListAppendFunc / updateMapAppendFunc),
     MapTmpVarsPool                  chosen by T and by the K / V nodes;
     Sd (set by the struct-descriptor code) looked up from RT.
   All are determined by (Tag, RT, K, V), so two nodes equal as [node]s agree
   on them.  The final check "if t.IsPointer && t.V.IsPointer { panic }" is not
   modelled: doParseType rejects pointers to pointers (go_shape), so newTType
   never sees one. *)
