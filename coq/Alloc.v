(* Alloc.v -- internal/reflect/span.go (bump allocator over pointer-free
   blocks) and tDecoder.Malloc (decoder.go): which request is served from
   where.  Addresses are (block ordinal, offset); a block's base address is
   assumed aligned to 8 (what runtime.mallocgc provides for these sizes), so
   alignment offsets depend only on the offset inside the block. *)
From Coq Require Import List NArith Bool.
From Frugal.gen Require Import Params.
Import ListNotations.
Open Scope N_scope.

Record span := mkSpan { sp_blk : N; sp_p : N; sp_n : N }.

Definition span_init : span := mkSpan 0 0 defaultDecoderMemSize.

Record region := mkRegion { rg_blk : N; rg_off : N; rg_len : N }.

(* span.Malloc(n, align): align is 1, 2, 4 or 8 *)
Definition span_malloc (s : span) (n align : N) : span * region :=
  let mask := align - 1 in
  let s1 := if sp_n s <? sp_p s + n + mask
            then mkSpan (sp_blk s + 1) 0 (N.max defaultDecoderMemSize (n + mask))
            else s in
  (* off = aligned(ret) - ret with ret = base + p, base aligned to 8 *)
  let off := (align - sp_p s1 mod align) mod align in
  (mkSpan (sp_blk s1) (sp_p s1 + n + off) (sp_n s1), mkRegion (sp_blk s1) (sp_p s1 + off) n).

Fixpoint span_run (s : span) (reqs : list (N * N)) : list region :=
  match reqs with
  | [] => []
  | (n, a) :: r => let '(s', g) := span_malloc s n a in g :: span_run s' r
  end.

(* two regions share no byte *)
Definition disjoint (a b : region) : bool :=
  negb (rg_blk a =? rg_blk b) || (rg_off a + rg_len a <=? rg_off b) || (rg_off b + rg_len b <=? rg_off a)
  || (rg_len a =? 0) || (rg_len b =? 0).

Fixpoint pairwise_disjoint (l : list region) : bool :=
  match l with
  | [] => true
  | g :: r => forallb (disjoint g) r && pairwise_disjoint r
  end.

Definition align_ok (a : N) : bool := (a =? 1) || (a =? 2) || (a =? 4) || (a =? 8).

(* tDecoder.Malloc: large or pointer-bearing requests go to the typed heap,
   each in a block of its own *)
Inductive where_ := InSpan | OwnBlock.
Definition malloc_where (n : N) (typed : bool) : where_ :=
  if (defaultDecoderMemSize / 8 <? n) || typed then OwnBlock else InSpan.

(* scan class (ttype.go newTType: MallocAbiType): Go kinds whose memory may
   hold pointers must be allocated typed *)
Inductive gokind := KBool | KInt | KFloat | KString | KSlice | KMap | KPtr | KStruct | KArray.
Definition kind_has_pointers (k : gokind) : bool :=
  match k with KBool | KInt | KFloat => false | _ => true end.
Definition kind_typed (k : gokind) : bool :=      (* the switch in newTType *)
  match k with KArray | KMap | KPtr | KSlice | KString | KStruct => true | _ => false end.
