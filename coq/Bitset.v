(* Bitset.v -- internal/reflect/bitset.go: 1024 words of 64 bits indexed by a
   16-bit field id with shift/mask arithmetic.  Words are N below 2^64. *)
From Coq Require Import List NArith Bool.
Import ListNotations.
Open Scope N_scope.

Definition bitset := list N.      (* 1024 words *)
Definition bs_words : nat := 1024.
Definition bs_zero : bitset := repeat 0 bs_words.

Definition bs_x (i : N) : nat := N.to_nat (N.shiftr i 6).     (* i >> 6 *)
Definition bs_y (i : N) : N := N.land i 63.                    (* i & 63 *)
Definition mask64 (w : N) : N := w mod 2 ^ 64.

Fixpoint upd (l : list N) (k : nat) (f : N -> N) : list N :=
  match l, k with
  | [], _ => []
  | w :: r, O => f w :: r
  | w :: r, S k' => w :: upd r k' f
  end.

Definition bs_set (s : bitset) (i : N) : bitset :=
  upd s (bs_x i) (fun w => mask64 (N.lor w (N.shiftl 1 (bs_y i)))).
Definition bs_unset (s : bitset) (i : N) : bitset :=
  upd s (bs_x i) (fun w => N.ldiff w (N.shiftl 1 (bs_y i))).
Definition bs_test (s : bitset) (i : N) : bool :=
  negb (N.land (nth (bs_x i) s 0) (N.shiftl 1 (bs_y i)) =? 0).

Definition bs_wf (s : bitset) : Prop := length s = bs_words /\ Forall (fun w => w < 2 ^ 64) s.

(* operation sequences, as the verification hook runs them: 0 set, 1 unset, 2 test *)
Fixpoint bs_run (s : bitset) (ops : list (N * N)) : list bool :=
  match ops with
  | [] => []
  | (o, i) :: r =>
      if o =? 0 then bs_run (bs_set s i) r
      else if o =? 1 then bs_run (bs_unset s i) r
      else bs_test s i :: bs_run s r
  end.

(* the abstract view: a set of ids *)
Fixpoint set_run (s : list N) (ops : list (N * N)) : list bool :=
  match ops with
  | [] => []
  | (o, i) :: r =>
      if o =? 0 then set_run (i :: s) r
      else if o =? 1 then set_run (filter (fun j => negb (j =? i)) s) r
      else existsb (N.eqb i) s :: set_run s r
  end.
