(* Checks.v -- decidable side conditions on the generated files.  Each is
   discharged by vm_compute in proofs/Gen{Params,EncParams,DecParams,Depth,DepthOdd,Tables,Legacy,Access}.v, so it is re-proved against what
   the Go sources say on every run; the theorems use only these facts about
   the generated constants and tables. *)
From Coq Require Import List NArith Bool String.
From Frugal Require Import Bytes Wire Skip Values Desc Routines Spec Encode LegacyDefs.
From Frugal.gen Require Import Params Tables Legacy Access.
Import ListNotations.
Open Scope N_scope.

(* ---- constants ---- *)
Definition codes_ok : bool :=
  (tSTOP =? cSTOP) && (tBOOL =? cBOOL) && (tBYTE =? cBYTE) && (tDOUBLE =? cDOUBLE) && (tI16 =? cI16)
  && (tI32 =? cI32) && (tI64 =? cI64) && (tSTRING =? cSTRING) && (tSTRUCT =? cSTRUCT) && (tMAP =? cMAP)
  && (tSET =? cSET) && (tLIST =? cLIST)
  && negb (memN tENUM [cSTOP; cBOOL; cBYTE; cDOUBLE; cI16; cI32; cI64; cSTRING; cSTRUCT; cMAP; cSET; cLIST])
  && (tENUM <? 256)
  && (fieldHeaderLen =? 3) && (mapHeaderLen =? 6) && (listHeaderLen =? 5) && (strHeaderLen =? 4).

Definition scalar_tys : list ty := [TBool; TI8; TI16; TI32; TI64; TDouble; TEnum].
Definition wire_width (t : ty) : N :=
  match t with TBool | TI8 => 1 | TI16 => 2 | TI32 | TEnum => 4 | TI64 | TDouble => 8 | _ => 0 end.
Definition other_tys : list ty :=
  [TString; TBinary; TList false TI32; TList true TI32; TMap TI32 TI32; TStruct 0].

(* typeToSize: exactly the encoded width for the scalar kinds, 0 for the others *)
Definition fixed_ok : bool :=
  forallb (fun t => fixed_size t =? wire_width t) scalar_tys
  && forallb (fun t => fixed_size t =? 0) other_tys.

Definition simple_ok : bool :=
  forallb simple_type (scalar_tys ++ [TString; TBinary])
  && forallb (fun t => negb (simple_type t)) [TList false TI32; TList true TI32; TMap TI32 TI32; TStruct 0]
  && forallb is_container [TList false TI32; TList true TI32; TMap TI32 TI32]
  && forallb (fun t => negb (is_container t)) (scalar_tys ++ [TString; TBinary; TStruct 0]).

(* minWireSize: positive (it is a divisor) and never more than the smallest
   encoding of a value with that code; equal to the width for fixed kinds
   (list elements of fixed kinds are read without a further check) *)
Definition wire_codes : list N :=
  [cBOOL; cBYTE; cDOUBLE; cI16; cI32; cI64; cSTRING; cSTRUCT; cMAP; cSET; cLIST].
Definition minwire_ok : bool :=
  forallb (fun c => (0 <? min_wire c) && (min_wire c <=? min_size c)) wire_codes
  && forallb (fun t => min_wire (wt t) =? wire_width t) scalar_tys.

(* the promise of C15: 48 levels of any mixture fit into both budgets *)
Definition depth_ok : bool :=
  (2 * 48 + 2 <=? maxDepthLimit) && (48 <? gk_defaultRecursionDepth) && (maxDepthLimit <? 65536).

Definition gk_ok : bool :=
  (gk_STOP =? cSTOP) && (gk_STRING =? cSTRING) && (gk_STRUCT =? cSTRUCT) && (gk_MAP =? cMAP)
  && (gk_SET =? cSET) && (gk_LIST =? cLIST)
  && forallb (fun c => gk_size c =? (if memN c [cBOOL; cBYTE; cDOUBLE; cI16; cI32; cI64] then min_size c else 0))
             (wire_codes ++ [0; 1; 5; 7; 9; 16; 17; 127]).

Definition params_ok : bool := codes_ok && fixed_ok && simple_ok && minwire_ok && depth_ok && gk_ok.

(* The groups the theorems actually assume (proofs/ParamsSplit.v relates them
   to [params_ok]); each has its own vm_compute lemma in proofs/Gen*.v, so a
   change that falsifies one component takes away only the proofs that use it.
   - [enc_params_ok]: the encoder and size theorems (type codes, header
     lengths, typeToSize, the simple/container tables);
   - [dec_params_ok]: the decoder and skipper theorems (additionally
     minWireSize, the gopkg skipper's constants, and a depth budget that is not
     zero -- with a zero budget even the empty input is a depth error);
   - [depth_ok] (above): the promise that 48 levels are accepted;
   - [depth_odd_ok]: not part of [params_ok]; maxDepthLimit is odd, which is
     what lets [roundtrip] state its bound as 2 * vdepth + 1 rather than + 2. *)
Definition enc_params_ok : bool := codes_ok && fixed_ok && simple_ok.
Definition depth_pos_ok : bool := 0 <? maxDepthLimit.
Definition dec_params_ok : bool :=
  codes_ok && fixed_ok && simple_ok && minwire_ok && gk_ok && depth_pos_ok.
Definition depth_odd_ok : bool := N.odd maxDepthLimit.

(* ---- dispatch tables ---- *)
Definition wr_eqb (a b : wr) : bool :=
  match a, b with
  | WrBool, WrBool | WrByte, WrByte | WrU16, WrU16 | WrU32, WrU32 | WrU64, WrU64
  | WrEnum, WrEnum | WrStr, WrStr | WrFunc, WrFunc | WrAny, WrAny | WrBad, WrBad => true
  | _, _ => false
  end.

(* writer w produces the Thrift encoding of every well-typed value of type t *)
Definition wr_ok (t : ty) (w : wr) : bool :=
  match w with
  | WrFunc | WrAny => true
  | WrBad => false
  | _ =>
      match t with
      | TBool => wr_eqb w WrBool || wr_eqb w WrByte
      | TI8 => wr_eqb w WrByte
      | TI16 => wr_eqb w WrU16
      | TI32 => wr_eqb w WrU32
      | TI64 | TDouble => wr_eqb w WrU64
      | TEnum => wr_eqb w WrEnum
      | TString | TBinary => wr_eqb w WrStr
      | _ => false
      end
  end.

(* a range loop over a cast map type is sound only if the cast type hashes
   and lays out keys and values like the real type: not for double keys
   (float hashing differs), not for []byte values (24-byte slots) *)
Definition is_scalar_or_string (t : ty) : bool :=
  match t with
  | TBool | TI8 | TI16 | TI32 | TI64 | TDouble | TEnum | TString => true
  | _ => false
  end.

Definition iter_ok (kt vt : ty) (r : mroutine) : bool :=
  match m_iter r with
  | ItReflect => true
  | ItRange =>
      negb (match kt with TDouble => true | _ => false end)
      && negb (is_binary vt)
      && is_scalar_or_string kt && is_scalar_or_string vt
  | ItBad => false
  end.

(* one representative type per routine-selecting kind; struct pointers stand
   for every non-simple key, containers and structs for every non-simple value *)
Definition key_reps : list ty :=
  [TBool; TI8; TI16; TI32; TI64; TDouble; TEnum; TString; TPtr (TStruct 0)].
Definition elem_reps : list ty :=
  [TBool; TI8; TI16; TI32; TI64; TDouble; TEnum; TString; TBinary;
   TPtr (TStruct 0); TStruct 0; TList false TI32; TList true TI32; TMap TI32 TI32].

Definition list_tables_ok : bool :=
  forallb (fun e => let r := list_routine (kind e) in l_shape r && wr_ok e (l_elem r)) elem_reps.

Definition map_tables_ok : bool :=
  forallb (fun k =>
    forallb (fun v =>
      let r := map_routine k v in
      m_shape r && wr_ok k (m_key r) && wr_ok v (m_val r) && iter_ok k v r) elem_reps) key_reps.

(* appendAny's switch writes every simple kind in its wire form *)
Definition simple_tables_ok : bool :=
  forallb (fun t => wr_ok t (simple_wr (kind t)) && negb (wr_eqb (simple_wr (kind t)) WrFunc)
                    && negb (wr_eqb (simple_wr (kind t)) WrAny))
          [TBool; TI8; TI16; TI32; TI64; TDouble; TEnum; TString; TBinary].

Definition tables_ok : bool := list_tables_ok && map_tables_ok && simple_tables_ok.

(* ---- legacy controls ---- *)
Definition body_eqb (a b : body) : bool :=
  match a, b with
  | BReturnsNil, BReturnsNil | BEmpty, BEmpty | BReturnsArg, BReturnsArg
  | BReturnsEmptyClosure, BReturnsEmptyClosure | BReturnsZeroStruct, BReturnsZeroStruct => true
  | _, _ => false
  end.

Definition legacy_ok : bool :=
  body_eqb (legacy_body LPretouch) BReturnsNil
  && body_eqb (legacy_body LNoJIT) BEmpty
  && body_eqb (legacy_body LWithMaxInlineDepth) BReturnsEmptyClosure
  && body_eqb (legacy_body LWithMaxInlineILSize) BReturnsEmptyClosure
  && body_eqb (legacy_body LWithMaxPretouchDepth) BReturnsEmptyClosure
  && body_eqb (legacy_body LSetMaxInlineDepth) BReturnsArg
  && body_eqb (legacy_body LSetMaxInlineILSize) BReturnsArg
  && body_eqb (legacy_body LGetStats) BReturnsZeroStruct
  && opts_imported_only_by_options_go && opts_used_only_as_type
  && negb env_read_outside_opts && parseOrDefault_shape && negb opts_vars_referenced_outside
  (* each FRUGAL_MAX_INLINE_* variable is parsed on its own, against constant (default, minimum) *)
  && (match env_vars with [(d1, m1); (d2, m2)] => (m1 <? d1) && (m2 <? d2) | _ => false end).

(* ---- access discipline of the package-level state (internal/reflect) ---- *)
Open Scope string_scope.
Definition str_in (s : string) (l : list string) : bool := existsb (String.eqb s) l.
Definition subset (a b : list string) : bool := forallb (fun s => str_in s b) a.

Fixpoint writers_of (g : string) (gs : list (string * list string * list string)) : list string :=
  match gs with
  | [] => []
  | (n, ws, _) :: r => if String.eqb n g then ws else writers_of g r
  end.
Fixpoint readers_of (g : string) (gs : list (string * list string * list string)) : list string :=
  match gs with
  | [] => []
  | (n, _, rs) :: r => if String.eqb n g then rs else readers_of g r
  end.
Fixpoint callees_of (f : string) (cs : list (string * list string)) : list string :=
  match cs with
  | [] => []
  | (n, l) :: r => if String.eqb n f then l else callees_of f r
  end.
Definition callers_of (f : string) : list string :=
  map fst (filter (fun c => str_in f (snd c)) calls).

(* functions that run only with sdsmu held.  Computed, not listed: U is what the entry points reach
   in the syntactic call graph without going through createStructDesc (call sites name methods
   by their bare name, so a callee stands for every function or method of that name: U is an
   over-approximation); a function is locked when it is not in U.  Extracting a helper out of a
   locked function keeps it locked; calling a locked function from unlocked code does not. *)
Definition has_base (q b : string) : bool :=
  String.eqb q b
  || (let lq := String.length q in let lb := S (String.length b) in
      Nat.leb lb lq && String.eqb (String.substring (lq - lb) lb q) ("." ++ b)).
Definition all_fns : list string := map fst calls.
(* entry points: the exported package-level functions (reflect.go: EncodedSize, Append, Decode) *)
Definition is_upper (a : Ascii.ascii) : bool :=
  let n := Ascii.nat_of_ascii a in Nat.leb 65 n && Nat.leb n 90.
Definition exported_fn (q : string) : bool :=
  match q with
  | String.String a _ => is_upper a && negb (existsb (fun f => negb (String.eqb f q) && has_base q f) all_fns)
                         && match String.index 0 "." q with None => true | Some _ => false end
  | String.EmptyString => false
  end.
(* ... and the package's init functions and the initialisers of package-level variables
   (pseudo functions "var@name": closures such as sync.Pool.New live there): they run unlocked, and they are where the encoder
   routines, which are otherwise only called through function values, are mentioned *)
Definition entry_points : list string :=
  filter (fun q => exported_fn q || String.prefix "init@" q || String.prefix "var@" q) all_fns.
(* one edge of the syntactic call graph, cut at createStructDesc *)
Definition edge (p q : string) : bool :=
  negb (String.eqb p "createStructDesc") && existsb (has_base q) (callees_of p calls).
Definition reach_step (u : list string) : list string :=
  u ++ filter (fun q => negb (str_in q u) && existsb (fun p => edge p q) u) all_fns.
(* iterate until nothing is added (at most once per function); that the result is a fixed point
   is not assumed but checked (closed_under below) *)
Fixpoint reach_fix (n : nat) (u : list string) : list string :=
  match n with
  | O => u
  | S k => let u' := reach_step u in
           if Nat.eqb (List.length u') (List.length u) then u else reach_fix k u'
  end.
Definition unlocked_fns : list string := reach_fix (List.length all_fns) entry_points.
Definition locked_fns : list string :=
  filter (fun q => negb (str_in q unlocked_fns) && negb (String.eqb q "createStructDesc")) all_fns.
(* U contains the entry points and is closed under the edges (so the iteration reached its fixed
   point), and no locked function is in U: what proofs/LockReach.v needs to conclude that no call
   path from an entry point that avoids createStructDesc ends in a locked function.  Stated over
   arbitrary lists so that the proof never unfolds the computed ones. *)
Definition closed_under (entries fns : list string) (e : string -> string -> bool) (u : list string) : bool :=
  subset entries u && forallb (fun p => forallb (fun q => negb (e p q) || str_in q u) fns) u.
Definition disjoint (a b : list string) : bool := forallb (fun q => negb (str_in q b)) a.
(* the construction itself is reached (it would be vacuous otherwise) and createStructDesc is how *)
Definition locked_closed : bool :=
  closed_under entry_points all_fns edge unlocked_fns && disjoint locked_fns unlocked_fns
  && str_in "createStructDesc" unlocked_fns && str_in "newTType" locked_fns && str_in "newStructDescAndPrefetch" locked_fns
  && str_in "rollbackPending" locked_fns && str_in "commitPending" locked_fns.

Definition init_only (ws : list string) : bool :=
  forallb (fun w => String.prefix "init@" w || str_in w ["registerListAppendFunc"; "registerMapAppendFunc"]) ws.

Definition access_ok : bool :=
  create_locked_shape && descmap_get_shape && descmap_set_shape && descmap_slots_atomic
  && locked_closed
  (* the two plain maps are touched only under the lock *)
  && subset (readers_of "ttypes" globals) locked_fns
  && subset (readers_of "prefetchStructDescCache" globals) locked_fns
  && subset (readers_of "pendingTypes" globals) locked_fns && subset (readers_of "pendingNodes" globals) locked_fns
  (* the descriptor map is written only by createStructDesc: any other function calling something
     named Set (reflect.Value.Set on the scratch copy) does not mention sds *)
  && forallb (fun c => String.eqb c "createStructDesc" || negb (str_in c (readers_of "sds" globals))) (callers_of "Set")
  (* tType.Sd is assigned only while building under the lock *)
  && subset sd_writers locked_fns
  (* the registration tables and hackErrMsg are written during package init only *)
  && init_only (writers_of "listAppendFuncs" globals) && init_only (writers_of "mapAppendFuncs" globals)
  && subset (callers_of "registerListAppendFunc") (filter (String.prefix "init@") (map fst calls))
  && subset (callers_of "registerMapAppendFunc") (filter (String.prefix "init@") (map fst calls))
  && init_only (writers_of "hackErrMsg" globals)
  (* no other package-level variable is ever assigned *)
  && forallb (fun g => let '(n, ws, _) := g in
                match ws with
                | [] => true
                | _ => str_in n ["ttypes"; "prefetchStructDescCache"; "listAppendFuncs"; "mapAppendFuncs"; "hackErrMsg"]
                       || (str_in n ["pendingTypes"; "pendingNodes"] && subset ws locked_fns)
                end) globals
  (* every pooled object is put back by the function that took it *)
  && forallb (fun u => let '(_, _, paired) := u in paired) pool_uses.
Close Scope string_scope.
