(* Desc.v -- the per-type descriptor frugal builds from the struct tags
   (internal/reflect/desc.go, ttype.go): types, fields, struct descriptors,
   derived flags and tables, zero values, typing of Go values. *)
From Coq Require Import List NArith Bool.
From Frugal Require Import Bytes Values.
From Frugal.gen Require Import Params.
Import ListNotations.
Open Scope N_scope.

Inductive ty : Type :=
| TBool | TI8 | TI16 | TI32 | TI64 | TDouble
| TEnum                       (* Go named int64, i32 on the wire *)
| TString | TBinary
| TList (isset : bool) (e : ty)
| TMap (k v : ty)
| TStruct (sid : N)           (* struct stored by value *)
| TPtr (t : ty).              (* pointer: to a struct, or (optional fields) to a scalar/string/binary *)

Inductive req := RDefault | RRequired | ROptional.

Record field := mkField {
  fid : N;                  (* 0..65535 *)
  fty : ty;
  freq : req;
  fnocopy : bool;
  fdflt : option val        (* tField.Default: the field's value in a default-initialised exemplar *)
}.

Record sdesc := mkSdesc {
  sfields : list field;               (* sorted by id *)
  sholder : bool;                     (* has the _unknownFields []byte holder *)
  sinit : option (list (nat * val))   (* InitDefault: assignments (field index, value) *)
}.

Definition senv := list sdesc.
Definition lookup_sd (env : senv) (sid : N) : option sdesc :=
  if len env <=? sid then None else nth_error env (N.to_nat sid).

Definition req_eqb (a b : req) : bool :=
  match a, b with
  | RDefault, RDefault | RRequired, RRequired | ROptional, ROptional => true
  | _, _ => false
  end.

(* tType.WT: the code written on the wire *)
Fixpoint wt (t : ty) : N :=
  match t with
  | TBool => tBOOL | TI8 => tBYTE | TI16 => tI16 | TI32 => tI32 | TI64 => tI64
  | TDouble => tDOUBLE | TEnum => tI32 | TString => tSTRING | TBinary => tSTRING
  | TList true _ => tSET | TList false _ => tLIST | TMap _ _ => tMAP
  | TStruct _ => tSTRUCT | TPtr t' => wt t'
  end.

(* tType.T: the kind that selects routines *)
Fixpoint kind (t : ty) : N :=
  match t with
  | TEnum => tENUM
  | TPtr t' => kind t'
  | _ => wt t
  end.

Fixpoint lookupN (k : N) (tab : list (N * N)) : N :=
  match tab with
  | [] => 0
  | (k', v) :: r => if k =? k' then v else lookupN k r
  end.
Definition memN (k : N) (l : list N) : bool := existsb (N.eqb k) l.

Definition fixed_size (t : ty) : N := lookupN (kind t) typeToSize_tab.   (* tType.FixedSize *)
Definition simple_type (t : ty) : bool := memN (kind t) simpleTypes_tab.  (* tType.SimpleType *)
Definition is_container (t : ty) : bool := memN (kind t) containerTypes_tab.
Definition min_wire (c : N) : N := lookupN c minWireSize_tab.
Definition is_ptr (t : ty) : bool := match t with TPtr _ => true | _ => false end.
Definition is_binary (t : ty) : bool := match t with TBinary => true | _ => false end.
Definition deref_ty (t : ty) : ty := match t with TPtr t' => t' | _ => t end.

(* tField.CanSkipEncodeIfNil / CanSkipIfDefault (desc.go fromDefsField) *)
Definition can_skip_nil (f : field) : bool :=
  req_eqb (freq f) ROptional && (is_ptr (fty f) || is_binary (fty f) || is_container (fty f)).
Definition can_skip_default (f : field) : bool :=
  req_eqb (freq f) ROptional && negb (is_ptr (fty f))
  && match fdflt f with Some _ => true | None => false end.

(* tField.EncodedSize: > 0 when the field's size is known from the type *)
Definition field_fixed_size (f : field) : N :=
  if is_ptr (fty f) then 0
  else if req_eqb (freq f) ROptional then 0
  else if 0 <? fixed_size (fty f) then fieldHeaderLen + fixed_size (fty f)
  else 0.

Definition fixed_len_field_size (sd : sdesc) : N :=
  fold_left (fun a f => a + field_fixed_size f) (sfields sd) 0.
Definition var_len_fields (sd : sdesc) : list field :=
  filter (fun f => field_fixed_size f =? 0) (sfields sd).
Definition required_ids (sd : sdesc) : list N :=
  map fid (filter (fun f => req_eqb (freq f) RRequired) (sfields sd)).

(* structDesc.GetField with the index of the matching entry *)
Fixpoint find_field (fs : list field) (id : N) (i : nat) : option (nat * field) :=
  match fs with
  | [] => None
  | f :: r => if fid f =? id then Some (i, f) else find_field r id (S i)
  end.
Definition get_field (sd : sdesc) (id : N) : option (nat * field) := find_field (sfields sd) id O.

(* ---- IEEE-754 double on bit patterns ---- *)
Definition dbl_is_nan (x : N) : bool := 9218868437227405312 <? x mod 2 ^ 63.   (* 0x7FF0000000000000 *)
Definition dbl_is_zero (x : N) : bool := x mod 2 ^ 63 =? 0.
Definition dbl_eq (a b : N) : bool :=
  if dbl_is_nan a || dbl_is_nan b then false
  else if dbl_is_zero a && dbl_is_zero b then true
  else a =? b.

(* tType.Equal (ttype.go): comparison used for skip-if-default *)
Definition go_equal (t : ty) (a b : val) : bool :=
  match a, b with
  | VS x, VS y =>
      match t with
      | TDouble => dbl_eq x y
      | TBool | TI8 | TI16 | TI32 | TI64 | TEnum => x =? y
      | _ => false
      end
  | VB _ s, VB _ s' =>
      match t with
      | TString | TBinary => bytes_eqb s s'
      | _ => false
      end
  | _, _ => false
  end.

(* Go map key equality *)
Definition key_eq (kt : ty) (a b : val) : bool :=
  match a, b with
  | VS x, VS y => match kt with TDouble => dbl_eq x y | _ => x =? y end
  | VB _ s, VB _ s' => bytes_eqb s s'
  | _, _ => false      (* pointer keys: distinct objects *)
  end.

(* ---- zero values and default initialisation ---- *)
Fixpoint zero (fuel : nat) (env : senv) (t : ty) : val :=
  match t with
  | TString => VB false []
  | TBinary => VB true []
  | TList _ _ => VL None
  | TMap _ _ => VM None
  | TPtr _ => VP None
  | TStruct sid =>
      match fuel with
      | O => VT [] []
      | S fuel' =>
          match lookup_sd env sid with
          | Some sd => VT (map (fun f => zero fuel' env (fty f)) (sfields sd)) []
          | None => VT [] []
          end
      end
  | _ => VS 0
  end.
Definition zero_of (env : senv) (t : ty) : val := zero (S (length env)) env t.

Fixpoint set_nth {A} (l : list A) (i : nat) (x : A) : list A :=
  match l, i with
  | [], _ => []
  | _ :: r, O => x :: r
  | y :: r, S i' => y :: set_nth r i' x
  end.

(* run InitDefault over an existing struct value *)
Definition apply_init (sd : sdesc) (v : val) : val :=
  match sinit sd, v with
  | Some asg, VT fs h => VT (fold_left (fun fs iv => set_nth fs (fst iv) (snd iv)) asg fs) h
  | _, _ => v
  end.

(* a fresh destination: zero, default-initialised when the type declares defaults *)
Definition fresh (env : senv) (sid : N) : val :=
  match lookup_sd env sid with
  | Some sd => apply_init sd (zero_of env (TStruct sid))
  | None => VT [] []
  end.

(* ---- typing of values ---- *)
Section Zip.
  Variable g : field -> val -> bool.
  Fixpoint fields_all (fds : list field) (vs : list val) {struct vs} : bool :=
    match vs, fds with
    | [], [] => true
    | v :: vr, fd :: fr => g fd v && fields_all fr vr
    | _, _ => false
    end.
End Zip.

Fixpoint keys_nodup (kt : ty) (m : list (val * val)) : bool :=
  match m with
  | [] => true
  | (k, _) :: r => negb (existsb (fun kv => key_eq kt k (fst kv)) r) && keys_nodup kt r
  end.

Definition width_bits (t : ty) : N :=
  match t with
  | TBool | TI8 => 8 | TI16 => 16 | TI32 => 32 | _ => 64
  end.

Fixpoint has_type (env : senv) (t : ty) (v : val) {struct v} : bool :=
  match v with
  | VS x =>
      match t with
      | TBool => x <? 2
      | TI8 | TI16 | TI32 | TI64 | TDouble | TEnum => x <? 2 ^ width_bits t
      | _ => false
      end
  | VB isnil s =>
      match t with
      | TString => negb isnil && bytes_ok s && lt31 (len s)
      | TBinary => bytes_ok s && lt31 (len s) && (negb isnil || (len s =? 0))
      | _ => false
      end
  | VL None => match t with TList _ _ => true | _ => false end
  | VL (Some l) =>
      match t with
      | TList _ e => forallb (has_type env e) l && lt31 (len l)
      | _ => false
      end
  | VM None => match t with TMap _ _ => true | _ => false end
  | VM (Some m) =>
      match t with
      | TMap kt vt =>
          forallb (fun kv : val * val => has_type env kt (fst kv) && has_type env vt (snd kv)) m
          && lt31 (len m) && keys_nodup kt m
      | _ => false
      end
  | VP None => match t with TPtr _ => true | _ => false end
  | VP (Some v') => match t with TPtr t' => has_type env t' v' | _ => false end
  | VT fs h =>
      match t with
      | TStruct sid =>
          match lookup_sd env sid with
          | Some sd =>
              fields_all (fun f v' => has_type env (fty f) v') (sfields sd) fs
              && bytes_ok h && (sholder sd || (len h =? 0))
          | None => false
          end
      | _ => false
      end
  end.

(* ---- what the resolver guarantees about an accepted descriptor ---- *)
Definition is_scalar_ty (t : ty) : bool :=
  match t with
  | TBool | TI8 | TI16 | TI32 | TI64 | TDouble | TEnum => true
  | _ => false
  end.
Definition is_struct_ptr (t : ty) : bool :=
  match t with TPtr (TStruct _) => true | _ => false end.
Definition key_ty_ok (t : ty) : bool :=
  is_scalar_ty t || match t with TString => true | _ => false end || is_struct_ptr t.

(* element / value / key positions: no pointer unless pointer to struct *)
Fixpoint ty_ok (env : senv) (t : ty) : bool :=
  match t with
  | TList _ e => ty_ok env e && (negb (is_ptr e) || is_struct_ptr e)
  | TMap k v => key_ty_ok k && ty_ok env k && ty_ok env v && (negb (is_ptr v) || is_struct_ptr v)
  | TStruct sid => sid <? len env
  | TPtr t' =>
      match t' with
      | TPtr _ | TList _ _ | TMap _ _ => false
      | _ => ty_ok env t'
      end
  | _ => true
  end.

Fixpoint sorted_ids (fs : list field) : bool :=
  match fs with
  | f :: ((g :: _) as r) => (fid f <? fid g) && sorted_ids r
  | _ => true
  end.

Definition is_strlike (t : ty) : bool :=
  match deref_ty t with TString | TBinary => true | _ => false end.

Definition field_ok (env : senv) (f : field) : bool :=
  (fid f <? 2 ^ 16) && ty_ok env (fty f)
  && (negb (is_ptr (fty f)) || is_struct_ptr (fty f) || req_eqb (freq f) ROptional)
  && (negb (fnocopy f) || is_strlike (fty f)).

Definition sdesc_ok (env : senv) (sd : sdesc) : bool :=
  forallb (field_ok env) (sfields sd) && sorted_ids (sfields sd)
  && match sinit sd with
     | Some asg => forallb (fun iv : nat * val => Nat.ltb (fst iv) (length (sfields sd))) asg
     | None => true
     end.

Definition env_ok (env : senv) : bool := forallb (sdesc_ok env) env.
