(* Skip.v -- model of github.com/cloudwego/gopkg protocol/thrift
   BinaryProtocol.Skip / skipType (binary.go), the routine frugal's decoder
   delegates unknown fields to.  Mirrors the Go control flow, including the
   places where the returned length may exceed the buffer (a fixed-size map
   value after a variable-size key is added without a bounds check). *)
From Coq Require Import List NArith Bool.
From Frugal Require Import Bytes.
From Frugal.gen Require Import Params.
Import ListNotations.
Open Scope N_scope.

Inductive skip_err := SkShort | SkDataLength | SkDepth | SkUnknownType.
(* SPanic: TType is int8, so typeToSize[t] with a type byte >= 0x80 is a negative
   index and panics inside gopkg *)
Inductive sres := SOk (n : N) | SErr (e : skip_err) | SPanic | SFuel.

Fixpoint lookupN (k : N) (tab : list (N * N)) : N :=
  match tab with
  | [] => 0
  | (k', v) :: r => if k =? k' then v else lookupN k r
  end.

Definition gk_size (t : N) : N := lookupN t gk_typeToSize_tab.
Definition neg8 (t : N) : bool := 128 <=? t.

(* skipstr(p, e) on the bytes from p to e *)
Definition skipstr (bs : list N) : sres :=
  if 4 <=? len bs then
    let n := be_get (firstn 4 bs) in
    if neg32 n then SErr SkDataLength
    else if 4 + n <=? len bs then SOk (4 + n)
    else SErr SkShort
  else SErr SkShort.

Definition drop (i : N) (bs : list N) : list N :=
  if len bs <=? i then [] else skipn (N.to_nat i) bs.

Section SkipLoops.
  Variable sk : N -> list N -> sres.   (* skipType(_, _, t, maxdepth-1) *)

  Definition skip_one (sz t : N) (bs : list N) : sres :=
    if 0 <? sz then SOk sz
    else if t =? gk_STRING then skipstr bs
    else sk t bs.

  (* list / set element loop: i is the offset reached, j the elements left *)
  Fixpoint skip_elems (fuel : nat) (vt vsz : N) (bs : list N) (i j : N) : sres :=
    if j =? 0 then SOk i
    else match fuel with
         | O => SFuel
         | S fuel' =>
             if len bs <=? i then SErr SkShort
             else match skip_one vsz vt (drop i bs) with
                  | SOk vi => skip_elems fuel' vt vsz bs (i + vi) (j - 1)
                  | e => e
                  end
         end.

  Fixpoint skip_entries (fuel : nat) (kt vt ksz vsz : N) (bs : list N) (i j : N) : sres :=
    if j =? 0 then SOk i
    else match fuel with
         | O => SFuel
         | S fuel' =>
             if len bs <=? i then SErr SkShort
             else match skip_one ksz kt (drop i bs) with
                  | SOk ki =>
                      let i1 := i + ki in
                      if len bs <=? i1 then SErr SkShort
                      else match skip_one vsz vt (drop i1 bs) with
                           | SOk vi => skip_entries fuel' kt vt ksz vsz bs (i1 + vi) (j - 1)
                           | e => e
                           end
                  | e => e
                  end
         end.

  Fixpoint skip_fields (fuel : nat) (bs : list N) (i : N) : sres :=
    match fuel with
    | O => SFuel
    | S fuel' =>
        match nthN bs i with
        | None => SErr SkShort
        | Some ft =>
            if ft =? gk_STOP then SOk (i + 1)
            else
              let i3 := i + 3 in
              if len bs <=? i3 then SErr SkShort
              else if neg8 ft then SPanic
              else match skip_one (gk_size ft) ft (drop i3 bs) with
                   | SOk fi => skip_fields fuel' bs (i3 + fi)
                   | e => e
                   end
        end
    end.
End SkipLoops.

Fixpoint skip_type (d : nat) (t : N) (bs : list N) : sres :=
  match d with
  | O => SErr SkDepth
  | S d' =>
      if neg8 t then SPanic else
      let n := gk_size t in
      if 0 <? n then (if len bs <? n then SErr SkShort else SOk n)
      else if t =? gk_STRING then skipstr bs
      else if t =? gk_MAP then
        if len bs <? 6 then SErr SkShort
        else
          match bs with
          | kt :: vt :: r =>
              let sz := be_get (firstn 4 r) in
              if neg32 sz then SErr SkDataLength
              else if neg8 kt || neg8 vt then SPanic
              else
                let ksz := gk_size kt in
                let vsz := gk_size vt in
                if (0 <? ksz) && (0 <? vsz) then
                  let tot := 6 + sz * (ksz + vsz) in
                  if len bs <? tot then SErr SkShort else SOk tot
                else skip_entries (skip_type d') (S (length bs)) kt vt ksz vsz bs 6 sz
          | _ => SErr SkShort
          end
      else if (t =? gk_LIST) || (t =? gk_SET) then
        if len bs <? 5 then SErr SkShort
        else
          match bs with
          | vt :: r =>
              let sz := be_get (firstn 4 r) in
              if neg32 sz then SErr SkDataLength
              else if neg8 vt then SPanic
              else
                let vsz := gk_size vt in
                if 0 <? vsz then
                  let tot := 5 + sz * vsz in
                  if len bs <? tot then SErr SkShort else SOk tot
                else skip_elems (skip_type d') (S (length bs)) vt vsz bs 5 sz
          | _ => SErr SkShort
          end
      else if t =? gk_STRUCT then skip_fields (skip_type d') (S (length bs)) bs 0
      else SErr SkUnknownType
  end.

(* BinaryProtocol.Skip(b, t) *)
Definition gk_skip (bs : list N) (t : N) : sres :=
  match bs with
  | [] => SErr SkShort
  | _ => skip_type (N.to_nat gk_defaultRecursionDepth) t bs
  end.
