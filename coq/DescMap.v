(* DescMap.v -- internal/reflect/descmap.go: the read-lock-free descriptor
   hash map.  Slots hold the address of an immutable item array; Set builds a
   fresh array and publishes it with one atomic store.  The heap of arrays is
   explicit so that "a published array is never written" is a statement. *)
From Coq Require Import List NArith Bool.
From Frugal.gen Require Import Params.
Import ListNotations.
Open Scope N_scope.

Definition item := (N * N)%type.                  (* (abiType, descriptor id); id 0 = nil *)

Record dmap := mkDmap {
  heap : list (list item);                        (* arrays by address (index); append-only *)
  slots : list (N * N)                            (* bucket -> address of its array; absent = nil *)
}.
Definition dm_empty : dmap := mkDmap [] [].

Definition bucket (k : N) : N := N.land k mapStructDescBuckets.

Fixpoint assoc (k : N) (l : list (N * N)) : option N :=
  match l with
  | [] => None
  | (k', v) :: r => if k =? k' then Some v else assoc k r
  end.

Definition slot_items (m : dmap) (b : N) : list item :=
  match assoc b (slots m) with
  | Some a => nth (N.to_nat a) (heap m) []
  | None => []
  end.

(* Get: one atomic load, then a scan of the (immutable) array *)
Definition dm_get (m : dmap) (k : N) : N :=
  match assoc k (slot_items m (bucket k)) with Some v => v | None => 0 end.

Fixpoint replace_item (k v : N) (l : list item) : option (list item) :=
  match l with
  | [] => None
  | (k', v') :: r =>
      if k =? k' then Some ((k, v) :: r)
      else match replace_item k v r with Some r' => Some ((k', v') :: r') | None => None end
  end.

Fixpoint set_slot (b a : N) (l : list (N * N)) : list (N * N) :=
  match l with
  | [] => [(b, a)]
  | (b', a') :: r => if b =? b' then (b, a) :: r else (b', a') :: set_slot b a r
  end.

(* Set: copy the slot's items into a fresh array, replace or append there,
   publish.  No existing array is touched. *)
Definition dm_set (m : dmap) (k v : N) : dmap :=
  if dm_get m k =? v then m
  else
    let old := slot_items m (bucket k) in
    let items := match replace_item k v old with Some l => l | None => old ++ [(k, v)] end in
    mkDmap (heap m ++ [items]) (set_slot (bucket k) (N.of_nat (length (heap m))) (slots m)).

(* operation sequences as the hook runs them: (0, key, val) set; (1, key, _) get *)
Fixpoint dm_run (m : dmap) (ops : list (N * N * N)) : list N :=
  match ops with
  | [] => []
  | (o, k, v) :: r => if o =? 0 then dm_run (dm_set m k v) r else dm_get m k :: dm_run m r
  end.

(* abstract view: an association list *)
Fixpoint abs_get (k : N) (l : list (N * N)) : N :=
  match l with [] => 0 | (k', v) :: r => if k =? k' then v else abs_get k r end.
Fixpoint abs_run (l : list (N * N)) (ops : list (N * N * N)) : list N :=
  match ops with
  | [] => []
  | (o, k, v) :: r => if o =? 0 then abs_run ((k, v) :: l) r else abs_get k l :: abs_run l r
  end.
