(* Unknown.v -- internal/reflect/unknownfields.go: the pooled recorder of the extents
   (offset, size) of the fields a struct decode skips, and the copy it makes of them after STOP.
   The recorder is reused by successive decodes; Reset is what separates them. *)
From Coq Require Import List NArith Bool.
From Frugal Require Import Bytes.
Import ListNotations.
Open Scope N_scope.

Record ufs := mkUfs { uf_sz : N; uf_offs : list (N * N) }.   (* running byte total; extents in Add order *)

Definition uf_new : ufs := mkUfs 0 [].
Definition uf_reset (p : ufs) : ufs := mkUfs 0 [].
Definition uf_add (p : ufs) (off sz : N) : ufs := mkUfs (uf_sz p + sz) (uf_offs p ++ [(off, sz)]).
Definition uf_size (p : ufs) : N := uf_sz p.

(* b[off : off+sz]; None is Go's slice-bounds panic *)
Definition slice (b : list N) (off sz : N) : option (list N) :=
  if off + sz <=? len b then Some (firstn (N.to_nat sz) (skipn (N.to_nat off) b)) else None.

(* copy(ret[off:], src) into a buffer of fixed length: what does not fit is dropped *)
Fixpoint gather (b : list N) (l : list (N * N)) : option (list N) :=
  match l with
  | [] => Some []
  | (off, sz) :: r =>
      match slice b off sz, gather b r with
      | Some s, Some t => Some (s ++ t)
      | _, _ => None
      end
  end.

(* Copy: Size() bytes allocated WITHOUT zeroing (junk stands for what the memory held), then every
   recorded extent copied at the running offset *)
Definition uf_copy (p : ufs) (b junk : list N) : option (list N) :=
  match gather b (uf_offs p) with
  | Some g => Some (firstn (N.to_nat (uf_sz p)) (g ++ junk))
  | None => None
  end.

(* operation sequences as the verification hook runs them on one recorder:
   (0,_,_) Reset; (1,off,sz) Add; (2,_,_) Copy -> bytes; (3,_,_) Size -> number.
   A Copy that would panic, or that exposes uninitialised memory, is reported as such. *)
Inductive uf_out := UBytes (b : list N) | UNum (n : N) | UPanic | UJunk.

Fixpoint uf_run (p : ufs) (b : list N) (ops : list (N * (N * N))) : list uf_out :=
  match ops with
  | [] => []
  | (o, (x, y)) :: r =>
      if o =? 0 then uf_run (uf_reset p) b r
      else if o =? 1 then uf_run (uf_add p x y) b r
      else if o =? 2 then
        match gather b (uf_offs p) with
        | Some g => (if len g =? uf_sz p then UBytes g else UJunk) :: uf_run p b r
        | None => [UPanic]
        end
      else UNum (uf_size p) :: uf_run p b r
  end.

(* what a decode does with it: Reset on acquire, one Add per skipped field, Copy when Size() > 0 *)
Definition uf_session (p : ufs) (b : list N) (adds : list (N * N)) (junk : list N) : option (list N) :=
  let q := fold_left (fun q a => uf_add q (fst a) (snd a)) adds (uf_reset p) in
  if uf_size q =? 0 then Some [] else uf_copy q b junk.
