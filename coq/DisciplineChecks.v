(* DisciplineChecks.v -- decidable conditions on gen/Discipline.v: structural facts about the Go
   source which the hand-written model builds in.  Each is re-proved (vm_compute) on every run in
   its own file proofs/Gen{Pools,Equal,DepthArgs}.v and listed among the side conditions of the
   properties whose model relies on it. *)
From Coq Require Import List String Bool.
From Frugal.gen Require Import Discipline.
Import ListNotations.
Open Scope string_scope.

Definition pair_eqb (a b : string * string) : bool := String.eqb (fst a) (fst b) && String.eqb (snd a) (snd b).
Fixpoint list_eqb {A : Type} (eq : A -> A -> bool) (l m : list A) : bool :=
  match l, m with
  | [], [] => true
  | x :: l', y :: m' => eq x y && list_eqb eq l' m'
  | _, _ => false
  end.

(* objects taken from a pool are in use until the function returns: the by-value scratch copy
   (reflect.go), the presence bitset and the recorder of skipped extents (decoder.go) go back by
   a DEFERRED Put; every other pooled object is put back by the function that took it.  The model
   gives each call its own scratch / bitset / recorder. *)
Definition must_defer (pool : string) : bool :=
  String.eqb pool "sd.rvPool" || String.eqb pool "bitsetPool" || String.eqb pool "unknownFieldsPool".
Definition pools_ok : bool :=
  forallb (fun r => let '(_, pool, mode) := r in
                    if must_defer pool then String.eqb mode "defer" else negb (String.eqb mode "none")) pool_modes
  && forallb (fun want => existsb (fun r => let '(f, pool, _) := r in pair_eqb (f, pool) want) pool_modes)
             [("Append", "sd.rvPool"); ("EncodedSize", "sd.rvPool"); ("tDecoder.Decode", "bitsetPool");
              ("tDecoder.Decode", "unknownFieldsPool")].

(* tType.Equal compares the whole value of each kind (Desc.go_equal: full-width numbers, doubles by
   IEEE comparison, strings by content) *)
Definition equal_expected : list (string * string) := [
  ("tBOOL", "return*(*bool)(p0)==*(*bool)(p1)");
  ("tBYTE", "return*(*int8)(p0)==*(*int8)(p1)");
  ("tDOUBLE", "return*(*float64)(p0)==*(*float64)(p1)");
  ("tENUM", "return*(*int64)(p0)==*(*int64)(p1)");
  ("tI16", "return*(*int16)(p0)==*(*int16)(p1)");
  ("tI32", "return*(*int32)(p0)==*(*int32)(p1)");
  ("tI64", "return*(*int64)(p0)==*(*int64)(p1)");
  ("tSTRING", "return*(*string)(p0)==*(*string)(p1)")
].
Definition equal_ok : bool := list_eqb pair_eqb equal_cases equal_expected.

(* the depth budget: both entry points test it first, every recursive call passes maxdepth-1 and
   nobody assigns it (Decode.v: the structural argument d, decremented once per call) *)
Definition depth_args_ok : bool :=
  list_eqb (fun a b => String.eqb (fst a) (fst b) && Bool.eqb (snd a) (snd b)) depth_guards [("Decode", true); ("decodeType", true)]
  && forallb (fun c => let '(_, _, arg) := c in String.eqb arg "maxdepth-1") depth_calls
  && forallb (fun want => existsb (fun c => let '(f, g, _) := c in pair_eqb (f, g) want) depth_calls)
             [("Decode", "decodeType"); ("decodeType", "Decode"); ("decodeType", "decodeType")]
  && match depth_assigned with [] => true | _ => false end.

(* the once-per-type computations of desc.go (id index, GetField, skip flags, nocopy, required ids,
   up-front field sizes) are NOT compared as text: gen/Discipline.v still records their bodies
   (desc_bodies), but what they compute is compared with Desc.v for every type of every run by the
   `desc` operation of the correspondence check (hook VerifDesc), which survives refactorings. *)
