(* Values.v -- Go values as frugal sees them through unsafe pointers. *)
From Coq Require Import List NArith Bool.
From Frugal Require Import Bytes.
Import ListNotations.
Open Scope N_scope.

Inductive val : Type :=
| VS (x : N)                               (* scalar: raw bit pattern of its Go width; bool is its byte *)
| VB (isnil : bool) (s : list N)           (* string ([isnil] = false) or []byte *)
| VL (l : option (list val))               (* slice: None = nil *)
| VM (m : option (list (val * val)))       (* map: None = nil; entries in this run's iteration order *)
| VP (p : option val)                      (* pointer: None = nil *)
| VT (fs : list val) (holder : list N).    (* struct: tagged fields sorted by id; _unknownFields bytes *)

(* nested induction principle *)
Section ValInd.
  Variable P : val -> Prop.
  Hypothesis HS : forall x, P (VS x).
  Hypothesis HB : forall n s, P (VB n s).
  Hypothesis HLn : P (VL None).
  Hypothesis HL : forall l, Forall P l -> P (VL (Some l)).
  Hypothesis HMn : P (VM None).
  Hypothesis HM : forall m, Forall (fun kv => P (fst kv) /\ P (snd kv)) m -> P (VM (Some m)).
  Hypothesis HPn : P (VP None).
  Hypothesis HP : forall v, P v -> P (VP (Some v)).
  Hypothesis HT : forall fs h, Forall P fs -> P (VT fs h).

  Fixpoint val_ind' (v : val) : P v :=
    match v with
    | VS x => HS x
    | VB n s => HB n s
    | VL None => HLn
    | VL (Some l) =>
        HL l ((fix go (l : list val) : Forall P l :=
                 match l with
                 | [] => Forall_nil _
                 | x :: r => Forall_cons _ (val_ind' x) (go r)
                 end) l)
    | VM None => HMn
    | VM (Some m) =>
        HM m ((fix go (m : list (val * val)) : Forall (fun kv => P (fst kv) /\ P (snd kv)) m :=
                 match m with
                 | [] => Forall_nil _
                 | kv :: r => Forall_cons kv (conj (val_ind' (fst kv)) (val_ind' (snd kv))) (go r)
                 end) m)
    | VP None => HPn
    | VP (Some v) => HP v (val_ind' v)
    | VT fs h =>
        HT fs h ((fix go (l : list val) : Forall P l :=
                    match l with
                    | [] => Forall_nil _
                    | x :: r => Forall_cons _ (val_ind' x) (go r)
                    end) fs)
    end.
End ValInd.

(* nesting depth of a value: structs and containers count one each *)
Fixpoint vdepth (v : val) : nat :=
  match v with
  | VS _ | VB _ _ => O
  | VL None | VM None | VP None => O
  | VL (Some l) => S (fold_right (fun e m => Nat.max (vdepth e) m) O l)
  | VM (Some m) => S (fold_right (fun kv m => Nat.max (Nat.max (vdepth (fst kv)) (vdepth (snd kv))) m) O m)
  | VP (Some v) => vdepth v
  | VT fs _ => S (fold_right (fun e m => Nat.max (vdepth e) m) O fs)
  end.

Section ListEqb.
  Variable A : Type.
  Variable eq : A -> A -> bool.
  Fixpoint list_eqb (a b : list A) : bool :=
    match a, b with
    | [], [] => true
    | x :: a', y :: b' => eq x y && list_eqb a' b'
    | _, _ => false
    end.
End ListEqb.
Arguments list_eqb {A} eq a b.

Definition bytes_eqb := list_eqb N.eqb.

(* structural equality on values *)
Fixpoint val_eqb (a b : val) : bool :=
  match a, b with
  | VS x, VS y => x =? y
  | VB n s, VB n' s' => Bool.eqb n n' && bytes_eqb s s'
  | VL None, VL None => true
  | VL (Some l), VL (Some l') => list_eqb val_eqb l l'
  | VM None, VM None => true
  | VM (Some m), VM (Some m') =>
      list_eqb (fun kv kv' : val * val => val_eqb (fst kv) (fst kv') && val_eqb (snd kv) (snd kv')) m m'
  | VP None, VP None => true
  | VP (Some v), VP (Some v') => val_eqb v v'
  | VT fs h, VT fs' h' => list_eqb val_eqb fs fs' && bytes_eqb h h'
  | _, _ => false
  end.
