(* Spec.v -- the reference encoder: which Thrift value a Go value denotes
   under the schema of its descriptor.  Read together with Wire.put this is
   the whole specification of the encoder. *)
From Coq Require Import List NArith Bool.
From Frugal Require Import Bytes Wire Values Desc.
From Frugal.gen Require Import Params.
Import ListNotations.
Open Scope N_scope.

Definition is_nil (v : val) : bool :=
  match v with
  | VL None | VM None | VP None | VB true _ => true
  | _ => false
  end.

(* the field is written (not omitted) *)
Definition emits (f : field) (v : val) : bool :=
  negb (can_skip_nil f && is_nil v)
  && negb (can_skip_default f
           && match fdflt f with Some d => go_equal (fty f) d v | None => false end).

Section ZipCat.
  Variable A : Type.
  Variable g : field -> val -> list A.
  Fixpoint fields_cat (fds : list field) (vs : list val) {struct vs} : list A :=
    match vs, fds with
    | v :: vr, fd :: fr => g fd v ++ fields_cat fr vr
    | _, _ => []
    end.
End ZipCat.
Arguments fields_cat {A} g fds vs.

Definition junk : tv := WStruct [] [].

Fixpoint denote (env : senv) (t : ty) (v : val) {struct v} : tv :=
  match v with
  | VS x =>
      match t with
      | TBool => WBool x | TI8 => WI8 x | TI16 => WI16 x | TI32 => WI32 x
      | TI64 => WI64 x | TDouble => WDbl x | TEnum => WI32 (low32 x)
      | _ => junk
      end
  | VB _ s => WStr s
  | VL ol =>
      match t with
      | TList isset e =>
          WList isset (wt e) match ol with None => [] | Some l => map (denote env e) l end
      | _ => junk
      end
  | VM om =>
      match t with
      | TMap kt vt =>
          WMap (wt kt) (wt vt)
               match om with
               | None => []
               | Some m => map (fun kv : val * val => (denote env kt (fst kv), denote env vt (snd kv))) m
               end
      | _ => junk
      end
  | VP None => WStruct [] []          (* a nil struct pointer is an empty struct *)
  | VP (Some v') => match t with TPtr t' => denote env t' v' | _ => junk end
  | VT fs h =>
      match t with
      | TStruct sid =>
          match lookup_sd env sid with
          | Some sd =>
              WStruct (fields_cat (fun f v' => if emits f v' then [(fid f, denote env (fty f) v')] else [])
                                  (sfields sd) fs)
                      (if sholder sd then h else [])
          | None => junk
          end
      | _ => junk
      end
  end.

(* the message EncodeObject must produce for a value of struct type sid *)
Definition encode_spec (env : senv) (sid : N) (v : val) : list N := put (denote env (TStruct sid) v).
