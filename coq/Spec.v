(* Spec.v -- the reference encoder: which Thrift value a Go value denotes
   under the schema of its descriptor.  Read together with Wire.put this is
   the whole specification of the encoder. *)
From Coq Require Import List NArith Bool.
From Frugal Require Import Bytes Wire Values Desc.
From Frugal.gen Require Import Params.
Import ListNotations.
Open Scope N_scope.

Definition is_nil (v : val) : bool :=
  match v with
  | VL None | VM None | VP None | VB true _ => true
  | _ => false
  end.

(* the field is written (not omitted) *)
Definition emits (f : field) (v : val) : bool :=
  negb (can_skip_nil f && is_nil v)
  && negb (can_skip_default f
           && match fdflt f with Some d => go_equal (fty f) d v | None => false end).

Section ZipCat.
  Variable A : Type.
  Variable g : field -> val -> list A.
  Fixpoint fields_cat (fds : list field) (vs : list val) {struct vs} : list A :=
    match vs, fds with
    | v :: vr, fd :: fr => g fd v ++ fields_cat fr vr
    | _, _ => []
    end.
End ZipCat.
Arguments fields_cat {A} g fds vs.

Definition junk : tv := WStruct [] [].

Fixpoint denote (env : senv) (t : ty) (v : val) {struct v} : tv :=
  match v with
  | VS x =>
      match t with
      | TBool => WBool x | TI8 => WI8 x | TI16 => WI16 x | TI32 => WI32 x
      | TI64 => WI64 x | TDouble => WDbl x | TEnum => WI32 (low32 x)
      | _ => junk
      end
  | VB _ s => WStr s
  | VL ol =>
      match t with
      | TList isset e =>
          WList isset (wt e) match ol with None => [] | Some l => map (denote env e) l end
      | _ => junk
      end
  | VM om =>
      match t with
      | TMap kt vt =>
          WMap (wt kt) (wt vt)
               match om with
               | None => []
               | Some m => map (fun kv : val * val => (denote env kt (fst kv), denote env vt (snd kv))) m
               end
      | _ => junk
      end
  | VP None => WStruct [] []          (* a nil struct pointer is an empty struct *)
  | VP (Some v') => match t with TPtr t' => denote env t' v' | _ => junk end
  | VT fs h =>
      match t with
      | TStruct sid =>
          match lookup_sd env sid with
          | Some sd =>
              WStruct (fields_cat (fun f v' => if emits f v' then [(fid f, denote env (fty f) v')] else [])
                                  (sfields sd) fs)
                      (if sholder sd then h else [])
          | None => junk
          end
      | _ => junk
      end
  end.

(* the message EncodeObject must produce for a value of struct type sid *)
Definition encode_spec (env : senv) (sid : N) (v : val) : list N := put (denote env (TStruct sid) v).

(* ------------------------------------------------------------------------ *)
(* The reference decoder: what a well-formed wire struct means for a
   destination of a given type.  It works on parsed wire values, so it has no
   byte-level concerns at all: fields are taken in message order; a field
   whose id is declared and whose wire code equals the declared one is
   stored; anything else is skipped (and kept verbatim when the struct has the
   holder); destination fields the message does not mention are untouched. *)

Inductive ares (A : Type) := AOk (a : A) | AMismatch | AMissing (fid : N) | ABad.
Arguments AOk {A}. Arguments AMismatch {A}. Arguments AMissing {A}. Arguments ABad {A}.

Definition scalar_of (t : ty) (w : tv) : option val :=
  match t, w with
  | TBool, WBool x => Some (VS x)
  | TI8, WI8 x => Some (VS x)
  | TI16, WI16 x => Some (VS x)
  | TI32, WI32 x => Some (VS x)
  | TI64, WI64 x => Some (VS x)
  | TDouble, WDbl x => Some (VS x)
  | TEnum, WI32 x => Some (VS (sext32 x))
  | _, _ => None
  end.

(* SetMapIndex on the association-list view *)
Fixpoint ainsert (kt : ty) (m : list (val * val)) (k v : val) : list (val * val) :=
  match m with
  | [] => [(k, v)]
  | (k', v') :: r => if key_eq kt k' k then (k, v) :: r else (k', v') :: ainsert kt r k v
  end.

Section AbsorbLoops.
  Variable ab : ty -> tv -> val -> ares val.   (* value of type t from wire value w, slot content prior *)
  Variable env : senv.

  Fixpoint ab_elems (e : ty) (ws : list tv) : ares (list val) :=
    match ws with
    | [] => AOk []
    | w :: r =>
        match ab e w (zero_of env e) with
        | AOk x => match ab_elems e r with AOk xs => AOk (x :: xs) | er => er end
        | AMismatch => AMismatch | AMissing i => AMissing i | ABad => ABad
        end
    end.

  Fixpoint ab_entries (kt vt : ty) (ws : list (tv * tv)) (acc : list (val * val)) : ares (list (val * val)) :=
    match ws with
    | [] => AOk acc
    | (kw, vw) :: r =>
        match ab kt kw (zero_of env kt) with
        | AOk k =>
            match ab vt vw (zero_of env vt) with
            | AOk v => ab_entries kt vt r (ainsert kt acc k v)
            | AMismatch => AMismatch | AMissing i => AMissing i | ABad => ABad
            end
        | AMismatch => AMismatch | AMissing i => AMissing i | ABad => ABad
        end
    end.

  (* cur: field values; seen: ids stored so far; unk: bytes of the skipped fields *)
  Fixpoint ab_fields (sd : sdesc) (fs : list (N * tv)) (cur : list val) (seen : list N) (unk : list N)
    : ares (list val * list N * list N) :=
    match fs with
    | [] => AOk (cur, seen, unk)
    | (id, w) :: r =>
        match get_field sd id with
        | Some (i, f) =>
            if wt (fty f) =? code_of w then
              match ab (fty f) w (nth i cur (VS 0)) with
              | AOk v => ab_fields sd r (set_nth cur i v) (id :: seen) unk
              | AMismatch => AMismatch | AMissing j => AMissing j | ABad => ABad
              end
            else ab_fields sd r cur seen (unk ++ put_field (id, w))
        | None => ab_fields sd r cur seen (unk ++ put_field (id, w))
        end
    end.
End AbsorbLoops.

Fixpoint absorb (env : senv) (t : ty) (w : tv) (prior : val) {struct w} : ares val :=
  let t0 := deref_ty t in
  let prior0 := if is_ptr t then zero_of env t0 else prior in
  let wrap := fun r : ares val => match r with AOk v => AOk (if is_ptr t then VP (Some v) else v) | e => e end in
  wrap
    match w with
    | WStr s => match t0 with TString | TBinary => AOk (VB false s) | _ => ABad end
    | WList _ ec es =>
        match t0 with
        | TList _ e =>
            if negb (ec =? wt e) then AMismatch
            else match ab_elems (absorb env) env e es with
                 | AOk xs => AOk (VL (Some xs))
                 | AMismatch => AMismatch | AMissing i => AMissing i | ABad => ABad
                 end
        | _ => ABad
        end
    | WMap kc vc es =>
        match t0 with
        | TMap kt vt =>
            if negb ((kc =? wt kt) && (vc =? wt vt)) then AMismatch
            else match ab_entries (absorb env) env kt vt es [] with
                 | AOk m => AOk (VM (Some m))
                 | AMismatch => AMismatch | AMissing i => AMissing i | ABad => ABad
                 end
        | _ => ABad
        end
    | WStruct fs _ =>
        match t0 with
        | TStruct sid =>
            match lookup_sd env sid with
            | Some sd =>
                match apply_init sd prior0 with
                | VT fs0 h0 =>
                    match ab_fields (absorb env) sd fs fs0 [] [] with
                    | AOk (cur, seen, unk) =>
                        match find (fun i => negb (memN i seen)) (required_ids sd) with
                        | Some missing => AMissing missing
                        | None => AOk (VT cur (if sholder sd then match unk with [] => h0 | _ => unk end else h0))
                        end
                    | AMismatch => AMismatch | AMissing i => AMissing i | ABad => ABad
                    end
                | _ => ABad
                end
            | None => ABad
            end
        | _ => ABad
        end
    | _ => match scalar_of t0 w with Some v => AOk v | None => ABad end
    end.

(* DecodeObject on a message whose parse is w: the top-level destination is
   not re-initialised *)
Definition absorb_top (env : senv) (sid : N) (w : tv) (dst : val) : ares val :=
  match w, lookup_sd env sid, dst with
  | WStruct fs _, Some sd, VT fs0 h0 =>
      match ab_fields (absorb env) sd fs fs0 [] [] with
      | AOk (cur, seen, unk) =>
          match find (fun i => negb (memN i seen)) (required_ids sd) with
          | Some missing => AMissing missing
          | None => AOk (VT cur (if sholder sd then match unk with [] => h0 | _ => unk end else h0))
          end
      | AMismatch => AMismatch | AMissing i => AMissing i | ABad => ABad
      end
  | _, _, _ => ABad
  end.

(* depth budget the decoder needs for w read as type t: one per decodeType
   call and one per nested Decode call on the deepest path; fields and
   elements of fixed-size kinds and skipped fields cost nothing here *)
Section NeedLoops.
  Variable A : Type.
  Variable f : A -> nat.
  Fixpoint need_max (l : list A) : nat :=
    match l with [] => O | x :: r => Nat.max (f x) (need_max r) end.
End NeedLoops.
Arguments need_max {A} f l.

Fixpoint need (env : senv) (t : ty) (w : tv) {struct w} : nat :=
  let t0 := deref_ty t in
  if 0 <? fixed_size t0 then O
  else
    match w with
    | WList _ _ es =>
        match t0 with TList _ e => S (need_max (fun x => need env e x) es) | _ => 1%nat end
    | WMap _ _ es =>
        match t0 with
        | TMap kt vt => S (need_max (fun kv : tv * tv => Nat.max (need env kt (fst kv)) (need env vt (snd kv))) es)
        | _ => 1%nat
        end
    | WStruct fs _ =>
        match t0 with
        | TStruct sid =>
            match lookup_sd env sid with
            | Some sd =>
                S (S (need_max (fun fw : N * tv =>
                                  match get_field sd (fst fw) with
                                  | Some (_, f) => if wt (fty f) =? code_of (snd fw) then need env (fty f) (snd fw) else O
                                  | None => O
                                  end) fs))
            | None => 1%nat
            end
        | _ => 1%nat
        end
    | _ => 1%nat
    end.

(* deepest nesting among the fields the reader skips *)
Fixpoint skipped_depth (env : senv) (t : ty) (w : tv) {struct w} : nat :=
  let t0 := deref_ty t in
  match w with
  | WList _ _ es => match t0 with TList _ e => need_max (fun x => skipped_depth env e x) es | _ => O end
  | WMap _ _ es =>
      match t0 with
      | TMap kt vt => need_max (fun kv : tv * tv => Nat.max (skipped_depth env kt (fst kv)) (skipped_depth env vt (snd kv))) es
      | _ => O
      end
  | WStruct fs _ =>
      match t0 with
      | TStruct sid =>
          match lookup_sd env sid with
          | Some sd =>
              need_max (fun fw : N * tv =>
                          match get_field sd (fst fw) with
                          | Some (_, f) => if wt (fty f) =? code_of (snd fw) then skipped_depth env (fty f) (snd fw)
                                           else S (wdepth (snd fw))
                          | None => S (wdepth (snd fw))
                          end) fs
          | None => O
          end
      | _ => O
      end
  | _ => O
  end.

(* ------------------------------------------------------------------------ *)
(* What a value looks like after encode + decode: the documented
   normalisations and nothing else.  [prior] is the content of the slot the
   decoder fills (a fresh destination at the top, zero values inside
   containers): an omitted optional field keeps it. *)
Definition enum_fix (t : ty) (x : N) : N := match t with TEnum => sext32 (low32 x) | _ => x end.

Fixpoint norm (env : senv) (t : ty) (v : val) (prior : val) {struct v} : val :=
  match v with
  | VS x => VS (enum_fix t x)
  | VB _ s => VB false s
  | VL None => VL (Some [])
  | VL (Some l) =>
      match t with
      | TList _ e => VL (Some (map (fun x => norm env e x (zero_of env e)) l))
      | _ => v
      end
  | VM None => VM (Some [])
  | VM (Some m) =>
      match t with
      | TMap kt vt =>
          VM (Some (fold_left (fun acc (kv : val * val) =>
                                 ainsert kt acc (norm env kt (fst kv) (zero_of env kt))
                                                (norm env vt (snd kv) (zero_of env vt))) m []))
      | _ => v
      end
  | VP None =>
      (* a nil struct pointer is written as an empty struct and comes back as a
         pointer to a default-initialised struct *)
      match t with
      | TPtr (TStruct sid) =>
          match lookup_sd env sid with
          | Some sd => VP (Some (apply_init sd (zero_of env (TStruct sid))))
          | None => v
          end
      | _ => v
      end
  | VP (Some v') =>
      match t with
      | TPtr t' => VP (Some (norm env t' v' (zero_of env t')))
      | _ => v
      end
  | VT fs h =>
      match t with
      | TStruct sid =>
          match lookup_sd env sid with
          | Some sd =>
              match apply_init sd prior with      (* nested structs get their defaults first *)
              | VT ps ph =>
                  VT ((fix go (fds : list field) (vs ps : list val) {struct vs} : list val :=
                         match vs, fds, ps with
                         | v' :: vr, f :: fr, p :: pr =>
                             (if emits f v' then norm env (fty f) v' p else p) :: go fr vr pr
                         | _, _, _ => []
                         end) (sfields sd) fs ps) ph
              | _ => v
              end
          | None => v
          end
      | _ => v
      end
  end.

(* top level: the destination is default-initialised by the caller *)
Definition norm_top (env : senv) (sid : N) (v : val) : val := norm env (TStruct sid) v (fresh env sid).

(* enum values fit in 32 bits *)
Fixpoint enums32 (env : senv) (t : ty) (v : val) {struct v} : bool :=
  match v with
  | VS x => match t with TEnum => enum32 x | _ => true end
  | VB _ _ => true
  | VL None | VM None | VP None => true
  | VL (Some l) => match t with TList _ e => forallb (enums32 env e) l | _ => true end
  | VM (Some m) =>
      match t with
      | TMap kt vt => forallb (fun kv : val * val => enums32 env kt (fst kv) && enums32 env vt (snd kv)) m
      | _ => true
      end
  | VP (Some v') => match t with TPtr t' => enums32 env t' v' | _ => true end
  | VT fs _ =>
      match t with
      | TStruct sid =>
          match lookup_sd env sid with
          | Some sd => fields_all (fun f v' => enums32 env (fty f) v') (sfields sd) fs
          | None => true
          end
      | _ => true
      end
  end.

(* the value does not lack a required field: a nil struct pointer that is
   written (as an empty struct) must not point to a type with required fields *)
Fixpoint req_complete (env : senv) (t : ty) (v : val) {struct v} : bool :=
  match v with
  | VS _ | VB _ _ => true
  | VL None | VM None => true
  | VP None =>
      match t with
      | TPtr (TStruct sid) =>
          match lookup_sd env sid with
          | Some sd => match required_ids sd with [] => true | _ => false end
          | None => true
          end
      | _ => true
      end
  | VL (Some l) => match t with TList _ e => forallb (req_complete env e) l | _ => true end
  | VM (Some m) =>
      match t with
      | TMap kt vt => forallb (fun kv : val * val => req_complete env kt (fst kv) && req_complete env vt (snd kv)) m
      | _ => true
      end
  | VP (Some v') => match t with TPtr t' => req_complete env t' v' | _ => true end
  | VT fs _ =>
      match t with
      | TStruct sid =>
          match lookup_sd env sid with
          | Some sd => fields_all (fun f v' => negb (emits f v') || req_complete env (fty f) v') (sfields sd) fs
          | None => true
          end
      | _ => true
      end
  end.

Fixpoint holders_empty (v : val) : bool :=
  match v with
  | VS _ | VB _ _ => true
  | VL None | VM None | VP None => true
  | VL (Some l) => forallb holders_empty l
  | VM (Some m) => forallb (fun kv : val * val => holders_empty (fst kv) && holders_empty (snd kv)) m
  | VP (Some v') => holders_empty v'
  | VT fs h => match h with [] => forallb holders_empty fs | _ => false end
  end.

(* ---- shape conditions used by the round-trip theorem ---- *)
(* the prior content of a slot has the shape of its type: a by-value struct slot holds a struct
   value, recursively *)
Fixpoint prior_ok (env : senv) (t : ty) (p : val) {struct p} : bool :=
  match p with
  | VT ps _ =>
      match t with
      | TStruct sid =>
          match lookup_sd env sid with
          | Some sd => fields_all (fun f p' => prior_ok env (fty f) p') (sfields sd) ps
          | None => true
          end
      | _ => true
      end
  | _ => match t with TStruct _ => false | _ => true end
  end.


(* InitDefault assigns well-shaped values to by-value struct fields *)
Definition init_ok (env : senv) : bool :=
  forallb (fun sd =>
             match sinit sd with
             | Some asg =>
                 forallb (fun iv : nat * val =>
                            match nth_error (sfields sd) (fst iv) with
                            | Some f => prior_ok env (fty f) (snd iv)
                            | None => true
                            end) asg
             | None => true
             end) env.
