(* Conc.v -- first use of a type by several goroutines at once
   (internal/reflect/desc.go getStructDesc / createStructDesc over descmap.go).
   Threads are sequences of atomic actions; the scheduler picks any enabled
   thread.  The state has the descriptor map of DescMap.v, the mutex sdsmu,
   the two plain (unsynchronised) maps touched only under the mutex, and a log
   of plain-map accesses with the lock holder at that moment. *)
From Coq Require Import List NArith Bool.
From Frugal Require Import DescMap.
Import ListNotations.
Open Scope N_scope.

(* program counter of one API call on type k *)
Inductive pc :=
| PStart            (* getStructDesc: lock-free Get *)
| PLock             (* miss: sdsmu.Lock() *)
| PRecheck          (* second Get under the lock *)
| PBuild            (* newStructDescAndPrefetch: reads / writes ttypes and the prefetch cache *)
| PPublish          (* sds.Set *)
| PUnlock           (* deferred Unlock *)
| PCodec (d : N)    (* run the codec with descriptor d (private scratch) *)
| PDone (d : N).

Record thread := mkThread { th_key : N; th_pc : pc }.

Record cstate := mkC {
  c_map : dmap;
  c_lock : option nat;                  (* holder of sdsmu *)
  c_plain : list N;                     (* keys present in the plain caches (ttypes / prefetch) *)
  c_log : list (nat * option nat);      (* (thread touching the plain maps, lock holder then) *)
  c_threads : list thread
}.

(* the descriptor of a type is a pure function of the type: here its id is the key itself;
   0 is never a key *)
Definition build (k : N) : N := k.

Fixpoint set_thread (l : list thread) (i : nat) (t : thread) : list thread :=
  match l, i with
  | [], _ => []
  | _ :: r, O => t :: r
  | x :: r, S i' => x :: set_thread r i' t
  end.

(* one atomic step of thread i; None = not enabled (blocked on the mutex, or finished) *)
Definition step (s : cstate) (i : nat) : option cstate :=
  match nth_error (c_threads s) i with
  | None => None
  | Some t =>
      let k := th_key t in
      let upd := fun (m : dmap) (l : option nat) (pl : list N) (lg : list (nat * option nat)) (p : pc) =>
                   Some (mkC m l pl lg (set_thread (c_threads s) i (mkThread k p))) in
      match th_pc t with
      | PStart =>
          let d := dm_get (c_map s) k in
          upd (c_map s) (c_lock s) (c_plain s) (c_log s) (if d =? 0 then PLock else PCodec d)
      | PLock =>
          match c_lock s with
          | None => upd (c_map s) (Some i) (c_plain s) (c_log s) PRecheck
          | Some _ => None                                   (* blocked *)
          end
      | PRecheck =>
          let d := dm_get (c_map s) k in
          upd (c_map s) (c_lock s) (c_plain s) (c_log s) (if d =? 0 then PBuild else PUnlock)
      | PBuild =>
          upd (c_map s) (c_lock s) (k :: c_plain s) ((i, c_lock s) :: c_log s) PPublish
      | PPublish =>
          upd (dm_set (c_map s) k (build k)) (c_lock s) (c_plain s) (c_log s) PUnlock
      | PUnlock =>
          upd (c_map s) None (c_plain s) (c_log s) (PCodec (dm_get (c_map s) k))
      | PCodec d => upd (c_map s) (c_lock s) (c_plain s) (c_log s) (PDone d)
      | PDone _ => None
      end
  end.

(* run a schedule (list of thread indexes); a disabled pick is skipped *)
Fixpoint run (s : cstate) (sched : list nat) : cstate :=
  match sched with
  | [] => s
  | i :: r => match step s i with Some s' => run s' r | None => run s r end
  end.

Definition init (keys : list N) : cstate :=
  mkC dm_empty None [] [] (map (fun k => mkThread k PStart) keys).

Definition finished (s : cstate) : bool :=
  forallb (fun t => match th_pc t with PDone _ => true | _ => false end) (c_threads s).
