(* Args.v -- the argument checks of the three entry points (internal/reflect/reflect.go:
   EncodedSize/Append/Decode, and the kind switch at the head of createStructDesc in desc.go),
   on the reflect.Kind shape of the interface value the caller passes. *)
From Coq Require Import List Bool.
Import ListNotations.

(* reflect.ValueOf(v): invalid for a nil interface; a struct; a pointer (nil or not) to a shape;
   any other kind (numbers, strings, slices, maps, funcs, ...) *)
Inductive ashape :=
| AInvalid
| AStruct
| APtr (nil : bool) (elem : ashape)
| AOther.

(* createStructDesc: a struct, or a pointer whose element type is a struct *)
Definition create_arg_ok (a : ashape) : bool :=
  match a with
  | AStruct => true
  | APtr _ AStruct => true
  | _ => false
  end.

(* Decode: a non-nil pointer to a struct, checked before any descriptor is looked up *)
Definition decode_arg_ok (a : ashape) : bool :=
  match a with
  | APtr false AStruct => true
  | _ => false
  end.

Inductive arg_outcome := ArgProceed | ArgError | ArgPanic.

(* no descriptor is cached for a non-struct shape, so the lookup misses and createStructDesc decides *)
Definition size_arg (a : ashape) : arg_outcome := if create_arg_ok a then ArgProceed else ArgPanic.
Definition encode_arg (a : ashape) : arg_outcome := if create_arg_ok a then ArgProceed else ArgError.
Definition decode_arg (a : ashape) : arg_outcome := if decode_arg_ok a then ArgProceed else ArgError.
