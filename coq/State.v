(* State.v -- what survives between API calls, and the three entry points as
   steps over it (internal/reflect/reflect.go, desc.go createStructDesc /
   newStructDescAndPrefetch / fetchStructDesc with the caches sds, ttypes
   node links, prefetchStructDescCache and the pending log from which
   rollbackPending undoes a failed build), plus the legacy JIT-era controls (frugal.go, options.go).
   The pools (decoder, bitset, unknown-field index, map temporaries, by-value
   argument copies) carry arbitrary left-over content. *)
From Coq Require Import List NArith Bool.
From Frugal Require Import Bytes Wire Values Desc Spec Encode Decode Tags LegacyDefs.
From Frugal.gen Require Import Params Legacy.
Import ListNotations.
Open Scope N_scope.

(* delete every id of [ids] from a cache / unlink every node of [ids] *)
Definition remove_ids (ids l : list N) : list N := filter (fun x => negb (memN x ids)) l.

Section WithUniverse.
  Variable gu : list gostruct.
  Let ru := resolve_universe gu.
  Let env := build_env gu.

  (* registration state *)
  Record reg := mkReg {
    r_pub : list N;      (* struct ids with a published descriptor (sds) *)
    r_pre : list N;      (* keys of prefetchStructDescCache *)
    r_node : list N      (* struct ids whose shared type nodes are linked (tType.Sd != nil) *)
  }.
  Definition reg_init : reg := mkReg [] [] [].

  Definition resolves (s : N) : bool :=
    match nth_error ru (N.to_nat s) with Some (Some _) => true | _ => false end.

  (* newStructDescAndPrefetch / prefetchSubStructDesc / fetchStructDesc.
     pend: (types cached, nodes linked) during this createStructDesc call
     (pendingTypes, pendingNodes).  Always returns the state reached and the
     log, with a success flag.  When some definition fails to resolve the
     traversal stops where it is: what was cached and linked so far stays (it
     is the rollback that undoes it), except that the struct whose sub-build
     failed deletes its own cache entry on the way up
       if err := prefetchSubStructDesc(sd); err != nil {
           delete(prefetchStructDescCache, t); return nil, err }
     (its id stays in the log), and the rest of [todo] is not visited. *)
  Fixpoint prefetch (fuel : nat) (r : reg) (pend : list N * list N) (todo : list N)
    : reg * (list N * list N) * bool :=
    match fuel with
    | O => (r, pend, true)
    | S fuel' =>
        match todo with
        | [] => (r, pend, true)
        | s :: rest =>
            if memN s (r_node r) then prefetch fuel' r pend rest         (* t.Sd != nil: trusted as complete *)
            else if memN s (r_pre r) then
              (* cache hit: link the node, do not descend *)
              prefetch fuel' (mkReg (r_pub r) (r_pre r) (s :: r_node r)) (fst pend, s :: snd pend) rest
            else if negb (resolves s) then (r, pend, false)
            else
              (* new descriptor: cache it, descend into its struct-typed fields, then link the node *)
              let '(r1, pend1, ok1) :=
                prefetch fuel' (mkReg (r_pub r) (s :: r_pre r) (r_node r)) (s :: fst pend, snd pend)
                         (mentions ru s) in
              if ok1 then
                prefetch fuel' (mkReg (r_pub r1) (r_pre r1) (s :: r_node r1)) (fst pend1, s :: snd pend1) rest
              else
                (* the sub-build failed: delete(prefetchStructDescCache, t), propagate the error *)
                (mkReg (r_pub r1) (remove_ids [s] (r_pre r1)) (r_node r1), pend1, false)
        end
    end.

  (* every struct is descended into at most once, so the recursion is no deeper than
     the number of structs plus the number of struct mentions in all definitions *)
  Definition prefetch_fuel : nat :=
    S (length gu + length (flat_map (fun s => mentions ru (N.of_nat s)) (seq 0 (length gu)))).

  (* rollbackPending: delete exactly the logged cache entries and unlink exactly
     the logged nodes; the published descriptors are not touched *)
  Definition rollback (r : reg) (pend : list N * list N) : reg :=
    mkReg (r_pub r) (remove_ids (fst pend) (r_pre r)) (remove_ids (snd pend) (r_node r)).

  (* createStructDesc: on failure everything recorded in the pending log is undone
     (on success commitPending just empties the log) *)
  Definition create (r : reg) (s : N) : reg * bool :=
    if memN s (r_pub r) then (r, true)
    else if memN s (r_pre r) then (mkReg (s :: r_pub r) (r_pre r) (r_node r), true)
    else if negb (resolves s) then (r, false)
    else
      let '(r1, pend1, ok1) :=
        prefetch prefetch_fuel (mkReg (r_pub r) (s :: r_pre r) (r_node r)) ([s], [])
                 (mentions ru s) in
      if ok1 then (mkReg (s :: r_pub r1) (r_pre r1) (r_node r1), true)
      else (rollback r1 pend1, false).

  (* the process: registration state plus pool garbage *)
  Record pstate := mkP { p_reg : reg; p_pool : list N }.

  Inductive call :=
  | CSize (sid : N) (v : val)
  | CEncode (sid : N) (v : val) (arr : list N) (blen : N)
  | CDecode (sid : N) (bs : list N) (dst : val)
  | CLegacy (f : legacy_fn) (arg : N)
  | CPretouch (sid : N).

  Inductive outcome :=
  | OSize (n : N)
  | OSizePanic                                   (* rejected type: ordinary Go panic *)
  | OEncode (r : enc_res)
  | ODecode (r : dres (val * N))
  | ORejected                                    (* error return, nothing written *)
  | OLegacy (ret : N).                           (* nil / unit = 0, or the argument *)

  Definition legacy_ret (f : legacy_fn) (arg : N) : N :=
    match legacy_body f with
    | BReturnsArg => arg
    | _ => 0
    end.

  (* [junk] is what the pools contain after the call: any list *)
  Definition api_step (st : pstate) (c : call) (junk : list N) : pstate * outcome :=
    match c with
    | CSize sid v =>
        let '(r, ok) := create (p_reg st) sid in
        (mkP r junk, if ok then OSize (encoded_size env sid v) else OSizePanic)
    | CEncode sid v arr blen =>
        let '(r, ok) := create (p_reg st) sid in
        (mkP r junk, if ok then OEncode (encode_object env sid arr blen v) else ORejected)
    | CDecode sid bs dst =>
        let '(r, ok) := create (p_reg st) sid in
        (mkP r junk, if ok then ODecode (decode_object env (p_pool st) sid bs dst) else ORejected)
    | CLegacy f arg => (st, OLegacy (legacy_ret f arg))
    | CPretouch _ => (st, OLegacy 0)
    end.

  Definition p_init : pstate := mkP reg_init [].

  (* a history: calls with the pool garbage each leaves behind *)
  Fixpoint run_history (st : pstate) (h : list (call * list N)) : pstate :=
    match h with
    | [] => st
    | (c, junk) :: r => run_history (fst (api_step st c junk)) r
    end.

  (* the stateless reference: what the call returns in a fresh process *)
  Definition fresh_outcome (c : call) : outcome := snd (api_step p_init c []).

  Definition is_legacy (c : call) : bool :=
    match c with CLegacy _ _ | CPretouch _ => true | _ => false end.
End WithUniverse.
