(* Wire.v -- schema-less Thrift Binary Protocol values: syntax tree, reference
   writer [put], reference reader [get].  This is the specification side: it
   is short enough to be read against the Thrift Binary Protocol spec. *)
From Coq Require Import List NArith Bool.
From Frugal Require Import Bytes.
Import ListNotations.
Open Scope N_scope.

(* standard Thrift type codes (TType) *)
Definition cSTOP : N := 0.
Definition cBOOL : N := 2.
Definition cBYTE : N := 3.
Definition cDOUBLE : N := 4.
Definition cI16 : N := 6.
Definition cI32 : N := 8.
Definition cI64 : N := 10.
Definition cSTRING : N := 11.
Definition cSTRUCT : N := 12.
Definition cMAP : N := 13.
Definition cSET : N := 14.
Definition cLIST : N := 15.

Inductive tv : Type :=
| WBool (x : N)
| WI8 (x : N)
| WI16 (x : N)
| WI32 (x : N)
| WI64 (x : N)
| WDbl (x : N)
| WStr (s : list N)
| WStruct (fs : list (N * tv)) (raw : list N)   (* raw: uninterpreted bytes before STOP *)
| WMap (kc vc : N) (es : list (tv * tv))
| WList (isset : bool) (ec : N) (es : list tv).

Definition code_of (w : tv) : N :=
  match w with
  | WBool _ => cBOOL | WI8 _ => cBYTE | WI16 _ => cI16 | WI32 _ => cI32
  | WI64 _ => cI64 | WDbl _ => cDOUBLE | WStr _ => cSTRING
  | WStruct _ _ => cSTRUCT | WMap _ _ _ => cMAP
  | WList true _ _ => cSET | WList false _ _ => cLIST
  end.

Section Loops.
  Variable A : Type.
  Variable f : A -> list N.
  Fixpoint cat_map (l : list A) : list N :=
    match l with [] => [] | x :: r => f x ++ cat_map r end.
End Loops.
Arguments cat_map {A} f l.

Fixpoint put (w : tv) : list N :=
  match w with
  | WBool x => [x]
  | WI8 x => [x]
  | WI16 x => be_put 2 x
  | WI32 x => be_put 4 x
  | WI64 x => be_put 8 x
  | WDbl x => be_put 8 x
  | WStr s => be_put 4 (len s) ++ s
  | WStruct fs raw =>
      cat_map (fun fv : N * tv => code_of (snd fv) :: be_put 2 (fst fv) ++ put (snd fv)) fs
      ++ raw ++ [cSTOP]
  | WMap kc vc es =>
      kc :: vc :: be_put 4 (len es)
      ++ cat_map (fun kv : tv * tv => put (fst kv) ++ put (snd kv)) es
  | WList _ ec es => ec :: be_put 4 (len es) ++ cat_map put es
  end.

Definition put_field (fv : N * tv) : list N :=
  code_of (snd fv) :: be_put 2 (fst fv) ++ put (snd fv).
Definition put_fields (fs : list (N * tv)) : list N := cat_map put_field fs.
Definition put_entry (kv : tv * tv) : list N := put (fst kv) ++ put (snd kv).

(* ---- well-formedness: what a conforming writer may produce ---- *)

Fixpoint wf (w : tv) : bool :=
  match w with
  | WBool x => x <? 256
  | WI8 x => x <? 256
  | WI16 x => x <? 2 ^ 16
  | WI32 x => x <? 2 ^ 32
  | WI64 x => x <? 2 ^ 64
  | WDbl x => x <? 2 ^ 64
  | WStr s => lt31 (len s) && bytes_ok s
  | WStruct fs raw =>
      forallb (fun fv : N * tv => (fst fv <? 2 ^ 16) && wf (snd fv)) fs
      && match raw with [] => true | _ => false end
  | WMap kc vc es =>
      lt31 (len es) && (kc <? 128) && (vc <? 128)      (* a type code is a non-negative int8 *)
      && forallb (fun kv : tv * tv =>
                    (code_of (fst kv) =? kc) && (code_of (snd kv) =? vc)
                    && wf (fst kv) && wf (snd kv)) es
  | WList _ ec es =>
      lt31 (len es) && (ec <? 128) && forallb (fun e => (code_of e =? ec) && wf e) es
  end.

(* nesting depth: a scalar is 0 *)
Fixpoint wdepth (w : tv) : nat :=
  match w with
  | WStruct fs _ => S (fold_right (fun fv m => Nat.max (wdepth (snd fv)) m) O fs)
  | WMap _ _ es => S (fold_right (fun kv m => Nat.max (Nat.max (wdepth (fst kv)) (wdepth (snd kv))) m) O es)
  | WList _ _ es => S (fold_right (fun e m => Nat.max (wdepth e) m) O es)
  | _ => O
  end.

(* ---- reference reader ---- *)
Inductive pres (A : Type) : Type :=
| POk (a : A) (rest : list N)
| PErr.
Arguments POk {A}. Arguments PErr {A}.

Definition rd_fixed (w : nat) (mk : N -> tv) (bs : list N) : pres tv :=
  match take (N.of_nat w) bs with
  | Some (h, r) => POk (mk (be_get h)) r
  | None => PErr
  end.

Section GetLoops.
  (* the recursive reader is a parameter, so these are ordinary fixpoints *)
  Variable g : N -> list N -> pres tv.

  Fixpoint get_elems (n : nat) (ec : N) (bs : list N) : pres (list tv) :=
    match n with
    | O => POk [] bs
    | S n' =>
        match g ec bs with
        | POk e r =>
            match get_elems n' ec r with
            | POk es r' => POk (e :: es) r'
            | PErr => PErr
            end
        | PErr => PErr
        end
    end.

  Fixpoint get_entries (n : nat) (kc vc : N) (bs : list N) : pres (list (tv * tv)) :=
    match n with
    | O => POk [] bs
    | S n' =>
        match g kc bs with
        | POk k r =>
            match g vc r with
            | POk v r2 =>
                match get_entries n' kc vc r2 with
                | POk es r' => POk ((k, v) :: es) r'
                | PErr => PErr
                end
            | PErr => PErr
            end
        | PErr => PErr
        end
    end.

  (* fuel: every field consumes at least one byte *)
  Fixpoint get_fields (fuel : nat) (bs : list N) : pres (list (N * tv)) :=
    match fuel with
    | O => PErr
    | S fuel' =>
        match bs with
        | [] => PErr
        | c :: r =>
            if c =? cSTOP then POk [] r
            else
              match take 2 r with
              | None => PErr
              | Some (idb, r1) =>
                  match g c r1 with
                  | POk v r2 =>
                      match get_fields fuel' r2 with
                      | POk fs r' => POk ((be_get idb, v) :: fs) r'
                      | PErr => PErr
                      end
                  | PErr => PErr
                  end
              end
        end
    end.
End GetLoops.

(* minimal encoded size of a value with the given code; 0 for unknown codes *)
Definition min_size (c : N) : N :=
  if c =? cBOOL then 1 else if c =? cBYTE then 1 else if c =? cI16 then 2
  else if c =? cI32 then 4 else if c =? cI64 then 8 else if c =? cDOUBLE then 8
  else if c =? cSTRING then 4 else if c =? cSTRUCT then 1 else if c =? cMAP then 6
  else if c =? cSET then 5 else if c =? cLIST then 5 else 0.

Definition known_code (c : N) : bool := negb (min_size c =? 0).

Fixpoint get (d : nat) (c : N) (bs : list N) : pres tv :=
  match d with
  | O => PErr
  | S d' =>
      if c =? cBOOL then rd_fixed 1 WBool bs
      else if c =? cBYTE then rd_fixed 1 WI8 bs
      else if c =? cI16 then rd_fixed 2 WI16 bs
      else if c =? cI32 then rd_fixed 4 WI32 bs
      else if c =? cI64 then rd_fixed 8 WI64 bs
      else if c =? cDOUBLE then rd_fixed 8 WDbl bs
      else if c =? cSTRING then
        match take 4 bs with
        | None => PErr
        | Some (h, r) =>
            let n := be_get h in
            if neg32 n then PErr
            else match take n r with
                 | Some (s, r') => POk (WStr s) r'
                 | None => PErr
                 end
        end
      else if c =? cSTRUCT then
        match get_fields (get d') (S (length bs)) bs with
        | POk fs r => POk (WStruct fs []) r
        | PErr => PErr
        end
      else if c =? cMAP then
        match bs with
        | kc :: vc :: r =>
            match take 4 r with
            | None => PErr
            | Some (h, r1) =>
                let n := be_get h in
                if neg32 n then PErr
                else if negb ((kc <? 128) && (vc <? 128)) then PErr
                else if n =? 0 then POk (WMap kc vc []) r1
                else if negb (known_code kc && known_code vc) then PErr
                else if short r1 (n * (min_size kc + min_size vc)) then PErr
                else
                  match get_entries (get d') (N.to_nat n) kc vc r1 with
                  | POk es r' => POk (WMap kc vc es) r'
                  | PErr => PErr
                  end
            end
        | _ => PErr
        end
      else if (c =? cSET) || (c =? cLIST) then
        match bs with
        | ec :: r =>
            match take 4 r with
            | None => PErr
            | Some (h, r1) =>
                let n := be_get h in
                if neg32 n then PErr
                else if negb (ec <? 128) then PErr
                else if n =? 0 then POk (WList (c =? cSET) ec []) r1
                else if negb (known_code ec) then PErr
                else if short r1 (n * min_size ec) then PErr
                else
                  match get_elems (get d') (N.to_nat n) ec r1 with
                  | POk es r' => POk (WList (c =? cSET) ec es) r'
                  | PErr => PErr
                  end
            end
        | _ => PErr
        end
      else PErr
  end.

(* parse a top-level struct message *)
Definition parse_struct (d : nat) (bs : list N) : pres tv := get d cSTRUCT bs.
