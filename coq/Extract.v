(* Extract.v -- extraction of the executable model to OCaml.
   ExtrOcamlBasic only: bool, option, list, prod, unit, sumbool map to the
   OCaml types; nat, positive, N, Z stay the extracted inductives. *)
From Coq Require Extraction.
From Coq Require Import ExtrOcamlBasic.
From Frugal Require Import Bytes Wire Skip Values Desc Spec Routines Encode Decode Checks Tags Bitset Alloc DescMap Conc State Args Unknown.
From Frugal Require Import EnvParse.
From Frugal.gen Require Import Params Tables.
Extraction Language OCaml.
Extraction "model.ml"
  be_put be_get put get parse_struct wf wdepth code_of
  gk_skip
  val_eqb vdepth
  has_type env_ok zero_of fresh apply_init lookup_sd can_skip_nil can_skip_default field_fixed_size required_ids get_field
  denote encode_spec absorb_top absorb need skipped_depth norm norm_top enums32 req_complete holders_empty init_ok prior_ok
  append_struct encoded_size encode_object
  decode_object decode_struct
  resolve_fields build_env accepted accepted_with resolve_universe parse_type_top lookup_struct_tag
  bs_run bs_zero span_run span_init dm_run dm_empty map_dispatch_tab list_dispatch_tab
  size_arg encode_arg decode_arg uf_run uf_new
  api_step p_init run_history fresh_outcome
  env_alive parse_or_default parse_uint0
  maxDepthLimit params_ok tables_ok legacy_ok access_ok.
