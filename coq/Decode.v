(* Decode.v -- implementation-shaped model of the decoder
   (internal/reflect/decoder.go, with bitset.go and unknownfields.go abstracted
   to a set of ids and a byte accumulator; their concrete forms are in
   Bitset.v / Unknown.v).  Every place where the Go code indexes or slices the
   input without a preceding length check is a [DPanic] outcome here. *)
From Coq Require Import List NArith Bool.
From Frugal Require Import Bytes Wire Skip Values Desc.
From Frugal.gen Require Import Params.
Import ListNotations.
Open Scope N_scope.

Inductive derr :=
| EShort                (* io.ErrShortBuffer *)
| ENegSize              (* ProtocolException NEGATIVE_SIZE *)
| ESizeExceeds          (* ProtocolException SIZE_LIMIT *)
| ETypeMismatch         (* ProtocolException INVALID_DATA: element type codes differ from the schema *)
| EDepth                (* ProtocolException DEPTH_LIMIT *)
| ERequired (fid : N)   (* ProtocolException INVALID_DATA: required field not set *)
| ESkip (e : skip_err)  (* error of thrift.Binary.Skip on an unknown field *)
| EUnknownType
| EInternal.            (* descriptor inconsistent with the value: excluded by env_ok *)

Inductive dres (A : Type) :=
| DOk (a : A) (rest : list N)
| DErr (e : derr)
| DPanic                 (* Go run-time panic: index / slice out of range, division by zero *)
| DFuel.
Arguments DOk {A}. Arguments DErr {A}. Arguments DPanic {A}. Arguments DFuel {A}.

(* decodeFixedSizeTypes(t.T, b, p): the caller guarantees nothing; reading
   past the end of b panics *)
Definition fixed_val (k : N) (h : list N) : val :=
  if k =? tENUM then VS (sext32 (be_get h)) else VS (be_get h).

Definition read_fixed_unchecked (t : ty) (bs : list N) : dres val :=
  match take (fixed_size t) bs with
  | Some (h, r) => DOk (fixed_val (kind t) h) r
  | None => DPanic
  end.

Definition read_fixed_checked (t : ty) (bs : list N) : dres val :=
  if short bs (fixed_size t) then DErr EShort else read_fixed_unchecked t bs.

Definition wrap_ptr (t : ty) (v : val) : val := if is_ptr t then VP (Some v) else v.

(* STRING / binary: decodeType case tSTRING and decodeStringNoCopy make the same checks *)
Definition dec_string (bs : list N) : dres val :=
  if short bs (strHeaderLen) then DErr EShort
  else
    match take 4 bs with
    | None => DPanic
    | Some (h, r) =>
        let l := be_get h in
        if neg32 l then DErr ENegSize
        else if l =? 0 then DOk (VB false []) r
        else if short r (l) then DErr ESizeExceeds
        else match take l r with
             | Some (s, r') => DOk (VB false s) r'
             | None => DPanic
             end
    end.

(* reflect.Value.SetMapIndex on the association-list view of a Go map *)
Fixpoint map_insert (kt : ty) (m : list (val * val)) (k v : val) : list (val * val) :=
  match m with
  | [] => [(k, v)]
  | (k', v') :: r => if key_eq kt k' k then (k, v) :: r else (k', v') :: map_insert kt r k v
  end.

Section WithEnv.
  Variable env : senv.
  (* fuel of every field loop: any number above the length of the top-level
     input serves all nested loops too, because they run on suffixes of it
     (decode_object passes S (length input)) *)
  Variable fuel : nat.

  Section Loops.
    (* decodeType(t, b, p, maxdepth-1): slot type, input, slot's prior content *)
    Variable dt : ty -> list N -> val -> dres val.

    Definition dec_elem (t : ty) (bs : list N) : dres val :=
      if 0 <? fixed_size t then
        match read_fixed_unchecked (deref_ty t) bs with
        | DOk v r => DOk (wrap_ptr t v) r
        | e => e
        end
      else dt t bs (zero_of env t).

    Fixpoint dec_list_elems (n : nat) (e : ty) (bs : list N) : dres (list val) :=
      match n with
      | O => DOk [] bs
      | S n' =>
          match dec_elem e bs with
          | DOk x r =>
              match dec_list_elems n' e r with
              | DOk xs r' => DOk (x :: xs) r'
              | err => err
              end
          | DErr er => DErr er | DPanic => DPanic | DFuel => DFuel
          end
      end.

    Definition dec_list (e : ty) (bs : list N) : dres val :=
      if short bs (listHeaderLen) then DErr EShort
      else
        match bs with
        | tp :: r =>
            match take 4 r with
            | None => DPanic
            | Some (h, r1) =>
                let l := be_get h in
                if neg32 l then DErr ENegSize
                else if negb (wt e =? tp) then DErr ETypeMismatch
                else if l =? 0 then DOk (VL (Some [])) r1
                else if min_wire (wt e) =? 0 then DPanic
                else if short r1 (l * min_wire (wt e)) then DErr ESizeExceeds   (* l > remain / min: lemma count_check_spec *)
                else match dec_list_elems (N.to_nat l) e r1 with
                     | DOk xs r' => DOk (VL (Some xs)) r'
                     | DErr er => DErr er | DPanic => DPanic | DFuel => DFuel
                     end
            end
        | [] => DPanic
        end.

    (* key or value of a map entry: fixed-size kinds are read in place after a
       length check, the others go through decodeType *)
    Definition dec_kv (t : ty) (bs : list N) : dres val :=
      if 0 <? fixed_size t then
        match read_fixed_checked (deref_ty t) bs with
        | DOk v r => DOk (wrap_ptr t v) r
        | e => e
        end
      else dt t bs (zero_of env t).

    Fixpoint dec_map_entries (n : nat) (kt vt : ty) (bs : list N) (acc : list (val * val))
      : dres (list (val * val)) :=
      match n with
      | O => DOk acc bs
      | S n' =>
          match dec_kv kt bs with
          | DOk k r =>
              match dec_kv vt r with
              | DOk v r2 => dec_map_entries n' kt vt r2 (map_insert kt acc k v)
              | DErr er => DErr er | DPanic => DPanic | DFuel => DFuel
              end
          | DErr er => DErr er | DPanic => DPanic | DFuel => DFuel
          end
      end.

    Definition dec_map (kt vt : ty) (bs : list N) : dres val :=
      if short bs (mapHeaderLen) then DErr EShort
      else
        match bs with
        | t0 :: t1 :: r =>
            match take 4 r with
            | None => DPanic
            | Some (h, r1) =>
                let l := be_get h in
                if neg32 l then DErr ENegSize
                else if negb ((t0 =? wt kt) && (t1 =? wt vt)) then DErr ETypeMismatch
                else if min_wire (wt kt) + min_wire (wt vt) =? 0 then DPanic
                else if short r1 (l * (min_wire (wt kt) + min_wire (wt vt))) then DErr ESizeExceeds
                else match dec_map_entries (N.to_nat l) kt vt r1 [] with
                     | DOk m r' => DOk (VM (Some m)) r'
                     | DErr er => DErr er | DPanic => DPanic | DFuel => DFuel
                     end
            end
        | _ => DPanic
        end.

    (* the field loop of tDecoder.Decode.  cur: field values so far; seen: ids
       whose presence bit is set; unk: bytes of the skipped fields *)
    Fixpoint dec_fields (fuel : nat) (sd : sdesc) (bs : list N)
             (cur : list val) (seen : list N) (unk : list N)
      : dres (list val * list N * list N) :=
      match fuel with
      | O => DFuel
      | S fuel' =>
          match bs with
          | [] => DErr EShort
          | tp :: r =>
              if tp =? tSTOP then DOk (cur, seen, unk) r
              else if short r (2) then DErr EShort
              else
                match take 2 r with
                | None => DPanic
                | Some (idb, r1) =>
                    let id := be_get idb in
                    let known :=
                      match get_field sd id with
                      | Some (i, f) => if wt (fty f) =? tp then Some (i, f) else None
                      | None => None
                      end in
                    match known with
                    | None =>
                        match gk_skip r1 tp with
                        | SOk n =>
                            match take n r1 with
                            | Some (sk, r2) =>
                                dec_fields fuel' sd r2 cur seen (unk ++ tp :: idb ++ sk)
                            | None => DErr EShort    (* i > len(b): caught at the top of the loop *)
                            end
                        | SErr e => DErr (ESkip e)
                        | SPanic => DErr (ESkip SkUnknownType)   (* skipValue recovers the panic *)
                        | SFuel => DFuel
                        end
                    | Some (i, f) =>
                        let t := fty f in
                        let res :=
                          if 0 <? fixed_size t then
                            match read_fixed_checked (deref_ty t) r1 with
                            | DOk v r2 => DOk (wrap_ptr t v) r2
                            | e => e
                            end
                          else if fnocopy f then
                            match dec_string r1 with
                            | DOk v r2 => DOk (wrap_ptr t v) r2
                            | e => e
                            end
                          else dt t r1 (nth i cur (VS 0)) in
                        match res with
                        | DOk v r2 => dec_fields fuel' sd r2 (set_nth cur i v) (id :: seen) unk
                        | DErr er => DErr er | DPanic => DPanic | DFuel => DFuel
                        end
                    end
                end
          end
      end.

    Definition dec_struct_body (sd : sdesc) (pool_bits : list N) (bs : list N) (prior : val) : dres val :=
      match prior with
      | VT fs0 h0 =>
          let seen0 := filter (fun i => negb (memN i (required_ids sd))) pool_bits in
          match dec_fields fuel sd bs fs0 seen0 [] with
          | DOk (cur, seen, unk) r =>
              match find (fun i => negb (memN i seen)) (required_ids sd) with
              | Some missing => DErr (ERequired missing)
              | None =>
                  DOk (VT cur (if sholder sd then (match unk with [] => h0 | _ => unk end) else h0)) r
              end
          | DErr er => DErr er | DPanic => DPanic | DFuel => DFuel
          end
      | _ => DErr EInternal
      end.
  End Loops.

  Variable pool_bits : list N.    (* content of a recycled presence set: arbitrary *)

  Fixpoint decode_struct (d : nat) (sd : sdesc) (bs : list N) (prior : val) {struct d} : dres val :=
    match d with
    | O => DErr EDepth
    | S d' => dec_struct_body (decode_type d') sd pool_bits bs prior
    end
  with decode_type (d : nat) (t : ty) (bs : list N) (prior : val) {struct d} : dres val :=
    match d with
    | O => DErr EDepth
    | S d' =>
        let t0 := deref_ty t in
        let prior0 := if is_ptr t then zero_of env t0 else prior in
        let res :=
          if 0 <? fixed_size t0 then read_fixed_unchecked t0 bs
          else
            match t0 with
            | TString | TBinary => dec_string bs
            | TMap kt vt => dec_map (decode_type d') kt vt bs
            | TList _ e => dec_list (decode_type d') e bs
            | TStruct sid =>
                match lookup_sd env sid with
                | Some sd => decode_struct d' sd bs (apply_init sd prior0)
                | None => DErr EInternal
                end
            | _ => DErr EUnknownType
            end in
        match res with
        | DOk v r => DOk (wrap_ptr t v) r
        | e => e
        end
    end.

  (* reflect.Decode: returns the new destination and the number of bytes consumed *)
  Definition decode_object_f (sid : N) (bs : list N) (dst : val) : dres (val * N) :=
    match lookup_sd env sid with
    | Some sd =>
        match decode_struct (N.to_nat maxDepthLimit) sd bs dst with
        | DOk v r => DOk (v, len bs - len r) r
        | DErr e => DErr e | DPanic => DPanic | DFuel => DFuel
        end
    | None => DErr EInternal
    end.
End WithEnv.

Definition decode_object (env : senv) (pool_bits : list N) (sid : N) (bs : list N) (dst : val) : dres (val * N) :=
  decode_object_f env (S (length bs)) pool_bits sid bs dst.
