(* DecodeCost.v -- the part of "time and memory proportional to the input" (C05) that the model
   can carry.

   A. What a successful decode BUILDS is linear in the bytes it CONSUMED: with [vsize] the number
      of nodes of a value (one per scalar / container / pointer / struct, one per string byte, one
      per byte of the unknown-fields holder),
          vsize v <= vsize dst + K_env env * (bytes consumed)
      where [K_env env] is a constant of the schema (not of the input): one more than the largest
      default-initialised struct of the schema.  The constant is unavoidable and tight: a list of
      pointers to empty structs costs one byte (STOP) per element, and each element is a whole
      default-initialised struct of the schema.
   B. The pre-allocation guards: a container header (or string header) whose count cannot fit in
      the remaining bytes is rejected before the element loop (resp. the copy) is entered, for
      ANY element decoder; and a count that passes the guard is at most the number of remaining
      bytes, so the backing array allocated for it is linear in the input.
   C. Non-vacuity, by computation.

   There is still no cost semantics for TIME here: the model's functions are Coq functions.  What
   is proved is the size of the result (memory retained) and the size of every up-front
   allocation (count <= remaining bytes). *)
From Coq Require Import List NArith Bool Lia ZifyN ZifyNat ZifyBool Arith.
From Frugal Require Import Bytes Wire Skip Values Desc Spec Decode Checks.
From Frugal.gen Require Import Params.
From Frugal.proofs Require Import GenDecParams ParamsSplit BytesWire EncodeSpec SkipPut DecodeSafe DecodeRefines DecodeSound.
From Frugal.props Require Import Examples.
Import ListNotations.

(* ================================================================== *)
(* A. size of the decoded value                                         *)
(* ================================================================== *)

Definition lsum {A : Type} (f : A -> nat) (l : list A) : nat :=
  fold_right (fun x a => Nat.add (f x) a) O l.

(* number of nodes the decoder materialises for a value *)
Fixpoint vsize (v : val) : nat :=
  match v with
  | VS _ => 1%nat
  | VB _ s => S (length s)
  | VL None => 1%nat
  | VL (Some l) => S (lsum vsize l)
  | VM None => 1%nat
  | VM (Some m) => S (lsum (fun kv : val * val => Nat.add (vsize (fst kv)) (vsize (snd kv))) m)
  | VP None => 1%nat
  | VP (Some v') => S (vsize v')
  | VT fs h => S (Nat.add (lsum vsize fs) (length h))
  end.

Definition esize (kv : val * val) : nat := Nat.add (vsize (fst kv)) (vsize (snd kv)).

(* what InitDefault can add to a struct: the values it assigns *)
Definition init_size (sd : sdesc) : nat :=
  match sinit sd with
  | Some asg => lsum (fun iv : nat * val => vsize (snd iv)) asg
  | None => O
  end.

(* cost of creating struct number sid of env: its zero value, then InitDefault *)
Definition struct_cost (env : senv) (sid : nat) (sd : sdesc) : nat :=
  Nat.add (vsize (zero_of env (TStruct (N.of_nat sid)))) (init_size sd).

Fixpoint max_cost (env : senv) (sid : nat) (l : list sdesc) : nat :=
  match l with
  | [] => 1%nat
  | sd :: r => Nat.max (struct_cost env sid sd) (max_cost env (S sid) r)
  end.

(* THE constant: one more than the most expensive struct of the schema (and at least 2) *)
Definition K_env (env : senv) : nat := S (max_cost env O env).

(* ---- sums ---- *)
Lemma lsum_nil : forall A (f : A -> nat), lsum f [] = O.
Proof. reflexivity. Qed.

Lemma lsum_cons : forall A (f : A -> nat) x l, lsum f (x :: l) = (f x + lsum f l)%nat.
Proof. reflexivity. Qed.

Lemma lsum_app : forall A (f : A -> nat) a b, lsum f (a ++ b) = (lsum f a + lsum f b)%nat.
Proof.
  intros A f a b. induction a as [|x a IH].
  - reflexivity.
  - cbn [app]. rewrite !lsum_cons, IH. lia.
Qed.

Lemma length_cat_map : forall A (f : A -> list N) l,
  length (cat_map f l) = lsum (fun x => length (f x)) l.
Proof.
  intros A f l. induction l as [|x l IH].
  - reflexivity.
  - rewrite cat_map_cons, app_length, lsum_cons, IH. reflexivity.
Qed.

(* ---- unfolding vsize ---- *)
Lemma vsize_VL : forall l, vsize (VL (Some l)) = S (lsum vsize l).
Proof. reflexivity. Qed.
Lemma vsize_VM : forall m, vsize (VM (Some m)) = S (lsum esize m).
Proof. reflexivity. Qed.
Lemma vsize_VT : forall fs h, vsize (VT fs h) = S (lsum vsize fs + length h).
Proof. reflexivity. Qed.
Lemma vsize_VP : forall v, vsize (VP (Some v)) = S (vsize v).
Proof. reflexivity. Qed.
Lemma vsize_VB : forall b s, vsize (VB b s) = S (length s).
Proof. reflexivity. Qed.

Lemma vsize_pos : forall v, (1 <= vsize v)%nat.
Proof.
  intros v. destruct v as [x|b s|[l|]|[m|]|[p|]|fs h]; cbn [vsize]; lia.
Qed.

(* ---- set_nth, InitDefault, SetMapIndex ---- *)
Lemma lsum_set_nth : forall (l : list val) i v c,
  (vsize v <= vsize (nth i l (VS 0)) + c)%nat ->
  (lsum vsize (set_nth l i v) <= lsum vsize l + c)%nat.
Proof.
  induction l as [|y l IH]; intros i v c H.
  - cbn [set_nth]. rewrite lsum_nil. lia.
  - destruct i as [|i].
    + cbn [set_nth nth] in *. rewrite !lsum_cons. lia.
    + cbn [set_nth nth] in *. rewrite !lsum_cons. specialize (IH i v c H). lia.
Qed.

Lemma lsum_set_nth_le : forall (l : list val) i v,
  (lsum vsize (set_nth l i v) <= lsum vsize l + vsize v)%nat.
Proof. intros l i v. apply lsum_set_nth. lia. Qed.

Lemma init_fold_size : forall (asg : list (nat * val)) (fs : list val),
  (lsum vsize (fold_left (fun fs iv => set_nth fs (fst iv) (snd iv)) asg fs)
   <= lsum vsize fs + lsum (fun iv : nat * val => vsize (snd iv)) asg)%nat.
Proof.
  induction asg as [|iv asg IH]; intros fs.
  - cbn [fold_left]. rewrite lsum_nil. lia.
  - cbn [fold_left]. rewrite lsum_cons.
    specialize (IH (set_nth fs (fst iv) (snd iv))).
    pose proof (lsum_set_nth_le fs (fst iv) (snd iv)) as Hs. lia.
Qed.

Lemma apply_init_size : forall sd v, (vsize (apply_init sd v) <= vsize v + init_size sd)%nat.
Proof.
  intros sd v. unfold apply_init, init_size.
  destruct (sinit sd) as [asg|]; [|lia].
  destruct v as [x|b s|l|m|p|fs h]; try lia.
  rewrite !vsize_VT. pose proof (init_fold_size asg fs) as Hf. lia.
Qed.

Lemma ainsert_size : forall kt m k v,
  (lsum esize (ainsert kt m k v) <= lsum esize m + vsize k + vsize v)%nat.
Proof.
  intros kt m k v. induction m as [|[k' v'] m IH].
  - cbn [ainsert]. rewrite lsum_cons, !lsum_nil. unfold esize. cbn [fst snd]. lia.
  - cbn [ainsert]. destruct (key_eq kt k' k).
    + rewrite !lsum_cons. unfold esize at 1 3. cbn [fst snd]. lia.
    + rewrite !lsum_cons. lia.
Qed.

(* ---- the constant ---- *)
Lemma max_cost_ge1 : forall env i l, (1 <= max_cost env i l)%nat.
Proof.
  intros env i l. revert i. induction l as [|sd l IH]; intros i.
  - cbn [max_cost]. lia.
  - cbn [max_cost]. specialize (IH (S i)). lia.
Qed.

Lemma max_cost_nth : forall env l i j sd, nth_error l j = Some sd ->
  (struct_cost env (i + j) sd <= max_cost env i l)%nat.
Proof.
  intros env l. induction l as [|sd0 l IH]; intros i j sd H.
  - destruct j; discriminate H.
  - destruct j as [|j].
    + cbn [nth_error] in H. injection H as H. subst sd0. cbn [max_cost].
      replace (i + 0)%nat with i by lia. lia.
    + cbn [nth_error] in H. cbn [max_cost]. specialize (IH (S i) j sd H).
      replace (i + S j)%nat with (S i + j)%nat by lia. lia.
Qed.

Lemma K_env_ge2 : forall env, (2 <= K_env env)%nat.
Proof. intros env. unfold K_env. pose proof (max_cost_ge1 env O env). lia. Qed.

(* creating any struct of the schema costs less than K_env *)
Lemma K_env_struct : forall env sid sd, lookup_sd env sid = Some sd ->
  (vsize (zero_of env (TStruct sid)) + init_size sd + 1 <= K_env env)%nat.
Proof.
  intros env sid sd H. unfold lookup_sd in H.
  destruct (len env <=? sid)%N; [discriminate H|].
  pose proof (max_cost_nth env env O (N.to_nat sid) sd H) as Hm.
  unfold struct_cost in Hm. cbn [Nat.add] in Hm. rewrite N2Nat.id in Hm.
  unfold K_env. lia.
Qed.

(* in particular a fresh (default-initialised) destination is smaller than K_env *)
Lemma K_env_fresh : forall env sid sd, lookup_sd env sid = Some sd ->
  (vsize (fresh env sid) < K_env env)%nat.
Proof.
  intros env sid sd H. unfold fresh. rewrite H.
  pose proof (apply_init_size sd (zero_of env (TStruct sid))) as Ha.
  pose proof (K_env_struct env sid sd H) as Hk. lia.
Qed.

(* ---- the reference decoder ---- *)
Lemma awrap_ok : forall t r v, awrap t r = AOk v ->
  exists v0, r = AOk v0 /\ v = (if is_ptr t then VP (Some v0) else v0).
Proof.
  intros t r v H. destruct r as [v0| |i|]; try discriminate H.
  cbn [awrap] in H. injection H as H. exists v0. split; [reflexivity|]. symmetry. exact H.
Qed.

Lemma wrapped_size : forall t v0,
  (vsize (if is_ptr t then VP (Some v0) else v0) <= S (vsize v0))%nat.
Proof. intros t v0. destruct (is_ptr t); [rewrite vsize_VP|]; lia. Qed.

Lemma scalar_of_size : forall t w v, scalar_of t w = Some v -> vsize v = 1%nat.
Proof.
  intros t w v H.
  destruct t; destruct w; try discriminate H; cbn [scalar_of] in H; injection H as H; subst v;
    reflexivity.
Qed.

Lemma put_scalar_len : forall w, is_scalar_w w = true -> (1 <= length (put w))%nat.
Proof.
  intros w H. destruct w; try discriminate H; cbn [put length];
    rewrite ?be_put_length; lia.
Qed.

Section Cost.
  Variable env : senv.
  Let K := K_env env.

  Definition plen (w : tv) : nat := length (put w).

  (* what the induction carries for one wire value:
     (1) against any prior content the slot grows by at most K bytes-worth;
     (2) a slot that is created for this value (pointer target, container element: prior is the
         zero value of the type) is paid for entirely by the bytes of the value *)
  Definition cost_ok (w : tv) : Prop :=
    forall t prior v, absorb env t w prior = AOk v ->
      (vsize v <= vsize prior + K * plen w)%nat
      /\ (is_ptr t = true \/ prior = zero_of env t -> (vsize v <= K * plen w)%nat).

  Lemma K_ge2 : (2 <= K)%nat.
  Proof. exact (K_env_ge2 env). Qed.

  (* values whose decoded form does not depend on the prior content *)
  Lemma cost_ok_flat : forall w,
    (forall t prior v, absorb env t w prior = AOk v -> (vsize v <= K * plen w)%nat) -> cost_ok w.
  Proof.
    intros w H t prior v A. specialize (H t prior v A). split; [lia|intros _; exact H].
  Qed.

  Lemma cost_scalar : forall w, is_scalar_w w = true -> cost_ok w.
  Proof.
    intros w Hw. apply cost_ok_flat. intros t prior v A.
    rewrite (absorb_scalar env t w prior Hw) in A.
    apply awrap_ok in A. destruct A as (v0 & E & Ev). subst v.
    destruct (scalar_of (deref_ty t) w) as [v1|] eqn:Es; [|discriminate E].
    injection E as E. subst v1.
    pose proof (scalar_of_size _ _ _ Es) as H1. pose proof (wrapped_size t v0) as H2.
    pose proof (put_scalar_len w Hw) as H3. pose proof K_ge2 as H4. unfold plen.
    assert (K * 1 <= K * length (put w))%nat as H5 by (apply Nat.mul_le_mono_l; exact H3).
    lia.
  Qed.

  Lemma cost_str : forall s, cost_ok (WStr s).
  Proof.
    intros s. apply cost_ok_flat. intros t prior v A.
    rewrite absorb_WStr in A. apply awrap_ok in A. destruct A as (v0 & E & Ev). subst v.
    assert (v0 = VB false s) as Ev0 by (destruct (deref_ty t); try discriminate E; injection E as E; symmetry; exact E).
    subst v0. pose proof (wrapped_size t (VB false s)) as H2. rewrite vsize_VB in H2.
    unfold plen. rewrite put_str_eq, app_length, be_put_length.
    pose proof K_ge2 as H4.
    assert (1 * (4 + length s) <= K * (4 + length s))%nat as H5 by (apply Nat.mul_le_mono_r; lia).
    lia.
  Qed.

  Lemma ab_elems_cost : forall e es xs, Forall cost_ok es ->
    ab_elems (absorb env) env e es = AOk xs ->
    (lsum vsize xs <= K * lsum plen es)%nat.
  Proof.
    intros e es. induction es as [|w es IH]; intros xs HF A.
    - cbn [ab_elems] in A. injection A as A. subst xs. rewrite !lsum_nil. lia.
    - cbn [ab_elems] in A.
      destruct (absorb env e w (zero_of env e)) as [x| |i|] eqn:Ex; try discriminate A.
      destruct (ab_elems (absorb env) env e es) as [xs'| |i|] eqn:Exs; try discriminate A.
      injection A as A. subst xs.
      apply Forall_cons_iff in HF. destruct HF as [Hw HF].
      destruct (Hw e (zero_of env e) x Ex) as [_ H2]. specialize (H2 (or_intror eq_refl)).
      specialize (IH xs' HF eq_refl). rewrite !lsum_cons. lia.
  Qed.

  Lemma ab_entries_cost : forall kt vt es acc m,
    Forall (fun kv : tv * tv => cost_ok (fst kv) /\ cost_ok (snd kv)) es ->
    ab_entries (absorb env) env kt vt es acc = AOk m ->
    (lsum esize m <= lsum esize acc + K * lsum (fun kv => length (put_entry kv)) es)%nat.
  Proof.
    intros kt vt es. induction es as [|[kw vw] es IH]; intros acc m HF A.
    - cbn [ab_entries] in A. injection A as A. subst m. rewrite lsum_nil. lia.
    - cbn [ab_entries] in A.
      destruct (absorb env kt kw (zero_of env kt)) as [k| |i|] eqn:Ek; try discriminate A.
      destruct (absorb env vt vw (zero_of env vt)) as [v| |i|] eqn:Ev; try discriminate A.
      apply Forall_cons_iff in HF. destruct HF as [[Hk Hv] HF]. cbn [fst snd] in Hk, Hv.
      destruct (Hk kt (zero_of env kt) k Ek) as [_ H1]. specialize (H1 (or_intror eq_refl)).
      destruct (Hv vt (zero_of env vt) v Ev) as [_ H2]. specialize (H2 (or_intror eq_refl)).
      specialize (IH (ainsert kt acc k v) m HF A).
      pose proof (ainsert_size kt acc k v) as H3.
      rewrite lsum_cons. unfold put_entry at 1. cbn [fst snd]. rewrite app_length.
      unfold plen in H1, H2. lia.
  Qed.

  Lemma cost_list : forall b ec es, Forall cost_ok es -> cost_ok (WList b ec es).
  Proof.
    intros b ec es HF. apply cost_ok_flat. intros t prior v A.
    rewrite absorb_WList in A. apply awrap_ok in A. destruct A as (v0 & E & Ev). subst v.
    destruct (deref_ty t) as [| | | | | | | | |b' e|k' v'|sid|t'] eqn:Et; try discriminate E.
    destruct (negb (ec =? wt e)%N); [discriminate E|].
    destruct (ab_elems (absorb env) env e es) as [xs| |i|] eqn:Exs; try discriminate E.
    injection E as E. subst v0.
    pose proof (ab_elems_cost e es xs HF Exs) as H1.
    pose proof (wrapped_size t (VL (Some xs))) as H2. rewrite vsize_VL in H2.
    unfold plen at 1. rewrite put_list_eq. cbn [length]. rewrite app_length, be_put_length.
    rewrite length_cat_map. fold plen. pose proof K_ge2 as H4. lia.
  Qed.

  Lemma cost_map : forall kc vc es,
    Forall (fun kv : tv * tv => cost_ok (fst kv) /\ cost_ok (snd kv)) es -> cost_ok (WMap kc vc es).
  Proof.
    intros kc vc es HF. apply cost_ok_flat. intros t prior v A.
    rewrite absorb_WMap in A. apply awrap_ok in A. destruct A as (v0 & E & Ev). subst v.
    destruct (deref_ty t) as [| | | | | | | | |b' e|kt vt|sid|t'] eqn:Et; try discriminate E.
    destruct (negb ((kc =? wt kt) && (vc =? wt vt))%N); [discriminate E|].
    destruct (ab_entries (absorb env) env kt vt es []) as [m| |i|] eqn:Em; try discriminate E.
    injection E as E. subst v0.
    pose proof (ab_entries_cost kt vt es [] m HF Em) as H1. rewrite lsum_nil in H1.
    pose proof (wrapped_size t (VM (Some m))) as H2. rewrite vsize_VM in H2.
    unfold plen. rewrite put_map_eq. cbn [length]. rewrite app_length, be_put_length.
    rewrite length_cat_map. pose proof K_ge2 as H4. lia.
  Qed.

  (* the field loop: field values plus skipped bytes grow by at most K per byte of the fields *)
  Lemma ab_fields_cost : forall sd fs cur seen unk cur' seen' unk',
    Forall (fun fv : N * tv => cost_ok (snd fv)) fs ->
    ab_fields (absorb env) sd fs cur seen unk = AOk (cur', seen', unk') ->
    (lsum vsize cur' + length unk' <= lsum vsize cur + length unk + K * length (put_fields fs))%nat.
  Proof.
    intros sd fs. induction fs as [|[id w] fs IH]; intros cur seen unk cur' seen' unk' HF A.
    - cbn [ab_fields] in A. injection A as A1 A2 A3. subst cur' unk'. lia.
    - apply Forall_cons_iff in HF. destruct HF as [Hw HF]. cbn [snd] in Hw.
      rewrite put_fields_cons, app_length, put_field_eq. cbn [length]. rewrite app_length, be_put_length.
      pose proof K_ge2 as HK.
      assert (forall cur0 seen0, ab_fields (absorb env) sd fs cur0 seen0 (unk ++ put_field (id, w))
                                 = AOk (cur', seen', unk') ->
              (lsum vsize cur' + length unk'
               <= lsum vsize cur0 + length unk + K * S (2 + length (put w) + length (put_fields fs)))%nat)
        as Hskip.
      { intros cur0 seen0 A0. specialize (IH _ _ _ _ _ _ HF A0).
        rewrite app_length, put_field_eq in IH. cbn [length] in IH. rewrite app_length, be_put_length in IH.
        assert (1 * S (2 + length (put w)) <= K * S (2 + length (put w)))%nat as H5
            by (apply Nat.mul_le_mono_r; lia).
        lia. }
      cbn [ab_fields] in A.
      destruct (get_field sd id) as [[i f]|] eqn:Eg; [|exact (Hskip _ _ A)].
      destruct (wt (fty f) =? code_of w)%N; [|exact (Hskip _ _ A)].
      destruct (absorb env (fty f) w (nth i cur (VS 0))) as [v| |j|] eqn:Ev; try discriminate A.
      destruct (Hw _ _ _ Ev) as [H1 _]. unfold plen in H1.
      specialize (IH _ _ _ _ _ _ HF A).
      pose proof (lsum_set_nth cur i v (K * length (put w)) H1) as H2. lia.
  Qed.

  Lemma afinish_cost : forall sd h0 cur seen unk v,
    afinish sd h0 (AOk (cur, seen, unk)) = AOk v ->
    (vsize v <= S (lsum vsize cur + length unk + length h0))%nat.
  Proof.
    intros sd h0 cur seen unk v H. cbn [afinish] in H.
    destruct (find (fun i => negb (memN i seen)) (required_ids sd)); [discriminate H|].
    injection H as H. subst v. rewrite vsize_VT.
    destruct (sholder sd); [destruct unk as [|u unk]|]; cbn [length]; lia.
  Qed.

  (* a struct read into an existing struct value (no re-initialisation) *)
  Lemma struct_fields_cost : forall sd fs fs0 h0 v,
    Forall (fun fv : N * tv => cost_ok (snd fv)) fs ->
    afinish sd h0 (ab_fields (absorb env) sd fs fs0 [] []) = AOk v ->
    (vsize v <= vsize (VT fs0 h0) + K * length (put_fields fs))%nat.
  Proof.
    intros sd fs fs0 h0 v HF A.
    destruct (ab_fields (absorb env) sd fs fs0 [] []) as [[[cur seen] unk]| |i|] eqn:Ef;
      try discriminate A.
    pose proof (ab_fields_cost sd fs fs0 [] [] cur seen unk HF Ef) as H1.
    pose proof (afinish_cost sd h0 cur seen unk v A) as H2.
    rewrite vsize_VT. cbn [length] in H1. lia.
  Qed.

  Lemma cost_struct : forall fs raw,
    Forall (fun fv : N * tv => cost_ok (snd fv)) fs -> cost_ok (WStruct fs raw).
  Proof.
    intros fs raw HF t prior v A.
    rewrite absorb_WStruct in A. apply awrap_ok in A. destruct A as (v0 & E & Ev).
    destruct (deref_ty t) as [| | | | | | | | |b' e|kt vt|sid|t'] eqn:Et; try discriminate E.
    destruct (lookup_sd env sid) as [sd|] eqn:Esd; [|discriminate E].
    pose proof (K_env_struct env sid sd Esd) as HK. fold K in HK.
    destruct (apply_init sd (if is_ptr t then zero_of env (TStruct sid) else prior))
      as [x|b s|l|m|p|fs0 h0] eqn:Ep; try discriminate E.
    pose proof (struct_fields_cost sd fs fs0 h0 v0 HF E) as H1. rewrite <- Ep in H1.
    pose proof (apply_init_size sd (if is_ptr t then zero_of env (TStruct sid) else prior)) as H2.
    assert (plen (WStruct fs raw) = length (put_fields fs) + length raw + 1)%nat as HL.
    { unfold plen. rewrite put_struct_eq, !app_length. cbn [length]. lia. }
    rewrite HL.
    destruct (is_ptr t) eqn:Eptr.
    - (* by pointer: a new struct is created *)
      subst v. rewrite vsize_VP.
      assert (S (vsize v0) <= K * (length (put_fields fs) + length raw + 1))%nat as H3 by lia.
      split; [lia|intros _; exact H3].
    - (* by value *)
      subst v. assert (t = TStruct sid) as Ett.
      { destruct t; try discriminate Eptr; cbn [deref_ty] in Et; exact Et. }
      split; [lia|]. intros [Hc|Hz]; [discriminate Hc|]. rewrite Ett in Hz. subst prior. lia.
  Qed.

  Theorem absorb_cost_ok : forall w, cost_ok w.
  Proof.
    apply tv_ind'.
    - intros x. apply cost_scalar. reflexivity.
    - intros x. apply cost_scalar. reflexivity.
    - intros x. apply cost_scalar. reflexivity.
    - intros x. apply cost_scalar. reflexivity.
    - intros x. apply cost_scalar. reflexivity.
    - intros x. apply cost_scalar. reflexivity.
    - exact cost_str.
    - exact cost_struct.
    - exact cost_map.
    - exact cost_list.
  Qed.
End Cost.

(* ---- statements ---- *)

(* any slot, any prior content: the value grows by at most K_env per byte of the wire value *)
Theorem absorb_cost : forall env t w prior v, absorb env t w prior = AOk v ->
  (vsize v <= vsize prior + K_env env * length (put w))%nat.
Proof. intros env t w prior v A. exact (proj1 (absorb_cost_ok env w t prior v A)). Qed.

(* a slot created for the value (behind a pointer, or a container element / key / value, whose
   prior content is the zero value): the whole of it is paid for by the bytes of the value *)
Theorem absorb_cost_new : forall env t w prior v, absorb env t w prior = AOk v ->
  is_ptr t = true \/ prior = zero_of env t ->
  (vsize v <= K_env env * length (put w))%nat.
Proof. intros env t w prior v A H. exact (proj2 (absorb_cost_ok env w t prior v A) H). Qed.

(* the top-level message: the destination is not re-initialised, so nothing of the schema is
   charged to the STOP byte *)
Theorem absorb_top_cost : forall env sid fs dst v,
  absorb_top env sid (WStruct fs []) dst = AOk v ->
  (vsize v <= vsize dst + K_env env * length (put (WStruct fs [])))%nat.
Proof.
  intros env sid fs dst v A. rewrite absorb_top_eq in A.
  destruct (lookup_sd env sid) as [sd|]; [|discriminate A].
  destruct dst as [x|b s|l|m|p|fs0 h0]; try discriminate A.
  assert (Forall (fun fv : N * tv => cost_ok env (snd fv)) fs) as HF
      by (apply Forall_forall; intros fv _; apply absorb_cost_ok).
  pose proof (struct_fields_cost env sd fs fs0 h0 v HF A) as H1.
  rewrite put_struct_eq, !app_length. cbn [length]. lia.
Qed.

(* THE THEOREM: what DecodeObject builds is linear in what it consumed *)
Theorem decode_cost : forall env pool sid bs dst v n rest,
  dec_params_ok = true -> env_ok env = true -> bytes_ok bs = true ->
  decode_object env pool sid bs dst = DOk (v, n) rest ->
  (vsize v <= vsize dst + K_env env * N.to_nat n)%nat.
Proof.
  intros env pool sid bs dst v n rest HP HE Hb H.
  destruct (decode_sound env pool sid bs dst v n rest HP HE Hb H) as (fs & _ & _ & Hn & A).
  subst n. rewrite len_length. exact (absorb_top_cost env sid fs dst v A).
Qed.

(* in terms of the whole input *)
Corollary decode_cost_input : forall env pool sid bs dst v n rest,
  dec_params_ok = true -> env_ok env = true -> bytes_ok bs = true ->
  decode_object env pool sid bs dst = DOk (v, n) rest ->
  (vsize v <= vsize dst + K_env env * length bs)%nat.
Proof.
  intros env pool sid bs dst v n rest HP HE Hb H.
  pose proof (decode_cost env pool sid bs dst v n rest HP HE Hb H) as H1.
  destruct (decode_sound env pool sid bs dst v n rest HP HE Hb H) as (fs & _ & Ebs & Hn & _).
  assert (N.to_nat n <= length bs)%nat as H2.
  { subst n. rewrite len_length. rewrite Ebs, app_length. lia. }
  assert (K_env env * N.to_nat n <= K_env env * length bs)%nat as H3
      by (apply Nat.mul_le_mono_l; exact H2).
  lia.
Qed.

(* into a fresh destination: everything is bounded by the constant times (bytes + 1) *)
Corollary decode_cost_fresh : forall env pool sid bs v n rest,
  dec_params_ok = true -> env_ok env = true -> bytes_ok bs = true ->
  decode_object env pool sid bs (fresh env sid) = DOk (v, n) rest ->
  (vsize v <= K_env env * (N.to_nat n + 1))%nat.
Proof.
  intros env pool sid bs v n rest HP HE Hb H.
  pose proof (decode_cost env pool sid bs (fresh env sid) v n rest HP HE Hb H) as H1.
  assert (vsize (fresh env sid) <= K_env env)%nat as H2.
  { destruct (lookup_sd env sid) as [sd|] eqn:Esd.
    - pose proof (K_env_fresh env sid sd Esd). lia.
    - unfold fresh. rewrite Esd. cbn [vsize lsum fold_right length]. pose proof (K_env_ge2 env). lia. }
  lia.
Qed.

(* ================================================================== *)
(* B. the pre-allocation guards                                         *)
(* ================================================================== *)

Section Guards.
  Variable env : senv.
  (* ANY element decoder: the statements below hold whatever it does, so the rejection happens
     before an element is decoded *)
  Variable dt : ty -> list N -> val -> dres val.
  Hypothesis HP : dec_params_ok = true.

  (* ---- list / set:  tp :: h ++ r1  is  element code, 4 count bytes, rest ---- *)
  Definition list_loop (l : N) (e : ty) (r1 : list N) : dres val :=
    match dec_list_elems env dt (N.to_nat l) e r1 with
    | DOk xs r' => DOk (VL (Some xs)) r'
    | DErr er => DErr er | DPanic => DPanic | DFuel => DFuel
    end.

  Lemma dec_list_header : forall e tp h r1,
    len h = 4%N -> neg32 (be_get h) = false -> wt e = tp -> be_get h <> 0%N ->
    dec_list env dt e (tp :: h ++ r1)
    = if short r1 (be_get h * min_wire (wt e)) then DErr ESizeExceeds
      else list_loop (be_get h) e r1.
  Proof.
    intros e tp h r1 Hh Hneg Htp Hnz.
    destruct (hdr_eqs HP) as (_ & _ & Hl & _).
    destruct (min_wire_ok HP e) as [Hmw _].
    unfold dec_list. rewrite Hl.
    rewrite short_false by (rewrite len_cons, len_app; lia).
    rewrite (take_app_eq 4 h r1 Hh). cbv zeta. rewrite Hneg.
    replace (wt e =? tp)%N with true by (symmetry; apply N.eqb_eq; exact Htp). cbn [negb].
    replace (be_get h =? 0)%N with false by (symmetry; apply N.eqb_neq; exact Hnz).
    replace (min_wire (wt e) =? 0)%N with false by (symmetry; apply N.eqb_neq; lia).
    reflexivity.
  Qed.

  (* a count that cannot fit is rejected; no element is decoded *)
  Theorem list_count_rejected : forall e tp h r1,
    len h = 4%N -> neg32 (be_get h) = false -> wt e = tp ->
    (len r1 < be_get h * min_wire (wt e))%N ->
    dec_list env dt e (tp :: h ++ r1) = DErr ESizeExceeds.
  Proof.
    intros e tp h r1 Hh Hneg Htp Hbig.
    assert (be_get h <> 0%N) as Hnz by (intros E0; rewrite E0 in Hbig; lia).
    rewrite (dec_list_header e tp h r1 Hh Hneg Htp Hnz).
    rewrite short_spec. replace (len r1 <? be_get h * min_wire (wt e))%N with true
      by (symmetry; apply N.ltb_lt; exact Hbig).
    reflexivity.
  Qed.

  (* a count that passes the guard is at most the number of remaining bytes: the backing array of
     l elements allocated before the loop is linear in the input; the loop then runs l times *)
  Theorem list_count_admitted : forall e tp h r1,
    len h = 4%N -> neg32 (be_get h) = false -> wt e = tp -> be_get h <> 0%N ->
    short r1 (be_get h * min_wire (wt e)) = false ->
    (be_get h <= len r1)%N
    /\ dec_list env dt e (tp :: h ++ r1) = list_loop (be_get h) e r1.
  Proof.
    intros e tp h r1 Hh Hneg Htp Hnz Hs. split.
    - destruct (min_wire_ok HP e) as [Hmw _].
      rewrite short_spec in Hs. apply N.ltb_ge in Hs. nia.
    - rewrite (dec_list_header e tp h r1 Hh Hneg Htp Hnz), Hs. reflexivity.
  Qed.

  (* ---- map:  kc :: vc :: h ++ r1 ---- *)
  Definition map_loop (l : N) (kt vt : ty) (r1 : list N) : dres val :=
    match dec_map_entries env dt (N.to_nat l) kt vt r1 [] with
    | DOk m r' => DOk (VM (Some m)) r'
    | DErr er => DErr er | DPanic => DPanic | DFuel => DFuel
    end.

  Lemma dec_map_header : forall kt vt kc vc h r1,
    len h = 4%N -> neg32 (be_get h) = false -> kc = wt kt -> vc = wt vt ->
    dec_map env dt kt vt (kc :: vc :: h ++ r1)
    = if short r1 (be_get h * (min_wire (wt kt) + min_wire (wt vt))) then DErr ESizeExceeds
      else map_loop (be_get h) kt vt r1.
  Proof.
    intros kt vt kc vc h r1 Hh Hneg Hk Hv.
    destruct (hdr_eqs HP) as (_ & Hl & _ & _).
    destruct (min_wire_ok HP kt) as [Hmk _]. destruct (min_wire_ok HP vt) as [Hmv _].
    unfold dec_map. rewrite Hl.
    rewrite short_false by (rewrite !len_cons, len_app; lia).
    rewrite (take_app_eq 4 h r1 Hh). cbv zeta. rewrite Hneg.
    replace (kc =? wt kt)%N with true by (symmetry; apply N.eqb_eq; exact Hk).
    replace (vc =? wt vt)%N with true by (symmetry; apply N.eqb_eq; exact Hv). cbn [andb negb].
    replace (min_wire (wt kt) + min_wire (wt vt) =? 0)%N with false by (symmetry; apply N.eqb_neq; lia).
    reflexivity.
  Qed.

  Theorem map_count_rejected : forall kt vt kc vc h r1,
    len h = 4%N -> neg32 (be_get h) = false -> kc = wt kt -> vc = wt vt ->
    (len r1 < be_get h * (min_wire (wt kt) + min_wire (wt vt)))%N ->
    dec_map env dt kt vt (kc :: vc :: h ++ r1) = DErr ESizeExceeds.
  Proof.
    intros kt vt kc vc h r1 Hh Hneg Hk Hv Hbig.
    rewrite (dec_map_header kt vt kc vc h r1 Hh Hneg Hk Hv).
    rewrite short_spec.
    replace (len r1 <? be_get h * (min_wire (wt kt) + min_wire (wt vt)))%N with true
      by (symmetry; apply N.ltb_lt; exact Hbig).
    reflexivity.
  Qed.

  (* a map that passes has at most half as many entries as there are remaining bytes *)
  Theorem map_count_admitted : forall kt vt kc vc h r1,
    len h = 4%N -> neg32 (be_get h) = false -> kc = wt kt -> vc = wt vt ->
    short r1 (be_get h * (min_wire (wt kt) + min_wire (wt vt))) = false ->
    (2 * be_get h <= len r1)%N
    /\ dec_map env dt kt vt (kc :: vc :: h ++ r1) = map_loop (be_get h) kt vt r1.
  Proof.
    intros kt vt kc vc h r1 Hh Hneg Hk Hv Hs. split.
    - destruct (min_wire_ok HP kt) as [Hmk _]. destruct (min_wire_ok HP vt) as [Hmv _].
      rewrite short_spec in Hs. apply N.ltb_ge in Hs. nia.
    - rewrite (dec_map_header kt vt kc vc h r1 Hh Hneg Hk Hv), Hs. reflexivity.
  Qed.
End Guards.

(* ---- string / binary:  h ++ r  is  4 length bytes, rest ---- *)
Lemma dec_string_header : dec_params_ok = true -> forall h r,
  len h = 4%N -> neg32 (be_get h) = false -> be_get h <> 0%N ->
  dec_string (h ++ r)
  = if short r (be_get h) then DErr ESizeExceeds
    else match take (be_get h) r with
         | Some (s, r') => DOk (VB false s) r'
         | None => DPanic
         end.
Proof.
  intros HP h r Hh Hneg Hnz. destruct (hdr_eqs HP) as (_ & _ & _ & Hl).
  unfold dec_string. rewrite Hl.
  rewrite short_false by (rewrite len_app; lia).
  rewrite (take_app_eq 4 h r Hh). cbv zeta. rewrite Hneg.
  replace (be_get h =? 0)%N with false by (symmetry; apply N.eqb_neq; exact Hnz).
  reflexivity.
Qed.

(* a declared length beyond the remaining bytes is rejected; nothing is copied *)
Theorem string_len_rejected : dec_params_ok = true -> forall h r,
  len h = 4%N -> neg32 (be_get h) = false -> (len r < be_get h)%N ->
  dec_string (h ++ r) = DErr ESizeExceeds.
Proof.
  intros HP h r Hh Hneg Hbig.
  assert (be_get h <> 0%N) as Hnz by lia.
  rewrite (dec_string_header HP h r Hh Hneg Hnz), short_spec.
  replace (len r <? be_get h)%N with true by (symmetry; apply N.ltb_lt; exact Hbig).
  reflexivity.
Qed.

(* a negative (>= 2^31) length or count is rejected whatever follows *)
Theorem string_len_negative : dec_params_ok = true -> forall h r,
  len h = 4%N -> neg32 (be_get h) = true -> dec_string (h ++ r) = DErr ENegSize.
Proof.
  intros HP h r Hh Hneg. destruct (hdr_eqs HP) as (_ & _ & _ & Hl).
  unfold dec_string. rewrite Hl.
  rewrite short_false by (rewrite len_app; lia).
  rewrite (take_app_eq 4 h r Hh). cbv zeta. rewrite Hneg. reflexivity.
Qed.

(* a truncated header is a short-buffer error *)
Theorem string_header_short : dec_params_ok = true -> forall bs,
  (len bs < 4)%N -> dec_string bs = DErr EShort.
Proof.
  intros HP bs Hs. destruct (hdr_eqs HP) as (_ & _ & _ & Hl).
  unfold dec_string. rewrite Hl, short_spec.
  replace (len bs <? 4)%N with true by (symmetry; apply N.ltb_lt; exact Hs). reflexivity.
Qed.

(* when it succeeds, the string copied is a piece of the input *)
Theorem string_len_admitted : dec_params_ok = true -> forall h r v rest,
  len h = 4%N -> dec_string (h ++ r) = DOk v rest ->
  exists s, v = VB false s /\ r = s ++ rest /\ len s = be_get h /\ (be_get h <= len r)%N.
Proof.
  intros HP h r v rest Hh H. destruct (hdr_eqs HP) as (_ & _ & _ & Hl).
  unfold dec_string in H. rewrite Hl in H.
  rewrite short_false in H by (rewrite len_app; lia).
  rewrite (take_app_eq 4 h r Hh) in H. cbv zeta in H.
  destruct (neg32 (be_get h)); [discriminate H|].
  destruct (be_get h =? 0)%N eqn:E0.
  - apply N.eqb_eq in E0. injection H as Hv Hr. subst v rest. exists []. rewrite E0.
    split; [reflexivity|]. split; [reflexivity|]. split; [reflexivity|]. lia.
  - destruct (short r (be_get h)) eqn:Es; [discriminate H|].
    rewrite short_spec in Es. apply N.ltb_ge in Es.
    destruct (take (be_get h) r) as [[s r']|] eqn:Et; [|discriminate H].
    injection H as Hv Hr. subst v r'. apply take_some in Et. destruct Et as [Er Els].
    exists s. repeat split; assumption.
Qed.

(* ---- the same at the level of decodeType ---- *)
Lemma list_not_fixed : dec_params_ok = true -> forall b e, (0 <? fixed_size (TList b e))%N = false.
Proof.
  intros HP b e. rewrite (fixed_size_nonptr HP (TList b e) eq_refl). reflexivity.
Qed.

Lemma map_not_fixed : dec_params_ok = true -> forall k v, (0 <? fixed_size (TMap k v))%N = false.
Proof.
  intros HP k v. rewrite (fixed_size_nonptr HP (TMap k v) eq_refl). reflexivity.
Qed.

Theorem decode_type_list_rejected : dec_params_ok = true ->
  forall env fuel pool d t b e tp h r1 prior,
  deref_ty t = TList b e ->
  len h = 4%N -> neg32 (be_get h) = false -> wt e = tp ->
  (len r1 < be_get h * min_wire (wt e))%N ->
  decode_type env fuel pool (S d) t (tp :: h ++ r1) prior = DErr ESizeExceeds.
Proof.
  intros HP env fuel pool d t b e tp h r1 prior Et Hh Hneg Htp Hbig.
  rewrite decode_type_S, Et, (list_not_fixed HP b e).
  rewrite (list_count_rejected env (decode_type env fuel pool d) HP e tp h r1 Hh Hneg Htp Hbig).
  reflexivity.
Qed.

Theorem decode_type_map_rejected : dec_params_ok = true ->
  forall env fuel pool d t kt vt kc vc h r1 prior,
  deref_ty t = TMap kt vt ->
  len h = 4%N -> neg32 (be_get h) = false -> kc = wt kt -> vc = wt vt ->
  (len r1 < be_get h * (min_wire (wt kt) + min_wire (wt vt)))%N ->
  decode_type env fuel pool (S d) t (kc :: vc :: h ++ r1) prior = DErr ESizeExceeds.
Proof.
  intros HP env fuel pool d t kt vt kc vc h r1 prior Et Hh Hneg Hk Hv Hbig.
  rewrite decode_type_S, Et, (map_not_fixed HP kt vt).
  rewrite (map_count_rejected env (decode_type env fuel pool d) HP kt vt kc vc h r1 Hh Hneg Hk Hv Hbig).
  reflexivity.
Qed.

(* and for a successful list / map: the number of elements built is at most the bytes that
   followed the header (each element took at least one byte) -- from part A's ingredients this is
   also visible in vsize, here it is the allocation made BEFORE the loop *)
Theorem decode_type_list_admitted : dec_params_ok = true ->
  forall env fuel pool d t b e tp h r1 prior v rest,
  deref_ty t = TList b e -> len h = 4%N ->
  decode_type env fuel pool (S d) t (tp :: h ++ r1) prior = DOk v rest ->
  (be_get h <= len r1)%N.
Proof.
  intros HP env fuel pool d t b e tp h r1 prior v rest Et Hh H.
  rewrite decode_type_S, Et, (list_not_fixed HP b e) in H.
  destruct (dec_list env (decode_type env fuel pool d) e (tp :: h ++ r1)) as [v0 r0| | |] eqn:Ed;
    try discriminate H.
  clear H. destruct (hdr_eqs HP) as (_ & _ & Hl & _).
  unfold dec_list in Ed. rewrite Hl in Ed.
  rewrite short_false in Ed by (rewrite len_cons, len_app; lia).
  rewrite (take_app_eq 4 h r1 Hh) in Ed. cbv zeta in Ed.
  destruct (neg32 (be_get h)); [discriminate Ed|].
  destruct (negb (wt e =? tp)%N); [discriminate Ed|].
  destruct (be_get h =? 0)%N eqn:E0; [apply N.eqb_eq in E0; lia|].
  destruct (min_wire (wt e) =? 0)%N eqn:Em; [discriminate Ed|].
  destruct (short r1 (be_get h * min_wire (wt e))) eqn:Es; [discriminate Ed|].
  apply N.eqb_neq in Em. rewrite short_spec in Es. apply N.ltb_ge in Es. nia.
Qed.

(* ================================================================== *)
(* C. non-vacuity                                                       *)
(* ================================================================== *)

(* the schema of props/Examples.v: its constant is 9 = 1 + the 8 nodes of a zero struct 0
   (struct 1 costs 4 + 1 for its InitDefault assignment) *)
Example ex_K : K_env env_ex = 9%nat /\ vsize (fresh env_ex 0) = 8%nat /\ vsize (fresh env_ex 1) = 4%nat.
Proof. vm_compute. repeat split. Qed.

(* the message of v_ex (176 bytes, every field form) followed by 3 bytes of something else: the
   decoder builds 37 nodes from a fresh destination of 8; the bound allows 8 + 9 * 176 *)
Definition msg_ex : list N := encode_spec env_ex 0 v_ex.
Example ex_cost :
  exists v, decode_object env_ex [] 0 (msg_ex ++ [1; 2; 3]%N) (fresh env_ex 0) = DOk (v, 176%N) [1; 2; 3]%N
            /\ vsize v = 37%nat /\ (37 <= vsize (fresh env_ex 0) + K_env env_ex * N.to_nat 176)%nat.
Proof.
  eexists. split; [vm_compute; reflexivity|]. split; [vm_compute; reflexivity|]. vm_compute. lia.
Qed.

(* the theorem applies to it (its hypotheses hold) *)
Example ex_cost_thm : forall v n rest,
  decode_object env_ex [] 0 (msg_ex ++ [1; 2; 3]%N) (fresh env_ex 0) = DOk (v, n) rest ->
  (vsize v <= 8 + 9 * N.to_nat n)%nat.
Proof.
  intros v n rest H.
  assert (bytes_ok (msg_ex ++ [1; 2; 3]%N) = true) as Hb by (vm_compute; reflexivity).
  exact (decode_cost env_ex [] 0 _ _ v n rest dec_params_ok_holds (proj1 ex_env) Hb H).
Qed.

(* the constant cannot be improved: a schema whose struct 1 has four i64 fields (K_env = 6), a
   list of 100 pointers to EMPTY structs: 109 bytes build 602 nodes = 2 + 100 * 6, more than
   2 + 5 * 109 *)
Definition env_t : senv :=
  [ mkSdesc [ mkField 1 (TList false (TPtr (TStruct 1))) RDefault false None ] false None;
    mkSdesc [ mkField 1 TI64 RDefault false None; mkField 2 TI64 RDefault false None;
              mkField 3 TI64 RDefault false None; mkField 4 TI64 RDefault false None ] false None ].
Definition msg_t (n : nat) : list N :=
  [15; 0; 1; 12]%N ++ be_put 4 (N.of_nat n) ++ repeat 0%N n ++ [0%N].
Example ex_tight :
  env_ok env_t = true /\ K_env env_t = 6%nat
  /\ exists v, decode_object env_t [] 0 (msg_t 100) (fresh env_t 0) = DOk (v, 109%N) []
               /\ vsize v = 602%nat
               /\ (vsize (fresh env_t 0) + (K_env env_t - 1) * 109 < 602)%nat
               /\ (602 <= vsize (fresh env_t 0) + K_env env_t * 109)%nat.
Proof.
  split; [vm_compute; reflexivity|]. split; [vm_compute; reflexivity|].
  eexists. split; [vm_compute; reflexivity|]. split; [vm_compute; reflexivity|].
  split; vm_compute; lia.
Qed.

(* hostile counts: 0x7fffffff elements / entries / string bytes announced, a few bytes present *)
Example ex_hostile :
  (* field 3, list<struct>, 2^31-1 elements, nothing after the header *)
  decode_object env_ex [] 0 [15; 0; 3; 12; 127; 255; 255; 255]%N (fresh env_ex 0) = DErr ESizeExceeds
  (* field 4, map<string,i64>, 2^31-1 entries, 11 bytes after the header *)
  /\ decode_object env_ex [] 0 [13; 0; 4; 11; 10; 127; 255; 255; 255; 0; 0; 0; 0; 0; 0; 0; 0; 0; 0; 0]%N
                   (fresh env_ex 0) = DErr ESizeExceeds
  (* field 2, string of 2^31-1 bytes, one byte present *)
  /\ decode_object env_ex [] 0 [11; 0; 2; 127; 255; 255; 255; 65]%N (fresh env_ex 0) = DErr ESizeExceeds.
Proof. repeat split; vm_compute; reflexivity. Qed.

(* the guard theorem applies to the first of them, for ANY element decoder *)
Example ex_guard_thm : forall dt,
  dec_list env_ex dt (TPtr (TStruct 1)) ([12] ++ [127; 255; 255; 255] ++ [])%N = DErr ESizeExceeds.
Proof.
  intros dt. cbn [app].
  apply (list_count_rejected env_ex dt dec_params_ok_holds (TPtr (TStruct 1)) 12%N [127; 255; 255; 255]%N []);
    vm_compute; reflexivity.
Qed.

Print Assumptions absorb_cost.
Print Assumptions absorb_cost_new.
Print Assumptions absorb_top_cost.
Print Assumptions decode_cost.
Print Assumptions decode_cost_input.
Print Assumptions decode_cost_fresh.
Print Assumptions list_count_rejected.
Print Assumptions list_count_admitted.
Print Assumptions map_count_rejected.
Print Assumptions map_count_admitted.
Print Assumptions string_len_rejected.
Print Assumptions string_len_admitted.
Print Assumptions decode_type_list_rejected.
Print Assumptions decode_type_map_rejected.
Print Assumptions decode_type_list_admitted.
Print Assumptions ex_cost_thm.
Print Assumptions ex_tight.
Print Assumptions ex_hostile.
Print Assumptions ex_guard_thm.
