(* MapOrderEx.v -- the round trip up to the order (proofs/MapOrder.v) applied
   to the example of props/Examples.v with its map entries swapped.  Apart
   from the encoder's, this needs the decoder's side conditions on the
   generated files, which is why it is not in MapOrder.v: the theorems about
   the encoder there stay available when only the decoder's conditions fail. *)
From Coq Require Import List NArith Bool.
From Frugal Require Import Bytes Wire Skip Values Desc Spec Encode Decode Checks.
From Frugal.gen Require Import Params.
From Frugal.proofs Require Import MapOrder.
From Frugal.proofs Require GenDecParams GenDepthOdd GenTables.
From Frugal.props Require Import Examples.
Import ListNotations.
Open Scope N_scope.

Lemma ex_params_dec : dec_params_ok = true /\ depth_odd_ok = true /\ tables_ok = true.
Proof.
  exact (conj GenDecParams.dec_params_ok_holds (conj GenDepthOdd.depth_odd_ok_holds GenTables.tables_ok_holds)).
Qed.

Example ex_roundtrip_order :
  exists r',
    decode_object env_ex [] 0 (append_struct env_ex 0 v_ex_swapped ++ [1; 2; 3]) (fresh env_ex 0)
    = DOk (r', len (append_struct env_ex 0 v_ex_swapped)) [1; 2; 3]
    /\ vperm (norm_top env_ex 0 v_ex) r'.
Proof.
  destruct ex_hyps as (Hh & He & Hr & Hd).
  destruct ex_params_dec as (HP & HO & HT).
  exact (roundtrip_up_to_order env_ex [] 0 v_ex v_ex_swapped [1; 2; 3] HP HO HT
           (proj1 ex_env) (proj2 ex_env) ex_typed Hh He Hr Hd ex_vperm).
Qed.

Print Assumptions ex_roundtrip_order.
