(* EncodeSpec.v -- the implementation-shaped encoder [append_any] computes
   exactly the reference encoding [put (denote ...)]; the denotation of a
   well-typed value is a well-formed Thrift value; required fields are always
   written; a field occurs in the denotation iff [emits] says so. *)
From Coq Require Import List NArith Bool Lia ZifyN ZifyNat ZifyBool.
From Frugal Require Import Bytes Wire Values Desc Spec Routines Encode Checks.
From Frugal.gen Require Import Params Tables.
From Frugal.proofs Require Import ParamsSplit.
Import ListNotations.
Open Scope N_scope.

(* ------------------------------------------------------------------ *)
(* generic list lemmas                                                  *)
(* ------------------------------------------------------------------ *)

Lemma len_map : forall (A B : Type) (f : A -> B) (l : list A), len (map f l) = len l.
Proof. intros. unfold len. rewrite map_length. reflexivity. Qed.

Lemma cat_map_map : forall (A B : Type) (f : A -> B) (g : B -> list N) (l : list A),
  cat_map g (map f l) = cat_map (fun x => g (f x)) l.
Proof.
  induction l as [|x r IH]; cbn [map cat_map]; [reflexivity|].
  rewrite IH. reflexivity.
Qed.

Lemma cat_map_ext_in : forall (A : Type) (f g : A -> list N) (l : list A),
  (forall x, In x l -> f x = g x) -> cat_map f l = cat_map g l.
Proof.
  induction l as [|x r IH]; intros H; cbn [cat_map]; [reflexivity|].
  rewrite (H x (or_introl eq_refl)), IH; [reflexivity|].
  intros y Hy. apply H. right. exact Hy.
Qed.

Lemma cat_map_app : forall (A : Type) (f : A -> list N) (l1 l2 : list A),
  cat_map f (l1 ++ l2) = cat_map f l1 ++ cat_map f l2.
Proof.
  induction l1 as [|x r IH]; intros l2; cbn [cat_map app]; [reflexivity|].
  rewrite IH, app_assoc. reflexivity.
Qed.

Lemma forallb_map' : forall (A B : Type) (f : A -> B) (p : B -> bool) (l : list A),
  forallb p (map f l) = forallb (fun x => p (f x)) l.
Proof.
  induction l as [|x r IH]; cbn [map forallb]; [reflexivity|].
  rewrite IH. reflexivity.
Qed.

(* ---- the zipped loops over (descriptor fields, struct fields) ---- *)

Lemma fields_all_length : forall (g : field -> val -> bool) vs fds,
  fields_all g fds vs = true -> length fds = length vs.
Proof.
  induction vs as [|v vr IH]; intros fds H.
  - destruct fds; [reflexivity | discriminate H].
  - destruct fds as [|fd fr]; [discriminate H|].
    cbn [fields_all] in H. apply andb_true_iff in H. destruct H as [_ H].
    cbn [length]. f_equal. apply IH. exact H.
Qed.

Lemma cat_map_fields_cat : forall (A : Type) (g : A -> list N) (h : field -> val -> list A) vs fds,
  cat_map g (fields_cat h fds vs) = fields_cat (fun f v => cat_map g (h f v)) fds vs.
Proof.
  induction vs as [|v vr IH]; intros fds; [reflexivity|].
  destruct fds as [|fd fr]; [reflexivity|].
  cbn [fields_cat]. rewrite cat_map_app, IH. reflexivity.
Qed.

(* pointwise congruence under [fields_all] *)
Lemma fields_cat_ext : forall (A : Type) (g1 g2 : field -> val -> list A) (p : field -> val -> bool) vs fds,
  fields_all p fds vs = true ->
  (forall f v, In f fds -> In v vs -> p f v = true -> g1 f v = g2 f v) ->
  fields_cat g1 fds vs = fields_cat g2 fds vs.
Proof.
  induction vs as [|v vr IH]; intros fds Hall Hext; [reflexivity|].
  destruct fds as [|fd fr]; [reflexivity|].
  cbn [fields_all] in Hall. apply andb_true_iff in Hall. destruct Hall as [Hp Hall].
  cbn [fields_cat].
  rewrite (Hext fd v (or_introl eq_refl) (or_introl eq_refl) Hp).
  rewrite (IH fr Hall); [reflexivity|].
  intros f v' Hf Hv. apply Hext; right; assumption.
Qed.

Lemma forallb_fields_cat : forall (A : Type) (q : A -> bool) (h : field -> val -> list A)
    (p : field -> val -> bool) vs fds,
  fields_all p fds vs = true ->
  (forall f v, In f fds -> In v vs -> p f v = true -> forallb q (h f v) = true) ->
  forallb q (fields_cat h fds vs) = true.
Proof.
  induction vs as [|v vr IH]; intros fds Hall Hq; [reflexivity|].
  destruct fds as [|fd fr]; [reflexivity|].
  cbn [fields_all] in Hall. apply andb_true_iff in Hall. destruct Hall as [Hp Hall].
  cbn [fields_cat]. rewrite forallb_app.
  rewrite (Hq fd v (or_introl eq_refl) (or_introl eq_refl) Hp).
  rewrite (IH fr Hall); [reflexivity|].
  intros f v' Hf Hv. apply Hq; right; assumption.
Qed.

(* ------------------------------------------------------------------ *)
(* the environment                                                      *)
(* ------------------------------------------------------------------ *)

Lemma lookup_sd_In : forall env sid sd, lookup_sd env sid = Some sd -> In sd env.
Proof.
  intros env sid sd H. unfold lookup_sd in H.
  destruct (len env <=? sid); [discriminate H|].
  eapply nth_error_In. exact H.
Qed.

Lemma lookup_sd_lt : forall env sid sd, lookup_sd env sid = Some sd -> (sid <? len env) = true.
Proof.
  intros env sid sd H. unfold lookup_sd in H.
  destruct (len env <=? sid) eqn:E; [discriminate H|].
  apply N.leb_gt in E. apply N.ltb_lt. exact E.
Qed.

Lemma env_sdesc_ok : forall env sid sd,
  env_ok env = true -> lookup_sd env sid = Some sd -> sdesc_ok env sd = true.
Proof.
  intros env sid sd HE Hl. unfold env_ok in HE. rewrite forallb_forall in HE.
  apply HE. eapply lookup_sd_In. exact Hl.
Qed.

Lemma env_field_ok : forall env sid sd f,
  env_ok env = true -> lookup_sd env sid = Some sd -> In f (sfields sd) -> field_ok env f = true.
Proof.
  intros env sid sd f HE Hl Hf.
  pose proof (env_sdesc_ok env sid sd HE Hl) as H. unfold sdesc_ok in H.
  apply andb_true_iff in H. destruct H as [H _].
  apply andb_true_iff in H. destruct H as [H _].
  rewrite forallb_forall in H. apply H. exact Hf.
Qed.

Lemma env_sorted_ids : forall env sid sd,
  env_ok env = true -> lookup_sd env sid = Some sd -> sorted_ids (sfields sd) = true.
Proof.
  intros env sid sd HE Hl.
  pose proof (env_sdesc_ok env sid sd HE Hl) as H. unfold sdesc_ok in H.
  apply andb_true_iff in H. destruct H as [H _].
  apply andb_true_iff in H. destruct H as [_ H]. exact H.
Qed.

(* ------------------------------------------------------------------ *)
(* the generated constants                                              *)
(* ------------------------------------------------------------------ *)

Lemma params_codes : enc_params_ok = true -> codes_ok = true.
Proof. exact enc_codes. Qed.

Lemma codes_eqs : enc_params_ok = true ->
  tSTOP = cSTOP /\ tBOOL = cBOOL /\ tBYTE = cBYTE /\ tDOUBLE = cDOUBLE /\ tI16 = cI16
  /\ tI32 = cI32 /\ tI64 = cI64 /\ tSTRING = cSTRING /\ tSTRUCT = cSTRUCT /\ tMAP = cMAP
  /\ tSET = cSET /\ tLIST = cLIST.
Proof.
  intros HP. pose proof (params_codes HP) as H. unfold codes_ok in H.
  do 6 (apply andb_true_iff in H; destruct H as [H _]).
  (* H is now the conjunction of the first twelve equalities, peel from the right *)
  repeat match type of H with
         | (_ && _) = true => let H' := fresh "E" in
                              apply andb_true_iff in H; destruct H as [H H']; apply N.eqb_eq in H'
         end.
  apply N.eqb_eq in H. repeat split; assumption.
Qed.

(* ------------------------------------------------------------------ *)
(* one-step unfoldings of the nested fixpoints                          *)
(* ------------------------------------------------------------------ *)

Lemma has_type_VS : forall env t x, has_type env t (VS x) =
  match t with
  | TBool => x <? 2
  | TI8 | TI16 | TI32 | TI64 | TDouble | TEnum => x <? 2 ^ width_bits t
  | _ => false
  end.
Proof. reflexivity. Qed.

Lemma has_type_VB : forall env t n s, has_type env t (VB n s) =
  match t with
  | TString => negb n && bytes_ok s && lt31 (len s)
  | TBinary => bytes_ok s && lt31 (len s) && (negb n || (len s =? 0))
  | _ => false
  end.
Proof. reflexivity. Qed.

Lemma has_type_VL : forall env t ol, has_type env t (VL ol) =
  match t with
  | TList _ e => match ol with
                 | None => true
                 | Some l => forallb (has_type env e) l && lt31 (len l)
                 end
  | _ => false
  end.
Proof. intros env t [l|]; destruct t; reflexivity. Qed.

Lemma has_type_VM : forall env t om, has_type env t (VM om) =
  match t with
  | TMap kt vt =>
      match om with
      | None => true
      | Some m =>
          forallb (fun kv : val * val => has_type env kt (fst kv) && has_type env vt (snd kv)) m
          && lt31 (len m) && keys_nodup kt m
      end
  | _ => false
  end.
Proof. intros env t [m|]; destruct t; reflexivity. Qed.

Lemma has_type_VP : forall env t op, has_type env t (VP op) =
  match t with
  | TPtr t' => match op with None => true | Some v' => has_type env t' v' end
  | _ => false
  end.
Proof. intros env t [v|]; destruct t; reflexivity. Qed.

Lemma has_type_VT : forall env t fs h, has_type env t (VT fs h) =
  match t with
  | TStruct sid =>
      match lookup_sd env sid with
      | Some sd =>
          fields_all (fun f v' => has_type env (fty f) v') (sfields sd) fs
          && bytes_ok h && (sholder sd || (len h =? 0))
      | None => false
      end
  | _ => false
  end.
Proof. reflexivity. Qed.

Lemma denote_VS : forall env t x, denote env t (VS x) =
  match t with
  | TBool => WBool x | TI8 => WI8 x | TI16 => WI16 x | TI32 => WI32 x
  | TI64 => WI64 x | TDouble => WDbl x | TEnum => WI32 (low32 x)
  | _ => junk
  end.
Proof. reflexivity. Qed.

Lemma denote_VB : forall env t n s, denote env t (VB n s) = WStr s.
Proof. reflexivity. Qed.

Lemma denote_VL : forall env b e ol, denote env (TList b e) (VL ol) =
  WList b (wt e) match ol with None => [] | Some l => map (denote env e) l end.
Proof. reflexivity. Qed.

Lemma denote_VM : forall env kt vt om, denote env (TMap kt vt) (VM om) =
  WMap (wt kt) (wt vt)
       match om with
       | None => []
       | Some m => map (fun kv : val * val => (denote env kt (fst kv), denote env vt (snd kv))) m
       end.
Proof. reflexivity. Qed.

Lemma denote_VPn : forall env t, denote env t (VP None) = WStruct [] [].
Proof. reflexivity. Qed.

Lemma denote_VPs : forall env t' v, denote env (TPtr t') (VP (Some v)) = denote env t' v.
Proof. reflexivity. Qed.

Definition spec_field (env : senv) (f : field) (v' : val) : list (N * tv) :=
  if emits f v' then [(fid f, denote env (fty f) v')] else [].

Lemma denote_VT : forall env sid fs h, denote env (TStruct sid) (VT fs h) =
  match lookup_sd env sid with
  | Some sd => WStruct (fields_cat (spec_field env) (sfields sd) fs) (if sholder sd then h else [])
  | None => junk
  end.
Proof. reflexivity. Qed.

Lemma append_any_VS : forall env t x, append_any env t (VS x) = wr_apply (simple_wr (kind t)) (VS x).
Proof. reflexivity. Qed.

Lemma append_any_VB : forall env t n s, append_any env t (VB n s) = wr_apply (simple_wr (kind t)) (VB n s).
Proof. reflexivity. Qed.

Lemma append_any_VPn : forall env t, append_any env t (VP None) = [tSTOP].
Proof. reflexivity. Qed.

Lemma append_any_VPs : forall env t' v, append_any env (TPtr t') (VP (Some v)) = append_any env t' v.
Proof. reflexivity. Qed.

(* one element / key / value, as the specialised routine writes it *)
Definition elem_wr (env : senv) (w : wr) (e : ty) (x : val) : list N :=
  match w with
  | WrFunc | WrAny => append_any env e x
  | WrBool => wr_apply WrBool x
  | WrByte => wr_apply WrByte x
  | WrU16 => wr_apply WrU16 x
  | WrU32 => wr_apply WrU32 x
  | WrU64 => wr_apply WrU64 x
  | WrEnum => wr_apply WrEnum x
  | WrStr => wr_apply WrStr x
  | WrBad => wr_apply WrBad x
  end.

Lemma append_any_VL : forall env b e ol, append_any env (TList b e) (VL ol) =
  if l_shape (list_routine (kind e)) then
    match ol with
    | None => wt e :: be_put 4 0
    | Some l => wt e :: be_put 4 (len l) ++ cat_map (elem_wr env (l_elem (list_routine (kind e))) e) l
    end
  else [].
Proof. reflexivity. Qed.

Lemma append_any_VM : forall env kt vt om, append_any env (TMap kt vt) (VM om) =
  if m_shape (map_routine kt vt) then
    match om with
    | None => wt kt :: wt vt :: be_put 4 0
    | Some m =>
        wt kt :: wt vt :: be_put 4 (len m)
        ++ cat_map (fun kv : val * val =>
                      elem_wr env (m_key (map_routine kt vt)) kt (fst kv)
                      ++ elem_wr env (m_val (map_routine kt vt)) vt (snd kv)) m
    end
  else [].
Proof. reflexivity. Qed.

Definition impl_field (env : senv) (f : field) (v' : val) : list N :=
  if can_skip_nil f && is_nil v' then []
  else if can_skip_default f
          && match fdflt f with Some d => go_equal (fty f) d v' | None => false end
       then []
       else wt (fty f) :: be_put 2 (fid f) ++ append_any env (fty f) v'.

Lemma append_any_VT : forall env sid fs h, append_any env (TStruct sid) (VT fs h) =
  match lookup_sd env sid with
  | Some sd => fields_cat (impl_field env) (sfields sd) fs ++ (if sholder sd then h else []) ++ [tSTOP]
  | None => []
  end.
Proof. reflexivity. Qed.

Lemma put_WStruct : forall fs raw, put (WStruct fs raw) = cat_map put_field fs ++ raw ++ [cSTOP].
Proof. reflexivity. Qed.

Lemma put_WList : forall b ec es, put (WList b ec es) = ec :: be_put 4 (len es) ++ cat_map put es.
Proof. reflexivity. Qed.

Lemma put_WMap : forall kc vc es, put (WMap kc vc es) = kc :: vc :: be_put 4 (len es) ++ cat_map put_entry es.
Proof. reflexivity. Qed.

Lemma wf_WStruct : forall fs raw, wf (WStruct fs raw) =
  forallb (fun fv : N * tv => (fst fv <? 2 ^ 16) && wf (snd fv)) fs
  && match raw with [] => true | _ => false end.
Proof. reflexivity. Qed.

Lemma wf_WList : forall b ec es, wf (WList b ec es) =
  lt31 (len es) && (ec <? 128) && forallb (fun e => (code_of e =? ec) && wf e) es.
Proof. reflexivity. Qed.

Lemma wf_WMap : forall kc vc es, wf (WMap kc vc es) =
  lt31 (len es) && (kc <? 128) && (vc <? 128)
  && forallb (fun kv : tv * tv =>
                (code_of (fst kv) =? kc) && (code_of (snd kv) =? vc)
                && wf (fst kv) && wf (snd kv)) es.
Proof. reflexivity. Qed.

(* ------------------------------------------------------------------ *)
(* admissible positions                                                 *)
(* ------------------------------------------------------------------ *)

(* a value of type t may stand here: t is an accepted type, and a nil pointer
   occurs only when the pointee is a struct (elsewhere nil pointers are the
   absent optional fields, which are never written) *)
Definition slot_ok (env : senv) (t : ty) (v : val) : bool :=
  ty_ok env t && (negb (is_ptr t) || is_struct_ptr t || negb (is_nil v)).

(* element / key / value positions *)
Definition elem_pos (e : ty) : bool := negb (is_ptr e) || is_struct_ptr e.

Lemma slot_ok_elem : forall env e x, ty_ok env e = true -> elem_pos e = true -> slot_ok env e x = true.
Proof. unfold slot_ok, elem_pos. intros env e x H1 H2. rewrite H1, H2. reflexivity. Qed.

Lemma slot_ok_ty : forall env t v, slot_ok env t v = true -> ty_ok env t = true.
Proof. unfold slot_ok. intros env t v H. apply andb_true_iff in H. destruct H as [H _]. exact H. Qed.

Lemma ty_ok_list : forall env b e, ty_ok env (TList b e) = true -> ty_ok env e = true /\ elem_pos e = true.
Proof. intros env b e H. cbn [ty_ok] in H. apply andb_true_iff in H. exact H. Qed.

Lemma key_elem_pos : forall k, key_ty_ok k = true -> elem_pos k = true.
Proof.
  intros k H. destruct k; try reflexivity.
  unfold key_ty_ok in H. cbn [is_scalar_ty orb] in H. exact H.
Qed.

Lemma ty_ok_map : forall env k v, ty_ok env (TMap k v) = true ->
  key_ty_ok k = true /\ ty_ok env k = true /\ ty_ok env v = true /\ elem_pos v = true.
Proof.
  intros env k v H. cbn [ty_ok] in H.
  apply andb_true_iff in H. destruct H as [H H4].
  apply andb_true_iff in H. destruct H as [H H3].
  apply andb_true_iff in H. destruct H as [H1 H2].
  repeat split; assumption.
Qed.

Lemma ty_ok_ptr : forall env t', ty_ok env (TPtr t') = true -> ty_ok env t' = true /\ is_ptr t' = false.
Proof.
  intros env t' H. destruct t'; try discriminate H; split; try reflexivity; exact H.
Qed.

Lemma slot_ok_struct : forall env sid sd v,
  lookup_sd env sid = Some sd -> slot_ok env (TStruct sid) v = true.
Proof.
  intros env sid sd v Hl. unfold slot_ok. cbn [ty_ok is_ptr negb orb].
  rewrite (lookup_sd_lt env sid sd Hl). reflexivity.
Qed.

(* an emitted field is in an admissible position *)
Lemma emitted_slot_ok : forall env f v,
  field_ok env f = true -> (can_skip_nil f && is_nil v) = false -> slot_ok env (fty f) v = true.
Proof.
  unfold field_ok, can_skip_nil, slot_ok. intros env f v H1 H2.
  destruct (ty_ok env (fty f)), (is_ptr (fty f)), (is_struct_ptr (fty f)),
    (req_eqb (freq f) ROptional), (is_nil v), (fid f <? 2 ^ 16);
    cbn [andb orb negb] in *; try reflexivity; try discriminate.
Qed.

(* ------------------------------------------------------------------ *)
(* representatives: the tables are checked on finitely many types       *)
(* ------------------------------------------------------------------ *)

Definition rep (e : ty) : ty :=
  match e with
  | TList b _ => TList b TI32
  | TMap _ _ => TMap TI32 TI32
  | TStruct _ => TStruct 0
  | TPtr _ => TPtr (TStruct 0)
  | _ => e
  end.

Ltac in_list := cbn [In]; repeat ((left; reflexivity) || right).

Lemma rep_in_elem : forall e, elem_pos e = true -> In (rep e) elem_reps.
Proof.
  intros e _. unfold elem_reps.
  destruct e as [| | | | | | | | |b e'|k v|sid|t']; cbn [rep]; try (in_list; fail).
  destruct b; in_list.
Qed.

Lemma rep_in_key : forall k, key_ty_ok k = true -> In (rep k) key_reps.
Proof.
  intros k H. unfold key_reps.
  destruct k as [| | | | | | | | |b e'|k' v|sid|t']; cbn [rep]; try (in_list; fail); discriminate H.
Qed.

Lemma rep_kind : forall e, elem_pos e = true -> kind (rep e) = kind e.
Proof.
  intros e H. destruct e as [| | | | | | | | |b e'|k v|sid|t']; try reflexivity.
  destruct t'; try discriminate H. reflexivity.
Qed.

Lemma rep_binary : forall e, is_binary (rep e) = is_binary e.
Proof. destruct e; reflexivity. Qed.

Lemma rep_wr : forall e w, wr_ok (rep e) w = wr_ok e w.
Proof. destruct e; try reflexivity; destruct w; reflexivity. Qed.

Lemma tables_list : tables_ok = true -> list_tables_ok = true.
Proof.
  unfold tables_ok. intros H. apply andb_true_iff in H. destruct H as [H _].
  apply andb_true_iff in H. destruct H as [H _]. exact H.
Qed.

Lemma tables_map : tables_ok = true -> map_tables_ok = true.
Proof.
  unfold tables_ok. intros H. apply andb_true_iff in H. destruct H as [H _].
  apply andb_true_iff in H. destruct H as [_ H]. exact H.
Qed.

Lemma tables_simple : tables_ok = true -> simple_tables_ok = true.
Proof. unfold tables_ok. intros H. apply andb_true_iff in H. destruct H as [_ H]. exact H. Qed.

Lemma list_routine_ok : tables_ok = true -> forall e, elem_pos e = true ->
  l_shape (list_routine (kind e)) = true /\ wr_ok e (l_elem (list_routine (kind e))) = true.
Proof.
  intros HT e He. pose proof (tables_list HT) as H. unfold list_tables_ok in H.
  rewrite forallb_forall in H. specialize (H (rep e) (rep_in_elem e He)).
  cbv beta zeta in H. rewrite (rep_kind e He), rep_wr in H.
  apply andb_true_iff in H. exact H.
Qed.

Lemma map_routine_rep : forall k v, elem_pos k = true -> elem_pos v = true ->
  map_routine (rep k) (rep v) = map_routine k v.
Proof.
  intros k v Hk Hv. unfold map_routine.
  rewrite (rep_kind k Hk), (rep_kind v Hv), rep_binary. reflexivity.
Qed.

Lemma map_routine_ok : tables_ok = true -> forall k v, key_ty_ok k = true -> elem_pos v = true ->
  m_shape (map_routine k v) = true
  /\ wr_ok k (m_key (map_routine k v)) = true
  /\ wr_ok v (m_val (map_routine k v)) = true.
Proof.
  intros HT k v Hk Hv. pose proof (tables_map HT) as H. unfold map_tables_ok in H.
  rewrite forallb_forall in H. specialize (H (rep k) (rep_in_key k Hk)).
  rewrite forallb_forall in H. specialize (H (rep v) (rep_in_elem v Hv)).
  cbv beta zeta in H.
  rewrite (map_routine_rep k v (key_elem_pos k Hk) Hv), !rep_wr in H.
  apply andb_true_iff in H. destruct H as [H _].
  apply andb_true_iff in H. destruct H as [H H3].
  apply andb_true_iff in H. destruct H as [H1 H2].
  repeat split; assumption.
Qed.

Definition simple_tys : list ty := [TBool; TI8; TI16; TI32; TI64; TDouble; TEnum; TString; TBinary].

Lemma wr_eqb_false_neq : forall a b, wr_eqb a b = false -> a <> b.
Proof. intros a b H E. subst b. destruct a; discriminate H. Qed.

Lemma simple_wr_ok : tables_ok = true -> forall t, In t simple_tys ->
  wr_ok t (simple_wr (kind t)) = true
  /\ simple_wr (kind t) <> WrFunc /\ simple_wr (kind t) <> WrAny.
Proof.
  intros HT t Ht. pose proof (tables_simple HT) as H. unfold simple_tables_ok in H.
  rewrite forallb_forall in H. specialize (H t Ht). cbv beta in H.
  apply andb_true_iff in H. destruct H as [H H3].
  apply andb_true_iff in H. destruct H as [H1 H2].
  apply negb_true_iff in H2. apply negb_true_iff in H3.
  split; [exact H1|]. split; apply wr_eqb_false_neq; assumption.
Qed.

(* ------------------------------------------------------------------ *)
(* the inline writers                                                   *)
(* ------------------------------------------------------------------ *)

Lemma be_put_1 : forall x, x < 256 -> [x mod 256] = [x].
Proof. intros x H. rewrite N.mod_small by exact H. reflexivity. Qed.

Lemma wr_apply_ok : forall env t w x,
  wr_ok t w = true -> w <> WrFunc -> w <> WrAny -> has_type env t x = true ->
  wr_apply w x = put (denote env t x).
Proof.
  intros env t w x Hw Hf Ha Hty.
  destruct w; try congruence; try discriminate Hw;
    destruct t; try discriminate Hw;
    destruct x as [x|n s|ol|om|op|fs h];
    rewrite ?has_type_VS, ?has_type_VB, ?has_type_VL, ?has_type_VM, ?has_type_VP, ?has_type_VT in Hty;
    try discriminate Hty; cbn [width_bits] in Hty;
    rewrite ?denote_VS, ?denote_VB; cbn [put wr_apply]; try reflexivity.
  - (* WrBool on bool *)
    apply N.ltb_lt in Hty. destruct (x =? 0) eqn:E.
    + apply N.eqb_eq in E. subst x. reflexivity.
    + apply N.eqb_neq in E. f_equal. lia.
  - (* WrByte on bool *)
    apply N.ltb_lt in Hty. apply be_put_1. lia.
  - (* WrByte on i8 *)
    apply N.ltb_lt in Hty. apply be_put_1. lia.
Qed.

Lemma elem_wr_ok : forall env e w x,
  append_any env e x = put (denote env e x) ->
  wr_ok e w = true -> has_type env e x = true ->
  elem_wr env w e x = put (denote env e x).
Proof.
  intros env e w x IH Hw Hty. unfold elem_wr.
  destruct w; try exact IH; apply wr_apply_ok; try assumption; discriminate.
Qed.

(* ------------------------------------------------------------------ *)
(* (1) the wire code of the denotation is the declared wire type        *)
(* ------------------------------------------------------------------ *)

Lemma code_of_denote : forall env, enc_params_ok = true ->
  forall v t, has_type env t v = true -> slot_ok env t v = true ->
  code_of (denote env t v) = wt t.
Proof.
  intros env HP.
  destruct (codes_eqs HP) as (E0 & E1 & E2 & E3 & E4 & E5 & E6 & E7 & E8 & E9 & E10 & E11).
  induction v as [x|n s| |l IH| |m IH| |v IH|fs h IH] using val_ind'; intros t Hty Hs.
  - rewrite has_type_VS in Hty. rewrite denote_VS.
    destruct t; try discriminate Hty; cbn [code_of wt]; congruence.
  - rewrite has_type_VB in Hty. rewrite denote_VB.
    destruct t; try discriminate Hty; cbn [code_of wt]; congruence.
  - rewrite has_type_VL in Hty. destruct t as [| | | | | | | | |b e| | |]; try discriminate Hty.
    rewrite denote_VL. destruct b; cbn [code_of wt]; congruence.
  - rewrite has_type_VL in Hty. destruct t as [| | | | | | | | |b e| | |]; try discriminate Hty.
    rewrite denote_VL. destruct b; cbn [code_of wt]; congruence.
  - rewrite has_type_VM in Hty. destruct t; try discriminate Hty.
    rewrite denote_VM. cbn [code_of wt]. congruence.
  - rewrite has_type_VM in Hty. destruct t; try discriminate Hty.
    rewrite denote_VM. cbn [code_of wt]. congruence.
  - (* nil pointer: admissible only when the pointee is a struct *)
    rewrite has_type_VP in Hty. destruct t as [| | | | | | | | | | | |t']; try discriminate Hty.
    rewrite denote_VPn. unfold slot_ok in Hs. apply andb_true_iff in Hs. destruct Hs as [_ Hs].
    cbn [is_ptr is_nil negb orb] in Hs. rewrite orb_false_r in Hs.
    destruct t'; try discriminate Hs. cbn [code_of wt]. congruence.
  - rewrite has_type_VP in Hty. destruct t as [| | | | | | | | | | | |t']; try discriminate Hty.
    rewrite denote_VPs. cbn [wt]. apply IH; [exact Hty|].
    destruct (ty_ok_ptr env t' (slot_ok_ty _ _ _ Hs)) as [Hok Hnp].
    unfold slot_ok. rewrite Hok, Hnp. reflexivity.
  - rewrite has_type_VT in Hty. destruct t as [| | | | | | | | | | |sid|]; try discriminate Hty.
    rewrite denote_VT. destruct (lookup_sd env sid) as [sd|]; [|discriminate Hty].
    cbn [code_of wt]. congruence.
Qed.

(* ------------------------------------------------------------------ *)
(* (2) the encoder computes the reference encoding                      *)
(* ------------------------------------------------------------------ *)

(* the nested [if]s of appendStruct are [emits] *)
Lemma impl_field_spec : forall env f v,
  enc_params_ok = true -> field_ok env f = true -> has_type env (fty f) v = true ->
  (has_type env (fty f) v = true -> slot_ok env (fty f) v = true ->
   append_any env (fty f) v = put (denote env (fty f) v)) ->
  impl_field env f v = cat_map put_field (spec_field env f v).
Proof.
  intros env f v HP Hf Hty IH. unfold impl_field, spec_field, emits.
  destruct (can_skip_nil f && is_nil v) eqn:E1; cbn [negb andb]; [reflexivity|].
  destruct (can_skip_default f && match fdflt f with Some d => go_equal (fty f) d v | None => false end) eqn:E2;
    cbn [negb]; [reflexivity|].
  pose proof (emitted_slot_ok env f v Hf E1) as Hs.
  cbn [cat_map]. unfold put_field. cbn [fst snd]. rewrite app_nil_r.
  rewrite (code_of_denote env HP v (fty f) Hty Hs), (IH Hty Hs). reflexivity.
Qed.

Theorem encode_refines_gen : forall env, enc_params_ok = true -> tables_ok = true -> env_ok env = true ->
  forall v t, has_type env t v = true -> slot_ok env t v = true ->
  append_any env t v = put (denote env t v).
Proof.
  intros env HP HT HE.
  induction v as [x|n s| |l IH| |m IH| |v IH|fs h IH] using val_ind'; intros t Hty Hs.
  - (* scalar *)
    rewrite append_any_VS.
    assert (Hin : In t simple_tys).
    { rewrite has_type_VS in Hty. unfold simple_tys. destruct t; try discriminate Hty; in_list. }
    destruct (simple_wr_ok HT t Hin) as (Hw & Hnf & Hna).
    apply wr_apply_ok; assumption.
  - (* string / binary *)
    rewrite append_any_VB.
    assert (Hin : In t simple_tys).
    { rewrite has_type_VB in Hty. unfold simple_tys. destruct t; try discriminate Hty; in_list. }
    destruct (simple_wr_ok HT t Hin) as (Hw & Hnf & Hna).
    apply wr_apply_ok; assumption.
  - (* nil slice *)
    rewrite has_type_VL in Hty. destruct t as [| | | | | | | | |b e| | |]; try discriminate Hty.
    destruct (ty_ok_list env b e (slot_ok_ty _ _ _ Hs)) as [Hoe Hpe].
    destruct (list_routine_ok HT e Hpe) as [Hsh _].
    rewrite append_any_VL, Hsh, denote_VL, put_WList. cbn [cat_map]. rewrite app_nil_r. reflexivity.
  - (* slice *)
    rewrite has_type_VL in Hty. destruct t as [| | | | | | | | |b e| | |]; try discriminate Hty.
    apply andb_true_iff in Hty. destruct Hty as [Hall _]. rewrite forallb_forall in Hall.
    rewrite Forall_forall in IH.
    destruct (ty_ok_list env b e (slot_ok_ty _ _ _ Hs)) as [Hoe Hpe].
    destruct (list_routine_ok HT e Hpe) as [Hsh Hw].
    rewrite append_any_VL, Hsh, denote_VL, put_WList, len_map, cat_map_map.
    f_equal. f_equal. apply cat_map_ext_in. intros x Hx.
    apply elem_wr_ok; [|exact Hw|exact (Hall x Hx)].
    apply IH; [exact Hx|exact (Hall x Hx)|exact (slot_ok_elem env e x Hoe Hpe)].
  - (* nil map *)
    rewrite has_type_VM in Hty. destruct t as [| | | | | | | | | |kt vt| |]; try discriminate Hty.
    destruct (ty_ok_map env kt vt (slot_ok_ty _ _ _ Hs)) as (Hkk & Hok & Hov & Hpv).
    destruct (map_routine_ok HT kt vt Hkk Hpv) as (Hsh & _ & _).
    rewrite append_any_VM, Hsh, denote_VM, put_WMap. cbn [cat_map]. rewrite app_nil_r. reflexivity.
  - (* map *)
    rewrite has_type_VM in Hty. destruct t as [| | | | | | | | | |kt vt| |]; try discriminate Hty.
    apply andb_true_iff in Hty. destruct Hty as [Hty _].
    apply andb_true_iff in Hty. destruct Hty as [Hall _]. rewrite forallb_forall in Hall.
    rewrite Forall_forall in IH.
    destruct (ty_ok_map env kt vt (slot_ok_ty _ _ _ Hs)) as (Hkk & Hok & Hov & Hpv).
    destruct (map_routine_ok HT kt vt Hkk Hpv) as (Hsh & Hwk & Hwv).
    rewrite append_any_VM, Hsh, denote_VM, put_WMap, len_map, cat_map_map.
    f_equal. f_equal. f_equal. apply cat_map_ext_in. intros kv Hkv.
    pose proof (Hall kv Hkv) as Hkvt. apply andb_true_iff in Hkvt. destruct Hkvt as [Htk Htv].
    destruct (IH kv Hkv) as [IHk IHv].
    unfold put_entry. cbn [fst snd]. f_equal.
    + apply elem_wr_ok; [|exact Hwk|exact Htk].
      apply IHk; [exact Htk|exact (slot_ok_elem env kt _ Hok (key_elem_pos kt Hkk))].
    + apply elem_wr_ok; [|exact Hwv|exact Htv].
      apply IHv; [exact Htv|exact (slot_ok_elem env vt _ Hov Hpv)].
  - (* nil pointer: appendStruct with base == nil *)
    rewrite append_any_VPn, denote_VPn, put_WStruct. cbn [cat_map app].
    destruct (codes_eqs HP) as (E0 & _). rewrite E0. reflexivity.
  - (* pointer *)
    rewrite has_type_VP in Hty. destruct t as [| | | | | | | | | | | |t']; try discriminate Hty.
    rewrite append_any_VPs, denote_VPs. apply IH; [exact Hty|].
    destruct (ty_ok_ptr env t' (slot_ok_ty _ _ _ Hs)) as [Hok Hnp].
    unfold slot_ok. rewrite Hok, Hnp. reflexivity.
  - (* struct *)
    rewrite has_type_VT in Hty. destruct t as [| | | | | | | | | | |sid|]; try discriminate Hty.
    rewrite append_any_VT, denote_VT.
    destruct (lookup_sd env sid) as [sd|] eqn:Hl; [|discriminate Hty].
    apply andb_true_iff in Hty. destruct Hty as [Hty _].
    apply andb_true_iff in Hty. destruct Hty as [Hall _].
    rewrite Forall_forall in IH.
    rewrite put_WStruct, cat_map_fields_cat.
    destruct (codes_eqs HP) as (E0 & _). rewrite E0.
    f_equal.
    apply (fields_cat_ext _ _ _ _ _ _ Hall).
    intros f v Hf Hv Hfv.
    apply impl_field_spec; [exact HP| |exact Hfv|].
    + exact (env_field_ok env sid sd f HE Hl Hf).
    + intros H1 H2. apply IH; assumption.
Qed.

Theorem encode_refines : forall env sid v, enc_params_ok = true -> tables_ok = true -> env_ok env = true ->
  has_type env (TStruct sid) v = true ->
  append_struct env sid v = put (denote env (TStruct sid) v).
Proof.
  intros env sid v HP HT HE Hty. unfold append_struct.
  apply encode_refines_gen; try assumption.
  destruct v as [x|n s|ol|om|op|fs h];
    rewrite ?has_type_VS, ?has_type_VB, ?has_type_VL, ?has_type_VM, ?has_type_VP, ?has_type_VT in Hty;
    try discriminate Hty.
  destruct (lookup_sd env sid) as [sd|] eqn:Hl; [|discriminate Hty].
  exact (slot_ok_struct env sid sd _ Hl).
Qed.

(* ------------------------------------------------------------------ *)
(* (3) the denotation is a well-formed Thrift value                     *)
(* ------------------------------------------------------------------ *)

(* every struct's _unknownFields holder, at any depth, is empty *)
Fixpoint holders_empty (v : val) : bool :=
  match v with
  | VS _ | VB _ _ => true
  | VL None | VM None | VP None => true
  | VL (Some l) => forallb holders_empty l
  | VM (Some m) => forallb (fun kv : val * val => holders_empty (fst kv) && holders_empty (snd kv)) m
  | VP (Some v') => holders_empty v'
  | VT fs h => match h with [] => true | _ => false end && forallb holders_empty fs
  end.

Lemma holders_empty_VL : forall l, holders_empty (VL (Some l)) = forallb holders_empty l.
Proof. reflexivity. Qed.
Lemma holders_empty_VM : forall m, holders_empty (VM (Some m)) =
  forallb (fun kv : val * val => holders_empty (fst kv) && holders_empty (snd kv)) m.
Proof. reflexivity. Qed.
Lemma holders_empty_VP : forall v, holders_empty (VP (Some v)) = holders_empty v.
Proof. reflexivity. Qed.
Lemma holders_empty_VT : forall fs h, holders_empty (VT fs h) =
  match h with [] => true | _ => false end && forallb holders_empty fs.
Proof. reflexivity. Qed.

Lemma lt31_0 : lt31 (len (@nil val)) = true.
Proof. reflexivity. Qed.

(* a declared wire type is a non-negative int8 *)
Lemma wt_lt128 : enc_params_ok = true -> forall t, (wt t <? 128) = true.
Proof.
  intros HP.
  destruct (codes_eqs HP) as (E0 & E1 & E2 & E3 & E4 & E5 & E6 & E7 & E8 & E9 & E10 & E11).
  induction t as [| | | | | | | | |b e IHe|k IHk v IHv|sid|t' IH]; cbn [wt];
    try (destruct b); try exact IH;
    rewrite ?E1, ?E2, ?E3, ?E4, ?E5, ?E6, ?E7, ?E8, ?E9, ?E10, ?E11; reflexivity.
Qed.

Lemma denote_wf_gen : forall env, enc_params_ok = true -> env_ok env = true ->
  forall v t, has_type env t v = true -> slot_ok env t v = true -> holders_empty v = true ->
  wf (denote env t v) = true.
Proof.
  intros env HP HE.
  induction v as [x|n s| |l IH| |m IH| |v IH|fs h IH] using val_ind'; intros t Hty Hs Hh.
  - (* scalar *)
    rewrite has_type_VS in Hty. rewrite denote_VS.
    destruct t; try discriminate Hty; cbn [width_bits] in Hty; cbn [wf]; try exact Hty.
    + apply N.ltb_lt in Hty. apply N.ltb_lt. lia.
    + unfold low32. apply N.ltb_lt. apply N.mod_lt. lia.
  - (* string / binary *)
    rewrite has_type_VB in Hty. rewrite denote_VB. cbn [wf].
    destruct t; try discriminate Hty.
    + apply andb_true_iff in Hty. destruct Hty as [Hty H3].
      apply andb_true_iff in Hty. destruct Hty as [_ H2]. rewrite H2, H3. reflexivity.
    + apply andb_true_iff in Hty. destruct Hty as [Hty _].
      apply andb_true_iff in Hty. destruct Hty as [H1 H2]. rewrite H1, H2. reflexivity.
  - (* nil slice *)
    rewrite has_type_VL in Hty. destruct t as [| | | | | | | | |b e| | |]; try discriminate Hty.
    rewrite denote_VL, wf_WList, (wt_lt128 HP e). reflexivity.
  - (* slice *)
    rewrite has_type_VL in Hty. destruct t as [| | | | | | | | |b e| | |]; try discriminate Hty.
    apply andb_true_iff in Hty. destruct Hty as [Hall Hlen]. rewrite forallb_forall in Hall.
    rewrite Forall_forall in IH. rewrite holders_empty_VL, forallb_forall in Hh.
    destruct (ty_ok_list env b e (slot_ok_ty _ _ _ Hs)) as [Hoe Hpe].
    rewrite denote_VL, wf_WList, len_map, Hlen, (wt_lt128 HP e), forallb_map'. cbn [andb].
    apply forallb_forall. intros x Hx.
    pose proof (slot_ok_elem env e x Hoe Hpe) as Hsx.
    rewrite (code_of_denote env HP x e (Hall x Hx) Hsx), N.eqb_refl.
    rewrite (IH x Hx e (Hall x Hx) Hsx (Hh x Hx)). reflexivity.
  - (* nil map *)
    rewrite has_type_VM in Hty. destruct t as [| | | | | | | | | |kt vt| |]; try discriminate Hty.
    rewrite denote_VM, wf_WMap, (wt_lt128 HP kt), (wt_lt128 HP vt). reflexivity.
  - (* map *)
    rewrite has_type_VM in Hty. destruct t as [| | | | | | | | | |kt vt| |]; try discriminate Hty.
    apply andb_true_iff in Hty. destruct Hty as [Hty _].
    apply andb_true_iff in Hty. destruct Hty as [Hall Hlen]. rewrite forallb_forall in Hall.
    rewrite Forall_forall in IH. rewrite holders_empty_VM, forallb_forall in Hh.
    destruct (ty_ok_map env kt vt (slot_ok_ty _ _ _ Hs)) as (Hkk & Hok & Hov & Hpv).
    rewrite denote_VM, wf_WMap, len_map, Hlen, (wt_lt128 HP kt), (wt_lt128 HP vt), forallb_map'. cbn [andb].
    apply forallb_forall. intros kv Hkv. cbn [fst snd].
    pose proof (Hall kv Hkv) as Hkvt. apply andb_true_iff in Hkvt. destruct Hkvt as [Htk Htv].
    pose proof (Hh kv Hkv) as Hhkv. apply andb_true_iff in Hhkv. destruct Hhkv as [Hhk Hhv].
    destruct (IH kv Hkv) as [IHk IHv].
    pose proof (slot_ok_elem env kt (fst kv) Hok (key_elem_pos kt Hkk)) as Hsk.
    pose proof (slot_ok_elem env vt (snd kv) Hov Hpv) as Hsv.
    rewrite (code_of_denote env HP _ kt Htk Hsk), (code_of_denote env HP _ vt Htv Hsv), !N.eqb_refl.
    rewrite (IHk kt Htk Hsk Hhk), (IHv vt Htv Hsv Hhv). reflexivity.
  - (* nil pointer *)
    rewrite denote_VPn. reflexivity.
  - (* pointer *)
    rewrite has_type_VP in Hty. destruct t as [| | | | | | | | | | | |t']; try discriminate Hty.
    rewrite denote_VPs. rewrite holders_empty_VP in Hh. apply IH; [exact Hty| |exact Hh].
    destruct (ty_ok_ptr env t' (slot_ok_ty _ _ _ Hs)) as [Hok Hnp].
    unfold slot_ok. rewrite Hok, Hnp. reflexivity.
  - (* struct *)
    rewrite has_type_VT in Hty. destruct t as [| | | | | | | | | | |sid|]; try discriminate Hty.
    rewrite denote_VT.
    destruct (lookup_sd env sid) as [sd|] eqn:Hl; [|discriminate Hty].
    apply andb_true_iff in Hty. destruct Hty as [Hty _].
    apply andb_true_iff in Hty. destruct Hty as [Hall _].
    rewrite Forall_forall in IH.
    rewrite holders_empty_VT in Hh. apply andb_true_iff in Hh. destruct Hh as [Hh0 Hh].
    rewrite forallb_forall in Hh.
    destruct h as [|b0 h']; [|discriminate Hh0].
    rewrite wf_WStruct.
    replace (if sholder sd then [] else []) with (@nil N) by (destruct (sholder sd); reflexivity).
    rewrite andb_true_r.
    apply (forallb_fields_cat _ _ _ _ _ _ Hall).
    intros f v Hf Hv Hfv. unfold spec_field.
    destruct (emits f v) eqn:Hem; [|reflexivity].
    cbn [forallb fst snd]. rewrite andb_true_r.
    pose proof (env_field_ok env sid sd f HE Hl Hf) as Hfo.
    assert (Hsk : (can_skip_nil f && is_nil v) = false).
    { unfold emits in Hem. apply andb_true_iff in Hem. destruct Hem as [Hem _].
      apply negb_true_iff in Hem. exact Hem. }
    pose proof (emitted_slot_ok env f v Hfo Hsk) as Hsv.
    rewrite (IH v Hv (fty f) Hfv Hsv (Hh v Hv)), andb_true_r.
    unfold field_ok in Hfo.
    apply andb_true_iff in Hfo. destruct Hfo as [Hfo _].
    apply andb_true_iff in Hfo. destruct Hfo as [Hfo _].
    apply andb_true_iff in Hfo. destruct Hfo as [Hfo _]. exact Hfo.
Qed.

Theorem denote_wf : forall env t v,
  has_type env t v = true -> slot_ok env t v = true -> holders_empty v = true ->
  enc_params_ok = true -> env_ok env = true ->
  wf (denote env t v) = true.
Proof. intros env t v H1 H2 H3 HP HE. exact (denote_wf_gen env HP HE v t H1 H2 H3). Qed.

(* top-level form: a typed struct value is always in an admissible position *)
Corollary denote_wf_struct : forall env sid v,
  has_type env (TStruct sid) v = true -> holders_empty v = true ->
  enc_params_ok = true -> env_ok env = true ->
  wf (denote env (TStruct sid) v) = true.
Proof.
  intros env sid v Hty Hh HP HE. apply denote_wf; try assumption.
  destruct v as [x|n s|ol|om|op|fs h];
    rewrite ?has_type_VS, ?has_type_VB, ?has_type_VL, ?has_type_VM, ?has_type_VP, ?has_type_VT in Hty;
    try discriminate Hty.
  destruct (lookup_sd env sid) as [sd|] eqn:Hl; [|discriminate Hty].
  exact (slot_ok_struct env sid sd _ Hl).
Qed.

(* ------------------------------------------------------------------ *)
(* (4) which fields are written                                         *)
(* ------------------------------------------------------------------ *)

Lemma emits_spec : forall f v,
  emits f v = negb (can_skip_nil f && is_nil v)
              && negb (can_skip_default f
                       && match fdflt f with Some d => go_equal (fty f) d v | None => false end).
Proof. reflexivity. Qed.

Lemma required_emits : forall f v, freq f = RRequired -> emits f v = true.
Proof.
  intros f v H. unfold emits, can_skip_nil, can_skip_default. rewrite H. reflexivity.
Qed.

(* ids written by the zipped loop are ids of descriptor fields *)
Lemma fields_cat_ids_in : forall env id vs fds,
  In id (map fst (fields_cat (spec_field env) fds vs)) -> exists g, In g fds /\ fid g = id.
Proof.
  induction vs as [|v vr IH]; intros fds H; [destruct H|].
  destruct fds as [|fd fr]; [destruct H|].
  cbn [fields_cat] in H. rewrite map_app in H. apply in_app_or in H. destruct H as [H|H].
  - unfold spec_field in H. destruct (emits fd v); [|destruct H].
    cbn [map fst In] in H. destruct H as [H|[]]. exists fd. split; [left; reflexivity|exact H].
  - destruct (IH fr H) as (g & Hg & Hid). exists g. split; [right; exact Hg|exact Hid].
Qed.

Lemma sorted_ids_tail : forall f fr, sorted_ids (f :: fr) = true -> sorted_ids fr = true.
Proof.
  intros f fr H. destruct fr as [|g r]; [reflexivity|].
  cbn [sorted_ids] in H. apply andb_true_iff in H. destruct H as [_ H]. exact H.
Qed.

Lemma sorted_ids_head_lt : forall fr f g, sorted_ids (f :: fr) = true -> In g fr -> fid f < fid g.
Proof.
  induction fr as [|g0 r IH]; intros f g H Hg; [destruct Hg|].
  cbn [sorted_ids] in H. apply andb_true_iff in H. destruct H as [H1 H2].
  apply N.ltb_lt in H1. destruct Hg as [Hg|Hg].
  - subst g0. exact H1.
  - pose proof (IH g0 g H2 Hg) as H3. lia.
Qed.

(* the general statement on the zipped loop *)
Lemma fields_cat_emits_iff : forall env fds vs i f v,
  sorted_ids fds = true -> nth_error fds i = Some f -> nth_error vs i = Some v ->
  (In (fid f) (map fst (fields_cat (spec_field env) fds vs)) <-> emits f v = true).
Proof.
  induction fds as [|fd fr IH]; intros vs i f v Hso Hf Hv.
  - destruct i; discriminate Hf.
  - destruct vs as [|v0 vr]; [destruct i; discriminate Hv|].
    cbn [fields_cat]. rewrite map_app, in_app_iff.
    destruct i as [|i].
    + cbn [nth_error] in Hf, Hv. injection Hf as Hf. injection Hv as Hv. subst fd v0.
      unfold spec_field at 1. destruct (emits f v) eqn:Hem.
      * split; [reflexivity|]. intros _. left. left. reflexivity.
      * split; [|discriminate]. intros [H|H]; [destruct H|].
        destruct (fields_cat_ids_in env _ _ _ H) as (g & Hg & Hid).
        pose proof (sorted_ids_head_lt fr f g Hso Hg) as Hlt. lia.
    + cbn [nth_error] in Hf, Hv.
      pose proof (sorted_ids_head_lt fr fd f Hso (nth_error_In _ _ Hf)) as Hlt.
      rewrite <- (IH vr i f v (sorted_ids_tail fd fr Hso) Hf Hv).
      split; [|intros H; right; exact H].
      intros [H|H]; [|exact H].
      unfold spec_field in H. destruct (emits fd v0); [|destruct H].
      cbn [map fst In] in H. destruct H as [H|[]]. lia.
Qed.

(* every required field is written *)
Lemma denote_required : forall env sid sd fs h f,
  lookup_sd env sid = Some sd ->
  has_type env (TStruct sid) (VT fs h) = true ->
  In f (sfields sd) -> freq f = RRequired ->
  exists fields raw,
    denote env (TStruct sid) (VT fs h) = WStruct fields raw /\ In (fid f) (map fst fields).
Proof.
  intros env sid sd fs h f Hl Hty Hf Hreq.
  rewrite has_type_VT, Hl in Hty.
  apply andb_true_iff in Hty. destruct Hty as [Hty _].
  apply andb_true_iff in Hty. destruct Hty as [Hall _].
  rewrite denote_VT, Hl. eexists. eexists. split; [reflexivity|].
  clear Hl. revert Hall Hf. generalize (sfields sd) as fds. clear sd. revert fs.
  induction fs as [|v vr IH]; intros fds Hall Hf.
  - destruct fds; [destruct Hf|discriminate Hall].
  - destruct fds as [|fd fr]; [destruct Hf|].
    cbn [fields_all] in Hall. apply andb_true_iff in Hall. destruct Hall as [_ Hall].
    cbn [fields_cat]. rewrite map_app, in_app_iff.
    destruct Hf as [Hf|Hf].
    + subst fd. left. unfold spec_field. rewrite (required_emits f v Hreq). left. reflexivity.
    + right. exact (IH fr Hall Hf).
Qed.

(* for a typed struct, the field at position i occurs in the denotation iff
   [emits] holds of it and its value (ids are strictly sorted, so the id
   identifies the field) *)
Lemma denote_field_iff : forall env sid sd fs h i f v fields raw,
  env_ok env = true ->
  lookup_sd env sid = Some sd ->
  has_type env (TStruct sid) (VT fs h) = true ->
  nth_error (sfields sd) i = Some f -> nth_error fs i = Some v ->
  denote env (TStruct sid) (VT fs h) = WStruct fields raw ->
  (In (fid f) (map fst fields) <-> emits f v = true).
Proof.
  intros env sid sd fs h i f v fields raw HE Hl _ Hf Hv Hd.
  rewrite denote_VT, Hl in Hd. injection Hd as Hd _. subst fields.
  exact (fields_cat_emits_iff env (sfields sd) fs i f v (env_sorted_ids env sid sd HE Hl) Hf Hv).
Qed.

(* and the entry written for it is its own denotation *)
Lemma denote_field_entry : forall env sid sd fs h i f v fields raw,
  env_ok env = true ->
  lookup_sd env sid = Some sd ->
  nth_error (sfields sd) i = Some f -> nth_error fs i = Some v ->
  denote env (TStruct sid) (VT fs h) = WStruct fields raw ->
  emits f v = true -> In (fid f, denote env (fty f) v) fields.
Proof.
  intros env sid sd fs h i f v fields raw HE Hl Hf Hv Hd Hem.
  rewrite denote_VT, Hl in Hd. injection Hd as Hd _. subst fields.
  clear Hl HE. revert Hf Hv. generalize (sfields sd) as fds. clear sd. revert i.
  induction fs as [|v0 vr IH]; intros i fds Hf Hv; [destruct i; discriminate Hv|].
  destruct fds as [|fd fr]; [destruct i; discriminate Hf|].
  cbn [fields_cat]. apply in_or_app. destruct i as [|i].
  - cbn [nth_error] in Hf, Hv. injection Hf as Hf. injection Hv as Hv. subst fd v0.
    left. unfold spec_field. rewrite Hem. left. reflexivity.
  - right. exact (IH i fr Hf Hv).
Qed.

(* a typed struct has a (typed) value at every descriptor position *)
Lemma fields_all_nth : forall (p : field -> val -> bool) vs fds i f,
  fields_all p fds vs = true -> nth_error fds i = Some f ->
  exists v, nth_error vs i = Some v /\ p f v = true.
Proof.
  induction vs as [|v vr IH]; intros fds i f Hall Hf.
  - destruct fds; [destruct i; discriminate Hf|discriminate Hall].
  - destruct fds as [|fd fr]; [discriminate Hall|].
    cbn [fields_all] in Hall. apply andb_true_iff in Hall. destruct Hall as [Hp Hall].
    destruct i as [|i].
    + cbn [nth_error] in Hf. injection Hf as Hf. subst fd. exists v. split; [reflexivity|exact Hp].
    + cbn [nth_error] in Hf. cbn [nth_error]. exact (IH fr i f Hall Hf).
Qed.

Lemma typed_field_value : forall env sid sd fs h i f,
  lookup_sd env sid = Some sd ->
  has_type env (TStruct sid) (VT fs h) = true ->
  nth_error (sfields sd) i = Some f ->
  exists v, nth_error fs i = Some v /\ has_type env (fty f) v = true.
Proof.
  intros env sid sd fs h i f Hl Hty Hf.
  rewrite has_type_VT, Hl in Hty.
  apply andb_true_iff in Hty. destruct Hty as [Hty _].
  apply andb_true_iff in Hty. destruct Hty as [Hall _].
  exact (fields_all_nth _ fs (sfields sd) i f Hall Hf).
Qed.

(* ------------------------------------------------------------------ *)
(* the side conditions are needed                                       *)
(* ------------------------------------------------------------------ *)

(* without [slot_ok]: a nil pointer to a non-struct is well typed, but its
   denotation is an empty struct *)
Example code_of_denote_needs_slot :
  has_type [] (TPtr TI32) (VP None) = true
  /\ code_of (denote [] (TPtr TI32) (VP None)) <> wt (TPtr TI32).
Proof. split; [reflexivity|discriminate]. Qed.

(* without [holders_empty]: retained unknown-field bytes are re-emitted as
   [raw], which [wf] (a value as a conforming writer produces it) excludes *)
Example denote_wf_needs_holders :
  let env := [mkSdesc [] true None] in
  env_ok env = true /\ has_type env (TStruct 0) (VT [] [1]) = true
  /\ wf (denote env (TStruct 0) (VT [] [1])) = false.
Proof. repeat split; reflexivity. Qed.

Print Assumptions code_of_denote.
Print Assumptions encode_refines_gen.
Print Assumptions encode_refines.
Print Assumptions denote_wf.
Print Assumptions denote_required.
Print Assumptions denote_field_iff.
