(* Corollaries.v -- consequences of the refinement theorems for three
   properties of the serializer:
     A  required fields (C09): the decoder reports the first required field
        the message does not carry, the encoder always writes them;
     B  unknown fields (C11): what the holder contains after decoding, and
        that the encoder re-emits it verbatim (one-hop conservation);
     C  depth (C15): messages nested at most 48 deep are never rejected for
        depth, the budget 0 is rejected, and too deep messages are rejected
        with EDepth.
   Everything is derived from the finished proof files; nothing is assumed. *)
From Coq Require Import List NArith Bool Lia ZifyN ZifyNat ZifyBool.
From Frugal Require Import Bytes Wire Skip Values Desc Spec Encode Decode Checks.
From Frugal.gen Require Import Params.
From Frugal.proofs Require Import SizeExact SkipPut DecodeSafe BytesWire EncodeSpec DecodeRefines ParamsSplit.
Import ListNotations.
Open Scope N_scope.

(* the skipper lemma in the form the Refines section wants it *)
Lemma skip_premise : dec_params_ok = true ->
  forall (w : tv) (rest : list N), wf w = true ->
    (wdepth w < N.to_nat gk_defaultRecursionDepth)%nat -> rest <> [] ->
    gk_skip (put w ++ rest) (code_of w) = SOk (len (put w)).
Proof. intros HP w rest Hw Hd _. exact (gk_skip_put HP w rest Hw Hd). Qed.

(* ================================================================== *)
(* A. Required fields                                                   *)
(* ================================================================== *)

(* the reader skips the field: its id is not declared, or it is declared with
   another wire code *)
Definition skipped (sd : sdesc) (fv : N * tv) : bool :=
  match get_field sd (fst fv) with
  | Some (_, f) => negb (wt (fty f) =? code_of (snd fv))
  | None => true
  end.

Lemma skipped_false : forall sd i w,
  skipped sd (i, w) = false <->
  exists ix f, get_field sd i = Some (ix, f) /\ wt (fty f) = code_of w.
Proof.
  intros sd i w. unfold skipped. cbn [fst snd].
  destruct (get_field sd i) as [[ix f]|].
  - destruct (wt (fty f) =? code_of w) eqn:E; cbn [negb].
    + apply N.eqb_eq in E. split; [|reflexivity]. intros _. exists ix, f. split; [reflexivity|exact E].
    + apply N.eqb_neq in E. split; [discriminate|].
      intros (ix' & f' & H1 & H2). injection H1 as _ Hf. subst f'. contradiction.
  - split; [discriminate|]. intros (ix' & f' & H1 & _). discriminate H1.
Qed.

(* one step of the reference field loop, by cases on [skipped] *)
Lemma ab_fields_cons : forall ab sd id w r cur seen unk,
  ab_fields ab sd ((id, w) :: r) cur seen unk
  = if skipped sd (id, w) then ab_fields ab sd r cur seen (unk ++ put_field (id, w))
    else match get_field sd id with
         | Some (i, f) =>
             match ab (fty f) w (nth i cur (VS 0)) with
             | AOk v => ab_fields ab sd r (set_nth cur i v) (id :: seen) unk
             | AMismatch => AMismatch | AMissing j => AMissing j | ABad => ABad
             end
         | None => ABad
         end.
Proof.
  intros ab sd id w r cur seen unk. unfold skipped. cbn [ab_fields fst snd].
  destruct (get_field sd id) as [[i f]|]; [|reflexivity].
  destruct (wt (fty f) =? code_of w); reflexivity.
Qed.

(* A1 *)
Lemma ab_fields_char : forall ab sd fs cur seen unk cur' seen' unk',
  ab_fields ab sd fs cur seen unk = AOk (cur', seen', unk') ->
  unk' = unk ++ put_fields (filter (skipped sd) fs)
  /\ forall i, In i seen' <-> In i seen \/ exists w, In (i, w) fs /\ skipped sd (i, w) = false.
Proof.
  intros ab sd. induction fs as [|[id w] r IH]; intros cur seen unk cur' seen' unk' H.
  - cbn [ab_fields] in H. injection H as H1 H2 H3. subst cur' seen' unk'. split.
    + cbn [filter put_fields cat_map]. rewrite app_nil_r. reflexivity.
    + intros i. split; [intros Hi; left; exact Hi|].
      intros [Hi|[w [[] _]]]. exact Hi.
  - rewrite ab_fields_cons in H. cbn [filter]. destruct (skipped sd (id, w)) eqn:Es.
    + apply IH in H. destruct H as [Hu Hs]. split.
      * rewrite Hu, put_fields_cons, <- app_assoc. reflexivity.
      * intros i. rewrite Hs. split.
        -- intros [Hi|[w' [Hin Hk]]]; [left; exact Hi|].
           right. exists w'. split; [right; exact Hin|exact Hk].
        -- intros [Hi|[w' [[E|Hin] Hk]]]; [left; exact Hi| |].
           ++ injection E as E1 E2. subst i w'. rewrite Es in Hk. discriminate Hk.
           ++ right. exists w'. split; assumption.
    + destruct (get_field sd id) as [[ix f]|]; [|discriminate H].
      destruct (ab (fty f) w (nth ix cur (VS 0))) as [v| |j|]; try discriminate H.
      apply IH in H. destruct H as [Hu Hs]. split; [exact Hu|].
      intros i. rewrite Hs. split.
      * intros [[E|Hi]|[w' [Hin Hk]]].
        -- subst i. right. exists w. split; [left; reflexivity|exact Es].
        -- left. exact Hi.
        -- right. exists w'. split; [right; exact Hin|exact Hk].
      * intros [Hi|[w' [[E|Hin] Hk]]].
        -- left. right. exact Hi.
        -- injection E as E1 E2. subst i w'. left. left. reflexivity.
        -- right. exists w'. split; assumption.
Qed.

(* the exact content of the presence set, should an order ever matter *)
Lemma ab_fields_seen : forall ab sd fs cur seen unk cur' seen' unk',
  ab_fields ab sd fs cur seen unk = AOk (cur', seen', unk') ->
  seen' = rev (map fst (filter (fun fv => negb (skipped sd fv)) fs)) ++ seen.
Proof.
  intros ab sd. induction fs as [|[id w] r IH]; intros cur seen unk cur' seen' unk' H.
  - cbn [ab_fields] in H. injection H as H1 H2 H3. subst. reflexivity.
  - rewrite ab_fields_cons in H. cbn [filter]. destruct (skipped sd (id, w)) eqn:Es; cbn [negb].
    + eapply IH. exact H.
    + destruct (get_field sd id) as [[ix f]|]; [|discriminate H].
      destruct (ab (fty f) w (nth ix cur (VS 0))) as [v| |j|]; try discriminate H.
      apply IH in H. rewrite H. cbn [map fst rev]. rewrite <- app_assoc. reflexivity.
Qed.

(* the id occurs in the message with the wire code its declaration has *)
Definition stored (sd : sdesc) (fs : list (N * tv)) (i : N) : bool :=
  existsb (fun fv => (fst fv =? i) && negb (skipped sd fv)) fs.

Lemma stored_spec : forall sd fs i,
  stored sd fs i = true <-> exists w, In (i, w) fs /\ skipped sd (i, w) = false.
Proof.
  intros sd fs i. unfold stored. rewrite existsb_exists. split.
  - intros [[j w] [Hin H]]. cbn [fst] in H. apply andb_true_iff in H. destruct H as [H1 H2].
    apply N.eqb_eq in H1. subst j. apply negb_true_iff in H2. exists w. split; assumption.
  - intros [w [Hin H]]. exists (i, w). split; [exact Hin|]. cbn [fst].
    rewrite N.eqb_refl, H. reflexivity.
Qed.

Lemma stored_declared : forall sd fs i,
  stored sd fs i = true <->
  exists w ix f, In (i, w) fs /\ get_field sd i = Some (ix, f) /\ wt (fty f) = code_of w.
Proof.
  intros sd fs i. rewrite stored_spec. split.
  - intros [w [Hin H]]. apply skipped_false in H. destruct H as (ix & f & H1 & H2).
    exists w, ix, f. repeat split; assumption.
  - intros (w & ix & f & Hin & H1 & H2). exists w. split; [exact Hin|].
    apply skipped_false. exists ix, f. split; assumption.
Qed.

Lemma memN_In : forall i l, memN i l = true <-> In i l.
Proof.
  intros i l. unfold memN. rewrite existsb_exists. split.
  - intros [j [Hin E]]. apply N.eqb_eq in E. subst j. exact Hin.
  - intros Hin. exists i. split; [exact Hin|apply N.eqb_refl].
Qed.

Lemma bool_eq_iff : forall a b : bool, (a = true <-> b = true) -> a = b.
Proof. intros [|] [|] H; try reflexivity; destruct H as [H1 H2]; auto; symmetry; auto. Qed.

Lemma seen_stored : forall ab sd fs cur cur' seen' unk' i,
  ab_fields ab sd fs cur [] [] = AOk (cur', seen', unk') ->
  memN i seen' = stored sd fs i.
Proof.
  intros ab sd fs cur cur' seen' unk' i H. apply ab_fields_char in H. destruct H as [_ Hs].
  apply bool_eq_iff. rewrite memN_In, stored_spec, Hs. split.
  - intros [[]|H]. exact H.
  - intros H. right. exact H.
Qed.

(* what the reference decoder answers once the field loop has succeeded *)
Definition top_result (sd : sdesc) (fs : list (N * tv)) (cur : list val) (unk h0 : list N) : ares val :=
  match find (fun i => negb (stored sd fs i)) (required_ids sd) with
  | Some i => AMissing i
  | None => AOk (VT cur (if sholder sd then match unk with [] => h0 | _ => unk end else h0))
  end.

(* A2, reference decoder: [AMissing i] exactly for the first required id
   (ascending order) that does not occur with its declared wire code *)
Theorem required_enforced_top : forall env sid sd fs raw fs0 h0 cur seen unk,
  lookup_sd env sid = Some sd ->
  ab_fields (absorb env) sd fs fs0 [] [] = AOk (cur, seen, unk) ->
  absorb_top env sid (WStruct fs raw) (VT fs0 h0) = top_result sd fs cur unk h0.
Proof.
  intros env sid sd fs raw fs0 h0 cur seen unk Esd Hab.
  rewrite absorb_top_eq, Esd, Hab. cbn [afinish]. unfold top_result.
  rewrite (find_ext_in (fun i => negb (memN i seen)) (fun i => negb (stored sd fs i))).
  - reflexivity.
  - intros i _. rewrite (seen_stored _ _ _ _ _ _ _ i Hab). reflexivity.
Qed.

Corollary required_missing_iff : forall env sid sd fs raw fs0 h0 cur seen unk i,
  lookup_sd env sid = Some sd ->
  ab_fields (absorb env) sd fs fs0 [] [] = AOk (cur, seen, unk) ->
  (absorb_top env sid (WStruct fs raw) (VT fs0 h0) = AMissing i
   <-> find (fun j => negb (stored sd fs j)) (required_ids sd) = Some i).
Proof.
  intros env sid sd fs raw fs0 h0 cur seen unk i Esd Hab.
  rewrite (required_enforced_top env sid sd fs raw fs0 h0 cur seen unk Esd Hab). unfold top_result.
  destruct (find (fun j => negb (stored sd fs j)) (required_ids sd)) as [m|].
  - split; intros H; injection H as H; subst; reflexivity.
  - split; discriminate.
Qed.

Corollary required_ok_iff : forall env sid sd fs raw fs0 h0 cur seen unk,
  lookup_sd env sid = Some sd ->
  ab_fields (absorb env) sd fs fs0 [] [] = AOk (cur, seen, unk) ->
  ((exists v, absorb_top env sid (WStruct fs raw) (VT fs0 h0) = AOk v)
   <-> forall i, In i (required_ids sd) -> stored sd fs i = true).
Proof.
  intros env sid sd fs raw fs0 h0 cur seen unk Esd Hab.
  rewrite (required_enforced_top env sid sd fs raw fs0 h0 cur seen unk Esd Hab). unfold top_result.
  destruct (find (fun j => negb (stored sd fs j)) (required_ids sd)) as [m|] eqn:Ef.
  - apply find_some in Ef. destruct Ef as [Hin Hm]. apply negb_true_iff in Hm. split.
    + intros [v H]. discriminate H.
    + intros H. rewrite (H m Hin) in Hm. discriminate Hm.
  - split.
    + intros _ i Hin. pose proof (find_none _ _ Ef i Hin) as H. apply negb_false_iff in H. exact H.
    + intros _. eexists. reflexivity.
Qed.

(* the struct body of the byte-level decoder when every nested value is accepted *)
Lemma struct_body_top : forall env fuel pool d sd fs rest fs0 h0 cur seen unk,
  dec_params_ok = true -> env_ok env = true ->
  (forall f, In f (sfields sd) -> field_ok env f = true) ->
  wf (WStruct fs []) = true ->
  (need_max (fneed env sd) fs <= d)%nat -> (need_max (fskip env sd) fs <= 63)%nat ->
  (length (put (WStruct fs []) ++ rest) < fuel)%nat ->
  ab_fields (absorb env) sd fs fs0 [] [] = AOk (cur, seen, unk) ->
  dec_struct_body fuel (decode_type env fuel pool d) sd pool (put (WStruct fs []) ++ rest) (VT fs0 h0)
  = match find (fun i => negb (stored sd fs i)) (required_ids sd) with
    | Some i => DErr (ERequired i)
    | None => DOk (VT cur (if sholder sd then match unk with [] => h0 | _ => unk end else h0)) rest
    end.
Proof.
  intros env fuel pool d sd fs rest fs0 h0 cur seen unk HP HE Hsd Hwf Hn Hs Hl Hab.
  pose proof (skip_premise HP) as SK.
  pose proof (wf_struct fs [] Hwf) as [_ Hwf'].
  rewrite dec_struct_body_VT. rewrite put_struct_eq in Hl |- *.
  assert (E : (put_fields fs ++ [] ++ [cSTOP]) ++ rest = put_fields fs ++ cSTOP :: rest)
    by (rewrite <- app_assoc; reflexivity).
  rewrite E in Hl |- *. clear E.
  set (x := filter (fun i => negb (memN i (required_ids sd))) pool).
  assert (Hfl : (length fs < fuel)%nat).
  { pose proof (length_put_fields fs). rewrite app_length in Hl. lia. }
  pose proof (dec_fields_ok SK env fuel pool HP HE d sd Hsd fs
                (fun fv _ => refines_all SK env fuel pool HP HE (snd fv)) Hwf'
                (need_max_le _ _ _ _ Hn) (need_max_le _ _ _ _ Hs)
                fuel rest fs0 [] [] x Hl Hfl) as H.
  cbn [app] in H. rewrite Hab in H. cbn [amap addseen agree] in H. rewrite H. cbn [dfinish].
  unfold x. rewrite required_find_pool.
  rewrite (find_ext_in (fun i => negb (memN i seen)) (fun i => negb (stored sd fs i))).
  - reflexivity.
  - intros i _. rewrite (seen_stored _ _ _ _ _ _ _ i Hab). reflexivity.
Qed.

(* the depth hypotheses of the top-level theorems, unfolded *)
Lemma top_need : dec_params_ok = true -> forall env sid sd fs raw n,
  lookup_sd env sid = Some sd ->
  (need env (TStruct sid) (WStruct fs raw) <= S n)%nat ->
  (need_max (fneed env sd) fs < n)%nat.
Proof.
  intros HP env sid sd fs raw n Esd Hn. rewrite need_eq in Hn. cbn [deref_ty] in Hn.
  rewrite (fixed_size_nonptr HP (TStruct sid) eq_refl) in Hn. cbn [wire_width] in Hn.
  change (0 <? 0) with false in Hn. cbv iota in Hn. rewrite Esd in Hn. unfold fneed. lia.
Qed.

Lemma top_need_eq : dec_params_ok = true -> forall env sid sd fs raw,
  lookup_sd env sid = Some sd ->
  need env (TStruct sid) (WStruct fs raw) = S (S (need_max (fneed env sd) fs)).
Proof.
  intros HP env sid sd fs raw Esd. rewrite need_eq. cbn [deref_ty].
  rewrite (fixed_size_nonptr HP (TStruct sid) eq_refl). cbn [wire_width].
  change (0 <? 0) with false. cbv iota. rewrite Esd. reflexivity.
Qed.

Lemma top_skipped : forall env sid sd fs raw,
  lookup_sd env sid = Some sd ->
  skipped_depth env (TStruct sid) (WStruct fs raw) = need_max (fskip env sd) fs.
Proof.
  intros env sid sd fs raw Esd. rewrite skipped_depth_eq. cbn [deref_ty]. rewrite Esd. reflexivity.
Qed.

Lemma len_sub_app : forall (a b : list N), len (a ++ b) - len b = len a.
Proof. intros a b. rewrite BytesWire.len_app. lia. Qed.

(* A2, byte-level decoder: the error names the field *)
Theorem required_enforced_decode : forall env pool sid sd fs rest fs0 h0 cur seen unk,
  dec_params_ok = true -> env_ok env = true ->
  wf (WStruct fs []) = true -> lookup_sd env sid = Some sd ->
  (need env (TStruct sid) (WStruct fs []) <= S (N.to_nat maxDepthLimit))%nat ->
  (skipped_depth env (TStruct sid) (WStruct fs []) <= 63)%nat ->
  ab_fields (absorb env) sd fs fs0 [] [] = AOk (cur, seen, unk) ->
  decode_object env pool sid (put (WStruct fs []) ++ rest) (VT fs0 h0)
  = match find (fun i => negb (stored sd fs i)) (required_ids sd) with
    | Some i => DErr (ERequired i)
    | None => DOk (VT cur (if sholder sd then match unk with [] => h0 | _ => unk end else h0),
                   len (put (WStruct fs []))) rest
    end.
Proof.
  intros env pool sid sd fs rest fs0 h0 cur seen unk HP HE Hwf Esd Hn Hs Hab.
  apply (top_need HP env sid sd fs [] _ Esd) in Hn. rewrite (top_skipped env sid sd fs [] Esd) in Hs.
  unfold decode_object, decode_object_f. rewrite Esd.
  destruct (N.to_nat maxDepthLimit) as [|d]; [lia|].
  rewrite DecodeRefines.decode_struct_S.
  rewrite (struct_body_top env _ pool d sd fs rest fs0 h0 cur seen unk HP HE); try assumption.
  - destruct (find (fun i => negb (stored sd fs i)) (required_ids sd)); [reflexivity|].
    rewrite len_sub_app. reflexivity.
  - intros f Hf. exact (env_field_ok env sid sd f HE Esd Hf).
  - lia.
  - lia.
Qed.

(* the two readings the property asks for *)
Corollary required_missing_rejected : forall env pool sid sd fs rest fs0 h0 cur seen unk i,
  dec_params_ok = true -> env_ok env = true ->
  wf (WStruct fs []) = true -> lookup_sd env sid = Some sd ->
  (need env (TStruct sid) (WStruct fs []) <= S (N.to_nat maxDepthLimit))%nat ->
  (skipped_depth env (TStruct sid) (WStruct fs []) <= 63)%nat ->
  ab_fields (absorb env) sd fs fs0 [] [] = AOk (cur, seen, unk) ->
  In i (required_ids sd) -> stored sd fs i = false ->
  exists j, In j (required_ids sd) /\ stored sd fs j = false
            /\ decode_object env pool sid (put (WStruct fs []) ++ rest) (VT fs0 h0) = DErr (ERequired j).
Proof.
  intros env pool sid sd fs rest fs0 h0 cur seen unk i HP HE Hwf Esd Hn Hs Hab Hin Hst.
  rewrite (required_enforced_decode env pool sid sd fs rest fs0 h0 cur seen unk HP HE Hwf Esd Hn Hs Hab).
  destruct (find (fun j => negb (stored sd fs j)) (required_ids sd)) as [m|] eqn:Ef.
  - apply find_some in Ef. destruct Ef as [Hm1 Hm2]. apply negb_true_iff in Hm2.
    exists m. repeat split; assumption.
  - pose proof (find_none _ _ Ef i Hin) as H. cbv beta in H. rewrite Hst in H. discriminate H.
Qed.

Corollary required_present_accepted : forall env pool sid sd fs rest fs0 h0 cur seen unk,
  dec_params_ok = true -> env_ok env = true ->
  wf (WStruct fs []) = true -> lookup_sd env sid = Some sd ->
  (need env (TStruct sid) (WStruct fs []) <= S (N.to_nat maxDepthLimit))%nat ->
  (skipped_depth env (TStruct sid) (WStruct fs []) <= 63)%nat ->
  ab_fields (absorb env) sd fs fs0 [] [] = AOk (cur, seen, unk) ->
  (forall i, In i (required_ids sd) -> stored sd fs i = true) ->
  decode_object env pool sid (put (WStruct fs []) ++ rest) (VT fs0 h0)
  = DOk (VT cur (if sholder sd then match unk with [] => h0 | _ => unk end else h0),
         len (put (WStruct fs []))) rest.
Proof.
  intros env pool sid sd fs rest fs0 h0 cur seen unk HP HE Hwf Esd Hn Hs Hab Hall.
  rewrite (required_enforced_decode env pool sid sd fs rest fs0 h0 cur seen unk HP HE Hwf Esd Hn Hs Hab).
  destruct (find (fun j => negb (stored sd fs j)) (required_ids sd)) as [m|] eqn:Ef; [|reflexivity].
  apply find_some in Ef. destruct Ef as [Hm1 Hm2]. rewrite (Hall m Hm1) in Hm2. discriminate Hm2.
Qed.

(* A3 *)
Corollary encoder_writes_required : forall env sid sd fs h f,
  lookup_sd env sid = Some sd ->
  has_type env (TStruct sid) (VT fs h) = true ->
  In f (sfields sd) -> freq f = RRequired ->
  exists fields raw,
    denote env (TStruct sid) (VT fs h) = WStruct fields raw /\ In (fid f) (map fst fields).
Proof. exact denote_required. Qed.

(* ================================================================== *)
(* B. Unknown fields                                                    *)
(* ================================================================== *)

(* B1 *)
Theorem holder_exact : forall env sid sd fs raw fs0 h0 cur h,
  lookup_sd env sid = Some sd ->
  absorb_top env sid (WStruct fs raw) (VT fs0 h0) = AOk (VT cur h) ->
  h = if sholder sd
      then match put_fields (filter (skipped sd) fs) with [] => h0 | u => u end
      else h0.
Proof.
  intros env sid sd fs raw fs0 h0 cur h Esd H.
  rewrite absorb_top_eq, Esd in H.
  destruct (ab_fields (absorb env) sd fs fs0 [] []) as [[[c s] u]| |i|] eqn:Hab;
    cbn [afinish] in H; try discriminate H.
  destruct (find (fun i => negb (memN i s)) (required_ids sd)); [discriminate H|].
  injection H as _ H. subst h.
  apply ab_fields_char in Hab. destruct Hab as [Hu _]. cbn [app] in Hu. subst u.
  destruct (put_fields (filter (skipped sd) fs)); reflexivity.
Qed.


(* the fields the encoder writes for a struct value *)
Definition emitted (env : senv) (sd : sdesc) (fs : list val) : list (N * tv) :=
  fields_cat (spec_field env) (sfields sd) fs.

Lemma denote_holder : forall env sid sd fs h,
  lookup_sd env sid = Some sd -> sholder sd = true ->
  denote env (TStruct sid) (VT fs h) = WStruct (emitted env sd fs) h.
Proof. intros env sid sd fs h Esd Hh. rewrite denote_VT, Esd, Hh. reflexivity. Qed.

(* B2: the holder bytes go out verbatim, after the known fields and before
   STOP, and the size walk counts them *)
Theorem holder_reencoded : forall env sid sd fs h,
  enc_params_ok = true -> tables_ok = true -> env_ok env = true ->
  lookup_sd env sid = Some sd -> sholder sd = true ->
  has_type env (TStruct sid) (VT fs h) = true ->
  append_struct env sid (VT fs h) = put_fields (emitted env sd fs) ++ h ++ [cSTOP]
  /\ encoded_size env sid (VT fs h) = len (put_fields (emitted env sd fs) ++ h ++ [cSTOP]).
Proof.
  intros env sid sd fs h HP HT HE Esd Hh Hty.
  assert (E : append_struct env sid (VT fs h) = put_fields (emitted env sd fs) ++ h ++ [cSTOP]).
  { rewrite (encode_refines env sid (VT fs h) HP HT HE Hty), (denote_holder env sid sd fs h Esd Hh).
    apply put_struct_eq. }
  split; [exact E|]. rewrite <- E. exact (size_exact env sid (VT fs h) HP HT HE Hty).
Qed.

(* B3: when the holder is the encoding of fields [us] (which is what decoding
   leaves there, holder_exact), the message written is the encoding of the
   struct with the known fields followed by [us] *)
Theorem unknown_conserved : forall env sid sd fs us,
  lookup_sd env sid = Some sd -> sholder sd = true ->
  put (denote env (TStruct sid) (VT fs (put_fields us)))
  = put (WStruct (emitted env sd fs ++ us) []).
Proof.
  intros env sid sd fs us Esd Hh. rewrite (denote_holder env sid sd fs _ Esd Hh).
  apply put_struct_raw.
Qed.

Lemma has_type_drop_holder : forall env sid fs h,
  has_type env (TStruct sid) (VT fs h) = true -> has_type env (TStruct sid) (VT fs []) = true.
Proof.
  intros env sid fs h H. rewrite has_type_VT in H |- *.
  destruct (lookup_sd env sid) as [sd|]; [|discriminate H].
  apply andb_true_iff in H. destruct H as [H _]. apply andb_true_iff in H. destruct H as [H _].
  rewrite H. cbn [bytes_ok forallb andb]. apply orb_true_r.
Qed.

(* and that struct is well formed when the nested holders are empty *)
Theorem reemitted_wf : forall env sid sd fs h us,
  enc_params_ok = true -> env_ok env = true ->
  lookup_sd env sid = Some sd ->
  has_type env (TStruct sid) (VT fs h) = true ->
  forallb EncodeSpec.holders_empty fs = true ->
  (forall fv, In fv us -> fst fv < 2 ^ 16 /\ wf (snd fv) = true) ->
  wf (WStruct (emitted env sd fs ++ us) []) = true.
Proof.
  intros env sid sd fs h us HP HE Esd Hty Hhe Hus.
  pose proof (denote_wf_struct env sid (VT fs []) (has_type_drop_holder env sid fs h Hty)) as W.
  rewrite holders_empty_VT, Hhe in W. specialize (W eq_refl HP HE).
  rewrite denote_VT, Esd in W. fold (emitted env sd fs) in W.
  assert (W' : wf (WStruct (emitted env sd fs) []) = true) by (destruct (sholder sd); exact W).
  rewrite wf_WStruct in W' |- *. rewrite andb_true_r in W' |- *.
  rewrite forallb_app, W'. cbn [andb]. apply forallb_forall. intros fv Hin.
  destruct (Hus fv Hin) as [H1 H2]. rewrite H2, andb_true_r. apply N.ltb_lt. exact H1.
Qed.

(* one hop: decode into a destination with an empty holder, encode the result *)
Theorem one_hop : forall env sid sd fs fs0 cur h,
  enc_params_ok = true -> tables_ok = true -> env_ok env = true ->
  lookup_sd env sid = Some sd -> sholder sd = true ->
  absorb_top env sid (WStruct fs []) (VT fs0 []) = AOk (VT cur h) ->
  has_type env (TStruct sid) (VT cur h) = true ->
  h = put_fields (filter (skipped sd) fs)
  /\ append_struct env sid (VT cur h)
     = put (WStruct (emitted env sd cur ++ filter (skipped sd) fs) []).
Proof.
  intros env sid sd fs fs0 cur h HP HT HE Esd Hh Ha Hty.
  pose proof (holder_exact env sid sd fs [] fs0 [] cur h Esd Ha) as E. rewrite Hh in E.
  assert (E' : h = put_fields (filter (skipped sd) fs))
    by (rewrite E; destruct (put_fields (filter (skipped sd) fs)); reflexivity).
  split; [exact E'|]. clear E.
  rewrite (encode_refines env sid (VT cur h) HP HT HE Hty). subst h.
  apply (unknown_conserved env sid sd cur _ Esd Hh).
Qed.

Corollary one_hop_wf : forall env sid sd fs cur h,
  enc_params_ok = true -> env_ok env = true ->
  lookup_sd env sid = Some sd ->
  wf (WStruct fs []) = true ->
  has_type env (TStruct sid) (VT cur h) = true ->
  forallb EncodeSpec.holders_empty cur = true ->
  wf (WStruct (emitted env sd cur ++ filter (skipped sd) fs) []) = true.
Proof.
  intros env sid sd fs cur h HP HE Esd Hwf Hty Hhe.
  apply (reemitted_wf env sid sd cur h _ HP HE Esd Hty Hhe).
  intros fv Hin. apply filter_In in Hin. destruct Hin as [Hin _].
  exact (proj2 (wf_struct fs [] Hwf) fv Hin).
Qed.

(* ================================================================== *)
(* C. Depth                                                             *)
(* ================================================================== *)

Lemma need_max_lub : forall A (f : A -> nat) l n,
  (forall x, In x l -> (f x <= n)%nat) -> (need_max f l <= n)%nat.
Proof.
  intros A f l n. induction l as [|y l IH]; intros H.
  - cbn [need_max]. lia.
  - cbn [need_max]. pose proof (H y (or_introl eq_refl)).
    assert (need_max f l <= n)%nat by (apply IH; intros x Hx; apply H; right; exact Hx). lia.
Qed.

(* C1 *)
Lemma need_le_wdepth : forall env w t, (need env t w <= 2 * wdepth w + 1)%nat.
Proof.
  intros env.
  induction w as [x|x|x|x|x|x|s|fs raw IHfs|kc vc es IHes|b ec es IHes] using tv_ind';
    intros t; rewrite need_eq; (destruct (0 <? fixed_size (deref_ty t)); [lia|]);
    cbn [wdepth]; try lia.
  - (* struct *)
    destruct (deref_ty t) as [| | | | | | | | |b0 e|kt vt|sid|t']; try lia.
    destruct (lookup_sd env sid) as [sd|]; [|lia].
    rewrite Forall_forall in IHfs.
    set (M := fold_right (fun fv m => Nat.max (wdepth (snd fv)) m) O fs).
    assert (H : (need_max (fun fw : N * tv =>
                   match get_field sd (fst fw) with
                   | Some (_, f) => if wt (fty f) =? code_of (snd fw) then need env (fty f) (snd fw) else O
                   | None => O
                   end) fs <= 2 * M + 1)%nat).
    { apply need_max_lub. intros fv Hin.
      pose proof (fold_max_in _ (fun fv : N * tv => wdepth (snd fv)) fs fv Hin) as HM.
      cbv beta in HM. fold M in HM.
      destruct (get_field sd (fst fv)) as [[i f]|]; [|lia].
      destruct (wt (fty f) =? code_of (snd fv)); [|lia].
      pose proof (IHfs fv Hin (fty f)). lia. }
    lia.
  - (* map *)
    destruct (deref_ty t) as [| | | | | | | | |b0 e|kt vt|sid|t']; try lia.
    rewrite Forall_forall in IHes.
    set (M := fold_right (fun kv m => Nat.max (Nat.max (wdepth (fst kv)) (wdepth (snd kv))) m) O es).
    assert (H : (need_max (fun kv : tv * tv => Nat.max (need env kt (fst kv)) (need env vt (snd kv))) es
                 <= 2 * M + 1)%nat).
    { apply need_max_lub. intros kv Hin.
      pose proof (fold_max_in _ (fun kv : tv * tv => Nat.max (wdepth (fst kv)) (wdepth (snd kv))) es kv Hin) as HM.
      cbv beta in HM. fold M in HM.
      destruct (IHes kv Hin) as [H1 H2]. specialize (H1 kt). specialize (H2 vt). lia. }
    lia.
  - (* list *)
    destruct (deref_ty t) as [| | | | | | | | |b0 e|kt vt|sid|t']; try lia.
    rewrite Forall_forall in IHes.
    set (M := fold_right (fun e m => Nat.max (wdepth e) m) O es).
    assert (H : (need_max (fun x => need env e x) es <= 2 * M + 1)%nat).
    { apply need_max_lub. intros x Hin.
      pose proof (fold_max_in _ wdepth es x Hin) as HM. fold M in HM.
      pose proof (IHes x Hin e). lia. }
    lia.
Qed.

Lemma skipped_le_wdepth : forall env w t, (skipped_depth env t w <= wdepth w)%nat.
Proof.
  intros env.
  induction w as [x|x|x|x|x|x|s|fs raw IHfs|kc vc es IHes|b ec es IHes] using tv_ind';
    intros t; rewrite skipped_depth_eq; cbn [wdepth]; try lia.
  - destruct (deref_ty t) as [| | | | | | | | |b0 e|kt vt|sid|t']; try lia.
    destruct (lookup_sd env sid) as [sd|]; [|lia].
    rewrite Forall_forall in IHfs.
    set (M := fold_right (fun fv m => Nat.max (wdepth (snd fv)) m) O fs).
    apply need_max_lub. intros fv Hin.
    pose proof (fold_max_in _ (fun fv : N * tv => wdepth (snd fv)) fs fv Hin) as HM.
    cbv beta in HM. fold M in HM.
    destruct (get_field sd (fst fv)) as [[i f]|]; [|lia].
    destruct (wt (fty f) =? code_of (snd fv)); [|lia].
    pose proof (IHfs fv Hin (fty f)). lia.
  - destruct (deref_ty t) as [| | | | | | | | |b0 e|kt vt|sid|t']; try lia.
    rewrite Forall_forall in IHes.
    set (M := fold_right (fun kv m => Nat.max (Nat.max (wdepth (fst kv)) (wdepth (snd kv))) m) O es).
    apply (PeanoNat.Nat.le_trans _ M); [|lia].
    apply need_max_lub. intros kv Hin.
    pose proof (fold_max_in _ (fun kv : tv * tv => Nat.max (wdepth (fst kv)) (wdepth (snd kv))) es kv Hin) as HM.
    cbv beta in HM. fold M in HM.
    destruct (IHes kv Hin) as [H1 H2]. specialize (H1 kt). specialize (H2 vt). lia.
  - destruct (deref_ty t) as [| | | | | | | | |b0 e|kt vt|sid|t']; try lia.
    rewrite Forall_forall in IHes.
    set (M := fold_right (fun e m => Nat.max (wdepth e) m) O es).
    apply (PeanoNat.Nat.le_trans _ M); [|lia].
    apply need_max_lub. intros x Hin.
    pose proof (fold_max_in _ wdepth es x Hin) as HM. fold M in HM.
    pose proof (IHes x Hin e). lia.
Qed.

Lemma depth_consts : depth_ok = true ->
  2 * 48 + 2 <= maxDepthLimit /\ 48 < gk_defaultRecursionDepth.
Proof.
  intros HP. unfold depth_ok in HP. andb_all.
  repeat match goal with
         | H : (_ <=? _) = true |- _ => apply N.leb_le in H
         | H : (_ <? _) = true |- _ => apply N.ltb_lt in H
         end.
  split; assumption.
Qed.

Lemma shallow_budgets : depth_ok = true -> forall env t w,
  (wdepth w <= 48)%nat ->
  (need env t w <= S (N.to_nat maxDepthLimit))%nat /\ (skipped_depth env t w <= 63)%nat.
Proof.
  intros HP env t w Hd. destruct (depth_consts HP) as [H1 _].
  pose proof (need_le_wdepth env w t). pose proof (skipped_le_wdepth env w t). lia.
Qed.

(* C2, first form (through decode_refines) *)
Theorem shallow_accepted : forall env pool sid fs rest dst,
  dec_params_ok = true -> depth_ok = true -> env_ok env = true ->
  wf (WStruct fs []) = true -> lookup_sd env sid <> None ->
  (exists fs0 h0, dst = VT fs0 h0) ->
  (wdepth (WStruct fs []) <= 48)%nat ->
  match absorb_top env sid (WStruct fs []) dst with
  | AOk v => decode_object env pool sid (put (WStruct fs []) ++ rest) dst
             = DOk (v, len (put (WStruct fs []))) rest
  | AMismatch | AMissing _ =>
      exists e, decode_object env pool sid (put (WStruct fs []) ++ rest) dst = DErr e
  | ABad => True
  end.
Proof.
  intros env pool sid fs rest dst HP HD HE Hwf Hsid Hdst Hd.
  destruct (shallow_budgets HD env (TStruct sid) (WStruct fs []) Hd) as [Hn Hs].
  exact (decode_refines (skip_premise HP) env pool sid fs rest dst HP HE Hwf Hsid Hdst Hn Hs).
Qed.

(* C3 *)
Theorem budget_zero : forall env fuel pool,
  (forall sd bs prior, decode_struct env fuel pool 0 sd bs prior = DErr EDepth)
  /\ (forall t bs prior, decode_type env fuel pool 0 t bs prior = DErr EDepth).
Proof. intros env fuel pool. split; reflexivity. Qed.

(* every recursive call is made with the budget decreased by one *)
Theorem decode_struct_step : forall env fuel pool d sd bs prior,
  decode_struct env fuel pool (S d) sd bs prior
  = dec_struct_body fuel (decode_type env fuel pool d) sd pool bs prior.
Proof. exact DecodeRefines.decode_struct_S. Qed.

Theorem decode_type_step : forall env fuel pool d t bs prior,
  decode_type env fuel pool (S d) t bs prior
  = dwrap t
      (if 0 <? fixed_size (deref_ty t) then read_fixed_unchecked (deref_ty t) bs
       else
         match deref_ty t with
         | TString | TBinary => dec_string bs
         | TMap kt vt => dec_map env (decode_type env fuel pool d) kt vt bs
         | TList _ e => dec_list env (decode_type env fuel pool d) e bs
         | TStruct sid =>
             match lookup_sd env sid with
             | Some sd => decode_struct env fuel pool d sd bs
                            (apply_init sd (if is_ptr t then zero_of env (deref_ty t) else prior))
             | None => DErr EInternal
             end
         | _ => DErr EUnknownType
         end).
Proof. exact DecodeRefines.decode_type_S. Qed.

(* ================================================================== *)
(* The exact form of the refinement: which error                        *)
(* ================================================================== *)
(* DecodeRefines.v says "some error" where the reference decoder fails.  The
   same induction gives the error itself: a code mismatch inside a container
   is ETypeMismatch, a missing required field is ERequired with the id the
   reference decoder names (at any nesting level), and ABad -- a destination
   slot of struct type that does not hold a struct value -- is EInternal.  So
   on the encoding of a well-formed value within the budgets the decoder IS
   the reference decoder. *)

Definition dres_of {A : Type} (a : ares A) (rest : list N) : dres A :=
  match a with
  | AOk v => DOk v rest
  | AMismatch => DErr ETypeMismatch
  | AMissing i => DErr (ERequired i)
  | ABad => DErr EInternal
  end.

Lemma dres_of_wrap : forall t a rest, dres_of (awrap t a) rest = dwrap t (dres_of a rest).
Proof. intros t a rest. destruct a; reflexivity. Qed.

(* the shape of a value whose code is that of a non-pointer type *)
Lemma code_shape : forall t w, is_ptr t = false -> code_of w = cwt t ->
  match w with
  | WStr _ => t = TString \/ t = TBinary
  | WStruct _ _ => exists sid, t = TStruct sid
  | WMap _ _ _ => exists k v, t = TMap k v
  | WList _ _ _ => exists b e, t = TList b e
  | _ => True
  end.
Proof.
  intros t w Hp Hc.
  destruct w as [x|x|x|x|x|x|s|fs raw|kc vc es|[|] ec es]; try exact I;
    destruct t as [| | | | | | | | |b e|k v|sid|t']; try discriminate Hp;
      try (destruct b); cbn [code_of cwt] in Hc; try discriminate Hc; eauto.
Qed.

Lemma lookup_some : forall env sid, (sid <? len env) = true -> exists sd, lookup_sd env sid = Some sd.
Proof.
  intros env sid H. apply N.ltb_lt in H. unfold lookup_sd.
  destruct (len env <=? sid) eqn:E; [apply N.leb_le in E; lia|].
  destruct (nth_error env (N.to_nat sid)) as [sd|] eqn:En; [exists sd; reflexivity|].
  apply nth_error_None in En. unfold len in H. lia.
Qed.

Lemma need_ge1 : forall env t w, fixed_size (deref_ty t) = 0 -> (1 <= need env t w)%nat.
Proof.
  intros env t w Hz. rewrite need_eq, Hz. change (0 <? 0) with false. cbv iota.
  destruct w; try lia; destruct (deref_ty t); try lia.
  destruct (lookup_sd env sid); lia.
Qed.

Section Exact.
  Variable env : senv.
  Variable fuel : nat.
  Variable pool : list N.
  Hypothesis HP : dec_params_ok = true.
  Hypothesis HE : env_ok env = true.

  Definition exact_at (w : tv) : Prop :=
    forall t d rest prior,
      wf w = true -> code_of w = wt t -> ty_ok env t = true -> fixed_size (deref_ty t) = 0 ->
      (need env t w <= d)%nat -> (skipped_depth env t w <= 63)%nat ->
      (length (put w ++ rest) < fuel)%nat ->
      decode_type env fuel pool d t (put w ++ rest) prior = dres_of (absorb env t w prior) rest.

  Lemma slot_elemX : forall w, exact_at w -> forall d e rest,
    wf w = true -> code_of w = wt e -> ty_ok env e = true ->
    (need env e w <= d)%nat -> (skipped_depth env e w <= 63)%nat ->
    (length (put w ++ rest) < fuel)%nat ->
    dec_elem env (decode_type env fuel pool d) e (put w ++ rest)
    = dres_of (absorb env e w (zero_of env e)) rest
    /\ dec_kv env (decode_type env fuel pool d) e (put w ++ rest)
       = dres_of (absorb env e w (zero_of env e)) rest.
  Proof.
    intros w IH d e rest Hwf Hc Hok Hn Hs Hl. unfold dec_elem, dec_kv.
    destruct (0 <? fixed_size e) eqn:Ef.
    - destruct (fixed_slot HP env e w rest (zero_of env e) Hok Ef Hc Hwf) as (v & A & R1 & R2).
      rewrite A, R1, R2. split; reflexivity.
    - apply N.ltb_ge in Ef.
      assert (Hz : fixed_size (deref_ty e) = 0) by (rewrite DecodeRefines.fixed_size_deref; lia).
      split; apply IH; assumption.
  Qed.

  (* ---- lists ---- *)
  Lemma dec_list_elemsX : forall dt e es rest,
    (forall x, In x es -> forall r, (length (put x ++ r) < fuel)%nat ->
       dec_elem env dt e (put x ++ r) = dres_of (absorb env e x (zero_of env e)) r) ->
    (length (cat_map put es ++ rest) < fuel)%nat ->
    dec_list_elems env dt (length es) e (cat_map put es ++ rest)
    = dres_of (ab_elems (absorb env) env e es) rest.
  Proof.
    intros dt e es rest. induction es as [|x es IH]; intros H Hl.
    - reflexivity.
    - cbn [length dec_list_elems ab_elems]. rewrite cat_map_cons, <- app_assoc.
      rewrite cat_map_cons, <- app_assoc in Hl.
      rewrite (H x (or_introl eq_refl) (cat_map put es ++ rest) Hl).
      assert (IH' : dec_list_elems env dt (length es) e (cat_map put es ++ rest)
                    = dres_of (ab_elems (absorb env) env e es) rest).
      { apply IH.
        - intros y Hy. apply H. right. exact Hy.
        - rewrite app_length in Hl. lia. }
      destruct (absorb env e x (zero_of env e)) as [v| |i|]; cbn [dres_of]; try reflexivity.
      rewrite IH'. destruct (ab_elems (absorb env) env e es); reflexivity.
  Qed.

  Lemma dec_listX : forall dt e b ec es rest,
    wf (WList b ec es) = true ->
    (ec = wt e -> forall x, In x es -> forall r, (length (put x ++ r) < fuel)%nat ->
       dec_elem env dt e (put x ++ r) = dres_of (absorb env e x (zero_of env e)) r) ->
    (length (put (WList b ec es) ++ rest) < fuel)%nat ->
    dec_list env dt e (put (WList b ec es) ++ rest)
    = dres_of (if negb (ec =? wt e) then AMismatch
               else match ab_elems (absorb env) env e es with
                    | AOk xs => AOk (VL (Some xs))
                    | AMismatch => AMismatch | AMissing i => AMissing i | ABad => ABad
                    end) rest.
  Proof.
    intros dt e b ec es rest Hwf H Hl.
    destruct (hdr_eqs HP) as (_ & _ & Hh & _).
    apply wf_list in Hwf. destruct Hwf as [Hlen [Hec Hwf]].
    unfold dec_list. rewrite Hh. rewrite put_list_eq in Hl |- *. cbn [app] in Hl |- *.
    rewrite <- app_assoc in Hl |- *.
    rewrite short_false by (rewrite len_cons, len_app, be_put_len; lia).
    rewrite take4_count by exact Hlen. cbv zeta.
    rewrite be_get_count by exact Hlen. rewrite neg32_small by exact Hlen.
    rewrite (N.eqb_sym (wt e) ec).
    destruct (ec =? wt e) eqn:Eec; cbn [negb]; [|reflexivity].
    apply N.eqb_eq in Eec. specialize (H Eec).
    destruct (len es =? 0) eqn:E0.
    { apply N.eqb_eq in E0. destruct es as [|x es]; [reflexivity|]. rewrite len_cons in E0. lia. }
    destruct (min_wire_ok HP e) as [Hpos _].
    destruct (min_wire (wt e) =? 0) eqn:Em; [apply N.eqb_eq in Em; lia|].
    rewrite short_false.
    2:{ rewrite len_app.
        assert (Hm : len es * min_wire (wt e) <= len (cat_map put es)).
        { apply cat_map_min. intros x Hx. apply (min_wire_put HP).
          destruct (Hwf x Hx) as [Hc _]. rewrite Hc. exact Eec. }
        lia. }
    rewrite len_length.
    rewrite dec_list_elemsX; [|exact H|cbn [length] in Hl; rewrite app_length in Hl; lia].
    destruct (ab_elems (absorb env) env e es); reflexivity.
  Qed.

  (* ---- maps ---- *)
  Lemma dec_map_entriesX : forall dt kt vt es rest acc,
    (forall kv, In kv es ->
       (forall r, (length (put (fst kv) ++ r) < fuel)%nat ->
          dec_kv env dt kt (put (fst kv) ++ r) = dres_of (absorb env kt (fst kv) (zero_of env kt)) r)
       /\ (forall r, (length (put (snd kv) ++ r) < fuel)%nat ->
          dec_kv env dt vt (put (snd kv) ++ r) = dres_of (absorb env vt (snd kv) (zero_of env vt)) r)) ->
    (length (cat_map put_entry es ++ rest) < fuel)%nat ->
    dec_map_entries env dt (length es) kt vt (cat_map put_entry es ++ rest) acc
    = dres_of (ab_entries (absorb env) env kt vt es acc) rest.
  Proof.
    intros dt kt vt es rest. induction es as [|[kw vw] es IH]; intros acc H Hl.
    - reflexivity.
    - cbn [length dec_map_entries ab_entries].
      rewrite cat_map_cons in Hl |- *. unfold put_entry at 1 in Hl. unfold put_entry at 1.
      cbn [fst snd] in Hl |- *. rewrite <- !app_assoc in Hl |- *.
      destruct (H (kw, vw) (or_introl eq_refl)) as [Hk Hv]. cbn [fst snd] in Hk, Hv.
      specialize (Hk (put vw ++ cat_map put_entry es ++ rest) Hl).
      assert (Hl2 : (length (put vw ++ cat_map put_entry es ++ rest) < fuel)%nat)
        by (rewrite app_length in Hl; lia).
      specialize (Hv (cat_map put_entry es ++ rest) Hl2).
      assert (Hl3 : (length (cat_map put_entry es ++ rest) < fuel)%nat)
        by (rewrite app_length in Hl2; lia).
      rewrite Hk.
      destruct (absorb env kt kw (zero_of env kt)) as [k| |i|]; cbn [dres_of]; try reflexivity.
      rewrite Hv.
      destruct (absorb env vt vw (zero_of env vt)) as [v| |i|]; cbn [dres_of]; try reflexivity.
      rewrite (map_insert_ainsert kt acc k v). apply IH; [|exact Hl3].
      intros kv Hkv. apply H. right. exact Hkv.
  Qed.

  Lemma dec_mapX : forall dt kt vt kc vc es rest,
    wf (WMap kc vc es) = true ->
    (kc = wt kt -> vc = wt vt -> forall kv, In kv es ->
       (forall r, (length (put (fst kv) ++ r) < fuel)%nat ->
          dec_kv env dt kt (put (fst kv) ++ r) = dres_of (absorb env kt (fst kv) (zero_of env kt)) r)
       /\ (forall r, (length (put (snd kv) ++ r) < fuel)%nat ->
          dec_kv env dt vt (put (snd kv) ++ r) = dres_of (absorb env vt (snd kv) (zero_of env vt)) r)) ->
    (length (put (WMap kc vc es) ++ rest) < fuel)%nat ->
    dec_map env dt kt vt (put (WMap kc vc es) ++ rest)
    = dres_of (if negb ((kc =? wt kt) && (vc =? wt vt)) then AMismatch
               else match ab_entries (absorb env) env kt vt es [] with
                    | AOk m => AOk (VM (Some m))
                    | AMismatch => AMismatch | AMissing i => AMissing i | ABad => ABad
                    end) rest.
  Proof.
    intros dt kt vt kc vc es rest Hwf H Hl.
    destruct (hdr_eqs HP) as (_ & Hh & _ & _).
    apply wf_map in Hwf. destruct Hwf as [Hlen [Hkc [Hvc Hwf]]].
    unfold dec_map. rewrite Hh. rewrite put_map_eq in Hl |- *. cbn [app] in Hl |- *.
    rewrite <- app_assoc in Hl |- *.
    rewrite short_false by (rewrite !len_cons, len_app, be_put_len; lia).
    rewrite take4_count by exact Hlen. cbv zeta.
    rewrite be_get_count by exact Hlen. rewrite neg32_small by exact Hlen.
    destruct ((kc =? wt kt) && (vc =? wt vt)) eqn:Ec; cbn [negb]; [|reflexivity].
    apply andb_true_iff in Ec. destruct Ec as [Ek Ev].
    apply N.eqb_eq in Ek. apply N.eqb_eq in Ev. specialize (H Ek Ev).
    destruct (min_wire_ok HP kt) as [Hpk _]. destruct (min_wire_ok HP vt) as [Hpv _].
    destruct (min_wire (wt kt) + min_wire (wt vt) =? 0) eqn:Em; [apply N.eqb_eq in Em; lia|].
    rewrite short_false.
    2:{ rewrite len_app.
        assert (Hm : len es * (min_wire (wt kt) + min_wire (wt vt)) <= len (cat_map put_entry es)).
        { apply cat_map_min. intros kv Hkv. destruct (Hwf kv Hkv) as [H1 [H2 _]].
          unfold put_entry. rewrite len_app.
          assert (min_wire (wt kt) <= len (put (fst kv)))
            by (apply (min_wire_put HP); rewrite H1; exact Ek).
          assert (min_wire (wt vt) <= len (put (snd kv)))
            by (apply (min_wire_put HP); rewrite H2; exact Ev).
          lia. }
        lia. }
    rewrite len_length.
    rewrite dec_map_entriesX; [|exact H|cbn [length] in Hl; rewrite app_length in Hl; lia].
    destruct (ab_entries (absorb env) env kt vt es []); reflexivity.
  Qed.

  (* ---- structs ---- *)
  Lemma field_valX : forall w, exact_at w -> forall d f rest prior,
    field_ok env f = true -> wf w = true -> code_of w = wt (fty f) ->
    (need env (fty f) w <= d)%nat -> (skipped_depth env (fty f) w <= 63)%nat ->
    (length (put w ++ rest) < fuel)%nat ->
    field_res (decode_type env fuel pool d) f prior (put w ++ rest)
    = dres_of (absorb env (fty f) w prior) rest.
  Proof.
    intros w IH d f rest prior Hf Hwf Hc Hn Hs Hl.
    unfold field_ok in Hf. andb_all.
    match goal with H : ty_ok env (fty f) = true |- _ => rename H into Hok end.
    match goal with H : negb (fnocopy f) || _ = true |- _ => rename H into Hnc end.
    unfold field_res.
    destruct (0 <? fixed_size (fty f)) eqn:Ef.
    - destruct (fixed_slot HP env (fty f) w rest prior Hok Ef Hc Hwf) as (v & A & _ & R2).
      rewrite A, R2. reflexivity.
    - destruct (fnocopy f) eqn:En.
      + cbn [negb orb] in Hnc. unfold is_strlike in Hnc.
        assert (Hcs : code_of w = cSTRING).
        { rewrite Hc, <- wt_deref, (wt_cwt HP).
          destruct (deref_ty (fty f)); try discriminate Hnc; reflexivity. }
        destruct (code_str w Hcs) as [s Es]. subst w.
        rewrite absorb_WStr, (dec_string_put HP s rest Hwf), dres_of_wrap.
        destruct (deref_ty (fty f)); try discriminate Hnc; reflexivity.
      + apply N.ltb_ge in Ef.
        assert (Hz : fixed_size (deref_ty (fty f)) = 0) by (rewrite DecodeRefines.fixed_size_deref; lia).
        apply IH; assumption.
  Qed.

  Lemma dec_fieldsX : forall d sd,
    (forall f, In f (sfields sd) -> field_ok env f = true) ->
    forall fs,
    (forall fv, In fv fs -> exact_at (snd fv)) ->
    (forall fv, In fv fs -> fst fv < 2 ^ 16 /\ wf (snd fv) = true) ->
    (forall fv, In fv fs -> (fneed env sd fv <= d)%nat) ->
    (forall fv, In fv fs -> (fskip env sd fv <= 63)%nat) ->
    forall fl rest cur seen unk x,
    (length (put_fields fs ++ cSTOP :: rest) < fuel)%nat -> (length fs < fl)%nat ->
    dec_fields (decode_type env fuel pool d) fl sd (put_fields fs ++ cSTOP :: rest)
               cur (seen ++ x) unk
    = dres_of (amap (addseen x) (ab_fields (absorb env) sd fs cur seen unk)) rest.
  Proof.
    intros d sd Hsd.
    destruct (codes_eqs (dec_enc HP)) as (E0 & _).
    induction fs as [|[id w] fs IH]; intros HF Hwf Hn Hs fl rest cur seen unk x Hl Hfl.
    - destruct fl as [|fl]; [inversion Hfl|].
      cbn [put_fields cat_map app]. rewrite dec_fields_S, E0, N.eqb_refl. reflexivity.
    - destruct fl as [|fl]; [inversion Hfl|]. cbn [length] in Hfl.
      destruct (Hwf (id, w) (or_introl eq_refl)) as [Hid Hw]. cbn [fst snd] in Hid, Hw.
      pose proof (HF (id, w) (or_introl eq_refl)) as IHw. cbn [snd] in IHw.
      pose proof (Hn (id, w) (or_introl eq_refl)) as Hnw.
      pose proof (Hs (id, w) (or_introl eq_refl)) as Hsw.
      unfold fneed in Hnw. unfold fskip in Hsw. cbn [fst snd] in Hnw, Hsw.
      rewrite put_fields_cons, put_field_eq in Hl |- *.
      cbn [app] in Hl |- *. rewrite <- !app_assoc in Hl |- *.
      set (R := put_fields fs ++ cSTOP :: rest) in *.
      assert (HlR : (length R < fuel)%nat).
      { cbn [length] in Hl. rewrite !app_length in Hl. lia. }
      assert (Hlw : (length (put w ++ R) < fuel)%nat).
      { cbn [length] in Hl. rewrite app_length in Hl. lia. }
      assert (IH' : forall cur' seen' unk',
                 dec_fields (decode_type env fuel pool d) fl sd R cur' (seen' ++ x) unk'
                 = dres_of (amap (addseen x) (ab_fields (absorb env) sd fs cur' seen' unk')) rest).
      { intros cur' seen' unk'. apply IH.
        - intros fv Hin. apply HF. right. exact Hin.
        - intros fv Hin. apply Hwf. right. exact Hin.
        - intros fv Hin. apply Hn. right. exact Hin.
        - intros fv Hin. apply Hs. right. exact Hin.
        - exact HlR.
        - lia. }
      rewrite dec_fields_S, E0, code_of_not_stop.
      rewrite short_false by (rewrite len_app, be_put_len; lia).
      rewrite (take_app_eq 2 (be_put 2 id)) by apply be_put_len.
      rewrite (be_get_put_small 2 id) by exact Hid.
      assert (Hunk : (S (wdepth w) <= 63)%nat ->
                 match gk_skip (put w ++ R) (code_of w) with
                 | SOk n =>
                     match take n (put w ++ R) with
                     | Some (sk, r2) =>
                         dec_fields (decode_type env fuel pool d) fl sd r2 cur (seen ++ x)
                                    (unk ++ code_of w :: be_put 2 id ++ sk)
                     | None => DErr EShort
                     end
                 | SErr e => DErr (ESkip e)
                 | SPanic => DErr (ESkip SkUnknownType)
                 | SFuel => DFuel
                 end
                 = dres_of (amap (addseen x)
                              (ab_fields (absorb env) sd fs cur seen (unk ++ put_field (id, w)))) rest).
      { intros Hd. rewrite (gk_skip_put HP w R Hw).
        - rewrite take_app, <- put_field_eq. apply IH'.
        - unfold gk_defaultRecursionDepth. lia. }
      cbn [ab_fields].
      destruct (get_field sd id) as [[i f]|] eqn:Eg; [|apply Hunk; exact Hsw].
      destruct (wt (fty f) =? code_of w) eqn:Ew; [|apply Hunk; exact Hsw].
      apply N.eqb_eq in Ew.
      assert (Hfok : field_ok env f = true).
      { apply Hsd. unfold get_field in Eg. eapply find_field_In. exact Eg. }
      rewrite (field_valX w IHw d f R (nth i cur (VS 0)) Hfok Hw (eq_sym Ew) Hnw Hsw Hlw).
      destruct (absorb env (fty f) w (nth i cur (VS 0))) as [v| |j|]; cbn [dres_of]; try reflexivity.
      apply (IH' (set_nth cur i v) (id :: seen) unk).
  Qed.

  Lemma struct_bodyX : forall d sd fs rest fs0 h0,
    (forall f, In f (sfields sd) -> field_ok env f = true) ->
    (forall fv, In fv fs -> exact_at (snd fv)) ->
    wf (WStruct fs []) = true ->
    (need_max (fneed env sd) fs <= d)%nat -> (need_max (fskip env sd) fs <= 63)%nat ->
    (length (put (WStruct fs []) ++ rest) < fuel)%nat ->
    dec_struct_body fuel (decode_type env fuel pool d) sd pool
                    (put (WStruct fs []) ++ rest) (VT fs0 h0)
    = dres_of (afinish sd h0 (ab_fields (absorb env) sd fs fs0 [] [])) rest.
  Proof.
    intros d sd fs rest fs0 h0 Hsd HF Hwf Hn Hs Hl.
    apply wf_struct in Hwf. destruct Hwf as [_ Hwf].
    rewrite dec_struct_body_VT. rewrite put_struct_eq in Hl |- *.
    assert (E : (put_fields fs ++ [] ++ [cSTOP]) ++ rest = put_fields fs ++ cSTOP :: rest)
      by (rewrite <- app_assoc; reflexivity).
    rewrite E in Hl |- *. clear E.
    set (x := filter (fun i => negb (memN i (required_ids sd))) pool).
    assert (Hfl : (length fs < fuel)%nat).
    { pose proof (length_put_fields fs). rewrite app_length in Hl. lia. }
    pose proof (dec_fieldsX d sd Hsd fs HF Hwf (need_max_le _ _ _ _ Hn) (need_max_le _ _ _ _ Hs)
                            fuel rest fs0 [] [] x Hl Hfl) as H.
    cbn [app] in H. rewrite H.
    destruct (ab_fields (absorb env) sd fs fs0 [] []) as [[[c s] u]| |i|];
      cbn [amap addseen dres_of afinish dfinish]; try reflexivity.
    unfold x. rewrite required_find_pool.
    destruct (find (fun i => negb (memN i s)) (required_ids sd)) as [m|]; reflexivity.
  Qed.

  Lemma scalar_w_absurd : forall w t,
    is_scalar_w w = true -> code_of w = wt t -> ty_ok env t = true ->
    fixed_size (deref_ty t) = 0 -> False.
  Proof.
    intros w t Hw Hc Hok Hz. destruct (ty_ok_deref env t Hok) as [_ Hp].
    rewrite <- wt_deref, (wt_cwt HP) in Hc.
    pose proof (scalar_w_ty w (deref_ty t) Hw Hp Hc) as Hs.
    rewrite (fixed_size_nonptr HP _ Hp) in Hz.
    pose proof (scalar_width_pos _ Hs). lia.
  Qed.

  Theorem exact_all : forall w, exact_at w.
  Proof.
    induction w as [x|x|x|x|x|x|s|fs raw IHfs|kc vc es IHes|b ec es IHes] using tv_ind';
      unfold exact_at; intros t d rest prior Hwf Hc Hok Hz Hn Hs Hl;
      try (exfalso; eapply scalar_w_absurd; [|exact Hc|exact Hok|exact Hz]; reflexivity);
      (destruct d as [|d];
       [match type of Hn with (need _ _ ?w <= _)%nat => pose proof (need_ge1 env t w Hz) end; lia|]);
      destruct (ty_ok_deref env t Hok) as [Hok0 Hp0];
      pose proof Hc as Hsh; rewrite <- wt_deref, (wt_cwt HP) in Hsh;
      apply (code_shape _ _ Hp0) in Hsh.
    - (* WStr *)
      rewrite absorb_WStr, DecodeRefines.decode_type_S, Hz. change (0 <? 0) with false. cbv iota.
      rewrite dres_of_wrap. f_equal.
      destruct Hsh as [E|E]; rewrite E; rewrite (dec_string_put HP s rest Hwf); reflexivity.
    - (* WStruct *)
      destruct Hsh as [sid E].
      rewrite need_eq, Hz in Hn. change (0 <? 0) with false in Hn. cbv iota in Hn.
      rewrite skipped_depth_eq in Hs.
      rewrite absorb_WStruct, DecodeRefines.decode_type_S, Hz. change (0 <? 0) with false. cbv iota.
      rewrite dres_of_wrap. f_equal.
      rewrite E in Hok0, Hn, Hs |- *. cbn [ty_ok] in Hok0.
      destruct (lookup_some env sid Hok0) as [sd Esd]. rewrite Esd in Hn, Hs |- *.
      destruct d as [|d]; [lia|].
      rewrite DecodeRefines.decode_struct_S.
      destruct (apply_init sd (if is_ptr t then zero_of env (TStruct sid) else prior))
        as [ | | | | |fs0 h0]; try reflexivity.
      pose proof (wf_struct fs raw Hwf) as [Hraw _]. subst raw.
      apply struct_bodyX.
      + intros f Hf. exact (env_field_ok env sid sd f HE Esd Hf).
      + rewrite Forall_forall in IHfs. exact IHfs.
      + exact Hwf.
      + unfold fneed. lia.
      + unfold fskip. exact Hs.
      + exact Hl.
    - (* WMap *)
      destruct Hsh as [kt [vt E]].
      rewrite need_eq, Hz in Hn. change (0 <? 0) with false in Hn. cbv iota in Hn.
      rewrite skipped_depth_eq in Hs.
      rewrite absorb_WMap, DecodeRefines.decode_type_S, Hz. change (0 <? 0) with false. cbv iota.
      rewrite dres_of_wrap. f_equal.
      rewrite E in Hok0, Hn, Hs |- *.
      destruct (ty_ok_map env kt vt Hok0) as (_ & Hokk & Hokv & _).
      pose proof (wf_map kc vc es Hwf) as (_ & _ & _ & Hwfe).
      rewrite Forall_forall in IHes.
      assert (Hn' : (need_max (fun kv : tv * tv => Nat.max (need env kt (fst kv)) (need env vt (snd kv))) es
                     <= d)%nat) by lia.
      apply dec_mapX; [exact Hwf| |exact Hl].
      intros Ek Ev kv Hkv.
      destruct (IHes kv Hkv) as [IHk IHv].
      destruct (Hwfe kv Hkv) as (C1 & C2 & W1 & W2).
      pose proof (need_max_le _ _ _ _ Hn' kv Hkv) as Hnk. cbv beta in Hnk.
      pose proof (need_max_le _ _ _ _ Hs kv Hkv) as Hsk. cbv beta in Hsk.
      split; intros r Hr.
      + apply (slot_elemX (fst kv) IHk d kt r);
          [exact W1|rewrite C1; exact Ek|exact Hokk|clear - Hnk; lia|clear - Hsk; lia|exact Hr].
      + apply (slot_elemX (snd kv) IHv d vt r);
          [exact W2|rewrite C2; exact Ev|exact Hokv|clear - Hnk; lia|clear - Hsk; lia|exact Hr].
    - (* WList *)
      destruct Hsh as [b0 [e E]].
      rewrite need_eq, Hz in Hn. change (0 <? 0) with false in Hn. cbv iota in Hn.
      rewrite skipped_depth_eq in Hs.
      rewrite absorb_WList, DecodeRefines.decode_type_S, Hz. change (0 <? 0) with false. cbv iota.
      rewrite dres_of_wrap. f_equal.
      rewrite E in Hok0, Hn, Hs |- *.
      destruct (ty_ok_list env b0 e Hok0) as [Hoke _].
      pose proof (wf_list b ec es Hwf) as (_ & _ & Hwfe).
      rewrite Forall_forall in IHes.
      assert (Hn' : (need_max (fun x => need env e x) es <= d)%nat) by lia.
      apply dec_listX; [exact Hwf| |exact Hl].
      intros Eec x Hx r Hr.
      destruct (Hwfe x Hx) as [C1 W1].
      pose proof (need_max_le _ _ _ _ Hn' x Hx) as Hnx. cbv beta in Hnx.
      pose proof (need_max_le _ _ _ _ Hs x Hx) as Hsx. cbv beta in Hsx.
      apply (slot_elemX x (IHes x Hx) d e r);
        [exact W1|rewrite C1; exact Eec|exact Hoke|exact Hnx|exact Hsx|exact Hr].
  Qed.

End Exact.

(* value level *)
Theorem decode_type_exact : forall env fuel pool, dec_params_ok = true -> env_ok env = true ->
  forall w t d rest prior,
    wf w = true -> code_of w = wt t -> ty_ok env t = true -> fixed_size (deref_ty t) = 0 ->
    (need env t w <= d)%nat -> (skipped_depth env t w <= 63)%nat ->
    (length (put w ++ rest) < fuel)%nat ->
    decode_type env fuel pool d t (put w ++ rest) prior = dres_of (absorb env t w prior) rest.
Proof.
  intros env fuel pool HP HE w t d rest prior. exact (exact_all env fuel pool HP HE w t d rest prior).
Qed.

Definition top_dres (a : ares val) (n : N) (rest : list N) : dres (val * N) :=
  match a with
  | AOk v => DOk (v, n) rest
  | AMismatch => DErr ETypeMismatch
  | AMissing i => DErr (ERequired i)
  | ABad => DErr EInternal
  end.

(* top level: DecodeObject is the reference decoder, errors included; no
   hypothesis on the destination or on the struct id is needed *)
Theorem decode_exact : forall env pool sid fs rest dst, dec_params_ok = true -> env_ok env = true ->
  wf (WStruct fs []) = true ->
  (need env (TStruct sid) (WStruct fs []) <= S (N.to_nat maxDepthLimit))%nat ->
  (skipped_depth env (TStruct sid) (WStruct fs []) <= 63)%nat ->
  decode_object env pool sid (put (WStruct fs []) ++ rest) dst
  = top_dres (absorb_top env sid (WStruct fs []) dst) (len (put (WStruct fs []))) rest.
Proof.
  intros env pool sid fs rest dst HP HE Hwf Hn Hs.
  rewrite absorb_top_eq. unfold decode_object, decode_object_f.
  destruct (lookup_sd env sid) as [sd|] eqn:Esd; [|reflexivity].
  apply (top_need HP env sid sd fs [] _ Esd) in Hn. rewrite (top_skipped env sid sd fs [] Esd) in Hs.
  destruct (N.to_nat maxDepthLimit) as [|d]; [lia|].
  rewrite DecodeRefines.decode_struct_S.
  destruct dst as [ | | | | |fs0 h0]; try reflexivity.
  rewrite (struct_bodyX env _ pool HP HE d sd fs rest fs0 h0).
  - destruct (afinish sd h0 (ab_fields (absorb env) sd fs fs0 [] [])); cbn [dres_of top_dres];
      try reflexivity.
    rewrite len_sub_app. reflexivity.
  - intros f Hf. exact (env_field_ok env sid sd f HE Esd Hf).
  - intros fv _. apply exact_all; assumption.
  - exact Hwf.
  - lia.
  - exact Hs.
  - lia.
Qed.

(* A2 in full: whatever the nesting level at which a required field is
   missing, the error names the field the reference decoder names *)
Corollary required_error_names_field : forall env pool sid fs rest dst i,
  dec_params_ok = true -> env_ok env = true ->
  wf (WStruct fs []) = true ->
  (need env (TStruct sid) (WStruct fs []) <= S (N.to_nat maxDepthLimit))%nat ->
  (skipped_depth env (TStruct sid) (WStruct fs []) <= 63)%nat ->
  (absorb_top env sid (WStruct fs []) dst = AMissing i
   <-> decode_object env pool sid (put (WStruct fs []) ++ rest) dst = DErr (ERequired i)).
Proof.
  intros env pool sid fs rest dst i HP HE Hwf Hn Hs.
  rewrite (decode_exact env pool sid fs rest dst HP HE Hwf Hn Hs).
  destruct (absorb_top env sid (WStruct fs []) dst) as [v| |j|]; cbn [top_dres];
    split; intros H; try discriminate H.
  - injection H as H. subst j. reflexivity.
  - injection H as H. subst j. reflexivity.
Qed.

(* B1 for the byte-level decoder *)
Corollary holder_exact_decode : forall env pool sid sd fs rest fs0 h0 cur h n rest',
  dec_params_ok = true -> env_ok env = true ->
  wf (WStruct fs []) = true -> lookup_sd env sid = Some sd ->
  (need env (TStruct sid) (WStruct fs []) <= S (N.to_nat maxDepthLimit))%nat ->
  (skipped_depth env (TStruct sid) (WStruct fs []) <= 63)%nat ->
  decode_object env pool sid (put (WStruct fs []) ++ rest) (VT fs0 h0) = DOk (VT cur h, n) rest' ->
  h = if sholder sd
      then match put_fields (filter (skipped sd) fs) with [] => h0 | u => u end
      else h0.
Proof.
  intros env pool sid sd fs rest fs0 h0 cur h n rest' HP HE Hwf Esd Hn Hs H.
  rewrite (decode_exact env pool sid fs rest (VT fs0 h0) HP HE Hwf Hn Hs) in H.
  destruct (absorb_top env sid (WStruct fs []) (VT fs0 h0)) as [v| |i|] eqn:Ea;
    cbn [top_dres] in H; try discriminate H.
  injection H as H1 _ _. subst v.
  exact (holder_exact env sid sd fs [] fs0 h0 cur h Esd Ea).
Qed.

(* C2, strongest form: at wire depth <= 48 the decoder's answer is the
   reference decoder's, so it is never EDepth, never an error of the skipper,
   never EShort/ENegSize/ESizeExceeds/EUnknownType *)
Theorem shallow_exact : forall env pool sid fs rest dst,
  dec_params_ok = true -> depth_ok = true -> env_ok env = true ->
  wf (WStruct fs []) = true -> (wdepth (WStruct fs []) <= 48)%nat ->
  decode_object env pool sid (put (WStruct fs []) ++ rest) dst
  = top_dres (absorb_top env sid (WStruct fs []) dst) (len (put (WStruct fs []))) rest.
Proof.
  intros env pool sid fs rest dst HP HD HE Hwf Hd.
  destruct (shallow_budgets HD env (TStruct sid) (WStruct fs []) Hd) as [Hn Hs].
  exact (decode_exact env pool sid fs rest dst HP HE Hwf Hn Hs).
Qed.

Corollary shallow_never_depth : forall env pool sid fs rest dst,
  dec_params_ok = true -> depth_ok = true -> env_ok env = true ->
  wf (WStruct fs []) = true -> (wdepth (WStruct fs []) <= 48)%nat ->
  decode_object env pool sid (put (WStruct fs []) ++ rest) dst <> DErr EDepth
  /\ forall e, decode_object env pool sid (put (WStruct fs []) ++ rest) dst <> DErr (ESkip e).
Proof.
  intros env pool sid fs rest dst HP HD HE Hwf Hd.
  rewrite (shallow_exact env pool sid fs rest dst HP HD HE Hwf Hd).
  destruct (absorb_top env sid (WStruct fs []) dst); cbn [top_dres]; split; try intros e; discriminate.
Qed.

(* ================================================================== *)
(* C4. Too deep is rejected with EDepth                                 *)
(* ================================================================== *)
(* [need] is exact except in one place: a field declared nocopy is read by
   dec_string without entering decodeType, but [need] charges 1 for it (see
   need_not_tight_for_nocopy below).  So the converse of the depth hypothesis
   of decode_refines is proved for descriptors without nocopy fields. *)

Lemma need_pos_nonfixed : forall env e w d, (d < need env e w)%nat ->
  (0 <? fixed_size e) = false /\ fixed_size (deref_ty e) = 0.
Proof.
  intros env e w d H. rewrite need_eq in H.
  destruct (0 <? fixed_size (deref_ty e)) eqn:E; [lia|].
  rewrite DecodeRefines.fixed_size_deref in E. split; [exact E|].
  rewrite DecodeRefines.fixed_size_deref. apply N.ltb_ge in E. lia.
Qed.

Section Deep.
  Variable env : senv.
  Variable fuel : nat.
  Variable pool : list N.
  Hypothesis HP : dec_params_ok = true.
  Hypothesis HE : env_ok env = true.
  Hypothesis NC : forall sd f, In sd env -> In f (sfields sd) -> fnocopy f = false.

  Definition deep_at (w : tv) : Prop :=
    forall t d rest prior v,
      wf w = true -> code_of w = wt t -> ty_ok env t = true -> fixed_size (deref_ty t) = 0 ->
      absorb env t w prior = AOk v ->
      (skipped_depth env t w <= 63)%nat -> (length (put w ++ rest) < fuel)%nat ->
      (d < need env t w)%nat ->
      decode_type env fuel pool d t (put w ++ rest) prior = DErr EDepth.

  (* an element, key or value whose reference decoding succeeds: decoded when it
     fits the budget, EDepth when it does not *)
  Lemma slot_deep : forall w, deep_at w -> forall d e rest v,
    wf w = true -> code_of w = wt e -> ty_ok env e = true ->
    absorb env e w (zero_of env e) = AOk v ->
    (skipped_depth env e w <= 63)%nat -> (length (put w ++ rest) < fuel)%nat ->
    ((need env e w <= d)%nat ->
       dec_elem env (decode_type env fuel pool d) e (put w ++ rest) = DOk v rest
       /\ dec_kv env (decode_type env fuel pool d) e (put w ++ rest) = DOk v rest)
    /\ ((d < need env e w)%nat ->
       dec_elem env (decode_type env fuel pool d) e (put w ++ rest) = DErr EDepth
       /\ dec_kv env (decode_type env fuel pool d) e (put w ++ rest) = DErr EDepth).
  Proof.
    intros w IH d e rest v Hwf Hc Hok Ha Hs Hl. split; intros Hn.
    - destruct (slot_elemX env fuel pool HP HE w (exact_all env fuel pool HP HE w) d e rest
                           Hwf Hc Hok Hn Hs Hl) as [H1 H2].
      rewrite Ha in H1, H2. split; assumption.
    - destruct (need_pos_nonfixed env e w d Hn) as [Ef Hz].
      unfold dec_elem, dec_kv. rewrite Ef.
      pose proof (IH e d rest (zero_of env e) v Hwf Hc Hok Hz Ha Hs Hl Hn) as H.
      split; exact H.
  Qed.

  (* ---- lists ---- *)
  Lemma dec_list_elems_deep : forall d e es rest xs,
    (forall x, In x es -> deep_at x /\ wf x = true /\ code_of x = wt e
                          /\ (skipped_depth env e x <= 63)%nat) ->
    ty_ok env e = true ->
    ab_elems (absorb env) env e es = AOk xs ->
    (d < need_max (fun x => need env e x) es)%nat ->
    (length (cat_map put es ++ rest) < fuel)%nat ->
    dec_list_elems env (decode_type env fuel pool d) (length es) e (cat_map put es ++ rest)
    = DErr EDepth.
  Proof.
    intros d e es rest. induction es as [|x es IH]; intros xs H Hok Hab Hd Hl.
    - cbn [need_max] in Hd. lia.
    - cbn [ab_elems] in Hab. cbn [need_max] in Hd.
      destruct (absorb env e x (zero_of env e)) as [v| |i|] eqn:Ea; try discriminate Hab.
      destruct (ab_elems (absorb env) env e es) as [xs'| |i|] eqn:Eb; try discriminate Hab.
      cbn [length dec_list_elems]. rewrite cat_map_cons, <- app_assoc.
      rewrite cat_map_cons, <- app_assoc in Hl.
      destruct (H x (or_introl eq_refl)) as (Dx & Wx & Cx & Sx).
      destruct (slot_deep x Dx d e (cat_map put es ++ rest) v Wx Cx Hok Ea Sx Hl) as [Hle Hgt].
      assert (Hcase : (need env e x <= d)%nat \/ (d < need env e x)%nat) by lia.
      destruct Hcase as [Hc|Hc].
      + destruct (Hle Hc) as [H1 _]. rewrite H1.
        rewrite (IH xs'); [reflexivity| |exact Hok|reflexivity|lia|].
        * intros y Hy. apply H. right. exact Hy.
        * rewrite app_length in Hl. lia.
      + destruct (Hgt Hc) as [H1 _]. rewrite H1. reflexivity.
  Qed.

  Lemma dec_list_deep : forall d e b ec es rest v,
    wf (WList b ec es) = true ->
    (forall x, In x es -> deep_at x) ->
    ty_ok env e = true ->
    (if negb (ec =? wt e) then AMismatch
     else match ab_elems (absorb env) env e es with
          | AOk xs => AOk (VL (Some xs))
          | AMismatch => AMismatch | AMissing i => AMissing i | ABad => ABad
          end) = AOk v ->
    (d < need_max (fun x => need env e x) es)%nat ->
    (need_max (fun x => skipped_depth env e x) es <= 63)%nat ->
    (length (put (WList b ec es) ++ rest) < fuel)%nat ->
    dec_list env (decode_type env fuel pool d) e (put (WList b ec es) ++ rest) = DErr EDepth.
  Proof.
    intros d e b ec es rest v Hwf HD Hok Hab Hd Hs Hl.
    destruct (hdr_eqs HP) as (_ & _ & Hh & _).
    apply wf_list in Hwf. destruct Hwf as [Hlen [Hec Hwf]].
    unfold dec_list. rewrite Hh. rewrite put_list_eq in Hl |- *. cbn [app] in Hl |- *.
    rewrite <- app_assoc in Hl |- *.
    rewrite short_false by (rewrite len_cons, len_app, be_put_len; lia).
    rewrite take4_count by exact Hlen. cbv zeta.
    rewrite be_get_count by exact Hlen. rewrite neg32_small by exact Hlen.
    rewrite (N.eqb_sym (wt e) ec).
    destruct (ec =? wt e) eqn:Eec; cbn [negb] in Hab |- *; [|discriminate Hab].
    apply N.eqb_eq in Eec.
    destruct (ab_elems (absorb env) env e es) as [xs| |i|] eqn:Eb; try discriminate Hab.
    destruct (len es =? 0) eqn:E0.
    { apply N.eqb_eq in E0. destruct es as [|x es]; [cbn [need_max] in Hd; lia|].
      rewrite len_cons in E0. lia. }
    destruct (min_wire_ok HP e) as [Hpos _].
    destruct (min_wire (wt e) =? 0) eqn:Em; [apply N.eqb_eq in Em; lia|].
    rewrite short_false.
    2:{ rewrite len_app.
        assert (Hm : len es * min_wire (wt e) <= len (cat_map put es)).
        { apply cat_map_min. intros x Hx. apply (min_wire_put HP).
          destruct (Hwf x Hx) as [Hc _]. rewrite Hc. exact Eec. }
        lia. }
    rewrite len_length.
    rewrite (dec_list_elems_deep d e es rest xs); [reflexivity| |exact Hok|exact Eb|exact Hd|].
    - intros x Hx. destruct (Hwf x Hx) as [C1 W1].
      pose proof (need_max_le _ _ _ _ Hs x Hx) as Hsx. cbv beta in Hsx.
      split; [exact (HD x Hx)|]. split; [exact W1|]. split; [rewrite C1; exact Eec|exact Hsx].
    - cbn [length] in Hl. rewrite app_length in Hl. lia.
  Qed.

  (* ---- maps ---- *)
  Lemma dec_map_entries_deep : forall d kt vt es rest acc acc' m,
    (forall kv, In kv es ->
       deep_at (fst kv) /\ deep_at (snd kv)
       /\ wf (fst kv) = true /\ wf (snd kv) = true
       /\ code_of (fst kv) = wt kt /\ code_of (snd kv) = wt vt
       /\ (skipped_depth env kt (fst kv) <= 63)%nat /\ (skipped_depth env vt (snd kv) <= 63)%nat) ->
    ty_ok env kt = true -> ty_ok env vt = true ->
    ab_entries (absorb env) env kt vt es acc = AOk m ->
    (d < need_max (fun kv : tv * tv => Nat.max (need env kt (fst kv)) (need env vt (snd kv))) es)%nat ->
    (length (cat_map put_entry es ++ rest) < fuel)%nat ->
    dec_map_entries env (decode_type env fuel pool d) (length es) kt vt
                    (cat_map put_entry es ++ rest) acc' = DErr EDepth.
  Proof.
    intros d kt vt es rest. induction es as [|[kw vw] es IH]; intros acc acc' m H Hokk Hokv Hab Hd Hl.
    - cbn [need_max] in Hd. lia.
    - cbn [ab_entries] in Hab. cbn [need_max fst snd] in Hd.
      destruct (absorb env kt kw (zero_of env kt)) as [k| |i|] eqn:Eak; try discriminate Hab.
      destruct (absorb env vt vw (zero_of env vt)) as [v| |i|] eqn:Eav; try discriminate Hab.
      cbn [length dec_map_entries].
      rewrite cat_map_cons in Hl |- *. unfold put_entry at 1 in Hl. unfold put_entry at 1.
      cbn [fst snd] in Hl |- *. rewrite <- !app_assoc in Hl |- *.
      destruct (H (kw, vw) (or_introl eq_refl)) as (Dk & Dv & Wk & Wv & Ck & Cv & Sk & Sv).
      cbn [fst snd] in Dk, Dv, Wk, Wv, Ck, Cv, Sk, Sv.
      assert (Hl2 : (length (put vw ++ cat_map put_entry es ++ rest) < fuel)%nat)
        by (rewrite app_length in Hl; lia).
      assert (Hl3 : (length (cat_map put_entry es ++ rest) < fuel)%nat)
        by (rewrite app_length in Hl2; lia).
      destruct (slot_deep kw Dk d kt (put vw ++ cat_map put_entry es ++ rest) k Wk Ck Hokk Eak Sk Hl)
        as [Hkle Hkgt].
      destruct (slot_deep vw Dv d vt (cat_map put_entry es ++ rest) v Wv Cv Hokv Eav Sv Hl2)
        as [Hvle Hvgt].
      assert (Hcase : (need env kt kw <= d)%nat \/ (d < need env kt kw)%nat) by lia.
      destruct Hcase as [Hc|Hc].
      2:{ destruct (Hkgt Hc) as [_ H2]. rewrite H2. reflexivity. }
      destruct (Hkle Hc) as [_ H2]. rewrite H2. clear H2.
      assert (Hcase : (need env vt vw <= d)%nat \/ (d < need env vt vw)%nat) by lia.
      destruct Hcase as [Hc'|Hc'].
      2:{ destruct (Hvgt Hc') as [_ H2]. rewrite H2. reflexivity. }
      destruct (Hvle Hc') as [_ H2]. rewrite H2. clear H2.
      apply (IH (ainsert kt acc k v) _ m); try assumption.
      + intros kv Hkv. apply H. right. exact Hkv.
      + lia.
  Qed.

  Lemma dec_map_deep : forall d kt vt kc vc es rest v,
    wf (WMap kc vc es) = true ->
    (forall kv, In kv es -> deep_at (fst kv) /\ deep_at (snd kv)) ->
    ty_ok env kt = true -> ty_ok env vt = true ->
    (if negb ((kc =? wt kt) && (vc =? wt vt)) then AMismatch
     else match ab_entries (absorb env) env kt vt es [] with
          | AOk m => AOk (VM (Some m))
          | AMismatch => AMismatch | AMissing i => AMissing i | ABad => ABad
          end) = AOk v ->
    (d < need_max (fun kv : tv * tv => Nat.max (need env kt (fst kv)) (need env vt (snd kv))) es)%nat ->
    (need_max (fun kv : tv * tv =>
                 Nat.max (skipped_depth env kt (fst kv)) (skipped_depth env vt (snd kv))) es <= 63)%nat ->
    (length (put (WMap kc vc es) ++ rest) < fuel)%nat ->
    dec_map env (decode_type env fuel pool d) kt vt (put (WMap kc vc es) ++ rest) = DErr EDepth.
  Proof.
    intros d kt vt kc vc es rest v Hwf HD Hokk Hokv Hab Hd Hs Hl.
    destruct (hdr_eqs HP) as (_ & Hh & _ & _).
    apply wf_map in Hwf. destruct Hwf as [Hlen [Hkc [Hvc Hwf]]].
    unfold dec_map. rewrite Hh. rewrite put_map_eq in Hl |- *. cbn [app] in Hl |- *.
    rewrite <- app_assoc in Hl |- *.
    rewrite short_false by (rewrite !len_cons, len_app, be_put_len; lia).
    rewrite take4_count by exact Hlen. cbv zeta.
    rewrite be_get_count by exact Hlen. rewrite neg32_small by exact Hlen.
    destruct ((kc =? wt kt) && (vc =? wt vt)) eqn:Ec; cbn [negb] in Hab |- *; [|discriminate Hab].
    apply andb_true_iff in Ec. destruct Ec as [Ek Ev].
    apply N.eqb_eq in Ek. apply N.eqb_eq in Ev.
    destruct (ab_entries (absorb env) env kt vt es []) as [m| |i|] eqn:Eb; try discriminate Hab.
    destruct (min_wire_ok HP kt) as [Hpk _]. destruct (min_wire_ok HP vt) as [Hpv _].
    destruct (min_wire (wt kt) + min_wire (wt vt) =? 0) eqn:Em; [apply N.eqb_eq in Em; lia|].
    rewrite short_false.
    2:{ rewrite len_app.
        assert (Hm : len es * (min_wire (wt kt) + min_wire (wt vt)) <= len (cat_map put_entry es)).
        { apply cat_map_min. intros kv Hkv. destruct (Hwf kv Hkv) as [H1 [H2 _]].
          unfold put_entry. rewrite len_app.
          assert (min_wire (wt kt) <= len (put (fst kv)))
            by (apply (min_wire_put HP); rewrite H1; exact Ek).
          assert (min_wire (wt vt) <= len (put (snd kv)))
            by (apply (min_wire_put HP); rewrite H2; exact Ev).
          lia. }
        lia. }
    rewrite len_length.
    rewrite (dec_map_entries_deep d kt vt es rest [] [] m); [reflexivity| |exact Hokk|exact Hokv|exact Eb|exact Hd|].
    - intros kv Hkv. destruct (Hwf kv Hkv) as (C1 & C2 & W1 & W2).
      destruct (HD kv Hkv) as [D1 D2].
      pose proof (need_max_le _ _ _ _ Hs kv Hkv) as Hsk. cbv beta in Hsk.
      split; [exact D1|]. split; [exact D2|]. split; [exact W1|]. split; [exact W2|].
      split; [rewrite C1; exact Ek|]. split; [rewrite C2; exact Ev|]. clear - Hsk. lia.
    - cbn [length] in Hl. rewrite app_length in Hl. lia.
  Qed.

  (* ---- structs ---- *)
  Lemma dec_fields_deep : forall d sd,
    (forall f, In f (sfields sd) -> field_ok env f = true /\ fnocopy f = false) ->
    forall fs,
    (forall fv, In fv fs -> deep_at (snd fv)) ->
    (forall fv, In fv fs -> fst fv < 2 ^ 16 /\ wf (snd fv) = true) ->
    (forall fv, In fv fs -> (fskip env sd fv <= 63)%nat) ->
    forall fl rest cur seen unk dseen res,
    ab_fields (absorb env) sd fs cur seen unk = AOk res ->
    (d < need_max (fneed env sd) fs)%nat ->
    (length (put_fields fs ++ cSTOP :: rest) < fuel)%nat -> (length fs < fl)%nat ->
    dec_fields (decode_type env fuel pool d) fl sd (put_fields fs ++ cSTOP :: rest) cur dseen unk
    = DErr EDepth.
  Proof.
    intros d sd Hsd.
    destruct (codes_eqs (dec_enc HP)) as (E0 & _).
    induction fs as [|[id w] fs IH]; intros HF Hwf Hs fl rest cur seen unk dseen res Hab Hd Hl Hfl.
    - cbn [need_max] in Hd. lia.
    - destruct fl as [|fl]; [inversion Hfl|]. cbn [length] in Hfl.
      destruct (Hwf (id, w) (or_introl eq_refl)) as [Hid Hw]. cbn [fst snd] in Hid, Hw.
      pose proof (HF (id, w) (or_introl eq_refl)) as IHw. cbn [snd] in IHw.
      pose proof (Hs (id, w) (or_introl eq_refl)) as Hsw.
      unfold fskip in Hsw. cbn [fst snd] in Hsw.
      cbn [need_max] in Hd. unfold fneed at 1 in Hd. cbn [fst snd] in Hd.
      cbn [ab_fields] in Hab.
      rewrite put_fields_cons, put_field_eq in Hl |- *.
      cbn [app] in Hl |- *. rewrite <- !app_assoc in Hl |- *.
      set (R := put_fields fs ++ cSTOP :: rest) in *.
      assert (HlR : (length R < fuel)%nat).
      { cbn [length] in Hl. rewrite !app_length in Hl. lia. }
      assert (Hlw : (length (put w ++ R) < fuel)%nat).
      { cbn [length] in Hl. rewrite app_length in Hl. lia. }
      assert (IH' : forall cur' seen' unk' dseen',
                 ab_fields (absorb env) sd fs cur' seen' unk' = AOk res ->
                 (d < need_max (fneed env sd) fs)%nat ->
                 dec_fields (decode_type env fuel pool d) fl sd R cur' dseen' unk' = DErr EDepth).
      { intros cur' seen' unk' dseen' Hab' Hd'. apply (IH) with (seen := seen') (res := res).
        - intros fv Hin. apply HF. right. exact Hin.
        - intros fv Hin. apply Hwf. right. exact Hin.
        - intros fv Hin. apply Hs. right. exact Hin.
        - exact Hab'.
        - exact Hd'.
        - exact HlR.
        - lia. }
      rewrite dec_fields_S, E0, code_of_not_stop.
      rewrite short_false by (rewrite len_app, be_put_len; lia).
      rewrite (take_app_eq 2 (be_put 2 id)) by apply be_put_len.
      rewrite (be_get_put_small 2 id) by exact Hid.
      assert (Hunk : (S (wdepth w) <= 63)%nat ->
                 ab_fields (absorb env) sd fs cur seen (unk ++ put_field (id, w)) = AOk res ->
                 (d < need_max (fneed env sd) fs)%nat ->
                 match gk_skip (put w ++ R) (code_of w) with
                 | SOk n =>
                     match take n (put w ++ R) with
                     | Some (sk, r2) =>
                         dec_fields (decode_type env fuel pool d) fl sd r2 cur dseen
                                    (unk ++ code_of w :: be_put 2 id ++ sk)
                     | None => DErr EShort
                     end
                 | SErr e => DErr (ESkip e)
                 | SPanic => DErr (ESkip SkUnknownType)
                 | SFuel => DFuel
                 end = DErr EDepth).
      { intros Hdw Hab' Hd'. rewrite (gk_skip_put HP w R Hw).
        - rewrite take_app, <- put_field_eq. exact (IH' _ _ _ _ Hab' Hd').
        - unfold gk_defaultRecursionDepth. lia. }
      destruct (get_field sd id) as [[i f]|] eqn:Eg; [|apply Hunk; [exact Hsw|exact Hab|lia]].
      destruct (wt (fty f) =? code_of w) eqn:Ew; [|apply Hunk; [exact Hsw|exact Hab|lia]].
      apply N.eqb_eq in Ew.
      assert (Hfin : In f (sfields sd)).
      { unfold get_field in Eg. eapply find_field_In. exact Eg. }
      destruct (Hsd f Hfin) as [Hfok Hnc].
      destruct (absorb env (fty f) w (nth i cur (VS 0))) as [v| |j|] eqn:Ea; try discriminate Hab.
      assert (Hcase : (need env (fty f) w <= d)%nat \/ (d < need env (fty f) w)%nat) by lia.
      destruct Hcase as [Hc|Hc].
      + rewrite (field_valX env fuel pool HP HE w (exact_all env fuel pool HP HE w) d f R
                            (nth i cur (VS 0)) Hfok Hw (eq_sym Ew) Hc Hsw Hlw).
        rewrite Ea. cbn [dres_of]. apply (IH' _ _ _ _ Hab). lia.
      + destruct (need_pos_nonfixed env (fty f) w d Hc) as [Ef Hz].
        unfold field_res. rewrite Ef, Hnc.
        assert (Hok : ty_ok env (fty f) = true).
        { unfold field_ok in Hfok. andb_all. assumption. }
        rewrite (IHw (fty f) d R (nth i cur (VS 0)) v Hw (eq_sym Ew) Hok Hz Ea Hsw Hlw Hc).
        reflexivity.
  Qed.

  Theorem deep_all : forall w, deep_at w.
  Proof.
    induction w as [x|x|x|x|x|x|s|fs raw IHfs|kc vc es IHes|b ec es IHes] using tv_ind';
      unfold deep_at; intros t d rest prior v Hwf Hc Hok Hz Ha Hs Hl Hd;
      try (exfalso; eapply (scalar_w_absurd env HP HE); [|exact Hc|exact Hok|exact Hz]; reflexivity);
      (destruct d as [|d]; [reflexivity|]);
      destruct (ty_ok_deref env t Hok) as [Hok0 Hp0];
      pose proof Hc as Hsh; rewrite <- wt_deref, (wt_cwt HP) in Hsh;
      apply (code_shape _ _ Hp0) in Hsh;
      rewrite need_eq, Hz in Hd; change (0 <? 0) with false in Hd; cbv iota in Hd.
    - (* WStr *) lia.
    - (* WStruct *)
      destruct Hsh as [sid E].
      rewrite skipped_depth_eq in Hs. rewrite absorb_WStruct in Ha.
      rewrite DecodeRefines.decode_type_S, Hz. change (0 <? 0) with false. cbv iota.
      rewrite E in Hok0, Hd, Hs, Ha |- *. cbn [ty_ok] in Hok0.
      destruct (lookup_some env sid Hok0) as [sd Esd]. rewrite Esd in Hd, Hs, Ha |- *.
      destruct d as [|d]; [reflexivity|].
      rewrite DecodeRefines.decode_struct_S.
      destruct (apply_init sd (if is_ptr t then zero_of env (TStruct sid) else prior))
        as [ | | | | |fs0 h0]; try (destruct (is_ptr t); discriminate Ha).
      destruct (ab_fields (absorb env) sd fs fs0 [] []) as [res| |i|] eqn:Hab;
        try (destruct (is_ptr t); discriminate Ha).
      pose proof (wf_struct fs raw Hwf) as [Hraw Hwf']. subst raw.
      rewrite dec_struct_body_VT. rewrite put_struct_eq in Hl |- *.
      assert (EE : (put_fields fs ++ [] ++ [cSTOP]) ++ rest = put_fields fs ++ cSTOP :: rest)
        by (rewrite <- app_assoc; reflexivity).
      rewrite EE in Hl |- *. clear EE.
      rewrite (dec_fields_deep d sd) with (seen := []) (res := res); [reflexivity| | | | |exact Hab| | |].
      + intros f Hf. split; [exact (env_field_ok env sid sd f HE Esd Hf)|].
        exact (NC sd f (lookup_sd_In env sid sd Esd) Hf).
      + rewrite Forall_forall in IHfs. exact IHfs.
      + exact Hwf'.
      + exact (need_max_le _ _ _ _ Hs).
      + unfold fneed. lia.
      + exact Hl.
      + pose proof (length_put_fields fs). rewrite app_length in Hl. lia.
    - (* WMap *)
      destruct Hsh as [kt [vt E]].
      rewrite skipped_depth_eq in Hs. rewrite absorb_WMap in Ha.
      rewrite DecodeRefines.decode_type_S, Hz. change (0 <? 0) with false. cbv iota.
      rewrite E in Hok0, Hd, Hs, Ha |- *.
      destruct (ty_ok_map env kt vt Hok0) as (_ & Hokk & Hokv & _).
      rewrite Forall_forall in IHes.
      match type of Ha with awrap t ?a = AOk v =>
        destruct a as [v0| |i|] eqn:Ea; try discriminate Ha end.
      rewrite (dec_map_deep d kt vt kc vc es rest v0 Hwf IHes Hokk Hokv Ea); [reflexivity| |exact Hs|exact Hl].
      lia.
    - (* WList *)
      destruct Hsh as [b0 [e E]].
      rewrite skipped_depth_eq in Hs. rewrite absorb_WList in Ha.
      rewrite DecodeRefines.decode_type_S, Hz. change (0 <? 0) with false. cbv iota.
      rewrite E in Hok0, Hd, Hs, Ha |- *.
      destruct (ty_ok_list env b0 e Hok0) as [Hoke _].
      rewrite Forall_forall in IHes.
      match type of Ha with awrap t ?a = AOk v =>
        destruct a as [v0| |i|] eqn:Ea; try discriminate Ha end.
      rewrite (dec_list_deep d e b ec es rest v0 Hwf IHes Hoke Ea); [reflexivity| |exact Hs|exact Hl].
      lia.
  Qed.

End Deep.

(* C4, value level *)
Theorem deep_rejected : forall env fuel pool, dec_params_ok = true -> env_ok env = true ->
  (forall sd f, In sd env -> In f (sfields sd) -> fnocopy f = false) ->
  forall w t d rest prior v,
    wf w = true -> code_of w = wt t -> ty_ok env t = true -> fixed_size (deref_ty t) = 0 ->
    absorb env t w prior = AOk v ->
    (skipped_depth env t w <= 63)%nat ->
    (length (put w ++ rest) < fuel)%nat ->
    (d < need env t w)%nat ->
    decode_type env fuel pool d t (put w ++ rest) prior = DErr EDepth.
Proof.
  intros env fuel pool HP HE NC w t d rest prior v.
  exact (deep_all env fuel pool HP HE NC w t d rest prior v).
Qed.

(* so, for a value the reference decoder accepts, the budget decides *)
Corollary depth_threshold : forall env fuel pool, dec_params_ok = true -> env_ok env = true ->
  (forall sd f, In sd env -> In f (sfields sd) -> fnocopy f = false) ->
  forall w t d rest prior v,
    wf w = true -> code_of w = wt t -> ty_ok env t = true -> fixed_size (deref_ty t) = 0 ->
    absorb env t w prior = AOk v ->
    (skipped_depth env t w <= 63)%nat ->
    (length (put w ++ rest) < fuel)%nat ->
    decode_type env fuel pool d t (put w ++ rest) prior
    = if Nat.leb (need env t w) d then DOk v rest else DErr EDepth.
Proof.
  intros env fuel pool HP HE NC w t d rest prior v Hwf Hc Hok Hz Ha Hs Hl.
  destruct (Nat.leb (need env t w) d) eqn:E.
  - apply PeanoNat.Nat.leb_le in E.
    rewrite (decode_type_exact env fuel pool HP HE w t d rest prior Hwf Hc Hok Hz E Hs Hl), Ha.
    reflexivity.
  - apply PeanoNat.Nat.leb_gt in E.
    exact (deep_rejected env fuel pool HP HE NC w t d rest prior v Hwf Hc Hok Hz Ha Hs Hl E).
Qed.

(* C4, top level *)
Theorem deep_rejected_top : forall env pool sid fs rest dst v,
  dec_params_ok = true -> env_ok env = true ->
  (forall sd f, In sd env -> In f (sfields sd) -> fnocopy f = false) ->
  wf (WStruct fs []) = true ->
  absorb_top env sid (WStruct fs []) dst = AOk v ->
  (skipped_depth env (TStruct sid) (WStruct fs []) <= 63)%nat ->
  (S (N.to_nat maxDepthLimit) < need env (TStruct sid) (WStruct fs []))%nat ->
  decode_object env pool sid (put (WStruct fs []) ++ rest) dst = DErr EDepth.
Proof.
  intros env pool sid fs rest dst v HP HE NC Hwf Ha Hs Hd.
  rewrite absorb_top_eq in Ha. unfold decode_object, decode_object_f.
  destruct (lookup_sd env sid) as [sd|] eqn:Esd; [|discriminate Ha].
  destruct dst as [ | | | | |fs0 h0]; try discriminate Ha.
  destruct (ab_fields (absorb env) sd fs fs0 [] []) as [res| |i|] eqn:Hab; try discriminate Ha.
  rewrite (top_need_eq HP env sid sd fs [] Esd) in Hd.
  rewrite (top_skipped env sid sd fs [] Esd) in Hs.
  destruct (N.to_nat maxDepthLimit) as [|d]; [reflexivity|].
  rewrite DecodeRefines.decode_struct_S, dec_struct_body_VT.
  pose proof (wf_struct fs [] Hwf) as [_ Hwf'].
  rewrite put_struct_eq.
  assert (EE : (put_fields fs ++ [] ++ [cSTOP]) ++ rest = put_fields fs ++ cSTOP :: rest)
    by (rewrite <- app_assoc; reflexivity).
  rewrite EE. clear EE.
  rewrite (dec_fields_deep env _ pool HP HE NC d sd) with (seen := []) (res := res);
    [reflexivity| | | | |exact Hab| | |].
  - intros f Hf. split; [exact (env_field_ok env sid sd f HE Esd Hf)|].
    exact (NC sd f (lookup_sd_In env sid sd Esd) Hf).
  - intros fv _. apply deep_all; assumption.
  - exact Hwf'.
  - exact (need_max_le _ _ _ _ Hs).
  - lia.
  - lia.
  - pose proof (length_put_fields fs). rewrite app_length. cbn [length]. lia.
Qed.

(* the whole of C15 for a message the reference decoder accepts: accepted
   iff the budget suffices, else EDepth *)
Corollary depth_threshold_top : forall env pool sid fs rest dst v,
  dec_params_ok = true -> env_ok env = true ->
  (forall sd f, In sd env -> In f (sfields sd) -> fnocopy f = false) ->
  wf (WStruct fs []) = true ->
  absorb_top env sid (WStruct fs []) dst = AOk v ->
  (skipped_depth env (TStruct sid) (WStruct fs []) <= 63)%nat ->
  decode_object env pool sid (put (WStruct fs []) ++ rest) dst
  = if Nat.leb (need env (TStruct sid) (WStruct fs [])) (S (N.to_nat maxDepthLimit))
    then DOk (v, len (put (WStruct fs []))) rest
    else DErr EDepth.
Proof.
  intros env pool sid fs rest dst v HP HE NC Hwf Ha Hs.
  destruct (Nat.leb (need env (TStruct sid) (WStruct fs [])) (S (N.to_nat maxDepthLimit))) eqn:E.
  - apply PeanoNat.Nat.leb_le in E.
    rewrite (decode_exact env pool sid fs rest dst HP HE Hwf E Hs), Ha. reflexivity.
  - apply PeanoNat.Nat.leb_gt in E.
    exact (deep_rejected_top env pool sid fs rest dst v HP HE NC Hwf Ha Hs E).
Qed.

(* why the nocopy hypothesis is there: a struct with one nocopy string field
   has need 3, and decodes with budget 2 *)
Example need_not_tight_for_nocopy :
  let env := [mkSdesc [mkField 1 TString RDefault true None] false None] in
  let w := WStruct [(1, WStr [])] [] in
  env_ok env = true
  /\ need env (TStruct 0) w = 3%nat
  /\ absorb env (TStruct 0) w (VT [VB false []] []) = AOk (VT [VB false []] [])
  /\ decode_type env 100 [] 2 (TStruct 0) (put w) (VT [VB false []] [])
     = DOk (VT [VB false []] []) [].
Proof. vm_compute. repeat split; reflexivity. Qed.

(* ================================================================== *)
Print Assumptions ab_fields_char.
Print Assumptions required_enforced_top.
Print Assumptions required_enforced_decode.
Print Assumptions required_missing_rejected.
Print Assumptions required_present_accepted.
Print Assumptions decode_type_exact.
Print Assumptions decode_exact.
Print Assumptions required_error_names_field.
Print Assumptions encoder_writes_required.
Print Assumptions holder_exact.
Print Assumptions holder_exact_decode.
Print Assumptions holder_reencoded.
Print Assumptions unknown_conserved.
Print Assumptions reemitted_wf.
Print Assumptions one_hop.
Print Assumptions one_hop_wf.
Print Assumptions need_le_wdepth.
Print Assumptions skipped_le_wdepth.
Print Assumptions shallow_accepted.
Print Assumptions shallow_exact.
Print Assumptions shallow_never_depth.
Print Assumptions budget_zero.
Print Assumptions decode_struct_step.
Print Assumptions decode_type_step.
Print Assumptions deep_rejected.
Print Assumptions depth_threshold.
Print Assumptions deep_rejected_top.
Print Assumptions depth_threshold_top.
Print Assumptions need_not_tight_for_nocopy.
