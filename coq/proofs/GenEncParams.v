(* GenEncParams.v -- the encoder's side condition on gen/Params.v, re-proved on every run against
   what the translator read from the Go sources. *)
From Frugal Require Import Checks.

Lemma enc_params_ok_holds : enc_params_ok = true.
Proof. vm_compute. reflexivity. Qed.
