(* ParamsSplit.v -- how the groups of side conditions on gen/Params.v relate:
   [params_ok] gives each of them, and the decoder's group contains the
   encoder's. *)
From Coq Require Import NArith Bool Lia.
From Frugal Require Import Checks.
From Frugal.gen Require Import Params.
Open Scope N_scope.

Ltac andb_split H :=
  repeat match type of H with
         | (_ && _) = true => let H' := fresh H in apply andb_prop in H; destruct H as [H H']
         end.

Lemma params_enc : params_ok = true -> enc_params_ok = true.
Proof.
  unfold params_ok, enc_params_ok. intros H. andb_split H.
  repeat (apply andb_true_intro; split); assumption.
Qed.

Lemma depth_pos : depth_ok = true -> depth_pos_ok = true.
Proof.
  unfold depth_ok, depth_pos_ok. intros H. andb_split H.
  apply N.leb_le in H. apply N.ltb_lt. lia.
Qed.

Lemma params_depth : params_ok = true -> depth_ok = true.
Proof. unfold params_ok. intros H. andb_split H. assumption. Qed.

Lemma params_dec : params_ok = true -> dec_params_ok = true.
Proof.
  intros HP. pose proof (depth_pos (params_depth HP)) as Hd.
  unfold params_ok in HP. unfold dec_params_ok. andb_split HP.
  repeat (apply andb_true_intro; split); assumption.
Qed.

Lemma dec_enc : dec_params_ok = true -> enc_params_ok = true.
Proof.
  unfold dec_params_ok, enc_params_ok. intros H. andb_split H.
  repeat (apply andb_true_intro; split); assumption.
Qed.

(* and back: nothing of [params_ok] is outside the three groups *)
Lemma params_of_groups : dec_params_ok = true -> depth_ok = true -> params_ok = true.
Proof.
  unfold dec_params_ok, params_ok. intros H Hd. andb_split H.
  repeat (apply andb_true_intro; split); assumption.
Qed.

(* the components, from the groups *)
Lemma enc_codes : enc_params_ok = true -> codes_ok = true.
Proof. unfold enc_params_ok. intros H. andb_split H. assumption. Qed.
Lemma enc_fixed : enc_params_ok = true -> fixed_ok = true.
Proof. unfold enc_params_ok. intros H. andb_split H. assumption. Qed.
Lemma enc_simple : enc_params_ok = true -> simple_ok = true.
Proof. unfold enc_params_ok. intros H. andb_split H. assumption. Qed.
Lemma dec_codes : dec_params_ok = true -> codes_ok = true.
Proof. intros H. exact (enc_codes (dec_enc H)). Qed.
Lemma dec_fixed : dec_params_ok = true -> fixed_ok = true.
Proof. intros H. exact (enc_fixed (dec_enc H)). Qed.
Lemma dec_minwire : dec_params_ok = true -> minwire_ok = true.
Proof. unfold dec_params_ok. intros H. andb_split H. assumption. Qed.
Lemma dec_gk : dec_params_ok = true -> gk_ok = true.
Proof. unfold dec_params_ok. intros H. andb_split H. assumption. Qed.
Lemma dec_depth_pos : dec_params_ok = true -> 0 < maxDepthLimit.
Proof.
  unfold dec_params_ok. intros H. andb_split H.
  match goal with H : depth_pos_ok = true |- _ => unfold depth_pos_ok in H; apply N.ltb_lt in H; exact H end.
Qed.

(* an odd budget: 2 * d + 1 levels fit exactly when 2 * d + 2 do *)
Lemma odd_budget : forall d : nat, depth_odd_ok = true ->
  (2 * d + 1 <= S (N.to_nat maxDepthLimit))%nat -> (2 * d + 2 <= S (N.to_nat maxDepthLimit))%nat.
Proof.
  intros d H Hd. unfold depth_odd_ok in H. apply N.odd_spec in H. destruct H as [k Hk].
  generalize dependent maxDepthLimit. intros m Hd Hk. subst m.
  replace (N.to_nat (2 * k + 1)) with (2 * N.to_nat k + 1)%nat in * by lia. lia.
Qed.
