(* TagsStruct.v -- C12 / C13 at the level of whole struct definitions.

   A. resolution of a whole struct (resolve_fields = DoResolveFields)
        resolve_one_eq / resolve_one_seen   the shape of resolve_one; the set of
                                   ids already seen only decides duplicates
        resolve_fields_iff         resolve_fields gs = ROk fs  iff  every field
                                   resolves on its own, the ids are pairwise
                                   distinct and fs is the result sorted by id
        resolve_fields_sorted      the ids of the result are strictly increasing
        resolve_fields_nodup       ... hence pairwise distinct
        resolve_fields_members     the result consists exactly of the resolved
                                   tagged, exported, non-embedded fields
        resolve_fields_ignored     deleting an ignored field changes nothing but
                                   the Go field indices
        resolve_fields_complete    the constructive direction of _iff
        resolve_fields_schema      ... any id-sorted arrangement of the fields
        struct_of_schema           a struct whose tags are printed from a schema
                                   resolves to that schema
        spellings_struct           the spelling and the carrier do not matter
        resolve_frugal_id_only / resolve_frugal_id_req   omitted requiredness
                                   (default) and omitted annotation
   B. rejections
        parse_type_shape           a parsed annotation always has the shape of
                                   the Go type (an annotation cannot contradict it)
        unsupported_kind_rejected, bare_slice_rejected, head_mismatch_rejected,
        ptr_ptr_rejected, ptr_container_rejected, bad_map_key_rejected,
        ptr_elem_rejected, trailing_rejected ...            (type level)
        bad_id_rejected, dup_id_field_rejected, bad_req_rejected,
        unknown_option_rejected, nocopy_nonstring_rejected,
        type_err_rejected ...                                (field level)
        resolve_fields_err, duplicate_id_rejected, resolve_fields_err_iff
                                                             (struct level)
        rejected_everywhere        a type that reaches a rejected definition is
                                   not accepted
   C. locality: resolve_universe_app, env_types_app, accepted_app_mono,
      accepted_app_closed, build_env_app_noinit, build_env_app (with the
      hypotheses it needs) and the counterexamples without them
   D. examples by vm_compute *)
From Coq Require Import List NArith Bool Lia ZifyN ZifyNat ZifyBool Sorted Permutation.
From Frugal Require Import Bytes Values Desc Tags State.
From Frugal.proofs Require Import StateProofs TagsProofs.
Import ListNotations.
Open Scope N_scope.

(* ------------------------------------------------------------------ *)
(* A.0  the shape of resolve_one                                        *)
(* ------------------------------------------------------------------ *)

(* the option checker of resolve_one (there a local fix) *)
Definition opts_ok (pt : dtype) : list str -> bool -> option bool :=
  fix go (os : list str) (have : bool) {struct os} : option bool :=
  match os with
  | [] => Some have
  | o :: r =>
      if str_eqb o s_nocopy then
        match d_wire pt with
        | DString => if have then None else go r true
        | _ => None
        end
      else None
  end.

(* what resolve_one does once the id is known and new *)
Definition resolve_body (gf : gofield) (idx : nat) (id : N) (ft1 : list str) : pres (option dfield) :=
  let '(rq, ft2) := match ft1 with [] => (s_default, []) | x :: r => (x, r) end in
  match req_of_name rq with
  | None => RErr
  | Some rx =>
      let '(an, opts) := match ft2 with [] => ([], []) | x :: r => (x, r) end in
      match parse_type_top (gf_type gf) an with
      | RErr => RErr
      | ROk pt =>
          if negb (field_ptr_okd pt rx) then RErr
          else match opts_ok pt opts false with
               | None => RErr
               | Some nc => ROk (Some (mkDField id pt rx nc idx))
               end
      end
  end.

(* the field is skipped: embedded, unexported, or without frugal / thrift tag *)
Definition ignored (gf : gofield) : bool :=
  gf_anonymous gf || negb (gf_exported gf)
  || match lookup_struct_tag (gf_tag gf) with None => true | Some _ => false end.

Lemma resolve_one_eq : forall gf idx seen,
  resolve_one gf idx seen =
  if gf_anonymous gf || negb (gf_exported gf) then ROk None
  else match lookup_struct_tag (gf_tag gf) with
       | None => ROk None
       | Some [] => RErr
       | Some (ids :: ft1) =>
           match parse_uint16 ids with
           | None => RErr
           | Some id => if memN id seen then RErr else resolve_body gf idx id ft1
           end
       end.
Proof. reflexivity. Qed.

Lemma lookup_struct_tag_none : forall tag,
  lookup_struct_tag tag = None <->
  (tag_lookup (S (length tag)) tag s_frugal = None /\ tag_lookup (S (length tag)) tag s_thrift = None).
Proof.
  intros tag. unfold lookup_struct_tag.
  destruct (tag_lookup (S (length tag)) tag s_frugal); [split; [discriminate|intros [H _]; discriminate H]|].
  destruct (tag_lookup (S (length tag)) tag s_thrift); [split; [discriminate|intros [_ H]; discriminate H]|].
  split; auto.
Qed.

Lemma resolve_body_not_none : forall gf idx id ft1, resolve_body gf idx id ft1 <> ROk None.
Proof.
  intros gf idx id ft1. unfold resolve_body.
  destruct (match ft1 with [] => (s_default, []) | x :: r => (x, r) end) as [rq ft2].
  destruct (req_of_name rq) as [rx|]; [|discriminate].
  destruct (match ft2 with [] => ([], []) | x :: r => (x, r) end) as [an opts].
  destruct (parse_type_top (gf_type gf) an) as [pt|]; [|discriminate].
  destruct (negb (field_ptr_okd pt rx)); [discriminate|].
  destruct (opts_ok pt opts false); discriminate.
Qed.

Lemma resolve_body_some : forall gf idx id ft1 d,
  resolve_body gf idx id ft1 = ROk (Some d) -> d_id d = id /\ d_index d = idx.
Proof.
  intros gf idx id ft1 d. unfold resolve_body.
  destruct (match ft1 with [] => (s_default, []) | x :: r => (x, r) end) as [rq ft2].
  destruct (req_of_name rq) as [rx|]; [|discriminate].
  destruct (match ft2 with [] => ([], []) | x :: r => (x, r) end) as [an opts].
  destruct (parse_type_top (gf_type gf) an) as [pt|]; [|discriminate].
  destruct (negb (field_ptr_okd pt rx)); [discriminate|].
  destruct (opts_ok pt opts false); [|discriminate].
  intros H. injection H as <-. split; reflexivity.
Qed.

Definition set_index (i : nat) (d : dfield) : dfield :=
  mkDField (d_id d) (d_type d) (d_req d) (d_nocopy d) i.

Definition pres_map {A B} (f : A -> B) (r : pres A) : pres B :=
  match r with ROk a => ROk (f a) | RErr => RErr end.

Lemma resolve_body_index : forall gf i j id ft1,
  resolve_body gf j id ft1 = pres_map (option_map (set_index j)) (resolve_body gf i id ft1).
Proof.
  intros gf i j id ft1. unfold resolve_body.
  destruct (match ft1 with [] => (s_default, []) | x :: r => (x, r) end) as [rq ft2].
  destruct (req_of_name rq) as [rx|]; [|reflexivity].
  destruct (match ft2 with [] => ([], []) | x :: r => (x, r) end) as [an opts].
  destruct (parse_type_top (gf_type gf) an) as [pt|]; [|reflexivity].
  destruct (negb (field_ptr_okd pt rx)); [reflexivity|].
  destruct (opts_ok pt opts false); reflexivity.
Qed.

(* a field is ignored iff resolve_one skips it *)
Lemma ignored_iff : forall gf idx seen, ignored gf = true <-> resolve_one gf idx seen = ROk None.
Proof.
  intros gf idx seen. rewrite resolve_one_eq. unfold ignored.
  destruct (gf_anonymous gf || negb (gf_exported gf)); cbn [orb]; [tauto|].
  destruct (lookup_struct_tag (gf_tag gf)) as [[|ids ft1]|]; [split; discriminate| |tauto].
  destruct (parse_uint16 ids) as [id|]; [|split; discriminate].
  destruct (memN id seen); [split; discriminate|].
  split; [discriminate|]. intros H. exfalso. exact (resolve_body_not_none _ _ _ _ H).
Qed.

Lemma ignored_resolve : forall gf idx seen, ignored gf = true -> resolve_one gf idx seen = ROk None.
Proof. intros gf idx seen H. apply ignored_iff. exact H. Qed.

(* in words *)
Lemma ignored_cases : forall gf,
  ignored gf = true <->
  (gf_anonymous gf = true \/ gf_exported gf = false \/
   (tag_lookup (S (length (gf_tag gf))) (gf_tag gf) s_frugal = None /\
    tag_lookup (S (length (gf_tag gf))) (gf_tag gf) s_thrift = None)).
Proof.
  intros gf. unfold ignored. rewrite <- lookup_struct_tag_none.
  destruct (gf_anonymous gf), (gf_exported gf); cbn [orb negb];
    destruct (lookup_struct_tag (gf_tag gf)); split; intros H; auto;
    try discriminate H; destruct H as [H|[H|H]]; congruence.
Qed.

(* the id a (not ignored) field claims *)
Definition field_id (gf : gofield) : option N :=
  if ignored gf then None
  else match lookup_struct_tag (gf_tag gf) with
       | Some (ids :: _) => parse_uint16 ids
       | _ => None
       end.

(* [seen] only decides duplicates *)
Lemma resolve_one_seen : forall gf idx seen,
  resolve_one gf idx seen =
  match resolve_one gf idx [] with
  | ROk (Some d) => if memN (d_id d) seen then RErr else ROk (Some d)
  | r => r
  end.
Proof.
  intros gf idx seen. rewrite !resolve_one_eq.
  destruct (gf_anonymous gf || negb (gf_exported gf)); [reflexivity|].
  destruct (lookup_struct_tag (gf_tag gf)) as [[|ids ft1]|]; try reflexivity.
  destruct (parse_uint16 ids) as [id|]; [|reflexivity].
  cbn [memN existsb].
  destruct (resolve_body gf idx id ft1) as [[d|]|] eqn:E.
  - destruct (resolve_body_some _ _ _ _ _ E) as [-> _]. destruct (memN (d_id d) seen); reflexivity.
  - exfalso. exact (resolve_body_not_none _ _ _ _ E).
  - destruct (memN id seen); reflexivity.
Qed.

(* the Go field index is only recorded *)
Lemma resolve_one_index : forall gf i j seen,
  resolve_one gf j seen = pres_map (option_map (set_index j)) (resolve_one gf i seen).
Proof.
  intros gf i j seen. rewrite !resolve_one_eq.
  destruct (gf_anonymous gf || negb (gf_exported gf)); [reflexivity|].
  destruct (lookup_struct_tag (gf_tag gf)) as [[|ids ft1]|]; try reflexivity.
  destruct (parse_uint16 ids) as [id|]; [|reflexivity].
  destruct (memN id seen); [reflexivity|]. apply resolve_body_index.
Qed.

Lemma resolve_one_some : forall gf idx seen d,
  resolve_one gf idx seen = ROk (Some d) ->
  ignored gf = false /\ field_id gf = Some (d_id d) /\ d_index d = idx /\ memN (d_id d) seen = false.
Proof.
  intros gf idx seen d H.
  assert (Hi : ignored gf = false).
  { destruct (ignored gf) eqn:E; [|reflexivity].
    rewrite (ignored_resolve gf idx seen E) in H. discriminate H. }
  unfold field_id. rewrite Hi. split; [reflexivity|].
  rewrite resolve_one_eq in H. unfold ignored in Hi.
  destruct (gf_anonymous gf || negb (gf_exported gf)); [discriminate Hi|].
  destruct (lookup_struct_tag (gf_tag gf)) as [[|ids ft1]|]; try discriminate H.
  destruct (parse_uint16 ids) as [id|]; [|discriminate H].
  destruct (memN id seen) eqn:Em; [discriminate H|].
  destruct (resolve_body_some _ _ _ _ _ H) as [-> ->]. auto.
Qed.

Lemma resolve_one_none : forall gf idx seen,
  resolve_one gf idx seen = ROk None -> field_id gf = None.
Proof.
  intros gf idx seen H. apply ignored_iff in H. unfold field_id. rewrite H. reflexivity.
Qed.

(* an error of a field on its own is an error everywhere *)
Lemma resolve_one_err_any : forall gf i j seen,
  resolve_one gf i [] = RErr -> resolve_one gf j seen = RErr.
Proof.
  intros gf i j seen H. rewrite resolve_one_seen. rewrite (resolve_one_index gf i j []).
  rewrite H. reflexivity.
Qed.

(* ------------------------------------------------------------------ *)
(* A.1  the loop                                                        *)
(* ------------------------------------------------------------------ *)

Definition ids (l : list dfield) : list N := map d_id l.

Lemma resolve_loop_acc : forall fs idx seen acc,
  resolve_loop fs idx seen acc = pres_map (app (rev acc)) (resolve_loop fs idx seen []).
Proof.
  induction fs as [|gf fs IH]; intros idx seen acc; cbn [resolve_loop].
  - cbn [pres_map rev]. rewrite app_nil_r. reflexivity.
  - destruct (resolve_one gf idx seen) as [[d|]|]; [|apply IH|reflexivity].
    rewrite (IH _ _ (d :: acc)), (IH _ _ [d]).
    destruct (resolve_loop fs (S idx) (d_id d :: seen) []) as [l|]; [|reflexivity].
    cbn [pres_map rev app]. rewrite <- app_assoc. reflexivity.
Qed.

Lemma resolve_loop_cons : forall gf fs idx seen,
  resolve_loop (gf :: fs) idx seen [] =
  match resolve_one gf idx seen with
  | RErr => RErr
  | ROk None => resolve_loop fs (S idx) seen []
  | ROk (Some d) => pres_map (cons d) (resolve_loop fs (S idx) (d_id d :: seen) [])
  end.
Proof.
  intros gf fs idx seen. cbn [resolve_loop].
  destruct (resolve_one gf idx seen) as [[d|]|]; try reflexivity.
  rewrite resolve_loop_acc. destruct (resolve_loop fs (S idx) (d_id d :: seen) []); reflexivity.
Qed.

(* every field resolved on its own: position i, nothing seen *)
Inductive fields_resolve : nat -> list gofield -> list (option dfield) -> Prop :=
| FR_nil : forall i, fields_resolve i [] []
| FR_cons : forall i gf r fs rs,
    resolve_one gf i [] = ROk r -> fields_resolve (S i) fs rs ->
    fields_resolve i (gf :: fs) (r :: rs).

Fixpoint somes {A} (l : list (option A)) : list A :=
  match l with
  | [] => []
  | Some a :: r => a :: somes r
  | None :: r => somes r
  end.

Lemma resolve_loop_ok : forall idx fs rs,
  fields_resolve idx fs rs ->
  forall seen, NoDup (ids (somes rs)) -> (forall x, In x (ids (somes rs)) -> ~ In x seen) ->
  resolve_loop fs idx seen [] = ROk (somes rs).
Proof.
  induction 1 as [i|i gf r fs rs Hr Hfs IH]; intros seen Hnd Hdis; [reflexivity|].
  rewrite resolve_loop_cons, resolve_one_seen, Hr.
  destruct r as [d|]; cbn [somes] in *.
  - cbn [ids map] in Hnd, Hdis. inversion Hnd as [|? ? Hnin Hnd']; subst.
    assert (Hm : memN (d_id d) seen = false).
    { apply memN_false. apply Hdis. left. reflexivity. }
    rewrite Hm. rewrite IH; [reflexivity|exact Hnd'|].
    intros x Hx [Hs|Hs]; [subst x; exact (Hnin Hx)|].
    apply (Hdis x); [right; exact Hx|exact Hs].
  - apply IH; assumption.
Qed.

Lemma resolve_loop_inv : forall fs idx seen l,
  resolve_loop fs idx seen [] = ROk l ->
  exists rs, fields_resolve idx fs rs /\ l = somes rs /\ NoDup (ids l) /\
             (forall x, In x (ids l) -> ~ In x seen).
Proof.
  induction fs as [|gf fs IH]; intros idx seen l H.
  - injection H as <-. exists []. repeat split; try constructor. intros x [].
  - rewrite resolve_loop_cons, resolve_one_seen in H.
    destruct (resolve_one gf idx []) as [[d|]|] eqn:E; [| |discriminate H].
    + destruct (memN (d_id d) seen) eqn:Em; [discriminate H|].
      destruct (resolve_loop fs (S idx) (d_id d :: seen) []) as [l'|] eqn:El; [|discriminate H].
      injection H as <-.
      destruct (IH _ _ _ El) as (rs & Hfr & -> & Hnd & Hdis).
      exists (Some d :: rs). split; [constructor; assumption|]. split; [reflexivity|].
      cbn [ids map]. split.
      * constructor; [|exact Hnd]. intros Hin. apply (Hdis _ Hin). left. reflexivity.
      * intros x [Hx|Hx].
        -- subst x. apply memN_false. exact Em.
        -- intros Hs. apply (Hdis _ Hx). right. exact Hs.
    + destruct (IH _ _ _ H) as (rs & Hfr & -> & Hnd & Hdis).
      exists (None :: rs). split; [constructor; assumption|]. auto.
Qed.

(* ------------------------------------------------------------------ *)
(* A.2  the sort                                                        *)
(* ------------------------------------------------------------------ *)

Definition sorted_ids (l : list dfield) : Prop := StronglySorted N.lt (ids l).

Lemma insert_perm : forall d l, Permutation (insert_by_id d l) (d :: l).
Proof.
  intros d l. induction l as [|x r IH]; cbn [insert_by_id]; [apply Permutation_refl|].
  destruct (d_id d <? d_id x); [apply Permutation_refl|].
  eapply Permutation_trans; [apply perm_skip; exact IH|apply perm_swap].
Qed.

Lemma sort_perm : forall l, Permutation (sort_by_id l) l.
Proof.
  induction l as [|d l IH]; [apply Permutation_refl|].
  cbn [sort_by_id fold_right]. eapply Permutation_trans; [apply insert_perm|].
  apply perm_skip. exact IH.
Qed.

Lemma insert_sorted : forall d l,
  sorted_ids l -> ~ In (d_id d) (ids l) -> sorted_ids (insert_by_id d l).
Proof.
  intros d l. unfold sorted_ids. induction l as [|x r IH]; intros Hs Hn; cbn [insert_by_id].
  - cbn. constructor; constructor.
  - cbn [ids map] in Hs, Hn. inversion Hs as [|? ? Hs' Hall]; subst.
    destruct (d_id d <? d_id x) eqn:E.
    + cbn [ids map]. constructor; [exact Hs|].
      constructor; [lia|]. eapply Forall_impl; [|exact Hall]. intros y Hy. cbv beta in Hy. lia.
    + cbn [ids map]. constructor.
      * apply IH; [exact Hs'|]. intros Hin. apply Hn. right. exact Hin.
      * assert (Hxd : d_id x < d_id d).
        { assert (d_id x <> d_id d) by (intros Heq; apply Hn; left; exact Heq). lia. }
        apply Forall_forall. intros y Hy.
        apply (Permutation_in _ (Permutation_map d_id (insert_perm d r))) in Hy.
        cbn [map] in Hy. destruct Hy as [Hy|Hy]; [subst y; exact Hxd|].
        rewrite Forall_forall in Hall. apply Hall. exact Hy.
Qed.

Lemma sort_sorted : forall l, NoDup (ids l) -> sorted_ids (sort_by_id l).
Proof.
  induction l as [|d l IH]; intros Hnd.
  - constructor.
  - cbn [ids map] in Hnd. inversion Hnd as [|? ? Hnin Hnd']; subst.
    cbn [sort_by_id fold_right]. apply insert_sorted; [apply IH; exact Hnd'|].
    intros Hin. apply Hnin.
    apply (Permutation_in _ (Permutation_map d_id (sort_perm l))). exact Hin.
Qed.

Lemma sorted_nodup : forall l, sorted_ids l -> NoDup (ids l).
Proof.
  intros l. unfold sorted_ids. induction (ids l) as [|x r IH]; intros H; [constructor|].
  inversion H as [|? ? Hs Hall]; subst. constructor; [|apply IH; exact Hs].
  intros Hin. rewrite Forall_forall in Hall. pose proof (Hall x Hin). lia.
Qed.

(* the id-sorted arrangement of a set of fields is unique *)
Lemma sorted_perm_eq : forall l1 l2,
  sorted_ids l1 -> sorted_ids l2 -> Permutation l1 l2 -> l1 = l2.
Proof.
  unfold sorted_ids. induction l1 as [|a l1 IH]; intros l2 H1 H2 Hp.
  - apply Permutation_nil in Hp. subst. reflexivity.
  - destruct l2 as [|b l2]; [apply Permutation_sym, Permutation_nil in Hp; discriminate Hp|].
    cbn [ids map] in H1, H2.
    inversion H1 as [|? ? H1' A1]; subst. inversion H2 as [|? ? H2' A2]; subst.
    rewrite Forall_forall in A1, A2.
    assert (Hab : a = b).
    { assert (Ha : In a (b :: l2)) by (apply (Permutation_in _ Hp); left; reflexivity).
      assert (Hb : In b (a :: l1)) by (apply (Permutation_in _ (Permutation_sym Hp)); left; reflexivity).
      destruct Ha as [Ha|Ha]; [symmetry; exact Ha|].
      destruct Hb as [Hb|Hb]; [exact Hb|].
      pose proof (A2 _ (in_map d_id _ _ Ha)). pose proof (A1 _ (in_map d_id _ _ Hb)). lia. }
    subst b. f_equal. apply IH; [exact H1'|exact H2'|].
    apply Permutation_cons_inv with a. exact Hp.
Qed.

Lemma sort_unique : forall l target,
  sorted_ids target -> Permutation target l -> sort_by_id l = target.
Proof.
  intros l target Hs Hp. apply sorted_perm_eq.
  - apply sort_sorted. apply (Permutation_NoDup (Permutation_map d_id Hp)).
    apply sorted_nodup. exact Hs.
  - exact Hs.
  - eapply Permutation_trans; [apply sort_perm|apply Permutation_sym; exact Hp].
Qed.

(* the sort only looks at the ids *)
Lemma insert_map : forall (f : dfield -> dfield) d l,
  (forall x, d_id (f x) = d_id x) ->
  insert_by_id (f d) (map f l) = map f (insert_by_id d l).
Proof.
  intros f d l Hf. induction l as [|x r IH]; [reflexivity|].
  cbn [map insert_by_id]. rewrite !Hf. destruct (d_id d <? d_id x); [reflexivity|].
  cbn [map]. rewrite IH. reflexivity.
Qed.

Lemma sort_map : forall (f : dfield -> dfield) l,
  (forall x, d_id (f x) = d_id x) -> sort_by_id (map f l) = map f (sort_by_id l).
Proof.
  intros f l Hf. induction l as [|d l IH]; [reflexivity|].
  cbn [map sort_by_id fold_right]. fold (sort_by_id (map f l)). fold (sort_by_id l).
  rewrite IH. apply insert_map. exact Hf.
Qed.

(* ------------------------------------------------------------------ *)
(* A.3  whole-struct resolution                                         *)
(* ------------------------------------------------------------------ *)

Lemma resolve_fields_eq : forall gs,
  resolve_fields gs = pres_map sort_by_id (resolve_loop (gs_fields gs) O [] []).
Proof. intros gs. unfold resolve_fields. destruct (resolve_loop (gs_fields gs) 0 [] []); reflexivity. Qed.

(* A3: every field resolves on its own and the ids are distinct *)
Theorem resolve_fields_complete : forall gs rs,
  fields_resolve O (gs_fields gs) rs -> NoDup (ids (somes rs)) ->
  resolve_fields gs = ROk (sort_by_id (somes rs)).
Proof.
  intros gs rs Hfr Hnd. rewrite resolve_fields_eq.
  rewrite (resolve_loop_ok _ _ _ Hfr [] Hnd); [reflexivity|]. intros x _ [].
Qed.

Theorem resolve_fields_iff : forall gs fs,
  resolve_fields gs = ROk fs <->
  exists rs, fields_resolve O (gs_fields gs) rs /\ NoDup (ids (somes rs)) /\ fs = sort_by_id (somes rs).
Proof.
  intros gs fs. split.
  - intros H. rewrite resolve_fields_eq in H.
    destruct (resolve_loop (gs_fields gs) 0 [] []) as [l|] eqn:E; [|discriminate H].
    injection H as <-. destruct (resolve_loop_inv _ _ _ _ E) as (rs & Hfr & -> & Hnd & _).
    exists rs. auto.
  - intros (rs & Hfr & Hnd & ->). apply resolve_fields_complete; assumption.
Qed.

(* A1: the result is sorted by id, strictly *)
Theorem resolve_fields_sorted : forall gs fs,
  resolve_fields gs = ROk fs -> StronglySorted N.lt (map d_id fs).
Proof.
  intros gs fs H. apply resolve_fields_iff in H. destruct H as (rs & _ & Hnd & ->).
  apply sort_sorted. exact Hnd.
Qed.

Corollary resolve_fields_nodup : forall gs fs,
  resolve_fields gs = ROk fs -> NoDup (map d_id fs).
Proof. intros gs fs H. apply sorted_nodup. exact (resolve_fields_sorted gs fs H). Qed.

Corollary resolve_fields_ids_lt : forall gs fs i j di dj,
  resolve_fields gs = ROk fs -> nth_error fs i = Some di -> nth_error fs j = Some dj ->
  (i < j)%nat -> d_id di < d_id dj.
Proof.
  intros gs fs i j di dj H. pose proof (resolve_fields_sorted gs fs H) as Hs. clear H.
  revert i j di dj. induction fs as [|x fs IH]; intros i j di dj Hi Hj Hlt.
  - destruct i; discriminate Hi.
  - cbn [map] in Hs. inversion Hs as [|? ? Hs' Hall]; subst.
    destruct j as [|j]; [lia|]. cbn [nth_error] in Hj. destruct i as [|i].
    + injection Hi as ->. rewrite Forall_forall in Hall. apply Hall.
      apply in_map. eapply nth_error_In. exact Hj.
    + cbn [nth_error] in Hi. apply (IH Hs' i j); [assumption|assumption|lia].
Qed.

(* any id-sorted arrangement of the individually resolved fields is the result *)
Theorem resolve_fields_schema : forall gs rs target,
  fields_resolve O (gs_fields gs) rs ->
  StronglySorted N.lt (map d_id target) -> Permutation target (somes rs) ->
  resolve_fields gs = ROk target.
Proof.
  intros gs rs target Hfr Hs Hp.
  rewrite (resolve_fields_complete gs rs Hfr).
  - f_equal. apply sort_unique; assumption.
  - apply (Permutation_NoDup (Permutation_map d_id Hp)). apply sorted_nodup. exact Hs.
Qed.

(* ---- A2: what is in the result ---- *)

Lemma fields_resolve_nth : forall idx fs rs,
  fields_resolve idx fs rs ->
  forall d, In d (somes rs) <->
            exists k gf, nth_error fs k = Some gf /\ resolve_one gf (idx + k) [] = ROk (Some d).
Proof.
  induction 1 as [i|i gf r fs rs Hr Hfs IH]; intros d.
  - cbn. split; [intros []|]. intros (k & gf & Hk & _). destruct k; discriminate Hk.
  - split.
    + intros Hin. destruct r as [d0|]; cbn [somes] in Hin.
      * destruct Hin as [<-|Hin].
        -- exists O, gf. rewrite PeanoNat.Nat.add_0_r. auto.
        -- apply IH in Hin. destruct Hin as (k & gf' & Hk & Hr').
           exists (S k), gf'. rewrite PeanoNat.Nat.add_succ_r. auto.
      * apply IH in Hin. destruct Hin as (k & gf' & Hk & Hr').
        exists (S k), gf'. rewrite PeanoNat.Nat.add_succ_r. auto.
    + intros (k & gf' & Hk & Hr'). destruct k as [|k].
      * injection Hk as <-. rewrite PeanoNat.Nat.add_0_r in Hr'. rewrite Hr in Hr'. injection Hr' as ->.
        left. reflexivity.
      * cbn [nth_error] in Hk. rewrite PeanoNat.Nat.add_succ_r in Hr'.
        assert (Hin : In d (somes rs)) by (apply IH; exists k, gf'; auto).
        destruct r; [right; exact Hin|exact Hin].
Qed.

(* the result consists exactly of the resolved fields that are tagged, exported
   and not embedded; its d_index is the position in the Go struct *)
Theorem resolve_fields_members : forall gs fs,
  resolve_fields gs = ROk fs ->
  forall d, In d fs <->
            exists gf, nth_error (gs_fields gs) (d_index d) = Some gf /\ ignored gf = false /\
                       resolve_one gf (d_index d) [] = ROk (Some d).
Proof.
  intros gs fs H d. apply resolve_fields_iff in H. destruct H as (rs & Hfr & _ & ->).
  pose proof (fields_resolve_nth _ _ _ Hfr d) as Hn. cbn [Nat.add] in Hn.
  split.
  - intros Hin. apply (Permutation_in _ (sort_perm _)) in Hin. apply Hn in Hin.
    destruct Hin as (k & gf & Hk & Hr). destruct (resolve_one_some _ _ _ _ Hr) as (Hi & _ & Hx & _).
    exists gf. rewrite Hx. auto.
  - intros (gf & Hk & _ & Hr). apply (Permutation_in _ (Permutation_sym (sort_perm _))).
    apply Hn. exists (d_index d), gf. auto.
Qed.

(* ignored fields contribute nothing: all of them resolve to nothing *)
Corollary resolve_fields_all_ignored : forall gs,
  Forall (fun gf => ignored gf = true) (gs_fields gs) -> resolve_fields gs = ROk [].
Proof.
  intros gs H. rewrite resolve_fields_eq.
  assert (E : forall fs idx, Forall (fun gf => ignored gf = true) fs -> resolve_loop fs idx [] [] = ROk []).
  { induction fs as [|gf fs IH]; intros idx Hf; [reflexivity|].
    inversion Hf; subst. rewrite resolve_loop_cons, ignored_resolve by assumption. apply IH. assumption. }
  rewrite E by exact H. reflexivity.
Qed.

(* the schema without the Go field indices *)
Definition erase_index (d : dfield) : dfield := set_index O d.
Definition schema_of (r : pres (list dfield)) : pres (list dfield) := pres_map (map erase_index) r.

(* the index-free loop *)
Fixpoint loop0 (fs : list gofield) (seen : list N) : pres (list dfield) :=
  match fs with
  | [] => ROk []
  | gf :: r =>
      match resolve_one gf O seen with
      | RErr => RErr
      | ROk None => loop0 r seen
      | ROk (Some d) => pres_map (cons d) (loop0 r (d_id d :: seen))
      end
  end.

Lemma loop0_spec : forall fs idx seen,
  pres_map (map erase_index) (resolve_loop fs idx seen []) = loop0 fs seen.
Proof.
  induction fs as [|gf fs IH]; intros idx seen; [reflexivity|].
  rewrite resolve_loop_cons. cbn [loop0]. rewrite (resolve_one_index gf O idx seen).
  destruct (resolve_one gf 0 seen) as [[d|]|] eqn:E; cbn [pres_map option_map].
  - change (d_id (set_index idx d)) with (d_id d). rewrite <- (IH (S idx)).
    destruct (resolve_loop fs (S idx) (d_id d :: seen) []) as [l|]; [|reflexivity].
    cbn [pres_map map]. f_equal. f_equal.
    destruct (resolve_one_some _ _ _ _ E) as (_ & _ & Hx & _).
    destruct d as [a b c e f]. cbn in Hx. subst f. reflexivity.
  - apply IH.
  - reflexivity.
Qed.

Lemma loop0_delete : forall fs1 gf fs2 seen,
  ignored gf = true -> loop0 (fs1 ++ gf :: fs2) seen = loop0 (fs1 ++ fs2) seen.
Proof.
  induction fs1 as [|g fs1 IH]; intros gf fs2 seen Hi; cbn [app loop0].
  - rewrite ignored_resolve by exact Hi. reflexivity.
  - destruct (resolve_one g 0 seen) as [[d|]|]; [|apply IH; exact Hi|reflexivity].
    rewrite IH by exact Hi. reflexivity.
Qed.

Lemma schema_of_fields : forall gs,
  schema_of (resolve_fields gs) = pres_map sort_by_id (loop0 (gs_fields gs) []).
Proof.
  intros gs. rewrite resolve_fields_eq. rewrite <- (loop0_spec _ O []). unfold schema_of.
  destruct (resolve_loop (gs_fields gs) 0 [] []) as [l|]; [|reflexivity].
  cbn [pres_map]. f_equal. symmetry. apply sort_map. reflexivity.
Qed.

(* A2: deleting an ignored field -- unexported, embedded, or without a frugal /
   thrift tag -- gives the same schema; only the Go field indices move *)
Theorem resolve_fields_ignored : forall gs gs' fs1 gf fs2,
  gs_fields gs = fs1 ++ gf :: fs2 -> gs_fields gs' = fs1 ++ fs2 -> ignored gf = true ->
  schema_of (resolve_fields gs) = schema_of (resolve_fields gs').
Proof.
  intros gs gs' fs1 gf fs2 H1 H2 Hi. rewrite !schema_of_fields, H1, H2.
  rewrite loop0_delete by exact Hi. reflexivity.
Qed.

(* ... and what an ignored field looks like (its type, its tag) is irrelevant,
   indices included *)
Theorem resolve_fields_ignored_replace : forall gs gs' fs1 gf gf' fs2,
  gs_fields gs = fs1 ++ gf :: fs2 -> gs_fields gs' = fs1 ++ gf' :: fs2 ->
  ignored gf = true -> ignored gf' = true ->
  resolve_fields gs = resolve_fields gs'.
Proof.
  intros gs gs' fs1 gf gf' fs2 H1 H2 Hi Hi'. rewrite !resolve_fields_eq, H1, H2. f_equal.
  assert (E : forall seen idx, resolve_loop (fs1 ++ gf :: fs2) idx seen []
                               = resolve_loop (fs1 ++ gf' :: fs2) idx seen []); [|apply E].
  clear H1 H2. induction fs1 as [|g fs1 IH]; intros seen idx; cbn [app].
  - rewrite !resolve_loop_cons, !ignored_resolve by assumption. reflexivity.
  - rewrite !resolve_loop_cons. destruct (resolve_one g idx seen) as [[d|]|]; [|apply IH|reflexivity].
    rewrite IH. reflexivity.
Qed.

(* ------------------------------------------------------------------ *)
(* A.4  a struct printed from a schema resolves to that schema          *)
(* ------------------------------------------------------------------ *)

(* the schema of one field *)
Record spec := mkSpec { sp_id : N; sp_ty : sty; sp_req : req; sp_nocopy : bool }.

Definition spec_ok (sp : spec) : Prop :=
  sty_ok true (sp_ty sp) = true /\ sp_id sp < 65536 /\
  field_ptr_ok (sp_ty sp) (sp_req sp) = true /\
  (sp_nocopy sp = true -> is_stringlike (sp_ty sp) = true).

Definition field_of (sp : spec) (idx : nat) : dfield :=
  mkDField (sp_id sp) (dt_of (sp_ty sp)) (sp_req sp) (sp_nocopy sp) idx.

(* the three carriers of TagsProofs: frugal:"..." (anything may follow),
   thrift:"name,...", thrift:"anything" frugal:"..."; every part may be padded
   with white space and the annotation may be any printing of the type *)
Inductive tag_carries (sp : spec) : str -> Prop :=
| TC_frugal : forall s p ps b r,
    prints (sp_ty sp) s -> field_parts (sp_id sp) (sp_req sp) s (sp_nocopy sp) p ps -> blanks b ->
    tag_carries sp (b ++ tag_entry s_frugal (join_comma p ps) ++ r)
| TC_thrift : forall s p ps b b' name,
    prints (sp_ty sp) s -> field_parts (sp_id sp) (sp_req sp) s (sp_nocopy sp) p ps ->
    blanks b -> blanks b' -> Forall plain name ->
    tag_carries sp (b ++ tag_entry s_thrift (join_comma name (p :: ps)) ++ b')
| TC_thrift_frugal : forall s p ps b b' v1 r,
    prints (sp_ty sp) s -> field_parts (sp_id sp) (sp_req sp) s (sp_nocopy sp) p ps ->
    blanks b -> blanks b' -> no_quote v1 ->
    tag_carries sp (b ++ tag_entry s_thrift v1 ++ b' ++ tag_entry s_frugal (join_comma p ps) ++ r).

Definition carries (gf : gofield) (sp : spec) : Prop :=
  gf_anonymous gf = false /\ gf_exported gf = true /\ gf_type gf = go_of (sp_ty sp) /\
  tag_carries sp (gf_tag gf).

Lemma carries_resolve : forall gf sp idx,
  spec_ok sp -> carries gf sp -> resolve_one gf idx [] = ROk (Some (field_of sp idx)).
Proof.
  intros gf sp idx (Hok & Hn & Hptr & Hnc) (Ha & He & Hty & Htag). unfold field_of.
  remember (gf_tag gf) as tg eqn:Et.
  destruct Htag as [s p ps b r Hp Hparts Hb|s p ps b b' name Hp Hparts Hb Hb' Hname
                   |s p ps b b' v1 r Hp Hparts Hb Hb' Hv1].
  - apply (resolve_frugal (sp_ty sp) s _ _ _ p ps gf idx [] b r); try assumption; try reflexivity; symmetry; exact Et.
  - apply (resolve_thrift (sp_ty sp) s _ _ _ p ps gf idx [] b b' name); try assumption; try reflexivity; symmetry; exact Et.
  - apply (resolve_thrift_frugal (sp_ty sp) s _ _ _ p ps gf idx [] b b' v1 r); try assumption; try reflexivity; symmetry; exact Et.
Qed.

Lemma carries_not_ignored : forall gf sp, spec_ok sp -> carries gf sp -> ignored gf = false.
Proof.
  intros gf sp Hok Hc. pose proof (carries_resolve gf sp O Hok Hc) as H.
  apply resolve_one_some in H. tauto.
Qed.

(* a field of the Go struct against the schema: None = ignored *)
Definition field_matches (gf : gofield) (o : option spec) : Prop :=
  match o with
  | None => ignored gf = true
  | Some sp => spec_ok sp /\ carries gf sp
  end.

Fixpoint fields_of (idx : nat) (os : list (option spec)) : list dfield :=
  match os with
  | [] => []
  | None :: r => fields_of (S idx) r
  | Some sp :: r => field_of sp idx :: fields_of (S idx) r
  end.

Lemma fields_of_ids : forall os idx, ids (fields_of idx os) = map sp_id (somes os).
Proof.
  induction os as [|[sp|] os IH]; intros idx; cbn [fields_of somes ids map]; [reflexivity| |apply IH].
  f_equal. apply IH.
Qed.

Lemma matches_resolve : forall fs os,
  Forall2 field_matches fs os ->
  forall idx, exists rs, fields_resolve idx fs rs /\ somes rs = fields_of idx os.
Proof.
  induction 1 as [|gf o fs os Hm Hfs IH]; intros idx.
  - exists []. split; [constructor|reflexivity].
  - destruct (IH (S idx)) as (rs & Hfr & Hs). destruct o as [sp|]; cbn [field_matches] in Hm.
    + destruct Hm as [Hok Hc]. exists (Some (field_of sp idx) :: rs). split.
      * constructor; [apply carries_resolve; assumption|exact Hfr].
      * cbn [somes fields_of]. rewrite Hs. reflexivity.
    + exists (None :: rs). split; [constructor; [apply ignored_resolve; exact Hm|exact Hfr]|exact Hs].
Qed.

(* C12 for a whole struct: the fields carry, each in its own spelling and
   carrier, the field schemas [os] (None: an ignored field); the ids are
   distinct.  Then the struct resolves to exactly these fields, sorted by id *)
Theorem struct_of_schema : forall gs os,
  Forall2 field_matches (gs_fields gs) os -> NoDup (map sp_id (somes os)) ->
  resolve_fields gs = ROk (sort_by_id (fields_of O os)).
Proof.
  intros gs os Hm Hnd. destruct (matches_resolve _ _ Hm O) as (rs & Hfr & Hs).
  rewrite <- Hs. apply resolve_fields_complete; [exact Hfr|]. rewrite Hs, fields_of_ids. exact Hnd.
Qed.

Corollary struct_of_schema_sorted : forall gs os target,
  Forall2 field_matches (gs_fields gs) os ->
  StronglySorted N.lt (map d_id target) -> Permutation target (fields_of O os) ->
  resolve_fields gs = ROk target.
Proof.
  intros gs os target Hm Hs Hp. destruct (matches_resolve _ _ Hm O) as (rs & Hfr & Hrs).
  apply (resolve_fields_schema gs rs); [exact Hfr|exact Hs|rewrite Hrs; exact Hp].
Qed.

Lemma resolve_loop_ext : forall fs1 fs2,
  Forall2 (fun a b => forall idx seen, resolve_one a idx seen = resolve_one b idx seen) fs1 fs2 ->
  forall idx seen acc, resolve_loop fs1 idx seen acc = resolve_loop fs2 idx seen acc.
Proof.
  induction 1 as [|a b fs1 fs2 Hab Hfs IH]; intros idx seen acc; [reflexivity|].
  cbn [resolve_loop]. rewrite Hab. destruct (resolve_one b idx seen) as [[d|]|]; try reflexivity; apply IH.
Qed.

Lemma matches_same : forall gf1 gf2 o,
  field_matches gf1 o -> field_matches gf2 o ->
  forall idx seen, resolve_one gf1 idx seen = resolve_one gf2 idx seen.
Proof.
  intros gf1 gf2 [sp|] H1 H2 idx seen; cbn [field_matches] in H1, H2.
  - destruct H1 as [Hok H1]. destruct H2 as [_ H2].
    rewrite (resolve_one_seen gf1), (resolve_one_seen gf2).
    rewrite (carries_resolve gf1 sp idx Hok H1), (carries_resolve gf2 sp idx Hok H2). reflexivity.
  - rewrite !ignored_resolve by assumption. reflexivity.
Qed.

(* equivalent spellings, struct level: two structs whose corresponding fields
   carry the same field schema (hence have the same Go types) -- in whatever
   carrier, white space, keyword, qualification -- resolve alike; this includes
   the rejection when an id occurs twice *)
Theorem spellings_struct : forall gs1 gs2 os,
  Forall2 field_matches (gs_fields gs1) os -> Forall2 field_matches (gs_fields gs2) os ->
  resolve_fields gs1 = resolve_fields gs2.
Proof.
  intros gs1 gs2 os H1 H2. rewrite !resolve_fields_eq. f_equal. apply resolve_loop_ext.
  revert H1 H2. generalize (gs_fields gs1) as fs1, (gs_fields gs2) as fs2.
  intros fs1 fs2 H1. revert fs2. induction H1 as [|gf1 o fs1 os Hm1 _ IH]; intros fs2 H2.
  - inversion H2; subst. constructor.
  - inversion H2 as [|gf2 ? fs2' ? Hm2 H2']; subst. constructor; [|apply IH; exact H2'].
    apply (matches_same gf1 gf2 o); assumption.
Qed.

(* ---- omitted requiredness / annotation ---- *)

Lemma field_ptr_ok_dt' : forall t rq, field_ptr_okd (dt_of' t) rq = field_ptr_ok t rq.
Proof. intros t rq. destruct t; try reflexivity. destruct t; reflexivity. Qed.

Lemma resolve_noannot : forall t n rq gf idx seen ft1,
  sty_ok true t = true -> no_slice t = true -> n < 65536 -> field_ptr_ok t rq = true ->
  gf_anonymous gf = false -> gf_exported gf = true -> gf_type gf = go_of t ->
  memN n seen = false ->
  lookup_struct_tag (gf_tag gf) = Some (print_nat n :: ft1) ->
  ((ft1 = [] /\ rq = RDefault) \/ ft1 = [req_name rq] \/ ft1 = [req_name rq; []]) ->
  resolve_one gf idx seen = ROk (Some (mkDField n (dt_of' t) rq false idx)).
Proof.
  intros t n rq gf idx seen ft1 Hok Hns Hn Hptr Ha He Hty Hmem Hl Hft.
  rewrite resolve_one_eq, Ha, He, Hl, (parse_uint16_print n Hn), Hmem. cbn [orb negb]. cbv iota.
  unfold resolve_body.
  assert (Hb : match req_of_name (req_name rq) with
               | None => RErr
               | Some rx =>
                   match parse_type_top (gf_type gf) [] with
                   | RErr => RErr
                   | ROk pt => if negb (field_ptr_okd pt rx) then RErr
                               else match opts_ok pt [] false with
                                    | None => RErr
                                    | Some nc => ROk (Some (mkDField n pt rx nc idx))
                                    end
                   end
               end = ROk (Some (mkDField n (dt_of' t) rq false idx))).
  { rewrite req_of_name_name, Hty, (parse_noannot_top t Hok Hns), field_ptr_ok_dt', Hptr. reflexivity. }
  destruct Hft as [[-> ->]|[->| ->]]; exact Hb.
Qed.

(* frugal:"<id>": requiredness default, the Go type decides the schema *)
Theorem resolve_frugal_id_only : forall t n pid gf idx seen b r,
  sty_ok true t = true -> no_slice t = true -> n < 65536 -> field_ptr_ok t RDefault = true ->
  gf_anonymous gf = false -> gf_exported gf = true -> gf_type gf = go_of t ->
  memN n seen = false -> padded (print_nat n) pid -> blanks b ->
  gf_tag gf = b ++ tag_entry s_frugal pid ++ r ->
  resolve_one gf idx seen = ROk (Some (mkDField n (dt_of' t) RDefault false idx)).
Proof.
  intros t n pid gf idx seen b r Hok Hns Hn Hptr Ha He Hty Hmem Hpid Hb Htag.
  assert (Hpl : Forall plain pid) by (eapply padded_plain; [exact Hpid|apply print_nat_plain]).
  apply (resolve_noannot t n RDefault gf idx seen []); try assumption; [|left; auto].
  rewrite Htag, lookup_frugal_first; [|exact Hb|apply plain_no_quote; exact Hpl].
  rewrite split_comma_last by (apply plain_no_comma; exact Hpl). cbn [rev app map].
  rewrite (trim_padded _ _ Hpid) by apply print_nat_tight. reflexivity.
Qed.

(* frugal:"<id>,<req>": the annotation omitted *)
Theorem resolve_frugal_id_req : forall t n rq pid prq gf idx seen b r,
  sty_ok true t = true -> no_slice t = true -> n < 65536 -> field_ptr_ok t rq = true ->
  gf_anonymous gf = false -> gf_exported gf = true -> gf_type gf = go_of t ->
  memN n seen = false -> padded (print_nat n) pid -> padded (req_name rq) prq -> blanks b ->
  gf_tag gf = b ++ tag_entry s_frugal (join_comma pid [prq]) ++ r ->
  resolve_one gf idx seen = ROk (Some (mkDField n (dt_of' t) rq false idx)).
Proof.
  intros t n rq pid prq gf idx seen b r Hok Hns Hn Hptr Ha He Hty Hmem Hpid Hprq Hb Htag.
  assert (Hpl : Forall plain pid) by (eapply padded_plain; [exact Hpid|apply print_nat_plain]).
  assert (Hpl2 : Forall plain prq) by (eapply padded_plain; [exact Hprq|apply req_name_plain]).
  apply (resolve_noannot t n rq gf idx seen [req_name rq]); try assumption; [|right; left; auto].
  rewrite Htag, lookup_frugal_first; [|exact Hb|].
  - rewrite split_join; [|apply plain_no_comma; exact Hpl|constructor; [apply plain_no_comma; exact Hpl2|constructor]].
    cbn [map]. rewrite (trim_padded _ _ Hpid) by apply print_nat_tight.
    rewrite (trim_padded _ _ Hprq) by apply req_name_tight. reflexivity.
  - apply no_quote_join; [apply plain_no_quote; exact Hpl|constructor; [apply plain_no_quote; exact Hpl2|constructor]].
Qed.

(* ------------------------------------------------------------------ *)
(* B.1  the parse result always has the shape of the Go type            *)
(* ------------------------------------------------------------------ *)

Definition is_cont (d : dtype) : bool :=
  match dt_tag d with DMap | DSet | DList => true | _ => false end.

Definition go_is_ptr (vt : gotype) : bool := match vt with GPtr _ => true | _ => false end.

(* what parse_type can return on a Go type, whatever the annotation says *)
Fixpoint go_shape (vt : gotype) (d : dtype) {struct vt} : Prop :=
  match vt with
  | GPtr e => exists d', d = DT DPointer None (Some d') 0 /\ go_shape e d' /\ is_cont d' = false /\
                         go_is_ptr e = false
  | GSlice e =>
      match e with
      | GUint8 => d = DT DBinary None None 0
      | _ => exists d' (b : bool), d = DT (if b then DSet else DList) None (Some d') 0 /\
                                   go_shape e d' /\ is_value_type d' = true
      end
  | GMap k v => exists kd vd, d = DT DMap (Some kd) (Some vd) 0 /\ go_shape k kd /\ go_shape v vd /\
                              is_key_type kd = true /\ is_value_type vd = true
  | GUnsup _ | GUint8 => False
  | _ => d = DT (tag0_of vt) None None (sid_of vt) \/ d = DT (tag1_of vt) None None (sid_of vt)
  end.

Lemma uint8_dec : forall e : gotype, {e = GUint8} + {e <> GUint8}.
Proof. intros e. destruct e; (left; reflexivity) || (right; discriminate). Qed.

Lemma go_shape_slice : forall e d, e <> GUint8 ->
  go_shape (GSlice e) d =
  exists d' (b : bool), d = DT (if b then DSet else DList) None (Some d') 0 /\
                        go_shape e d' /\ is_value_type d' = true.
Proof. intros e d H. destruct e; try congruence; reflexivity. Qed.

Lemma parse_slice_noannot : forall e def allow,
  e <> GUint8 -> parse_type (GSlice e) false def allow = RErr.
Proof. intros e def allow H. destruct e; try congruence; reflexivity. Qed.

Lemma parse_ptr_noallow : forall e annot def, parse_type (GPtr e) annot def false = RErr.
Proof. reflexivity. Qed.

Lemma parse_ptr_eq : forall e annot def,
  parse_type (GPtr e) annot def true =
  match parse_type e annot def false with
  | ROk (d, rest) => if is_cont d then RErr else ROk (DT DPointer None (Some d) 0, rest)
  | RErr => RErr
  end.
Proof.
  intros e annot def. cbn [parse_type negb]. cbv iota.
  destruct (parse_type e annot def false) as [[d rest]|]; [|reflexivity].
  unfold is_cont. destruct (dt_tag d); reflexivity.
Qed.

Definition map_head (annot : bool) (def : str) : pres str :=
  if annot then
    let '(tok, rest) := read_token def in
    match tok with
    | [] => RErr
    | _ => if is_keyword DMap tok then ROk rest else RErr
    end
  else ROk def.

Lemma parse_map_eq : forall kt et annot def allow,
  parse_type (GMap kt et) annot def allow =
  match map_head annot def with
  | RErr => RErr
  | ROk r0 =>
      match (if annot then expect 60 r0 else ROk r0) with
      | RErr => RErr
      | ROk r1 =>
          match parse_type kt annot r1 true with
          | RErr => RErr
          | ROk (kd, r2) =>
              if negb (is_key_type kd) then RErr
              else match (if annot then expect 58 r2 else ROk r2) with
                   | RErr => RErr
                   | ROk r3 =>
                       match parse_type et annot r3 true with
                       | RErr => RErr
                       | ROk (vd, r4) =>
                           match (if annot then expect 62 r4 else ROk r4) with
                           | RErr => RErr
                           | ROk r5 => if is_value_type vd then ROk (DT DMap (Some kd) (Some vd) 0, r5) else RErr
                           end
                       end
                   end
          end
      end
  end.
Proof. reflexivity. Qed.

Ltac leaf_shape H def :=
  match type of H with
  | parse_type _ ?annot _ _ = _ =>
      destruct annot;
      [ rewrite parse_leaf_eq in H by reflexivity; unfold leaf_parse in H;
        destruct (read_token def) as [tok r]; destruct tok as [|c w]; [discriminate H|];
        destruct (is_keyword _ (c :: w)); [injection H as <- _; left; reflexivity|];
        destruct (negb (is_ident0 c)); [discriminate H|];
        destruct (match_struct _ (c :: w) r) as [[[|] r']|]; try discriminate H;
        injection H as <- _; right; reflexivity
      | rewrite parse_leaf_noannot in H by reflexivity; injection H as <- _; left; reflexivity ]
  end.

(* C13: an annotation cannot contradict the Go type -- whatever is accepted has
   the kind structure of the Go type; only list/set, i64/enum and the element
   types are the annotation's to choose *)
Theorem parse_type_shape : forall vt annot def allow d rest,
  parse_type vt annot def allow = ROk (d, rest) -> go_shape vt d.
Proof.
  induction vt as [ | | | | |name| | |e IHe|k IHk v IHv|e IHe|sid name| |kind];
    intros annot def allow d rest H; cbn [go_shape].
  1-8: leaf_shape H def.
  - (* slice *)
    destruct (uint8_dec e) as [->|Hne].
    + destruct annot.
      * rewrite parse_binary_eq in H. unfold binary_parse in H.
        destruct (read_token def) as [tok r]. destruct tok as [|c w]; [discriminate H|].
        destruct (is_keyword DBinary (c :: w)); [|discriminate H]. injection H as <- _. reflexivity.
      * cbn in H. injection H as <- _. reflexivity.
    + change (go_shape (GSlice e) d). rewrite go_shape_slice by exact Hne. destruct annot.
      * rewrite parse_slice_eq in H by exact Hne. unfold slice_parse in H.
        destruct (read_token def) as [tok r0].
        destruct (negb (str_eqb tok s_set || str_eqb tok s_list)); [discriminate H|].
        destruct (expect 60 r0) as [r1|]; [|discriminate H].
        destruct (parse_type e true r1 true) as [[d' r2]|] eqn:E; [|discriminate H].
        destruct (expect 62 r2) as [r3|]; [|discriminate H].
        destruct (is_value_type d') eqn:Ev; [|discriminate H].
        injection H as <- _. exists d', (str_eqb tok s_set).
        split; [reflexivity|]. split; [eapply IHe; exact E|exact Ev].
      * rewrite parse_slice_noannot in H by exact Hne. discriminate H.
  - (* map *)
    rewrite parse_map_eq in H.
    destruct (map_head annot def) as [r0|]; [|discriminate H].
    destruct (if annot then expect 60 r0 else ROk r0) as [r1|]; [|discriminate H].
    destruct (parse_type k annot r1 true) as [[kd r2]|] eqn:Ek; [|discriminate H].
    destruct (is_key_type kd) eqn:Ekt; [|discriminate H]. cbn [negb] in H. cbv iota in H.
    destruct (if annot then expect 58 r2 else ROk r2) as [r3|]; [|discriminate H].
    destruct (parse_type v annot r3 true) as [[vd r4]|] eqn:Ev; [|discriminate H].
    destruct (if annot then expect 62 r4 else ROk r4) as [r5|]; [|discriminate H].
    destruct (is_value_type vd) eqn:Evt; [|discriminate H].
    injection H as <- _. exists kd, vd. split; [reflexivity|].
    split; [eapply IHk; exact Ek|]. split; [eapply IHv; exact Ev|]. split; assumption.
  - (* pointer *)
    destruct allow; [|discriminate H]. rewrite parse_ptr_eq in H.
    destruct (parse_type e annot def false) as [[d' r]|] eqn:E; [|discriminate H].
    destruct (is_cont d') eqn:Ec; [discriminate H|]. injection H as <- _.
    exists d'. split; [reflexivity|]. split; [eapply IHe; exact E|]. split; [exact Ec|].
    destruct e; try reflexivity. discriminate E.
  - leaf_shape H def.
  - discriminate H.
  - discriminate H.
Qed.

Corollary parse_type_top_shape : forall vt def d, parse_type_top vt def = ROk d -> go_shape vt d.
Proof.
  intros vt def d H. unfold parse_type_top in H.
  destruct (parse_type vt _ def true) as [[d' rest]|] eqn:E; [|discriminate H].
  destruct (fst (read_token rest)); [|discriminate H]. injection H as <-.
  eapply parse_type_shape. exact E.
Qed.

(* ---- consequences of the shape ---- *)

Definition go_is_struct (vt : gotype) : bool := match vt with GStruct _ _ => true | _ => false end.
Definition go_is_container (vt : gotype) : bool :=
  match vt with GSlice GUint8 => false | GSlice _ | GMap _ _ => true | _ => false end.
(* Go types that may be map keys *)
Definition go_key_ok (vt : gotype) : bool :=
  match vt with
  | GBool | GInt | GInt8 | GInt16 | GInt32 | GInt64 _ | GFloat64 | GString => true
  | GPtr (GStruct _ _) => true
  | _ => false
  end.
(* Go types that may be list / set elements and map values *)
Definition go_value_ok (vt : gotype) : bool :=
  match vt with
  | GPtr (GStruct _ _) => true
  | GPtr _ => false
  | _ => true
  end.
(* Go types that may carry nocopy *)
Definition go_stringlike (vt : gotype) : bool :=
  match vt with
  | GString | GSlice GUint8 | GPtr GString | GPtr (GSlice GUint8) => true
  | _ => false
  end.

Lemma shape_struct : forall vt d, go_shape vt d -> dt_tag d = DStruct -> go_is_struct vt = true.
Proof.
  intros vt d H Ht. destruct vt; cbn [go_shape tag0_of tag1_of] in H; try reflexivity;
    try (destruct H as [-> | ->]; discriminate Ht); try contradiction.
  - destruct name; destruct H as [-> | ->]; discriminate Ht.
  - destruct (uint8_dec vt) as [->|Hne]; [subst d; discriminate Ht|].
    change (go_shape (GSlice vt) d) in H. rewrite go_shape_slice in H by exact Hne.
    destruct H as (d' & b & -> & _). destruct b; discriminate Ht.
  - destruct H as (kd & vd & -> & _). discriminate Ht.
  - destruct H as (d' & -> & _). discriminate Ht.
Qed.

Lemma shape_cont : forall vt d, go_shape vt d -> is_cont d = go_is_container vt.
Proof.
  intros vt d H. destruct vt; cbn [go_shape tag0_of tag1_of] in H;
    try (destruct H as [-> | ->]; reflexivity); try contradiction.
  - destruct name; destruct H as [-> | ->]; reflexivity.
  - destruct (uint8_dec vt) as [->|Hne]; [subst d; reflexivity|].
    change (go_shape (GSlice vt) d) in H. rewrite go_shape_slice in H by exact Hne.
    destruct H as (d' & b & -> & _). destruct vt; try congruence; destruct b; reflexivity.
  - destruct H as (kd & vd & -> & _). reflexivity.
  - destruct H as (d' & -> & _). reflexivity.
Qed.

Lemma shape_ptr_struct : forall e d',
  go_shape e d' -> (match d' with DT DStruct _ _ _ => true | _ => false end) = go_is_struct e.
Proof.
  intros e d' H. destruct (go_is_struct e) eqn:Es.
  - destruct e; try discriminate Es. cbn in H. destruct H as [-> | ->]; reflexivity.
  - destruct d' as [t k v s]. destruct t; try reflexivity.
    rewrite (shape_struct e _ H eq_refl) in Es. discriminate Es.
Qed.

Lemma shape_key : forall vt d, go_shape vt d -> is_key_type d = go_key_ok vt.
Proof.
  intros vt d H. destruct vt; cbn [go_shape tag0_of tag1_of] in H;
    try (destruct H as [-> | ->]; reflexivity); try contradiction.
  - destruct name; destruct H as [-> | ->]; reflexivity.
  - destruct (uint8_dec vt) as [->|Hne]; [subst d; reflexivity|].
    change (go_shape (GSlice vt) d) in H. rewrite go_shape_slice in H by exact Hne.
    destruct H as (d' & b & -> & _). destruct vt; try congruence; destruct b; reflexivity.
  - destruct H as (kd & vd & -> & _). reflexivity.
  - destruct H as (d' & -> & Hs & _). pose proof (shape_ptr_struct _ _ Hs) as Hp.
    cbn [is_key_type go_key_ok]. destruct d' as [t k v s].
    destruct vt; cbn [go_is_struct] in Hp; destruct t; try discriminate Hp; reflexivity.
Qed.

Lemma shape_value : forall vt d, go_shape vt d -> is_value_type d = go_value_ok vt.
Proof.
  intros vt d H. destruct vt; cbn [go_shape tag0_of tag1_of] in H;
    try (destruct H as [-> | ->]; reflexivity); try contradiction.
  - destruct name; destruct H as [-> | ->]; reflexivity.
  - destruct (uint8_dec vt) as [->|Hne]; [subst d; reflexivity|].
    change (go_shape (GSlice vt) d) in H. rewrite go_shape_slice in H by exact Hne.
    destruct H as (d' & b & -> & _). destruct b; reflexivity.
  - destruct H as (kd & vd & -> & _). reflexivity.
  - destruct H as (d' & -> & Hs & _). pose proof (shape_ptr_struct _ _ Hs) as Hp.
    cbn [is_value_type go_value_ok]. destruct d' as [t k v s].
    destruct vt; cbn [go_is_struct] in Hp; destruct t; try discriminate Hp; reflexivity.
Qed.

Lemma shape_wire_nonptr : forall vt d,
  go_shape vt d -> d_wire d = DString -> go_is_ptr vt = false -> vt = GString \/ vt = GSlice GUint8.
Proof.
  intros vt d H Hw Hp. destruct vt; cbn [go_shape tag0_of tag1_of] in H;
    try (destruct H as [-> | ->]; discriminate Hw); try contradiction; try discriminate Hp.
  - destruct name; destruct H as [-> | ->]; discriminate Hw.
  - left; reflexivity.
  - destruct (uint8_dec vt) as [->|Hne]; [right; reflexivity|].
    change (go_shape (GSlice vt) d) in H. rewrite go_shape_slice in H by exact Hne.
    destruct H as (d' & b & -> & _). destruct b; discriminate Hw.
  - destruct H as (kd & vd & -> & _). discriminate Hw.
Qed.

Lemma shape_wire : forall vt d, go_shape vt d -> d_wire d = DString -> go_stringlike vt = true.
Proof.
  intros vt d H Hw. destruct (go_is_ptr vt) eqn:Ep.
  - destruct vt; try discriminate Ep. cbn [go_shape] in H. destruct H as (d' & -> & Hs & _ & Hnp).
    cbn [d_wire] in Hw. destruct (shape_wire_nonptr _ _ Hs Hw Hnp) as [-> | ->]; reflexivity.
  - destruct (shape_wire_nonptr _ _ H Hw Ep) as [-> | ->]; reflexivity.
Qed.

(* ------------------------------------------------------------------ *)
(* B.2  rejected types                                                  *)
(* ------------------------------------------------------------------ *)

(* a Go kind Thrift cannot express, anywhere in the type: uint.., float32,
   array, chan, func, interface, ... (GUnsup) and a byte outside []byte *)
Fixpoint has_unsup (vt : gotype) : bool :=
  match vt with
  | GUnsup _ | GUint8 => true
  | GSlice e => match e with GUint8 => false | _ => has_unsup e end
  | GMap k v => has_unsup k || has_unsup v
  | GPtr e => has_unsup e
  | _ => false
  end.

Theorem unsupported_kind_rejected : forall vt annot def allow,
  has_unsup vt = true -> parse_type vt annot def allow = RErr.
Proof.
  induction vt as [ | | | | |name| | |e IHe|k IHk v IHv|e IHe|sid name| |kind];
    intros annot def allow H; try discriminate H; try reflexivity.
  - (* slice *)
    destruct (uint8_dec e) as [->|Hne]; [discriminate H|].
    assert (He : has_unsup e = true) by (destruct e; try congruence; exact H).
    destruct annot; [|apply parse_slice_noannot; exact Hne].
    rewrite parse_slice_eq by exact Hne. unfold slice_parse.
    destruct (read_token def) as [tok r0].
    destruct (negb (str_eqb tok s_set || str_eqb tok s_list)); [reflexivity|].
    destruct (expect 60 r0) as [r1|]; [|reflexivity]. rewrite IHe by exact He. reflexivity.
  - (* map *)
    rewrite parse_map_eq. destruct (map_head annot def) as [r0|]; [|reflexivity].
    destruct (if annot then expect 60 r0 else ROk r0) as [r1|]; [|reflexivity].
    cbn [has_unsup] in H. destruct (has_unsup k) eqn:Ek.
    + rewrite IHk by reflexivity. reflexivity.
    + cbn [orb] in H. destruct (parse_type k annot r1 true) as [[kd r2]|]; [|reflexivity].
      destruct (negb (is_key_type kd)); [reflexivity|].
      destruct (if annot then expect 58 r2 else ROk r2) as [r3|]; [|reflexivity].
      rewrite IHv by exact H. reflexivity.
  - (* pointer *)
    destruct allow; [|reflexivity]. rewrite parse_ptr_eq. cbn [has_unsup] in H.
    rewrite IHe by exact H. reflexivity.
Qed.

(* a list/set ([]T other than []byte) anywhere in the type *)
Fixpoint has_list (vt : gotype) : bool :=
  match vt with
  | GSlice e => match e with GUint8 => false | _ => true end
  | GMap k v => has_list k || has_list v
  | GPtr e => has_list e
  | _ => false
  end.

(* without annotation list and set cannot be told apart *)
Theorem bare_slice_rejected : forall vt def allow,
  has_list vt = true -> parse_type vt false def allow = RErr.
Proof.
  induction vt as [ | | | | |name| | |e IHe|k IHk v IHv|e IHe|sid name| |kind];
    intros def allow H; try discriminate H; try reflexivity.
  - destruct (uint8_dec e) as [->|Hne]; [discriminate H|]. apply parse_slice_noannot. exact Hne.
  - rewrite parse_map_eq. cbn [map_head]. cbn [has_list] in H. destruct (has_list k) eqn:Ek.
    + rewrite IHk by reflexivity. reflexivity.
    + cbn [orb] in H. destruct (parse_type k false def true) as [[kd r2]|]; [|reflexivity].
      destruct (negb (is_key_type kd)); [reflexivity|]. rewrite IHv by exact H. reflexivity.
  - destruct allow; [|reflexivity]. rewrite parse_ptr_eq. cbn [has_list] in H.
    rewrite IHe by exact H. reflexivity.
Qed.

Corollary bare_slice_top_rejected : forall vt, has_list vt = true -> parse_type_top vt [] = RErr.
Proof. intros vt H. unfold parse_type_top. rewrite bare_slice_rejected by exact H. reflexivity. Qed.

(* pointers *)
Theorem ptr_ptr_rejected : forall e annot def allow,
  parse_type (GPtr (GPtr e)) annot def allow = RErr.
Proof. intros e annot def allow. destruct allow; reflexivity. Qed.

Theorem ptr_container_rejected : forall e annot def allow,
  go_is_container e = true -> parse_type (GPtr e) annot def allow = RErr.
Proof.
  intros e annot def allow H. destruct allow; [|reflexivity]. rewrite parse_ptr_eq.
  destruct (parse_type e annot def false) as [[d r]|] eqn:E; [|reflexivity].
  apply parse_type_shape in E. rewrite (shape_cont _ _ E), H. reflexivity.
Qed.

(* a pointer is only allowed at the top of a field, as a map key or value and
   as a list / set element *)
Theorem ptr_nested_rejected : forall e annot def, parse_type (GPtr e) annot def false = RErr.
Proof. reflexivity. Qed.

(* pointers to anything but structs as list / set elements and map values *)
Theorem ptr_elem_rejected : forall e annot def allow,
  go_value_ok e = false -> parse_type (GSlice e) annot def allow = RErr.
Proof.
  intros e annot def allow H.
  assert (Hne : e <> GUint8) by (intros ->; discriminate H).
  destruct annot; [|apply parse_slice_noannot; exact Hne].
  rewrite parse_slice_eq by exact Hne. unfold slice_parse.
  destruct (read_token def) as [tok r0].
  destruct (negb (str_eqb tok s_set || str_eqb tok s_list)); [reflexivity|].
  destruct (expect 60 r0) as [r1|]; [|reflexivity].
  destruct (parse_type e true r1 true) as [[d r2]|] eqn:E; [|reflexivity].
  destruct (expect 62 r2) as [r3|]; [|reflexivity].
  apply parse_type_shape in E. rewrite (shape_value _ _ E), H. reflexivity.
Qed.

Theorem ptr_map_value_rejected : forall k v annot def allow,
  go_value_ok v = false -> parse_type (GMap k v) annot def allow = RErr.
Proof.
  intros k v annot def allow H. rewrite parse_map_eq.
  destruct (map_head annot def) as [r0|]; [|reflexivity].
  destruct (if annot then expect 60 r0 else ROk r0) as [r1|]; [|reflexivity].
  destruct (parse_type k annot r1 true) as [[kd r2]|]; [|reflexivity].
  destruct (negb (is_key_type kd)); [reflexivity|].
  destruct (if annot then expect 58 r2 else ROk r2) as [r3|]; [|reflexivity].
  destruct (parse_type v annot r3 true) as [[vd r4]|] eqn:E; [|reflexivity].
  destruct (if annot then expect 62 r4 else ROk r4) as [r5|]; [|reflexivity].
  apply parse_type_shape in E. rewrite (shape_value _ _ E), H. reflexivity.
Qed.

(* map keys: scalars, strings and pointers to structs only *)
Theorem bad_map_key_rejected : forall k v annot def allow,
  go_key_ok k = false -> parse_type (GMap k v) annot def allow = RErr.
Proof.
  intros k v annot def allow H. rewrite parse_map_eq.
  destruct (map_head annot def) as [r0|]; [|reflexivity].
  destruct (if annot then expect 60 r0 else ROk r0) as [r1|]; [|reflexivity].
  destruct (parse_type k annot r1 true) as [[kd r2]|] eqn:E; [|reflexivity].
  apply parse_type_shape in E. rewrite (shape_key _ _ E), H. reflexivity.
Qed.

(* ---- the annotation contradicts the Go type ---- *)

Definition go_is_anon (vt : gotype) : bool := match vt with GStruct _ [] => true | _ => false end.

(* the first token [tok] (followed by the token [next]) can start an annotation
   of the Go type *)
Fixpoint head_ok (vt : gotype) (tok next : str) {struct vt} : bool :=
  match vt with
  | GPtr e => head_ok e tok next
  | GSlice e => match e with
                | GUint8 => is_keyword DBinary tok
                | _ => str_eqb tok s_set || str_eqb tok s_list
                end
  | GMap _ _ => is_keyword DMap tok
  | GUnsup _ | GUint8 => false
  | _ => is_keyword (tag0_of vt) tok || go_is_anon vt || str_eqb (go_name vt) tok || tok_is next 46
  end.

Lemma leaf_head_mismatch : forall vt def tok r,
  is_leaf vt = true -> read_token def = (tok, r) ->
  is_keyword (tag0_of vt) tok || go_is_anon vt || str_eqb (go_name vt) tok
    || tok_is (fst (read_token r)) 46 = false ->
  leaf_parse vt def = RErr.
Proof.
  intros vt def tok r Hl Ht H.
  apply orb_false_iff in H. destruct H as [H H4]. apply orb_false_iff in H. destruct H as [H H3].
  apply orb_false_iff in H. destruct H as [H1 H2].
  unfold leaf_parse. rewrite Ht. destruct tok as [|c w]; [reflexivity|]. rewrite H1.
  destruct (negb (is_ident0 c)); [reflexivity|].
  assert (Hn : go_name vt <> []).
  { destruct vt; try discriminate Hl; try discriminate.
    - cbn. destruct name; discriminate.
    - cbn in H2 |- *. destruct name; [discriminate H2|discriminate]. }
  rewrite match_struct_named by exact Hn. unfold match_struct_body.
  destruct (read_token r) as [tok2 r2]. cbn [fst] in H4.
  destruct tok2 as [|c2 w2]; [rewrite H3; reflexivity|].
  destruct (tok_is (c2 :: w2) 58 || tok_is (c2 :: w2) 62); [rewrite H3; reflexivity|].
  rewrite H4. reflexivity.
Qed.

(* e.g. "i32" on an int64, "list<i32>" on a map, "map<..>" on a slice,
   "string" on []byte, "Foo" on a struct named Bar *)
Theorem head_mismatch_rejected : forall vt def allow tok r,
  read_token def = (tok, r) -> head_ok vt tok (fst (read_token r)) = false ->
  parse_type vt true def allow = RErr.
Proof.
  induction vt as [ | | | | |name| | |e IHe|k IHk v IHv|e IHe|sid name| |kind];
    intros def allow tok r Ht H; try reflexivity;
    try (rewrite parse_leaf_eq by reflexivity; eapply leaf_head_mismatch; [reflexivity|exact Ht|exact H]).
  - destruct (uint8_dec e) as [->|Hne].
    + rewrite parse_binary_eq. unfold binary_parse. rewrite Ht. cbn [head_ok] in H. rewrite H.
      destruct tok; reflexivity.
    + rewrite parse_slice_eq by exact Hne. unfold slice_parse. rewrite Ht.
      assert (H' : str_eqb tok s_set || str_eqb tok s_list = false).
      { destruct e; try congruence; exact H. }
      rewrite H'. reflexivity.
  - rewrite parse_map_eq. cbn [map_head]. rewrite Ht. cbn [head_ok] in H. rewrite H.
    destruct tok; reflexivity.
  - destruct allow; [|reflexivity]. rewrite parse_ptr_eq. cbn [head_ok] in H.
    rewrite (IHe def false tok r Ht H). reflexivity.
Qed.

(* a contradiction below the top: an element / key / value that is rejected *)
Theorem slice_elem_rejected : forall e def allow tok r0 r1,
  e <> GUint8 -> read_token def = (tok, r0) -> expect 60 r0 = ROk r1 ->
  parse_type e true r1 true = RErr -> parse_type (GSlice e) true def allow = RErr.
Proof.
  intros e def allow tok r0 r1 Hne Ht H60 He. rewrite parse_slice_eq by exact Hne.
  unfold slice_parse. rewrite Ht. destruct (negb _); [reflexivity|]. rewrite H60, He. reflexivity.
Qed.

Theorem map_key_rejected : forall k v def allow r0 r1,
  map_head true def = ROk r0 -> expect 60 r0 = ROk r1 ->
  parse_type k true r1 true = RErr -> parse_type (GMap k v) true def allow = RErr.
Proof.
  intros k v def allow r0 r1 Hh H60 Hk. rewrite parse_map_eq, Hh, H60, Hk. reflexivity.
Qed.

Theorem map_value_rejected : forall k v def allow r0 r1 kd r2 r3,
  map_head true def = ROk r0 -> expect 60 r0 = ROk r1 ->
  parse_type k true r1 true = ROk (kd, r2) -> expect 58 r2 = ROk r3 ->
  parse_type v true r3 true = RErr -> parse_type (GMap k v) true def allow = RErr.
Proof.
  intros k v def allow r0 r1 kd r2 r3 Hh H60 Hk H58 Hv. rewrite parse_map_eq, Hh, H60, Hk.
  destruct (negb (is_key_type kd)); [reflexivity|]. rewrite H58, Hv. reflexivity.
Qed.

(* ---- broken syntax ---- *)

(* something is left after the annotation ("list<i32>>", "i32 i32") *)
Theorem trailing_rejected : forall vt def d rest,
  parse_type vt (match def with [] => false | _ => true end) def true = ROk (d, rest) ->
  fst (read_token rest) <> [] -> parse_type_top vt def = RErr.
Proof.
  intros vt def d rest H Hr. unfold parse_type_top. rewrite H.
  destruct (fst (read_token rest)); [congruence|reflexivity].
Qed.

(* a missing "<" after list / set / map, a missing ":" or ">" *)
Theorem slice_open_rejected : forall e def allow tok r0,
  e <> GUint8 -> read_token def = (tok, r0) -> expect 60 r0 = RErr ->
  parse_type (GSlice e) true def allow = RErr.
Proof.
  intros e def allow tok r0 Hne Ht H60. rewrite parse_slice_eq by exact Hne.
  unfold slice_parse. rewrite Ht. destruct (negb _); [reflexivity|]. rewrite H60. reflexivity.
Qed.

Theorem slice_close_rejected : forall e def allow tok r0 r1 d r2,
  e <> GUint8 -> read_token def = (tok, r0) -> expect 60 r0 = ROk r1 ->
  parse_type e true r1 true = ROk (d, r2) -> expect 62 r2 = RErr ->
  parse_type (GSlice e) true def allow = RErr.
Proof.
  intros e def allow tok r0 r1 d r2 Hne Ht H60 He H62. rewrite parse_slice_eq by exact Hne.
  unfold slice_parse. rewrite Ht. destruct (negb _); [reflexivity|]. rewrite H60, He, H62. reflexivity.
Qed.

Theorem map_open_rejected : forall k v def allow r0,
  map_head true def = ROk r0 -> expect 60 r0 = RErr -> parse_type (GMap k v) true def allow = RErr.
Proof. intros k v def allow r0 Hh H60. rewrite parse_map_eq, Hh, H60. reflexivity. Qed.

Theorem map_colon_rejected : forall k v def allow r0 r1 kd r2,
  map_head true def = ROk r0 -> expect 60 r0 = ROk r1 ->
  parse_type k true r1 true = ROk (kd, r2) -> expect 58 r2 = RErr ->
  parse_type (GMap k v) true def allow = RErr.
Proof.
  intros k v def allow r0 r1 kd r2 Hh H60 Hk H58. rewrite parse_map_eq, Hh, H60, Hk.
  destruct (negb (is_key_type kd)); [reflexivity|]. rewrite H58. reflexivity.
Qed.

(* ------------------------------------------------------------------ *)
(* B.3  rejected fields                                                 *)
(* ------------------------------------------------------------------ *)

(* the field is looked at and its tag has the comma-separated parts [ft] *)
Definition tagged (gf : gofield) (ft : list str) : Prop :=
  gf_anonymous gf = false /\ gf_exported gf = true /\ lookup_struct_tag (gf_tag gf) = Some ft.

Lemma tagged_eq : forall gf ids ft1 idx seen,
  tagged gf (ids :: ft1) ->
  resolve_one gf idx seen =
  match parse_uint16 ids with
  | None => RErr
  | Some id => if memN id seen then RErr else resolve_body gf idx id ft1
  end.
Proof.
  intros gf ids ft1 idx seen (Ha & He & Hl). rewrite resolve_one_eq, Ha, He, Hl. reflexivity.
Qed.

(* thrift:"name" -- no id *)
Theorem name_only_rejected : forall gf idx seen, tagged gf [] -> resolve_one gf idx seen = RErr.
Proof. intros gf idx seen (Ha & He & Hl). rewrite resolve_one_eq, Ha, He, Hl. reflexivity. Qed.

(* ---- ids ---- *)

Definition dvalue (s : str) (acc : N) : N := fold_left (fun a c => a * 10 + (c - 48)) s acc.

Lemma parse_digits_spec : forall s acc n,
  parse_digits s acc = Some n ->
  n = dvalue s acc /\ Forall (fun c => is_digit c = true) s /\ (s <> [] -> n <= 65535).
Proof.
  induction s as [|c s IH]; intros acc n H; cbn [parse_digits] in H.
  - injection H as <-. split; [reflexivity|]. split; [constructor|congruence].
  - destruct (is_digit c) eqn:Ed; [|discriminate H].
    destruct (65535 <? acc * 10 + (c - 48)) eqn:El; [discriminate H|].
    destruct (IH _ _ H) as (Hv & Hd & Hle). split; [exact Hv|]. split; [constructor; assumption|].
    intros _. destruct s as [|c' s']; [cbn in Hv; lia|apply Hle; discriminate].
Qed.

Lemma parse_uint16_spec : forall s n,
  parse_uint16 s = Some n ->
  s <> [] /\ Forall (fun c => is_digit c = true) s /\ n = dvalue s 0 /\ n <= 65535.
Proof.
  intros s n H. destruct s as [|c s]; [discriminate H|]. cbn [parse_uint16] in H.
  destruct (parse_digits_spec _ _ _ H) as (Hv & Hd & Hle).
  split; [discriminate|]. split; [exact Hd|]. split; [exact Hv|apply Hle; discriminate].
Qed.

(* non-numeric ids: empty, or with a character that is not a digit (a sign, a
   letter, a blank inside, "0x..") *)
Theorem parse_uint16_empty : parse_uint16 [] = None.
Proof. reflexivity. Qed.

Theorem parse_uint16_nondigit : forall s c, In c s -> is_digit c = false -> parse_uint16 s = None.
Proof.
  intros s c Hin Hc. destruct (parse_uint16 s) as [n|] eqn:E; [|reflexivity].
  destruct (parse_uint16_spec _ _ E) as (_ & Hd & _). rewrite Forall_forall in Hd.
  rewrite (Hd c Hin) in Hc. discriminate Hc.
Qed.

(* ids out of range: field ids are 16 bit (strconv.ParseUint(s, 10, 16)) *)
Theorem parse_uint16_range : forall s, 65535 < dvalue s 0 -> parse_uint16 s = None.
Proof.
  intros s H. destruct (parse_uint16 s) as [n|] eqn:E; [|reflexivity].
  destruct (parse_uint16_spec _ _ E) as (_ & _ & Hv & Hle). lia.
Qed.

Lemma dvalue_app : forall s1 s2 acc, dvalue (s1 ++ s2) acc = dvalue s2 (dvalue s1 acc).
Proof. intros. unfold dvalue. apply fold_left_app. Qed.

Lemma dvalue_print : forall f n, (0 < f)%nat -> n < pow10 f -> dvalue (print_nat_f f n) 0 = n.
Proof.
  induction f as [|f IH]; intros n Hf Hn; [lia|].
  cbn [print_nat_f]. cbn [pow10] in Hn. rewrite dvalue_app.
  pose proof (N.div_mod n 10) as Hdm. pose proof (N.mod_lt n 10) as Hml.
  destruct (n <? 10) eqn:E.
  - cbn [dvalue fold_left]. rewrite N.mod_small by lia. lia.
  - assert (Hf' : (0 < f)%nat) by (destruct f; [cbn [pow10] in Hn; lia|lia]).
    rewrite IH by (try exact Hf'; lia). cbn [dvalue fold_left]. lia.
Qed.

Theorem parse_uint16_print_big : forall n, 65536 <= n -> n < 100000 -> parse_uint16 (print_nat n) = None.
Proof.
  intros n H1 H2. apply parse_uint16_range. unfold print_nat. rewrite dvalue_print; [lia|lia|cbn; lia].
Qed.

Theorem bad_id_rejected : forall gf ids ft1 idx seen,
  tagged gf (ids :: ft1) -> parse_uint16 ids = None -> resolve_one gf idx seen = RErr.
Proof. intros gf ids ft1 idx seen Ht H. rewrite (tagged_eq _ _ _ _ _ Ht), H. reflexivity. Qed.

Theorem dup_id_field_rejected : forall gf ids ft1 idx seen id,
  tagged gf (ids :: ft1) -> parse_uint16 ids = Some id -> In id seen ->
  resolve_one gf idx seen = RErr.
Proof.
  intros gf ids ft1 idx seen id Ht H Hin. rewrite (tagged_eq _ _ _ _ _ Ht), H.
  apply memN_In in Hin. rewrite Hin. reflexivity.
Qed.

(* ---- requiredness ---- *)

Lemma req_of_name_none : forall rq,
  rq <> s_default -> rq <> s_required -> rq <> s_optional -> req_of_name rq = None.
Proof.
  intros rq H1 H2 H3. unfold req_of_name. rewrite !str_eqb_neq by assumption. reflexivity.
Qed.

(* the words are case sensitive and must be complete; "" (as in "1,,i32") is
   not the default either *)
Theorem bad_req_rejected : forall gf ids rq ft2 idx seen,
  tagged gf (ids :: rq :: ft2) -> req_of_name rq = None -> resolve_one gf idx seen = RErr.
Proof.
  intros gf ids rq ft2 idx seen Ht H. rewrite (tagged_eq _ _ _ _ _ Ht).
  destruct (parse_uint16 ids) as [id|]; [|reflexivity]. destruct (memN id seen); [reflexivity|].
  unfold resolve_body. rewrite H. reflexivity.
Qed.

(* ---- the type ---- *)

Definition annotation (ft : list str) : str :=
  match ft with _ :: _ :: an :: _ => an | _ => [] end.
Definition req_word (ft : list str) : str :=
  match ft with _ :: rq :: _ => rq | _ => s_default end.
Definition options (ft : list str) : list str :=
  match ft with _ :: _ :: _ :: opts => opts | _ => [] end.

Lemma resolve_body_eq : forall gf idx id ids ft1,
  resolve_body gf idx id ft1 =
  match req_of_name (req_word (ids :: ft1)) with
  | None => RErr
  | Some rx =>
      match parse_type_top (gf_type gf) (annotation (ids :: ft1)) with
      | RErr => RErr
      | ROk pt =>
          if negb (field_ptr_okd pt rx) then RErr
          else match opts_ok pt (options (ids :: ft1)) false with
               | None => RErr
               | Some nc => ROk (Some (mkDField id pt rx nc idx))
               end
      end
  end.
Proof. intros gf idx id ids ft1. unfold resolve_body. destruct ft1 as [|rq [|an opts]]; reflexivity. Qed.

(* whatever makes the type of the field unacceptable -- see B.2 -- rejects the field *)
Theorem type_err_rejected : forall gf ft idx seen,
  tagged gf ft -> parse_type_top (gf_type gf) (annotation ft) = RErr ->
  resolve_one gf idx seen = RErr.
Proof.
  intros gf ft idx seen Ht H. destruct ft as [|ids ft1]; [apply name_only_rejected; exact Ht|].
  rewrite (tagged_eq _ _ _ _ _ Ht).
  destruct (parse_uint16 ids) as [id|]; [|reflexivity]. destruct (memN id seen); [reflexivity|].
  rewrite (resolve_body_eq gf idx id ids ft1), H.
  destruct (req_of_name (req_word (ids :: ft1))); reflexivity.
Qed.

Lemma parse_top_err : forall vt def,
  (forall annot allow, parse_type vt annot def allow = RErr) -> parse_type_top vt def = RErr.
Proof. intros vt def H. unfold parse_type_top. rewrite H. reflexivity. Qed.

Corollary unsupported_field_rejected : forall gf ft idx seen,
  tagged gf ft -> has_unsup (gf_type gf) = true -> resolve_one gf idx seen = RErr.
Proof.
  intros gf ft idx seen Ht H. apply (type_err_rejected gf ft idx seen Ht).
  apply parse_top_err. intros. apply unsupported_kind_rejected. exact H.
Qed.

(* a slice without annotation: frugal:"1", frugal:"1,required", frugal:"1,required," *)
Corollary bare_slice_field_rejected : forall gf ft idx seen,
  tagged gf ft -> annotation ft = [] -> has_list (gf_type gf) = true -> resolve_one gf idx seen = RErr.
Proof.
  intros gf ft idx seen Ht Ha H. apply (type_err_rejected gf ft idx seen Ht).
  rewrite Ha. apply bare_slice_top_rejected. exact H.
Qed.

Corollary ptr_ptr_field_rejected : forall gf ft e idx seen,
  tagged gf ft -> gf_type gf = GPtr (GPtr e) -> resolve_one gf idx seen = RErr.
Proof.
  intros gf ft e idx seen Ht H. apply (type_err_rejected gf ft idx seen Ht).
  rewrite H. apply parse_top_err. intros. apply ptr_ptr_rejected.
Qed.

Corollary ptr_container_field_rejected : forall gf ft e idx seen,
  tagged gf ft -> gf_type gf = GPtr e -> go_is_container e = true -> resolve_one gf idx seen = RErr.
Proof.
  intros gf ft e idx seen Ht H Hc. apply (type_err_rejected gf ft idx seen Ht).
  rewrite H. apply parse_top_err. intros. apply ptr_container_rejected. exact Hc.
Qed.

Corollary bad_map_key_field_rejected : forall gf ft k v idx seen,
  tagged gf ft -> gf_type gf = GMap k v -> go_key_ok k = false -> resolve_one gf idx seen = RErr.
Proof.
  intros gf ft k v idx seen Ht H Hk. apply (type_err_rejected gf ft idx seen Ht).
  rewrite H. apply parse_top_err. intros. apply bad_map_key_rejected. exact Hk.
Qed.

Corollary head_mismatch_field_rejected : forall gf ft idx seen tok r,
  tagged gf ft -> annotation ft <> [] -> read_token (annotation ft) = (tok, r) ->
  head_ok (gf_type gf) tok (fst (read_token r)) = false -> resolve_one gf idx seen = RErr.
Proof.
  intros gf ft idx seen tok r Ht Hne Hr H. apply (type_err_rejected gf ft idx seen Ht).
  unfold parse_type_top. destruct (annotation ft) as [|c w] eqn:Ea; [congruence|].
  rewrite (head_mismatch_rejected _ _ true tok r Hr H). reflexivity.
Qed.

(* a pointer to a scalar / string / binary needs "optional" *)
Theorem ptr_needs_optional : forall gf ft e idx seen,
  tagged gf ft -> gf_type gf = GPtr e -> go_is_struct e = false ->
  req_of_name (req_word ft) <> Some ROptional -> resolve_one gf idx seen = RErr.
Proof.
  intros gf ft e idx seen Ht Hty Hs Hrq.
  destruct ft as [|ids ft1]; [apply name_only_rejected; exact Ht|].
  rewrite (tagged_eq _ _ _ _ _ Ht).
  destruct (parse_uint16 ids) as [id|]; [|reflexivity]. destruct (memN id seen); [reflexivity|].
  rewrite (resolve_body_eq gf idx id ids ft1).
  destruct (req_of_name (req_word (ids :: ft1))) as [rx|]; [|reflexivity].
  destruct (parse_type_top (gf_type gf) (annotation (ids :: ft1))) as [pt|] eqn:E; [|reflexivity].
  apply parse_type_top_shape in E. rewrite Hty in E. cbn [go_shape] in E.
  destruct E as (d' & -> & Hd' & _). pose proof (shape_ptr_struct _ _ Hd') as Hp. rewrite Hs in Hp.
  assert (Hf : field_ptr_okd (DT DPointer None (Some d') 0) rx = false).
  { cbn [field_ptr_okd]. destruct d' as [t k v s].
    destruct t; try discriminate Hp; destruct rx; try reflexivity; congruence. }
  rewrite Hf. reflexivity.
Qed.

(* ---- options ---- *)

Lemma opts_ok_cons : forall pt o r have,
  opts_ok pt (o :: r) have =
  if str_eqb o s_nocopy then
    match d_wire pt with
    | DString => if have then None else opts_ok pt r true
    | _ => None
    end
  else None.
Proof. reflexivity. Qed.

Lemma opts_ok_unknown : forall pt os have o,
  In o os -> o <> s_nocopy -> opts_ok pt os have = None.
Proof.
  intros pt os. induction os as [|x os IH]; intros have o Hin Hne; [destruct Hin|].
  rewrite opts_ok_cons. destruct (str_eqb x s_nocopy) eqn:E; [|reflexivity].
  destruct Hin as [->|Hin]; [apply str_eqb_eq in E; congruence|].
  destruct (d_wire pt); try reflexivity. destruct have; [reflexivity|]. apply (IH true o); assumption.
Qed.

Lemma opts_ok_nonstring : forall pt os have,
  os <> [] -> d_wire pt <> DString -> opts_ok pt os have = None.
Proof.
  intros pt [|o r] have Hne Hw; [congruence|]. rewrite opts_ok_cons.
  destruct (str_eqb o s_nocopy); [|reflexivity]. destruct (d_wire pt); try reflexivity. congruence.
Qed.

Lemma opts_ok_twice : forall pt o1 o2 r have, opts_ok pt (o1 :: o2 :: r) have = None.
Proof.
  intros pt o1 o2 r have. rewrite opts_ok_cons. destruct (str_eqb o1 s_nocopy); [|reflexivity].
  destruct (d_wire pt) eqn:Ew; try reflexivity. destruct have; [reflexivity|].
  rewrite opts_ok_cons, Ew. destruct (str_eqb o2 s_nocopy); reflexivity.
Qed.

Lemma options_rejected : forall gf ft idx seen,
  tagged gf ft ->
  (forall pt, parse_type_top (gf_type gf) (annotation ft) = ROk pt -> opts_ok pt (options ft) false = None) ->
  resolve_one gf idx seen = RErr.
Proof.
  intros gf ft idx seen Ht H. destruct ft as [|ids ft1]; [apply name_only_rejected; exact Ht|].
  rewrite (tagged_eq _ _ _ _ _ Ht).
  destruct (parse_uint16 ids) as [id|]; [|reflexivity]. destruct (memN id seen); [reflexivity|].
  rewrite (resolve_body_eq gf idx id ids ft1).
  destruct (req_of_name (req_word (ids :: ft1))) as [rx|]; [|reflexivity].
  destruct (parse_type_top (gf_type gf) (annotation (ids :: ft1))) as [pt|] eqn:E; [|reflexivity].
  destruct (negb (field_ptr_okd pt rx)); [reflexivity|]. rewrite (H pt eq_refl). reflexivity.
Qed.

(* the only option is "nocopy" *)
Theorem unknown_option_rejected : forall gf ft idx seen o,
  tagged gf ft -> In o (options ft) -> o <> s_nocopy -> resolve_one gf idx seen = RErr.
Proof.
  intros gf ft idx seen o Ht Hin Hne. apply (options_rejected gf ft idx seen Ht).
  intros pt _. apply (opts_ok_unknown pt _ false o); assumption.
Qed.

(* ... on strings and binaries (also behind a pointer) only *)
Theorem nocopy_nonstring_rejected : forall gf ft idx seen,
  tagged gf ft -> options ft <> [] -> go_stringlike (gf_type gf) = false ->
  resolve_one gf idx seen = RErr.
Proof.
  intros gf ft idx seen Ht Hne Hs. apply (options_rejected gf ft idx seen Ht).
  intros pt Hpt. apply opts_ok_nonstring; [exact Hne|]. intros Hw.
  rewrite (shape_wire _ _ (parse_type_top_shape _ _ _ Hpt) Hw) in Hs. discriminate Hs.
Qed.

(* ... and only once *)
Theorem two_options_rejected : forall gf ft idx seen,
  tagged gf ft -> (2 <= length (options ft))%nat -> resolve_one gf idx seen = RErr.
Proof.
  intros gf ft idx seen Ht Hlen. apply (options_rejected gf ft idx seen Ht). intros pt _.
  destruct (options ft) as [|o1 [|o2 r]]; cbn [length] in Hlen; try lia. apply opts_ok_twice.
Qed.

(* ------------------------------------------------------------------ *)
(* B.4  rejected structs                                                *)
(* ------------------------------------------------------------------ *)

Lemma resolve_loop_err : forall fs idx seen gf i,
  In gf fs -> resolve_one gf i [] = RErr -> resolve_loop fs idx seen [] = RErr.
Proof.
  induction fs as [|g fs IH]; intros idx seen gf i Hin He; [destruct Hin|].
  rewrite resolve_loop_cons. destruct Hin as [->|Hin].
  - rewrite (resolve_one_err_any gf i idx seen He). reflexivity.
  - destruct (resolve_one g idx seen) as [[d|]|]; [|eapply IH; eassumption|reflexivity].
    rewrite (IH _ _ gf i Hin He). reflexivity.
Qed.

(* the lifting lemma: a field that is rejected on its own (at any index, with
   nothing seen) rejects the struct -- whatever the other fields are *)
Theorem resolve_fields_err : forall gs gf i,
  In gf (gs_fields gs) -> resolve_one gf i [] = RErr -> resolve_fields gs = RErr.
Proof.
  intros gs gf i Hin He. rewrite resolve_fields_eq, (resolve_loop_err _ O [] gf i Hin He). reflexivity.
Qed.

Lemma field_id_dup : forall gf idx seen id,
  field_id gf = Some id -> In id seen -> resolve_one gf idx seen = RErr.
Proof.
  intros gf idx seen id Hf Hin. unfold field_id in Hf. destruct (ignored gf) eqn:Ei; [discriminate Hf|].
  unfold ignored in Ei. apply orb_false_iff in Ei. destruct Ei as [Ei El].
  rewrite resolve_one_eq, Ei.
  destruct (lookup_struct_tag (gf_tag gf)) as [[|ids ft1]|]; try discriminate Hf.
  rewrite Hf. apply memN_In in Hin. rewrite Hin. reflexivity.
Qed.

Lemma resolve_loop_seen_dup : forall fs idx seen gf id,
  In gf fs -> field_id gf = Some id -> In id seen -> resolve_loop fs idx seen [] = RErr.
Proof.
  induction fs as [|g fs IH]; intros idx seen gf id Hin Hf Hs; [destruct Hin|].
  rewrite resolve_loop_cons. destruct Hin as [->|Hin].
  - rewrite (field_id_dup gf idx seen id Hf Hs). reflexivity.
  - destruct (resolve_one g idx seen) as [[d|]|]; [|eapply IH; eassumption|reflexivity].
    rewrite (IH _ (d_id d :: seen) gf id Hin Hf); [reflexivity|right; exact Hs].
Qed.

(* two (not ignored) fields with the same id *)
Definition dup_id (fs : list gofield) : Prop :=
  exists fs1 gf1 fs2 gf2 fs3 id,
    fs = fs1 ++ gf1 :: fs2 ++ gf2 :: fs3 /\ field_id gf1 = Some id /\ field_id gf2 = Some id.

Lemma resolve_loop_dup : forall fs1 gf1 fs2 gf2 fs3 id idx seen,
  field_id gf1 = Some id -> field_id gf2 = Some id ->
  resolve_loop (fs1 ++ gf1 :: fs2 ++ gf2 :: fs3) idx seen [] = RErr.
Proof.
  induction fs1 as [|g fs1 IH]; intros gf1 fs2 gf2 fs3 id idx seen H1 H2; cbn [app];
    rewrite resolve_loop_cons.
  - destruct (resolve_one gf1 idx seen) as [[d|]|] eqn:E; [| |reflexivity].
    + destruct (resolve_one_some _ _ _ _ E) as (_ & Hf & _). rewrite H1 in Hf. injection Hf as ->.
      rewrite (resolve_loop_seen_dup _ _ _ gf2 (d_id d)); [reflexivity| |exact H2|left; reflexivity].
      apply in_or_app. right. left. reflexivity.
    + apply resolve_one_none in E. congruence.
  - destruct (resolve_one g idx seen) as [[d|]|]; [|apply (IH _ _ _ _ id); assumption|reflexivity].
    rewrite (IH _ _ _ _ id) by assumption. reflexivity.
Qed.

Theorem duplicate_id_rejected : forall gs, dup_id (gs_fields gs) -> resolve_fields gs = RErr.
Proof.
  intros gs (fs1 & gf1 & fs2 & gf2 & fs3 & id & Hfs & H1 & H2).
  rewrite resolve_fields_eq, Hfs, (resolve_loop_dup _ _ _ _ _ id); [reflexivity|exact H1|exact H2].
Qed.

(* the same with positions *)
Corollary duplicate_id_rejected_nth : forall gs i j gf1 gf2 id,
  nth_error (gs_fields gs) i = Some gf1 -> nth_error (gs_fields gs) j = Some gf2 -> i <> j ->
  field_id gf1 = Some id -> field_id gf2 = Some id -> resolve_fields gs = RErr.
Proof.
  assert (L : forall fs i j gf1 gf2 id, (i < j)%nat ->
              nth_error fs i = Some gf1 -> nth_error fs j = Some gf2 ->
              field_id gf1 = Some id -> field_id gf2 = Some id -> dup_id fs).
  { intros fs i j gf1 gf2 id Hlt Hi Hj H1 H2.
    destruct (nth_error_split _ _ Hi) as (fs1 & r & -> & Hlen).
    rewrite nth_error_app2 in Hj by lia. rewrite Hlen in Hj.
    destruct (j - i)%nat as [|k] eqn:Ek; [lia|]. cbn [nth_error] in Hj.
    destruct (nth_error_split _ _ Hj) as (fs2 & fs3 & -> & _).
    exists fs1, gf1, fs2, gf2, fs3, id. auto. }
  intros gs i j gf1 gf2 id Hi Hj Hne H1 H2. apply duplicate_id_rejected.
  destruct (PeanoNat.Nat.lt_ge_cases i j) as [Hlt|Hge].
  - exact (L _ i j gf1 gf2 id Hlt Hi Hj H1 H2).
  - apply (L _ j i gf2 gf1 id); try assumption. lia.
Qed.

(* nothing else rejects a struct: a field rejected on its own, or two fields
   with the same id *)
Lemma resolve_loop_err_inv : forall fs idx seen,
  resolve_loop fs idx seen [] = RErr ->
  (exists gf, In gf fs /\ resolve_one gf O [] = RErr) \/
  (exists fs1 gf fs2 id, fs = fs1 ++ gf :: fs2 /\ field_id gf = Some id /\ In id seen) \/
  dup_id fs.
Proof.
  induction fs as [|g fs IH]; intros idx seen H; [discriminate H|].
  rewrite resolve_loop_cons, resolve_one_seen in H.
  destruct (resolve_one g idx []) as [[d|]|] eqn:E.
  - destruct (resolve_one_some _ _ _ _ E) as (_ & Hf & _).
    destruct (memN (d_id d) seen) eqn:Em.
    + right. left. exists [], g, fs, (d_id d). split; [reflexivity|]. split; [exact Hf|].
      apply memN_In. exact Em.
    + destruct (resolve_loop fs (S idx) (d_id d :: seen) []) eqn:El; [discriminate H|].
      destruct (IH _ _ El) as [(gf & Hin & He)|[(fs1 & gf & fs2 & id & -> & Hfi & Hin)|Hd]].
      * left. exists gf. split; [right; exact Hin|exact He].
      * destruct Hin as [<-|Hin].
        -- right. right. exists [], g, fs1, gf, fs2, (d_id d). auto.
        -- right. left. exists (g :: fs1), gf, fs2, id. auto.
      * right. right. destruct Hd as (fs1 & gf1 & fs2 & gf2 & fs3 & id & -> & H1 & H2).
        exists (g :: fs1), gf1, fs2, gf2, fs3, id. auto.
  - destruct (IH _ _ H) as [(gf & Hin & He)|[(fs1 & gf & fs2 & id & -> & Hfi & Hin)|Hd]].
    + left. exists gf. split; [right; exact Hin|exact He].
    + right. left. exists (g :: fs1), gf, fs2, id. auto.
    + right. right. destruct Hd as (fs1 & gf1 & fs2 & gf2 & fs3 & id & -> & H1 & H2).
      exists (g :: fs1), gf1, fs2, gf2, fs3, id. auto.
  - left. exists g. split; [left; reflexivity|]. apply (resolve_one_err_any g idx O []). exact E.
Qed.

Theorem resolve_fields_err_iff : forall gs,
  resolve_fields gs = RErr <->
  (exists gf, In gf (gs_fields gs) /\ resolve_one gf O [] = RErr) \/ dup_id (gs_fields gs).
Proof.
  intros gs. split.
  - intros H. rewrite resolve_fields_eq in H.
    destruct (resolve_loop (gs_fields gs) 0 [] []) eqn:E; [discriminate H|].
    destruct (resolve_loop_err_inv _ _ _ E) as [Hf|[(fs1 & gf & fs2 & id & _ & _ & [])|Hd]]; auto.
  - intros [(gf & Hin & He)|Hd]; [eapply resolve_fields_err; eassumption|].
    apply duplicate_id_rejected. exact Hd.
Qed.

(* ------------------------------------------------------------------ *)
(* B.5  a rejected definition rejects every type that reaches it        *)
(* ------------------------------------------------------------------ *)

Lemma resolves_rejected : forall gu u gs,
  nth_error gu (N.to_nat u) = Some gs -> resolve_fields gs = RErr -> resolves gu u = false.
Proof.
  intros gu u gs Hn He. rewrite resolves_eq. unfold resolve_universe.
  rewrite nth_error_map, Hn. cbn [option_map]. rewrite He. reflexivity.
Qed.

Lemma resolves_unknown : forall gu u, (length gu <= N.to_nat u)%nat -> resolves gu u = false.
Proof.
  intros gu u H. rewrite resolves_eq.
  assert (E : nth_error (resolve_universe gu) (N.to_nat u) = None).
  { apply nth_error_None. rewrite len_ru. exact H. }
  rewrite E. reflexivity.
Qed.

(* [reach gu s u]: u is s, or is mentioned (at any depth of the field types) by a
   resolving struct reachable from s *)
Theorem rejected_everywhere : forall gu s u gs,
  reach gu s u -> nth_error gu (N.to_nat u) = Some gs -> resolve_fields gs = RErr ->
  accepted gu s = false.
Proof.
  intros gu s u gs Hr Hn He. unfold accepted. apply (accepted_false gu s u Hr).
  eapply resolves_rejected; eassumption.
Qed.

Corollary rejected_self : forall gu s gs,
  nth_error gu (N.to_nat s) = Some gs -> resolve_fields gs = RErr -> accepted gu s = false.
Proof. intros gu s gs. apply rejected_everywhere. apply reach_refl. Qed.

Corollary rejected_mention : forall gu s u gs,
  In u (mentions (resolve_universe gu) s) ->
  nth_error gu (N.to_nat u) = Some gs -> resolve_fields gs = RErr -> accepted gu s = false.
Proof.
  intros gu s u gs Hm. apply rejected_everywhere. apply reach_step with u; [exact Hm|apply reach_refl].
Qed.

(* a struct type that is not part of the universe *)
Theorem unknown_everywhere : forall gu s u,
  reach gu s u -> (length gu <= N.to_nat u)%nat -> accepted gu s = false.
Proof.
  intros gu s u Hr Hu. unfold accepted. apply (accepted_false gu s u Hr). apply resolves_unknown. exact Hu.
Qed.

(* ---- mentions, in terms of the Go field types ---- *)

Fixpoint go_sids (vt : gotype) : list N :=
  match vt with
  | GStruct s _ => [s]
  | GPtr e => go_sids e
  | GSlice e => go_sids e
  | GMap k v => go_sids k ++ go_sids v
  | _ => []
  end.

Lemma shape_sids : forall vt d, go_shape vt d -> ty_sids (ty_of d) = go_sids vt.
Proof.
  induction vt as [ | | | | |name| | |e IHe|k IHk v IHv|e IHe|sid name| |kind];
    intros d H; cbn [go_shape tag0_of tag1_of sid_of] in H;
    try (destruct H as [-> | ->]; reflexivity); try contradiction.
  - destruct name; destruct H as [-> | ->]; reflexivity.
  - destruct (uint8_dec e) as [->|Hne]; [subst d; reflexivity|].
    change (go_shape (GSlice e) d) in H. rewrite go_shape_slice in H by exact Hne.
    destruct H as (d' & b & -> & Hs & _). cbn [go_sids]. rewrite <- (IHe _ Hs).
    destruct b; reflexivity.
  - destruct H as (kd & vd & -> & Hk & Hv & _). cbn [go_sids ty_of ty_sids].
    rewrite (IHk _ Hk), (IHv _ Hv). reflexivity.
  - destruct H as (d' & -> & Hs & _). cbn [go_sids ty_of ty_sids]. apply IHe. exact Hs.
Qed.

Lemma resolve_one_shape : forall gf idx seen d,
  resolve_one gf idx seen = ROk (Some d) -> go_shape (gf_type gf) (d_type d).
Proof.
  intros gf idx seen d H. rewrite resolve_one_eq in H.
  destruct (gf_anonymous gf || negb (gf_exported gf)); [discriminate H|].
  destruct (lookup_struct_tag (gf_tag gf)) as [[|ids ft1]|]; try discriminate H.
  destruct (parse_uint16 ids) as [id|]; [|discriminate H].
  destruct (memN id seen); [discriminate H|].
  rewrite (resolve_body_eq gf idx id ids ft1) in H.
  destruct (req_of_name (req_word (ids :: ft1))) as [rx|]; [|discriminate H].
  destruct (parse_type_top (gf_type gf) (annotation (ids :: ft1))) as [pt|] eqn:E; [|discriminate H].
  destruct (negb (field_ptr_okd pt rx)); [discriminate H|].
  destruct (opts_ok pt (options (ids :: ft1)) false); [|discriminate H].
  injection H as <-. cbn [d_type]. eapply parse_type_top_shape. exact E.
Qed.

Lemma fields_resolve_at : forall idx fs rs,
  fields_resolve idx fs rs ->
  forall k gf, nth_error fs k = Some gf ->
  exists r, resolve_one gf (idx + k) [] = ROk r /\ (forall d, r = Some d -> In d (somes rs)).
Proof.
  induction 1 as [i|i gf0 r0 fs rs Hr Hfs IH]; intros k gf Hk; [destruct k; discriminate Hk|].
  destruct k as [|k].
  - injection Hk as <-. exists r0. rewrite PeanoNat.Nat.add_0_r. split; [exact Hr|].
    intros d ->. left. reflexivity.
  - cbn [nth_error] in Hk. destruct (IH k gf Hk) as (r & Hr' & Hin). exists r.
    rewrite PeanoNat.Nat.add_succ_r. split; [exact Hr'|].
    intros d Hd. destruct r0; [right|]; apply Hin; exact Hd.
Qed.

(* every struct named in the Go type of a (not ignored) field is mentioned *)
Theorem field_mentions : forall gs fs gf u,
  resolve_fields gs = ROk fs -> In gf (gs_fields gs) -> ignored gf = false ->
  In u (go_sids (gf_type gf)) -> In u (flat_map (fun d => ty_sids (ty_of (d_type d))) fs).
Proof.
  intros gs fs gf u H Hin Hi Hu. apply resolve_fields_iff in H. destruct H as (rs & Hfr & _ & ->).
  destruct (In_nth_error _ _ Hin) as [k Hk].
  destruct (fields_resolve_at _ _ _ Hfr k gf Hk) as (r & Hr & Hd). cbn [Nat.add] in Hr.
  destruct r as [d|]; [|apply ignored_iff in Hr; congruence].
  apply in_flat_map. exists d. split.
  - apply (Permutation_in _ (Permutation_sym (sort_perm _))). apply Hd. reflexivity.
  - rewrite (shape_sids _ _ (resolve_one_shape _ _ _ _ Hr)). exact Hu.
Qed.

(* C13: a struct with a field whose Go type names -- at any depth: element, key,
   value, pointee -- a struct with a rejected definition is itself not accepted *)
Theorem rejected_via_field : forall gu s gs gf u gs',
  nth_error gu (N.to_nat s) = Some gs -> In gf (gs_fields gs) -> ignored gf = false ->
  In u (go_sids (gf_type gf)) ->
  nth_error gu (N.to_nat u) = Some gs' -> resolve_fields gs' = RErr ->
  accepted gu s = false.
Proof.
  intros gu s gs gf u gs' Hs Hin Hi Hu Hu' He.
  destruct (resolve_fields gs) as [fs|] eqn:E; [|eapply rejected_self; eassumption].
  apply (rejected_mention gu s u gs'); [|exact Hu'|exact He].
  unfold mentions, resolve_universe. rewrite nth_error_map, Hs. cbn [option_map]. rewrite E.
  eapply field_mentions; eassumption.
Qed.

(* ------------------------------------------------------------------ *)
(* C.  locality: further definitions do not disturb the existing ones   *)
(* ------------------------------------------------------------------ *)

Lemma resolve_universe_app : forall gu ex,
  resolve_universe (gu ++ ex) = resolve_universe gu ++ resolve_universe ex.
Proof. intros. unfold resolve_universe. apply map_app. Qed.

Lemma env_types_app : forall gu ex, env_types (gu ++ ex) = env_types gu ++ env_types ex.
Proof. intros. unfold env_types. apply map_app. Qed.

Lemma ru_app_nth : forall gu ex i, (i < length gu)%nat ->
  nth_error (resolve_universe (gu ++ ex)) i = nth_error (resolve_universe gu) i.
Proof.
  intros gu ex i H. rewrite resolve_universe_app. apply nth_error_app1. rewrite len_ru. exact H.
Qed.

Lemma resolves_app : forall gu ex s, resolves gu s = true -> resolves (gu ++ ex) s = true.
Proof.
  intros gu ex s H. pose proof (resolves_lt gu s H) as Hlt.
  rewrite resolves_eq in *. rewrite ru_app_nth by exact Hlt. exact H.
Qed.

Lemma mentions_app : forall gu ex s, (N.to_nat s < length gu)%nat ->
  mentions (resolve_universe (gu ++ ex)) s = mentions (resolve_universe gu) s.
Proof. intros gu ex s H. unfold mentions. rewrite ru_app_nth by exact H. reflexivity. Qed.

Lemma mentions_app_incl : forall gu ex s u,
  In u (mentions (resolve_universe gu) s) -> In u (mentions (resolve_universe (gu ++ ex)) s).
Proof.
  intros gu ex s u H. rewrite mentions_app; [exact H|].
  apply resolves_lt. eapply mentions_resolves. exact H.
Qed.

Lemma reach_app : forall gu ex s u, reach gu s u -> reach (gu ++ ex) s u.
Proof.
  intros gu ex s u H. induction H as [s|s t u Hin Hr IH]; [apply reach_refl|].
  apply reach_step with t; [apply mentions_app_incl; exact Hin|exact IH].
Qed.

Lemma reach_app_inv : forall gu ex s u,
  reach (gu ++ ex) s u -> accepted gu s = true -> reach gu s u.
Proof.
  intros gu ex s u H. induction H as [s|s t u Hin Hr IH]; intros Ha; [apply reach_refl|].
  assert (Hs : resolves gu s = true).
  { apply (proj1 (accepted_spec gu s) Ha). apply reach_refl. }
  rewrite mentions_app in Hin by (apply resolves_lt; exact Hs).
  apply reach_step with t; [exact Hin|]. apply IH. exact (accepted_step gu s t Ha Hin).
Qed.

(* an accepted type stays accepted, with the same set of reachable structs *)
Theorem accepted_app_mono : forall gu ex s, accepted gu s = true -> accepted (gu ++ ex) s = true.
Proof.
  intros gu ex s Ha. unfold accepted. apply accepted_spec. intros u Hr.
  apply resolves_app. apply (proj1 (accepted_spec gu s) Ha). eapply reach_app_inv; eassumption.
Qed.

(* a universe that names no struct outside itself *)
Definition universe_closed (gu : list gostruct) : Prop :=
  forall s u, In u (mentions (resolve_universe gu) s) -> (N.to_nat u < length gu)%nat.

Lemma forallb_false : forall (A : Type) (f : A -> bool) l,
  forallb f l = false -> exists x, In x l /\ f x = false.
Proof.
  intros A f l. induction l as [|a l IH]; intros H; [discriminate H|].
  cbn [forallb] in H. destruct (f a) eqn:E.
  - destruct (IH H) as (x & Hx & Hf). exists x. split; [right; exact Hx|exact Hf].
  - exists a. split; [left; reflexivity|exact E].
Qed.

Lemma not_accepted_witness : forall gu s,
  accepted gu s = false -> exists u, reach gu s u /\ resolves gu u = false.
Proof.
  intros gu s H. unfold accepted, accepted_with in H. apply forallb_false in H.
  destruct H as (u & Hin & Hf). exists u. split; [|rewrite resolves_eq; exact Hf].
  apply (closure_sound gu s (length (resolve_universe gu)) [s]); [|exact Hin].
  intros y [<-|[]]. apply reach_refl.
Qed.

Lemma reach_closed_lt : forall gu s u,
  universe_closed gu -> reach gu s u -> (N.to_nat s < length gu)%nat -> (N.to_nat u < length gu)%nat.
Proof.
  intros gu s u Hc H. induction H as [s|s t u Hin Hr IH]; intros Hs; [exact Hs|].
  apply IH. exact (Hc s t Hin).
Qed.

(* in a closed universe, acceptance of the existing types does not change at all *)
Theorem accepted_app_closed : forall gu ex s,
  universe_closed gu -> (N.to_nat s < length gu)%nat -> accepted (gu ++ ex) s = accepted gu s.
Proof.
  intros gu ex s Hc Hs. destruct (accepted gu s) eqn:Ea; [apply accepted_app_mono; exact Ea|].
  destruct (not_accepted_witness gu s Ea) as (u & Hr & Hu). unfold accepted.
  apply (accepted_false (gu ++ ex) s u (reach_app gu ex s u Hr)).
  pose proof (reach_closed_lt gu s u Hc Hr Hs) as Hlt.
  rewrite resolves_eq in *. rewrite ru_app_nth by exact Hlt. exact Hu.
Qed.

(* without closedness a rejected type can become accepted: see
   [append_can_accept] below *)

(* ---- descriptors ---- *)

Lemma sdesc_of_ext : forall gs dfs z1 z2,
  (forall d, In d dfs -> z1 (d_index d) = z2 (d_index d)) -> sdesc_of gs dfs z1 = sdesc_of gs dfs z2.
Proof.
  intros gs dfs z1 z2 H. unfold sdesc_of. f_equal. apply map_ext_in. intros d Hd.
  rewrite (H d Hd). reflexivity.
Qed.

(* a struct without InitDefault: the descriptor does not look at zero values *)
Lemma sdesc_of_noinit : forall gs dfs z1 z2,
  gs_init gs = None -> sdesc_of gs dfs z1 = sdesc_of gs dfs z2.
Proof. intros gs dfs z1 z2 H. unfold sdesc_of. rewrite H. reflexivity. Qed.

Definition build_one (e0 : senv) (gs : gostruct) : sdesc :=
  match resolve_fields gs with
  | ROk dfs =>
      sdesc_of gs dfs
        (fun i => match find (fun d => Nat.eqb (d_index d) i) dfs with
                  | Some d => zero_of e0 (ty_of (d_type d))
                  | None => VS 0
                  end)
  | RErr => empty_sd
  end.

Lemma build_env_eq : forall gu, build_env gu = map (build_one (env_types gu)) gu.
Proof. reflexivity. Qed.

Lemma build_env_nth : forall gu i gs,
  nth_error gu i = Some gs -> nth_error (build_env gu) i = Some (build_one (env_types gu) gs).
Proof. intros gu i gs H. rewrite build_env_eq, nth_error_map, H. reflexivity. Qed.

Lemma build_env_app_nth : forall gu ex i gs,
  nth_error gu i = Some gs ->
  nth_error (build_env (gu ++ ex)) i = Some (build_one (env_types gu ++ env_types ex) gs).
Proof.
  intros gu ex i gs H. rewrite (build_env_nth (gu ++ ex) i gs), env_types_app; [reflexivity|].
  rewrite nth_error_app1; [exact H|]. apply nth_error_Some. congruence.
Qed.

(* the field list (ids, types, requiredness, nocopy), the holder flag and the
   InitDefault assignments never depend on the rest of the universe *)
Theorem build_env_app_fields : forall gu ex i sd sd',
  (i < length gu)%nat ->
  nth_error (build_env gu) i = Some sd -> nth_error (build_env (gu ++ ex)) i = Some sd' ->
  map (fun f => (fid f, fty f, freq f, fnocopy f)) (sfields sd')
  = map (fun f => (fid f, fty f, freq f, fnocopy f)) (sfields sd)
  /\ sholder sd' = sholder sd /\ sinit sd' = sinit sd.
Proof.
  intros gu ex i sd sd' Hi H H'.
  destruct (nth_error gu i) as [gs|] eqn:Eg; [|apply nth_error_None in Eg; lia].
  rewrite (build_env_nth gu i gs Eg) in H. rewrite (build_env_app_nth gu ex i gs Eg) in H'.
  injection H as <-. injection H' as <-. unfold build_one.
  destruct (resolve_fields gs) as [dfs|]; [|auto].
  unfold sdesc_of. cbn [sfields sholder sinit]. rewrite !map_map. cbn [fid fty freq fnocopy]. auto.
Qed.

(* the whole descriptor, for a struct without InitDefault *)
Theorem build_env_app_noinit : forall gu ex i gs,
  nth_error gu i = Some gs -> gs_init gs = None ->
  nth_error (build_env (gu ++ ex)) i = nth_error (build_env gu) i.
Proof.
  intros gu ex i gs Hg Hn. rewrite (build_env_nth gu i gs Hg), (build_env_app_nth gu ex i gs Hg).
  f_equal. unfold build_one. destruct (resolve_fields gs) as [dfs|]; [|reflexivity].
  apply sdesc_of_noinit. exact Hn.
Qed.

(* with InitDefault the exemplar of a field that InitDefault does not assign is
   the zero value of its type, and for a struct held by value that is computed
   from the environment with fuel [S (length universe)].  It is stable when
   the by-value nesting stays inside the universe and is well founded (Go
   guarantees this: a struct cannot contain itself by value). *)
Definition byvalue_closed (env : senv) : Prop :=
  forall sid sd f s', lookup_sd env sid = Some sd -> In f (sfields sd) -> fty f = TStruct s' ->
                      (N.to_nat s' < length env)%nat.
Definition byvalue_ranked (env : senv) (rank : N -> nat) : Prop :=
  (forall sid sd f s', lookup_sd env sid = Some sd -> In f (sfields sd) -> fty f = TStruct s' ->
                       (rank s' < rank sid)%nat)
  /\ (forall s, (rank s <= length env)%nat).

Lemma lookup_sd_app : forall (env ex : senv) s, (N.to_nat s < length env)%nat ->
  lookup_sd (env ++ ex) s = lookup_sd env s.
Proof.
  intros env ex s H. unfold lookup_sd, len. rewrite app_length.
  destruct (N.leb_spec (N.of_nat (length env + length ex)) s); [lia|].
  destruct (N.leb_spec (N.of_nat (length env)) s); [lia|]. apply nth_error_app1. exact H.
Qed.

Lemma zero_stable : forall (env ex : senv) rank,
  byvalue_closed env ->
  (forall sid sd f s', lookup_sd env sid = Some sd -> In f (sfields sd) -> fty f = TStruct s' ->
                       (rank s' < rank sid)%nat) ->
  forall f1 f2 t,
  (forall s, t = TStruct s -> (N.to_nat s < length env /\ rank s < f1 /\ rank s < f2)%nat) ->
  zero f1 env t = zero f2 (env ++ ex) t.
Proof.
  intros env ex rank Hc Hr. induction f1 as [|f1 IH]; intros f2 t H; destruct f2 as [|f2];
    destruct t as [ | | | | | | | | | | |sid| ]; try reflexivity;
    try (destruct (H sid eq_refl) as (_ & H1 & H2); lia).
  destruct (H sid eq_refl) as (Hlt & H1 & H2). cbn [zero]. rewrite lookup_sd_app by exact Hlt.
  destruct (lookup_sd env sid) as [sd|] eqn:E; [|reflexivity]. f_equal. apply map_ext_in.
  intros f Hf. apply IH. intros s' Hs'.
  pose proof (Hc sid sd f s' E Hf Hs'). pose proof (Hr sid sd f s' E Hf Hs'). lia.
Qed.

Lemma env_types_lookup : forall gu i gs dfs,
  nth_error gu i = Some gs -> resolve_fields gs = ROk dfs ->
  lookup_sd (env_types gu) (N.of_nat i) = Some (sdesc_of gs dfs (fun _ => VS 0)).
Proof.
  intros gu i gs dfs Hg Hr. unfold lookup_sd, len.
  assert (Hi : (i < length gu)%nat) by (apply nth_error_Some; congruence).
  assert (Hl : length (env_types gu) = length gu) by (unfold env_types; apply map_length).
  destruct (N.leb_spec (N.of_nat (length (env_types gu))) (N.of_nat i)); [lia|].
  rewrite Nat2N.id. unfold env_types. rewrite nth_error_map, Hg. cbn [option_map]. rewrite Hr. reflexivity.
Qed.

Theorem build_env_app : forall gu ex rank,
  byvalue_closed (env_types gu) -> byvalue_ranked (env_types gu) rank ->
  forall i, (i < length gu)%nat ->
  nth_error (build_env (gu ++ ex)) i = nth_error (build_env gu) i.
Proof.
  intros gu ex rank Hc [Hr Hb] i Hi.
  destruct (nth_error gu i) as [gs|] eqn:Eg; [|apply nth_error_None in Eg; lia].
  rewrite (build_env_nth gu i gs Eg), (build_env_app_nth gu ex i gs Eg). f_equal. unfold build_one.
  destruct (resolve_fields gs) as [dfs|] eqn:Er; [|reflexivity].
  apply sdesc_of_ext. intros d _.
  destruct (find (fun d0 => Nat.eqb (d_index d0) (d_index d)) dfs) as [d0|] eqn:Ef; [|reflexivity].
  apply find_some in Ef. destruct Ef as [Hin _]. unfold zero_of. symmetry.
  apply (zero_stable (env_types gu) (env_types ex) rank Hc Hr). intros s Hs.
  assert (Hlt : (N.to_nat s < length (env_types gu))%nat).
  { eapply (Hc (N.of_nat i) _ _ s (env_types_lookup gu i gs dfs Eg Er)).
    - unfold sdesc_of. cbn [sfields]. apply in_map. exact Hin.
    - exact Hs. }
  pose proof (Hb s). rewrite app_length. lia.
Qed.

(* ------------------------------------------------------------------ *)
(* D.  examples: the hypotheses are satisfiable, the rejections real    *)
(* ------------------------------------------------------------------ *)

(* the canonical tags of TagsProofs carry their schema *)
Lemma carries_mk_frugal : forall n t rq nc s,
  prints t s -> tag_carries (mkSpec n t rq nc) (mk_frugal_tag n rq s nc).
Proof.
  intros n t rq nc s Hp.
  pose proof (TC_frugal (mkSpec n t rq nc) s _ _ [] [] Hp (field_parts_canonical n rq s nc) (Forall_nil _)) as H.
  cbn [app] in H. rewrite app_nil_r in H. exact H.
Qed.

Lemma carries_mk_thrift : forall name n t rq nc s,
  prints t s -> Forall plain name -> tag_carries (mkSpec n t rq nc) (mk_thrift_tag name n rq s nc).
Proof.
  intros name n t rq nc s Hp Hname.
  pose proof (TC_thrift (mkSpec n t rq nc) s _ _ [] [] name Hp (field_parts_canonical n rq s nc)
                (Forall_nil _) (Forall_nil _) Hname) as H.
  cbn [app] in H. rewrite app_nil_r in H. exact H.
Qed.

Module StructEx.

Definition fr (s : str) : str := [102; 114; 117; 103; 97; 108; 58; 34] ++ s ++ [34].   (* frugal:"s" *)
Definition fld (t : gotype) (tag : str) : gofield := mkGoField [70] t tag true false.
Definition one (t : gotype) (v : str) : gostruct := mkGoStruct [83] [fld t (fr v)] None.

(* ---- A ---- *)
(* type S struct {
     C   int32   `frugal:"3,default,i32"`
     x   int32   `frugal:"9,default,i32"`       // unexported
     A   string  `thrift:"a,1,required,string"`
     B   []int64 `frugal:"2,optional,set<i64>"`
     Emb         `frugal:"4,default,Emb"`       // embedded
     U   bool    `json:"u"`                     // no frugal / thrift tag
   } *)
Definition fC := mkGoField [67] GInt32
  [102; 114; 117; 103; 97; 108; 58; 34; 51; 44; 100; 101; 102; 97; 117; 108; 116; 44; 105; 51; 50; 34] true false.
Definition fx := mkGoField [120] GInt32
  [102; 114; 117; 103; 97; 108; 58; 34; 57; 44; 100; 101; 102; 97; 117; 108; 116; 44; 105; 51; 50; 34] false false.
Definition fA := mkGoField [65] GString
  [116; 104; 114; 105; 102; 116; 58; 34; 97; 44; 49; 44; 114; 101; 113; 117; 105; 114; 101; 100; 44; 115; 116; 114; 105; 110; 103; 34] true false.
Definition fB := mkGoField [66] (GSlice (GInt64 []))
  [102; 114; 117; 103; 97; 108; 58; 34; 50; 44; 111; 112; 116; 105; 111; 110; 97; 108; 44; 115; 101; 116; 60; 105; 54; 52; 62; 34] true false.
Definition fEmb := mkGoField [69; 109; 98] (GStruct 1 [69; 109; 98])
  [102; 114; 117; 103; 97; 108; 58; 34; 52; 44; 100; 101; 102; 97; 117; 108; 116; 44; 69; 109; 98; 34] true true.
Definition fU := mkGoField [85] GBool [106; 115; 111; 110; 58; 34; 117; 34] true false.

Definition gsA : gostruct := mkGoStruct [83] [fC; fx; fA; fB; fEmb; fU] None.
Definition gsA' : gostruct := mkGoStruct [83] [fC; fA; fB] None.

Definition dA := mkDField 1 (DT DString None None 0) RRequired false.
Definition dB := mkDField 2 (DT DSet None (Some (DT DI64 None None 0)) 0) ROptional false.
Definition dC := mkDField 3 (DT DI32 None None 0) RDefault false.

Example exA_resolves : resolve_fields gsA = ROk [dA 2%nat; dB 3%nat; dC 0%nat].
Proof. vm_compute. reflexivity. Qed.

Example exA_ignored : ignored fx = true /\ ignored fEmb = true /\ ignored fU = true
                      /\ ignored fC = false /\ ignored fA = false /\ ignored fB = false.
Proof. vm_compute. repeat split; reflexivity. Qed.

(* by the theorems *)
Example exA_sorted : StronglySorted N.lt [1; 2; 3].
Proof. exact (resolve_fields_sorted gsA _ exA_resolves). Qed.

Example exA_delete : schema_of (resolve_fields gsA)
                     = schema_of (resolve_fields (mkGoStruct [83] [fC; fA; fB; fEmb; fU] None)).
Proof. apply (resolve_fields_ignored _ _ [fC] fx [fA; fB; fEmb; fU]); reflexivity. Qed.

Example exA_delete_all : schema_of (resolve_fields gsA) = schema_of (resolve_fields gsA')
                         /\ resolve_fields gsA' = ROk [dA 1%nat; dB 2%nat; dC 0%nat].
Proof. split; vm_compute; reflexivity. Qed.

Example exA_members : In (dB 3%nat) [dA 2%nat; dB 3%nat; dC 0%nat] <->
  exists gf, nth_error (gs_fields gsA) 3 = Some gf /\ ignored gf = false /\
             resolve_one gf 3 [] = ROk (Some (dB 3%nat)).
Proof. exact (resolve_fields_members gsA _ exA_resolves (dB 3%nat)). Qed.

(* struct_of_schema / spellings_struct with the example type of TagsProofs:
     F  map[Color][]*Leaf  `frugal:"513,required, map <Color : list< base . Leaf>>"`
     u  ...                                          (ignored)
     G  string             `thrift:"n,2,default,string,nocopy"`        *)
Definition s_string : str := [115; 116; 114; 105; 110; 103].
Lemma string_prints : prints SString ([] ++ s_string).
Proof. apply (P_kw SString DString); [reflexivity|left; reflexivity|constructor]. Qed.
Lemma n_plain : Forall plain [110].
Proof. constructor; [split; discriminate|constructor]. Qed.

Definition spF := mkSpec 513 ex_t RRequired false.
Definition spG := mkSpec 2 SString RDefault true.
Definition gF1 := fld (go_of ex_t) (mk_frugal_tag 513 RRequired ex_s false).
Definition gG1 := fld GString (mk_thrift_tag [110] 2 RDefault ([] ++ s_string) true).
Definition gs1 := mkGoStruct [83] [gF1; fx; gG1] None.

Lemma spF_ok : spec_ok spF. Proof. repeat split; try reflexivity. intros H; discriminate H. Qed.
Lemma spG_ok : spec_ok spG. Proof. repeat split; reflexivity. Qed.

Lemma gs1_matches : Forall2 field_matches (gs_fields gs1) [Some spF; None; Some spG].
Proof.
  constructor; [|constructor; [|constructor; [|constructor]]].
  - split; [exact spF_ok|]. repeat split. apply carries_mk_frugal. exact ex_prints.
  - reflexivity.
  - split; [exact spG_ok|]. repeat split. apply carries_mk_thrift; [exact string_prints|exact n_plain].
Qed.

Example ex1_by_theorem :
  resolve_fields gs1 = ROk (sort_by_id (fields_of O [Some spF; None; Some spG])).
Proof. apply struct_of_schema; [exact gs1_matches|]. repeat constructor; cbn; intuition discriminate. Qed.

Example ex1_by_computation :
  resolve_fields gs1 = ROk [mkDField 2 (DT DString None None 0) RDefault true 2;
                            mkDField 513 (dt_of ex_t) RRequired false 0].
Proof. vm_compute. reflexivity. Qed.

(* the other carrier, the other spelling *)
Definition s_binary_string : str := [32; 115; 116; 114; 105; 110; 103].    (* " string" *)
Definition ex_s2 : str :=                                                  (* map<Color:list<Leaf>> *)
  [] ++ s_map ++ [] ++ [60] ++ ([] ++ n_Color) ++ [] ++ [58]
     ++ ([] ++ s_list ++ [] ++ [60] ++ ([] ++ n_Leaf) ++ [] ++ [62]) ++ [] ++ [62].
Lemma ex_prints2 : prints ex_t ex_s2.
Proof.
  unfold ex_t, ex_s2. apply P_map; try apply nil_spaces.
  - apply P_name; [reflexivity|reflexivity|apply nil_spaces].
  - apply P_list; try apply nil_spaces. apply P_ptr. apply P_name; [reflexivity|exact I|apply nil_spaces].
Qed.
Definition gF2 := fld (go_of ex_t) (mk_thrift_tag [110] 513 RRequired ex_s2 false).
Definition gG2 := fld GString (mk_frugal_tag 2 RDefault ([32] ++ s_string) true).
Definition gs2 := mkGoStruct [84] [gF2; fU; gG2] None.

Lemma gs2_matches : Forall2 field_matches (gs_fields gs2) [Some spF; None; Some spG].
Proof.
  constructor; [|constructor; [|constructor; [|constructor]]].
  - split; [exact spF_ok|]. repeat split. apply carries_mk_thrift; [exact ex_prints2|exact n_plain].
  - reflexivity.
  - split; [exact spG_ok|]. repeat split. apply carries_mk_frugal.
    apply (P_kw SString DString); [reflexivity|left; reflexivity|exact sp1_spaces].
Qed.

Example ex_spellings : resolve_fields gs1 = resolve_fields gs2.
Proof. exact (spellings_struct gs1 gs2 _ gs1_matches gs2_matches). Qed.

(* omitted requiredness and annotation *)
Example ex_id_only :
  resolve_fields (one (GMap GString (GPtr (GStruct 4 [76]))) [32; 55; 32])          (* frugal:" 7 " *)
  = ROk [mkDField 7 (DT DMap (Some (DT DString None None 0))
                       (Some (DT DPointer None (Some (DT DStruct None None 4)) 0)) 0) RDefault false 0].
Proof. vm_compute. reflexivity. Qed.

(* ---- B: one rejected definition per class ---- *)
Definition two (t1 : gotype) (v1 : str) (t2 : gotype) (v2 : str) : gostruct :=
  mkGoStruct [83] [fld t1 (fr v1); fU; fld t2 (fr v2)] None.

Example rejected_classes :
  (* duplicate id *)
  resolve_fields (two GInt32 [51; 44; 100; 101; 102; 97; 117; 108; 116; 44; 105; 51; 50]
                      (GInt64 []) [51; 44; 100; 101; 102; 97; 117; 108; 116; 44; 105; 54; 52]) = RErr
  (* non-numeric id: "x1", "-1", "" *)
  /\ resolve_fields (one GInt32 [120; 49]) = RErr
  /\ resolve_fields (one GInt32 [45; 49]) = RErr
  /\ resolve_fields (one GInt32 []) = RErr
  (* id out of range: "65536" *)
  /\ resolve_fields (one GInt32 [54; 53; 53; 51; 54]) = RErr
  (* unknown requiredness: "1,mandatory", "1,Required" *)
  /\ resolve_fields (one GInt32 [49; 44; 109; 97; 110; 100; 97; 116; 111; 114; 121]) = RErr
  /\ resolve_fields (one GInt32 [49; 44; 82; 101; 113; 117; 105; 114; 101; 100]) = RErr
  (* unknown option: "1,default,string,zerocopy" *)
  /\ resolve_fields (one GString [49; 44; 100; 101; 102; 97; 117; 108; 116; 44; 115; 116; 114; 105; 110; 103; 44; 122; 101; 114; 111; 99; 111; 112; 121]) = RErr
  (* nocopy on a non-string: "1,default,i32,nocopy"; nocopy twice *)
  /\ resolve_fields (one GInt32 [49; 44; 100; 101; 102; 97; 117; 108; 116; 44; 105; 51; 50; 44; 110; 111; 99; 111; 112; 121]) = RErr
  /\ resolve_fields (one GString [49; 44; 100; 101; 102; 97; 117; 108; 116; 44; 115; 116; 114; 105; 110; 103; 44; 110; 111; 99; 111; 112; 121; 44; 110; 111; 99; 111; 112; 121]) = RErr
  (* Go kinds Thrift cannot express: uint (GUnsup), a byte, []uint *)
  /\ resolve_fields (one (GUnsup 7) [49]) = RErr
  /\ resolve_fields (one GUint8 [49]) = RErr
  /\ resolve_fields (one (GSlice (GUnsup 7)) [49; 44; 100; 101; 102; 97; 117; 108; 116; 44; 108; 105; 115; 116; 60; 105; 51; 50; 62]) = RErr
  (* a slice without annotation: "1", and inside a map *)
  /\ resolve_fields (one (GSlice GInt32) [49]) = RErr
  /\ resolve_fields (one (GMap GString (GSlice GInt32)) [49]) = RErr
  (* the annotation contradicts the Go type: "i32" on int64, "list<i32>" on a map,
     "map<string:i32>" on a slice, "list<i32>" on []int64 *)
  /\ resolve_fields (one (GInt64 []) [49; 44; 100; 101; 102; 97; 117; 108; 116; 44; 105; 51; 50]) = RErr
  /\ resolve_fields (one (GMap GString GInt32) [49; 44; 100; 101; 102; 97; 117; 108; 116; 44; 108; 105; 115; 116; 60; 105; 51; 50; 62]) = RErr
  /\ resolve_fields (one (GSlice GInt32) [49; 44; 100; 101; 102; 97; 117; 108; 116; 44; 109; 97; 112; 60; 115; 116; 114; 105; 110; 103; 58; 105; 51; 50; 62]) = RErr
  /\ resolve_fields (one (GSlice (GInt64 [])) [49; 44; 100; 101; 102; 97; 117; 108; 116; 44; 108; 105; 115; 116; 60; 105; 51; 50; 62]) = RErr
  (* broken syntax: "list<i32>>", "list<i32" *)
  /\ resolve_fields (one (GSlice GInt32) [49; 44; 100; 101; 102; 97; 117; 108; 116; 44; 108; 105; 115; 116; 60; 105; 51; 50; 62; 62]) = RErr
  /\ resolve_fields (one (GSlice GInt32) [49; 44; 100; 101; 102; 97; 117; 108; 116; 44; 108; 105; 115; 116; 60; 105; 51; 50]) = RErr
  (* pointer to pointer, pointer to a container *)
  /\ resolve_fields (one (GPtr (GPtr GInt32)) [49; 44; 111; 112; 116; 105; 111; 110; 97; 108]) = RErr
  /\ resolve_fields (one (GPtr (GMap GString GInt32)) [49; 44; 111; 112; 116; 105; 111; 110; 97; 108]) = RErr
  (* non-struct pointers where only values are allowed: []*int32; *int32 not optional *)
  /\ resolve_fields (one (GSlice (GPtr GInt32)) [49; 44; 100; 101; 102; 97; 117; 108; 116; 44; 108; 105; 115; 116; 60; 105; 51; 50; 62]) = RErr
  /\ resolve_fields (one (GPtr GInt32) [49]) = RErr
  (* invalid map keys: []byte, a struct by value, a map *)
  /\ resolve_fields (one (GMap (GSlice GUint8) GInt32) [49; 44; 100; 101; 102; 97; 117; 108; 116; 44; 109; 97; 112; 60; 98; 105; 110; 97; 114; 121; 58; 105; 51; 50; 62]) = RErr
  /\ resolve_fields (one (GMap (GStruct 1 [76]) GInt32) [49]) = RErr
  /\ resolve_fields (one (GMap (GMap GString GInt32) GInt32) [49]) = RErr
  (* a thrift tag with only the name *)
  /\ resolve_fields (mkGoStruct [83] [fld GInt32 [116; 104; 114; 105; 102; 116; 58; 34; 97; 34]] None) = RErr.
Proof. repeat split; vm_compute; reflexivity. Qed.

(* the same through the theorems *)
Definition dupS := two GInt32 [51; 44; 100; 101; 102; 97; 117; 108; 116; 44; 105; 51; 50]
                       (GInt64 []) [51; 44; 100; 101; 102; 97; 117; 108; 116; 44; 105; 54; 52].
Example dup_by_theorem : resolve_fields dupS = RErr.
Proof.
  eapply (duplicate_id_rejected_nth dupS 0 2 _ _ 3);
    [reflexivity|reflexivity|discriminate|reflexivity|reflexivity].
Qed.

Example unsup_by_theorem : forall v idx seen,
  lookup_struct_tag (fr v) <> None -> resolve_one (fld (GMap GString (GSlice (GUnsup 3))) (fr v)) idx seen = RErr.
Proof.
  intros v idx seen H. destruct (lookup_struct_tag (fr v)) as [ft|] eqn:E; [|congruence].
  apply (unsupported_field_rejected _ ft); [repeat split; exact E|reflexivity].
Qed.

Example key_by_theorem : forall annot def allow,
  parse_type (GMap (GPtr GString) GInt32) annot def allow = RErr.
Proof. intros. apply bad_map_key_rejected. reflexivity. Qed.

Example mismatch_by_theorem : forall rest allow,
  parse_type (GInt64 []) true ([105; 51; 50] ++ 62 :: rest) allow = RErr.        (* "i32>..." *)
Proof. intros rest allow. apply (head_mismatch_rejected _ _ allow [105; 51; 50] (62 :: rest)); reflexivity. Qed.

(* rejected_everywhere: struct 0 holds []*struct1 in a map; struct 1 is rejected;
   struct 2 is fine *)
Definition u0 := one (GMap GString (GSlice (GPtr (GStruct 1 [76]))))
  [49; 44; 100; 101; 102; 97; 117; 108; 116; 44; 109; 97; 112; 60; 115; 116; 114; 105; 110; 103; 58; 108; 105; 115; 116; 60; 76; 62; 62].
Definition u1 := one (GUnsup 7) [49].
Definition u2 := one GInt32 [49].
Definition gu := [u0; u1; u2].

Example ex_everywhere : accepted gu 0 = false /\ accepted gu 1 = false /\ accepted gu 2 = true
                        /\ (exists l, resolve_fields u0 = ROk l).
Proof. repeat split; try (vm_compute; reflexivity). eexists. vm_compute. reflexivity. Qed.

Example ex_everywhere_by_theorem : accepted gu 0 = false.
Proof.
  eapply (rejected_via_field gu 0 u0 _ 1 u1);
    [reflexivity|left; reflexivity|reflexivity|left; reflexivity|reflexivity|reflexivity].
Qed.

(* ---- C ---- *)
(* acceptance: an accepted type stays accepted ... *)
Example ex_mono : accepted ([u2] ++ [u1]) 0 = true.
Proof. apply accepted_app_mono. reflexivity. Qed.

(* ... but a type that names a struct outside the universe is rejected only until
   that struct is supplied (so [universe_closed] is needed in accepted_app_closed) *)
Definition w0 := one (GPtr (GStruct 1 [76])) [49].
Example append_can_accept : accepted [w0] 0 = false /\ accepted ([w0] ++ [u2]) 0 = true.
Proof. split; vm_compute; reflexivity. Qed.

(* descriptors: with InitDefault, the exemplar of a by-value struct field depends
   on that struct's definition; if it lies outside the universe, appending it
   changes the descriptor (so [byvalue_closed] is needed in build_env_app) *)
Definition v0 := mkGoStruct [83] [fld (GStruct 1 [76]) (fr [49])] (Some []).
Example append_changes_descriptor :
  nth_error (build_env ([v0] ++ [u2])) 0 <> nth_error (build_env [v0]) 0.
Proof. vm_compute. discriminate. Qed.

(* ... and so does a struct holding itself by value (impossible in Go; the
   model's fuel shows: [byvalue_ranked] is needed) *)
Definition self0 := mkGoStruct [83] [fld (GStruct 0 [83]) (fr [49])] (Some []).
Example append_changes_self :
  nth_error (build_env ([self0] ++ [u2])) 0 <> nth_error (build_env [self0]) 0.
Proof. vm_compute. discriminate. Qed.

(* the hypotheses of build_env_app hold for a well-formed universe *)
Definition inner := mkGoStruct [76] [fld GInt32 (fr [49])] (Some [(O, VS 5)]).
Definition outer := mkGoStruct [83] [fld (GStruct 1 [76]) (fr [49]); fld (GPtr (GStruct 0 [83])) (fr [50])] (Some []).
Definition guC := [outer; inner].
Definition rankC (s : N) : nat := if s =? 0 then 1%nat else 0%nat.

Lemma guC_cases : forall sid sd, lookup_sd (env_types guC) sid = Some sd ->
  (sid = 0 /\ sd = nth 0 (env_types guC) empty_sd) \/ (sid = 1 /\ sd = nth 1 (env_types guC) empty_sd).
Proof.
  intros sid sd H. destruct sid as [|[p|p|]].
  - left. split; [reflexivity|]. vm_compute in H. injection H as <-. reflexivity.
  - exfalso. unfold lookup_sd in H. replace (len (env_types guC) <=? N.pos p~1) with true in H; [discriminate H|].
    symmetry. apply N.leb_le. change (len (env_types guC)) with 2. lia.
  - exfalso. unfold lookup_sd in H. replace (len (env_types guC) <=? N.pos p~0) with true in H; [discriminate H|].
    symmetry. apply N.leb_le. change (len (env_types guC)) with 2. lia.
  - right. split; [reflexivity|]. vm_compute in H. injection H as <-. reflexivity.
Qed.

Lemma guC_closed : byvalue_closed (env_types guC).
Proof.
  intros sid sd f s' H Hin Hf. destruct (guC_cases sid sd H) as [[-> ->]|[-> ->]]; vm_compute in Hin.
  - destruct Hin as [<-|[<-|[]]]; [injection Hf as <-; vm_compute; lia|discriminate Hf].
  - destruct Hin as [<-|[]]. discriminate Hf.
Qed.

Lemma guC_ranked : byvalue_ranked (env_types guC) rankC.
Proof.
  split.
  - intros sid sd f s' H Hin Hf. destruct (guC_cases sid sd H) as [[-> ->]|[-> ->]]; vm_compute in Hin.
    + destruct Hin as [<-|[<-|[]]]; [injection Hf as <-; vm_compute; lia|discriminate Hf].
    + destruct Hin as [<-|[]]. discriminate Hf.
  - intros s. unfold rankC. change (length (env_types guC)) with 2%nat. destruct (s =? 0); lia.
Qed.

Example ex_build_env_local : forall ex i, (i < 2)%nat ->
  nth_error (build_env (guC ++ ex)) i = nth_error (build_env guC) i.
Proof. intros ex i Hi. exact (build_env_app guC ex rankC guC_closed guC_ranked i Hi). Qed.

(* the default exemplar of [outer]'s by-value field is the default-free zero
   value of [inner] *)
Example ex_build_env_value :
  option_map (fun sd => map fdflt (sfields sd)) (nth_error (build_env guC) 0)
  = Some [Some (VT [VS 0] []); None].
Proof. vm_compute. reflexivity. Qed.

End StructEx.

Print Assumptions resolve_fields_sorted.
Print Assumptions resolve_fields_iff.
Print Assumptions resolve_fields_members.
Print Assumptions resolve_fields_ignored.
Print Assumptions resolve_fields_ignored_replace.
Print Assumptions resolve_fields_complete.
Print Assumptions resolve_fields_schema.
Print Assumptions struct_of_schema.
Print Assumptions spellings_struct.
Print Assumptions resolve_frugal_id_req.
Print Assumptions parse_type_shape.
Print Assumptions unsupported_kind_rejected.
Print Assumptions bare_slice_rejected.
Print Assumptions head_mismatch_rejected.
Print Assumptions ptr_container_rejected.
Print Assumptions bad_map_key_rejected.
Print Assumptions ptr_elem_rejected.
Print Assumptions nocopy_nonstring_rejected.
Print Assumptions ptr_needs_optional.
Print Assumptions parse_uint16_print_big.
Print Assumptions resolve_fields_err_iff.
Print Assumptions duplicate_id_rejected_nth.
Print Assumptions rejected_everywhere.
Print Assumptions rejected_via_field.
Print Assumptions accepted_app_closed.
Print Assumptions build_env_app.
