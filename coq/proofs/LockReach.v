(* LockReach.v -- what "locked function" means.  Checks.unlocked_fns is computed by iterating
   reach_step from the entry points (exported functions and init functions); access_ok asks (closed_under) that the result contains
   the entry points and is closed under the edges of the call graph cut at createStructDesc, and
   (disjoint) that no locked function is in it.  Then no call path from an entry point that avoids
   createStructDesc ends in a locked function: a function of locked_fns is entered only below
   createStructDesc, which holds the registration lock (create_locked_shape).

   Everything here is generic in the lists and the edge relation; the two boolean facts about the
   generated call graph are discharged by evaluation in proofs/GenAccess.v.  (Unfolding the
   computed lists inside a proof would make the kernel compare them by lazy evaluation of the whole
   reachability computation.) *)
From Coq Require Import List String Bool.
From Frugal Require Import Checks.
Import ListNotations.
Local Open Scope string_scope.

Lemma str_in_In s l : str_in s l = true <-> In s l.
Proof.
  unfold str_in. rewrite existsb_exists. split.
  - intros [x [Hin He]]. apply String.eqb_eq in He. subst. exact Hin.
  - intros Hin. exists s. split; [exact Hin | apply String.eqb_refl].
Qed.

Section Reach.
  Variables (entries fns : list string) (e : string -> string -> bool).

  (* reachable from an entry point along edges *)
  Inductive reach : string -> Prop :=
  | reach_entry x : In x entries -> reach x
  | reach_edge p q : reach p -> In q fns -> e p q = true -> reach q.

  Theorem reach_closed u :
    closed_under entries fns e u = true -> forall q, reach q -> In q u.
  Proof.
    unfold closed_under, subset. intros Hc q Hr.
    apply andb_true_iff in Hc. destruct Hc as [Hent Hcl].
    induction Hr as [x Hx | p q Hr IH Hq He].
    - rewrite forallb_forall in Hent. apply str_in_In. apply Hent. exact Hx.
    - rewrite forallb_forall in Hcl. specialize (Hcl p IH).
      rewrite forallb_forall in Hcl. specialize (Hcl q Hq).
      rewrite He in Hcl. apply str_in_In. exact Hcl.
  Qed.

  Theorem locked_not_reached u l :
    closed_under entries fns e u = true -> disjoint l u = true ->
    forall q, In q l -> ~ reach q.
  Proof.
    intros Hc Hd q Hq Hr. apply (reach_closed u Hc) in Hr.
    unfold disjoint in Hd. rewrite forallb_forall in Hd. specialize (Hd q Hq).
    apply str_in_In in Hr. rewrite Hr in Hd. discriminate Hd.
  Qed.
End Reach.

(* the premises are satisfiable and the conclusion is not vacuous: a three-function graph *)
Example reach_example :
  let ed := fun p q : string => (String.eqb p "A" && String.eqb q "b")%bool in
  closed_under ["A"] ["A"; "b"; "c"] ed ["A"; "b"] = true /\ disjoint ["c"] ["A"; "b"] = true
  /\ reach ["A"] ["A"; "b"; "c"] ed "b".
Proof.
  repeat split; try reflexivity.
  apply reach_edge with (p := "A"); [apply reach_entry; left; reflexivity | right; left; reflexivity | reflexivity].
Qed.
