(* BufferContract.v -- frugal.EncodeObject: the caller's array. *)
From Coq Require Import List Arith NArith Bool Lia ZifyN ZifyNat ZifyBool.
From Frugal Require Import Bytes Encode.
Import ListNotations.
Open Scope N_scope.

Lemma buffer_contract : forall env sid arr blen v,
  (blen <= len arr) ->
  match encode_object env sid arr blen v with
  | EncOk n arr' => n = len (append_struct env sid v) /\ n <= blen
                    /\ firstn (N.to_nat n) arr' = append_struct env sid v
                    /\ skipn (N.to_nat n) arr' = skipn (N.to_nat n) arr
  | EncErr arr' => blen < len (append_struct env sid v) /\ arr' = arr
  end.
Proof.
  intros env sid arr blen v Hb. unfold encode_object.
  set (out := append_struct env sid v).
  destruct (len out <=? blen) eqn:E.
  - apply N.leb_le in E.
    assert (Hn : N.to_nat (len out) = length out) by (unfold len; lia).
    rewrite Hn. repeat split; try assumption.
    + rewrite firstn_app, Nat.sub_diag, firstn_all. cbn [firstn]. apply app_nil_r.
    + rewrite skipn_app, Nat.sub_diag, skipn_all. reflexivity.
  - apply N.leb_gt in E. split; [exact E | reflexivity].
Qed.
