(* GenCacheKey.v -- side condition on the generated files, re-proved on every run against what the
   translator read from the Go sources. *)
From Frugal Require Import CacheChecks.

Lemma cache_key_ok_holds : cache_key_ok = true.
Proof. vm_compute. reflexivity. Qed.
