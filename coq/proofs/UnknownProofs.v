(* UnknownProofs.v -- the recorder hands a decode exactly the extents that decode recorded:
   nothing of an earlier decode (whatever state the pooled object was left in), nothing of the
   uninitialised allocation. *)
From Coq Require Import List PeanoNat NArith Bool Lia ZifyN ZifyNat ZifyBool.
From Frugal Require Import Bytes Unknown.
Import ListNotations.
Open Scope N_scope.

Definition sum_sz (l : list (N * N)) : N := fold_right (fun a s => snd a + s) 0 l.

Lemma adds_state : forall adds q,
  fold_left (fun q a => uf_add q (fst a) (snd a)) adds q
  = mkUfs (uf_sz q + sum_sz adds) (uf_offs q ++ adds).
Proof.
  induction adds as [|[o s] r IH]; intros q; cbn [fold_left sum_sz fold_right fst snd].
  - destruct q as [z l]. cbn [uf_sz uf_offs]. rewrite N.add_0_r, app_nil_r. reflexivity.
  - rewrite IH. unfold uf_add. cbn [uf_sz uf_offs fst snd]. rewrite <- app_assoc. cbn [app].
    f_equal. change (fold_right (fun a s0 => snd a + s0) 0 r) with (sum_sz r). lia.
Qed.

Lemma len_firstn_skipn : forall (b : list N) off sz, off + sz <= len b ->
  len (firstn (N.to_nat sz) (skipn (N.to_nat off) b)) = sz.
Proof.
  intros b off sz H. unfold len in *. rewrite firstn_length, skipn_length. lia.
Qed.

Lemma gather_len : forall b l g, gather b l = Some g -> len g = sum_sz l.
Proof.
  induction l as [|[o s] r IH]; intros g H; cbn [gather] in H.
  - injection H as <-. reflexivity.
  - unfold slice in H. destruct (o + s <=? len b) eqn:E; [|discriminate H].
    destruct (gather b r) as [t|] eqn:G; [|discriminate H]. injection H as <-.
    cbn [sum_sz fold_right snd]. change (fold_right (fun a s0 => snd a + s0) 0 r) with (sum_sz r).
    rewrite <- (IH t eq_refl). apply N.leb_le in E.
    pose proof (len_firstn_skipn b o s E) as L. unfold len in *. rewrite app_length. lia.
Qed.

(* one decode's use of the recorder, from ANY prior state of the pooled object and whatever the
   fresh allocation contains: exactly the recorded extents, in order *)
Theorem session_exact : forall p b adds junk g,
  gather b adds = Some g ->
  uf_session p b adds junk = Some g.
Proof.
  intros p b adds junk g H. unfold uf_session. rewrite adds_state. unfold uf_reset, uf_size.
  cbn [uf_sz uf_offs app]. rewrite N.add_0_l.
  pose proof (gather_len b adds g H) as L.
  destruct (sum_sz adds =? 0) eqn:Z.
  - apply N.eqb_eq in Z. rewrite Z in L. destruct g as [|x g]; [reflexivity|]. unfold len in L. cbn [length] in L. lia.
  - unfold uf_copy. cbn [uf_offs uf_sz]. rewrite H. f_equal.
    rewrite <- L. unfold len. rewrite Nat2N.id. rewrite firstn_app, Nat.sub_diag. cbn [firstn].
    rewrite app_nil_r. apply firstn_all.
Qed.

(* Size is the number of bytes Copy returns *)
Theorem session_size : forall p adds,
  uf_size (fold_left (fun q a => uf_add q (fst a) (snd a)) adds (uf_reset p)) = sum_sz adds.
Proof. intros p adds. rewrite adds_state. unfold uf_reset, uf_size. cbn [uf_sz]. lia. Qed.

(* an extent outside the input is Go's slice-bounds panic, never a wild read *)
Theorem session_bounds : forall p b adds junk,
  gather b adds = None -> sum_sz adds <> 0 -> uf_session p b adds junk = None.
Proof.
  intros p b adds junk H Z. unfold uf_session. rewrite adds_state. unfold uf_reset, uf_size.
  cbn [uf_sz uf_offs app]. rewrite N.add_0_l. apply N.eqb_neq in Z. rewrite Z.
  unfold uf_copy. cbn [uf_offs]. rewrite H. reflexivity.
Qed.

(* without the Reset the result depends on the previous decode: the hypothesis-free statement needs it *)
Example stale_without_reset :
  let p := uf_add uf_new 0 2 in
  uf_copy (uf_add p 2 1) [10; 11; 12] [] = Some [10; 11; 12]
  /\ uf_session p [10; 11; 12] [(2, 1)] [] = Some [12].
Proof. split; vm_compute; reflexivity. Qed.

Print Assumptions session_exact.
