(* DecodeSafe.v -- "malformed input is rejected with an error, never a crash":
   on every byte list the decoder model returns DOk or DErr, never DPanic
   (Go run-time panic) and never DFuel (the fuel of the loops is sufficient);
   the model of the external skipper never runs out of fuel either. *)
From Coq Require Import List NArith Bool Lia ZifyN ZifyNat ZifyBool Arith.
From Frugal Require Import Bytes Wire Skip Values Desc Spec Decode Checks.
From Frugal.gen Require Import Params.
From Frugal.proofs Require Import BytesWire EncodeSpec ParamsSplit.
Import ListNotations.
Open Scope N_scope.

(* ------------------------------------------------------------------ *)
(* what is used of dec_params_ok                                            *)
(* ------------------------------------------------------------------ *)

Lemma params_split : dec_params_ok = true ->
  codes_ok = true /\ fixed_ok = true /\ minwire_ok = true /\ 0 < maxDepthLimit.
Proof.
  intros H.
  exact (conj (dec_codes H) (conj (dec_fixed H) (conj (dec_minwire H) (dec_depth_pos H)))).
Qed.

Lemma header_lens : dec_params_ok = true ->
  mapHeaderLen = 6 /\ listHeaderLen = 5 /\ strHeaderLen = 4.
Proof.
  intros HP. destruct (params_split HP) as [H _]. unfold codes_ok in H.
  apply andb_prop in H. destruct H as [H H3]. apply N.eqb_eq in H3.
  apply andb_prop in H. destruct H as [H H2]. apply N.eqb_eq in H2.
  apply andb_prop in H. destruct H as [H H1]. apply N.eqb_eq in H1.
  repeat split; assumption.
Qed.

Lemma wt_in_codes : dec_params_ok = true -> forall t, In (wt t) wire_codes.
Proof.
  intros HP.
  destruct (codes_eqs (dec_enc HP)) as (E0 & E1 & E2 & E3 & E4 & E5 & E6 & E7 & E8 & E9 & E10 & E11).
  induction t as [| | | | | | | | |b e IH|k IHk v IHv|sid|t IH]; cbn [wt];
    try exact IH; try destruct b;
    rewrite ?E1, ?E2, ?E3, ?E4, ?E5, ?E6, ?E7, ?E8, ?E9, ?E10, ?E11;
    unfold wire_codes; in_list.
Qed.

Lemma minwire_pos : dec_params_ok = true -> forall t, 0 < min_wire (wt t).
Proof.
  intros HP t. destruct (params_split HP) as (_ & _ & H & _).
  unfold minwire_ok in H. apply andb_prop in H. destruct H as [H _].
  rewrite forallb_forall in H. specialize (H _ (wt_in_codes HP t)). cbv beta in H.
  apply andb_prop in H. destruct H as [H _]. apply N.ltb_lt in H. exact H.
Qed.

Lemma scalar_sizes : dec_params_ok = true -> forall t, is_scalar_ty t = true ->
  fixed_size t = wire_width t /\ min_wire (wt t) = wire_width t.
Proof.
  intros HP t Ht. destruct (params_split HP) as (_ & HF & HM & _).
  unfold fixed_ok in HF. apply andb_prop in HF. destruct HF as [HF _].
  unfold minwire_ok in HM. apply andb_prop in HM. destruct HM as [_ HM].
  rewrite forallb_forall in HF, HM.
  assert (Hin : In t scalar_tys) by (unfold scalar_tys; destruct t; try discriminate Ht; in_list).
  specialize (HF _ Hin). specialize (HM _ Hin). cbv beta in HF, HM.
  apply N.eqb_eq in HF, HM. split; assumption.
Qed.

Lemma nonscalar_size : dec_params_ok = true -> forall t,
  is_scalar_ty t = false -> is_ptr t = false -> fixed_size t = 0.
Proof.
  intros HP t Hs Hq. destruct (params_split HP) as (_ & HF & _ & _).
  unfold fixed_ok in HF. apply andb_prop in HF. destruct HF as [_ HF].
  rewrite forallb_forall in HF.
  assert (Hr : exists t', In t' other_tys /\ fixed_size t = fixed_size t').
  { unfold other_tys. destruct t as [| | | | | | | | |b e|k v|sid|t]; try discriminate Hs; try discriminate Hq.
    - exists TString. split; [in_list|reflexivity].
    - exists TBinary. split; [in_list|reflexivity].
    - destruct b; [exists (TList true TI32)|exists (TList false TI32)]; (split; [in_list|reflexivity]).
    - exists (TMap TI32 TI32). split; [in_list|reflexivity].
    - exists (TStruct 0). split; [in_list|reflexivity]. }
  destruct Hr as (t' & Hin & ->). specialize (HF _ Hin). cbv beta in HF.
  apply N.eqb_eq in HF. exact HF.
Qed.

Lemma fixed_size_deref : forall t, fixed_size (deref_ty t) = fixed_size t.
Proof. intros t. destruct t; reflexivity. Qed.

(* list elements of fixed kinds are read without a further check: the count
   check of dec_list uses exactly their width *)
Lemma fixed_minwire : dec_params_ok = true -> forall t,
  0 < fixed_size t -> min_wire (wt t) = fixed_size t.
Proof.
  intros HP. induction t as [| | | | | | | | |b e IH|k IHk v IHv|sid|t IH]; intros H;
    try (match goal with |- _ = fixed_size ?t =>
           destruct (scalar_sizes HP t eq_refl) as [-> ->]; reflexivity end);
    try (match goal with |- _ = fixed_size ?t =>
           rewrite (nonscalar_size HP t eq_refl eq_refl) in H; lia end).
  exact (IH H).
Qed.

(* ------------------------------------------------------------------ *)
(* the skipper never runs out of fuel                                   *)
(* ------------------------------------------------------------------ *)

Lemma SOk_inj : forall a b, SOk a = SOk b -> a = b.
Proof. intros a b H. congruence. Qed.

Lemma skipstr_pos : forall bs n, skipstr bs = SOk n -> 1 <= n.
Proof.
  unfold skipstr. intros bs n.
  destruct (4 <=? len bs); [|discriminate].
  destruct (neg32 (be_get (firstn 4 bs))); [discriminate|].
  destruct (4 + be_get (firstn 4 bs) <=? len bs); [|discriminate].
  intros H. apply SOk_inj in H; subst n. lia.
Qed.

Lemma skipstr_nofuel : forall bs, skipstr bs <> SFuel.
Proof.
  unfold skipstr. intros bs.
  destruct (4 <=? len bs); [|discriminate].
  destruct (neg32 (be_get (firstn 4 bs))); [discriminate|].
  destruct (4 + be_get (firstn 4 bs) <=? len bs); discriminate.
Qed.

Section SkipLoopUnfold.
  Variable sk : N -> list N -> sres.

  Lemma skip_elems_S : forall fuel vt vsz bs i j,
    skip_elems sk (S fuel) vt vsz bs i j =
    if j =? 0 then SOk i
    else if len bs <=? i then SErr SkShort
    else match skip_one sk vsz vt (drop i bs) with
         | SOk vi => skip_elems sk fuel vt vsz bs (i + vi) (j - 1)
         | e => e
         end.
  Proof. reflexivity. Qed.

  Lemma skip_elems_0 : forall vt vsz bs i j,
    skip_elems sk O vt vsz bs i j = if j =? 0 then SOk i else SFuel.
  Proof. reflexivity. Qed.

  Lemma skip_elems_ge : forall fuel vt vsz bs i j n,
    skip_elems sk fuel vt vsz bs i j = SOk n -> i <= n.
  Proof.
    induction fuel as [|f IH]; intros vt vsz bs i j n.
    - rewrite skip_elems_0. destruct (j =? 0); [|discriminate].
      intros H. apply SOk_inj in H; subst n. lia.
    - rewrite skip_elems_S. destruct (j =? 0).
      { intros H. apply SOk_inj in H; subst n. lia. }
      destruct (len bs <=? i); [discriminate|].
      destruct (skip_one sk vsz vt (drop i bs)) as [vi|e| |]; try discriminate.
      intros H. apply IH in H. lia.
  Qed.

  Lemma skip_entries_S : forall fuel kt vt ksz vsz bs i j,
    skip_entries sk (S fuel) kt vt ksz vsz bs i j =
    if j =? 0 then SOk i
    else if len bs <=? i then SErr SkShort
    else match skip_one sk ksz kt (drop i bs) with
         | SOk ki =>
             if len bs <=? i + ki then SErr SkShort
             else match skip_one sk vsz vt (drop (i + ki) bs) with
                  | SOk vi => skip_entries sk fuel kt vt ksz vsz bs (i + ki + vi) (j - 1)
                  | e => e
                  end
         | e => e
         end.
  Proof. reflexivity. Qed.

  Lemma skip_entries_0 : forall kt vt ksz vsz bs i j,
    skip_entries sk O kt vt ksz vsz bs i j = if j =? 0 then SOk i else SFuel.
  Proof. reflexivity. Qed.

  Lemma skip_entries_ge : forall fuel kt vt ksz vsz bs i j n,
    skip_entries sk fuel kt vt ksz vsz bs i j = SOk n -> i <= n.
  Proof.
    induction fuel as [|f IH]; intros kt vt ksz vsz bs i j n.
    - rewrite skip_entries_0. destruct (j =? 0); [|discriminate].
      intros H. apply SOk_inj in H; subst n. lia.
    - rewrite skip_entries_S. destruct (j =? 0).
      { intros H. apply SOk_inj in H; subst n. lia. }
      destruct (len bs <=? i); [discriminate|].
      destruct (skip_one sk ksz kt (drop i bs)) as [ki|e| |]; try discriminate.
      destruct (len bs <=? i + ki); [discriminate|].
      destruct (skip_one sk vsz vt (drop (i + ki) bs)) as [vi|e| |]; try discriminate.
      intros H. apply IH in H. lia.
  Qed.

  Lemma skip_fields_S : forall fuel bs i,
    skip_fields sk (S fuel) bs i =
    match nthN bs i with
    | None => SErr SkShort
    | Some ft =>
        if ft =? gk_STOP then SOk (i + 1)
        else if len bs <=? i + 3 then SErr SkShort
        else if neg8 ft then SPanic
        else match skip_one sk (gk_size ft) ft (drop (i + 3) bs) with
             | SOk fi => skip_fields sk fuel bs (i + 3 + fi)
             | e => e
             end
    end.
  Proof. reflexivity. Qed.

  Lemma skip_fields_pos : forall fuel bs i n, skip_fields sk fuel bs i = SOk n -> 1 <= n.
  Proof.
    induction fuel as [|f IH]; intros bs i n.
    - cbn [skip_fields]. discriminate.
    - rewrite skip_fields_S. destruct (nthN bs i) as [ft|]; [|discriminate].
      destruct (ft =? gk_STOP). { intros H. apply SOk_inj in H; subst n. lia. }
      destruct (len bs <=? i + 3); [discriminate|].
      destruct (neg8 ft); [discriminate|].
      destruct (skip_one sk (gk_size ft) ft (drop (i + 3) bs)) as [fi|e| |]; try discriminate.
      apply IH.
  Qed.

End SkipLoopUnfold.

Section SkipLoopFacts.
  Variable sk : N -> list N -> sres.
  Hypothesis sk_pos : forall t bs n, sk t bs = SOk n -> 1 <= n.
  Hypothesis sk_nofuel : forall t bs, sk t bs <> SFuel.

  Lemma skip_one_pos : forall sz t bs n, skip_one sk sz t bs = SOk n -> 1 <= n.
  Proof.
    unfold skip_one. intros sz t bs n.
    destruct (0 <? sz) eqn:E.
    - intros H. apply SOk_inj in H; subst n. apply N.ltb_lt in E. lia.
    - destruct (t =? gk_STRING); [apply skipstr_pos|apply sk_pos].
  Qed.

  Lemma skip_one_nofuel : forall sz t bs, skip_one sk sz t bs <> SFuel.
  Proof.
    unfold skip_one. intros sz t bs.
    destruct (0 <? sz); [discriminate|].
    destruct (t =? gk_STRING); [apply skipstr_nofuel|apply sk_nofuel].
  Qed.

  Lemma skip_elems_nofuel : forall fuel vt vsz bs i j,
    len bs < N.of_nat (S fuel) + i -> skip_elems sk (S fuel) vt vsz bs i j <> SFuel.
  Proof.
    induction fuel as [|f IH]; intros vt vsz bs i j Hi; rewrite skip_elems_S.
    - destruct (j =? 0); [discriminate|].
      destruct (len bs <=? i) eqn:E; [discriminate|]. apply N.leb_gt in E. lia.
    - destruct (j =? 0); [discriminate|].
      destruct (len bs <=? i) eqn:E; [discriminate|]. apply N.leb_gt in E.
      destruct (skip_one sk vsz vt (drop i bs)) as [vi|e| |] eqn:E1; try discriminate.
      + apply skip_one_pos in E1. apply IH. lia.
      + exfalso. exact (skip_one_nofuel _ _ _ E1).
  Qed.

  Lemma skip_entries_nofuel : forall fuel kt vt ksz vsz bs i j,
    len bs < N.of_nat (S fuel) + i -> skip_entries sk (S fuel) kt vt ksz vsz bs i j <> SFuel.
  Proof.
    induction fuel as [|f IH]; intros kt vt ksz vsz bs i j Hi; rewrite skip_entries_S.
    - destruct (j =? 0); [discriminate|].
      destruct (len bs <=? i) eqn:E; [discriminate|]. apply N.leb_gt in E. lia.
    - destruct (j =? 0); [discriminate|].
      destruct (len bs <=? i) eqn:E; [discriminate|]. apply N.leb_gt in E.
      destruct (skip_one sk ksz kt (drop i bs)) as [ki|e| |] eqn:E1; try discriminate.
      + apply skip_one_pos in E1.
        destruct (len bs <=? i + ki) eqn:E2; [discriminate|].
        destruct (skip_one sk vsz vt (drop (i + ki) bs)) as [vi|e| |] eqn:E3; try discriminate.
        * apply skip_one_pos in E3. apply IH. lia.
        * exfalso. exact (skip_one_nofuel _ _ _ E3).
      + exfalso. exact (skip_one_nofuel _ _ _ E1).
  Qed.

  Lemma skip_fields_nofuel : forall fuel bs i,
    len bs < N.of_nat (S fuel) + i -> skip_fields sk (S fuel) bs i <> SFuel.
  Proof.
    induction fuel as [|f IH]; intros bs i Hi; rewrite skip_fields_S; unfold nthN.
    - destruct (len bs <=? i) eqn:E; [discriminate|]. apply N.leb_gt in E. lia.
    - destruct (len bs <=? i) eqn:E; [discriminate|]. apply N.leb_gt in E.
      destruct (nth_error bs (N.to_nat i)) as [ft|]; [|discriminate].
      destruct (ft =? gk_STOP); [discriminate|].
      destruct (len bs <=? i + 3); [discriminate|].
      destruct (neg8 ft); [discriminate|].
      destruct (skip_one sk (gk_size ft) ft (drop (i + 3) bs)) as [fi|e| |] eqn:E1; try discriminate.
      + apply IH. lia.
      + exfalso. exact (skip_one_nofuel _ _ _ E1).
  Qed.

End SkipLoopFacts.

Lemma skip_type_S : forall d t bs,
  skip_type (S d) t bs =
  if neg8 t then SPanic else
  if 0 <? gk_size t then (if len bs <? gk_size t then SErr SkShort else SOk (gk_size t))
  else if t =? gk_STRING then skipstr bs
  else if t =? gk_MAP then
    if len bs <? 6 then SErr SkShort
    else
      match bs with
      | kt :: vt :: r =>
          if neg32 (be_get (firstn 4 r)) then SErr SkDataLength
          else if neg8 kt || neg8 vt then SPanic
          else
            if (0 <? gk_size kt) && (0 <? gk_size vt) then
              if len bs <? 6 + be_get (firstn 4 r) * (gk_size kt + gk_size vt) then SErr SkShort
              else SOk (6 + be_get (firstn 4 r) * (gk_size kt + gk_size vt))
            else skip_entries (skip_type d) (S (length bs)) kt vt (gk_size kt) (gk_size vt) bs 6
                              (be_get (firstn 4 r))
      | _ => SErr SkShort
      end
  else if (t =? gk_LIST) || (t =? gk_SET) then
    if len bs <? 5 then SErr SkShort
    else
      match bs with
      | vt :: r =>
          if neg32 (be_get (firstn 4 r)) then SErr SkDataLength
          else if neg8 vt then SPanic
          else
            if 0 <? gk_size vt then
              if len bs <? 5 + be_get (firstn 4 r) * gk_size vt then SErr SkShort
              else SOk (5 + be_get (firstn 4 r) * gk_size vt)
            else skip_elems (skip_type d) (S (length bs)) vt (gk_size vt) bs 5 (be_get (firstn 4 r))
      | _ => SErr SkShort
      end
  else if t =? gk_STRUCT then skip_fields (skip_type d) (S (length bs)) bs 0
  else SErr SkUnknownType.
Proof. reflexivity. Qed.

Lemma skip_type_pos : forall d t bs n, skip_type d t bs = SOk n -> 1 <= n.
Proof.
  induction d as [|d IH]; intros t bs n H.
  - cbn [skip_type] in H. discriminate H.
  - rewrite skip_type_S in H.
    destruct (neg8 t); [discriminate H|].
    destruct (0 <? gk_size t) eqn:E0.
    { destruct (len bs <? gk_size t); [discriminate H|].
      apply SOk_inj in H; subst n. apply N.ltb_lt in E0. lia. }
    destruct (t =? gk_STRING). { eapply skipstr_pos. exact H. }
    destruct (t =? gk_MAP).
    { destruct (len bs <? 6); [discriminate H|].
      destruct bs as [|kt [|vt r]]; try discriminate H.
      destruct (neg32 (be_get (firstn 4 r))); [discriminate H|].
      destruct (neg8 kt || neg8 vt); [discriminate H|].
      destruct ((0 <? gk_size kt) && (0 <? gk_size vt)).
      - match type of H with (if ?c then _ else _) = _ => destruct c end; [discriminate H|].
        apply SOk_inj in H; subst n. lia.
      - apply skip_entries_ge in H. lia. }
    destruct ((t =? gk_LIST) || (t =? gk_SET)).
    { destruct (len bs <? 5); [discriminate H|].
      destruct bs as [|vt r]; try discriminate H.
      destruct (neg32 (be_get (firstn 4 r))); [discriminate H|].
      destruct (neg8 vt); [discriminate H|].
      destruct (0 <? gk_size vt).
      - match type of H with (if ?c then _ else _) = _ => destruct c end; [discriminate H|].
        apply SOk_inj in H; subst n. lia.
      - apply skip_elems_ge in H. lia. }
    destruct (t =? gk_STRUCT); [|discriminate H].
    eapply skip_fields_pos. exact H.
Qed.

Lemma skip_type_no_fuel : forall d t bs, skip_type d t bs <> SFuel.
Proof.
  induction d as [|d IH]; intros t bs.
  - cbn [skip_type]. discriminate.
  - rewrite skip_type_S.
    destruct (neg8 t); [discriminate|].
    destruct (0 <? gk_size t).
    { destruct (len bs <? gk_size t); discriminate. }
    destruct (t =? gk_STRING). { apply skipstr_nofuel. }
    destruct (t =? gk_MAP).
    { destruct (len bs <? 6); [discriminate|].
      destruct bs as [|kt [|vt r]]; try discriminate.
      destruct (neg32 (be_get (firstn 4 r))); [discriminate|].
      destruct (neg8 kt || neg8 vt); [discriminate|].
      destruct ((0 <? gk_size kt) && (0 <? gk_size vt)).
      - match goal with |- (if ?c then _ else _) <> _ => destruct c end; discriminate.
      - apply skip_entries_nofuel; [apply skip_type_pos|apply IH|]. unfold len. lia. }
    destruct ((t =? gk_LIST) || (t =? gk_SET)).
    { destruct (len bs <? 5); [discriminate|].
      destruct bs as [|vt r]; try discriminate.
      destruct (neg32 (be_get (firstn 4 r))); [discriminate|].
      destruct (neg8 vt); [discriminate|].
      destruct (0 <? gk_size vt).
      - match goal with |- (if ?c then _ else _) <> _ => destruct c end; discriminate.
      - apply skip_elems_nofuel; [apply skip_type_pos|apply IH|]. unfold len. lia. }
    destruct (t =? gk_STRUCT); [|discriminate].
    apply skip_fields_nofuel; [apply skip_type_pos|apply IH|]. unfold len. lia.
Qed.

Lemma gk_skip_no_fuel : forall bs t, gk_skip bs t <> SFuel.
Proof.
  intros bs t. unfold gk_skip. destruct bs; [discriminate|]. apply skip_type_no_fuel.
Qed.

(* ------------------------------------------------------------------ *)
(* outcomes, take, the leaf readers                                     *)
(* ------------------------------------------------------------------ *)

Definition safe {A} (r : dres A) : Prop := r <> DPanic /\ r <> DFuel.

(* [discriminate X], not [discriminate]: the latter also searches the context, and would use a
   side condition [dec_params_ok = true] that computes to [false] when the generated constants are off *)
Ltac ssafe := split; (let X := fresh in intro X; discriminate X).
Ltac by_safe H := solve [ssafe | destruct H as [? ?]; congruence].

Lemma take_len : forall n bs h r, take n bs = Some (h, r) -> len bs = n + len r.
Proof. intros n bs h r H. apply take_some in H. destruct H as [-> <-]. apply len_app. Qed.

Lemma wrap_safe : forall t (x : dres val), safe x ->
  safe (match x with DOk v r => DOk (wrap_ptr t v) r
        | DErr e => DErr e | DPanic => DPanic | DFuel => DFuel end).
Proof. intros t x [H1 H2]. destruct x; try congruence; ssafe. Qed.

Lemma wrap_len : forall t (x : dres val) v r,
  match x with DOk v r => DOk (wrap_ptr t v) r
  | DErr e => DErr e | DPanic => DPanic | DFuel => DFuel end = DOk v r ->
  exists v', x = DOk v' r.
Proof. intros t x v r H. destruct x as [v' r'| | |]; try discriminate H. exists v'. congruence. Qed.

(* the same with the arms [| e => e] over a let-bound scrutinee, which Coq
   elaborates to [| _ => x] *)
Lemma wrap_safe' : forall t (x : dres val), safe x ->
  safe (match x with DOk v r => DOk (wrap_ptr t v) r | e => e end).
Proof. intros t x [H1 H2]. destruct x; try congruence; ssafe. Qed.

Lemma wrap_len' : forall t (x : dres val) v r,
  match x with DOk v r => DOk (wrap_ptr t v) r | e => e end = DOk v r ->
  exists v', x = DOk v' r.
Proof. intros t x v r H. destruct x as [v' r'| | |]; try discriminate H. exists v'. congruence. Qed.

Lemma rfu_len : forall t bs v r, read_fixed_unchecked t bs = DOk v r -> len bs = fixed_size t + len r.
Proof.
  unfold read_fixed_unchecked. intros t bs v r.
  destruct (take (fixed_size t) bs) as [[h r']|] eqn:E; [|discriminate].
  intros H. assert (r' = r) by congruence. subst r'. eapply take_len. exact E.
Qed.

Lemma rfu_safe : forall t bs, fixed_size t <= len bs -> safe (read_fixed_unchecked t bs).
Proof.
  unfold read_fixed_unchecked. intros t bs H.
  destruct (take (fixed_size t) bs) as [[h r']|] eqn:E; [ssafe|].
  apply take_none in E. lia.
Qed.

Lemma rfc_len : forall t bs v r, read_fixed_checked t bs = DOk v r -> len bs = fixed_size t + len r.
Proof.
  unfold read_fixed_checked. intros t bs v r.
  destruct (short bs (fixed_size t)); [discriminate|]. apply rfu_len.
Qed.

Lemma rfc_safe : forall t bs, safe (read_fixed_checked t bs).
Proof.
  unfold read_fixed_checked. intros t bs.
  destruct (short bs (fixed_size t)) eqn:E; [ssafe|].
  rewrite short_spec in E. apply N.ltb_ge in E. apply rfu_safe. exact E.
Qed.

Lemma dec_string_len : forall bs v r, dec_string bs = DOk v r -> (length r <= length bs)%nat.
Proof.
  unfold dec_string. intros bs v r.
  destruct (short bs strHeaderLen); [discriminate|].
  destruct (take 4 bs) as [[h r0]|] eqn:E; [|discriminate]. apply take_len in E.
  cbv zeta.
  destruct (neg32 (be_get h)); [discriminate|].
  destruct (be_get h =? 0).
  { intros H. assert (r0 = r) by congruence. subst r0. unfold len in E. lia. }
  destruct (short r0 (be_get h)); [discriminate|].
  destruct (take (be_get h) r0) as [[s r1]|] eqn:E1; [|discriminate]. apply take_len in E1.
  intros H. assert (r1 = r) by congruence. subst r1. unfold len in *. lia.
Qed.

Lemma dec_string_safe : dec_params_ok = true -> forall bs, safe (dec_string bs).
Proof.
  intros HP bs. destruct (header_lens HP) as (_ & _ & Hs).
  unfold dec_string. rewrite Hs.
  destruct (short bs 4) eqn:E0; [ssafe|].
  rewrite short_spec in E0. apply N.ltb_ge in E0.
  destruct (take 4 bs) as [[h r0]|] eqn:E. 2:{ apply take_none in E. lia. }
  cbv zeta.
  destruct (neg32 (be_get h)); [ssafe|].
  destruct (be_get h =? 0); [ssafe|].
  destruct (short r0 (be_get h)) eqn:E2; [ssafe|].
  rewrite short_spec in E2. apply N.ltb_ge in E2.
  destruct (take (be_get h) r0) as [[s r1]|] eqn:E1; [ssafe|].
  apply take_none in E1. lia.
Qed.

(* ------------------------------------------------------------------ *)
(* a successful decode returns a suffix no longer than its input        *)
(* ------------------------------------------------------------------ *)

Section LoopLen.
  Variable env : senv.
  Variable dt : ty -> list N -> val -> dres val.
  Hypothesis dt_len : forall t bs p v r, dt t bs p = DOk v r -> (length r <= length bs)%nat.

  Lemma dec_elem_len : forall t bs v r, dec_elem env dt t bs = DOk v r -> (length r <= length bs)%nat.
  Proof.
    unfold dec_elem. intros t bs v r. destruct (0 <? fixed_size t).
    - intros H. apply wrap_len in H. destruct H as [v' H]. apply rfu_len in H. unfold len in H. lia.
    - apply dt_len.
  Qed.

  Lemma dec_kv_len : forall t bs v r, dec_kv env dt t bs = DOk v r -> (length r <= length bs)%nat.
  Proof.
    unfold dec_kv. intros t bs v r. destruct (0 <? fixed_size t).
    - intros H. apply wrap_len in H. destruct H as [v' H]. apply rfc_len in H. unfold len in H. lia.
    - apply dt_len.
  Qed.

  Lemma dec_list_elems_len : forall n e bs xs r,
    dec_list_elems env dt n e bs = DOk xs r -> (length r <= length bs)%nat.
  Proof.
    induction n as [|n IH]; intros e bs xs r; cbn [dec_list_elems].
    - intros H. assert (bs = r) by congruence. subst. lia.
    - destruct (dec_elem env dt e bs) as [x r0| | |] eqn:Ee; try discriminate.
      apply dec_elem_len in Ee.
      destruct (dec_list_elems env dt n e r0) as [xs' r1| | |] eqn:El; try discriminate.
      apply IH in El. intros H. assert (r1 = r) by congruence. subst. lia.
  Qed.

  Lemma dec_list_len : forall e bs v r, dec_list env dt e bs = DOk v r -> (length r <= length bs)%nat.
  Proof.
    unfold dec_list. intros e bs v r.
    destruct (short bs listHeaderLen); [discriminate|].
    destruct bs as [|tp r0]; [discriminate|].
    destruct (take 4 r0) as [[h r1]|] eqn:Et; [|discriminate]. apply take_len in Et.
    cbv zeta.
    destruct (neg32 (be_get h)); [discriminate|].
    destruct (negb (wt e =? tp)); [discriminate|].
    destruct (be_get h =? 0).
    { intros H. assert (r1 = r) by congruence. subst. cbn [length]. unfold len in Et. lia. }
    destruct (min_wire (wt e) =? 0); [discriminate|].
    destruct (short r1 (be_get h * min_wire (wt e))); [discriminate|].
    destruct (dec_list_elems env dt (N.to_nat (be_get h)) e r1) as [xs r2| | |] eqn:El; try discriminate.
    apply dec_list_elems_len in El.
    intros H. assert (r2 = r) by congruence. subst. cbn [length]. unfold len in Et. lia.
  Qed.

  Lemma dec_map_entries_len : forall n kt vt bs acc m r,
    dec_map_entries env dt n kt vt bs acc = DOk m r -> (length r <= length bs)%nat.
  Proof.
    induction n as [|n IH]; intros kt vt bs acc m r; cbn [dec_map_entries].
    - intros H. assert (bs = r) by congruence. subst. lia.
    - destruct (dec_kv env dt kt bs) as [k r0| | |] eqn:Ek; try discriminate.
      apply dec_kv_len in Ek.
      destruct (dec_kv env dt vt r0) as [v r1| | |] eqn:Ev; try discriminate.
      apply dec_kv_len in Ev.
      intros H. apply IH in H. lia.
  Qed.

  Lemma dec_map_len : forall kt vt bs v r, dec_map env dt kt vt bs = DOk v r -> (length r <= length bs)%nat.
  Proof.
    unfold dec_map. intros kt vt bs v r.
    destruct (short bs mapHeaderLen); [discriminate|].
    destruct bs as [|t0 [|t1 r0]]; try discriminate.
    destruct (take 4 r0) as [[h r1]|] eqn:Et; [|discriminate]. apply take_len in Et.
    cbv zeta.
    destruct (neg32 (be_get h)); [discriminate|].
    destruct (negb ((t0 =? wt kt) && (t1 =? wt vt))); [discriminate|].
    destruct (min_wire (wt kt) + min_wire (wt vt) =? 0); [discriminate|].
    destruct (short r1 (be_get h * (min_wire (wt kt) + min_wire (wt vt)))); [discriminate|].
    destruct (dec_map_entries env dt (N.to_nat (be_get h)) kt vt r1 []) as [m r2| | |] eqn:El; try discriminate.
    apply dec_map_entries_len in El.
    intros H. assert (r2 = r) by congruence. subst. cbn [length]. unfold len in Et. lia.
  Qed.

  (* the value of a known field *)
  Lemma field_res_len : forall (f : field) (i : nat) (cur : list val) r1 v r2,
    (if 0 <? fixed_size (fty f)
     then match read_fixed_checked (deref_ty (fty f)) r1 with
          | DOk v r2 => DOk (wrap_ptr (fty f) v) r2
          | e => e
          end
     else if fnocopy f
          then match dec_string r1 with
               | DOk v r2 => DOk (wrap_ptr (fty f) v) r2
               | e => e
               end
          else dt (fty f) r1 (nth i cur (VS 0))) = DOk v r2 ->
    (length r2 <= length r1)%nat.
  Proof.
    intros f i cur r1 v r2. destruct (0 <? fixed_size (fty f)).
    - intros H. apply wrap_len in H. destruct H as [v' H]. apply rfc_len in H. unfold len in H. lia.
    - destruct (fnocopy f).
      + intros H. apply wrap_len in H. destruct H as [v' H]. eapply dec_string_len. exact H.
      + apply dt_len.
  Qed.

  (* every iteration of the field loop consumes at least the type byte *)
  Lemma dec_fields_len : forall fl sd bs cur seen unk x r,
    dec_fields dt fl sd bs cur seen unk = DOk x r -> (length r < length bs)%nat.
  Proof.
    induction fl as [|fl IH]; intros sd bs cur seen unk x r; cbn [dec_fields]; [discriminate|].
    destruct bs as [|tp r0]; [discriminate|].
    destruct (tp =? tSTOP).
    { intros H. assert (r0 = r) by congruence. subst. cbn [length]. lia. }
    destruct (short r0 2); [discriminate|].
    destruct (take 2 r0) as [[idb r1]|] eqn:Et; [|discriminate]. apply take_len in Et.
    match goal with |- match ?k with _ => _ end = _ -> _ => destruct k as [[i f]|] end.
    - match goal with |- match ?res with _ => _ end = _ -> _ =>
        destruct res as [v r2| | |] eqn:Er end; try discriminate.
      apply field_res_len in Er.
      intros H. apply IH in H. cbn [length]. unfold len in Et. lia.
    - destruct (gk_skip r1 tp) as [n|e| |]; try discriminate.
      destruct (take n r1) as [[sk r2]|] eqn:Et2; [|discriminate]. apply take_len in Et2.
      intros H. apply IH in H. cbn [length]. unfold len in *. lia.
  Qed.

  Lemma dec_struct_body_len : forall fl sd pool bs prior v r,
    dec_struct_body fl dt sd pool bs prior = DOk v r -> (length r <= length bs)%nat.
  Proof.
    unfold dec_struct_body. intros fl sd pool bs prior v r.
    destruct prior as [ | | | | |fs0 h0]; try discriminate.
    match goal with |- match ?x with _ => _ end = _ -> _ =>
      destruct x as [[[cur seen] unk] r'| | |] eqn:E end; try discriminate.
    apply dec_fields_len in E.
    match goal with |- match ?x with _ => _ end = _ -> _ => destruct x end; [discriminate|].
    intros H. assert (r' = r) by congruence. subst. lia.
  Qed.
End LoopLen.

(* ------------------------------------------------------------------ *)
(* no panic, no exhausted fuel: the loops                               *)
(* ------------------------------------------------------------------ *)

(* Nothing below depends on the descriptor being well formed: the checks the
   decoder makes on the input protect it whatever the schema says.  What is
   needed is dec_params_ok: the header lengths, a positive minWireSize for every
   wire code (the divisor of the count checks), and minWireSize = FixedSize
   for the kinds whose list elements are read without a further check. *)
Section LoopSafe.
  Variable env : senv.
  Variable fuel : nat.
  Hypothesis HP : dec_params_ok = true.
  Variable dt : ty -> list N -> val -> dres val.
  Hypothesis dt_len : forall t bs p v r, dt t bs p = DOk v r -> (length r <= length bs)%nat.
  (* decodeType is entered only for the kinds that are not read in place *)
  Hypothesis dt_safe : forall t bs p, fixed_size t = 0 -> (length bs < fuel)%nat -> safe (dt t bs p).

  Lemma dec_elem_safe : forall e bs, (length bs < fuel)%nat ->
    ((0 <? fixed_size e) = true -> fixed_size e <= len bs) -> safe (dec_elem env dt e bs).
  Proof.
    intros e bs Hb Hf. unfold dec_elem. destruct (0 <? fixed_size e) eqn:E.
    - apply wrap_safe. apply rfu_safe. rewrite fixed_size_deref. apply Hf. reflexivity.
    - apply dt_safe; [|exact Hb]. apply N.ltb_ge in E. lia.
  Qed.

  (* the invariant of the unchecked element reads: the count check of dec_list
     has established that n elements of the fixed width are present *)
  Lemma dec_list_elems_safe : forall n e bs, (length bs < fuel)%nat ->
    ((0 <? fixed_size e) = true -> N.of_nat n * fixed_size e <= len bs) ->
    safe (dec_list_elems env dt n e bs).
  Proof.
    induction n as [|n IH]; intros e bs Hb Hf; cbn [dec_list_elems]; [ssafe|].
    assert (Hs : safe (dec_elem env dt e bs)).
    { apply dec_elem_safe; [exact Hb|]. intros E. specialize (Hf E). lia. }
    destruct (dec_elem env dt e bs) as [x r| | |] eqn:Ee; try by_safe Hs.
    assert (Hs' : safe (dec_list_elems env dt n e r)).
    { apply IH.
      - apply (dec_elem_len env dt dt_len) in Ee. lia.
      - intros E. specialize (Hf E). unfold dec_elem in Ee. rewrite E in Ee.
        apply wrap_len in Ee. destruct Ee as [v' Ee]. apply rfu_len in Ee.
        rewrite fixed_size_deref in Ee. lia. }
    destruct (dec_list_elems env dt n e r); by_safe Hs'.
  Qed.

  Lemma dec_list_safe : forall e bs, (length bs < fuel)%nat -> safe (dec_list env dt e bs).
  Proof.
    intros e bs Hb. destruct (header_lens HP) as (_ & Hl & _).
    unfold dec_list. rewrite Hl.
    destruct (short bs 5) eqn:Es; [ssafe|].
    rewrite short_spec in Es. apply N.ltb_ge in Es.
    destruct bs as [|tp r]. { rewrite len_nil in Es. lia. }
    rewrite len_cons in Es. cbn [length] in Hb.
    destruct (take 4 r) as [[h r1]|] eqn:Et. 2:{ apply take_none in Et. lia. }
    apply take_len in Et. cbv zeta.
    destruct (neg32 (be_get h)); [ssafe|].
    destruct (negb (wt e =? tp)); [ssafe|].
    destruct (be_get h =? 0); [ssafe|].
    pose proof (minwire_pos HP e) as Hm.
    destruct (min_wire (wt e) =? 0) eqn:Em. { apply N.eqb_eq in Em. lia. }
    destruct (short r1 (be_get h * min_wire (wt e))) eqn:Es2; [ssafe|].
    rewrite short_spec in Es2. apply N.ltb_ge in Es2.
    assert (Hs : safe (dec_list_elems env dt (N.to_nat (be_get h)) e r1)).
    { apply dec_list_elems_safe.
      - unfold len in Et. lia.
      - intros E. apply N.ltb_lt in E. rewrite <- (fixed_minwire HP e E).
        rewrite N2Nat.id. exact Es2. }
    destruct (dec_list_elems env dt (N.to_nat (be_get h)) e r1); by_safe Hs.
  Qed.

  Lemma dec_kv_safe : forall t bs, (length bs < fuel)%nat -> safe (dec_kv env dt t bs).
  Proof.
    intros t bs Hb. unfold dec_kv. destruct (0 <? fixed_size t) eqn:E.
    - apply wrap_safe. apply rfc_safe.
    - apply dt_safe; [|exact Hb]. apply N.ltb_ge in E. lia.
  Qed.

  Lemma dec_map_entries_safe : forall n kt vt bs acc, (length bs < fuel)%nat ->
    safe (dec_map_entries env dt n kt vt bs acc).
  Proof.
    induction n as [|n IH]; intros kt vt bs acc Hb; cbn [dec_map_entries]; [ssafe|].
    pose proof (dec_kv_safe kt bs Hb) as Hs.
    destruct (dec_kv env dt kt bs) as [k r| | |] eqn:Ek; try by_safe Hs.
    apply (dec_kv_len env dt dt_len) in Ek.
    assert (Hs' : safe (dec_kv env dt vt r)) by (apply dec_kv_safe; lia).
    destruct (dec_kv env dt vt r) as [v r2| | |] eqn:Ev; try by_safe Hs'.
    apply (dec_kv_len env dt dt_len) in Ev.
    apply IH. lia.
  Qed.

  Lemma dec_map_safe : forall kt vt bs, (length bs < fuel)%nat -> safe (dec_map env dt kt vt bs).
  Proof.
    intros kt vt bs Hb. destruct (header_lens HP) as (Hl & _ & _).
    unfold dec_map. rewrite Hl.
    destruct (short bs 6) eqn:Es; [ssafe|].
    rewrite short_spec in Es. apply N.ltb_ge in Es.
    destruct bs as [|t0 [|t1 r]].
    { rewrite len_nil in Es. lia. }
    { rewrite len_cons, len_nil in Es. lia. }
    rewrite !len_cons in Es. cbn [length] in Hb.
    destruct (take 4 r) as [[h r1]|] eqn:Et. 2:{ apply take_none in Et. lia. }
    apply take_len in Et. cbv zeta.
    destruct (neg32 (be_get h)); [ssafe|].
    destruct (negb ((t0 =? wt kt) && (t1 =? wt vt))); [ssafe|].
    pose proof (minwire_pos HP kt) as Hm.
    destruct (min_wire (wt kt) + min_wire (wt vt) =? 0) eqn:Em. { apply N.eqb_eq in Em. lia. }
    destruct (short r1 (be_get h * (min_wire (wt kt) + min_wire (wt vt)))); [ssafe|].
    assert (Hs : safe (dec_map_entries env dt (N.to_nat (be_get h)) kt vt r1 [])).
    { apply dec_map_entries_safe. unfold len in Et. lia. }
    destruct (dec_map_entries env dt (N.to_nat (be_get h)) kt vt r1 []); by_safe Hs.
  Qed.

  Lemma field_res_safe : forall (f : field) (i : nat) (cur : list val) r1,
    (length r1 < fuel)%nat ->
    safe (if 0 <? fixed_size (fty f)
          then match read_fixed_checked (deref_ty (fty f)) r1 with
               | DOk v r2 => DOk (wrap_ptr (fty f) v) r2
               | e => e
               end
          else if fnocopy f
               then match dec_string r1 with
                    | DOk v r2 => DOk (wrap_ptr (fty f) v) r2
                    | e => e
                    end
               else dt (fty f) r1 (nth i cur (VS 0))).
  Proof.
    intros f i cur r1 Hb. destruct (0 <? fixed_size (fty f)) eqn:E.
    - apply wrap_safe. apply rfc_safe.
    - destruct (fnocopy f).
      + apply wrap_safe. apply dec_string_safe. exact HP.
      + apply dt_safe; [|exact Hb]. apply N.ltb_ge in E. lia.
  Qed.

  (* fl: the loop's own fuel; the nested decodes run on the section's fuel.
     Every iteration passes a strictly shorter suffix to the next one. *)
  Lemma dec_fields_safe : forall fl sd bs cur seen unk,
    (length bs < fl)%nat -> (length bs < fuel)%nat ->
    safe (dec_fields dt fl sd bs cur seen unk).
  Proof.
    induction fl as [|fl IH]; intros sd bs cur seen unk Hfl Hb; [lia|].
    cbn [dec_fields].
    destruct bs as [|tp r]; [ssafe|]. cbn [length] in Hfl, Hb.
    destruct (tp =? tSTOP); [ssafe|].
    destruct (short r 2) eqn:Es; [ssafe|].
    rewrite short_spec in Es. apply N.ltb_ge in Es.
    destruct (take 2 r) as [[idb r1]|] eqn:Et. 2:{ apply take_none in Et. lia. }
    apply take_len in Et.
    match goal with |- safe (match ?k with _ => _ end) => destruct k as [[i f]|] end.
    - match goal with |- safe (match ?res with _ => _ end) =>
        assert (Hs : safe res) by (apply field_res_safe; unfold len in Et; lia);
        destruct res as [v r2| | |] eqn:Er end; try by_safe Hs.
      apply (field_res_len dt dt_len) in Er.
      apply IH; unfold len in Et; lia.
    - pose proof (gk_skip_no_fuel r1 tp) as Hg.
      destruct (gk_skip r1 tp) as [n|e| |]; try ssafe; [|congruence].
      destruct (take n r1) as [[sk r2]|] eqn:Et2; [|ssafe]. apply take_len in Et2.
      apply IH; unfold len in *; lia.
  Qed.

  Lemma dec_struct_body_safe : forall sd pool bs prior, (length bs < fuel)%nat ->
    safe (dec_struct_body fuel dt sd pool bs prior).
  Proof.
    intros sd pool bs prior Hb. unfold dec_struct_body.
    destruct prior as [ | | | | |fs0 h0]; try ssafe.
    match goal with |- safe (match ?x with _ => _ end) =>
      assert (Hs : safe x) by (apply dec_fields_safe; exact Hb);
      destruct x as [[[cur seen] unk] r'| | |] end; try by_safe Hs.
    match goal with |- safe (match ?x with _ => _ end) => destruct x end; ssafe.
  Qed.
End LoopSafe.

(* ------------------------------------------------------------------ *)
(* decode_struct / decode_type                                          *)
(* ------------------------------------------------------------------ *)

Lemma decode_struct_S : forall env fuel pool d sd bs prior,
  decode_struct env fuel pool (S d) sd bs prior =
  dec_struct_body fuel (decode_type env fuel pool d) sd pool bs prior.
Proof. reflexivity. Qed.

Lemma decode_type_S : forall env fuel pool d t bs prior,
  decode_type env fuel pool (S d) t bs prior =
  let res :=
    if 0 <? fixed_size (deref_ty t) then read_fixed_unchecked (deref_ty t) bs
    else
      match deref_ty t with
      | TString | TBinary => dec_string bs
      | TMap kt vt => dec_map env (decode_type env fuel pool d) kt vt bs
      | TList _ e => dec_list env (decode_type env fuel pool d) e bs
      | TStruct sid =>
          match lookup_sd env sid with
          | Some sd => decode_struct env fuel pool d sd bs
                         (apply_init sd (if is_ptr t then zero_of env (deref_ty t) else prior))
          | None => DErr EInternal
          end
      | _ => DErr EUnknownType
      end in
  match res with
  | DOk v r => DOk (wrap_ptr t v) r
  | e => e
  end.
Proof. reflexivity. Qed.

Lemma decode_len : forall env fuel pool d,
  (forall sd bs prior v r, decode_struct env fuel pool d sd bs prior = DOk v r ->
                           (length r <= length bs)%nat)
  /\ (forall t bs prior v r, decode_type env fuel pool d t bs prior = DOk v r ->
                             (length r <= length bs)%nat).
Proof.
  intros env fuel pool. induction d as [|d [IHs IHt]].
  - split; intros; cbn [decode_struct decode_type] in *; discriminate.
  - split.
    + intros sd bs prior v r H. rewrite decode_struct_S in H.
      eapply dec_struct_body_len; [exact IHt|exact H].
    + intros t bs prior v r H. rewrite decode_type_S in H. cbv zeta in H.
      apply wrap_len' in H. destruct H as [v' H].
      destruct (0 <? fixed_size (deref_ty t)).
      { apply rfu_len in H. unfold len in H. lia. }
      destruct (deref_ty t) as [| | | | | | | | |b e|kt vt|sid|t']; try discriminate H.
      * eapply dec_string_len. exact H.
      * eapply dec_string_len. exact H.
      * eapply dec_list_len; [exact IHt|exact H].
      * eapply dec_map_len; [exact IHt|exact H].
      * destruct (lookup_sd env sid) as [sd|]; [|discriminate H].
        eapply IHs. exact H.
Qed.

(* a struct that decodes has consumed at least its STOP byte *)
Lemma decode_struct_consumes : forall env fuel pool d sd bs prior v r,
  decode_struct env fuel pool d sd bs prior = DOk v r -> (length r < length bs)%nat.
Proof.
  intros env fuel pool d sd bs prior v r H. destruct d as [|d]; [discriminate H|].
  rewrite decode_struct_S in H. unfold dec_struct_body in H.
  destruct prior as [ | | | | |fs0 h0]; try discriminate H.
  match type of H with match ?x with _ => _ end = _ =>
    destruct x as [[[cur seen] unk] r'| | |] eqn:E end; try discriminate H.
  apply (dec_fields_len (decode_type env fuel pool d) (proj2 (decode_len env fuel pool d))) in E.
  match type of H with match ?x with _ => _ end = _ => destruct x end; [discriminate H|].
  assert (r' = r) by congruence. subst. exact E.
Qed.

(* the position restriction: decodeType is not entered for a slot whose kind
   has a fixed size.  Its callers (list elements, map keys and values, struct
   fields) test FixedSize first and read those kinds in place after their own
   length check; decodeType itself reads them unchecked, see
   decode_type_fixed_unchecked_panics below. *)
Definition slot_pos (t : ty) : bool := fixed_size t =? 0.

(* for every descriptor environment, well formed or not *)
Theorem decode_safe_any : forall env fuel pool, dec_params_ok = true ->
  forall d,
   (forall sd bs prior, (length bs < fuel)%nat -> safe (decode_struct env fuel pool d sd bs prior))
   /\ (forall t bs prior, slot_pos t = true -> (length bs < fuel)%nat ->
         safe (decode_type env fuel pool d t bs prior)).
Proof.
  intros env fuel pool HP. induction d as [|d [IHs IHt]].
  - split; intros; cbn [decode_struct decode_type]; ssafe.
  - assert (Hlen : forall t bs p v r, decode_type env fuel pool d t bs p = DOk v r ->
                                       (length r <= length bs)%nat)
      by (apply (decode_len env fuel pool d)).
    assert (Hsafe : forall t bs p, fixed_size t = 0 -> (length bs < fuel)%nat ->
                      safe (decode_type env fuel pool d t bs p)).
    { intros t bs p Hf Hb. apply IHt; [|exact Hb]. unfold slot_pos. apply N.eqb_eq. exact Hf. }
    split.
    + intros sd bs prior Hb. rewrite decode_struct_S.
      apply (dec_struct_body_safe fuel HP _ Hlen Hsafe). exact Hb.
    + intros t bs prior Hpos Hb. rewrite decode_type_S. cbv zeta. apply wrap_safe'.
      unfold slot_pos in Hpos. apply N.eqb_eq in Hpos.
      rewrite fixed_size_deref, Hpos. change (0 <? 0) with false. cbv iota.
      destruct (deref_ty t) as [| | | | | | | | |b e|kt vt|sid|t']; try ssafe.
      * apply dec_string_safe. exact HP.
      * apply dec_string_safe. exact HP.
      * apply (dec_list_safe env fuel HP _ Hlen Hsafe). exact Hb.
      * apply (dec_map_safe env fuel HP _ Hlen Hsafe). exact Hb.
      * destruct (lookup_sd env sid) as [sd|]; [|ssafe]. apply IHs. exact Hb.
Qed.

Theorem decode_safe : forall env fuel pool, dec_params_ok = true -> env_ok env = true ->
  forall d,
   (forall sd bs prior, In sd env -> (length bs < fuel)%nat ->
        decode_struct env fuel pool d sd bs prior <> DPanic
        /\ decode_struct env fuel pool d sd bs prior <> DFuel)
   /\ (forall t bs prior, ty_ok env t = true -> slot_pos t = true -> (length bs < fuel)%nat ->
        decode_type env fuel pool d t bs prior <> DPanic
        /\ decode_type env fuel pool d t bs prior <> DFuel).
Proof.
  intros env fuel pool HP _ d. destruct (decode_safe_any env fuel pool HP d) as [Hs Ht].
  split.
  - intros sd bs prior _ Hb. exact (Hs sd bs prior Hb).
  - intros t bs prior _ Hpos Hb. exact (Ht t bs prior Hpos Hb).
Qed.

Theorem decode_object_safe_any : forall env pool sid bs dst, dec_params_ok = true ->
  decode_object env pool sid bs dst <> DPanic /\ decode_object env pool sid bs dst <> DFuel.
Proof.
  intros env pool sid bs dst HP. unfold decode_object, decode_object_f.
  destruct (lookup_sd env sid) as [sd|]; [|ssafe].
  destruct (decode_safe_any env (S (length bs)) pool HP (N.to_nat maxDepthLimit)) as [Hs _].
  specialize (Hs sd bs dst (Nat.lt_succ_diag_r _)).
  destruct (decode_struct env (S (length bs)) pool (N.to_nat maxDepthLimit) sd bs dst);
    by_safe Hs.
Qed.

Theorem decode_object_safe : forall env pool sid bs dst, dec_params_ok = true -> env_ok env = true ->
  decode_object env pool sid bs dst <> DPanic /\ decode_object env pool sid bs dst <> DFuel.
Proof. intros env pool sid bs dst HP _. apply decode_object_safe_any. exact HP. Qed.

(* so the outcome is a value with the unread rest, or an error *)
Corollary decode_object_total : forall env pool sid bs dst, dec_params_ok = true ->
  (exists v n rest, decode_object env pool sid bs dst = DOk (v, n) rest
                    /\ (length rest < length bs)%nat /\ n = len bs - len rest)
  \/ (exists e, decode_object env pool sid bs dst = DErr e).
Proof.
  intros env pool sid bs dst HP.
  destruct (decode_object_safe_any env pool sid bs dst HP) as [H1 H2].
  revert H1 H2. unfold decode_object, decode_object_f.
  destruct (lookup_sd env sid) as [sd|]; [|intros _ _; right; eexists; reflexivity].
  destruct (decode_struct env (S (length bs)) pool (N.to_nat maxDepthLimit) sd bs dst)
    as [v r|e| |] eqn:E; intros H1 H2; try congruence.
  - left. exists v, (len bs - len r), r. apply decode_struct_consumes in E. auto.
  - right. exists e. reflexivity.
Qed.

(* ------------------------------------------------------------------ *)
(* truncated input                                                      *)
(* ------------------------------------------------------------------ *)

(* truncated to nothing: the first read of the field loop reports a short buffer *)
Lemma decode_empty : forall env pool sid sd fs h, dec_params_ok = true ->
  lookup_sd env sid = Some sd ->
  decode_object env pool sid [] (VT fs h) = DErr EShort.
Proof.
  intros env pool sid sd fs h HP El. unfold decode_object, decode_object_f. rewrite El.
  destruct (params_split HP) as (_ & _ & _ & Hd).
  destruct (N.to_nat maxDepthLimit) as [|d] eqn:Ed; [lia|].
  rewrite decode_struct_S. reflexivity.
Qed.

(* a field header cut after the type byte or inside the id *)
Lemma dec_fields_short_header : forall dt fl sd tp r cur seen unk,
  (tp =? tSTOP) = false -> len r < 2 ->
  dec_fields dt (S fl) sd (tp :: r) cur seen unk = DErr EShort.
Proof.
  intros dt fl sd tp r cur seen unk Htp Hr. cbn [dec_fields]. rewrite Htp.
  rewrite short_spec. apply N.ltb_lt in Hr. rewrite Hr. reflexivity.
Qed.

(* a string cut inside its length word, or inside its body *)
Lemma dec_string_short : dec_params_ok = true -> forall bs, len bs < 4 -> dec_string bs = DErr EShort.
Proof.
  intros HP bs H. destruct (header_lens HP) as (_ & _ & Hs).
  unfold dec_string. rewrite Hs, short_spec. apply N.ltb_lt in H. rewrite H. reflexivity.
Qed.

(* ------------------------------------------------------------------ *)
(* why slot_pos is there; what the skipper can return                   *)
(* ------------------------------------------------------------------ *)

(* decodeType on a fixed-size kind reads without a length check: entered
   directly with such a type and a short buffer the model panics.  No caller
   inside the decoder does that (decode_safe_any), and decode_object starts at
   a struct. *)
Example decode_type_fixed_unchecked_panics :
  decode_type [] 10 [] 1 TI32 [0; 0] (VS 0) = DPanic.
Proof. vm_compute. reflexivity. Qed.

(* The skipper can return a length beyond the end of its buffer (a fixed-size
   map value after a variable-size key is added unchecked): map<string,i32>,
   one entry, empty key, one byte of the four of the value.  The field loop
   answers with EShort (the [take n r1 = None] arm). *)
Example gk_skip_overshoots :
  gk_skip [11; 8; 0; 0; 0; 1; 0; 0; 0; 0; 7] 13 = SOk 14.
Proof. vm_compute. reflexivity. Qed.

Example decode_after_overshoot :
  decode_object [mkSdesc [] false None] [] 0
    [13; 0; 99; 11; 8; 0; 0; 0; 1; 0; 0; 0; 0; 7] (VT [] []) = DErr EShort.
Proof. vm_compute. reflexivity. Qed.

Print Assumptions skip_type_no_fuel.
Print Assumptions gk_skip_no_fuel.
Print Assumptions decode_len.
Print Assumptions decode_safe_any.
Print Assumptions decode_safe.
Print Assumptions decode_empty.
Print Assumptions decode_object_total.
Print Assumptions decode_object_safe.
