(* DecodeRefines.v -- on the encoding of any well-formed wire struct, followed
   by arbitrary bytes, the implementation-shaped decoder of Decode.v computes
   what the reference decoder [absorb] of Spec.v computes, and consumes exactly
   the message.  The lemma about the external skipper (gopkg Skip) is a
   Section hypothesis: it shows up as a premise of every theorem. *)
From Coq Require Import List NArith Bool Lia ZifyN ZifyNat ZifyBool.
From Frugal Require Import Bytes Wire Skip Values Desc Spec Decode Checks.
From Frugal.gen Require Import Params.
From Frugal.proofs Require Import BytesWire EncodeSpec ParamsSplit.
Import ListNotations.
Open Scope N_scope.

(* ------------------------------------------------------------------ *)
(* the generated constants, through dec_params_ok only                      *)
(* ------------------------------------------------------------------ *)

Ltac andb_all :=
  repeat match goal with
         | H : (_ && _) = true |- _ => apply andb_true_iff in H; destruct H
         end.

Lemma params_parts : dec_params_ok = true ->
  codes_ok = true /\ fixed_ok = true /\ minwire_ok = true.
Proof.
  intros H. exact (conj (dec_codes H) (conj (dec_fixed H) (dec_minwire H))).
Qed.

Lemma hdr_eqs : dec_params_ok = true ->
  fieldHeaderLen = 3 /\ mapHeaderLen = 6 /\ listHeaderLen = 5 /\ strHeaderLen = 4.
Proof.
  intros HP. destruct (params_parts HP) as [H _]. unfold codes_ok in H. andb_all.
  repeat match goal with H : (_ =? _) = true |- _ => apply N.eqb_eq in H end.
  repeat split; assumption.
Qed.

(* the wire code of a type, in the constants of Wire.v *)
Fixpoint cwt (t : ty) : N :=
  match t with
  | TBool => cBOOL | TI8 => cBYTE | TI16 => cI16 | TI32 => cI32 | TI64 => cI64
  | TDouble => cDOUBLE | TEnum => cI32 | TString => cSTRING | TBinary => cSTRING
  | TList true _ => cSET | TList false _ => cLIST | TMap _ _ => cMAP
  | TStruct _ => cSTRUCT | TPtr t' => cwt t'
  end.

Lemma wt_cwt : dec_params_ok = true -> forall t, wt t = cwt t.
Proof.
  intros HP.
  destruct (codes_eqs (dec_enc HP)) as (E0 & E1 & E2 & E3 & E4 & E5 & E6 & E7 & E8 & E9 & E10 & E11).
  induction t as [| | | | | | | | |b e IHe|k IHk v IHv|sid|t' IH]; cbn [wt cwt];
    try (destruct b); try exact IH; assumption.
Qed.

Lemma cwt_in_codes : forall t, In (cwt t) wire_codes.
Proof.
  induction t as [| | | | | | | | |b e IHe|k IHk v IHv|sid|t' IH]; cbn [cwt];
    try (destruct b); try exact IH; unfold wire_codes; in_list.
Qed.

Lemma min_wire_ok : dec_params_ok = true -> forall t,
  0 < min_wire (wt t) /\ min_wire (wt t) <= min_size (wt t).
Proof.
  intros HP t. destruct (params_parts HP) as (_ & _ & H). unfold minwire_ok in H.
  apply andb_true_iff in H. destruct H as [H _]. rewrite forallb_forall in H.
  rewrite (wt_cwt HP). specialize (H (cwt t) (cwt_in_codes t)).
  apply andb_true_iff in H. destruct H as [H1 H2].
  apply N.ltb_lt in H1. apply N.leb_le in H2. split; assumption.
Qed.

(* FixedSize depends on the kind only *)
Lemma fixed_size_deref : forall t, fixed_size (deref_ty t) = fixed_size t.
Proof. intros t. destruct t; reflexivity. Qed.

Lemma fixed_size_list : forall b e, fixed_size (TList b e) = fixed_size (TList b TI32).
Proof. intros b e. destruct b; reflexivity. Qed.

Lemma fixed_size_map : forall k v, fixed_size (TMap k v) = fixed_size (TMap TI32 TI32).
Proof. reflexivity. Qed.

Lemma fixed_size_struct : forall sid, fixed_size (TStruct sid) = fixed_size (TStruct 0).
Proof. reflexivity. Qed.

Lemma fixed_size_nonptr : dec_params_ok = true -> forall t, is_ptr t = false ->
  fixed_size t = wire_width t.
Proof.
  intros HP t Hp. destruct (params_parts HP) as (_ & H & _).
  unfold fixed_ok, scalar_tys, other_tys in H. cbn [forallb] in H. andb_all.
  repeat match goal with H : (_ =? _) = true |- _ => apply N.eqb_eq in H end.
  destruct t as [| | | | | | | | |b e|k v|sid|t']; try assumption.
  - rewrite fixed_size_list. destruct b; assumption.
  - discriminate Hp.
Qed.

(* tENUM is none of the wire codes *)
Lemma kind_enum : dec_params_ok = true -> forall t, is_scalar_ty t = true ->
  (kind t =? tENUM) = match t with TEnum => true | _ => false end.
Proof.
  intros HP t Ht. destruct (params_parts HP) as (H & _ & _). unfold codes_ok in H.
  andb_all.
  match goal with H : negb (memN tENUM _) = true |- _ =>
    apply negb_true_iff in H; unfold memN in H; cbn [existsb] in H;
    repeat (apply orb_false_iff in H; let H' := fresh "N" in destruct H as [H' H])
  end.
  destruct (codes_eqs (dec_enc HP)) as (E0 & E1 & E2 & E3 & E4 & E5 & E6 & E7 & E8 & E9 & E10 & E11).
  destruct t; try discriminate Ht; cbn [kind wt];
    rewrite ?E1, ?E2, ?E3, ?E4, ?E5, ?E6, ?N.eqb_refl; try reflexivity;
    rewrite N.eqb_sym; assumption.
Qed.

(* ------------------------------------------------------------------ *)
(* the relation between the two results                                 *)
(* ------------------------------------------------------------------ *)

Definition agree {A : Type} (a : ares A) (d : dres A) (rest : list N) : Prop :=
  match a with
  | AOk v => d = DOk v rest
  | AMismatch | AMissing _ => exists e, d = DErr e
  | ABad => True
  end.

Definition awrap (t : ty) (r : ares val) : ares val :=
  match r with AOk v => AOk (if is_ptr t then VP (Some v) else v) | e => e end.

Definition dwrap (t : ty) (r : dres val) : dres val :=
  match r with
  | DOk v r' => DOk (wrap_ptr t v) r'
  | DErr e => DErr e | DPanic => DPanic | DFuel => DFuel
  end.

Lemma agree_wrap : forall t a d rest, agree a d rest -> agree (awrap t a) (dwrap t d) rest.
Proof.
  intros t a d rest H. destruct a as [v| |i|]; cbn [agree awrap] in *.
  - subst d. reflexivity.
  - destruct H as [e H]. subst d. exists e. reflexivity.
  - destruct H as [e H]. subst d. exists e. reflexivity.
  - exact I.
Qed.

(* ------------------------------------------------------------------ *)
(* one-step unfoldings                                                  *)
(* ------------------------------------------------------------------ *)

Definition is_scalar_w (w : tv) : bool :=
  match w with
  | WBool _ | WI8 _ | WI16 _ | WI32 _ | WI64 _ | WDbl _ => true
  | _ => false
  end.

Lemma absorb_scalar : forall env t w prior, is_scalar_w w = true ->
  absorb env t w prior
  = awrap t (match scalar_of (deref_ty t) w with Some v => AOk v | None => ABad end).
Proof. intros env t w prior H. destruct w; try discriminate H; reflexivity. Qed.

Lemma absorb_WStr : forall env t s prior,
  absorb env t (WStr s) prior
  = awrap t (match deref_ty t with TString | TBinary => AOk (VB false s) | _ => ABad end).
Proof. reflexivity. Qed.

Lemma absorb_WList : forall env t b ec es prior,
  absorb env t (WList b ec es) prior
  = awrap t
      (match deref_ty t with
       | TList _ e =>
           if negb (ec =? wt e) then AMismatch
           else match ab_elems (absorb env) env e es with
                | AOk xs => AOk (VL (Some xs))
                | AMismatch => AMismatch | AMissing i => AMissing i | ABad => ABad
                end
       | _ => ABad
       end).
Proof. reflexivity. Qed.

Lemma absorb_WMap : forall env t kc vc es prior,
  absorb env t (WMap kc vc es) prior
  = awrap t
      (match deref_ty t with
       | TMap kt vt =>
           if negb ((kc =? wt kt) && (vc =? wt vt)) then AMismatch
           else match ab_entries (absorb env) env kt vt es [] with
                | AOk m => AOk (VM (Some m))
                | AMismatch => AMismatch | AMissing i => AMissing i | ABad => ABad
                end
       | _ => ABad
       end).
Proof. reflexivity. Qed.

(* what both decoders do once the field loop has returned *)
Definition afinish (sd : sdesc) (h0 : list N) (r : ares (list val * list N * list N)) : ares val :=
  match r with
  | AOk (cur, seen, unk) =>
      match find (fun i => negb (memN i seen)) (required_ids sd) with
      | Some missing => AMissing missing
      | None => AOk (VT cur (if sholder sd then match unk with [] => h0 | _ => unk end else h0))
      end
  | AMismatch => AMismatch | AMissing i => AMissing i | ABad => ABad
  end.

Lemma absorb_WStruct : forall env t fs raw prior,
  absorb env t (WStruct fs raw) prior
  = awrap t
      (match deref_ty t with
       | TStruct sid =>
           match lookup_sd env sid with
           | Some sd =>
               match apply_init sd (if is_ptr t then zero_of env (deref_ty t) else prior) with
               | VT fs0 h0 => afinish sd h0 (ab_fields (absorb env) sd fs fs0 [] [])
               | _ => ABad
               end
           | None => ABad
           end
       | _ => ABad
       end).
Proof. reflexivity. Qed.

Lemma absorb_top_eq : forall env sid fs raw dst,
  absorb_top env sid (WStruct fs raw) dst
  = match lookup_sd env sid, dst with
    | Some sd, VT fs0 h0 => afinish sd h0 (ab_fields (absorb env) sd fs fs0 [] [])
    | _, _ => ABad
    end.
Proof. reflexivity. Qed.

Lemma dwrap_alt : forall t (r : dres val),
  match r with DOk v r' => DOk (wrap_ptr t v) r' | _ => r end = dwrap t r.
Proof. intros t r. destruct r; reflexivity. Qed.

Lemma decode_type_O : forall env fuel pool t bs prior,
  decode_type env fuel pool O t bs prior = DErr EDepth.
Proof. reflexivity. Qed.

Lemma decode_type_S : forall env fuel pool d t bs prior,
  decode_type env fuel pool (S d) t bs prior
  = dwrap t
      (if 0 <? fixed_size (deref_ty t) then read_fixed_unchecked (deref_ty t) bs
       else
         match deref_ty t with
         | TString | TBinary => dec_string bs
         | TMap kt vt => dec_map env (decode_type env fuel pool d) kt vt bs
         | TList _ e => dec_list env (decode_type env fuel pool d) e bs
         | TStruct sid =>
             match lookup_sd env sid with
             | Some sd => decode_struct env fuel pool d sd bs
                            (apply_init sd (if is_ptr t then zero_of env (deref_ty t) else prior))
             | None => DErr EInternal
             end
         | _ => DErr EUnknownType
         end).
Proof.
  intros env fuel pool d t bs prior. rewrite <- dwrap_alt. reflexivity.
Qed.

Lemma decode_struct_O : forall env fuel pool sd bs prior,
  decode_struct env fuel pool O sd bs prior = DErr EDepth.
Proof. reflexivity. Qed.

Lemma decode_struct_S : forall env fuel pool d sd bs prior,
  decode_struct env fuel pool (S d) sd bs prior
  = dec_struct_body fuel (decode_type env fuel pool d) sd pool bs prior.
Proof. reflexivity. Qed.

Definition dfinish (sd : sdesc) (h0 : list N) (r : dres (list val * list N * list N)) : dres val :=
  match r with
  | DOk (cur, seen, unk) r' =>
      match find (fun i => negb (memN i seen)) (required_ids sd) with
      | Some missing => DErr (ERequired missing)
      | None => DOk (VT cur (if sholder sd then match unk with [] => h0 | _ => unk end else h0)) r'
      end
  | DErr er => DErr er | DPanic => DPanic | DFuel => DFuel
  end.

Lemma dec_struct_body_VT : forall fuel dt sd pool bs fs0 h0,
  dec_struct_body fuel dt sd pool bs (VT fs0 h0)
  = dfinish sd h0 (dec_fields dt fuel sd bs fs0
                     (filter (fun i => negb (memN i (required_ids sd))) pool) []).
Proof. reflexivity. Qed.

(* the value of a known field *)
Definition field_res (dt : ty -> list N -> val -> dres val) (f : field) (prior : val) (bs : list N)
  : dres val :=
  if 0 <? fixed_size (fty f) then dwrap (fty f) (read_fixed_checked (deref_ty (fty f)) bs)
  else if fnocopy f then dwrap (fty f) (dec_string bs)
  else dt (fty f) bs prior.

Lemma dec_fields_O : forall dt sd bs cur seen unk, dec_fields dt O sd bs cur seen unk = DFuel.
Proof. reflexivity. Qed.

Lemma dec_fields_S : forall dt fl sd bs cur seen unk,
  dec_fields dt (S fl) sd bs cur seen unk
  = match bs with
    | [] => DErr EShort
    | tp :: r =>
        if tp =? tSTOP then DOk (cur, seen, unk) r
        else if short r 2 then DErr EShort
        else
          match take 2 r with
          | None => DPanic
          | Some (idb, r1) =>
              match (match get_field sd (be_get idb) with
                     | Some (i, f) => if wt (fty f) =? tp then Some (i, f) else None
                     | None => None
                     end) with
              | None =>
                  match gk_skip r1 tp with
                  | SOk n =>
                      match take n r1 with
                      | Some (sk, r2) => dec_fields dt fl sd r2 cur seen (unk ++ tp :: idb ++ sk)
                      | None => DErr EShort
                      end
                  | SErr e => DErr (ESkip e)
                  | SPanic => DErr (ESkip SkUnknownType)
                  | SFuel => DFuel
                  end
              | Some (i, f) =>
                  match field_res dt f (nth i cur (VS 0)) r1 with
                  | DOk v r2 => dec_fields dt fl sd r2 (set_nth cur i v) (be_get idb :: seen) unk
                  | DErr er => DErr er | DPanic => DPanic | DFuel => DFuel
                  end
              end
          end
    end.
Proof. reflexivity. Qed.

Lemma need_eq : forall env t w,
  need env t w
  = if 0 <? fixed_size (deref_ty t) then O
    else
      match w with
      | WList _ _ es =>
          match deref_ty t with TList _ e => S (need_max (fun x => need env e x) es) | _ => 1%nat end
      | WMap _ _ es =>
          match deref_ty t with
          | TMap kt vt =>
              S (need_max (fun kv : tv * tv => Nat.max (need env kt (fst kv)) (need env vt (snd kv))) es)
          | _ => 1%nat
          end
      | WStruct fs _ =>
          match deref_ty t with
          | TStruct sid =>
              match lookup_sd env sid with
              | Some sd =>
                  S (S (need_max (fun fw : N * tv =>
                                    match get_field sd (fst fw) with
                                    | Some (_, f) => if wt (fty f) =? code_of (snd fw)
                                                     then need env (fty f) (snd fw) else O
                                    | None => O
                                    end) fs))
              | None => 1%nat
              end
          | _ => 1%nat
          end
      | _ => 1%nat
      end.
Proof. intros env t w. destruct w; reflexivity. Qed.

Lemma skipped_depth_eq : forall env t w,
  skipped_depth env t w
  = match w with
    | WList _ _ es =>
        match deref_ty t with TList _ e => need_max (fun x => skipped_depth env e x) es | _ => O end
    | WMap _ _ es =>
        match deref_ty t with
        | TMap kt vt =>
            need_max (fun kv : tv * tv =>
                        Nat.max (skipped_depth env kt (fst kv)) (skipped_depth env vt (snd kv))) es
        | _ => O
        end
    | WStruct fs _ =>
        match deref_ty t with
        | TStruct sid =>
            match lookup_sd env sid with
            | Some sd =>
                need_max (fun fw : N * tv =>
                            match get_field sd (fst fw) with
                            | Some (_, f) => if wt (fty f) =? code_of (snd fw)
                                             then skipped_depth env (fty f) (snd fw)
                                             else S (wdepth (snd fw))
                            | None => S (wdepth (snd fw))
                            end) fs
            | None => O
            end
        | _ => O
        end
    | _ => O
    end.
Proof. intros env t w. destruct w; reflexivity. Qed.

Lemma need_max_le : forall A (f : A -> nat) l n,
  (need_max f l <= n)%nat -> forall x, In x l -> (f x <= n)%nat.
Proof.
  intros A f l n. induction l as [|y l IH]; intros H x Hin.
  - destruct Hin.
  - cbn [need_max] in H. destruct Hin as [E|Hin].
    + subst y. lia.
    + apply IH; [lia|exact Hin].
Qed.

(* ------------------------------------------------------------------ *)
(* types, codes and shapes                                              *)
(* ------------------------------------------------------------------ *)

Lemma wt_deref : forall t, wt (deref_ty t) = wt t.
Proof. intros t. destruct t; reflexivity. Qed.

Lemma ty_ok_deref : forall env t, ty_ok env t = true ->
  ty_ok env (deref_ty t) = true /\ is_ptr (deref_ty t) = false.
Proof.
  intros env t H. destruct t; try (split; [exact H|reflexivity]).
  cbn [deref_ty]. apply ty_ok_ptr. exact H.
Qed.

Lemma scalar_width_pos : forall t, is_scalar_ty t = true -> 0 < wire_width t.
Proof. intros t H. destruct t; try discriminate H; cbn [wire_width]; lia. Qed.

Lemma scalar_not_ptr : forall t, is_scalar_ty t = true -> is_ptr t = false.
Proof. intros t H. destruct t; try discriminate H; reflexivity. Qed.

Lemma width_pos_scalar : forall t, is_ptr t = false -> 0 < wire_width t -> is_scalar_ty t = true.
Proof. intros t Hp H. destruct t; try reflexivity; cbn [wire_width] in H; try lia. Qed.

(* a type of positive fixed size is a scalar or a pointer to one *)
Lemma fixed_pos_scalar : dec_params_ok = true -> forall env t, ty_ok env t = true ->
  (0 <? fixed_size t) = true -> is_scalar_ty (deref_ty t) = true.
Proof.
  intros HP env t Hok Hf. destruct (ty_ok_deref env t Hok) as [_ Hp].
  apply N.ltb_lt in Hf. rewrite <- fixed_size_deref in Hf.
  rewrite (fixed_size_nonptr HP _ Hp) in Hf. apply width_pos_scalar; assumption.
Qed.

Lemma scalar_w_ty : forall w t, is_scalar_w w = true -> is_ptr t = false ->
  code_of w = cwt t -> is_scalar_ty t = true.
Proof.
  intros w t Hw Hp Hc.
  destruct w; try discriminate Hw;
    destruct t as [| | | | | | | | |b e|k v|sid|t']; try reflexivity; try discriminate Hp;
      try (destruct b); cbn [code_of cwt] in Hc; discriminate Hc.
Qed.

(* ------------------------------------------------------------------ *)
(* fixed-size kinds: read in place                                      *)
(* ------------------------------------------------------------------ *)

Lemma be_put_one : forall x, x < 256 -> be_put 1 x = [x].
Proof.
  intros x H. rewrite be_put_S. cbn [be_put app]. rewrite N.mod_small by exact H. reflexivity.
Qed.

Lemma read_fixed_be : forall t k x rest,
  fixed_size t = N.of_nat k ->
  read_fixed_unchecked t (be_put k x ++ rest) = DOk (fixed_val (kind t) (be_put k x)) rest
  /\ read_fixed_checked t (be_put k x ++ rest) = DOk (fixed_val (kind t) (be_put k x)) rest.
Proof.
  intros t k x rest Hf.
  assert (R : read_fixed_unchecked t (be_put k x ++ rest)
              = DOk (fixed_val (kind t) (be_put k x)) rest).
  { unfold read_fixed_unchecked. rewrite Hf.
    rewrite (take_app_eq (N.of_nat k) (be_put k x) rest) by apply be_put_len. reflexivity. }
  split; [exact R|].
  unfold read_fixed_checked. rewrite R.
  destruct (short (be_put k x ++ rest) (fixed_size t)) eqn:Es; [|reflexivity].
  rewrite short_spec in Es. apply N.ltb_lt in Es.
  rewrite len_app, be_put_len, Hf in Es. lia.
Qed.

Lemma fixed_val_plain : dec_params_ok = true -> forall t k x,
  is_scalar_ty t = true -> t <> TEnum -> x < 2 ^ (8 * N.of_nat k) ->
  fixed_val (kind t) (be_put k x) = VS x.
Proof.
  intros HP t k x Ht Hne Hx. unfold fixed_val. rewrite (kind_enum HP t Ht).
  rewrite be_get_put_small by exact Hx.
  destruct t; try reflexivity. exfalso. apply Hne. reflexivity.
Qed.

Lemma fixed_val_enum : dec_params_ok = true -> forall k x,
  x < 2 ^ (8 * N.of_nat k) ->
  fixed_val (kind TEnum) (be_put k x) = VS (sext32 x).
Proof.
  intros HP k x Hx. unfold fixed_val. rewrite (kind_enum HP TEnum eq_refl).
  rewrite be_get_put_small by exact Hx. reflexivity.
Qed.

Lemma scalar_read : dec_params_ok = true -> forall t w rest,
  is_scalar_ty t = true -> code_of w = wt t -> wf w = true ->
  exists v, scalar_of t w = Some v
            /\ is_scalar_w w = true
            /\ read_fixed_unchecked t (put w ++ rest) = DOk v rest
            /\ read_fixed_checked t (put w ++ rest) = DOk v rest.
Proof.
  intros HP t w rest Ht Hc Hwf. rewrite (wt_cwt HP) in Hc.
  pose proof (fixed_size_nonptr HP t (scalar_not_ptr t Ht)) as Hfs.
  destruct t; try discriminate Ht;
    destruct w as [x|x|x|x|x|x|s|fs raw|kc vc es|[|] ec es];
    cbn [code_of cwt] in Hc; try discriminate Hc;
    cbn [wf] in Hwf; apply N.ltb_lt in Hwf; cbn [wire_width] in Hfs.
  - (* TBool *)
    exists (VS x). rewrite put_bool_eq, <- (be_put_one x Hwf).
    destruct (read_fixed_be TBool 1 x rest Hfs) as [R1 R2].
    rewrite (fixed_val_plain HP TBool 1 x eq_refl) in R1, R2 by (try discriminate; exact Hwf).
    repeat split; assumption.
  - exists (VS x). rewrite put_i8_eq, <- (be_put_one x Hwf).
    destruct (read_fixed_be TI8 1 x rest Hfs) as [R1 R2].
    rewrite (fixed_val_plain HP TI8 1 x eq_refl) in R1, R2 by (try discriminate; exact Hwf).
    repeat split; assumption.
  - exists (VS x). rewrite put_i16_eq.
    destruct (read_fixed_be TI16 2 x rest Hfs) as [R1 R2].
    rewrite (fixed_val_plain HP TI16 2 x eq_refl) in R1, R2 by (try discriminate; exact Hwf).
    repeat split; assumption.
  - exists (VS x). rewrite put_i32_eq.
    destruct (read_fixed_be TI32 4 x rest Hfs) as [R1 R2].
    rewrite (fixed_val_plain HP TI32 4 x eq_refl) in R1, R2 by (try discriminate; exact Hwf).
    repeat split; assumption.
  - exists (VS x). rewrite put_i64_eq.
    destruct (read_fixed_be TI64 8 x rest Hfs) as [R1 R2].
    rewrite (fixed_val_plain HP TI64 8 x eq_refl) in R1, R2 by (try discriminate; exact Hwf).
    repeat split; assumption.
  - exists (VS x). rewrite put_dbl_eq.
    destruct (read_fixed_be TDouble 8 x rest Hfs) as [R1 R2].
    rewrite (fixed_val_plain HP TDouble 8 x eq_refl) in R1, R2 by (try discriminate; exact Hwf).
    repeat split; assumption.
  - exists (VS (sext32 x)). rewrite put_i32_eq.
    destruct (read_fixed_be TEnum 4 x rest Hfs) as [R1 R2].
    rewrite (fixed_val_enum HP 4 x Hwf) in R1, R2.
    repeat split; assumption.
Qed.

(* a slot of fixed-size kind (element, key, value, field): both decoders *)
Lemma fixed_slot : dec_params_ok = true -> forall env t w rest prior,
  ty_ok env t = true -> (0 <? fixed_size t) = true -> code_of w = wt t -> wf w = true ->
  exists v, absorb env t w prior = AOk (wrap_ptr t v)
            /\ read_fixed_unchecked (deref_ty t) (put w ++ rest) = DOk v rest
            /\ read_fixed_checked (deref_ty t) (put w ++ rest) = DOk v rest.
Proof.
  intros HP env t w rest prior Hok Hf Hc Hwf.
  pose proof (fixed_pos_scalar HP env t Hok Hf) as Hs.
  rewrite <- wt_deref in Hc.
  destruct (scalar_read HP (deref_ty t) w rest Hs Hc Hwf) as (v & S1 & S2 & S3 & S4).
  exists v. rewrite (absorb_scalar env t w prior S2), S1. cbn [awrap]. unfold wrap_ptr.
  repeat split; assumption.
Qed.

(* ------------------------------------------------------------------ *)
(* strings                                                              *)
(* ------------------------------------------------------------------ *)

Lemma short_false : forall bs n, n <= len bs -> short bs n = false.
Proof. intros bs n H. rewrite short_spec. apply N.ltb_ge. exact H. Qed.

Lemma dec_string_put : dec_params_ok = true -> forall s rest, wf (WStr s) = true ->
  dec_string (put (WStr s) ++ rest) = DOk (VB false s) rest.
Proof.
  intros HP s rest Hwf. destruct (hdr_eqs HP) as (_ & _ & _ & Hh).
  cbn [wf] in Hwf. apply andb_true_iff in Hwf. destruct Hwf as [Hl _].
  unfold lt31 in Hl. apply N.ltb_lt in Hl.
  unfold dec_string. rewrite Hh, put_str_eq, <- app_assoc.
  rewrite short_false by (rewrite len_app, be_put_len; lia).
  rewrite take4_count by exact Hl. cbv zeta.
  rewrite be_get_count by exact Hl. rewrite neg32_small by exact Hl.
  destruct (len s =? 0) eqn:E0.
  - apply N.eqb_eq in E0. destruct s as [|c s]; [reflexivity|]. rewrite len_cons in E0. lia.
  - rewrite short_false by (rewrite len_app; lia). rewrite take_app. reflexivity.
Qed.

(* ------------------------------------------------------------------ *)
(* SetMapIndex: the two models are the same function                    *)
(* ------------------------------------------------------------------ *)

Lemma map_insert_ainsert : forall kt m k v, map_insert kt m k v = ainsert kt m k v.
Proof.
  intros kt m k v. induction m as [|[k' v'] m IH].
  - reflexivity.
  - cbn [map_insert ainsert]. rewrite IH. reflexivity.
Qed.

(* ------------------------------------------------------------------ *)
(* the presence set: content inherited from the pool is harmless        *)
(* ------------------------------------------------------------------ *)

Lemma memN_app : forall i a b, memN i (a ++ b) = memN i a || memN i b.
Proof. intros i a b. unfold memN. apply existsb_app. Qed.

Lemma memN_filter_not : forall i req pool,
  memN i req = true -> memN i (filter (fun j => negb (memN j req)) pool) = false.
Proof.
  intros i req pool Hi. induction pool as [|j pool IH].
  - reflexivity.
  - cbn [filter]. destruct (memN j req) eqn:Ej; cbn [negb].
    + exact IH.
    + unfold memN at 1. cbn [existsb]. fold (memN i (filter (fun j => negb (memN j req)) pool)).
      rewrite IH, orb_false_r. apply N.eqb_neq. intros E. subst j. rewrite Hi in Ej. discriminate Ej.
Qed.

Lemma memN_self : forall i l, In i l -> memN i l = true.
Proof.
  intros i l H. unfold memN. apply existsb_exists. exists i. split; [exact H|apply N.eqb_refl].
Qed.

Lemma find_ext_in : forall (p q : N -> bool) l,
  (forall i, In i l -> p i = q i) -> find p l = find q l.
Proof.
  intros p q l. induction l as [|i l IH]; intros H.
  - reflexivity.
  - cbn [find]. rewrite (H i (or_introl eq_refl)).
    rewrite IH by (intros j Hj; apply H; right; exact Hj). reflexivity.
Qed.

Lemma required_find_pool : forall req seen pool,
  find (fun i => negb (memN i (seen ++ filter (fun j => negb (memN j req)) pool))) req
  = find (fun i => negb (memN i seen)) req.
Proof.
  intros req seen pool. apply find_ext_in. intros i Hi.
  rewrite memN_app, (memN_filter_not i req pool (memN_self i req Hi)), orb_false_r. reflexivity.
Qed.

(* ------------------------------------------------------------------ *)
(* count checks                                                         *)
(* ------------------------------------------------------------------ *)

Lemma min_wire_put : dec_params_ok = true -> forall t w, code_of w = wt t -> min_wire (wt t) <= len (put w).
Proof.
  intros HP t w Hc. destruct (min_wire_ok HP t) as [_ H].
  pose proof (min_size_put' w) as H1. rewrite Hc in H1. lia.
Qed.

Section Refines.
  Hypothesis skip_put_H : forall w rest, wf w = true ->
     (wdepth w < N.to_nat gk_defaultRecursionDepth)%nat -> rest <> [] ->
     gk_skip (put w ++ rest) (code_of w) = SOk (len (put w)).

Section Fixed.
  Variable env : senv.
  Variable fuel : nat.
  Variable pool : list N.
  Hypothesis HP : dec_params_ok = true.
  Hypothesis HE : env_ok env = true.

  Definition refines_at (w : tv) : Prop :=
    forall t d rest prior,
      wf w = true -> code_of w = wt t -> ty_ok env t = true -> fixed_size (deref_ty t) = 0 ->
      (need env t w <= d)%nat -> (skipped_depth env t w <= 63)%nat ->
      (length (put w ++ rest) < fuel)%nat ->
      agree (absorb env t w prior) (decode_type env fuel pool d t (put w ++ rest) prior) rest.

  (* an element, key or value: read in place when of fixed size, else decodeType *)
  Lemma slot_elem : forall w, refines_at w -> forall d e rest,
    wf w = true -> code_of w = wt e -> ty_ok env e = true ->
    (need env e w <= d)%nat -> (skipped_depth env e w <= 63)%nat ->
    (length (put w ++ rest) < fuel)%nat ->
    agree (absorb env e w (zero_of env e))
          (dec_elem env (decode_type env fuel pool d) e (put w ++ rest)) rest
    /\ agree (absorb env e w (zero_of env e))
             (dec_kv env (decode_type env fuel pool d) e (put w ++ rest)) rest.
  Proof.
    intros w IH d e rest Hwf Hc Hok Hn Hs Hl. unfold dec_elem, dec_kv.
    destruct (0 <? fixed_size e) eqn:Ef.
    - destruct (fixed_slot HP env e w rest (zero_of env e) Hok Ef Hc Hwf) as (v & A & R1 & R2).
      rewrite A, R1, R2. split; reflexivity.
    - apply N.ltb_ge in Ef.
      assert (Hz : fixed_size (deref_ty e) = 0) by (rewrite fixed_size_deref; lia).
      split; apply IH; assumption.
  Qed.

  (* ---- lists ---- *)
  Lemma dec_list_elems_ok : forall dt e es rest,
    (forall x, In x es -> forall r, (length (put x ++ r) < fuel)%nat ->
       agree (absorb env e x (zero_of env e)) (dec_elem env dt e (put x ++ r)) r) ->
    (length (cat_map put es ++ rest) < fuel)%nat ->
    agree (ab_elems (absorb env) env e es)
          (dec_list_elems env dt (length es) e (cat_map put es ++ rest)) rest.
  Proof.
    intros dt e es rest. induction es as [|x es IH]; intros H Hl.
    - reflexivity.
    - cbn [length dec_list_elems ab_elems]. rewrite cat_map_cons, <- app_assoc.
      rewrite cat_map_cons, <- app_assoc in Hl.
      pose proof (H x (or_introl eq_refl) (cat_map put es ++ rest) Hl) as Hx.
      assert (IH' : agree (ab_elems (absorb env) env e es)
                      (dec_list_elems env dt (length es) e (cat_map put es ++ rest)) rest).
      { apply IH.
        - intros y Hy. apply H. right. exact Hy.
        - rewrite app_length in Hl. lia. }
      destruct (absorb env e x (zero_of env e)) as [v| |i|]; cbn [agree] in Hx.
      + rewrite Hx.
        destruct (ab_elems (absorb env) env e es) as [xs| |i|]; cbn [agree] in IH' |- *.
        * rewrite IH'. reflexivity.
        * destruct IH' as [er IH']. rewrite IH'. exists er. reflexivity.
        * destruct IH' as [er IH']. rewrite IH'. exists er. reflexivity.
        * exact I.
      + destruct Hx as [er Hx]. rewrite Hx. exists er. reflexivity.
      + destruct Hx as [er Hx]. rewrite Hx. exists er. reflexivity.
      + exact I.
  Qed.

  Lemma dec_list_ok : forall dt e b ec es rest,
    wf (WList b ec es) = true ->
    (ec = wt e -> forall x, In x es -> forall r, (length (put x ++ r) < fuel)%nat ->
       agree (absorb env e x (zero_of env e)) (dec_elem env dt e (put x ++ r)) r) ->
    (length (put (WList b ec es) ++ rest) < fuel)%nat ->
    agree (if negb (ec =? wt e) then AMismatch
           else match ab_elems (absorb env) env e es with
                | AOk xs => AOk (VL (Some xs))
                | AMismatch => AMismatch | AMissing i => AMissing i | ABad => ABad
                end)
          (dec_list env dt e (put (WList b ec es) ++ rest)) rest.
  Proof.
    intros dt e b ec es rest Hwf H Hl.
    destruct (hdr_eqs HP) as (_ & _ & Hh & _).
    apply wf_list in Hwf. destruct Hwf as [Hlen [Hec Hwf]].
    unfold dec_list. rewrite Hh. rewrite put_list_eq in Hl |- *. cbn [app] in Hl |- *.
    rewrite <- app_assoc in Hl |- *.
    rewrite short_false by (rewrite len_cons, len_app, be_put_len; lia).
    rewrite take4_count by exact Hlen. cbv zeta.
    rewrite be_get_count by exact Hlen. rewrite neg32_small by exact Hlen.
    rewrite (N.eqb_sym (wt e) ec).
    destruct (ec =? wt e) eqn:Eec; cbn [negb].
    2:{ exists ETypeMismatch. reflexivity. }
    apply N.eqb_eq in Eec. specialize (H Eec).
    destruct (len es =? 0) eqn:E0.
    { apply N.eqb_eq in E0. destruct es as [|x es]; [reflexivity|]. rewrite len_cons in E0. lia. }
    destruct (min_wire_ok HP e) as [Hpos _].
    destruct (min_wire (wt e) =? 0) eqn:Em; [apply N.eqb_eq in Em; lia|].
    rewrite short_false.
    2:{ rewrite len_app.
        assert (Hm : len es * min_wire (wt e) <= len (cat_map put es)).
        { apply cat_map_min. intros x Hx. apply (min_wire_put HP).
          destruct (Hwf x Hx) as [Hc _]. rewrite Hc. exact Eec. }
        lia. }
    rewrite len_length.
    assert (Hes : agree (ab_elems (absorb env) env e es)
                    (dec_list_elems env dt (length es) e (cat_map put es ++ rest)) rest).
    { apply dec_list_elems_ok; [exact H|].
      cbn [length] in Hl. rewrite app_length in Hl. lia. }
    destruct (ab_elems (absorb env) env e es) as [xs| |i|]; cbn [agree] in Hes |- *.
    - rewrite Hes. reflexivity.
    - destruct Hes as [er Hes]. rewrite Hes. exists er. reflexivity.
    - destruct Hes as [er Hes]. rewrite Hes. exists er. reflexivity.
    - exact I.
  Qed.

  (* ---- maps ---- *)
  Lemma dec_map_entries_ok : forall dt kt vt es rest acc,
    (forall kv, In kv es ->
       (forall r, (length (put (fst kv) ++ r) < fuel)%nat ->
          agree (absorb env kt (fst kv) (zero_of env kt)) (dec_kv env dt kt (put (fst kv) ++ r)) r)
       /\ (forall r, (length (put (snd kv) ++ r) < fuel)%nat ->
          agree (absorb env vt (snd kv) (zero_of env vt)) (dec_kv env dt vt (put (snd kv) ++ r)) r)) ->
    (length (cat_map put_entry es ++ rest) < fuel)%nat ->
    agree (ab_entries (absorb env) env kt vt es acc)
          (dec_map_entries env dt (length es) kt vt (cat_map put_entry es ++ rest) acc) rest.
  Proof.
    intros dt kt vt es rest. induction es as [|[kw vw] es IH]; intros acc H Hl.
    - reflexivity.
    - cbn [length dec_map_entries ab_entries].
      rewrite cat_map_cons in Hl |- *. unfold put_entry at 1 in Hl. unfold put_entry at 1.
      cbn [fst snd] in Hl |- *. rewrite <- !app_assoc in Hl |- *.
      destruct (H (kw, vw) (or_introl eq_refl)) as [Hk Hv]. cbn [fst snd] in Hk, Hv.
      specialize (Hk (put vw ++ cat_map put_entry es ++ rest) Hl).
      assert (Hl2 : (length (put vw ++ cat_map put_entry es ++ rest) < fuel)%nat)
        by (rewrite app_length in Hl; lia).
      specialize (Hv (cat_map put_entry es ++ rest) Hl2).
      assert (Hl3 : (length (cat_map put_entry es ++ rest) < fuel)%nat)
        by (rewrite app_length in Hl2; lia).
      destruct (absorb env kt kw (zero_of env kt)) as [k| |i|]; cbn [agree] in Hk.
      + rewrite Hk.
        destruct (absorb env vt vw (zero_of env vt)) as [v| |i|]; cbn [agree] in Hv.
        * rewrite Hv, (map_insert_ainsert kt acc k v). apply IH; [|exact Hl3].
          intros kv Hkv. apply H. right. exact Hkv.
        * destruct Hv as [er Hv]. rewrite Hv. exists er. reflexivity.
        * destruct Hv as [er Hv]. rewrite Hv. exists er. reflexivity.
        * exact I.
      + destruct Hk as [er Hk]. rewrite Hk. exists er. reflexivity.
      + destruct Hk as [er Hk]. rewrite Hk. exists er. reflexivity.
      + exact I.
  Qed.

  Lemma dec_map_ok : forall dt kt vt kc vc es rest,
    wf (WMap kc vc es) = true ->
    (kc = wt kt -> vc = wt vt -> forall kv, In kv es ->
       (forall r, (length (put (fst kv) ++ r) < fuel)%nat ->
          agree (absorb env kt (fst kv) (zero_of env kt)) (dec_kv env dt kt (put (fst kv) ++ r)) r)
       /\ (forall r, (length (put (snd kv) ++ r) < fuel)%nat ->
          agree (absorb env vt (snd kv) (zero_of env vt)) (dec_kv env dt vt (put (snd kv) ++ r)) r)) ->
    (length (put (WMap kc vc es) ++ rest) < fuel)%nat ->
    agree (if negb ((kc =? wt kt) && (vc =? wt vt)) then AMismatch
           else match ab_entries (absorb env) env kt vt es [] with
                | AOk m => AOk (VM (Some m))
                | AMismatch => AMismatch | AMissing i => AMissing i | ABad => ABad
                end)
          (dec_map env dt kt vt (put (WMap kc vc es) ++ rest)) rest.
  Proof.
    intros dt kt vt kc vc es rest Hwf H Hl.
    destruct (hdr_eqs HP) as (_ & Hh & _ & _).
    apply wf_map in Hwf. destruct Hwf as [Hlen [Hkc [Hvc Hwf]]].
    unfold dec_map. rewrite Hh. rewrite put_map_eq in Hl |- *. cbn [app] in Hl |- *.
    rewrite <- app_assoc in Hl |- *.
    rewrite short_false by (rewrite !len_cons, len_app, be_put_len; lia).
    rewrite take4_count by exact Hlen. cbv zeta.
    rewrite be_get_count by exact Hlen. rewrite neg32_small by exact Hlen.
    destruct ((kc =? wt kt) && (vc =? wt vt)) eqn:Ec; cbn [negb].
    2:{ exists ETypeMismatch. reflexivity. }
    apply andb_true_iff in Ec. destruct Ec as [Ek Ev].
    apply N.eqb_eq in Ek. apply N.eqb_eq in Ev. specialize (H Ek Ev).
    destruct (min_wire_ok HP kt) as [Hpk _]. destruct (min_wire_ok HP vt) as [Hpv _].
    destruct (min_wire (wt kt) + min_wire (wt vt) =? 0) eqn:Em; [apply N.eqb_eq in Em; lia|].
    rewrite short_false.
    2:{ rewrite len_app.
        assert (Hm : len es * (min_wire (wt kt) + min_wire (wt vt)) <= len (cat_map put_entry es)).
        { apply cat_map_min. intros kv Hkv. destruct (Hwf kv Hkv) as [H1 [H2 _]].
          unfold put_entry. rewrite len_app.
          assert (min_wire (wt kt) <= len (put (fst kv)))
            by (apply (min_wire_put HP); rewrite H1; exact Ek).
          assert (min_wire (wt vt) <= len (put (snd kv)))
            by (apply (min_wire_put HP); rewrite H2; exact Ev).
          lia. }
        lia. }
    rewrite len_length.
    assert (Hes : agree (ab_entries (absorb env) env kt vt es [])
                    (dec_map_entries env dt (length es) kt vt (cat_map put_entry es ++ rest) []) rest).
    { apply dec_map_entries_ok; [exact H|].
      cbn [length] in Hl. rewrite app_length in Hl. lia. }
    destruct (ab_entries (absorb env) env kt vt es []) as [m| |i|]; cbn [agree] in Hes |- *.
    - rewrite Hes. reflexivity.
    - destruct Hes as [er Hes]. rewrite Hes. exists er. reflexivity.
    - destruct Hes as [er Hes]. rewrite Hes. exists er. reflexivity.
    - exact I.
  Qed.

  (* ---- structs ---- *)
  Definition fneed (sd : sdesc) (fw : N * tv) : nat :=
    match get_field sd (fst fw) with
    | Some (_, f) => if wt (fty f) =? code_of (snd fw) then need env (fty f) (snd fw) else O
    | None => O
    end.

  Definition fskip (sd : sdesc) (fw : N * tv) : nat :=
    match get_field sd (fst fw) with
    | Some (_, f) => if wt (fty f) =? code_of (snd fw) then skipped_depth env (fty f) (snd fw)
                     else S (wdepth (snd fw))
    | None => S (wdepth (snd fw))
    end.

  Lemma find_field_In : forall fs id i0 i f, find_field fs id i0 = Some (i, f) -> In f fs.
  Proof.
    induction fs as [|g fs IH]; intros id i0 i f H.
    - discriminate H.
    - cbn [find_field] in H. destruct (fid g =? id).
      + injection H as _ Hf. subst g. left. reflexivity.
      + right. eapply IH. exact H.
  Qed.

  Lemma code_str : forall w, code_of w = cSTRING -> exists s, w = WStr s.
  Proof.
    intros w H. destruct w as [x|x|x|x|x|x|s|fs raw|kc vc es|[|] ec es];
      cbn [code_of] in H; try discriminate H.
    exists s. reflexivity.
  Qed.

  Lemma field_val_ok : forall w, refines_at w -> forall d f rest prior,
    field_ok env f = true -> wf w = true -> code_of w = wt (fty f) ->
    (need env (fty f) w <= d)%nat -> (skipped_depth env (fty f) w <= 63)%nat ->
    (length (put w ++ rest) < fuel)%nat ->
    agree (absorb env (fty f) w prior)
          (field_res (decode_type env fuel pool d) f prior (put w ++ rest)) rest.
  Proof.
    intros w IH d f rest prior Hf Hwf Hc Hn Hs Hl.
    unfold field_ok in Hf. andb_all.
    match goal with H : ty_ok env (fty f) = true |- _ => rename H into Hok end.
    match goal with H : negb (fnocopy f) || _ = true |- _ => rename H into Hnc end.
    unfold field_res.
    destruct (0 <? fixed_size (fty f)) eqn:Ef.
    - destruct (fixed_slot HP env (fty f) w rest prior Hok Ef Hc Hwf) as (v & A & _ & R2).
      rewrite A, R2. reflexivity.
    - destruct (fnocopy f) eqn:En.
      + cbn [negb orb] in Hnc. unfold is_strlike in Hnc.
        assert (Hcs : code_of w = cSTRING).
        { rewrite Hc, <- wt_deref, (wt_cwt HP).
          destruct (deref_ty (fty f)); try discriminate Hnc; reflexivity. }
        destruct (code_str w Hcs) as [s Es]. subst w.
        rewrite absorb_WStr, (dec_string_put HP s rest Hwf). apply agree_wrap.
        destruct (deref_ty (fty f)); try discriminate Hnc; reflexivity.
      + apply N.ltb_ge in Ef.
        assert (Hz : fixed_size (deref_ty (fty f)) = 0) by (rewrite fixed_size_deref; lia).
        apply IH; assumption.
  Qed.

  Definition amap {A B : Type} (g : A -> B) (r : ares A) : ares B :=
    match r with
    | AOk a => AOk (g a)
    | AMismatch => AMismatch | AMissing i => AMissing i | ABad => ABad
    end.

  Definition addseen (x : list N) (csu : list val * list N * list N) : list val * list N * list N :=
    let '(c, s, u) := csu in (c, s ++ x, u).

  Lemma gk_depth_63 : (63 < N.to_nat gk_defaultRecursionDepth)%nat.
  Proof. unfold gk_defaultRecursionDepth. lia. Qed.

  Lemma dec_fields_ok : forall d sd,
    (forall f, In f (sfields sd) -> field_ok env f = true) ->
    forall fs,
    (forall fv, In fv fs -> refines_at (snd fv)) ->
    (forall fv, In fv fs -> fst fv < 2 ^ 16 /\ wf (snd fv) = true) ->
    (forall fv, In fv fs -> (fneed sd fv <= d)%nat) ->
    (forall fv, In fv fs -> (fskip sd fv <= 63)%nat) ->
    forall fl rest cur seen unk x,
    (length (put_fields fs ++ cSTOP :: rest) < fuel)%nat -> (length fs < fl)%nat ->
    agree (amap (addseen x) (ab_fields (absorb env) sd fs cur seen unk))
          (dec_fields (decode_type env fuel pool d) fl sd (put_fields fs ++ cSTOP :: rest)
                      cur (seen ++ x) unk) rest.
  Proof.
    intros d sd Hsd.
    destruct (codes_eqs (dec_enc HP)) as (E0 & _).
    induction fs as [|[id w] fs IH]; intros HF Hwf Hn Hs fl rest cur seen unk x Hl Hfl.
    - destruct fl as [|fl]; [inversion Hfl|].
      cbn [put_fields cat_map app]. rewrite dec_fields_S, E0, N.eqb_refl. reflexivity.
    - destruct fl as [|fl]; [inversion Hfl|]. cbn [length] in Hfl.
      destruct (Hwf (id, w) (or_introl eq_refl)) as [Hid Hw]. cbn [fst snd] in Hid, Hw.
      pose proof (HF (id, w) (or_introl eq_refl)) as IHw. cbn [snd] in IHw.
      pose proof (Hn (id, w) (or_introl eq_refl)) as Hnw.
      pose proof (Hs (id, w) (or_introl eq_refl)) as Hsw.
      unfold fneed in Hnw. unfold fskip in Hsw. cbn [fst snd] in Hnw, Hsw.
      rewrite put_fields_cons, put_field_eq in Hl |- *.
      cbn [app] in Hl |- *. rewrite <- !app_assoc in Hl |- *.
      set (R := put_fields fs ++ cSTOP :: rest) in *.
      assert (HlR : (length R < fuel)%nat).
      { cbn [length] in Hl. rewrite !app_length in Hl. lia. }
      assert (Hlw : (length (put w ++ R) < fuel)%nat).
      { cbn [length] in Hl. rewrite app_length in Hl. lia. }
      (* the tail of the loop *)
      assert (IH' : forall cur' seen' unk',
                 agree (amap (addseen x) (ab_fields (absorb env) sd fs cur' seen' unk'))
                       (dec_fields (decode_type env fuel pool d) fl sd R cur' (seen' ++ x) unk') rest).
      { intros cur' seen' unk'. apply IH.
        - intros fv Hin. apply HF. right. exact Hin.
        - intros fv Hin. apply Hwf. right. exact Hin.
        - intros fv Hin. apply Hn. right. exact Hin.
        - intros fv Hin. apply Hs. right. exact Hin.
        - exact HlR.
        - lia. }
      rewrite dec_fields_S, E0, code_of_not_stop.
      rewrite short_false by (rewrite len_app, be_put_len; lia).
      rewrite (take_app_eq 2 (be_put 2 id)) by apply be_put_len.
      rewrite (be_get_put_small 2 id) by exact Hid.
      (* a skipped field *)
      assert (Hunk : (S (wdepth w) <= 63)%nat ->
                 agree (amap (addseen x)
                          (ab_fields (absorb env) sd fs cur seen (unk ++ put_field (id, w))))
                       (match gk_skip (put w ++ R) (code_of w) with
                        | SOk n =>
                            match take n (put w ++ R) with
                            | Some (sk, r2) =>
                                dec_fields (decode_type env fuel pool d) fl sd r2 cur (seen ++ x)
                                           (unk ++ code_of w :: be_put 2 id ++ sk)
                            | None => DErr EShort
                            end
                        | SErr e => DErr (ESkip e)
                        | SPanic => DErr (ESkip SkUnknownType)
                        | SFuel => DFuel
                        end) rest).
      { intros Hd. rewrite skip_put_H.
        - rewrite take_app, <- put_field_eq. apply IH'.
        - exact Hw.
        - pose proof gk_depth_63. lia.
        - unfold R. destruct (put_fields fs); discriminate. }
      cbn [ab_fields].
      destruct (get_field sd id) as [[i f]|] eqn:Eg; [|apply Hunk; exact Hsw].
      destruct (wt (fty f) =? code_of w) eqn:Ew; [|apply Hunk; exact Hsw].
      apply N.eqb_eq in Ew.
      assert (Hfok : field_ok env f = true).
      { apply Hsd. unfold get_field in Eg. eapply find_field_In. exact Eg. }
      pose proof (field_val_ok w IHw d f R (nth i cur (VS 0)) Hfok Hw (eq_sym Ew) Hnw Hsw Hlw) as Hv.
      destruct (absorb env (fty f) w (nth i cur (VS 0))) as [v| |j|]; cbn [agree] in Hv.
      + rewrite Hv. apply (IH' (set_nth cur i v) (id :: seen) unk).
      + destruct Hv as [er Hv]. rewrite Hv. exists er. reflexivity.
      + destruct Hv as [er Hv]. rewrite Hv. exists er. reflexivity.
      + exact I.
  Qed.

  Lemma struct_body_ok : forall d sd fs rest fs0 h0,
    (forall f, In f (sfields sd) -> field_ok env f = true) ->
    (forall fv, In fv fs -> refines_at (snd fv)) ->
    wf (WStruct fs []) = true ->
    (need_max (fneed sd) fs <= d)%nat -> (need_max (fskip sd) fs <= 63)%nat ->
    (length (put (WStruct fs []) ++ rest) < fuel)%nat ->
    agree (afinish sd h0 (ab_fields (absorb env) sd fs fs0 [] []))
          (dec_struct_body fuel (decode_type env fuel pool d) sd pool
                           (put (WStruct fs []) ++ rest) (VT fs0 h0)) rest.
  Proof.
    intros d sd fs rest fs0 h0 Hsd HF Hwf Hn Hs Hl.
    apply wf_struct in Hwf. destruct Hwf as [_ Hwf].
    rewrite dec_struct_body_VT. rewrite put_struct_eq in Hl |- *.
    assert (E : (put_fields fs ++ [] ++ [cSTOP]) ++ rest = put_fields fs ++ cSTOP :: rest)
      by (rewrite <- app_assoc; reflexivity).
    rewrite E in Hl |- *. clear E.
    set (x := filter (fun i => negb (memN i (required_ids sd))) pool).
    assert (Hfl : (length fs < fuel)%nat).
    { pose proof (length_put_fields fs). rewrite app_length in Hl. lia. }
    pose proof (dec_fields_ok d sd Hsd fs HF Hwf (need_max_le _ _ _ _ Hn) (need_max_le _ _ _ _ Hs)
                              fuel rest fs0 [] [] x Hl Hfl) as H.
    cbn [app] in H.
    destruct (ab_fields (absorb env) sd fs fs0 [] []) as [[[c s] u]| |i|];
      cbn [amap addseen agree afinish] in H |- *.
    - rewrite H. cbn [dfinish]. unfold x. rewrite required_find_pool.
      destruct (find (fun i => negb (memN i s)) (required_ids sd)) as [m|]; cbn [agree].
      + exists (ERequired m). reflexivity.
      + reflexivity.
    - destruct H as [er H]. rewrite H. exists er. reflexivity.
    - destruct H as [er H]. rewrite H. exists er. reflexivity.
    - exact I.
  Qed.

  (* ---- the value-level theorem ---- *)
  Lemma scalar_w_fixed : forall w t,
    is_scalar_w w = true -> code_of w = wt t -> ty_ok env t = true ->
    fixed_size (deref_ty t) = 0 -> False.
  Proof.
    intros w t Hw Hc Hok Hz. destruct (ty_ok_deref env t Hok) as [_ Hp].
    rewrite <- wt_deref, (wt_cwt HP) in Hc.
    pose proof (scalar_w_ty w (deref_ty t) Hw Hp Hc) as Hs.
    rewrite (fixed_size_nonptr HP _ Hp) in Hz.
    pose proof (scalar_width_pos _ Hs). lia.
  Qed.

  Lemma lookup_sd_some : forall sid, (sid <? len env) = true -> exists sd, lookup_sd env sid = Some sd.
  Proof.
    intros sid H. apply N.ltb_lt in H. unfold lookup_sd.
    destruct (len env <=? sid) eqn:E; [apply N.leb_le in E; lia|].
    destruct (nth_error env (N.to_nat sid)) as [sd|] eqn:En; [exists sd; reflexivity|].
    apply nth_error_None in En. unfold len in H. lia.
  Qed.

  Lemma need_pos : forall t w, fixed_size (deref_ty t) = 0 -> (1 <= need env t w)%nat.
  Proof.
    intros t w Hz. rewrite need_eq, Hz. change (0 <? 0) with false. cbv iota.
    destruct w; try lia; destruct (deref_ty t); try lia.
    destruct (lookup_sd env sid); lia.
  Qed.

  Theorem refines_all : forall w, refines_at w.
  Proof.
    induction w as [x|x|x|x|x|x|s|fs raw IHfs|kc vc es IHes|b ec es IHes] using tv_ind';
      unfold refines_at; intros t d rest prior Hwf Hc Hok Hz Hn Hs Hl;
      try (exfalso; eapply scalar_w_fixed; [|exact Hc|exact Hok|exact Hz]; reflexivity);
      (destruct d as [|d];
       [match type of Hn with (need _ _ ?w <= _)%nat => pose proof (need_pos t w Hz) end; lia|]).
    - (* WStr *)
      rewrite absorb_WStr, decode_type_S, Hz. change (0 <? 0) with false. cbv iota.
      apply agree_wrap.
      destruct (deref_ty t); try exact I; rewrite (dec_string_put HP s rest Hwf); reflexivity.
    - (* WStruct *)
      destruct (ty_ok_deref env t Hok) as [Hok0 _].
      rewrite need_eq, Hz in Hn. change (0 <? 0) with false in Hn. cbv iota in Hn.
      rewrite skipped_depth_eq in Hs.
      rewrite absorb_WStruct, decode_type_S, Hz. change (0 <? 0) with false. cbv iota.
      apply agree_wrap.
      revert Hok0 Hn Hs.
      destruct (deref_ty t) as [| | | | | | | | |b0 e|kt vt|sid|t']; intros Hok0 Hn Hs; try exact I.
      destruct (lookup_sd env sid) as [sd|] eqn:Esd; [|exact I].
      destruct (apply_init sd (if is_ptr t then zero_of env (TStruct sid) else prior))
        as [ | | | | |fs0 h0]; try exact I.
      destruct d as [|d]; [lia|].
      rewrite decode_struct_S.
      pose proof (wf_struct fs raw Hwf) as [Hraw _]. subst raw.
      apply struct_body_ok.
      + intros f Hf. exact (env_field_ok env sid sd f HE Esd Hf).
      + rewrite Forall_forall in IHfs. exact IHfs.
      + exact Hwf.
      + unfold fneed. lia.
      + unfold fskip. exact Hs.
      + exact Hl.
    - (* WMap *)
      destruct (ty_ok_deref env t Hok) as [Hok0 _].
      rewrite need_eq, Hz in Hn. change (0 <? 0) with false in Hn. cbv iota in Hn.
      rewrite skipped_depth_eq in Hs.
      rewrite absorb_WMap, decode_type_S, Hz. change (0 <? 0) with false. cbv iota.
      apply agree_wrap.
      revert Hok0 Hn Hs.
      destruct (deref_ty t) as [| | | | | | | | |b0 e|kt vt|sid|t']; intros Hok0 Hn Hs; try exact I.
      destruct (ty_ok_map env kt vt Hok0) as (_ & Hokk & Hokv & _).
      pose proof (wf_map kc vc es Hwf) as (_ & _ & _ & Hwfe).
      rewrite Forall_forall in IHes.
      assert (Hn' : (need_max (fun kv : tv * tv => Nat.max (need env kt (fst kv)) (need env vt (snd kv))) es
                     <= d)%nat) by lia.
      apply dec_map_ok; [exact Hwf| |exact Hl].
      intros Ek Ev kv Hkv.
      destruct (IHes kv Hkv) as [IHk IHv].
      destruct (Hwfe kv Hkv) as (C1 & C2 & W1 & W2).
      pose proof (need_max_le _ _ _ _ Hn' kv Hkv) as Hnk. cbv beta in Hnk.
      pose proof (need_max_le _ _ _ _ Hs kv Hkv) as Hsk. cbv beta in Hsk.
      split; intros r Hr.
      + apply (slot_elem (fst kv) IHk d kt r);
          [exact W1|rewrite C1; exact Ek|exact Hokk|clear - Hnk; lia|clear - Hsk; lia|exact Hr].
      + apply (slot_elem (snd kv) IHv d vt r);
          [exact W2|rewrite C2; exact Ev|exact Hokv|clear - Hnk; lia|clear - Hsk; lia|exact Hr].
    - (* WList *)
      destruct (ty_ok_deref env t Hok) as [Hok0 _].
      rewrite need_eq, Hz in Hn. change (0 <? 0) with false in Hn. cbv iota in Hn.
      rewrite skipped_depth_eq in Hs.
      rewrite absorb_WList, decode_type_S, Hz. change (0 <? 0) with false. cbv iota.
      apply agree_wrap.
      revert Hok0 Hn Hs.
      destruct (deref_ty t) as [| | | | | | | | |b0 e|kt vt|sid|t']; intros Hok0 Hn Hs; try exact I.
      destruct (ty_ok_list env b0 e Hok0) as [Hoke _].
      pose proof (wf_list b ec es Hwf) as (_ & _ & Hwfe).
      rewrite Forall_forall in IHes.
      assert (Hn' : (need_max (fun x => need env e x) es <= d)%nat) by lia.
      apply dec_list_ok; [exact Hwf| |exact Hl].
      intros Eec x Hx r Hr.
      destruct (Hwfe x Hx) as [C1 W1].
      pose proof (need_max_le _ _ _ _ Hn' x Hx) as Hnx. cbv beta in Hnx.
      pose proof (need_max_le _ _ _ _ Hs x Hx) as Hsx. cbv beta in Hsx.
      apply (slot_elem x (IHes x Hx) d e r);
        [exact W1|rewrite C1; exact Eec|exact Hoke|exact Hnx|exact Hsx|exact Hr].
  Qed.

End Fixed.

(* value level; t is the slot type (possibly TPtr), w the wire value found for it *)
Theorem decode_type_refines : forall env fuel pool, dec_params_ok = true -> env_ok env = true ->
  forall w t d rest prior,
    wf w = true -> code_of w = wt t -> ty_ok env t = true -> fixed_size (deref_ty t) = 0 ->
    (need env t w <= d)%nat -> (skipped_depth env t w <= 63)%nat ->
    (length (put w ++ rest) < fuel)%nat ->
    match absorb env t w prior with
    | AOk v => decode_type env fuel pool d t (put w ++ rest) prior = DOk v rest
    | AMismatch | AMissing _ => exists e, decode_type env fuel pool d t (put w ++ rest) prior = DErr e
    | ABad => True
    end.
Proof.
  intros env fuel pool HP HE w t d rest prior Hwf Hc Hok Hz Hn Hs Hl.
  exact (refines_all env fuel pool HP HE w t d rest prior Hwf Hc Hok Hz Hn Hs Hl).
Qed.

(* top level: DecodeObject *)
Theorem decode_refines : forall env pool sid fs rest dst, dec_params_ok = true -> env_ok env = true ->
  wf (WStruct fs []) = true -> lookup_sd env sid <> None ->
  (exists fs0 h0, dst = VT fs0 h0) ->
  (need env (TStruct sid) (WStruct fs []) <= S (N.to_nat maxDepthLimit))%nat ->
  (skipped_depth env (TStruct sid) (WStruct fs []) <= 63)%nat ->
  match absorb_top env sid (WStruct fs []) dst with
  | AOk v => decode_object env pool sid (put (WStruct fs []) ++ rest) dst
             = DOk (v, len (put (WStruct fs []))) rest
  | AMismatch | AMissing _ => exists e, decode_object env pool sid (put (WStruct fs []) ++ rest) dst = DErr e
  | ABad => True
  end.
Proof.
  intros env pool sid fs rest dst HP HE Hwf Hsid [fs0 [h0 Hdst]] Hn Hs. subst dst.
  destruct (lookup_sd env sid) as [sd|] eqn:Esd; [|exfalso; apply Hsid; reflexivity].
  rewrite need_eq in Hn. rewrite skipped_depth_eq in Hs. cbn [deref_ty] in Hn, Hs.
  rewrite (fixed_size_nonptr HP (TStruct sid) eq_refl) in Hn. cbn [wire_width] in Hn.
  change (0 <? 0) with false in Hn. cbv iota in Hn. rewrite Esd in Hn, Hs.
  rewrite absorb_top_eq, Esd.
  unfold decode_object, decode_object_f. rewrite Esd.
  destruct (N.to_nat maxDepthLimit) as [|d]; [lia|].
  rewrite decode_struct_S.
  set (bs := put (WStruct fs []) ++ rest).
  assert (H : agree (afinish sd h0 (ab_fields (absorb env) sd fs fs0 [] []))
                (dec_struct_body (S (length bs)) (decode_type env (S (length bs)) pool d) sd pool
                                 bs (VT fs0 h0)) rest).
  { unfold bs. apply struct_body_ok.
    - exact HP.
    - exact HE.
    - intros f Hf. exact (env_field_ok env sid sd f HE Esd Hf).
    - intros fv _. apply refines_all; assumption.
    - exact Hwf.
    - unfold fneed. lia.
    - unfold fskip. exact Hs.
    - lia. }
  destruct (afinish sd h0 (ab_fields (absorb env) sd fs fs0 [] [])) as [v| |i|]; cbn [agree] in H.
  - rewrite H. unfold bs. rewrite len_app.
    replace (len (put (WStruct fs [])) + len rest - len rest) with (len (put (WStruct fs []))) by lia.
    reflexivity.
  - destruct H as [er H]. rewrite H. exists er. reflexivity.
  - destruct H as [er H]. rewrite H. exists er. reflexivity.
  - exact I.
Qed.

End Refines.

Print Assumptions decode_type_refines.
Print Assumptions decode_refines.
