(* GenAccess.v -- side condition on the generated files, re-proved on every run against what the
   translator read from the Go sources. *)
From Frugal Require Import Checks.

Lemma access_ok_holds : access_ok = true.
Proof. vm_compute. reflexivity. Qed.

Lemma unlocked_closed_holds : closed_under entry_points all_fns edge unlocked_fns = true.
Proof. vm_compute. reflexivity. Qed.

Lemma locked_disjoint_holds : disjoint locked_fns unlocked_fns = true.
Proof. vm_compute. reflexivity. Qed.
