(* StateProofs.v -- what survives between API calls does not influence any
   outcome:
     - registration (createStructDesc with its caches, node links and the
       rollback of a failed build) computes [accepted_with] whatever was
       registered or failed before                       (create_pure);
     - the rollback is explicit: a failed traversal keeps what it cached and
       linked, and rollbackPending removes exactly the logged ids; that this
       gives back the state before the call is a theorem about the log
       (prefetch_log, rollback_restores, create_failure_restores), and with
       part of the log lost it is false          (rollback_needs_full_log);
     - the left-over content of a recycled presence bitset is invisible to
       the decoder                                       (decode_pool_irrelevant);
     - hence every call returns what it returns in a fresh process (C07
       history_independent), rejected types stay rejected and leave no trace
       (C13 rejected_stable), and the legacy controls are inert (C17
       legacy_inert). *)
From Coq Require Import List NArith Bool Lia ZifyN ZifyNat ZifyBool.
From Frugal Require Import Bytes Wire Skip Values Desc Spec Encode Decode Tags LegacyDefs State Checks.
From Frugal.gen Require Import Params Legacy.
From Frugal.proofs Require Import DecodeRefines.
Import ListNotations.
Open Scope N_scope.

(* ------------------------------------------------------------------ *)
(* small list facts                                                     *)
(* ------------------------------------------------------------------ *)

Lemma memN_In : forall k l, memN k l = true <-> In k l.
Proof.
  intros k l. unfold memN. rewrite existsb_exists. split.
  - intros [x [Hin Heq]]. apply N.eqb_eq in Heq. subst x. exact Hin.
  - intros Hin. exists k. split; [exact Hin | apply N.eqb_refl].
Qed.

Lemma memN_false : forall k l, memN k l = false <-> ~ In k l.
Proof.
  intros k l. rewrite <- memN_In. destruct (memN k l); split; intros H; congruence.
Qed.

Lemma memN_cons : forall i k l, memN i (k :: l) = (i =? k) || memN i l.
Proof. reflexivity. Qed.

Lemma existsb_false_In : forall (A : Type) (f : A -> bool) l x,
  existsb f l = false -> In x l -> f x = false.
Proof.
  intros A f l x Hex Hin. destruct (f x) eqn:E; [|reflexivity].
  assert (Ht : existsb f l = true) by (apply existsb_exists; exists x; split; assumption).
  congruence.
Qed.

Lemma NoDup_snoc : forall (A : Type) (l : list A) a, NoDup l -> ~ In a l -> NoDup (l ++ [a]).
Proof.
  intros A l a Hnd. induction Hnd as [|x l Hx Hnd IH]; intros Ha.
  - cbn. constructor; [intros []|constructor].
  - cbn [app]. constructor.
    + intros Hin. apply in_app_or in Hin. destruct Hin as [Hin|[Hin|[]]].
      * exact (Hx Hin).
      * apply Ha. left. symmetry. exact Hin.
    + apply IH. intros Hin. apply Ha. right. exact Hin.
Qed.

Lemma find_ext_in : forall (A : Type) (f g : A -> bool) l,
  (forall x, In x l -> f x = g x) -> find f l = find g l.
Proof.
  intros A f g l. induction l as [|a l IH]; intros H; [reflexivity|].
  cbn [find]. rewrite <- (H a (or_introl eq_refl)).
  destruct (f a); [reflexivity|]. apply IH. intros x Hx. apply H. right. exact Hx.
Qed.

(* ------------------------------------------------------------------ *)
(* remove_ids: what rollbackPending does to a cache / to the node links  *)
(* ------------------------------------------------------------------ *)

Lemma remove_ids_nil : forall ids, remove_ids ids [] = [].
Proof. reflexivity. Qed.

Lemma remove_ids_cons : forall ids s l,
  remove_ids ids (s :: l) = if memN s ids then remove_ids ids l else s :: remove_ids ids l.
Proof. intros ids s l. unfold remove_ids. cbn [filter]. destruct (memN s ids); reflexivity. Qed.

Lemma remove_ids_cons_in : forall ids s l, In s ids -> remove_ids ids (s :: l) = remove_ids ids l.
Proof.
  intros ids s l H. rewrite remove_ids_cons. apply memN_In in H. rewrite H. reflexivity.
Qed.

Lemma remove_ids_cons_out : forall ids s l,
  ~ In s ids -> remove_ids ids (s :: l) = s :: remove_ids ids l.
Proof.
  intros ids s l H. rewrite remove_ids_cons. apply memN_false in H. rewrite H. reflexivity.
Qed.

Lemma remove_ids_In : forall ids l x, In x (remove_ids ids l) <-> In x l /\ ~ In x ids.
Proof.
  intros ids l x. unfold remove_ids. rewrite filter_In, negb_true_iff, memN_false. tauto.
Qed.

(* removing ids that are not there changes nothing *)
Lemma remove_ids_absent : forall ids l, (forall x, In x ids -> ~ In x l) -> remove_ids ids l = l.
Proof.
  intros ids l. induction l as [|y l IH]; intros H; [reflexivity|].
  rewrite remove_ids_cons_out.
  - rewrite IH; [reflexivity|]. intros x Hx Hin. apply (H x Hx). right. exact Hin.
  - intros Hy. apply (H y Hy). left. reflexivity.
Qed.

(* a prefix made of removed ids disappears *)
Lemma remove_ids_app_in : forall ids a l, incl a ids -> remove_ids ids (a ++ l) = remove_ids ids l.
Proof.
  intros ids a l. induction a as [|y a IH]; intros H; [reflexivity|].
  cbn [app]. rewrite remove_ids_cons_in; [|apply H; left; reflexivity].
  apply IH. intros x Hx. apply H. right. exact Hx.
Qed.

(* the cache and the node links are lists used as sets, the additions are made
   at the head: removing exactly the ids that were added, none of which was
   there before, gives back the old list *)
Lemma remove_added : forall added old,
  (forall x, In x added -> ~ In x old) -> remove_ids added (added ++ old) = old.
Proof.
  intros added old H. rewrite remove_ids_app_in; [|apply incl_refl].
  apply remove_ids_absent. exact H.
Qed.

(* the delete of a single entry that the rollback would delete anyway is absorbed *)
Lemma remove_ids_absorb : forall ids s l,
  In s ids -> remove_ids ids (remove_ids [s] l) = remove_ids ids l.
Proof.
  intros ids s l Hs. induction l as [|y l IH]; [reflexivity|].
  rewrite (remove_ids_cons [s] y l). rewrite memN_cons. cbn [memN existsb]. rewrite orb_false_r.
  destruct (y =? s) eqn:E.
  - apply N.eqb_eq in E. subst y. rewrite IH. symmetry. apply remove_ids_cons_in. exact Hs.
  - rewrite !remove_ids_cons. rewrite IH. reflexivity.
Qed.

(* ------------------------------------------------------------------ *)
(* add_new                                                              *)
(* ------------------------------------------------------------------ *)

Lemma add_new_cons : forall a xs set,
  add_new (a :: xs) set = add_new xs (if memN a set then set else set ++ [a]).
Proof. reflexivity. Qed.

Lemma add_new_In : forall xs set x, In x (add_new xs set) <-> In x set \/ In x xs.
Proof.
  induction xs as [|a xs IH]; intros set x.
  - cbn. tauto.
  - rewrite add_new_cons, IH. destruct (memN a set) eqn:E.
    + apply memN_In in E. cbn [In]. split; [tauto|].
      intros [H|[H|H]]; [tauto| subst; tauto | tauto].
    + rewrite in_app_iff. cbn [In]. tauto.
Qed.

Lemma add_new_NoDup : forall xs set, NoDup set -> NoDup (add_new xs set).
Proof.
  induction xs as [|a xs IH]; intros set H; [exact H|].
  rewrite add_new_cons. apply IH. destruct (memN a set) eqn:E; [exact H|].
  apply NoDup_snoc; [exact H | apply memN_false; exact E].
Qed.

Lemma add_new_id : forall xs set, (forall x, In x xs -> In x set) -> add_new xs set = set.
Proof.
  induction xs as [|a xs IH]; intros set H; [reflexivity|].
  rewrite add_new_cons.
  assert (E : memN a set = true) by (apply memN_In; apply H; left; reflexivity).
  rewrite E. apply IH. intros x Hx. apply H. right. exact Hx.
Qed.

Lemma add_new_length_le : forall xs set, (length set <= length (add_new xs set))%nat.
Proof.
  induction xs as [|a xs IH]; intros set; [apply le_n|].
  rewrite add_new_cons. destruct (memN a set) eqn:E; [apply IH|].
  pose proof (IH (set ++ [a])) as Hle. rewrite app_length in Hle. cbn [length] in Hle. lia.
Qed.

(* a round that does not lengthen the set added nothing *)
Lemma add_new_length_eq : forall xs set,
  length (add_new xs set) = length set -> forall x, In x xs -> In x set.
Proof.
  induction xs as [|a xs IH]; intros set Hlen x Hx; [destruct Hx|].
  rewrite add_new_cons in Hlen. destruct (memN a set) eqn:E.
  - destruct Hx as [Hx|Hx]; [subst x; apply memN_In; exact E|].
    apply IH; assumption.
  - pose proof (add_new_length_le xs (set ++ [a])) as Hle.
    rewrite app_length in Hle. cbn [length] in Hle. lia.
Qed.

(* ------------------------------------------------------------------ *)
(* the universe: reachability and the specification of [closure]        *)
(* ------------------------------------------------------------------ *)

Section Universe.
  Variable gu : list gostruct.
  Local Notation ru := (resolve_universe gu).

  Lemma resolves_eq : forall s,
    resolves gu s = match nth_error ru (N.to_nat s) with Some (Some _) => true | _ => false end.
  Proof. reflexivity. Qed.

  Lemma len_ru : length ru = length gu.
  Proof. unfold resolve_universe. apply map_length. Qed.

  Lemma resolves_lt : forall s, resolves gu s = true -> (N.to_nat s < length gu)%nat.
  Proof.
    intros s H. rewrite resolves_eq in H. rewrite <- len_ru. apply nth_error_Some.
    destruct (nth_error ru (N.to_nat s)); congruence.
  Qed.

  Lemma mentions_unresolved : forall s, resolves gu s = false -> mentions ru s = [].
  Proof.
    intros s H. rewrite resolves_eq in H. unfold mentions.
    destruct (nth_error ru (N.to_nat s)) as [[l|]|]; congruence.
  Qed.

  Lemma mentions_resolves : forall s u, In u (mentions ru s) -> resolves gu s = true.
  Proof.
    intros s u H. destruct (resolves gu s) eqn:E; [reflexivity|].
    rewrite (mentions_unresolved s E) in H. destruct H.
  Qed.

  (* s' is reachable from s through struct-typed fields *)
  Inductive reach : N -> N -> Prop :=
  | reach_refl : forall s, reach s s
  | reach_step : forall s t u, In t (mentions ru s) -> reach t u -> reach s u.

  Lemma reach_snoc : forall s t u, reach s t -> In u (mentions ru t) -> reach s u.
  Proof.
    intros s t u H. induction H as [s|s t' t Hin Hr IH]; intros Hu.
    - apply reach_step with u; [exact Hu | apply reach_refl].
    - apply reach_step with t'; [exact Hin | apply IH; exact Hu].
  Qed.

  Definition closed (set : list N) : Prop :=
    forall a b, In a set -> In b (mentions ru a) -> In b set.

  Lemma closure_S : forall k set,
    closure (S k) ru set =
    if Nat.eqb (length (add_new (flat_map (mentions ru) set) set)) (length set)
    then set else closure k ru (add_new (flat_map (mentions ru) set) set).
  Proof. reflexivity. Qed.

  Lemma closure_incl : forall k set x, In x set -> In x (closure k ru set).
  Proof.
    induction k as [|k IH]; intros set x H; [exact H|].
    rewrite closure_S.
    destruct (Nat.eqb (length (add_new (flat_map (mentions ru) set) set)) (length set));
      [exact H|].
    apply IH. apply add_new_In. left. exact H.
  Qed.

  Lemma closure_sound : forall s k set,
    (forall x, In x set -> reach s x) -> forall x, In x (closure k ru set) -> reach s x.
  Proof.
    intros s. induction k as [|k IH]; intros set H x Hx; [apply H; exact Hx|].
    rewrite closure_S in Hx.
    destruct (Nat.eqb (length (add_new (flat_map (mentions ru) set) set)) (length set));
      [apply H; exact Hx|].
    revert x Hx. apply IH. intros x Hx.
    apply add_new_In in Hx. destruct Hx as [Hx|Hx]; [apply H; exact Hx|].
    apply in_flat_map in Hx. destruct Hx as [a [Ha Hxa]].
    apply reach_snoc with a; [apply H; exact Ha | exact Hxa].
  Qed.

  Lemma closed_closure : forall k set, closed set -> closure k ru set = set.
  Proof.
    induction k as [|k IH]; intros set H; [reflexivity|].
    rewrite closure_S.
    assert (E : add_new (flat_map (mentions ru) set) set = set).
    { apply add_new_id. intros x Hx. apply in_flat_map in Hx. destruct Hx as [a [Ha Hxa]].
      exact (H a x Ha Hxa). }
    rewrite E. rewrite PeanoNat.Nat.eqb_refl. reflexivity.
  Qed.

  Lemma closed_reach : forall set a b, closed set -> reach a b -> In a set -> In b set.
  Proof.
    intros set a b Hc Hr. induction Hr as [s|s t u Hin Hr IH]; intros Ha; [exact Ha|].
    apply IH. exact (Hc s t Ha Hin).
  Qed.

  (* the resolving members of a set: they are numbers below [length gu] *)
  Definition rcount (set : list N) : nat := length (filter (resolves gu) set).

  Lemma rcount_le : forall set, NoDup set -> (rcount set <= length gu)%nat.
  Proof.
    intros set H. unfold rcount.
    rewrite <- (seq_length (length gu) 0), <- (map_length N.of_nat).
    apply NoDup_incl_length; [apply NoDup_filter; exact H|].
    intros x Hx. apply filter_In in Hx. destruct Hx as [_ Hx].
    apply resolves_lt in Hx. apply in_map_iff. exists (N.to_nat x). split.
    - apply N2Nat.id.
    - apply in_seq. lia.
  Qed.

  (* a round that adds no resolving struct makes the set closed; otherwise the
     number of resolving members grows, and it is bounded by the number of structs *)
  Lemma closure_closed : forall k set,
    NoDup set -> (length gu + 1 <= k + rcount set)%nat -> closed (closure k ru set).
  Proof.
    induction k as [|k IH]; intros set Hnd Hk.
    - pose proof (rcount_le set Hnd). lia.
    - rewrite closure_S.
      set (set' := add_new (flat_map (mentions ru) set) set).
      destruct (Nat.eqb (length set') (length set)) eqn:Elen.
      { (* the early exit: nothing was added, the set is closed *)
        apply PeanoNat.Nat.eqb_eq in Elen. intros a b Ha Hb.
        apply (add_new_length_eq _ _ Elen). apply in_flat_map. exists a. split; assumption. }
      assert (Hnd' : NoDup set') by (apply add_new_NoDup; exact Hnd).
      destruct (existsb (fun x => resolves gu x && negb (memN x set)) set') eqn:E.
      + apply existsb_exists in E. destruct E as [x [Hx Hp]].
        apply andb_true_iff in Hp. destruct Hp as [Hres Hnot].
        apply negb_true_iff in Hnot. apply memN_false in Hnot.
        apply IH; [exact Hnd'|].
        assert (Hgrow : (S (rcount set) <= rcount set')%nat).
        { unfold rcount.
          change (S (length (filter (resolves gu) set)))
            with (length (x :: filter (resolves gu) set)).
          apply NoDup_incl_length.
          - constructor.
            + intros Hin. apply filter_In in Hin. exact (Hnot (proj1 Hin)).
            + apply NoDup_filter. exact Hnd.
          - intros y [Hy|Hy].
            + subst y. apply filter_In. split; assumption.
            + apply filter_In in Hy. destruct Hy as [Hy Hry]. apply filter_In.
              split; [|exact Hry]. apply add_new_In. left. exact Hy. }
        lia.
      + assert (Hc : closed set').
        { intros a b Ha Hb.
          pose proof (existsb_false_In _ _ _ a E Ha) as Hp. cbv beta in Hp.
          rewrite (mentions_resolves a b Hb) in Hp. cbn [andb] in Hp.
          apply negb_false_iff in Hp. apply memN_In in Hp.
          apply add_new_In. right. apply in_flat_map. exists a. split; assumption. }
        rewrite (closed_closure k set' Hc). exact Hc.
  Qed.

  (* the specification of accepted_with: every reachable definition resolves *)
  Theorem accepted_spec : forall s,
    accepted_with ru s = true <-> (forall u, reach s u -> resolves gu u = true).
  Proof.
    intros s. unfold accepted_with. rewrite forallb_forall. split.
    - intros H u Hr.
      assert (Hs : resolves gu s = true).
      { apply (H s). apply closure_incl. left. reflexivity. }
      apply (H u).
      apply closed_reach with (a := s); [|exact Hr|apply closure_incl; left; reflexivity].
      rewrite len_ru. apply closure_closed.
      + constructor; [intros []|constructor].
      + unfold rcount. cbn [filter]. rewrite Hs. cbn [length]. lia.
    - intros H x Hx. apply (H x).
      apply closure_sound with (length ru) [s]; [|exact Hx].
      intros y [Hy|[]]. subst y. apply reach_refl.
  Qed.

  Lemma accepted_false : forall s u,
    reach s u -> resolves gu u = false -> accepted_with ru s = false.
  Proof.
    intros s u Hr Hu. destruct (accepted_with ru s) eqn:E; [|reflexivity].
    rewrite (proj1 (accepted_spec s) E u Hr) in Hu. congruence.
  Qed.

  Lemma accepted_step : forall s t,
    accepted_with ru s = true -> In t (mentions ru s) -> accepted_with ru t = true.
  Proof.
    intros s t Hs Ht. apply accepted_spec. intros u Hu.
    apply (proj1 (accepted_spec s) Hs). apply reach_step with t; assumption.
  Qed.

End Universe.

(* ------------------------------------------------------------------ *)
(* registration                                                         *)
(* ------------------------------------------------------------------ *)

Lemma list_sum_cons : forall a l, list_sum (a :: l) = (a + list_sum l)%nat.
Proof. reflexivity. Qed.

Lemma list_sum_le : forall (f g : nat -> nat) l,
  (forall x, In x l -> (g x <= f x)%nat) ->
  (list_sum (map g l) <= list_sum (map f l))%nat.
Proof.
  intros f g l. induction l as [|a l IH]; intros H; [apply le_n|].
  cbn [map]. rewrite !list_sum_cons. pose proof (H a (or_introl eq_refl)).
  assert (list_sum (map g l) <= list_sum (map f l))%nat by (apply IH; intros x Hx; apply H; right; exact Hx).
  lia.
Qed.

Lemma list_sum_lt : forall (f g : nat -> nat) l x c,
  (forall y, In y l -> (g y <= f y)%nat) -> In x l -> (g x + c <= f x)%nat ->
  (list_sum (map g l) + c <= list_sum (map f l))%nat.
Proof.
  intros f g l x c. induction l as [|a l IH]; intros H Hx Hc; [destruct Hx|].
  cbn [map]. rewrite !list_sum_cons. destruct Hx as [Hx|Hx].
  - subst a.
    assert (list_sum (map g l) <= list_sum (map f l))%nat
      by (apply list_sum_le; intros y Hy; apply H; right; exact Hy).
    lia.
  - pose proof (H a (or_introl eq_refl)).
    assert (list_sum (map g l) + c <= list_sum (map f l))%nat
      by (apply IH; [intros y Hy; apply H; right; exact Hy | exact Hx | exact Hc]).
    lia.
Qed.

Lemma list_sum_S_length : forall (A : Type) (g : nat -> list A) l,
  list_sum (map (fun i => S (length (g i))) l) = (length l + length (flat_map g l))%nat.
Proof.
  intros A g l. induction l as [|a l IH]; [reflexivity|].
  cbn [map flat_map length]. rewrite list_sum_cons, app_length, IH. lia.
Qed.

Definition reg_ok (gu : list gostruct) (r : reg) : Prop :=
  forall s, In s (r_pub r) \/ In s (r_pre r) \/ In s (r_node r) ->
            accepted_with (resolve_universe gu) s = true.

Ltac split5 := split; [|split; [|split; [|split]]].

Section Registration.
  Variable gu : list gostruct.
  Local Notation ru := (resolve_universe gu).

  Lemma reg_ok_init : reg_ok gu reg_init.
  Proof. intros s [[]|[[]|[]]]. Qed.

  Lemma prefetch_O : forall r pend todo, prefetch gu O r pend todo = (r, pend, true).
  Proof. reflexivity. Qed.

  Lemma prefetch_nil : forall fuel r pend, prefetch gu fuel r pend [] = (r, pend, true).
  Proof. intros [|fuel] r pend; reflexivity. Qed.

  Lemma prefetch_S : forall fuel r pend s rest,
    prefetch gu (S fuel) r pend (s :: rest) =
    if memN s (r_node r) then prefetch gu fuel r pend rest
    else if memN s (r_pre r) then
      prefetch gu fuel (mkReg (r_pub r) (r_pre r) (s :: r_node r)) (fst pend, s :: snd pend) rest
    else if negb (resolves gu s) then (r, pend, false)
    else
      let '(r1, pend1, ok1) :=
        prefetch gu fuel (mkReg (r_pub r) (s :: r_pre r) (r_node r)) (s :: fst pend, snd pend)
                 (mentions ru s) in
      if ok1 then
        prefetch gu fuel (mkReg (r_pub r1) (r_pre r1) (s :: r_node r1)) (fst pend1, s :: snd pend1) rest
      else (mkReg (r_pub r1) (remove_ids [s] (r_pre r1)) (r_node r1), pend1, false).
  Proof. reflexivity. Qed.

  Lemma rollback_eq : forall r pend,
    rollback r pend =
    mkReg (r_pub r) (remove_ids (fst pend) (r_pre r)) (remove_ids (snd pend) (r_node r)).
  Proof. reflexivity. Qed.

  Lemma create_eq : forall r s,
    create gu r s =
    if memN s (r_pub r) then (r, true)
    else if memN s (r_pre r) then (mkReg (s :: r_pub r) (r_pre r) (r_node r), true)
    else if negb (resolves gu s) then (r, false)
    else
      let '(r1, pend1, ok1) :=
        prefetch gu (prefetch_fuel gu) (mkReg (r_pub r) (s :: r_pre r) (r_node r)) ([s], [])
                 (mentions ru s) in
      if ok1 then (mkReg (s :: r_pub r1) (r_pre r1) (r_node r1), true)
      else (rollback r1 pend1, false).
  Proof. reflexivity. Qed.

  (* ---- the fuel: what the structs not yet cached can still cost ---- *)
  Definition cost (pre : list N) (i : nat) : nat :=
    if memN (N.of_nat i) pre then O else S (length (mentions ru (N.of_nat i))).
  Definition budget (pre : list N) : nat := list_sum (map (cost pre) (seq 0 (length gu))).

  Lemma budget_mono : forall pre pre', incl pre pre' -> (budget pre' <= budget pre)%nat.
  Proof.
    intros pre pre' H. unfold budget. apply list_sum_le. intros i _. unfold cost.
    destruct (memN (N.of_nat i) pre) eqn:E.
    - apply memN_In in E. apply H in E. apply memN_In in E. rewrite E. apply le_n.
    - destruct (memN (N.of_nat i) pre'); lia.
  Qed.

  Lemma budget_strict : forall s pre,
    resolves gu s = true -> memN s pre = false ->
    (budget (s :: pre) + S (length (mentions ru s)) <= budget pre)%nat.
  Proof.
    intros s pre Hres Hnot. unfold budget.
    apply list_sum_lt with (x := N.to_nat s).
    - intros i _. unfold cost. rewrite memN_cons.
      destruct (N.of_nat i =? s); cbn [orb]; [lia|]. apply le_n.
    - apply in_seq. pose proof (resolves_lt gu s Hres). lia.
    - unfold cost. rewrite N2Nat.id, memN_cons, N.eqb_refl, Hnot. cbn [orb]. lia.
  Qed.

  Lemma budget_nil :
    budget [] = (length gu + length (flat_map (fun i => mentions ru (N.of_nat i)) (seq 0 (length gu))))%nat.
  Proof.
    unfold budget.
    rewrite <- (seq_length (length gu) 0) at 2.
    rewrite <- list_sum_S_length. reflexivity.
  Qed.

  (* ---- the traversal invariant ----
     W: the struct has a cached descriptor or a linked node.
     Q: such a struct is fully acceptable, or it resolves and either is still
        being built (on the stack K) or all the structs it mentions are in W. *)
  Definition W (r : reg) (t : N) : Prop := In t (r_pre r) \/ In t (r_node r).
  Definition Q (r : reg) (K : list N) (t : N) : Prop :=
    accepted_with ru t = true \/
    (resolves gu t = true /\ (In t K \/ forall u, In u (mentions ru t) -> W r u)).
  Definition P (r : reg) (K : list N) : Prop := forall t, W r t -> Q r K t.

  Lemma Q_mono : forall r r' K K' t,
    (forall u, W r u -> W r' u) -> incl K K' -> Q r K t -> Q r' K' t.
  Proof.
    intros r r' K K' t HW HK [H|[Hres [H|H]]].
    - left. exact H.
    - right. split; [exact Hres|]. left. apply HK. exact H.
    - right. split; [exact Hres|]. right. intros u Hu. apply HW. apply H. exact Hu.
  Qed.

  Definition prefetch_post (r : reg) (K todo : list N) (res : reg * (list N * list N) * bool) : Prop :=
    match res with
    | (r', _, true) =>
        P r' K /\ (forall t, W r t -> W r' t) /\ (forall t, In t todo -> W r' t) /\
        r_pub r' = r_pub r /\ incl (r_pre r) (r_pre r')
    | (_, _, false) => exists t u, In t todo /\ reach gu t u /\ resolves gu u = false
    end.

  Lemma post_here : forall r K pend, P r K -> prefetch_post r K [] (r, pend, true).
  Proof.
    intros r K pend HP. unfold prefetch_post. split5.
    - exact HP.
    - intros t Ht. exact Ht.
    - intros t [].
    - reflexivity.
    - apply incl_refl.
  Qed.

  Lemma post_fail_tail : forall r r2 K s rest r' pend',
    prefetch_post r2 K rest (r', pend', false) -> prefetch_post r K (s :: rest) (r', pend', false).
  Proof.
    intros r r2 K s rest r' pend' H. unfold prefetch_post in H |- *.
    destruct H as (t & u & Ht & Hr & Hu). exists t, u.
    split; [right; exact Ht|]. split; assumption.
  Qed.

  Lemma prefetch_spec : forall fuel r pend todo K,
    (length todo + budget (r_pre r) <= fuel)%nat -> P r K ->
    prefetch_post r K todo (prefetch gu fuel r pend todo).
  Proof.
    induction fuel as [|fuel IH]; intros r pend todo K Hfuel HP.
    - destruct todo as [|s rest]; [|cbn [length] in Hfuel; lia].
      rewrite prefetch_O. apply post_here. exact HP.
    - destruct todo as [|s rest].
      { rewrite prefetch_nil. apply post_here. exact HP. }
      cbn [length] in Hfuel. rewrite prefetch_S.
      destruct (memN s (r_node r)) eqn:Enode.
      { (* linked node: trusted *)
        apply memN_In in Enode.
        specialize (IH r pend rest K ltac:(lia) HP).
        destruct (prefetch gu fuel r pend rest) as [[r' pend'] [|]].
        - unfold prefetch_post in IH |- *.
          destruct IH as (HP' & HW & Hrest & Hpub & Hpre).
          split5; try assumption.
          intros t [Ht|Ht]; [subst t; apply HW; right; exact Enode | apply Hrest; exact Ht].
        - apply post_fail_tail with r. exact IH. }
      destruct (memN s (r_pre r)) eqn:Epre.
      { (* cache hit *)
        apply memN_In in Epre.
        set (r2 := mkReg (r_pub r) (r_pre r) (s :: r_node r)).
        assert (HW2 : forall t, W r t -> W r2 t).
        { intros t [Ht|Ht]; [left; exact Ht | right; right; exact Ht]. }
        assert (HW2' : forall t, W r2 t -> W r t).
        { intros t [Ht|[Ht|Ht]]; [left; exact Ht | subst t; left; exact Epre | right; exact Ht]. }
        assert (HP2 : P r2 K).
        { intros t Ht. apply Q_mono with r K; [exact HW2 | apply incl_refl | apply HP, HW2', Ht]. }
        specialize (IH r2 (fst pend, s :: snd pend) rest K ltac:(cbn [r2 r_pre]; lia) HP2).
        destruct (prefetch gu fuel r2 (fst pend, s :: snd pend) rest) as [[r' pend'] [|]].
        - unfold prefetch_post in IH |- *.
          destruct IH as (HP' & HW & Hrest & Hpub & Hpre).
          split5; try assumption.
          + intros t Ht. apply HW, HW2, Ht.
          + intros t [Ht|Ht]; [subst t; apply HW; left; exact Epre | apply Hrest; exact Ht].
        - apply post_fail_tail with r2. exact IH. }
      destruct (resolves gu s) eqn:Eres; cbn [negb].
      2:{ unfold prefetch_post. exists s, s.
          split; [left; reflexivity|]. split; [apply reach_refl | exact Eres]. }
      (* new descriptor *)
      set (r2 := mkReg (r_pub r) (s :: r_pre r) (r_node r)).
      pose proof (budget_strict s (r_pre r) Eres Epre) as Hb.
      assert (HW2 : forall t, W r t -> W r2 t).
      { intros t [Ht|Ht]; [left; right; exact Ht | right; exact Ht]. }
      assert (HP2 : P r2 (s :: K)).
      { intros t [[Ht|Ht]|Ht].
        - subst t. right. split; [exact Eres|]. left. left. reflexivity.
        - apply Q_mono with r K; [exact HW2 | apply incl_tl, incl_refl | apply HP; left; exact Ht].
        - apply Q_mono with r K; [exact HW2 | apply incl_tl, incl_refl | apply HP; right; exact Ht]. }
      pose proof (IH r2 (s :: fst pend, snd pend) (mentions ru s) (s :: K)
                    ltac:(cbn [r2 r_pre]; lia) HP2) as IH1.
      destruct (prefetch gu fuel r2 (s :: fst pend, snd pend) (mentions ru s)) as [[r1 pend1] [|]];
        unfold prefetch_post in IH1.
      2:{ (* the sub-build failed: the error goes up, whatever state is left *)
          destruct IH1 as (t & u & Ht & Hr & Hu). unfold prefetch_post. exists s, u.
          split; [left; reflexivity|]. split; [apply reach_step with t; assumption | exact Hu]. }
      destruct IH1 as (HP1 & HW1 & Hm1 & Hpub1 & Hpre1).
      set (r3 := mkReg (r_pub r1) (r_pre r1) (s :: r_node r1)).
      assert (Hs1 : W r1 s) by (apply HW1; left; left; reflexivity).
      assert (HW3 : forall t, W r1 t -> W r3 t).
      { intros t [Ht|Ht]; [left; exact Ht | right; right; exact Ht]. }
      assert (HW3' : forall t, W r3 t -> W r1 t).
      { intros t [Ht|[Ht|Ht]]; [left; exact Ht | subst t; exact Hs1 | right; exact Ht]. }
      assert (HP3 : P r3 K).
      { intros t Ht. apply HW3' in Ht. destruct (HP1 t Ht) as [H|[Hres [[H|H]|H]]].
        - left. exact H.
        - subst t. right. split; [exact Hres|]. right. intros u Hu. apply HW3, Hm1, Hu.
        - right. split; [exact Hres|]. left. exact H.
        - right. split; [exact Hres|]. right. intros u Hu. apply HW3, H, Hu. }
      assert (Hb1 : (budget (r_pre r1) <= budget (s :: r_pre r))%nat).
      { apply budget_mono. exact Hpre1. }
      specialize (IH r3 (fst pend1, s :: snd pend1) rest K ltac:(cbn [r3 r_pre]; lia) HP3).
      destruct (prefetch gu fuel r3 (fst pend1, s :: snd pend1) rest) as [[r' pend'] [|]].
      + unfold prefetch_post in IH |- *.
        destruct IH as (HP' & HW & Hrest & Hpub & Hpre).
        split5; try assumption.
        * intros t Ht. apply HW, HW3, HW1, HW2, Ht.
        * intros t [Ht|Ht]; [subst t; apply HW, HW3, Hs1 | apply Hrest; exact Ht].
        * rewrite Hpub. cbn [r3 r_pub]. rewrite Hpub1. reflexivity.
        * intros t Ht. apply Hpre. cbn [r3 r_pre]. apply Hpre1. right. exact Ht.
      + apply post_fail_tail with r3. exact IH.
  Qed.

  (* ---- the pending log ----
     Whatever the outcome, the traversal from (r, pend) to (r', pend') has
     pushed a list [a] of struct ids on the type log and a list [b] on the node
     log such that
       - none of them was cached (resp. linked) in r: an id is only ever added
         to a cache it is not in;
       - deleting from the cache (resp. unlinking) any set of ids that contains
         a (resp. b) makes r' indistinguishable from r: everything added is
         logged.  On failure r' may already miss some of the logged entries
         (the deletes on the way up), which is why this is stated with
         [remove_ids] on both sides;
       - on success the caches are exactly the logged ids pushed on the old ones;
     and the published descriptors are not touched. *)
  Definition log_inv (r : reg) (pend : list N * list N)
                     (r' : reg) (pend' : list N * list N) (ok : bool) : Prop :=
    exists a b,
      fst pend' = a ++ fst pend /\ snd pend' = b ++ snd pend /\ r_pub r' = r_pub r /\
      (forall x, In x a -> ~ In x (r_pre r)) /\ (forall x, In x b -> ~ In x (r_node r)) /\
      (forall ids, incl a ids -> remove_ids ids (r_pre r') = remove_ids ids (r_pre r)) /\
      (forall ids, incl b ids -> remove_ids ids (r_node r') = remove_ids ids (r_node r)) /\
      (ok = true -> r_pre r' = a ++ r_pre r /\ r_node r' = b ++ r_node r).

  Lemma log_inv_refl : forall r pend ok, log_inv r pend r pend ok.
  Proof.
    intros r pend ok. exists [], []. cbn [app].
    repeat split; try reflexivity; intros x Hx; destruct Hx.
  Qed.

  Lemma incl_app_l : forall (a b ids : list N), incl (a ++ b) ids -> incl a ids.
  Proof. intros a b ids H x Hx. apply H. apply in_or_app. left. exact Hx. Qed.

  Lemma incl_app_r : forall (a b ids : list N), incl (a ++ b) ids -> incl b ids.
  Proof. intros a b ids H x Hx. apply H. apply in_or_app. right. exact Hx. Qed.

  (* cache hit: one node linked, then the rest *)
  Lemma log_inv_link : forall r pend s r' pend' ok,
    ~ In s (r_node r) ->
    log_inv (mkReg (r_pub r) (r_pre r) (s :: r_node r)) (fst pend, s :: snd pend) r' pend' ok ->
    log_inv r pend r' pend' ok.
  Proof.
    intros r pend s r' pend' ok Hs (a & b & Hf & Hsn & Hpub & Ha & Hb & Hra & Hrb & Hok).
    cbn [r_pub r_pre r_node fst snd] in *.
    exists a, (b ++ [s]). rewrite <- app_assoc. cbn [app].
    split; [exact Hf|]. split; [exact Hsn|]. split; [exact Hpub|]. split; [exact Ha|].
    split; [|split; [exact Hra|split]].
    - intros x Hx. apply in_app_or in Hx. destruct Hx as [Hx|[Hx|[]]].
      + intros Hin. apply (Hb x Hx). right. exact Hin.
      + subst x. exact Hs.
    - intros ids Hids. rewrite (Hrb ids (incl_app_l _ _ _ Hids)).
      apply remove_ids_cons_in. apply Hids. apply in_or_app. right. left. reflexivity.
    - intros Hk. destruct (Hok Hk) as [H1 H2]. split; [exact H1|].
      rewrite <- app_assoc. exact H2.
  Qed.

  (* new descriptor whose sub-build succeeded: cached, descended, linked, then the rest *)
  Lemma log_inv_build : forall r pend s r1 pend1 r' pend' ok,
    ~ In s (r_pre r) -> ~ In s (r_node r) ->
    log_inv (mkReg (r_pub r) (s :: r_pre r) (r_node r)) (s :: fst pend, snd pend) r1 pend1 true ->
    log_inv (mkReg (r_pub r1) (r_pre r1) (s :: r_node r1)) (fst pend1, s :: snd pend1) r' pend' ok ->
    log_inv r pend r' pend' ok.
  Proof.
    intros r pend s r1 pend1 r' pend' ok Hsp Hsn
      (a1 & b1 & Hf1 & Hs1 & Hpub1 & Ha1 & Hb1 & Hra1 & Hrb1 & Hok1)
      (a2 & b2 & Hf2 & Hs2 & Hpub2 & Ha2 & Hb2 & Hra2 & Hrb2 & Hok2).
    cbn [r_pub r_pre r_node fst snd] in *.
    destruct (Hok1 eq_refl) as [Hpre1 Hnode1].
    exists (a2 ++ a1 ++ [s]), (b2 ++ [s] ++ b1).
    split; [rewrite Hf2, Hf1, <- !app_assoc; reflexivity|].
    split; [rewrite Hs2, Hs1, <- !app_assoc; reflexivity|].
    split; [rewrite Hpub2; exact Hpub1|].
    split; [|split; [|split; [|split]]].
    - intros x Hx Hin. apply in_app_or in Hx. destruct Hx as [Hx|Hx].
      + apply (Ha2 x Hx). rewrite Hpre1. apply in_or_app. right. right. exact Hin.
      + apply in_app_or in Hx. destruct Hx as [Hx|[Hx|[]]].
        * apply (Ha1 x Hx). right. exact Hin.
        * subst x. exact (Hsp Hin).
    - intros x Hx Hin. apply in_app_or in Hx. destruct Hx as [Hx|Hx].
      + apply (Hb2 x Hx). right. rewrite Hnode1. apply in_or_app. right. exact Hin.
      + destruct Hx as [Hx|Hx].
        * subst x. exact (Hsn Hin).
        * exact (Hb1 x Hx Hin).
    - intros ids Hids.
      rewrite (Hra2 ids (incl_app_l _ _ _ Hids)).
      rewrite (Hra1 ids (incl_app_l _ _ _ (incl_app_r _ _ _ Hids))).
      apply remove_ids_cons_in. apply Hids. apply in_or_app. right. apply in_or_app. right.
      left. reflexivity.
    - intros ids Hids.
      rewrite (Hrb2 ids (incl_app_l _ _ _ Hids)).
      rewrite remove_ids_cons_in; [|apply Hids; apply in_or_app; right; left; reflexivity].
      apply Hrb1. intros x Hx. apply Hids. apply in_or_app. right. right. exact Hx.
    - intros Hk. destruct (Hok2 Hk) as [H1 H2]. rewrite H1, H2, Hpre1, Hnode1.
      rewrite <- !app_assoc. cbn [app]. split; reflexivity.
  Qed.

  (* new descriptor whose sub-build failed: its own cache entry is deleted, the
     log keeps it, everything made deeper down stays *)
  Lemma log_inv_fail : forall r pend s r1 pend1,
    ~ In s (r_pre r) ->
    log_inv (mkReg (r_pub r) (s :: r_pre r) (r_node r)) (s :: fst pend, snd pend) r1 pend1 false ->
    log_inv r pend (mkReg (r_pub r1) (remove_ids [s] (r_pre r1)) (r_node r1)) pend1 false.
  Proof.
    intros r pend s r1 pend1 Hsp (a1 & b1 & Hf1 & Hs1 & Hpub1 & Ha1 & Hb1 & Hra1 & Hrb1 & _).
    cbn [r_pub r_pre r_node fst snd] in *.
    exists (a1 ++ [s]), b1. rewrite <- app_assoc. cbn [app].
    split; [exact Hf1|]. split; [exact Hs1|]. split; [exact Hpub1|].
    split; [|split; [exact Hb1|split; [|split; [exact Hrb1|discriminate]]]].
    - intros x Hx Hin. apply in_app_or in Hx. destruct Hx as [Hx|[Hx|[]]].
      + apply (Ha1 x Hx). right. exact Hin.
      + subst x. exact (Hsp Hin).
    - intros ids Hids. cbn [r_pre].
      assert (Hs : In s ids) by (apply Hids; apply in_or_app; right; left; reflexivity).
      rewrite (remove_ids_absorb ids s (r_pre r1) Hs).
      rewrite (Hra1 ids (incl_app_l _ _ _ Hids)).
      apply remove_ids_cons_in. exact Hs.
  Qed.

  Lemma prefetch_log : forall fuel r pend todo r' pend' ok,
    prefetch gu fuel r pend todo = (r', pend', ok) -> log_inv r pend r' pend' ok.
  Proof.
    induction fuel as [|fuel IH]; intros r pend todo r' pend' ok H.
    - rewrite prefetch_O in H. injection H as <- <- <-. apply log_inv_refl.
    - destruct todo as [|s rest].
      { rewrite prefetch_nil in H. injection H as <- <- <-. apply log_inv_refl. }
      rewrite prefetch_S in H.
      destruct (memN s (r_node r)) eqn:Enode; [exact (IH _ _ _ _ _ _ H)|].
      apply memN_false in Enode.
      destruct (memN s (r_pre r)) eqn:Epre.
      { apply log_inv_link with s; [exact Enode|]. exact (IH _ _ _ _ _ _ H). }
      apply memN_false in Epre.
      destruct (negb (resolves gu s)).
      { injection H as <- <- <-. apply log_inv_refl. }
      destruct (prefetch gu fuel (mkReg (r_pub r) (s :: r_pre r) (r_node r)) (s :: fst pend, snd pend)
                  (mentions ru s)) as [[r1 pend1] [|]] eqn:E1.
      + apply log_inv_build with s r1 pend1; [exact Epre | exact Enode | |].
        * exact (IH _ _ _ _ _ _ E1).
        * exact (IH _ _ _ _ _ _ H).
      + injection H as <- <- <-. apply log_inv_fail; [exact Epre|].
        exact (IH _ _ _ _ _ _ E1).
  Qed.

  (* rollbackPending after the traversal started by createStructDesc restores
     the state before the call -- whatever the fuel, the work list and the
     outcome: this is the rollback doing its job, not the model discarding a
     partial state *)
  Theorem rollback_restores : forall fuel r s todo r1 pend1 ok1,
    ~ In s (r_pre r) ->
    prefetch gu fuel (mkReg (r_pub r) (s :: r_pre r) (r_node r)) ([s], []) todo = (r1, pend1, ok1) ->
    rollback r1 pend1 = r.
  Proof.
    intros fuel r s todo r1 pend1 ok1 Hs H. apply prefetch_log in H.
    destruct H as (a & b & Hf & Hsn & Hpub & Ha & Hb & Hra & Hrb & _).
    cbn [r_pub r_pre r_node fst snd] in *.
    rewrite rollback_eq, Hpub, Hf, Hsn.
    rewrite (Hra (a ++ [s]) (incl_appl [s] (incl_refl a))).
    rewrite (Hrb (b ++ []) (incl_appl [] (incl_refl b))).
    rewrite remove_ids_cons_in; [|apply in_or_app; right; left; reflexivity].
    rewrite remove_ids_absent.
    2:{ intros x Hx Hin. apply in_app_or in Hx. destruct Hx as [Hx|[Hx|[]]].
        - apply (Ha x Hx). right. exact Hin.
        - subst x. exact (Hs Hin). }
    rewrite remove_ids_absent.
    2:{ intros x Hx. rewrite app_nil_r in Hx. exact (Hb x Hx). }
    destruct r; reflexivity.
  Qed.

  (* a failed createStructDesc leaves the registration state as it found it:
     no hypothesis on the state *)
  Theorem create_failure_restores : forall r s,
    snd (create gu r s) = false -> fst (create gu r s) = r.
  Proof.
    intros r s. rewrite create_eq.
    destruct (memN s (r_pub r)); [discriminate|].
    destruct (memN s (r_pre r)) eqn:Epre; [discriminate|].
    destruct (negb (resolves gu s)); [reflexivity|].
    destruct (prefetch gu (prefetch_fuel gu) (mkReg (r_pub r) (s :: r_pre r) (r_node r)) ([s], [])
                (mentions ru s)) as [[r1 pend1] [|]] eqn:E; [discriminate|].
    intros _. cbn [fst]. apply memN_false in Epre.
    exact (rollback_restores _ _ _ _ _ _ _ Epre E).
  Qed.

  Lemma prefetch_fuel_enough : forall s pre,
    resolves gu s = true -> memN s pre = false ->
    (length (mentions ru s) + budget (s :: pre) <= prefetch_fuel gu)%nat.
  Proof.
    intros s pre Hres Hnot.
    pose proof (budget_strict s pre Hres Hnot) as Hb.
    pose proof (budget_mono [] pre (incl_nil_l pre)) as Hm.
    rewrite budget_nil in Hm. unfold prefetch_fuel. lia.
  Qed.

  (* when the build of s has succeeded, everything cached or linked is closed
     under mentions up to fully acceptable structs, hence fully acceptable *)
  Lemma closed_upto_accepted : forall r,
    (forall t, W r t ->
       accepted_with ru t = true \/
       (resolves gu t = true /\ forall u, In u (mentions ru t) -> W r u)) ->
    forall t, W r t -> accepted_with ru t = true.
  Proof.
    intros r H t Ht. apply accepted_spec. intros u Hr. revert Ht.
    induction Hr as [s|s t' u Hin Hr IH]; intros Ht.
    - destruct (H s Ht) as [Ha|[Hres _]]; [|exact Hres].
      apply (proj1 (accepted_spec gu s) Ha). apply reach_refl.
    - destruct (H s Ht) as [Ha|[_ Hm]].
      + apply (proj1 (accepted_spec gu s) Ha). apply reach_step with t'; assumption.
      + apply IH. apply Hm. exact Hin.
  Qed.

  Theorem create_pure : forall r s,
    reg_ok gu r ->
    let '(r', ok) := create gu r s in
    ok = accepted_with ru s /\ reg_ok gu r' /\ (ok = false -> r' = r).
  Proof.
    intros r s Hok. rewrite create_eq.
    destruct (memN s (r_pub r)) eqn:Epub.
    { apply memN_In in Epub. split; [|split; [exact Hok | reflexivity]].
      symmetry. apply Hok. left. exact Epub. }
    destruct (memN s (r_pre r)) eqn:Epre.
    { apply memN_In in Epre.
      assert (Hs : accepted_with ru s = true) by (apply Hok; right; left; exact Epre).
      split; [symmetry; exact Hs|]. split; [|discriminate].
      intros t [[Ht|Ht]|Ht]; [subst t; exact Hs | apply Hok; left; exact Ht | apply Hok; right; exact Ht]. }
    destruct (resolves gu s) eqn:Eres; cbn [negb].
    2:{ split; [|split; [exact Hok | reflexivity]].
        symmetry. apply accepted_false with s; [apply reach_refl | exact Eres]. }
    set (r0 := mkReg (r_pub r) (s :: r_pre r) (r_node r)).
    assert (HP0 : P r0 [s]).
    { intros t [[Ht|Ht]|Ht].
      - subst t. right. split; [exact Eres|]. left. left. reflexivity.
      - left. apply Hok. right. left. exact Ht.
      - left. apply Hok. right. right. exact Ht. }
    pose proof (prefetch_spec (prefetch_fuel gu) r0 ([s], []) (mentions ru s) [s]
                  (prefetch_fuel_enough s (r_pre r) Eres Epre) HP0) as Hspec.
    destruct (prefetch gu (prefetch_fuel gu) r0 ([s], []) (mentions ru s)) as [[r1 pend1] [|]] eqn:E;
      unfold prefetch_post in Hspec.
    - destruct Hspec as (HP1 & HW1 & Hm1 & Hpub1 & Hpre1).
      assert (Hall : forall t, W r1 t -> accepted_with ru t = true).
      { apply closed_upto_accepted. intros t Ht.
        destruct (HP1 t Ht) as [H|[Hres [[H|[]]|H]]].
        - left. exact H.
        - subst t. right. split; [exact Hres|]. exact Hm1.
        - right. split; [exact Hres|]. exact H. }
      assert (Hs : accepted_with ru s = true).
      { apply Hall. apply HW1. left. left. reflexivity. }
      split; [symmetry; exact Hs|]. split; [|discriminate].
      intros t [[Ht|Ht]|[Ht|Ht]].
      + subst t. exact Hs.
      + rewrite Hpub1 in Ht. apply Hok. left. exact Ht.
      + apply Hall. left. exact Ht.
      + apply Hall. right. exact Ht.
    - (* the build failed: the rollback, from the log, gives back r *)
      assert (Hrb : rollback r1 pend1 = r).
      { apply memN_false in Epre. exact (rollback_restores _ _ _ _ _ _ _ Epre E). }
      destruct Hspec as (t & u & Ht & Hr & Hu). rewrite Hrb.
      split; [|split; [exact Hok | reflexivity]].
      symmetry. apply accepted_false with u; [|exact Hu].
      apply reach_step with t; assumption.
  Qed.

End Registration.

(* ------------------------------------------------------------------ *)
(* the decoder does not see the garbage in a recycled presence bitset   *)
(* ------------------------------------------------------------------ *)

Section DecoderExt.
  Variable env : senv.
  Variables dt1 dt2 : ty -> list N -> val -> dres val.
  Hypothesis Hdt : forall t bs prior, dt1 t bs prior = dt2 t bs prior.

  Lemma dec_elem_ext : forall t bs, dec_elem env dt1 t bs = dec_elem env dt2 t bs.
  Proof. intros t bs. unfold dec_elem. destruct (0 <? fixed_size t); [reflexivity | apply Hdt]. Qed.

  Lemma dec_list_elems_ext : forall n e bs,
    dec_list_elems env dt1 n e bs = dec_list_elems env dt2 n e bs.
  Proof.
    induction n as [|n IH]; intros e bs; [reflexivity|].
    cbn [dec_list_elems]. rewrite dec_elem_ext.
    destruct (dec_elem env dt2 e bs); try reflexivity. rewrite IH. reflexivity.
  Qed.

  Lemma dec_list_ext : forall e bs, dec_list env dt1 e bs = dec_list env dt2 e bs.
  Proof.
    intros e bs. unfold dec_list.
    destruct (short bs listHeaderLen); [reflexivity|].
    destruct bs as [|tp r]; [reflexivity|].
    destruct (take 4 r) as [[h r1]|]; [|reflexivity].
    rewrite dec_list_elems_ext. reflexivity.
  Qed.

  Lemma dec_kv_ext : forall t bs, dec_kv env dt1 t bs = dec_kv env dt2 t bs.
  Proof. intros t bs. unfold dec_kv. destruct (0 <? fixed_size t); [reflexivity | apply Hdt]. Qed.

  Lemma dec_map_entries_ext : forall n kt vt bs acc,
    dec_map_entries env dt1 n kt vt bs acc = dec_map_entries env dt2 n kt vt bs acc.
  Proof.
    induction n as [|n IH]; intros kt vt bs acc; [reflexivity|].
    cbn [dec_map_entries]. rewrite dec_kv_ext.
    destruct (dec_kv env dt2 kt bs) as [k r| | |]; try reflexivity.
    rewrite dec_kv_ext.
    destruct (dec_kv env dt2 vt r) as [v r2| | |]; try reflexivity.
    apply IH.
  Qed.

  Lemma dec_map_ext : forall kt vt bs, dec_map env dt1 kt vt bs = dec_map env dt2 kt vt bs.
  Proof.
    intros kt vt bs. unfold dec_map.
    destruct (short bs mapHeaderLen); [reflexivity|].
    destruct bs as [|t0 [|t1 r]]; try reflexivity.
    destruct (take 4 r) as [[h r1]|]; [|reflexivity].
    rewrite dec_map_entries_ext. reflexivity.
  Qed.

  Lemma field_res_ext : forall f prior bs, field_res dt1 f prior bs = field_res dt2 f prior bs.
  Proof.
    intros f prior bs. unfold field_res.
    destruct (0 <? fixed_size (fty f)); [reflexivity|].
    destruct (fnocopy f); [reflexivity | apply Hdt].
  Qed.

  (* two presence sets that agree on the required ids *)
  Definition agree (req s1 s2 : list N) : Prop := forall i, In i req -> memN i s1 = memN i s2.

  Definition frel (req : list N) (a b : dres (list val * list N * list N)) : Prop :=
    match a, b with
    | DOk (c1, s1, u1) r1, DOk (c2, s2, u2) r2 => c1 = c2 /\ u1 = u2 /\ r1 = r2 /\ agree req s1 s2
    | DErr e1, DErr e2 => e1 = e2
    | DPanic, DPanic => True
    | DFuel, DFuel => True
    | _, _ => False
    end.

  Lemma dec_fields_agree : forall req fl sd bs cur s1 s2 unk,
    agree req s1 s2 ->
    frel req (dec_fields dt1 fl sd bs cur s1 unk) (dec_fields dt2 fl sd bs cur s2 unk).
  Proof.
    intros req. induction fl as [|fl IH]; intros sd bs cur s1 s2 unk Hag.
    - rewrite !dec_fields_O. exact I.
    - rewrite !dec_fields_S.
      destruct bs as [|tp r]; [reflexivity|].
      destruct (tp =? tSTOP).
      { cbn [frel]. repeat (split; [reflexivity|]). exact Hag. }
      destruct (short r 2); [reflexivity|].
      destruct (take 2 r) as [[idb r1]|]; [|exact I].
      destruct (match get_field sd (be_get idb) with
                | Some (i, f) => if wt (fty f) =? tp then Some (i, f) else None
                | None => None
                end) as [[i f]|].
      + rewrite field_res_ext.
        destruct (field_res dt2 f (nth i cur (VS 0)) r1) as [v r2|e| |]; try reflexivity; try exact I.
        apply IH. intros j Hj. rewrite !memN_cons, (Hag j Hj). reflexivity.
      + destruct (gk_skip r1 tp) as [n|e| |]; try reflexivity; try exact I.
        destruct (take n r1) as [[sk r2]|]; [|reflexivity].
        apply IH. exact Hag.
  Qed.

  Lemma dfinish_agree : forall sd h0 a b,
    frel (required_ids sd) a b -> dfinish sd h0 a = dfinish sd h0 b.
  Proof.
    intros sd h0 a b H. unfold dfinish.
    destruct a as [[[c1 s1] u1] r1|e1| |], b as [[[c2 s2] u2] r2|e2| |]; cbn [frel] in H;
      try contradiction; try reflexivity.
    - destruct H as (Hc & Hu & Hr & Hag). subst c2 u2 r2.
      rewrite (find_ext_in _ (fun i => negb (memN i s1)) (fun i => negb (memN i s2)) (required_ids sd)).
      + reflexivity.
      + intros x Hx. rewrite (Hag x Hx). reflexivity.
    - subst e2. reflexivity.
  Qed.

  Lemma dec_struct_body_ext : forall fl sd pool1 pool2 bs prior,
    dec_struct_body fl dt1 sd pool1 bs prior = dec_struct_body fl dt2 sd pool2 bs prior.
  Proof.
    intros fl sd pool1 pool2 bs prior. destruct prior; try reflexivity.
    rewrite !dec_struct_body_VT. apply dfinish_agree. apply dec_fields_agree.
    intros i Hi.
    assert (Hf : forall pool, memN i (filter (fun j => negb (memN j (required_ids sd))) pool) = false).
    { intros pool. apply memN_false. intros Hin. apply filter_In in Hin. destruct Hin as [_ Hin].
      apply memN_In in Hi. rewrite Hi in Hin. discriminate. }
    rewrite !Hf. reflexivity.
  Qed.
End DecoderExt.

Lemma decode_pool_irrelevant_depth : forall env fl pool1 pool2 d,
  (forall sd bs prior, decode_struct env fl pool1 d sd bs prior = decode_struct env fl pool2 d sd bs prior) /\
  (forall t bs prior, decode_type env fl pool1 d t bs prior = decode_type env fl pool2 d t bs prior).
Proof.
  intros env fl pool1 pool2. induction d as [|d [IHs IHt]].
  - split; intros; reflexivity.
  - split.
    + intros sd bs prior. rewrite !decode_struct_S. apply dec_struct_body_ext. exact IHt.
    + intros t bs prior. rewrite !decode_type_S. f_equal.
      destruct (0 <? fixed_size (deref_ty t)); [reflexivity|].
      destruct (deref_ty t) as [| | | | | | | | |isset e|kt vt|sid|t']; try reflexivity.
      * apply dec_list_ext. exact IHt.
      * apply dec_map_ext. exact IHt.
      * destruct (lookup_sd env sid) as [sd|]; [apply IHs | reflexivity].
Qed.

Theorem decode_pool_irrelevant : forall env pool1 pool2 sid bs dst,
  decode_object env pool1 sid bs dst = decode_object env pool2 sid bs dst.
Proof.
  intros env pool1 pool2 sid bs dst. unfold decode_object, decode_object_f.
  destruct (lookup_sd env sid) as [sd|]; [|reflexivity].
  rewrite (proj1 (decode_pool_irrelevant_depth env (S (length bs)) pool1 pool2 (N.to_nat maxDepthLimit))).
  reflexivity.
Qed.

(* ------------------------------------------------------------------ *)
(* histories                                                            *)
(* ------------------------------------------------------------------ *)

Section Histories.
  Variable gu : list gostruct.
  Local Notation ru := (resolve_universe gu).
  Local Notation env := (build_env gu).

  Lemma api_step_size : forall st sid v junk,
    api_step gu st (CSize sid v) junk =
    (mkP (fst (create gu (p_reg st) sid)) junk,
     if snd (create gu (p_reg st) sid) then OSize (encoded_size env sid v) else OSizePanic).
  Proof. intros. cbn [api_step]. destruct (create gu (p_reg st) sid). reflexivity. Qed.

  Lemma api_step_encode : forall st sid v arr blen junk,
    api_step gu st (CEncode sid v arr blen) junk =
    (mkP (fst (create gu (p_reg st) sid)) junk,
     if snd (create gu (p_reg st) sid) then OEncode (encode_object env sid arr blen v) else ORejected).
  Proof. intros. cbn [api_step]. destruct (create gu (p_reg st) sid). reflexivity. Qed.

  Lemma api_step_decode : forall st sid bs dst junk,
    api_step gu st (CDecode sid bs dst) junk =
    (mkP (fst (create gu (p_reg st) sid)) junk,
     if snd (create gu (p_reg st) sid)
     then ODecode (decode_object env (p_pool st) sid bs dst) else ORejected).
  Proof. intros. cbn [api_step]. destruct (create gu (p_reg st) sid). reflexivity. Qed.

  Lemma api_step_legacy : forall st f a junk,
    api_step gu st (CLegacy f a) junk = (st, OLegacy (legacy_ret f a)).
  Proof. reflexivity. Qed.

  Lemma api_step_pretouch : forall st sid junk,
    api_step gu st (CPretouch sid) junk = (st, OLegacy 0).
  Proof. reflexivity. Qed.

  (* create_pure in projection form *)
  Lemma create_ok : forall r s, reg_ok gu r -> snd (create gu r s) = accepted_with ru s.
  Proof.
    intros r s H. pose proof (create_pure gu r s H) as Hc.
    destruct (create gu r s) as [r' ok]. exact (proj1 Hc).
  Qed.

  Lemma create_reg_ok : forall r s, reg_ok gu r -> reg_ok gu (fst (create gu r s)).
  Proof.
    intros r s H. pose proof (create_pure gu r s H) as Hc.
    destruct (create gu r s) as [r' ok]. exact (proj1 (proj2 Hc)).
  Qed.

  Lemma create_rollback : forall r s,
    reg_ok gu r -> accepted_with ru s = false -> fst (create gu r s) = r.
  Proof.
    intros r s H Hs. pose proof (create_pure gu r s H) as Hc.
    destruct (create gu r s) as [r' ok]. destruct Hc as (Hok & _ & Hr).
    apply Hr. rewrite Hok. exact Hs.
  Qed.

  Lemma step_reg_ok : forall st c junk,
    reg_ok gu (p_reg st) -> reg_ok gu (p_reg (fst (api_step gu st c junk))).
  Proof.
    intros st c junk H. destruct c as [sid v|sid v arr blen|sid bs dst|f a|sid].
    - rewrite api_step_size. cbn [fst p_reg]. apply create_reg_ok. exact H.
    - rewrite api_step_encode. cbn [fst p_reg]. apply create_reg_ok. exact H.
    - rewrite api_step_decode. cbn [fst p_reg]. apply create_reg_ok. exact H.
    - rewrite api_step_legacy. exact H.
    - rewrite api_step_pretouch. exact H.
  Qed.

  Lemma run_history_cons : forall st c junk h,
    run_history gu st ((c, junk) :: h) = run_history gu (fst (api_step gu st c junk)) h.
  Proof. reflexivity. Qed.

  Lemma history_reg_ok : forall h st,
    reg_ok gu (p_reg st) -> reg_ok gu (p_reg (run_history gu st h)).
  Proof.
    induction h as [|[c junk] h IH]; intros st H; [exact H|].
    rewrite run_history_cons. apply IH. apply step_reg_ok. exact H.
  Qed.

  (* one step from any state whose caches are sound: the fresh outcome *)
  Lemma step_outcome : forall st c junk,
    reg_ok gu (p_reg st) -> snd (api_step gu st c junk) = fresh_outcome gu c.
  Proof.
    intros st c junk H. unfold fresh_outcome.
    pose proof (reg_ok_init gu) as H0.
    destruct c as [sid v|sid v arr blen|sid bs dst|f a|sid].
    - rewrite !api_step_size. cbn [snd p_init p_reg].
      rewrite (create_ok _ sid H), (create_ok _ sid H0). reflexivity.
    - rewrite !api_step_encode. cbn [snd p_init p_reg].
      rewrite (create_ok _ sid H), (create_ok _ sid H0). reflexivity.
    - rewrite !api_step_decode. cbn [snd p_init p_reg p_pool].
      rewrite (create_ok _ sid H), (create_ok _ sid H0).
      rewrite (decode_pool_irrelevant env (p_pool st) [] sid bs dst). reflexivity.
    - reflexivity.
    - reflexivity.
  Qed.

  (* C07 *)
  Theorem history_independent : forall h c junk,
    snd (api_step gu (run_history gu p_init h) c junk) = fresh_outcome gu c.
  Proof.
    intros h c junk. apply step_outcome. apply history_reg_ok. apply reg_ok_init.
  Qed.

  (* C13: a rejected type is rejected in every history, by every entry point,
     and the attempt leaves no trace in the registration state *)
  Theorem rejected_stable : forall h sid,
    accepted_with ru sid = false ->
    let st := run_history gu p_init h in
    (forall v junk, snd (api_step gu st (CSize sid v) junk) = OSizePanic) /\
    (forall v arr blen junk, snd (api_step gu st (CEncode sid v arr blen) junk) = ORejected) /\
    (forall bs dst junk, snd (api_step gu st (CDecode sid bs dst) junk) = ORejected) /\
    (forall c junk,
       match c with
       | CSize s _ | CEncode s _ _ _ | CDecode s _ _ => s = sid
       | _ => False
       end ->
       p_reg (fst (api_step gu st c junk)) = p_reg st).
  Proof.
    intros h sid Hrej st.
    assert (Hst : reg_ok gu (p_reg st)) by (apply history_reg_ok, reg_ok_init).
    assert (Hok : snd (create gu (p_reg st) sid) = false) by (rewrite create_ok; assumption).
    assert (Hrb : fst (create gu (p_reg st) sid) = p_reg st) by (apply create_rollback; assumption).
    split; [|split; [|split]].
    - intros v junk. rewrite api_step_size. cbn [snd]. rewrite Hok. reflexivity.
    - intros v arr blen junk. rewrite api_step_encode. cbn [snd]. rewrite Hok. reflexivity.
    - intros bs dst junk. rewrite api_step_decode. cbn [snd]. rewrite Hok. reflexivity.
    - intros c junk Hc. destruct c as [s v|s v arr blen|s bs dst|f a|s]; try contradiction; subst s.
      + rewrite api_step_size. exact Hrb.
      + rewrite api_step_encode. exact Hrb.
      + rewrite api_step_decode. exact Hrb.
  Qed.

  (* C17 *)
  Definition legacy_outcome (c : call) : outcome :=
    match c with
    | CLegacy f a => OLegacy (legacy_ret f a)
    | _ => OLegacy 0
    end.

  Lemma legacy_step : forall st c junk,
    is_legacy c = true -> api_step gu st c junk = (st, legacy_outcome c).
  Proof.
    intros st c junk H. destruct c; try discriminate; reflexivity.
  Qed.

  Definition erase_legacy (h : list (call * list N)) : list (call * list N) :=
    filter (fun cj => negb (is_legacy (fst cj))) h.

  (* erasing the legacy calls does not even change the state reached *)
  Lemma erase_legacy_state : forall h st,
    run_history gu st (erase_legacy h) = run_history gu st h.
  Proof.
    induction h as [|[c junk] h IH]; intros st; [reflexivity|].
    unfold erase_legacy in *. cbn [filter fst]. rewrite run_history_cons.
    destruct (is_legacy c) eqn:E; cbn [negb].
    - rewrite (legacy_step st c junk E). cbn [fst]. apply IH.
    - rewrite run_history_cons. apply IH.
  Qed.

  Theorem legacy_inert :
    (forall st c junk, is_legacy c = true ->
       fst (api_step gu st c junk) = st /\ snd (api_step gu st c junk) = legacy_outcome c) /\
    (forall h c junk,
       snd (api_step gu (run_history gu p_init h) c junk) =
       snd (api_step gu (run_history gu p_init
                           (filter (fun cj => negb (is_legacy (fst cj))) h)) c junk)) /\
    (forall h st,
       run_history gu st (filter (fun cj => negb (is_legacy (fst cj))) h) = run_history gu st h).
  Proof.
    split; [|split].
    - intros st c junk H. rewrite (legacy_step st c junk H). split; reflexivity.
    - intros h c junk. rewrite !history_independent. reflexivity.
    - exact erase_legacy_state.
  Qed.

End Histories.

(* what the legacy controls return, from the classification of their bodies *)
Theorem legacy_ret_values :
  legacy_ok = true ->
  forall f a,
    legacy_ret f a =
    match f with
    | LSetMaxInlineDepth | LSetMaxInlineILSize => a
    | _ => 0
    end.
Proof.
  intros H f a. unfold legacy_ok in H.
  repeat match type of H with (_ && _) = true => apply andb_true_iff in H; destruct H as [H ?] end.
  unfold legacy_ret.
  destruct f;
    match goal with
    | Hb : body_eqb (legacy_body ?g) _ = true |- context [legacy_body ?g] =>
        destruct (legacy_body g); try discriminate Hb; reflexivity
    end.
Qed.


(* ------------------------------------------------------------------ *)
(* non-vacuity: a failed build is rolled back and does not poison later *)
(* registrations                                                        *)
(* ------------------------------------------------------------------ *)

Module Example.
  (* frugal:"<id>,optional,<name>" *)
  Definition tag (id name : N) : str :=
    [102;114;117;103;97;108;58;34; id ;44;111;112;116;105;111;110;97;108;44; name ;34].
  Definition ptr_field (fname : N) (id : N) (sid : N) (sname : N) : gofield :=
    mkGoField [fname] (GPtr (GStruct sid [sname])) (tag id sname) true false.

  (* type A struct { B *B `frugal:"1,optional,B"` } *)
  Definition sA : gostruct := mkGoStruct [65] [ptr_field 66 49 1 66] None.
  (* type B struct { A *A `frugal:"1,optional,A"`; C *C `frugal:"2,optional,C"` } *)
  Definition sB : gostruct := mkGoStruct [66] [ptr_field 65 49 0 65; ptr_field 67 50 2 67] None.
  (* type C struct { X uint `frugal:"1,optional,C"` }: unsupported Go kind *)
  Definition sC : gostruct := mkGoStruct [67] [mkGoField [88] (GUnsup 5) (tag 49 67) true false] None.
  (* type Q struct { A *A `frugal:"1,optional,A"` } *)
  Definition sQ : gostruct := mkGoStruct [81] [ptr_field 65 49 0 65] None.
  (* type D struct { N int64 `frugal:"1,optional,i64"` }, type E struct { D *D; E *E } *)
  Definition sD : gostruct :=
    mkGoStruct [68] [mkGoField [78] (GInt64 [])
                       [102;114;117;103;97;108;58;34;49;44;111;112;116;105;111;110;97;108;44;105;54;52;34]
                       true false] None.
  Definition sE : gostruct := mkGoStruct [69] [ptr_field 68 49 4 68; ptr_field 69 50 5 69] None.

  Definition gu : list gostruct := [sA; sB; sC; sQ; sD; sE].

  Example tag_bytes :
    tag 49 66 = [102;114;117;103;97;108;58;34;49;44;111;112;116;105;111;110;97;108;44;66;34].
  Proof. reflexivity. Qed.

  Example universe_resolves :
    map (resolves gu) [0; 1; 2; 3; 4; 5; 6] = [true; true; false; true; true; true; false]
    /\ mentions (resolve_universe gu) 0 = [1]
    /\ mentions (resolve_universe gu) 1 = [0; 2]
    /\ mentions (resolve_universe gu) 3 = [0]
    /\ mentions (resolve_universe gu) 5 = [4; 5].
  Proof. vm_compute. repeat split. Qed.

  (* A fails (through B to C) and leaves nothing behind; Q then fails as well *)
  Example failed_create_rolls_back :
    create gu reg_init 0 = (reg_init, false)
    /\ create gu (fst (create gu reg_init 0)) 3 = (reg_init, false)
    /\ accepted_with (resolve_universe gu) 0 = false
    /\ accepted_with (resolve_universe gu) 3 = false.
  Proof. vm_compute. repeat split. Qed.

  (* ... also after a successful registration, which the failure leaves intact;
     the recursive E is accepted and registered through its cached self-reference *)
  Example failed_create_after_success :
    let r1 := fst (create gu reg_init 5) in
    create gu reg_init 5 = (mkReg [5] [4; 5] [5; 4], true)
    /\ create gu r1 0 = (r1, false)
    /\ create gu r1 4 = (mkReg [4; 5] [4; 5] [5; 4], true)
    /\ accepted_with (resolve_universe gu) 5 = true.
  Proof. vm_compute. repeat split. Qed.

  Example history_outcomes :
    let h := [(CSize 0 (VT [] []), [7; 8]); (CLegacy LSetMaxInlineDepth 3, []);
              (CSize 5 (VT [VP None; VP None] []), [1])] in
    snd (api_step gu (run_history gu p_init h) (CDecode 3 [0] (VT [VP None] [])) [9]) = ORejected
    /\ snd (api_step gu (run_history gu p_init h) (CLegacy LSetMaxInlineILSize 11) []) = OLegacy 11.
  Proof. vm_compute. repeat split. Qed.

  (* the failed build of A seen from inside: B was cached, linked A's node
     through its back reference, failed on C and deleted its own cache entry;
     what is left is A's cache entry and A's linked node, and the log names
     both (and B); the rollback from that log gives back the empty state *)
  Example failed_build_state_and_log :
    prefetch gu (prefetch_fuel gu) (mkReg [] [0] []) ([0], []) (mentions (resolve_universe gu) 0)
      = (mkReg [] [0] [0], ([1; 0], [0]), false)
    /\ rollback (mkReg [] [0] [0]) ([1; 0], [0]) = reg_init.
  Proof. vm_compute. repeat split. Qed.

  (* createStructDesc with a defective rollback: the pending log goes through
     [lose] before rollbackPending reads it (e.g. a log cleared too early) *)
  Definition create_losing (lose : list N * list N -> list N * list N) (r : reg) (s : N) : reg * bool :=
    if memN s (r_pub r) then (r, true)
    else if memN s (r_pre r) then (mkReg (s :: r_pub r) (r_pre r) (r_node r), true)
    else if negb (resolves gu s) then (r, false)
    else
      let '(r1, pend1, ok1) :=
        prefetch gu (prefetch_fuel gu) (mkReg (r_pub r) (s :: r_pre r) (r_node r)) ([s], [])
                 (mentions (resolve_universe gu) s) in
      if ok1 then (mkReg (s :: r_pub r1) (r_pre r1) (r_node r1), true)
      else (rollback r1 (lose pend1), false).

  Example create_losing_nothing : forall r s, create_losing (fun p => p) r s = create gu r s.
  Proof. reflexivity. Qed.
End Example.

(* The rollback restores the state only from the full log.  In the universe of
   [Example] (A -> B -> {A, C}, C unsupported; Q -> A), register A -- rejected --
   and then Q, which is rejected as well since it reaches C:
     - if the node half of the log is lost, A's type node stays linked
       (tType.Sd != nil): the build of Q trusts it as complete and Q is
       published although its encoding reaches the unsupported C;
     - if the cache half is lost, A's entry stays in prefetchStructDescCache:
       the build of Q takes the cache hit, links it, and Q is published too;
     - with the full log (the real [create]) nothing is left and Q is rejected.
   Before the rollback was explicit the model could not tell these apart. *)
Theorem rollback_needs_full_log :
  let gu := Example.gu in
  let ru := resolve_universe gu in
  let drop_nodes := fun p : list N * list N => (fst p, @nil N) in
  let drop_types := fun p : list N * list N => (@nil N, snd p) in
  accepted_with ru 0 = false /\ accepted_with ru 3 = false
  (* node log lost *)
  /\ Example.create_losing drop_nodes reg_init 0 = (mkReg [] [] [0], false)
  /\ mkReg [] [] [0] <> reg_init
  /\ create gu (mkReg [] [] [0]) 3 = (mkReg [3] [3] [0], true)
  (* type log lost *)
  /\ Example.create_losing drop_types reg_init 0 = (mkReg [] [0] [], false)
  /\ create gu (mkReg [] [0] []) 3 = (mkReg [3] [3; 0] [0], true)
  (* full log *)
  /\ create gu reg_init 0 = (reg_init, false)
  /\ create gu (fst (create gu reg_init 0)) 3 = (reg_init, false)
  (* and the state the defective rollback leaves is one no history reaches *)
  /\ ~ reg_ok gu (mkReg [] [] [0]) /\ ~ reg_ok gu (mkReg [] [0] []).
Proof.
  cbv zeta.
  assert (H0 : accepted_with (resolve_universe Example.gu) 0 = false) by (vm_compute; reflexivity).
  split; [exact H0|].
  split; [vm_compute; reflexivity|].
  split; [vm_compute; reflexivity|].
  split; [discriminate|].
  split; [vm_compute; reflexivity|].
  split; [vm_compute; reflexivity|].
  split; [vm_compute; reflexivity|].
  split; [vm_compute; reflexivity|].
  split; [vm_compute; reflexivity|].
  split.
  - intros H. specialize (H 0 (or_intror (or_intror (or_introl eq_refl)))). congruence.
  - intros H. specialize (H 0 (or_intror (or_introl (or_introl eq_refl)))). congruence.
Qed.

Print Assumptions history_independent.
Print Assumptions rejected_stable.
Print Assumptions legacy_inert.
Print Assumptions legacy_ret_values.
Print Assumptions decode_pool_irrelevant.
Print Assumptions create_pure.
Print Assumptions accepted_spec.
Print Assumptions rollback_restores.
Print Assumptions create_failure_restores.
Print Assumptions rollback_needs_full_log.
Check create_pure. Check history_independent. Check rejected_stable. Check legacy_inert.
Check legacy_ret_values. Check decode_pool_irrelevant. Check accepted_spec. Check prefetch_spec.
Check prefetch_fuel_enough. Check reg_ok_init.
Check prefetch_log. Check remove_added. Check rollback_restores. Check create_failure_restores.
Check rollback_needs_full_log.
