(* GenLegacy.v -- side condition on the generated files, re-proved on every run against what the
   translator read from the Go sources. *)
From Frugal Require Import Checks.

Lemma legacy_ok_holds : legacy_ok = true.
Proof. vm_compute. reflexivity. Qed.
