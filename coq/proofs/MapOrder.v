(* MapOrder.v -- the iteration order of Go maps is immaterial.

   A Go map is modelled as an association list in this run's iteration order
   (Values.v), so the order is an input of the model.  This file states what
   "up to map-entry order" means and proves that the properties of the codec
   hold up to it:

   (1) vperm / tvperm : equality of Go values / wire values up to the order
       of map entries, at any depth (equivalence relations);
   (2) denote_perm : the reference encoder maps vperm to tvperm;
   (3) tvperm_put_len, tvperm_wf, encode_order_immaterial : two iteration
       orders give messages of the same length, the same EncodedSize, and
       parses related by tvperm;
   (4) norm_perm, roundtrip_up_to_order : decoding the message written in
       another iteration order gives the normalised value up to order;
   (5) a concrete instance: two orders, two different byte strings. *)
From Coq Require Import List PeanoNat NArith Bool Lia ZifyN ZifyNat ZifyBool Permutation.
From Frugal Require Import Bytes Wire Skip Values Desc Spec Encode Decode Checks.
From Frugal.gen Require Import Params.
From Frugal.proofs Require Import BytesWire EncodeSpec SkipPut DecodeRefines RoundTrip ParamsSplit.
From Frugal.proofs Require SizeExact.
From Frugal.props Require Examples.
From Frugal.proofs Require GenEncParams GenTables.
Import ListNotations.
Open Scope N_scope.

(* ------------------------------------------------------------------ *)
(* lists: Forall2, Permutation                                          *)
(* ------------------------------------------------------------------ *)

Lemma F2_impl_in : forall (A B : Type) (R Q : A -> B -> Prop) l l',
  Forall2 R l l' -> (forall a b, In a l -> In b l' -> R a b -> Q a b) -> Forall2 Q l l'.
Proof.
  intros A B R Q l l' HF. induction HF as [|a b l l' Hab _ IH]; intros Himp; [constructor|].
  constructor.
  - apply Himp; [left; reflexivity|left; reflexivity|exact Hab].
  - apply IH. intros x y Hx Hy Hxy. apply Himp; [right; exact Hx|right; exact Hy|exact Hxy].
Qed.

Lemma F2_impl : forall (A B : Type) (R Q : A -> B -> Prop) l l',
  Forall2 R l l' -> (forall a b, R a b -> Q a b) -> Forall2 Q l l'.
Proof. intros A B R Q l l' HF Himp. apply (F2_impl_in A B R Q l l' HF). intros a b _ _. apply Himp. Qed.

Lemma F2_flip : forall (A B : Type) (R : A -> B -> Prop) l l',
  Forall2 R l l' -> Forall2 (fun b a => R a b) l' l.
Proof. intros A B R l l' HF. induction HF; constructor; assumption. Qed.

Lemma F2_length : forall (A B : Type) (R : A -> B -> Prop) l l', Forall2 R l l' -> length l = length l'.
Proof. intros A B R l l' HF. induction HF as [|a b l l' _ _ IH]; [reflexivity|]. cbn [length]. rewrite IH. reflexivity. Qed.

Lemma F2_len : forall (A B : Type) (R : A -> B -> Prop) l l', Forall2 R l l' -> len l = len l'.
Proof. intros A B R l l' HF. unfold len. rewrite (F2_length A B R l l' HF). reflexivity. Qed.

Lemma F2_map : forall (A B C D : Type) (R : C -> D -> Prop) (f : A -> C) (g : B -> D) l l',
  Forall2 (fun a b => R (f a) (g b)) l l' -> Forall2 R (map f l) (map g l').
Proof. intros A B C D R f g l l' HF. induction HF; cbn [map]; constructor; assumption. Qed.

Lemma F2_refl_Forall : forall (A : Type) (R : A -> A -> Prop) l, Forall (fun a => R a a) l -> Forall2 R l l.
Proof. intros A R l HF. induction HF; constructor; assumption. Qed.

Lemma F2_trans_in : forall (A : Type) (R : A -> A -> Prop) l1 l2 l3,
  Forall2 (fun a b => R a b /\ forall c, R b c -> R a c) l1 l2 -> Forall2 R l2 l3 -> Forall2 R l1 l3.
Proof.
  intros A R l1 l2 l3 H12. revert l3. induction H12 as [|a b l1 l2 [_ Hab] _ IH]; intros l3 H23.
  - inversion H23. constructor.
  - inversion H23 as [|b' c l2' l3' Hbc H23' E1 E2]. subst. constructor; [exact (Hab c Hbc)|exact (IH l3' H23')].
Qed.

Lemma Perm_len : forall (A : Type) (l l' : list A), Permutation l l' -> len l = len l'.
Proof. intros A l l' HP. unfold len. rewrite (Permutation_length HP). reflexivity. Qed.

Lemma Perm_Forall : forall (A : Type) (P : A -> Prop) l l', Permutation l l' -> Forall P l -> Forall P l'.
Proof.
  intros A P l l' HP HF. rewrite Forall_forall in HF. apply Forall_forall. intros x Hx.
  apply HF. exact (Permutation_in x (Permutation_sym HP) Hx).
Qed.

Lemma forallb_perm : forall (A : Type) (p : A -> bool) l l', Permutation l l' -> forallb p l = forallb p l'.
Proof.
  intros A p l l' HP. induction HP as [|x l l' _ IH|x y l|l l' l'' _ IH1 _ IH2]; cbn [forallb].
  - reflexivity.
  - rewrite IH. reflexivity.
  - destruct (p x); destruct (p y); reflexivity.
  - rewrite IH1. exact IH2.
Qed.

Lemma existsb_perm : forall (A : Type) (p : A -> bool) l l', Permutation l l' -> existsb p l = existsb p l'.
Proof.
  intros A p l l' HP. induction HP as [|x l l' _ IH|x y l|l l' l'' _ IH1 _ IH2]; cbn [existsb].
  - reflexivity.
  - rewrite IH. reflexivity.
  - destruct (p x); destruct (p y); reflexivity.
  - rewrite IH1. exact IH2.
Qed.

Lemma forallb_F2 : forall (A B : Type) (p : A -> bool) (q : B -> bool) l l',
  Forall2 (fun a b => p a = q b) l l' -> forallb p l = forallb q l'.
Proof.
  intros A B p q l l' HF. induction HF as [|a b l l' Hab _ IH]; [reflexivity|].
  cbn [forallb]. rewrite Hab, IH. reflexivity.
Qed.

Lemma existsb_F2 : forall (A B : Type) (p : A -> bool) (q : B -> bool) l l',
  Forall2 (fun a b => p a = q b) l l' -> existsb p l = existsb q l'.
Proof.
  intros A B p q l l' HF. induction HF as [|a b l l' Hab _ IH]; [reflexivity|].
  cbn [existsb]. rewrite Hab, IH. reflexivity.
Qed.

Lemma fields_all_F2 : forall (g : field -> val -> bool) vs vs',
  Forall2 (fun a b => forall f, g f a = g f b) vs vs' ->
  forall fds, fields_all g fds vs = fields_all g fds vs'.
Proof.
  intros g vs vs' HF. induction HF as [|a b vs vs' Hab _ IH]; intros fds; [reflexivity|].
  destruct fds as [|f fr]; [reflexivity|]. cbn [fields_all]. rewrite (Hab f), (IH fr). reflexivity.
Qed.

(* ------------------------------------------------------------------ *)
(* (1) values up to the order of map entries                            *)
(* ------------------------------------------------------------------ *)

(* The least congruence on [val] that identifies two maps when one is a
   permutation of the other: [m''] is [m] in the iteration order of [m'],
   and its entries are related to those of [m'] one by one. *)
Inductive vperm : val -> val -> Prop :=
| vperm_S : forall x, vperm (VS x) (VS x)
| vperm_B : forall n s, vperm (VB n s) (VB n s)
| vperm_Ln : vperm (VL None) (VL None)
| vperm_L : forall l l', Forall2 vperm l l' -> vperm (VL (Some l)) (VL (Some l'))
| vperm_Mn : vperm (VM None) (VM None)
| vperm_M : forall m m'' m',
    Permutation m m'' ->
    Forall2 (fun a b : val * val => vperm (fst a) (fst b) /\ vperm (snd a) (snd b)) m'' m' ->
    vperm (VM (Some m)) (VM (Some m'))
| vperm_Pn : vperm (VP None) (VP None)
| vperm_P : forall v v', vperm v v' -> vperm (VP (Some v)) (VP (Some v'))
| vperm_T : forall fs fs' h, Forall2 vperm fs fs' -> vperm (VT fs h) (VT fs' h).

(* entries related by R on both components *)
Definition entry_rel (A B : Type) (R : A -> B -> Prop) (a : A * A) (b : B * B) : Prop :=
  R (fst a) (fst b) /\ R (snd a) (snd b).
Arguments entry_rel {A B} R a b.

(* the nested induction principle: the hypothesis for a container carries both
   the relation and the property for the components *)
Section VpermInd.
  Variable P : val -> val -> Prop.
  Hypothesis HS : forall x, P (VS x) (VS x).
  Hypothesis HB : forall n s, P (VB n s) (VB n s).
  Hypothesis HLn : P (VL None) (VL None).
  Hypothesis HL : forall l l',
    Forall2 (fun a b => vperm a b /\ P a b) l l' -> P (VL (Some l)) (VL (Some l')).
  Hypothesis HMn : P (VM None) (VM None).
  Hypothesis HM : forall m m'' m',
    Permutation m m'' ->
    Forall2 (entry_rel (fun a b => vperm a b /\ P a b)) m'' m' ->
    P (VM (Some m)) (VM (Some m')).
  Hypothesis HPn : P (VP None) (VP None).
  Hypothesis HPs : forall v v', vperm v v' -> P v v' -> P (VP (Some v)) (VP (Some v')).
  Hypothesis HT : forall fs fs' h,
    Forall2 (fun a b => vperm a b /\ P a b) fs fs' -> P (VT fs h) (VT fs' h).

  Fixpoint vperm_ind' (v v' : val) (H : vperm v v') {struct H} : P v v' :=
    match H in vperm a b return P a b with
    | vperm_S x => HS x
    | vperm_B n s => HB n s
    | vperm_Ln => HLn
    | vperm_L l l' HF =>
        HL l l'
          ((fix go (l l' : list val) (HF : Forall2 vperm l l') {struct HF}
              : Forall2 (fun a b => vperm a b /\ P a b) l l' :=
              match HF in Forall2 _ a b return Forall2 (fun a b => vperm a b /\ P a b) a b with
              | Forall2_nil _ => Forall2_nil _
              | @Forall2_cons _ _ _ x y r r' h t =>
                  @Forall2_cons _ _ _ x y r r' (conj h (vperm_ind' x y h)) (go r r' t)
              end) l l' HF)
    | vperm_Mn => HMn
    | vperm_M m m'' m' HPm HF =>
        HM m m'' m' HPm
          ((fix go (l l' : list (val * val))
                (HF : Forall2 (fun a b : val * val => vperm (fst a) (fst b) /\ vperm (snd a) (snd b)) l l')
                {struct HF}
              : Forall2 (entry_rel (fun a b => vperm a b /\ P a b)) l l' :=
              match HF in Forall2 _ a b return Forall2 (entry_rel (fun a b => vperm a b /\ P a b)) a b with
              | Forall2_nil _ => Forall2_nil _
              | @Forall2_cons _ _ _ x y r r' h t =>
                  @Forall2_cons _ _ _ x y r r'
                    match h with
                    | conj hk hv =>
                        conj (conj hk (vperm_ind' (fst x) (fst y) hk))
                             (conj hv (vperm_ind' (snd x) (snd y) hv))
                    end
                    (go r r' t)
              end) m'' m' HF)
    | vperm_Pn => HPn
    | vperm_P v v' h => HPs v v' h (vperm_ind' v v' h)
    | vperm_T fs fs' hd HF =>
        HT fs fs' hd
          ((fix go (l l' : list val) (HF : Forall2 vperm l l') {struct HF}
              : Forall2 (fun a b => vperm a b /\ P a b) l l' :=
              match HF in Forall2 _ a b return Forall2 (fun a b => vperm a b /\ P a b) a b with
              | Forall2_nil _ => Forall2_nil _
              | @Forall2_cons _ _ _ x y r r' h t =>
                  @Forall2_cons _ _ _ x y r r' (conj h (vperm_ind' x y h)) (go r r' t)
              end) fs fs' HF)
    end.
End VpermInd.

(* the map constructor in the form with [entry_rel] *)
Lemma vperm_M' : forall m m'' m', Permutation m m'' -> Forall2 (entry_rel vperm) m'' m' ->
  vperm (VM (Some m)) (VM (Some m')).
Proof. intros m m'' m' HP HF. exact (vperm_M m m'' m' HP HF). Qed.

Theorem vperm_refl : forall v, vperm v v.
Proof.
  induction v as [x|n s| |l IH| |m IH| |v IH|fs h IH] using val_ind'; try (constructor; fail).
  - apply vperm_L. apply F2_refl_Forall. exact IH.
  - apply (vperm_M' m m m (Permutation_refl m)). apply F2_refl_Forall. exact IH.
  - apply vperm_P. exact IH.
  - apply vperm_T. apply F2_refl_Forall. exact IH.
Qed.

Theorem vperm_sym : forall v v', vperm v v' -> vperm v' v.
Proof.
  intros v v' H. induction H as [x|n s| |l l' IH| |m m'' m' HP IH| |v v' _ IH|fs fs' h IH] using vperm_ind';
    try (constructor; fail).
  - apply vperm_L. apply F2_flip in IH. apply (F2_impl _ _ _ _ _ _ IH). intros a b [_ H]. exact H.
  - assert (HF : Forall2 (fun a b => entry_rel vperm b a) m'' m').
    { apply (F2_impl _ _ _ _ _ _ IH). intros a b [[_ Hk] [_ Hv]]. split; assumption. }
    destruct (Permutation_Forall2 (Permutation_sym HP) HF) as (x & HPx & HFx).
    apply (vperm_M' m' x m HPx). apply F2_flip in HFx. exact HFx.
  - apply vperm_P. exact IH.
  - apply vperm_T. apply F2_flip in IH. apply (F2_impl _ _ _ _ _ _ IH). intros a b [_ H]. exact H.
Qed.

(* inversion, one constructor at a time *)
Lemma vperm_VL_inv : forall l c, vperm (VL (Some l)) c -> exists l', c = VL (Some l') /\ Forall2 vperm l l'.
Proof. intros l c H. inversion H as [| | |l0 l' HF| | | | |]. subst. exists l'. split; [reflexivity|exact HF]. Qed.

Lemma vperm_VM_inv : forall m c, vperm (VM (Some m)) c ->
  exists m'' m', c = VM (Some m') /\ Permutation m m'' /\ Forall2 (entry_rel vperm) m'' m'.
Proof.
  intros m c H. inversion H as [| | | | |m0 m'' m' HP HF| | |]. subst.
  exists m'', m'. split; [reflexivity|]. split; [exact HP|exact HF].
Qed.

Lemma vperm_VP_inv : forall v c, vperm (VP (Some v)) c -> exists v', c = VP (Some v') /\ vperm v v'.
Proof. intros v c H. inversion H as [| | | | | | |v0 v' Hv|]. subst. exists v'. split; [reflexivity|exact Hv]. Qed.

Lemma vperm_VT_inv : forall fs h c, vperm (VT fs h) c -> exists fs', c = VT fs' h /\ Forall2 vperm fs fs'.
Proof. intros fs h c H. inversion H as [| | | | | | | |fs0 fs' h0 HF]. subst. exists fs'. split; [reflexivity|exact HF]. Qed.

Theorem vperm_trans : forall a b c, vperm a b -> vperm b c -> vperm a c.
Proof.
  intros a b c H. revert c.
  induction H as [x|n s| |l l' IH| |m m'' m' HP IH| |v v' _ IH|fs fs' h IH] using vperm_ind';
    intros c Hc; try exact Hc.
  - destruct (vperm_VL_inv l' c Hc) as (l3 & E & H3). subst c. apply vperm_L.
    exact (F2_trans_in val vperm l l' l3 IH H3).
  - destruct (vperm_VM_inv m' c Hc) as (m2 & m3 & E & HP2 & H3). subst c.
    (* carry the second permutation back across the first pairing *)
    apply F2_flip in IH.
    destruct (Permutation_Forall2 HP2 IH) as (m1 & HP1 & H1). apply F2_flip in H1. cbn beta in H1.
    apply (vperm_M' m m1 m3 (Permutation_trans HP HP1)).
    revert H3. generalize m3. clear -H1.
    induction H1 as [|x y r r' [[_ Hk] [_ Hv]] _ IHr]; intros l3 H3.
    + inversion H3. constructor.
    + inversion H3 as [|y' z r2 r3 [Hk3 Hv3] H3' E1 E2]. subst. constructor; [|exact (IHr r3 H3')].
      split; [exact (Hk _ Hk3)|exact (Hv _ Hv3)].
  - destruct (vperm_VP_inv v' c Hc) as (v3 & E & H3). subst c. apply vperm_P. exact (IH v3 H3).
  - destruct (vperm_VT_inv fs' h c Hc) as (l3 & E & H3). subst c. apply vperm_T.
    exact (F2_trans_in val vperm fs fs' l3 IH H3).
Qed.

(* ------------------------------------------------------------------ *)
(* wire values up to the order of map entries                           *)
(* ------------------------------------------------------------------ *)

Inductive tvperm : tv -> tv -> Prop :=
| tvperm_Bool : forall x, tvperm (WBool x) (WBool x)
| tvperm_I8 : forall x, tvperm (WI8 x) (WI8 x)
| tvperm_I16 : forall x, tvperm (WI16 x) (WI16 x)
| tvperm_I32 : forall x, tvperm (WI32 x) (WI32 x)
| tvperm_I64 : forall x, tvperm (WI64 x) (WI64 x)
| tvperm_Dbl : forall x, tvperm (WDbl x) (WDbl x)
| tvperm_Str : forall s, tvperm (WStr s) (WStr s)
| tvperm_Struct : forall fs fs' raw,
    Forall2 (fun a b : N * tv => fst a = fst b /\ tvperm (snd a) (snd b)) fs fs' ->
    tvperm (WStruct fs raw) (WStruct fs' raw)
| tvperm_Map : forall kc vc es es'' es',
    Permutation es es'' ->
    Forall2 (fun a b : tv * tv => tvperm (fst a) (fst b) /\ tvperm (snd a) (snd b)) es'' es' ->
    tvperm (WMap kc vc es) (WMap kc vc es')
| tvperm_List : forall b ec es es', Forall2 tvperm es es' -> tvperm (WList b ec es) (WList b ec es').

(* fields: same id, related values *)
Definition field_rel (R : tv -> tv -> Prop) (a b : N * tv) : Prop := fst a = fst b /\ R (snd a) (snd b).

Definition is_atom (w : tv) : bool :=
  match w with WStruct _ _ | WMap _ _ _ | WList _ _ _ => false | _ => true end.

Section TvpermInd.
  Variable P : tv -> tv -> Prop.
  Hypothesis HA : forall w, is_atom w = true -> P w w.
  Hypothesis HStruct : forall fs fs' raw,
    Forall2 (field_rel (fun a b => tvperm a b /\ P a b)) fs fs' -> P (WStruct fs raw) (WStruct fs' raw).
  Hypothesis HMap : forall kc vc es es'' es',
    Permutation es es'' ->
    Forall2 (entry_rel (fun a b => tvperm a b /\ P a b)) es'' es' ->
    P (WMap kc vc es) (WMap kc vc es').
  Hypothesis HList : forall b ec es es',
    Forall2 (fun a b => tvperm a b /\ P a b) es es' -> P (WList b ec es) (WList b ec es').

  Fixpoint tvperm_ind' (w w' : tv) (H : tvperm w w') {struct H} : P w w' :=
    match H in tvperm a b return P a b with
    | tvperm_Bool x => HA (WBool x) eq_refl
    | tvperm_I8 x => HA (WI8 x) eq_refl
    | tvperm_I16 x => HA (WI16 x) eq_refl
    | tvperm_I32 x => HA (WI32 x) eq_refl
    | tvperm_I64 x => HA (WI64 x) eq_refl
    | tvperm_Dbl x => HA (WDbl x) eq_refl
    | tvperm_Str s => HA (WStr s) eq_refl
    | tvperm_Struct fs fs' raw HF =>
        HStruct fs fs' raw
          ((fix go (l l' : list (N * tv))
                (HF : Forall2 (fun a b : N * tv => fst a = fst b /\ tvperm (snd a) (snd b)) l l') {struct HF}
              : Forall2 (field_rel (fun a b => tvperm a b /\ P a b)) l l' :=
              match HF in Forall2 _ a b return Forall2 (field_rel (fun a b => tvperm a b /\ P a b)) a b with
              | Forall2_nil _ => Forall2_nil _
              | @Forall2_cons _ _ _ x y r r' h t =>
                  @Forall2_cons _ _ _ x y r r'
                    match h with
                    | conj hi hv => conj hi (conj hv (tvperm_ind' (snd x) (snd y) hv))
                    end
                    (go r r' t)
              end) fs fs' HF)
    | tvperm_Map kc vc es es'' es' HPm HF =>
        HMap kc vc es es'' es' HPm
          ((fix go (l l' : list (tv * tv))
                (HF : Forall2 (fun a b : tv * tv => tvperm (fst a) (fst b) /\ tvperm (snd a) (snd b)) l l')
                {struct HF}
              : Forall2 (entry_rel (fun a b => tvperm a b /\ P a b)) l l' :=
              match HF in Forall2 _ a b return Forall2 (entry_rel (fun a b => tvperm a b /\ P a b)) a b with
              | Forall2_nil _ => Forall2_nil _
              | @Forall2_cons _ _ _ x y r r' h t =>
                  @Forall2_cons _ _ _ x y r r'
                    match h with
                    | conj hk hv =>
                        conj (conj hk (tvperm_ind' (fst x) (fst y) hk))
                             (conj hv (tvperm_ind' (snd x) (snd y) hv))
                    end
                    (go r r' t)
              end) es'' es' HF)
    | tvperm_List b ec es es' HF =>
        HList b ec es es'
          ((fix go (l l' : list tv) (HF : Forall2 tvperm l l') {struct HF}
              : Forall2 (fun a b => tvperm a b /\ P a b) l l' :=
              match HF in Forall2 _ a b return Forall2 (fun a b => tvperm a b /\ P a b) a b with
              | Forall2_nil _ => Forall2_nil _
              | @Forall2_cons _ _ _ x y r r' h t =>
                  @Forall2_cons _ _ _ x y r r' (conj h (tvperm_ind' x y h)) (go r r' t)
              end) es es' HF)
    end.
End TvpermInd.

Lemma tvperm_Struct' : forall fs fs' raw, Forall2 (field_rel tvperm) fs fs' ->
  tvperm (WStruct fs raw) (WStruct fs' raw).
Proof. intros fs fs' raw HF. exact (tvperm_Struct fs fs' raw HF). Qed.

Lemma tvperm_Map' : forall kc vc es es'' es', Permutation es es'' -> Forall2 (entry_rel tvperm) es'' es' ->
  tvperm (WMap kc vc es) (WMap kc vc es').
Proof. intros kc vc es es'' es' HP HF. exact (tvperm_Map kc vc es es'' es' HP HF). Qed.

Theorem tvperm_refl : forall w, tvperm w w.
Proof.
  induction w as [x|x|x|x|x|x|s|fs raw IH|kc vc es IH|b ec es IH] using tv_ind'; try (constructor; fail).
  - apply tvperm_Struct'. apply F2_refl_Forall. apply (Forall_impl _ (P := fun fv => tvperm (snd fv) (snd fv))); [|exact IH].
    intros a Ha. split; [reflexivity|exact Ha].
  - apply (tvperm_Map' kc vc es es es (Permutation_refl es)). apply F2_refl_Forall. exact IH.
  - apply tvperm_List. apply F2_refl_Forall. exact IH.
Qed.

Theorem tvperm_sym : forall w w', tvperm w w' -> tvperm w' w.
Proof.
  intros w w' H.
  induction H as [w Hw|fs fs' raw IH|kc vc es es'' es' HP IH|b ec es es' IH] using tvperm_ind'.
  - apply tvperm_refl.
  - apply tvperm_Struct'. apply F2_flip in IH. apply (F2_impl _ _ _ _ _ _ IH).
    intros a b [Hi [_ H]]. split; [symmetry; exact Hi|exact H].
  - assert (HF : Forall2 (fun a b => entry_rel tvperm b a) es'' es').
    { apply (F2_impl _ _ _ _ _ _ IH). intros a b [[_ Hk] [_ Hv]]. split; assumption. }
    destruct (Permutation_Forall2 (Permutation_sym HP) HF) as (x & HPx & HFx).
    apply (tvperm_Map' kc vc es' x es HPx). apply F2_flip in HFx. exact HFx.
  - apply tvperm_List. apply F2_flip in IH. apply (F2_impl _ _ _ _ _ _ IH). intros a c [_ H]. exact H.
Qed.

Lemma tvperm_Struct_inv : forall fs raw c, tvperm (WStruct fs raw) c ->
  exists fs', c = WStruct fs' raw /\ Forall2 (field_rel tvperm) fs fs'.
Proof.
  intros fs raw c H. inversion H as [| | | | | | |fs0 fs' raw0 HF| |]. subst.
  exists fs'. split; [reflexivity|exact HF].
Qed.

Lemma tvperm_Map_inv : forall kc vc es c, tvperm (WMap kc vc es) c ->
  exists es'' es', c = WMap kc vc es' /\ Permutation es es'' /\ Forall2 (entry_rel tvperm) es'' es'.
Proof.
  intros kc vc es c H. inversion H as [| | | | | | | |kc0 vc0 es0 es'' es' HP HF|]. subst.
  exists es'', es'. split; [reflexivity|]. split; [exact HP|exact HF].
Qed.

Lemma tvperm_List_inv : forall b ec es c, tvperm (WList b ec es) c ->
  exists es', c = WList b ec es' /\ Forall2 tvperm es es'.
Proof.
  intros b ec es c H. inversion H as [| | | | | | | | |b0 ec0 es0 es' HF]. subst.
  exists es'. split; [reflexivity|exact HF].
Qed.

Theorem tvperm_trans : forall a b c, tvperm a b -> tvperm b c -> tvperm a c.
Proof.
  intros a b c H. revert c.
  induction H as [w Hw|fs fs' raw IH|kc vc es es'' es' HP IH|bb ec es es' IH] using tvperm_ind'; intros c Hc.
  - exact Hc.
  - destruct (tvperm_Struct_inv fs' raw c Hc) as (l3 & E & H3). subst c. apply tvperm_Struct'.
    revert H3. generalize l3. clear -IH.
    induction IH as [|x y r r' [Hi [_ Hv]] _ IHr]; intros l3 H3.
    + inversion H3. constructor.
    + inversion H3 as [|y' z r2 r3 [Hi3 Hv3] H3' E1 E2]. subst. constructor; [|exact (IHr r3 H3')].
      split; [rewrite Hi; exact Hi3|exact (Hv _ Hv3)].
  - destruct (tvperm_Map_inv kc vc es' c Hc) as (m2 & m3 & E & HP2 & H3). subst c.
    apply F2_flip in IH.
    destruct (Permutation_Forall2 HP2 IH) as (m1 & HP1 & H1). apply F2_flip in H1. cbn beta in H1.
    apply (tvperm_Map' kc vc es m1 m3 (Permutation_trans HP HP1)).
    revert H3. generalize m3. clear -H1.
    induction H1 as [|x y r r' [[_ Hk] [_ Hv]] _ IHr]; intros l3 H3.
    + inversion H3. constructor.
    + inversion H3 as [|y' z r2 r3 [Hk3 Hv3] H3' E1 E2]. subst. constructor; [|exact (IHr r3 H3')].
      split; [exact (Hk _ Hk3)|exact (Hv _ Hv3)].
  - destruct (tvperm_List_inv bb ec es' c Hc) as (l3 & E & H3). subst c. apply tvperm_List.
    exact (F2_trans_in tv tvperm es es' l3 IH H3).
Qed.

(* ------------------------------------------------------------------ *)
(* (3a) the writer and the well-formedness check do not see the order   *)
(* ------------------------------------------------------------------ *)

Lemma tvperm_code_of : forall w w', tvperm w w' -> code_of w = code_of w'.
Proof. intros w w' H. destruct H; reflexivity. Qed.

Lemma len_cat_map_F2 : forall (A : Type) (f : A -> list N) l l',
  Forall2 (fun a b => len (f a) = len (f b)) l l' -> len (cat_map f l) = len (cat_map f l').
Proof.
  intros A f l l' HF. induction HF as [|a b l l' Hab _ IH]; [reflexivity|].
  cbn [cat_map]. rewrite !SizeExact.len_app, Hab, IH. reflexivity.
Qed.

Lemma len_cat_map_perm : forall (A : Type) (f : A -> list N) l l',
  Permutation l l' -> len (cat_map f l) = len (cat_map f l').
Proof.
  intros A f l l' HP. induction HP as [|x l l' _ IH|x y l|l l' l'' _ IH1 _ IH2]; cbn [cat_map].
  - reflexivity.
  - rewrite !SizeExact.len_app, IH. reflexivity.
  - rewrite !SizeExact.len_app. lia.
  - rewrite IH1. exact IH2.
Qed.

Theorem tvperm_put_len : forall w w', tvperm w w' -> len (put w) = len (put w').
Proof.
  intros w w' H.
  induction H as [w Hw|fs fs' raw IH|kc vc es es'' es' HP IH|b ec es es' IH] using tvperm_ind'.
  - reflexivity.
  - rewrite !put_WStruct, !SizeExact.len_app. f_equal.
    apply len_cat_map_F2. apply (F2_impl _ _ _ _ _ _ IH). intros x y [Hi [_ Hv]].
    unfold put_field. rewrite !SizeExact.len_cons, !SizeExact.len_app, !SizeExact.len_be_put, Hv. reflexivity.
  - rewrite !put_WMap, !SizeExact.len_cons, !SizeExact.len_app, !SizeExact.len_be_put.
    rewrite (len_cat_map_perm _ put_entry es es'' HP).
    f_equal. f_equal. f_equal.
    apply len_cat_map_F2. apply (F2_impl _ _ _ _ _ _ IH). intros x y [[_ Hk] [_ Hv]].
    unfold put_entry. rewrite !SizeExact.len_app, Hk, Hv. reflexivity.
  - rewrite !put_WList, !SizeExact.len_cons, !SizeExact.len_app, !SizeExact.len_be_put.
    f_equal. f_equal.
    apply len_cat_map_F2. apply (F2_impl _ _ _ _ _ _ IH). intros x y [_ Hxy]. exact Hxy.
Qed.

Theorem tvperm_wf : forall w w', tvperm w w' -> wf w = wf w'.
Proof.
  intros w w' H.
  induction H as [w Hw|fs fs' raw IH|kc vc es es'' es' HP IH|b ec es es' IH] using tvperm_ind'.
  - reflexivity.
  - rewrite !wf_WStruct. f_equal.
    apply forallb_F2. apply (F2_impl _ _ _ _ _ _ IH). intros x y [Hi [_ Hv]]. rewrite Hi, Hv. reflexivity.
  - rewrite !wf_WMap.
    assert (El : len es = len es').
    { rewrite (Perm_len _ es es'' HP). exact (F2_len _ _ _ _ _ IH). }
    rewrite El. f_equal.
    rewrite (forallb_perm _ _ es es'' HP).
    apply forallb_F2. apply (F2_impl _ _ _ _ _ _ IH). intros x y [[Tk Hk] [Tv Hv]].
    rewrite (tvperm_code_of _ _ Tk), (tvperm_code_of _ _ Tv), Hk, Hv. reflexivity.
  - rewrite !wf_WList. rewrite (F2_len _ _ _ _ _ IH). f_equal.
    apply forallb_F2. apply (F2_impl _ _ _ _ _ _ IH). intros x y [Tx Hxy].
    rewrite (tvperm_code_of _ _ Tx), Hxy. reflexivity.
Qed.

(* ------------------------------------------------------------------ *)
(* what looks only at scalars, strings and nil-ness                     *)
(* ------------------------------------------------------------------ *)

Lemma vperm_is_nil : forall v v', vperm v v' -> is_nil v = is_nil v'.
Proof. intros v v' H. destruct H; reflexivity. Qed.

Lemma vperm_go_equal : forall t d v v', vperm v v' -> go_equal t d v = go_equal t d v'.
Proof. intros t d v v' H. destruct H; destruct d; reflexivity. Qed.

Lemma vperm_emits : forall f v v', vperm v v' -> emits f v = emits f v'.
Proof.
  intros f v v' H. unfold emits. rewrite (vperm_is_nil v v' H).
  destruct (fdflt f) as [d|]; [|reflexivity]. rewrite (vperm_go_equal (fty f) d v v' H). reflexivity.
Qed.

Lemma vperm_key_eq : forall kt a a' b b', vperm a a' -> vperm b b' -> key_eq kt a b = key_eq kt a' b'.
Proof. intros kt a a' b b' Ha Hb. destruct Ha; destruct Hb; reflexivity. Qed.

Lemma list_eqb_sym : forall (a b : list N), list_eqb N.eqb a b = list_eqb N.eqb b a.
Proof.
  induction a as [|x a IH]; intros [|y b]; try reflexivity.
  cbn [list_eqb]. rewrite (N.eqb_sym x y), (IH b). reflexivity.
Qed.

Lemma dbl_eq_sym : forall a b, dbl_eq a b = dbl_eq b a.
Proof.
  intros a b. unfold dbl_eq. rewrite (orb_comm (dbl_is_nan a)), (andb_comm (dbl_is_zero a)), (N.eqb_sym a b).
  reflexivity.
Qed.

Lemma key_eq_sym : forall kt a b, key_eq kt a b = key_eq kt b a.
Proof.
  intros kt a b. destruct a as [x|n s| | | |]; destruct b as [y|n' s'| | | |]; try reflexivity.
  - cbn [key_eq]. destruct kt; try apply N.eqb_sym. apply dbl_eq_sym.
  - cbn [key_eq]. apply list_eqb_sym.
Qed.

(* Go's "no duplicate keys" does not depend on the order *)
Lemma keys_nodup_cons : forall kt kv m,
  keys_nodup kt (kv :: m) = negb (existsb (fun kv' => key_eq kt (fst kv) (fst kv')) m) && keys_nodup kt m.
Proof. intros kt [k v] m. reflexivity. Qed.

Lemma keys_nodup_perm : forall kt m m', Permutation m m' -> keys_nodup kt m = keys_nodup kt m'.
Proof.
  intros kt m m' HP. induction HP as [|x l l' HP IH|x y l|l l' l'' _ IH1 _ IH2].
  - reflexivity.
  - rewrite !keys_nodup_cons, IH, (existsb_perm _ _ l l' HP). reflexivity.
  - rewrite !keys_nodup_cons. cbn [existsb]. rewrite (key_eq_sym kt (fst y) (fst x)).
    destruct (key_eq kt (fst x) (fst y)); cbn [orb negb andb]; [reflexivity|].
    destruct (existsb _ l); destruct (existsb _ l); reflexivity.
  - rewrite IH1. exact IH2.
Qed.

Lemma keys_nodup_F2 : forall kt m m',
  Forall2 (fun a b : val * val => vperm (fst a) (fst b)) m m' -> keys_nodup kt m = keys_nodup kt m'.
Proof.
  intros kt m m' HF. induction HF as [|a b m m' Hab HF IH]; [reflexivity|].
  rewrite !keys_nodup_cons, IH. f_equal. f_equal.
  apply existsb_F2. apply (F2_impl _ _ _ _ _ _ HF). intros x y Hxy. exact (vperm_key_eq kt _ _ _ _ Hab Hxy).
Qed.

(* ------------------------------------------------------------------ *)
(* the hypotheses of the round-trip theorem do not see the order        *)
(* ------------------------------------------------------------------ *)

Lemma enums32_VLs : forall env b e l, enums32 env (TList b e) (VL (Some l)) = forallb (enums32 env e) l.
Proof. reflexivity. Qed.
Lemma enums32_VMs : forall env kt vt m, enums32 env (TMap kt vt) (VM (Some m)) =
  forallb (fun kv : val * val => enums32 env kt (fst kv) && enums32 env vt (snd kv)) m.
Proof. reflexivity. Qed.
Lemma enums32_VPs : forall env t' v, enums32 env (TPtr t') (VP (Some v)) = enums32 env t' v.
Proof. reflexivity. Qed.
Lemma enums32_VT : forall env sid fs h, enums32 env (TStruct sid) (VT fs h) =
  match lookup_sd env sid with
  | Some sd => fields_all (fun f v' => enums32 env (fty f) v') (sfields sd) fs
  | None => true
  end.
Proof. reflexivity. Qed.

Theorem vperm_has_type : forall env v v', vperm v v' -> forall t, has_type env t v = has_type env t v'.
Proof.
  intros env v v' H.
  induction H as [x|n s| |l l' IH| |m m'' m' HP IH| |v v' _ IH|fs fs' h IH] using vperm_ind'; intros t;
    try reflexivity.
  - rewrite !has_type_VL. destruct t as [| | | | | | | | |b e| | |]; try reflexivity.
    rewrite (F2_len _ _ _ _ _ IH). f_equal.
    apply forallb_F2. apply (F2_impl _ _ _ _ _ _ IH). intros a c [_ Hac]. exact (Hac e).
  - rewrite !has_type_VM. destruct t as [| | | | | | | | | |kt vt| |]; try reflexivity.
    assert (El : len m = len m') by (rewrite (Perm_len _ m m'' HP); exact (F2_len _ _ _ _ _ IH)).
    rewrite El, (keys_nodup_perm kt m m'' HP), (forallb_perm _ _ m m'' HP).
    f_equal; [f_equal|].
    + apply forallb_F2. apply (F2_impl _ _ _ _ _ _ IH). intros a c [[_ Hk] [_ Hv]].
      rewrite (Hk kt), (Hv vt). reflexivity.
    + apply keys_nodup_F2. apply (F2_impl _ _ _ _ _ _ IH). intros a c [[Hk _] _]. exact Hk.
  - rewrite !has_type_VP. destruct t as [| | | | | | | | | | | |t']; try reflexivity. exact (IH t').
  - rewrite !has_type_VT. destruct t as [| | | | | | | | | | |sid|]; try reflexivity.
    destruct (lookup_sd env sid) as [sd|]; [|reflexivity]. f_equal. f_equal.
    apply fields_all_F2. apply (F2_impl _ _ _ _ _ _ IH). intros a c [_ Hac] f. exact (Hac (fty f)).
Qed.

Theorem vperm_holders_empty : forall v v', vperm v v' -> Spec.holders_empty v = Spec.holders_empty v'.
Proof.
  intros v v' H.
  induction H as [x|n s| |l l' IH| |m m'' m' HP IH| |v v' _ IH|fs fs' h IH] using vperm_ind';
    try reflexivity.
  - cbn [Spec.holders_empty]. apply forallb_F2. apply (F2_impl _ _ _ _ _ _ IH). intros a c [_ Hac]. exact Hac.
  - cbn [Spec.holders_empty]. rewrite (forallb_perm _ _ m m'' HP).
    apply forallb_F2. apply (F2_impl _ _ _ _ _ _ IH). intros a c [[_ Hk] [_ Hv]]. rewrite Hk, Hv. reflexivity.
  - exact IH.
  - cbn [Spec.holders_empty]. destruct h; [|reflexivity].
    apply forallb_F2. apply (F2_impl _ _ _ _ _ _ IH). intros a c [_ Hac]. exact Hac.
Qed.

Theorem vperm_enums32 : forall env v v', vperm v v' -> forall t, enums32 env t v = enums32 env t v'.
Proof.
  intros env v v' H.
  induction H as [x|n s| |l l' IH| |m m'' m' HP IH| |v v' _ IH|fs fs' h IH] using vperm_ind'; intros t;
    try reflexivity.
  - destruct t as [| | | | | | | | |b e| | |]; try reflexivity. rewrite !enums32_VLs.
    apply forallb_F2. apply (F2_impl _ _ _ _ _ _ IH). intros a c [_ Hac]. exact (Hac e).
  - destruct t as [| | | | | | | | | |kt vt| |]; try reflexivity. rewrite !enums32_VMs.
    rewrite (forallb_perm _ _ m m'' HP).
    apply forallb_F2. apply (F2_impl _ _ _ _ _ _ IH). intros a c [[_ Hk] [_ Hv]].
    rewrite (Hk kt), (Hv vt). reflexivity.
  - destruct t as [| | | | | | | | | | | |t']; try reflexivity. rewrite !enums32_VPs. exact (IH t').
  - destruct t as [| | | | | | | | | | |sid|]; try reflexivity. rewrite !enums32_VT.
    destruct (lookup_sd env sid) as [sd|]; [|reflexivity].
    apply fields_all_F2. apply (F2_impl _ _ _ _ _ _ IH). intros a c [_ Hac] f. exact (Hac (fty f)).
Qed.

Theorem vperm_req_complete : forall env v v', vperm v v' ->
  forall t, req_complete env t v = req_complete env t v'.
Proof.
  intros env v v' H.
  induction H as [x|n s| |l l' IH| |m m'' m' HP IH| |v v' _ IH|fs fs' h IH] using vperm_ind'; intros t;
    try reflexivity.
  - destruct t as [| | | | | | | | |b e| | |]; try reflexivity. rewrite !req_VLs.
    apply forallb_F2. apply (F2_impl _ _ _ _ _ _ IH). intros a c [_ Hac]. exact (Hac e).
  - destruct t as [| | | | | | | | | |kt vt| |]; try reflexivity. rewrite !req_VMs.
    rewrite (forallb_perm _ _ m m'' HP).
    apply forallb_F2. apply (F2_impl _ _ _ _ _ _ IH). intros a c [[_ Hk] [_ Hv]].
    rewrite (Hk kt), (Hv vt). reflexivity.
  - destruct t as [| | | | | | | | | | | |t']; try reflexivity. rewrite !req_VPs. exact (IH t').
  - destruct t as [| | | | | | | | | | |sid|]; try reflexivity. rewrite !req_VT.
    destruct (lookup_sd env sid) as [sd|]; [|reflexivity].
    apply fields_all_F2. apply (F2_impl _ _ _ _ _ _ IH). intros a c [Tac Hac] f.
    rewrite (vperm_emits f a c Tac), (Hac (fty f)). reflexivity.
Qed.

Lemma max_fold_perm : forall (A : Type) (f : A -> nat) l l', Permutation l l' ->
  fold_right (fun x m => Nat.max (f x) m) O l = fold_right (fun x m => Nat.max (f x) m) O l'.
Proof.
  intros A f l l' HP. induction HP as [|x l l' _ IH|x y l|l l' l'' _ IH1 _ IH2]; cbn [fold_right].
  - reflexivity.
  - rewrite IH. reflexivity.
  - lia.
  - rewrite IH1. exact IH2.
Qed.

Lemma max_fold_F2 : forall (A : Type) (f : A -> nat) l l', Forall2 (fun a b => f a = f b) l l' ->
  fold_right (fun x m => Nat.max (f x) m) O l = fold_right (fun x m => Nat.max (f x) m) O l'.
Proof.
  intros A f l l' HF. induction HF as [|a b l l' Hab _ IH]; [reflexivity|].
  cbn [fold_right]. rewrite Hab, IH. reflexivity.
Qed.

Theorem vperm_vdepth : forall v v', vperm v v' -> vdepth v = vdepth v'.
Proof.
  intros v v' H.
  induction H as [x|n s| |l l' IH| |m m'' m' HP IH| |v v' _ IH|fs fs' h IH] using vperm_ind';
    try reflexivity.
  - cbn [vdepth]. f_equal. apply (max_fold_F2 _ vdepth). apply (F2_impl _ _ _ _ _ _ IH).
    intros a c [_ Hac]. exact Hac.
  - cbn [vdepth]. f_equal.
    rewrite (max_fold_perm _ (fun kv : val * val => Nat.max (vdepth (fst kv)) (vdepth (snd kv))) m m'' HP).
    apply (max_fold_F2 _ (fun kv : val * val => Nat.max (vdepth (fst kv)) (vdepth (snd kv)))).
    apply (F2_impl _ _ _ _ _ _ IH). intros a c [[_ Hk] [_ Hv]]. rewrite Hk, Hv. reflexivity.
  - exact IH.
  - cbn [vdepth]. f_equal. apply (max_fold_F2 _ vdepth). apply (F2_impl _ _ _ _ _ _ IH).
    intros a c [_ Hac]. exact Hac.
Qed.

(* ------------------------------------------------------------------ *)
(* (2) the reference encoder maps vperm to tvperm                       *)
(* ------------------------------------------------------------------ *)

Lemma tvperm_junk : tvperm junk junk.
Proof. apply tvperm_refl. Qed.

Lemma fields_cat_F2 : forall (A : Type) (R : A -> A -> Prop) (g : field -> val -> list A) vs vs',
  Forall2 (fun a b => forall f, Forall2 R (g f a) (g f b)) vs vs' ->
  forall fds, Forall2 R (fields_cat g fds vs) (fields_cat g fds vs').
Proof.
  intros A R g vs vs' HF. induction HF as [|a b vs vs' Hab _ IH]; intros fds; [constructor|].
  destruct fds as [|f fr]; [constructor|]. cbn [fields_cat].
  apply Forall2_app; [exact (Hab f)|exact (IH fr)].
Qed.

(* no typing hypothesis is needed: on ill-typed values both sides are [junk] *)
Theorem denote_perm : forall env v v', vperm v v' -> forall t, tvperm (denote env t v) (denote env t v').
Proof.
  intros env v v' H.
  induction H as [x|n s| |l l' IH| |m m'' m' HP IH| |v v' _ IH|fs fs' h IH] using vperm_ind'; intros t;
    try apply tvperm_refl.
  - destruct t as [| | | | | | | | |b e| | |]; try apply tvperm_junk. rewrite !denote_VL.
    apply tvperm_List. apply F2_map. apply (F2_impl _ _ _ _ _ _ IH). intros a c [_ Hac]. exact (Hac e).
  - destruct t as [| | | | | | | | | |kt vt| |]; try apply tvperm_junk. rewrite !denote_VM.
    apply (tvperm_Map' _ _ _
             (map (fun kv : val * val => (denote env kt (fst kv), denote env vt (snd kv))) m'') _).
    + apply Permutation_map. exact HP.
    + apply F2_map. apply (F2_impl _ _ _ _ _ _ IH). intros a c [[_ Hk] [_ Hv]].
      split; [exact (Hk kt)|exact (Hv vt)].
  - destruct t as [| | | | | | | | | | | |t']; try apply tvperm_junk. rewrite !denote_VPs. exact (IH t').
  - destruct t as [| | | | | | | | | | |sid|]; try apply tvperm_junk. rewrite !denote_VT.
    destruct (lookup_sd env sid) as [sd|]; [|apply tvperm_junk].
    apply tvperm_Struct'. apply fields_cat_F2. apply (F2_impl _ _ _ _ _ _ IH). intros a c [Tac Hac] f.
    unfold spec_field. rewrite (vperm_emits f a c Tac).
    destruct (emits f c); [|constructor]. constructor; [|constructor].
    split; [reflexivity|exact (Hac (fty f))].
Qed.

(* ------------------------------------------------------------------ *)
(* (3b) the implementation model: the iteration order is immaterial     *)
(* ------------------------------------------------------------------ *)

Theorem encode_order_immaterial : forall env sid v v',
  enc_params_ok = true -> tables_ok = true -> env_ok env = true ->
  has_type env (TStruct sid) v = true ->
  vperm v v' ->
  exists w w', append_struct env sid v = put w /\ append_struct env sid v' = put w'
               /\ tvperm w w' /\ encoded_size env sid v = encoded_size env sid v'.
Proof.
  intros env sid v v' HP HT HE Hty Hvv.
  assert (Hty' : has_type env (TStruct sid) v' = true)
    by (rewrite <- (vperm_has_type env v v' Hvv (TStruct sid)); exact Hty).
  pose proof (denote_perm env v v' Hvv (TStruct sid)) as Hw.
  exists (denote env (TStruct sid) v), (denote env (TStruct sid) v').
  split; [exact (encode_refines env sid v HP HT HE Hty)|].
  split; [exact (encode_refines env sid v' HP HT HE Hty')|].
  split; [exact Hw|].
  rewrite (SizeExact.size_exact env sid v HP HT HE Hty), (SizeExact.size_exact env sid v' HP HT HE Hty').
  rewrite (encode_refines env sid v HP HT HE Hty), (encode_refines env sid v' HP HT HE Hty').
  exact (tvperm_put_len _ _ Hw).
Qed.

(* the same, spelled out: equal lengths, both parses well formed together *)
Corollary encode_order_len : forall env sid v v',
  enc_params_ok = true -> tables_ok = true -> env_ok env = true ->
  has_type env (TStruct sid) v = true ->
  vperm v v' ->
  len (append_struct env sid v) = len (append_struct env sid v')
  /\ wf (denote env (TStruct sid) v) = wf (denote env (TStruct sid) v').
Proof.
  intros env sid v v' HP HT HE Hty Hvv.
  assert (Hty' : has_type env (TStruct sid) v' = true)
    by (rewrite <- (vperm_has_type env v v' Hvv (TStruct sid)); exact Hty).
  pose proof (denote_perm env v v' Hvv (TStruct sid)) as Hw.
  rewrite (encode_refines env sid v HP HT HE Hty), (encode_refines env sid v' HP HT HE Hty').
  split; [exact (tvperm_put_len _ _ Hw)|exact (tvperm_wf _ _ Hw)].
Qed.

(* ------------------------------------------------------------------ *)
(* (4) round trip up to the order                                       *)
(* ------------------------------------------------------------------ *)

(* an entry after the round trip *)
Definition nentry (env : senv) (kt vt : ty) (kv : val * val) : val * val :=
  (norm env kt (fst kv) (zero_of env kt), norm env vt (snd kv) (zero_of env vt)).

(* In every map inside the written part of v the keys are still pairwise
   different after normalisation ([enum_fix] may merge enum keys that differ
   only above bit 31).  Then the decoder's SetMapIndex never overwrites. *)
Fixpoint keys_distinct (env : senv) (t : ty) (v : val) {struct v} : bool :=
  match v with
  | VS _ | VB _ _ => true
  | VL None | VM None | VP None => true
  | VL (Some l) => match t with TList _ e => forallb (keys_distinct env e) l | _ => true end
  | VM (Some m) =>
      match t with
      | TMap kt vt =>
          forallb (fun kv : val * val => keys_distinct env kt (fst kv) && keys_distinct env vt (snd kv)) m
          && keys_nodup kt (map (nentry env kt vt) m)
      | _ => true
      end
  | VP (Some v') => match t with TPtr t' => keys_distinct env t' v' | _ => true end
  | VT fs _ =>
      match t with
      | TStruct sid =>
          match lookup_sd env sid with
          | Some sd => fields_all (fun f v' => negb (emits f v') || keys_distinct env (fty f) v') (sfields sd) fs
          | None => true
          end
      | _ => true
      end
  end.

Lemma kd_VLs : forall env b e l, keys_distinct env (TList b e) (VL (Some l)) = forallb (keys_distinct env e) l.
Proof. reflexivity. Qed.
Lemma kd_VMs : forall env kt vt m, keys_distinct env (TMap kt vt) (VM (Some m)) =
  forallb (fun kv : val * val => keys_distinct env kt (fst kv) && keys_distinct env vt (snd kv)) m
  && keys_nodup kt (map (nentry env kt vt) m).
Proof. reflexivity. Qed.
Lemma kd_VPs : forall env t' v, keys_distinct env (TPtr t') (VP (Some v)) = keys_distinct env t' v.
Proof. reflexivity. Qed.
Lemma kd_VT : forall env sid fs h, keys_distinct env (TStruct sid) (VT fs h) =
  match lookup_sd env sid with
  | Some sd => fields_all (fun f v' => negb (emits f v') || keys_distinct env (fty f) v') (sfields sd) fs
  | None => true
  end.
Proof. reflexivity. Qed.

(* with distinct keys SetMapIndex appends *)
Lemma keys_nodup_app_head : forall kt acc x r, keys_nodup kt (acc ++ x :: r) = true ->
  existsb (fun kv : val * val => key_eq kt (fst kv) (fst x)) acc = false.
Proof.
  intros kt acc x r. induction acc as [|a acc IH]; intros H; [reflexivity|].
  cbn [app] in H. rewrite keys_nodup_cons in H. apply andb_true_iff in H. destruct H as [H1 H2].
  apply negb_true_iff in H1. rewrite existsb_app in H1. apply orb_false_iff in H1. destruct H1 as [_ H1].
  cbn [existsb] in H1. apply orb_false_iff in H1. destruct H1 as [H1 _].
  cbn [existsb]. rewrite H1, (IH H2). reflexivity.
Qed.

Lemma ainsert_fresh : forall kt acc k v,
  existsb (fun kv : val * val => key_eq kt (fst kv) k) acc = false -> ainsert kt acc k v = acc ++ [(k, v)].
Proof.
  intros kt acc k v. induction acc as [|[k' v'] acc IH]; intros H; [reflexivity|].
  cbn [existsb fst] in H. apply orb_false_iff in H. destruct H as [H1 H2].
  cbn [ainsert app]. rewrite H1, (IH H2). reflexivity.
Qed.

Lemma fold_ainsert_nodup : forall kt (F : val * val -> val * val) m acc,
  keys_nodup kt (acc ++ map F m) = true ->
  fold_left (fun acc kv => ainsert kt acc (fst (F kv)) (snd (F kv))) m acc = acc ++ map F m.
Proof.
  intros kt F. induction m as [|x r IH]; intros acc H.
  - cbn [map fold_left]. rewrite app_nil_r. reflexivity.
  - cbn [map fold_left]. cbn [map] in H.
    rewrite (ainsert_fresh kt acc _ _ (keys_nodup_app_head kt acc (F x) (map F r) H)).
    rewrite <- surjective_pairing.
    rewrite IH; rewrite <- app_assoc; [reflexivity|exact H].
Qed.

Lemma norm_VMs_nodup : forall env kt vt m p, keys_nodup kt (map (nentry env kt vt) m) = true ->
  norm env (TMap kt vt) (VM (Some m)) p = VM (Some (map (nentry env kt vt) m)).
Proof.
  intros env kt vt m p H. rewrite norm_VMs. f_equal. f_equal.
  exact (fold_ainsert_nodup kt (nentry env kt vt) m [] H).
Qed.

Lemma forallb_F2_r : forall (A B : Type) (R : A -> B -> Prop) (q : B -> bool) l l',
  Forall2 (fun a b => R a b /\ q b = true) l l' -> forallb q l' = true.
Proof.
  intros A B R q l l' HF. induction HF as [|a b l l' [_ Hb] _ IH]; [reflexivity|].
  cbn [forallb]. rewrite Hb, IH. reflexivity.
Qed.

Section NormPerm.
  Variable env : senv.

  (* order-independence of [norm], together with the invariance of its side condition *)
  Definition normp (a b : val) : Prop := forall t, keys_distinct env t a = true ->
    keys_distinct env t b = true /\ forall p, vperm (norm env t a p) (norm env t b p).

  Lemma norm_fields_perm : forall fs fs', Forall2 (fun a b => vperm a b /\ normp a b) fs fs' ->
    forall fds, fields_all (fun f v' => negb (emits f v') || keys_distinct env (fty f) v') fds fs = true ->
    fields_all (fun f v' => negb (emits f v') || keys_distinct env (fty f) v') fds fs' = true
    /\ forall ps, Forall2 vperm (norm_fields env fds fs ps) (norm_fields env fds fs' ps).
  Proof.
    intros fs fs' HF. induction HF as [|a b fs fs' [Tab Hab] _ IH]; intros fds Hkd.
    - split; [exact Hkd|]. intros ps. rewrite !norm_fields_nil. constructor.
    - destruct fds as [|f fr]; [discriminate Hkd|].
      cbn [fields_all] in Hkd. apply andb_true_iff in Hkd. destruct Hkd as [Ha Hkd].
      destruct (IH fr Hkd) as [IH1 IH2].
      rewrite (vperm_emits f a b Tab) in Ha.
      split.
      + cbn [fields_all]. rewrite IH1, andb_true_r.
        destruct (emits f b); [|reflexivity]. cbn [negb orb] in Ha |- *.
        exact (proj1 (Hab (fty f) Ha)).
      + intros [|p pr].
        * change (norm_fields env (f :: fr) (a :: fs) []) with (@nil val).
          change (norm_fields env (f :: fr) (b :: fs') []) with (@nil val). constructor.
        * rewrite !norm_fields_cons, (vperm_emits f a b Tab). constructor; [|exact (IH2 pr)].
          destruct (emits f b); [|apply vperm_refl]. cbn [negb orb] in Ha.
          exact (proj2 (Hab (fty f) Ha) p).
  Qed.

  Lemma norm_perm_gen : forall v v', vperm v v' -> normp v v'.
  Proof.
    intros v v' H.
    induction H as [x|n s| |l l' IH| |m m'' m' HP IH| |v v' Tv IH|fs fs' h IH] using vperm_ind';
      intros t Hkd; try (split; [exact Hkd|intros p; apply vperm_refl]).
    - (* slice *)
      assert (Hvv : vperm (VL (Some l)) (VL (Some l')))
        by (apply vperm_L; apply (F2_impl _ _ _ _ _ _ IH); intros a b [Hab _]; exact Hab).
      destruct t as [| | | | | | | | |b e| | |]; try (split; [reflexivity|intros p; exact Hvv]).
      rewrite kd_VLs in Hkd. rewrite forallb_forall in Hkd.
      assert (HF : Forall2 (fun a b => (forall p, vperm (norm env e a p) (norm env e b p))
                                       /\ keys_distinct env e b = true) l l').
      { apply (F2_impl_in _ _ _ _ _ _ IH). intros a c Ha _ [_ Hac].
        destruct (Hac e (Hkd a Ha)) as [H1 H2]. split; assumption. }
      split.
      + rewrite kd_VLs. exact (forallb_F2_r _ _ _ _ _ _ HF).
      + intros p. rewrite !norm_VLs. apply vperm_L. apply F2_map.
        apply (F2_impl _ _ _ _ _ _ HF). intros a c [Hac _]. exact (Hac _).
    - (* map *)
      assert (Hvv : vperm (VM (Some m)) (VM (Some m'))).
      { apply (vperm_M' m m'' m' HP). apply (F2_impl _ _ _ _ _ _ IH).
        intros a b [[Hk _] [Hv _]]. split; assumption. }
      destruct t as [| | | | | | | | | |kt vt| |]; try (split; [reflexivity|intros p; exact Hvv]).
      rewrite kd_VMs in Hkd. apply andb_true_iff in Hkd. destruct Hkd as [Hall Hnd].
      rewrite (forallb_perm _ _ m m'' HP) in Hall. rewrite forallb_forall in Hall.
      rewrite (keys_nodup_perm kt _ _ (Permutation_map (nentry env kt vt) HP)) in Hnd.
      assert (HF : Forall2 (fun a b => entry_rel vperm (nentry env kt vt a) (nentry env kt vt b)
                                       /\ keys_distinct env kt (fst b) && keys_distinct env vt (snd b) = true)
                           m'' m').
      { apply (F2_impl_in _ _ _ _ _ _ IH). intros a b Ha _ [[_ Hk] [_ Hv]].
        pose proof (Hall a Ha) as Hkv. apply andb_true_iff in Hkv. destruct Hkv as [Hka Hva].
        destruct (Hk kt Hka) as [Hk1 Hk2]. destruct (Hv vt Hva) as [Hv1 Hv2].
        split; [split; [exact (Hk2 _)|exact (Hv2 _)]|]. rewrite Hk1, Hv1. reflexivity. }
      assert (Hnd' : keys_nodup kt (map (nentry env kt vt) m') = true).
      { rewrite <- Hnd. symmetry. apply keys_nodup_F2. apply F2_map.
        apply (F2_impl _ _ _ _ _ _ HF). intros a b [[Hk _] _]. exact Hk. }
      split.
      + rewrite kd_VMs, Hnd', andb_true_r. exact (forallb_F2_r _ _ _ _ _ _ HF).
      + intros p.
        rewrite (norm_VMs_nodup env kt vt m p
                   ltac:(rewrite (keys_nodup_perm kt _ _ (Permutation_map (nentry env kt vt) HP)); exact Hnd)).
        rewrite (norm_VMs_nodup env kt vt m' p Hnd').
        apply (vperm_M' _ (map (nentry env kt vt) m'') _ (Permutation_map (nentry env kt vt) HP)).
        apply F2_map. apply (F2_impl _ _ _ _ _ _ HF). intros a b [Hab _]. exact Hab.
    - (* pointer *)
      destruct t as [| | | | | | | | | | | |t'];
        try (split; [reflexivity|intros p; apply vperm_P; exact Tv]).
      rewrite kd_VPs in Hkd. destruct (IH t' Hkd) as [H1 H2]. split; [rewrite kd_VPs; exact H1|].
      intros p. rewrite !norm_VPs. apply vperm_P. exact (H2 _).
    - (* struct *)
      assert (Hvv : vperm (VT fs h) (VT fs' h))
        by (apply vperm_T; apply (F2_impl _ _ _ _ _ _ IH); intros a b [Hab _]; exact Hab).
      destruct t as [| | | | | | | | | | |sid|]; try (split; [reflexivity|intros p; exact Hvv]).
      rewrite kd_VT in Hkd |- *.
      destruct (lookup_sd env sid) as [sd|] eqn:Hl;
        [|split; [reflexivity|intros p; rewrite !norm_VT, Hl; exact Hvv]].
      destruct (norm_fields_perm fs fs' IH (sfields sd) Hkd) as [H1 H2].
      split; [exact H1|]. intros p. rewrite !norm_VT, Hl.
      destruct (apply_init sd p) as [y|n s|ol|om|op|ps ph]; try exact Hvv.
      apply vperm_T. exact (H2 ps).
  Qed.
End NormPerm.

Theorem norm_perm : forall env v v' t p, vperm v v' -> keys_distinct env t v = true ->
  vperm (norm env t v p) (norm env t v' p).
Proof. intros env v v' t p H Hkd. exact (proj2 (norm_perm_gen env v v' H t Hkd) p). Qed.

Theorem vperm_keys_distinct : forall env v v' t, vperm v v' ->
  keys_distinct env t v = keys_distinct env t v'.
Proof.
  intros env v v' t H.
  destruct (keys_distinct env t v) eqn:E1.
  - symmetry. exact (proj1 (norm_perm_gen env v v' H t E1)).
  - destruct (keys_distinct env t v') eqn:E2; [|reflexivity].
    rewrite (proj1 (norm_perm_gen env v' v (vperm_sym v v' H) t E2)) in E1. discriminate E1.
Qed.

(* ------------------------------------------------------------------ *)
(* typed values whose enums fit 32 bits have distinct keys              *)
(* ------------------------------------------------------------------ *)

Lemma sext_low_enum32 : forall x, enum32 x = true -> sext32 (low32 x) = x.
Proof.
  intros x H. unfold enum32 in H. unfold sext32, low32.
  assert (E31 : 2 ^ 31 = 2147483648) by (vm_compute; reflexivity).
  assert (E32 : 2 ^ 32 = 4294967296) by (vm_compute; reflexivity).
  assert (E64 : 2 ^ 64 = 18446744073709551616) by (vm_compute; reflexivity).
  rewrite E31, E32, E64 in *. clear E31 E32 E64.
  apply orb_true_iff in H. destruct H as [H|H].
  - apply N.ltb_lt in H. rewrite N.mod_small by lia.
    destruct (x <? 2147483648) eqn:E; [reflexivity|]. apply N.ltb_ge in E. lia.
  - apply andb_true_iff in H. destruct H as [H1 H2]. apply N.leb_le in H1. apply N.ltb_lt in H2.
    assert (E : x mod 4294967296 = x - 18446744069414584320).
    { symmetry. apply (N.mod_unique x 4294967296 4294967295); lia. }
    rewrite E. destruct (x - 18446744069414584320 <? 2147483648) eqn:E2; [apply N.ltb_lt in E2; lia|lia].
Qed.

(* only scalars and strings can be equal keys; [norm] keeps the head constructor *)
Definition keylike (v : val) : bool := match v with VS _ | VB _ _ => true | _ => false end.

Lemma norm_keylike : forall env t v p, keylike (norm env t v p) = keylike v.
Proof.
  intros env t v p. destruct v as [x|n s|[l|]|[m|]|[v'|]|fs h]; try reflexivity.
  - destruct t; reflexivity.
  - destruct t; reflexivity.
  - destruct t; reflexivity.
  - destruct t as [| | | | | | | | | | | |t']; try reflexivity.
    destruct t' as [| | | | | | | | | | |sid|]; try reflexivity.
    rewrite norm_VPn. destruct (lookup_sd env sid); reflexivity.
  - destruct t as [| | | | | | | | | | |sid|]; try reflexivity.
    rewrite norm_VT. destruct (lookup_sd env sid) as [sd|]; [|reflexivity].
    destruct (apply_init sd p); reflexivity.
Qed.

Lemma key_eq_nonkey_l : forall kt a b, keylike a = false -> key_eq kt a b = false.
Proof. intros kt a b H. destruct a; try discriminate H; reflexivity. Qed.
Lemma key_eq_nonkey_r : forall kt a b, keylike b = false -> key_eq kt a b = false.
Proof. intros kt a b H. destruct a; destruct b; try discriminate H; reflexivity. Qed.

Lemma key_eq_norm : forall env kt a b p q,
  enums32 env kt a = true -> enums32 env kt b = true ->
  key_eq kt (norm env kt a p) (norm env kt b q) = key_eq kt a b.
Proof.
  intros env kt a b p q Ha Hb.
  destruct (keylike a) eqn:Ka.
  2: { rewrite !key_eq_nonkey_l; [reflexivity|exact Ka|rewrite norm_keylike; exact Ka]. }
  destruct (keylike b) eqn:Kb.
  2: { rewrite !key_eq_nonkey_r; [reflexivity|exact Kb|rewrite norm_keylike; exact Kb]. }
  destruct a as [x|n s| | | |]; try discriminate Ka; destruct b as [y|n' s'| | | |]; try discriminate Kb;
    rewrite ?norm_VS, ?norm_VB; try reflexivity.
  destruct kt; try reflexivity.
  cbn [enums32] in Ha, Hb. cbn [enum_fix].
  rewrite (sext_low_enum32 x Ha), (sext_low_enum32 y Hb). reflexivity.
Qed.

Lemma existsb_map_ext_in : forall (A B : Type) (F : A -> B) (p : B -> bool) (q : A -> bool) l,
  (forall a, In a l -> p (F a) = q a) -> existsb p (map F l) = existsb q l.
Proof.
  intros A B F p q l. induction l as [|a l IH]; intros H; [reflexivity|].
  cbn [map existsb]. rewrite (H a (or_introl eq_refl)), IH; [reflexivity|].
  intros x Hx. apply H. right. exact Hx.
Qed.

Lemma keys_nodup_nentry : forall env kt vt m,
  forallb (fun kv : val * val => enums32 env kt (fst kv) && enums32 env vt (snd kv)) m = true ->
  keys_nodup kt (map (nentry env kt vt) m) = keys_nodup kt m.
Proof.
  intros env kt vt. induction m as [|kv m IH]; intros H; [reflexivity|].
  cbn [forallb] in H. apply andb_true_iff in H. destruct H as [Hkv H].
  apply andb_true_iff in Hkv. destruct Hkv as [Hk _].
  cbn [map]. rewrite !keys_nodup_cons, (IH H). f_equal. f_equal.
  apply existsb_map_ext_in. intros a Ha. unfold nentry. cbn [fst].
  rewrite forallb_forall in H. pose proof (H a Ha) as Hka. apply andb_true_iff in Hka.
  exact (key_eq_norm env kt (fst kv) (fst a) _ _ Hk (proj1 Hka)).
Qed.

Theorem typed_keys_distinct : forall env v t,
  has_type env t v = true -> enums32 env t v = true -> keys_distinct env t v = true.
Proof.
  intros env.
  induction v as [x|n s| |l IH| |m IH| |v IH|fs h IH] using val_ind'; intros t Hty He; try reflexivity.
  - destruct t as [| | | | | | | | |b e| | |]; try reflexivity.
    rewrite has_type_VL in Hty. apply andb_true_iff in Hty. destruct Hty as [Hall _].
    rewrite enums32_VLs in He. rewrite kd_VLs.
    rewrite forallb_forall in Hall, He. rewrite Forall_forall in IH.
    apply forallb_forall. intros x Hx. exact (IH x Hx e (Hall x Hx) (He x Hx)).
  - destruct t as [| | | | | | | | | |kt vt| |]; try reflexivity.
    rewrite has_type_VM in Hty. apply andb_true_iff in Hty. destruct Hty as [Hty Hnd].
    apply andb_true_iff in Hty. destruct Hty as [Hall _].
    rewrite enums32_VMs in He. rewrite kd_VMs, (keys_nodup_nentry env kt vt m He), Hnd, andb_true_r.
    rewrite forallb_forall in Hall, He. rewrite Forall_forall in IH.
    apply forallb_forall. intros kv Hkv. destruct (IH kv Hkv) as [IHk IHv].
    pose proof (Hall kv Hkv) as H1. apply andb_true_iff in H1. destruct H1 as [Htk Htv].
    pose proof (He kv Hkv) as H2. apply andb_true_iff in H2. destruct H2 as [Hek Hev].
    rewrite (IHk kt Htk Hek), (IHv vt Htv Hev). reflexivity.
  - destruct t as [| | | | | | | | | | | |t']; try reflexivity.
    rewrite has_type_VP in Hty. rewrite enums32_VPs in He. rewrite kd_VPs. exact (IH t' Hty He).
  - destruct t as [| | | | | | | | | | |sid|]; try reflexivity.
    rewrite has_type_VT in Hty. rewrite enums32_VT in He. rewrite kd_VT.
    destruct (lookup_sd env sid) as [sd|]; [|reflexivity].
    apply andb_true_iff in Hty. destruct Hty as [Hty _].
    apply andb_true_iff in Hty. destruct Hty as [Hall _].
    revert Hall He. generalize (sfields sd). clear -IH.
    induction IH as [|x fs Hx _ IHfs]; intros fds Hall He.
    + destruct fds; [reflexivity|discriminate Hall].
    + destruct fds as [|f fr]; [discriminate Hall|].
      cbn [fields_all] in Hall, He |- *.
      apply andb_true_iff in Hall. destruct Hall as [H1 Hall].
      apply andb_true_iff in He. destruct He as [H2 He].
      rewrite (Hx (fty f) H1 H2), orb_true_r, (IHfs fr Hall He). reflexivity.
Qed.

(* ------------------------------------------------------------------ *)
(* the round trip                                                       *)
(* ------------------------------------------------------------------ *)

(* The general form: the value may violate [enums32] as long as the
   normalised keys of each map stay distinct. *)
Theorem roundtrip_up_to_order_gen : forall env pool sid v v' rest,
  dec_params_ok = true -> depth_odd_ok = true -> tables_ok = true -> env_ok env = true -> init_ok env = true ->
  has_type env (TStruct sid) v = true -> Spec.holders_empty v = true ->
  req_complete env (TStruct sid) v = true ->
  (2 * vdepth v + 1 <= S (N.to_nat maxDepthLimit))%nat ->
  keys_distinct env (TStruct sid) v = true ->
  vperm v v' ->
  exists r',
    decode_object env pool sid (append_struct env sid v' ++ rest) (fresh env sid)
    = DOk (r', len (append_struct env sid v')) rest
    /\ r' = norm_top env sid v'
    /\ vperm (norm_top env sid v) r'.
Proof.
  intros env pool sid v v' rest HP HO HT HE HI Hty Hh Hr Hd Hkd Hvv.
  exists (norm_top env sid v'). split; [|split; [reflexivity|]].
  - apply roundtrip_gen; try assumption.
    + rewrite <- (vperm_has_type env v v' Hvv (TStruct sid)). exact Hty.
    + rewrite <- (vperm_holders_empty v v' Hvv). exact Hh.
    + rewrite <- (vperm_req_complete env v v' Hvv (TStruct sid)). exact Hr.
    + rewrite <- (vperm_vdepth v v' Hvv). exact (odd_budget _ HO Hd).
  - unfold norm_top. exact (norm_perm env v v' (TStruct sid) (fresh env sid) Hvv Hkd).
Qed.

(* Under the hypotheses of [roundtrip] nothing more is needed. *)
Theorem roundtrip_up_to_order : forall env pool sid v v' rest,
  dec_params_ok = true -> depth_odd_ok = true -> tables_ok = true -> env_ok env = true -> init_ok env = true ->
  has_type env (TStruct sid) v = true -> Spec.holders_empty v = true ->
  enums32 env (TStruct sid) v = true -> req_complete env (TStruct sid) v = true ->
  (2 * vdepth v + 1 <= S (N.to_nat maxDepthLimit))%nat ->
  vperm v v' ->
  exists r',
    decode_object env pool sid (append_struct env sid v' ++ rest) (fresh env sid)
    = DOk (r', len (append_struct env sid v')) rest
    /\ vperm (norm_top env sid v) r'.
Proof.
  intros env pool sid v v' rest HP HO HT HE HI Hty Hh He Hr Hd Hvv.
  destruct (roundtrip_up_to_order_gen env pool sid v v' rest HP HO HT HE HI Hty Hh Hr Hd
              (typed_keys_distinct env v (TStruct sid) Hty He) Hvv) as (r' & H1 & _ & H2).
  exists r'. split; assumption.
Qed.

(* the reference decoder on the reference encoding, same statement *)
Theorem absorb_denote_up_to_order : forall env sid v v',
  enc_params_ok = true -> env_ok env = true -> init_ok env = true ->
  has_type env (TStruct sid) v = true -> req_complete env (TStruct sid) v = true ->
  keys_distinct env (TStruct sid) v = true ->
  vperm v v' ->
  exists r', absorb_top env sid (denote env (TStruct sid) v') (fresh env sid) = AOk r'
             /\ vperm (norm_top env sid v) r'.
Proof.
  intros env sid v v' HP HE HI Hty Hr Hkd Hvv.
  exists (norm_top env sid v'). split.
  - apply absorb_top_denote; try assumption.
    + rewrite <- (vperm_has_type env v v' Hvv (TStruct sid)). exact Hty.
    + rewrite <- (vperm_req_complete env v v' Hvv (TStruct sid)). exact Hr.
  - unfold norm_top. exact (norm_perm env v v' (TStruct sid) (fresh env sid) Hvv Hkd).
Qed.

(* ------------------------------------------------------------------ *)
(* (5) instances                                                        *)
(* ------------------------------------------------------------------ *)

Import Frugal.props.Examples.

(* [v_ex] of props/Examples.v with the two entries of its map<string,i64>
   visited in the other order *)
Definition v_ex_swapped : val :=
  VT [ VS 7; VB false [104; 105];
       VL (Some [VP (Some (VT [VS 4614253070214989087; VB false [1; 2]; VS 7] []));
                 VP (Some (VT [VS 9221120237041090561; VB true []; VS 65535] []))]);
       VM (Some [(VB false [], VS 18446744073709551615); (VB false [107], VS 5)]);
       VS 18446744073709551615;
       VP (Some v_inner);
       VL (Some [VS 9223372036854775808; VS 0]) ] [].

Example ex_vperm : vperm v_ex v_ex_swapped.
Proof.
  unfold v_ex, v_ex_swapped. apply vperm_T.
  repeat (apply Forall2_cons || apply Forall2_nil); try apply vperm_refl.
  apply (vperm_M' _ [(VB false [], VS 18446744073709551615); (VB false [107], VS 5)] _).
  - apply perm_swap.
  - repeat (apply Forall2_cons || apply Forall2_nil); split; apply vperm_refl.
Qed.

(* the hypotheses hold, the two messages differ, and they have the same length *)
Example ex_two_orders :
  enc_params_ok = true /\ tables_ok = true /\ env_ok env_ex = true /\ init_ok env_ex = true
  /\ has_type env_ex (TStruct 0) v_ex = true /\ Spec.holders_empty v_ex = true
  /\ enums32 env_ex (TStruct 0) v_ex = true /\ req_complete env_ex (TStruct 0) v_ex = true
  /\ (2 * vdepth v_ex + 1 <= S (N.to_nat maxDepthLimit))%nat
  /\ keys_distinct env_ex (TStruct 0) v_ex = true
  /\ vperm v_ex v_ex_swapped
  /\ v_ex <> v_ex_swapped
  /\ append_struct env_ex 0 v_ex <> append_struct env_ex 0 v_ex_swapped
  /\ len (append_struct env_ex 0 v_ex) = len (append_struct env_ex 0 v_ex_swapped)
  /\ encoded_size env_ex 0 v_ex = encoded_size env_ex 0 v_ex_swapped.
Proof.
  split; [exact GenEncParams.enc_params_ok_holds|]. split; [exact GenTables.tables_ok_holds|].
  repeat split; try (vm_compute; reflexivity); try exact ex_vperm.
  - vm_compute. repeat constructor.
  - intros H. vm_compute in H. discriminate H.
  - intros H. vm_compute in H. discriminate H.
Qed.

(* the theorems applied to it (the round trip: proofs/MapOrderEx.v, which
   needs the decoder's side conditions) *)
Lemma ex_params : enc_params_ok = true /\ tables_ok = true.
Proof. exact (conj GenEncParams.enc_params_ok_holds GenTables.tables_ok_holds). Qed.

Example ex_encode_order :
  exists w w', append_struct env_ex 0 v_ex = put w /\ append_struct env_ex 0 v_ex_swapped = put w'
               /\ tvperm w w' /\ encoded_size env_ex 0 v_ex = encoded_size env_ex 0 v_ex_swapped.
Proof.
  exact (encode_order_immaterial env_ex 0 v_ex v_ex_swapped (proj1 ex_params) (proj2 ex_params)
           (proj1 ex_env) ex_typed ex_vperm).
Qed.

(* ... and the decoded values do differ as lists: the result is not simply [norm_top v_ex] *)
Example ex_roundtrip_differs : norm_top env_ex 0 v_ex <> norm_top env_ex 0 v_ex_swapped.
Proof. intros H. vm_compute in H. discriminate H. Qed.

(* [keys_distinct] is needed: two enum keys that agree on their low 32 bits
   are different Go keys, well typed, but the wire carries an i32, so the
   decoder sees the same key twice and the later entry wins -- which one
   that is depends on the order.  ([enums32] excludes this.) *)
Definition env_enum : senv := [mkSdesc [mkField 1 (TMap TEnum TI64) RDefault false None] false None].
Definition v_enum : val := VT [VM (Some [(VS 1, VS 10); (VS 4294967297, VS 20)])] [].
Definition v_enum' : val := VT [VM (Some [(VS 4294967297, VS 20); (VS 1, VS 10)])] [].

Lemma not_vperm_enum :
  ~ vperm (VT [VM (Some [(VS 1, VS 20)])] []) (VT [VM (Some [(VS 1, VS 10)])] []).
Proof.
  intros H. destruct (vperm_VT_inv _ _ _ H) as (fs' & E & HF). injection E as E. subst fs'.
  inversion HF as [|a b l l' Hab _ E1 E2]. subst.
  destruct (vperm_VM_inv _ _ Hab) as (m'' & m' & E & HP & HF2). injection E as E. subst m'.
  apply Permutation_length_1_inv in HP. subst m''.
  inversion HF2 as [|a b l l' [_ Hv] _ E1 E2]. subst. cbn [snd] in Hv. inversion Hv.
Qed.

Example order_matters_without_keys_distinct :
  env_ok env_enum = true /\ init_ok env_enum = true
  /\ has_type env_enum (TStruct 0) v_enum = true /\ Spec.holders_empty v_enum = true
  /\ req_complete env_enum (TStruct 0) v_enum = true
  /\ vperm v_enum v_enum'
  /\ keys_distinct env_enum (TStruct 0) v_enum = false /\ enums32 env_enum (TStruct 0) v_enum = false
  /\ decode_object env_enum [] 0 (append_struct env_enum 0 v_enum) (fresh env_enum 0)
     = DOk (VT [VM (Some [(VS 1, VS 20)])] [], len (append_struct env_enum 0 v_enum)) []
  /\ decode_object env_enum [] 0 (append_struct env_enum 0 v_enum') (fresh env_enum 0)
     = DOk (VT [VM (Some [(VS 1, VS 10)])] [], len (append_struct env_enum 0 v_enum')) []
  /\ norm_top env_enum 0 v_enum = VT [VM (Some [(VS 1, VS 20)])] []
  /\ ~ vperm (VT [VM (Some [(VS 1, VS 20)])] []) (VT [VM (Some [(VS 1, VS 10)])] []).
Proof.
  repeat split; try (vm_compute; reflexivity); try exact not_vperm_enum.
  unfold v_enum, v_enum'. apply vperm_T. constructor; [|constructor].
  apply (vperm_M' _ [(VS 4294967297, VS 20); (VS 1, VS 10)] _).
  - apply perm_swap.
  - repeat (apply Forall2_cons || apply Forall2_nil); split; apply vperm_refl.
Qed.

Print Assumptions vperm_refl.
Print Assumptions vperm_sym.
Print Assumptions vperm_trans.
Print Assumptions tvperm_refl.
Print Assumptions tvperm_sym.
Print Assumptions tvperm_trans.
Print Assumptions denote_perm.
Print Assumptions tvperm_put_len.
Print Assumptions tvperm_wf.
Print Assumptions vperm_has_type.
Print Assumptions vperm_holders_empty.
Print Assumptions vperm_enums32.
Print Assumptions vperm_req_complete.
Print Assumptions vperm_vdepth.
Print Assumptions vperm_keys_distinct.
Print Assumptions encode_order_immaterial.
Print Assumptions encode_order_len.
Print Assumptions norm_perm.
Print Assumptions typed_keys_distinct.
Print Assumptions roundtrip_up_to_order_gen.
Print Assumptions roundtrip_up_to_order.
Print Assumptions absorb_denote_up_to_order.
Print Assumptions ex_two_orders.
Print Assumptions order_matters_without_keys_distinct.
