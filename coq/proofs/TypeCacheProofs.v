(* TypeCacheProofs.v -- the process-wide cache of type nodes (TypeCache.v) is
   transparent when its key is made of both the printed Thrift type and the
   Go type, and is not when the printed type is left out.

     gotype_eqb_eq / key_eqb_eq    the boolean equalities decide equality
     dt_string_inj_suffix / dt_string_inj
                                   for one Go type, the printed string
                                   determines the parsed type (no assumption
                                   on struct names: the Go types are equal)
     node_ty_of / node_wire_of     the node carries the schema type and the wire tag
     new_ttype_consistent          [cache_consistent] is preserved and the node
                                   returned is [node_of vt d]
     fresh_node_of                 ... in particular from the empty cache
     cache_transparent             every call history: each request gets the
                                   node a fresh process would give it
     cache_transparent_ty          ... whose schema type is ty_of d
     cache_key_ok_full             from the per-run obligation to hasT = hasS = true
     cache_opaque_without_T / _S   the seeded defects, on the model *)
From Coq Require Import List NArith Bool Lia.
From Frugal Require Import Bytes Values Desc Tags TypeCache CacheChecks.
From Frugal.gen Require Import CacheKey.
From Frugal.proofs Require Import TagsProofs TagsStruct.
Import ListNotations.
Open Scope N_scope.

(* ------------------------------------------------------------------ *)
(* 1. equality on Go types and on keys                                  *)
(* ------------------------------------------------------------------ *)

Lemma gotype_eqb_refl : forall a, gotype_eqb a a = true.
Proof.
  induction a as [ | | | | |name| | |e IHe|k IHk v IHv|e IHe|sid name| |kind];
    cbn [gotype_eqb]; try reflexivity.
  - apply str_eqb_refl.
  - exact IHe.
  - rewrite IHk, IHv. reflexivity.
  - exact IHe.
  - rewrite N.eqb_refl, str_eqb_refl. reflexivity.
  - apply N.eqb_refl.
Qed.

Lemma gotype_eqb_true : forall a b, gotype_eqb a b = true -> a = b.
Proof.
  induction a as [ | | | | |name| | |e IHe|k IHk v IHv|e IHe|sid name| |kind];
    intros b H; destruct b; cbn [gotype_eqb] in H; try discriminate H; try reflexivity.
  - apply str_eqb_eq in H. subst. reflexivity.
  - apply IHe in H. subst. reflexivity.
  - apply andb_true_iff in H. destruct H as [Hk Hv].
    apply IHk in Hk. apply IHv in Hv. subst. reflexivity.
  - apply IHe in H. subst. reflexivity.
  - apply andb_true_iff in H. destruct H as [Hs Hn].
    apply N.eqb_eq in Hs. apply str_eqb_eq in Hn. subst. reflexivity.
  - apply N.eqb_eq in H. subst. reflexivity.
Qed.

Lemma gotype_eqb_eq : forall a b, gotype_eqb a b = true <-> a = b.
Proof.
  intros a b. split; [apply gotype_eqb_true|]. intros ->. apply gotype_eqb_refl.
Qed.

Lemma key_eqb_eq : forall a b : ckey_t, key_eqb a b = true <-> a = b.
Proof.
  intros [ta sa] [tb sb]. unfold key_eqb. cbn [fst snd]. split.
  - intros H. apply andb_true_iff in H. destruct H as [Ht Hs].
    apply str_eqb_eq in Ht. subst tb.
    destruct sa as [x|], sb as [y|]; try discriminate Hs; [|reflexivity].
    apply gotype_eqb_true in Hs. subst. reflexivity.
  - intros H. injection H as <- <-. rewrite str_eqb_refl. cbn [andb].
    destruct sa as [x|]; [apply gotype_eqb_refl|reflexivity].
Qed.

Lemma key_eqb_refl : forall a, key_eqb a a = true.
Proof. intros a. apply key_eqb_eq. reflexivity. Qed.

Lemma key_eq_dec : forall a b : ckey_t, {a = b} + {a <> b}.
Proof.
  intros a b. destruct (key_eqb a b) eqn:E.
  - left. apply key_eqb_eq. exact E.
  - right. intros H. apply key_eqb_eq in H. congruence.
Qed.

(* ------------------------------------------------------------------ *)
(* 2. the children of a shaped pair are shaped pairs of smaller Go types *)
(* ------------------------------------------------------------------ *)

Fixpoint gsize (vt : gotype) : nat :=
  match vt with
  | GSlice e => S (gsize e)
  | GMap k v => S (gsize k + gsize v)
  | GPtr e => S (gsize e)
  | _ => 1%nat
  end.

Lemma gsize_pos : forall vt, (1 <= gsize vt)%nat.
Proof. intros vt. destruct vt; cbn [gsize]; lia. Qed.

Lemma shape_sub_k : forall vt d kd,
  go_shape vt d -> dt_k d = Some kd -> go_shape (sub_k vt) kd /\ (gsize (sub_k vt) < gsize vt)%nat.
Proof.
  intros vt d kd Hs Hk.
  destruct vt as [ | | | | |name| | |e|k v|e|sid name| |kind];
    cbn [go_shape tag0_of tag1_of sid_of] in Hs;
    try (destruct Hs as [-> | ->]; discriminate Hk); try contradiction.
  - destruct (uint8_dec e) as [-> | Hne].
    + subst d. discriminate Hk.
    + change (go_shape (GSlice e) d) in Hs. rewrite go_shape_slice in Hs by exact Hne.
      destruct Hs as (d' & b & -> & _). discriminate Hk.
  - destruct Hs as (kd' & vd & -> & Hsk & _). cbn [dt_k] in Hk. injection Hk as <-.
    cbn [sub_k gsize]. split; [exact Hsk | lia].
  - destruct Hs as (d' & -> & _). discriminate Hk.
Qed.

Lemma shape_sub_v : forall vt d vd,
  go_shape vt d -> dt_v d = Some vd -> go_shape (sub_v vt) vd /\ (gsize (sub_v vt) < gsize vt)%nat.
Proof.
  intros vt d vd Hs Hv.
  destruct vt as [ | | | | |name| | |e|k v|e|sid name| |kind];
    cbn [go_shape tag0_of tag1_of sid_of] in Hs;
    try (destruct Hs as [-> | ->]; discriminate Hv); try contradiction.
  - destruct (uint8_dec e) as [-> | Hne].
    + subst d. discriminate Hv.
    + change (go_shape (GSlice e) d) in Hs. rewrite go_shape_slice in Hs by exact Hne.
      destruct Hs as (d' & b & -> & Hse & _). cbn [dt_v] in Hv. injection Hv as <-.
      cbn [sub_v gsize]. split; [exact Hse | lia].
  - destruct Hs as (kd & vd' & -> & _ & Hsv & _). cbn [dt_v] in Hv. injection Hv as <-.
    cbn [sub_v gsize]. split; [exact Hsv | lia].
  - destruct Hs as (d' & -> & Hse & _). cbn [dt_v] in Hv. injection Hv as <-.
    cbn [sub_v gsize]. split; [exact Hse | lia].
Qed.

(* ------------------------------------------------------------------ *)
(* 3. Type.String() is injective on the parses of one Go type           *)
(* ------------------------------------------------------------------ *)

Lemma dt_string_leaf : forall vt t sid,
  dt_string vt (DT t None None sid) =
  match t with
  | DBool => s_bool | DI8 => s_i8 | DDouble => s_double | DI16 => s_i16 | DI32 => s_i32
  | DI64 => s_i64 | DString => s_string | DStruct => go_name vt | DEnum => s_enum
  | DBinary => s_binary | _ => []
  end.
Proof. intros vt t sid. destruct t; reflexivity. Qed.

Lemma dt_string_map : forall k v kd vd s r,
  dt_string (GMap k v) (DT DMap (Some kd) (Some vd) s) ++ r =
  s_map_lt ++ dt_string k kd ++ c_colon :: dt_string v vd ++ c_gt :: r.
Proof.
  intros k v kd vd s r. cbn [dt_string sub_k sub_v].
  rewrite <- !app_assoc. cbn [app]. rewrite <- !app_assoc. reflexivity.
Qed.

Lemma dt_string_coll : forall e (b : bool) d s r,
  dt_string (GSlice e) (DT (if b then DSet else DList) None (Some d) s) ++ r =
  (if b then s_set_lt else s_list_lt) ++ dt_string e d ++ c_gt :: r.
Proof.
  intros e b d s r. destruct b; cbn [dt_string sub_v];
    rewrite <- !app_assoc; reflexivity.
Qed.

Lemma dt_string_ptr : forall e d s r,
  dt_string (GPtr e) (DT DPointer None (Some d) s) ++ r = c_star :: dt_string e d ++ r.
Proof. intros e d s r. reflexivity. Qed.

(* with arbitrary continuations, as the map case needs it *)
Lemma dt_string_inj_suffix : forall vt d d' r r',
  go_shape vt d -> go_shape vt d' ->
  dt_string vt d ++ r = dt_string vt d' ++ r' -> d = d' /\ r = r'.
Proof.
  induction vt as [ | | | | |name| | |e IHe|k IHk v IHv|e IHe|sid name| |kind];
    intros d d' r r' Hs Hs' Heq; cbn [go_shape] in Hs, Hs'; try contradiction;
    (* kinds with one parse only (bool .. string, struct): the same string on both sides *)
    try (cbn [tag0_of tag1_of sid_of] in Hs, Hs';
         destruct Hs as [-> | ->]; destruct Hs' as [-> | ->];
         (split; [reflexivity | exact (app_inv_head _ _ _ Heq)]); fail).
  - (* int64, possibly named: "i64" or "enum" *)
    destruct name as [|c w]; cbn [tag0_of tag1_of sid_of] in Hs, Hs';
      destruct Hs as [-> | ->]; destruct Hs' as [-> | ->];
      try (split; [reflexivity | exact (app_inv_head _ _ _ Heq)]);
      rewrite !dt_string_leaf in Heq; unfold s_i64, s_enum in Heq; cbn [app] in Heq;
      discriminate Heq.
  - (* slice: binary, or "set<" / "list<" *)
    destruct (uint8_dec e) as [-> | Hne].
    + subst d d'. split; [reflexivity | exact (app_inv_head _ _ _ Heq)].
    + change (go_shape (GSlice e) d) in Hs. change (go_shape (GSlice e) d') in Hs'.
      rewrite go_shape_slice in Hs, Hs' by exact Hne.
      destruct Hs as (d1 & b & -> & Hs1 & _). destruct Hs' as (d1' & b' & -> & Hs1' & _).
      rewrite !dt_string_coll in Heq.
      destruct b, b'; unfold s_set_lt, s_list_lt in Heq; cbn [app] in Heq;
        try discriminate Heq.
      * injection Heq as Heq. destruct (IHe _ _ _ _ Hs1 Hs1' Heq) as [-> Hr].
        injection Hr as ->. split; reflexivity.
      * injection Heq as Heq. destruct (IHe _ _ _ _ Hs1 Hs1' Heq) as [-> Hr].
        injection Hr as ->. split; reflexivity.
  - (* map *)
    destruct Hs as (kd & vd & -> & Hsk & Hsv & _). destruct Hs' as (kd' & vd' & -> & Hsk' & Hsv' & _).
    rewrite !dt_string_map in Heq. apply app_inv_head in Heq.
    destruct (IHk _ _ _ _ Hsk Hsk' Heq) as [-> Hr]. injection Hr as Hr.
    destruct (IHv _ _ _ _ Hsv Hsv' Hr) as [-> Hr2]. injection Hr2 as ->.
    split; reflexivity.
  - (* pointer *)
    destruct Hs as (d1 & -> & Hs1 & _). destruct Hs' as (d1' & -> & Hs1' & _).
    rewrite !dt_string_ptr in Heq. injection Heq as Heq.
    destruct (IHe _ _ _ _ Hs1 Hs1' Heq) as [-> ->]. split; reflexivity.
Qed.

Theorem dt_string_inj : forall vt d d',
  go_shape vt d -> go_shape vt d' -> dt_string vt d = dt_string vt d' -> d = d'.
Proof.
  intros vt d d' Hs Hs' Heq.
  apply (dt_string_inj_suffix vt d d' [] [] Hs Hs'). rewrite !app_nil_r. exact Heq.
Qed.

Corollary ckey_full_inj : forall vt d vt' d',
  go_shape vt d -> go_shape vt' d' ->
  ckey true true vt d = ckey true true vt' d' -> vt = vt' /\ d = d'.
Proof.
  intros vt d vt' d' Hs Hs' Hk. unfold ckey in Hk. injection Hk as Ht Hv. subst vt'.
  split; [reflexivity | exact (dt_string_inj vt d d' Hs Hs' Ht)].
Qed.

(* ------------------------------------------------------------------ *)
(* 4. what a node carries                                               *)
(* ------------------------------------------------------------------ *)

Lemma node_of_eq : forall vt d,
  node_of vt d = Node (dt_tag d) vt (option_map (node_of (sub_k vt)) (dt_k d))
                                    (option_map (node_of (sub_v vt)) (dt_v d)).
Proof. intros vt d. destruct d as [t [k|] [v|] s]; reflexivity. Qed.

Lemma node_of_not_open : forall vt d, node_of vt d <> NOpen.
Proof. intros vt d. rewrite node_of_eq. discriminate. Qed.

(* the schema type of the codec is read off the node *)
Theorem node_ty_of : forall vt d, go_shape vt d -> node_ty (node_of vt d) = ty_of d.
Proof.
  induction vt as [ | | | | |name| | |e IHe|k IHk v IHv|e IHe|sid name| |kind];
    intros d Hs; cbn [go_shape] in Hs; try contradiction;
    try (cbn [tag0_of tag1_of sid_of] in Hs; destruct Hs as [-> | ->]; reflexivity).
  - destruct (uint8_dec e) as [-> | Hne].
    + subst d. reflexivity.
    + change (go_shape (GSlice e) d) in Hs. rewrite go_shape_slice in Hs by exact Hne.
      destruct Hs as (d1 & b & -> & Hs1 & _).
      destruct b; cbn [node_of node_ty ty_of sub_v]; rewrite (IHe _ Hs1); reflexivity.
  - destruct Hs as (kd & vd & -> & Hsk & Hsv & _).
    cbn [node_of node_ty ty_of sub_k sub_v]. rewrite (IHk _ Hsk), (IHv _ Hsv). reflexivity.
  - destruct Hs as (d1 & -> & Hs1 & _).
    cbn [node_of node_ty ty_of sub_v]. rewrite (IHe _ Hs1). reflexivity.
Qed.

(* ... and so is the wire tag (t.T / t.WT of the Go node) *)
Theorem node_wire_of : forall vt d, go_shape vt d -> node_wire (node_of vt d) = d_wire d.
Proof.
  induction vt as [ | | | | |name| | |e IHe|k IHk v IHv|e IHe|sid name| |kind];
    intros d Hs; cbn [go_shape] in Hs; try contradiction;
    try (cbn [tag0_of tag1_of sid_of] in Hs; destruct Hs as [-> | ->]; reflexivity).
  - destruct (uint8_dec e) as [-> | Hne].
    + subst d. reflexivity.
    + change (go_shape (GSlice e) d) in Hs. rewrite go_shape_slice in Hs by exact Hne.
      destruct Hs as (d1 & b & -> & _). destruct b; reflexivity.
  - destruct Hs as (kd & vd & -> & _). reflexivity.
  - destruct Hs as (d1 & -> & Hs1 & _).
    cbn [node_of node_wire d_wire sub_v]. exact (IHe _ Hs1).
Qed.

(* ------------------------------------------------------------------ *)
(* 5. the cache with the full key                                       *)
(* ------------------------------------------------------------------ *)

Lemma new_ttype_eq : forall hasT hasS c vt d,
  new_ttype hasT hasS c vt d =
  let key := ckey hasT hasS vt d in
  match lookup key c with
  | Some n => (c, n)
  | None =>
      let r1 := new_opt hasT hasS ((key, NOpen) :: c) (sub_k vt) (dt_k d) in
      let r2 := new_opt hasT hasS (fst r1) (sub_v vt) (dt_v d) in
      let n := Node (dt_tag d) vt (snd r1) (snd r2) in
      (fill key n (fst r2), n)
  end.
Proof.
  intros hasT hasS c vt d. destruct d as [t k v s].
  cbn [new_ttype dt_k dt_v dt_tag]. cbv zeta.
  destruct (lookup (ckey hasT hasS vt (DT t k v s)) c) as [n|]; [reflexivity|].
  destruct k as [k'|]; destruct v as [v'|]; unfold new_opt; cbn [fst snd].
  - destruct (new_ttype hasT hasS _ (sub_k vt) k') as [c1 kn]. cbn [fst snd].
    destruct (new_ttype hasT hasS c1 (sub_v vt) v') as [c2 vn]. reflexivity.
  - destruct (new_ttype hasT hasS _ (sub_k vt) k') as [c1 kn]. reflexivity.
  - destruct (new_ttype hasT hasS _ (sub_v vt) v') as [c2 vn]. reflexivity.
  - reflexivity.
Qed.

Lemma lookup_in : forall key c n, lookup key c = Some n -> In (key, n) c.
Proof.
  intros key c n. induction c as [|[k m] c IH]; cbn [lookup]; intros H; [discriminate H|].
  destruct (key_eqb key k) eqn:E.
  - injection H as ->. apply key_eqb_eq in E. subst k. left. reflexivity.
  - right. exact (IH H).
Qed.

Lemma in_fill : forall key n c k m,
  In (k, m) (fill key n c) ->
  (k = key /\ m = n) \/ (k <> key /\ In (k, m) c).
Proof.
  intros key n c k m H. unfold fill in H. apply in_map_iff in H.
  destruct H as ([k0 m0] & He & Hin). cbn [fst] in He.
  destruct (key_eqb k0 key) eqn:E.
  - injection He as <- <-. left. split; reflexivity.
  - injection He as <- <-. right. split; [|exact Hin].
    intros ->. rewrite key_eqb_refl in E. discriminate E.
Qed.

(* every finished entry is the node of a shaped pair with that key; entries
   still open belong to calls in progress *)
Definition closed_ok (c : cache) : Prop :=
  forall key n, In (key, n) c ->
    n = NOpen \/ exists vt d, go_shape vt d /\ key = ckey true true vt d /\ n = node_of vt d.

(* the calls in progress are on Go types of size at least m *)
Definition opens_ge (m : nat) (c : cache) : Prop :=
  forall key, In (key, NOpen) c -> exists g, snd key = Some g /\ (m <= gsize g)%nat.

(* between calls: no open entries *)
Definition cache_consistent (c : cache) : Prop :=
  forall key n, In (key, n) c ->
    exists vt d, go_shape vt d /\ key = ckey true true vt d /\ n = node_of vt d.

Lemma opens_ge_mono : forall m m' c, (m' <= m)%nat -> opens_ge m c -> opens_ge m' c.
Proof.
  intros m m' c Hle Ho key Hin. destruct (Ho key Hin) as (g & Hg & Hm).
  exists g. split; [exact Hg | lia].
Qed.

Section FullKey.

  (* the statement for one call, with calls in progress around it *)
  Definition call_ok (c : cache) (vt : gotype) (d : dtype) : Prop :=
    snd (new_ttype true true c vt d) = node_of vt d /\
    closed_ok (fst (new_ttype true true c vt d)) /\
    (forall key, In (key, NOpen) (fst (new_ttype true true c vt d)) -> In (key, NOpen) c).

  Lemma new_opt_ok : forall m b c g od,
    (forall vt d c, (gsize vt <= m)%nat -> go_shape vt d -> closed_ok c ->
                    opens_ge (S (gsize vt)) c -> call_ok c vt d) ->
    (forall x, od = Some x -> go_shape g x /\ (gsize g <= m)%nat /\ (S (gsize g) <= b)%nat) ->
    closed_ok c -> opens_ge b c ->
    snd (new_opt true true c g od) = option_map (node_of g) od /\
    closed_ok (fst (new_opt true true c g od)) /\
    (forall key, In (key, NOpen) (fst (new_opt true true c g od)) -> In (key, NOpen) c).
  Proof.
    intros m b c g od IH Hod Hc Ho. destruct od as [x|]; cbn [new_opt option_map].
    - destruct (Hod x eq_refl) as (Hs & Hm & Hb).
      assert (Hcall : call_ok c g x).
      { apply IH; [exact Hm | exact Hs | exact Hc |].
        apply (opens_ge_mono b); [exact Hb | exact Ho]. }
      unfold call_ok in Hcall. destruct (new_ttype true true c g x) as [c' n].
      cbn [fst snd] in *. destruct Hcall as (Hn & Hc' & Hsub).
      split; [rewrite Hn; reflexivity|]. split; [exact Hc' | exact Hsub].
    - cbn [fst snd]. split; [reflexivity|]. split; [exact Hc|]. intros key H. exact H.
  Qed.

  Lemma new_ttype_ok : forall m vt d c,
    (gsize vt <= m)%nat -> go_shape vt d -> closed_ok c -> opens_ge (S (gsize vt)) c ->
    call_ok c vt d.
  Proof.
    induction m as [|m IHm]; intros vt d c Hle Hs Hc Ho.
    { pose proof (gsize_pos vt) as Hp. lia. }
    unfold call_ok. rewrite new_ttype_eq. cbv zeta.
    set (key := ckey true true vt d).
    destruct (lookup key c) as [n|] eqn:El.
    - (* hit *)
      cbn [fst snd]. apply lookup_in in El.
      split; [|split; [exact Hc | intros k H; exact H]].
      destruct (Hc key n El) as [-> | (vt' & d' & Hs' & Hk & ->)].
      + destruct (Ho key El) as (g & Hg & Hm). unfold key, ckey in Hg. cbn [snd] in Hg.
        injection Hg as <-. lia.
      + destruct (ckey_full_inj vt d vt' d' Hs Hs' Hk) as [<- <-]. reflexivity.
    - (* miss: the empty node is stored, then K and V are built *)
      set (c0 := (key, NOpen) :: c).
      assert (Hc0 : closed_ok c0).
      { intros k n [He | Hin]; [injection He as <- <-; left; reflexivity | exact (Hc k n Hin)]. }
      assert (Ho0 : opens_ge (gsize vt) c0).
      { intros k [He | Hin].
        - injection He as <-. exists vt. split; [reflexivity | lia].
        - destruct (Ho k Hin) as (g & Hg & Hm). exists g. split; [exact Hg | lia]. }
      assert (Hk : forall x, dt_k d = Some x ->
                 go_shape (sub_k vt) x /\ (gsize (sub_k vt) <= m)%nat /\ (S (gsize (sub_k vt)) <= gsize vt)%nat).
      { intros x Hx. destruct (shape_sub_k vt d x Hs Hx) as [Hsx Hlt]. split; [exact Hsx | lia]. }
      assert (Hv : forall x, dt_v d = Some x ->
                 go_shape (sub_v vt) x /\ (gsize (sub_v vt) <= m)%nat /\ (S (gsize (sub_v vt)) <= gsize vt)%nat).
      { intros x Hx. destruct (shape_sub_v vt d x Hs Hx) as [Hsx Hlt]. split; [exact Hsx | lia]. }
      destruct (new_opt_ok m (gsize vt) c0 (sub_k vt) (dt_k d) IHm Hk Hc0 Ho0) as (Hn1 & Hc1 & Hsub1).
      set (r1 := new_opt true true c0 (sub_k vt) (dt_k d)) in *.
      assert (Ho1 : opens_ge (gsize vt) (fst r1)).
      { intros k Hin. exact (Ho0 k (Hsub1 k Hin)). }
      destruct (new_opt_ok m (gsize vt) (fst r1) (sub_v vt) (dt_v d) IHm Hv Hc1 Ho1) as (Hn2 & Hc2 & Hsub2).
      set (r2 := new_opt true true (fst r1) (sub_v vt) (dt_v d)) in *.
      cbn [fst snd]. rewrite Hn1, Hn2, <- node_of_eq.
      split; [reflexivity|]. split.
      + intros k n Hin. apply in_fill in Hin. destruct Hin as [[-> ->] | [_ Hin]].
        * right. exists vt, d. split; [exact Hs|]. split; reflexivity.
        * exact (Hc2 k n Hin).
      + intros k Hin. apply in_fill in Hin. destruct Hin as [[_ Hn] | [Hne Hin]].
        * symmetry in Hn. exfalso. exact (node_of_not_open vt d Hn).
        * apply Hsub2, Hsub1 in Hin. destruct Hin as [He | Hin]; [|exact Hin].
          injection He as He. exfalso. apply Hne. symmetry. exact He.
  Qed.

End FullKey.

Lemma consistent_closed : forall c, cache_consistent c -> closed_ok c /\ forall m, opens_ge m c.
Proof.
  intros c Hc. split.
  - intros key n Hin. right. exact (Hc key n Hin).
  - intros m key Hin. destruct (Hc key NOpen Hin) as (vt & d & _ & _ & Hn).
    symmetry in Hn. exfalso. exact (node_of_not_open vt d Hn).
Qed.

Lemma cache_consistent_nil : cache_consistent [].
Proof. intros key n []. Qed.

(* one call from a consistent cache: the node is the node of the request
   alone, and the cache is consistent again *)
Theorem new_ttype_consistent : forall c vt d,
  cache_consistent c -> go_shape vt d ->
  snd (new_ttype true true c vt d) = node_of vt d /\
  cache_consistent (fst (new_ttype true true c vt d)).
Proof.
  intros c vt d Hc Hs. destruct (consistent_closed c Hc) as [Hcl Hop].
  destruct (new_ttype_ok (gsize vt) vt d c (le_n _) Hs Hcl (Hop _)) as (Hn & Hc' & Hsub).
  split; [exact Hn|].
  intros key n Hin. destruct (Hc' key n Hin) as [-> | H]; [|exact H].
  apply Hsub in Hin. exact (Hc key NOpen Hin).
Qed.

Corollary fresh_node_of : forall vt d, go_shape vt d -> fresh_node true true vt d = node_of vt d.
Proof.
  intros vt d Hs. unfold fresh_node.
  exact (proj1 (new_ttype_consistent [] vt d cache_consistent_nil Hs)).
Qed.

Definition shaped (r : gotype * dtype) : Prop := go_shape (fst r) (snd r).

Lemma serve_consistent : forall reqs c,
  cache_consistent c -> Forall shaped reqs ->
  snd (serve true true c reqs) = map (fun r => fresh_node true true (fst r) (snd r)) reqs /\
  cache_consistent (fst (serve true true c reqs)).
Proof.
  induction reqs as [|[vt d] reqs IH]; intros c Hc Hall; cbn [serve map fst snd].
  - split; [reflexivity | exact Hc].
  - inversion Hall as [|x l Hs Hrest]; subst. unfold shaped in Hs. cbn [fst snd] in Hs.
    destruct (new_ttype_consistent c vt d Hc Hs) as [Hn Hc1].
    destruct (new_ttype true true c vt d) as [c1 n]. cbn [fst snd] in Hn, Hc1.
    destruct (IH c1 Hc1 Hrest) as [Hns Hc2].
    destruct (serve true true c1 reqs) as [c2 ns]. cbn [fst snd] in *.
    split; [|exact Hc2]. rewrite Hn, Hns, (fresh_node_of vt d Hs). reflexivity.
Qed.

(* EVERY CALL HISTORY: with the key made of T and S, whatever was requested
   before (any requests, any order, any repetitions), each request gets the
   node a fresh process would return for it *)
Theorem cache_transparent : forall reqs,
  Forall shaped reqs ->
  snd (serve true true [] reqs) = map (fun r => fresh_node true true (fst r) (snd r)) reqs.
Proof.
  intros reqs Hall. exact (proj1 (serve_consistent reqs [] cache_consistent_nil Hall)).
Qed.

(* the same, request by request: the i-th node returned *)
Corollary cache_transparent_nth : forall reqs i vt d,
  Forall shaped reqs -> nth_error reqs i = Some (vt, d) ->
  nth_error (snd (serve true true [] reqs)) i = Some (fresh_node true true vt d)
  /\ fresh_node true true vt d = node_of vt d
  /\ node_ty (node_of vt d) = ty_of d.
Proof.
  intros reqs i vt d Hall Hi. rewrite (cache_transparent reqs Hall).
  assert (Hs : go_shape vt d).
  { apply nth_error_In in Hi. rewrite Forall_forall in Hall. exact (Hall _ Hi). }
  split; [|split; [exact (fresh_node_of vt d Hs) | exact (node_ty_of vt d Hs)]].
  rewrite nth_error_map, Hi. reflexivity.
Qed.

(* ... in particular the codec sees the schema type of each request *)
Corollary cache_transparent_ty : forall reqs,
  Forall shaped reqs ->
  map node_ty (snd (serve true true [] reqs)) = map (fun r => ty_of (snd r)) reqs.
Proof.
  intros reqs Hall. rewrite (cache_transparent reqs Hall), map_map.
  apply map_ext_in. intros [vt d] Hin. cbn [fst snd].
  rewrite Forall_forall in Hall. pose proof (Hall _ Hin) as Hs. unfold shaped in Hs. cbn [fst snd] in Hs.
  rewrite (fresh_node_of vt d Hs). exact (node_ty_of vt d Hs).
Qed.

(* the requests the resolver produces are shaped *)
Lemma parsed_shaped : forall vt def d, parse_type_top vt def = ROk d -> shaped (vt, d).
Proof. intros vt def d H. exact (parse_type_top_shape vt def d H). Qed.

(* ------------------------------------------------------------------ *)
(* 6. from the per-run obligation to the hypothesis of the theorems     *)
(* ------------------------------------------------------------------ *)

Lemma cache_key_ok_full :
  cache_key_ok = true -> ttypes_key_has_T = true /\ ttypes_key_has_S = true.
Proof.
  unfold cache_key_ok. intros H.
  do 6 (apply andb_true_iff in H; destruct H as [H _]).
  apply andb_true_iff in H. exact H.
Qed.

(* the history theorem for the key the source has *)
Corollary cache_transparent_src : forall reqs,
  cache_key_ok = true -> Forall shaped reqs ->
  snd (serve ttypes_key_has_T ttypes_key_has_S [] reqs) = map (fun r => node_of (fst r) (snd r)) reqs.
Proof.
  intros reqs Hok Hall. destruct (cache_key_ok_full Hok) as [-> ->].
  rewrite (cache_transparent reqs Hall). apply map_ext_in. intros [vt d] Hin. cbn [fst snd].
  rewrite Forall_forall in Hall. exact (fresh_node_of vt d (Hall _ Hin)).
Qed.

(* ------------------------------------------------------------------ *)
(* 7. the seeded defects on the model                                   *)
(* ------------------------------------------------------------------ *)

Definition ex_kind : gotype := GInt64 [75; 105; 110; 100].          (* type Kind int64 *)
Definition ex_enum : dtype := DT DEnum None None 0.
Definition ex_i64 : dtype := DT DI64 None None 0.

(* both are what the resolver returns: the annotation "Kind" makes it an enum, "i64" a plain i64 *)
Example ex_requests_real :
  parse_type_top ex_kind [75; 105; 110; 100] = ROk ex_enum
  /\ parse_type_top ex_kind [105; 54; 52] = ROk ex_i64.
Proof. vm_compute. split; reflexivity. Qed.

(* T dropped from the key: the second request gets the first one's node (an i64 field is then
   coded as an enum, i32 on the wire, for the rest of the process); with T it does not *)
Example cache_opaque_without_T :
  snd (serve false true [] [(ex_kind, ex_enum); (ex_kind, ex_i64)])
    = [Node DEnum ex_kind None None; Node DEnum ex_kind None None]
  /\ map node_ty (snd (serve false true [] [(ex_kind, ex_enum); (ex_kind, ex_i64)])) = [TEnum; TEnum]
  /\ map node_ty (snd (serve false true [] [(ex_kind, ex_i64); (ex_kind, ex_enum)])) = [TI64; TI64]
  /\ snd (serve true true [] [(ex_kind, ex_enum); (ex_kind, ex_i64)])
    = [Node DEnum ex_kind None None; Node DI64 ex_kind None None]
  /\ map node_ty (snd (serve true true [] [(ex_kind, ex_enum); (ex_kind, ex_i64)])) = [TEnum; TI64].
Proof. vm_compute. repeat split; reflexivity. Qed.

(* the example of the comment in newTType: map[int32][]int32 as map<i32:set<i32>> and as
   map<i32:list<i32>>; without T the set / list bit of whichever came first sticks *)
Definition ex_map : gotype := GMap GInt32 (GSlice GInt32).
Definition ex_map_set : dtype :=
  DT DMap (Some (DT DI32 None None 0)) (Some (DT DSet None (Some (DT DI32 None None 0)) 0)) 0.
Definition ex_map_list : dtype :=
  DT DMap (Some (DT DI32 None None 0)) (Some (DT DList None (Some (DT DI32 None None 0)) 0)) 0.

Example ex_map_requests_real :
  parse_type_top ex_map [109;97;112;60;105;51;50;58;115;101;116;60;105;51;50;62;62] = ROk ex_map_set
  /\ parse_type_top ex_map [109;97;112;60;105;51;50;58;108;105;115;116;60;105;51;50;62;62] = ROk ex_map_list.
Proof. vm_compute. split; reflexivity. Qed.

Example cache_opaque_without_T_nested :
  map node_ty (snd (serve false true [] [(ex_map, ex_map_set); (ex_map, ex_map_list)]))
    = [TMap TI32 (TList true TI32); TMap TI32 (TList true TI32)]
  /\ map node_ty (snd (serve true true [] [(ex_map, ex_map_set); (ex_map, ex_map_list)]))
    = [TMap TI32 (TList true TI32); TMap TI32 (TList false TI32)].
Proof. vm_compute. split; reflexivity. Qed.

(* S dropped from the key: two struct types of the same name (from different packages) share a
   node, so the second is coded with the first one's layout *)
Definition ex_sa : gotype := GStruct 1 [82; 101; 113].              (* a.Req *)
Definition ex_sb : gotype := GStruct 2 [82; 101; 113].              (* b.Req *)
Example cache_opaque_without_S :
  map node_ty (snd (serve true false [] [(ex_sa, DT DStruct None None 1); (ex_sb, DT DStruct None None 2)]))
    = [TStruct 1; TStruct 1]
  /\ map node_ty (snd (serve true true [] [(ex_sa, DT DStruct None None 1); (ex_sb, DT DStruct None None 2)]))
    = [TStruct 1; TStruct 2].
Proof. vm_compute. split; reflexivity. Qed.

(* with neither, a child's lookup finds its own parent, still under construction *)
Example cache_cyclic_without_key :
  snd (serve false false [] [(ex_map, ex_map_set)]) = [Node DMap ex_map (Some NOpen) (Some NOpen)].
Proof. vm_compute. reflexivity. Qed.

Print Assumptions dt_string_inj.
Print Assumptions new_ttype_consistent.
Print Assumptions cache_transparent.
Print Assumptions cache_transparent_nth.
Print Assumptions cache_transparent_ty.
Print Assumptions cache_transparent_src.
Print Assumptions cache_key_ok_full.
