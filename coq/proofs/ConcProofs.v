(* ConcProofs.v -- safety and progress of the first-use protocol of Conc.v
   (double-checked locking around the descriptor map of DescMap.v), for any
   number of threads, any keys (duplicates allowed) and any schedule. *)
From Coq Require Import List NArith Bool Lia ZifyN ZifyNat ZifyBool Arith PeanoNat.
From Frugal Require Import DescMap Conc.
Import ListNotations.
Open Scope N_scope.
Opaque bucket.

(* ------------------------------------------------------------------ *)
(* DescMap: what we need of the map                                     *)
(* ------------------------------------------------------------------ *)

(* every slot points inside the heap *)
Definition wf_dmap (m : dmap) : Prop :=
  forall b a, assoc b (slots m) = Some a -> (N.to_nat a < length (heap m))%nat.

Lemma wf_empty : wf_dmap dm_empty.
Proof. intros b a H. discriminate H. Qed.

Lemma assoc_set_slot : forall l b a b',
  assoc b' (set_slot b a l) = if b' =? b then Some a else assoc b' l.
Proof.
  induction l as [|[b0 a0] r IH]; intros b a b'.
  - reflexivity.
  - cbn [set_slot]. destruct (N.eqb_spec b b0) as [E|E].
    + subst b0. cbn [assoc]. destruct (b' =? b); reflexivity.
    + cbn [assoc]. rewrite IH.
      destruct (N.eqb_spec b' b0) as [E0|E0]; [|reflexivity].
      subst b0. destruct (N.eqb_spec b' b) as [E1|E1]; [|reflexivity].
      subst b'. congruence.
Qed.

Lemma assoc_replace_item : forall l k v l' k',
  replace_item k v l = Some l' ->
  assoc k' l' = if k' =? k then Some v else assoc k' l.
Proof.
  induction l as [|[k0 v0] r IH]; intros k v l' k' H.
  - discriminate H.
  - cbn [replace_item] in H. destruct (N.eqb_spec k k0) as [E|E].
    + subst k0. injection H as <-. cbn [assoc]. destruct (k' =? k); reflexivity.
    + destruct (replace_item k v r) as [r'|] eqn:R; [|discriminate H].
      injection H as <-. cbn [assoc]. rewrite (IH _ _ _ k' R).
      destruct (N.eqb_spec k' k0) as [E0|E0]; [|reflexivity].
      subst k0. destruct (N.eqb_spec k' k) as [E1|E1]; [|reflexivity].
      subst k'. congruence.
Qed.

Lemma replace_item_none : forall l k v,
  replace_item k v l = None -> assoc k l = None.
Proof.
  induction l as [|[k0 v0] r IH]; intros k v H.
  - reflexivity.
  - cbn [replace_item] in H. cbn [assoc]. destruct (k =? k0); [discriminate H|].
    destruct (replace_item k v r) eqn:R; [discriminate H|]. eapply IH; eassumption.
Qed.

Lemma assoc_app_single : forall l k v k',
  assoc k' (l ++ [(k, v)]) =
  match assoc k' l with Some x => Some x | None => if k' =? k then Some v else None end.
Proof.
  induction l as [|[k0 v0] r IH]; intros k v k'.
  - reflexivity.
  - cbn [app assoc]. destruct (k' =? k0); [reflexivity|apply IH].
Qed.

Lemma items_assoc : forall k v old k',
  assoc k' (match replace_item k v old with Some l => l | None => old ++ [(k, v)] end)
  = if k' =? k then Some v else assoc k' old.
Proof.
  intros k v old k'. destruct (replace_item k v old) as [l|] eqn:R.
  - eapply assoc_replace_item; eassumption.
  - rewrite assoc_app_single. pose proof (replace_item_none _ _ _ R) as HN.
    destruct (N.eqb_spec k' k) as [E|E].
    + subst k'. rewrite HN. reflexivity.
    + destruct (assoc k' old); reflexivity.
Qed.

(* the map is a map *)
Lemma dm_get_set : forall m k v k', wf_dmap m ->
  dm_get (dm_set m k v) k' = if k' =? k then v else dm_get m k'.
Proof.
  intros m k v k' WF. unfold dm_set.
  destruct (N.eqb_spec (dm_get m k) v) as [E|E].
  - destruct (N.eqb_spec k' k) as [E1|E1]; [subst k'; exact E|reflexivity].
  - set (old := slot_items m (bucket k)).
    set (items := match replace_item k v old with Some l => l | None => old ++ [(k, v)] end).
    unfold dm_get at 1. unfold slot_items at 1. cbn [slots heap].
    rewrite assoc_set_slot.
    destruct (N.eqb_spec (bucket k') (bucket k)) as [B|B].
    + rewrite Nat2N.id, app_nth2 by lia. rewrite Nat.sub_diag. cbn [nth].
      unfold items. rewrite items_assoc.
      destruct (N.eqb_spec k' k) as [E1|E1]; [reflexivity|].
      unfold dm_get, old. rewrite B. reflexivity.
    + destruct (N.eqb_spec k' k) as [E1|E1]; [subst k'; congruence|].
      unfold dm_get, slot_items.
      destruct (assoc (bucket k') (slots m)) as [a|] eqn:A; [|reflexivity].
      rewrite app_nth1 by (eapply WF; eassumption). reflexivity.
Qed.

Lemma wf_set : forall m k v, wf_dmap m -> wf_dmap (dm_set m k v).
Proof.
  intros m k v WF. unfold dm_set. destruct (dm_get m k =? v); [exact WF|].
  intros b a H. cbn [slots heap] in *. rewrite assoc_set_slot in H.
  rewrite app_length. cbn [length].
  destruct (b =? bucket k).
  - injection H as <-. rewrite Nat2N.id. lia.
  - apply WF in H. lia.
Qed.

(* the heap is append-only *)
Lemma heap_set : forall m k v, exists ext, heap (dm_set m k v) = heap m ++ ext.
Proof.
  intros m k v. unfold dm_set. destruct (dm_get m k =? v).
  - exists []. rewrite app_nil_r. reflexivity.
  - eexists. cbn [heap]. reflexivity.
Qed.

Lemma dm_get_empty : forall k, dm_get dm_empty k = 0.
Proof. intros k. reflexivity. Qed.

(* ------------------------------------------------------------------ *)
(* thread list                                                         *)
(* ------------------------------------------------------------------ *)

Lemma set_thread_length : forall l i t, length (set_thread l i t) = length l.
Proof.
  induction l as [|x r IH]; intros [|i] t; cbn [set_thread length]; auto.
Qed.

Lemma nth_error_set_thread_eq : forall l i t t0,
  nth_error l i = Some t0 -> nth_error (set_thread l i t) i = Some t.
Proof.
  induction l as [|x r IH]; intros [|i] t t0 H; cbn in *; try discriminate; auto.
  eapply IH; eassumption.
Qed.

Lemma nth_error_set_thread_neq : forall l i j t,
  j <> i -> nth_error (set_thread l i t) j = nth_error l j.
Proof.
  induction l as [|x r IH]; intros [|i] [|j] t H; cbn; auto; try congruence.
Qed.

Lemma map_key_set_thread : forall l i t t0,
  nth_error l i = Some t0 -> th_key t = th_key t0 ->
  map th_key (set_thread l i t) = map th_key l.
Proof.
  induction l as [|x r IH]; intros [|i] t t0 H K; cbn in *; try discriminate; auto.
  - injection H as ->. congruence.
  - f_equal. eapply IH; eassumption.
Qed.

(* ------------------------------------------------------------------ *)
(* the invariant                                                       *)
(* ------------------------------------------------------------------ *)

(* pcs at which the thread holds sdsmu *)
Definition in_crit (p : pc) : bool :=
  match p with PRecheck | PBuild | PPublish | PUnlock => true | _ => false end.

Record Inv (keys : list N) (s : cstate) : Prop := mkInv {
  (* (a) same threads, same keys as at the start *)
  inv_keys : map th_key (c_threads s) = keys;
  (* (b) mutual exclusion *)
  inv_lock1 : forall j t, nth_error (c_threads s) j = Some t ->
                in_crit (th_pc t) = true -> c_lock s = Some j;
  inv_lock2 : forall i, c_lock s = Some i ->
                exists t, nth_error (c_threads s) i = Some t /\ in_crit (th_pc t) = true;
  (* (c) the map is well formed and functional *)
  inv_wf : wf_dmap (c_map s);
  inv_fun : forall k, dm_get (c_map s) k = 0 \/ dm_get (c_map s) k = build k;
  (* a thread about to unlock sees its key published *)
  inv_unlock : forall j t, nth_error (c_threads s) j = Some t ->
                th_pc t = PUnlock -> dm_get (c_map s) (th_key t) = build (th_key t);
  (* (e) results *)
  inv_res : forall j t d, nth_error (c_threads s) j = Some t ->
                th_pc t = PCodec d \/ th_pc t = PDone d -> d = build (th_key t);
  (* (f) plain-map accesses happen under the lock *)
  inv_log : forall i h, In (i, h) (c_log s) -> h = Some i
}.

Lemma inv_init : forall keys, Inv keys (init keys).
Proof.
  intros keys. unfold init. constructor; cbn [c_map c_lock c_plain c_log c_threads].
  - rewrite map_map. cbn [th_key]. apply map_id.
  - intros j t H C. apply nth_error_In in H. apply in_map_iff in H as [k [<- _]].
    discriminate C.
  - intros i H. discriminate H.
  - apply wf_empty.
  - intros k. left. apply dm_get_empty.
  - intros j t H C. apply nth_error_In in H. apply in_map_iff in H as [k [<- _]].
    discriminate C.
  - intros j t d H C. apply nth_error_In in H. apply in_map_iff in H as [k [<- _]].
    destruct C as [C|C]; discriminate C.
  - intros i h [].
Qed.

(* invert one successful step: 7 cases, one per non-final pc *)
Ltac step_inv H s i s' t Ht Hpc Hl :=
  unfold step in H;
  destruct (nth_error (c_threads s) i) as [t|] eqn:Ht; [|discriminate H];
  destruct (th_pc t) eqn:Hpc;
  [ | destruct (c_lock s) eqn:Hl; [discriminate H|] | | | | | | discriminate H ];
  cbv beta zeta iota in H; injection H as H; subst s';
  cbn [c_map c_lock c_plain c_log c_threads].

(* case split on whether thread j of the updated list is the stepping thread *)
Ltac thr j i Hj Ht :=
  let Hne := fresh "Hne" in
  destruct (Nat.eq_dec j i) as [->|Hne];
  [ rewrite (nth_error_set_thread_eq _ _ _ _ Ht) in Hj; injection Hj as <-;
    cbn [th_pc th_key] in *
  | rewrite (nth_error_set_thread_neq _ _ _ _ Hne) in Hj ].

Lemma lock2_other : forall l i t t' h,
  nth_error l i = Some t -> in_crit (th_pc t) = false ->
  (exists th, nth_error l h = Some th /\ in_crit (th_pc th) = true) ->
  exists th, nth_error (set_thread l i t') h = Some th /\ in_crit (th_pc th) = true.
Proof.
  intros l i t t' h Ht C [th [Hh Ch]]. exists th. split; [|exact Ch].
  rewrite nth_error_set_thread_neq; [exact Hh|].
  intros ->. rewrite Ht in Hh. injection Hh as <-. congruence.
Qed.

Lemma lock2_self : forall l i t t' h,
  nth_error l i = Some t -> in_crit (th_pc t') = true ->
  (exists th, nth_error l h = Some th /\ in_crit (th_pc th) = true) ->
  exists th, nth_error (set_thread l i t') h = Some th /\ in_crit (th_pc th) = true.
Proof.
  intros l i t t' h Ht C [th [Hh Ch]].
  destruct (Nat.eq_dec h i) as [->|Hne].
  - exists t'. split; [|exact C]. eapply nth_error_set_thread_eq; eassumption.
  - exists th. split; [|exact Ch]. rewrite nth_error_set_thread_neq; assumption.
Qed.

Theorem inv_step : forall keys s i s',
  Inv keys s -> step s i = Some s' -> Inv keys s'.
Proof.
  intros keys s i s' [Hk L1 L2 Wf Fn Un Rs Lg] H.
  step_inv H s i s' t Ht Hpc Hl.
  - (* PStart *)
    constructor; cbn [c_map c_lock c_plain c_log c_threads]; try assumption.
    + rewrite (map_key_set_thread _ _ _ _ Ht); auto.
    + intros j tj Hj C. thr j i Hj Ht; [|eauto].
      destruct (dm_get (c_map s) (th_key t) =? 0); discriminate C.
    + intros h Hh. eapply lock2_other; eauto. rewrite Hpc. reflexivity.
    + intros j tj Hj C. thr j i Hj Ht; [|eauto].
      destruct (dm_get (c_map s) (th_key t) =? 0); discriminate C.
    + intros j tj d Hj C. thr j i Hj Ht; [|eauto].
      destruct (N.eqb_spec (dm_get (c_map s) (th_key t)) 0) as [E|E].
      * destruct C as [C|C]; discriminate C.
      * destruct C as [C|C]; [|discriminate C]. injection C as <-.
        destruct (Fn (th_key t)); [contradiction|assumption].
  - (* PLock, mutex free *)
    constructor; cbn [c_map c_lock c_plain c_log c_threads]; try assumption.
    + rewrite (map_key_set_thread _ _ _ _ Ht); auto.
    + intros j tj Hj C. thr j i Hj Ht; [reflexivity|].
      discriminate (L1 _ _ Hj C).
    + intros h Hh. injection Hh as <-. eexists. split.
      * eapply nth_error_set_thread_eq; eassumption.
      * reflexivity.
    + intros j tj Hj C. thr j i Hj Ht; [discriminate C|eauto].
    + intros j tj d Hj C. thr j i Hj Ht; [|eauto].
      destruct C as [C|C]; discriminate C.
  - (* PRecheck *)
    assert (Hi : c_lock s = Some i) by (eapply L1; [eassumption|rewrite Hpc; reflexivity]).
    constructor; cbn [c_map c_lock c_plain c_log c_threads]; try assumption.
    + rewrite (map_key_set_thread _ _ _ _ Ht); auto.
    + intros j tj Hj C. thr j i Hj Ht; [assumption|eauto].
    + intros h Hh. eapply lock2_self; eauto. cbn [th_pc].
      destruct (dm_get (c_map s) (th_key t) =? 0); reflexivity.
    + intros j tj Hj C. thr j i Hj Ht; [|eauto].
      destruct (N.eqb_spec (dm_get (c_map s) (th_key t)) 0) as [E|E]; [discriminate C|].
      destruct (Fn (th_key t)); [contradiction|assumption].
    + intros j tj d Hj C. thr j i Hj Ht; [|eauto].
      destruct (dm_get (c_map s) (th_key t) =? 0); destruct C as [C|C]; discriminate C.
  - (* PBuild *)
    assert (Hi : c_lock s = Some i) by (eapply L1; [eassumption|rewrite Hpc; reflexivity]).
    constructor; cbn [c_map c_lock c_plain c_log c_threads]; try assumption.
    + rewrite (map_key_set_thread _ _ _ _ Ht); auto.
    + intros j tj Hj C. thr j i Hj Ht; [assumption|eauto].
    + intros h Hh. eapply lock2_self; eauto.
    + intros j tj Hj C. thr j i Hj Ht; [discriminate C|eauto].
    + intros j tj d Hj C. thr j i Hj Ht; [|eauto].
      destruct C as [C|C]; discriminate C.
    + intros i0 h [E|I]; [|eauto]. injection E as <- <-. assumption.
  - (* PPublish *)
    assert (Hi : c_lock s = Some i) by (eapply L1; [eassumption|rewrite Hpc; reflexivity]).
    constructor; cbn [c_map c_lock c_plain c_log c_threads]; try assumption.
    + rewrite (map_key_set_thread _ _ _ _ Ht); auto.
    + intros j tj Hj C. thr j i Hj Ht; [assumption|eauto].
    + intros h Hh. eapply lock2_self; eauto.
    + apply wf_set; assumption.
    + intros k. rewrite dm_get_set by assumption.
      destruct (N.eqb_spec k (th_key t)) as [->|E]; [right; reflexivity|apply Fn].
    + intros j tj Hj C. rewrite dm_get_set by assumption.
      thr j i Hj Ht; [rewrite N.eqb_refl; reflexivity|].
      destruct (N.eqb_spec (th_key tj) (th_key t)) as [E|E]; [rewrite E; reflexivity|eauto].
    + intros j tj d Hj C. thr j i Hj Ht; [|eauto].
      destruct C as [C|C]; discriminate C.
  - (* PUnlock *)
    assert (Hi : c_lock s = Some i) by (eapply L1; [eassumption|rewrite Hpc; reflexivity]).
    constructor; cbn [c_map c_lock c_plain c_log c_threads]; try assumption.
    + rewrite (map_key_set_thread _ _ _ _ Ht); auto.
    + intros j tj Hj C. thr j i Hj Ht; [discriminate C|].
      pose proof (L1 _ _ Hj C) as Hj'. congruence.
    + intros h Hh. discriminate Hh.
    + intros j tj Hj C. thr j i Hj Ht; [discriminate C|eauto].
    + intros j tj d Hj C. thr j i Hj Ht; [|eauto].
      destruct C as [C|C]; [|discriminate C]. injection C as <-. eauto.
  - (* PCodec *)
    constructor; cbn [c_map c_lock c_plain c_log c_threads]; try assumption.
    + rewrite (map_key_set_thread _ _ _ _ Ht); auto.
    + intros j tj Hj C. thr j i Hj Ht; [discriminate C|eauto].
    + intros h Hh. eapply lock2_other; eauto. rewrite Hpc. reflexivity.
    + intros j tj Hj C. thr j i Hj Ht; [discriminate C|eauto].
    + intros j tj d' Hj C. thr j i Hj Ht; [|eauto].
      destruct C as [C|C]; [discriminate C|]. injection C as <-. eauto.
Qed.

(* ------------------------------------------------------------------ *)
(* runs                                                                *)
(* ------------------------------------------------------------------ *)

Lemma run_app : forall a s b, run s (a ++ b) = run (run s a) b.
Proof.
  induction a as [|i a IH]; intros s b; [reflexivity|].
  cbn [app run]. destruct (step s i); apply IH.
Qed.

Theorem inv_run : forall keys sched s, Inv keys s -> Inv keys (run s sched).
Proof.
  intros keys sched. induction sched as [|i r IH]; intros s I; [exact I|].
  cbn [run]. destruct (step s i) as [s'|] eqn:E; [|auto].
  apply IH. eapply inv_step; eassumption.
Qed.

Corollary inv_reach : forall keys sched, Inv keys (run (init keys) sched).
Proof. intros. apply inv_run, inv_init. Qed.

(* a property preserved by steps is preserved by runs *)
Lemma run_ind : forall (P : cstate -> Prop),
  (forall s i s', P s -> step s i = Some s' -> P s') ->
  forall sched s, P s -> P (run s sched).
Proof.
  intros P HP sched. induction sched as [|i r IH]; intros s H; [exact H|].
  cbn [run]. destruct (step s i) as [s'|] eqn:E; [|auto]. eauto.
Qed.

(* what a step does to the map *)
Lemma step_map : forall s i s', step s i = Some s' ->
  c_map s' = c_map s \/ exists k, c_map s' = dm_set (c_map s) k (build k).
Proof.
  intros s i s' H. step_inv H s i s' t Ht Hpc Hl; auto.
  right. eexists. reflexivity.
Qed.

(* (d) once published, stays published *)
Lemma step_monotone : forall keys s i s' k,
  Inv keys s -> step s i = Some s' ->
  dm_get (c_map s) k = build k -> dm_get (c_map s') k = build k.
Proof.
  intros keys s i s' k I H G. destruct (step_map _ _ _ H) as [->|[k0 ->]]; [exact G|].
  rewrite dm_get_set by (apply (inv_wf _ _ I)).
  destruct (N.eqb_spec k k0) as [->|E]; [reflexivity|exact G].
Qed.

Lemma step_monotone_nz : forall keys s i s' k,
  Inv keys s -> step s i = Some s' ->
  dm_get (c_map s) k <> 0 -> dm_get (c_map s') k = dm_get (c_map s) k.
Proof.
  intros keys s i s' k I H G.
  destruct (inv_fun _ _ I k) as [E|E]; [contradiction|].
  rewrite E. eapply step_monotone; eassumption.
Qed.

Lemma run_monotone : forall keys sched s k,
  Inv keys s -> dm_get (c_map s) k = build k ->
  dm_get (c_map (run s sched)) k = build k.
Proof.
  intros keys sched. induction sched as [|i r IH]; intros s k I G; [exact G|].
  cbn [run]. destruct (step s i) as [s'|] eqn:E; [|auto].
  apply IH; [eapply inv_step|eapply step_monotone]; eassumption.
Qed.

(* ------------------------------------------------------------------ *)
(* 2. results are the sequential ones                                  *)
(* ------------------------------------------------------------------ *)

Theorem sequential_results_gen : forall keys sched,
  let s := run (init keys) sched in
  forall i t d, nth_error (c_threads s) i = Some t ->
    th_pc t = PCodec d \/ th_pc t = PDone d -> d = build (th_key t).
Proof.
  intros keys sched s i t d Ht Hpc.
  exact (inv_res _ _ (inv_reach keys sched) i t d Ht Hpc).
Qed.

Theorem sequential_results : forall keys sched,
  Forall (fun k => k <> 0) keys ->
  let s := run (init keys) sched in
  forall i t d, nth_error (c_threads s) i = Some t ->
    th_pc t = PDone d -> d = build (th_key t).
Proof.
  intros keys sched _ s i t d Ht Hpc.
  eapply sequential_results_gen; eauto.
Qed.

(* thread i of any reachable state still works on keys[i] *)
Theorem thread_keys : forall keys sched,
  map th_key (c_threads (run (init keys) sched)) = keys.
Proof. intros. apply (inv_keys _ _ (inv_reach keys sched)). Qed.

(* so: the i-th call returns build (keys[i]), and a non-nil descriptor *)
Corollary sequential_results_key : forall keys sched,
  Forall (fun k => k <> 0) keys ->
  let s := run (init keys) sched in
  forall i t d, nth_error (c_threads s) i = Some t -> th_pc t = PDone d ->
    nth_error keys i = Some (th_key t) /\ d = build (th_key t) /\ d <> 0.
Proof.
  intros keys sched NZ s i t d Ht Hpc.
  assert (K : nth_error keys i = Some (th_key t)).
  { rewrite <- (thread_keys keys sched). apply map_nth_error. exact Ht. }
  assert (D : d = build (th_key t)) by (eapply sequential_results; eauto).
  repeat split; auto. subst d. unfold build.
  rewrite Forall_forall in NZ. apply NZ. eapply nth_error_In; eassumption.
Qed.

(* ------------------------------------------------------------------ *)
(* 3. plain maps are touched only under the mutex                      *)
(* ------------------------------------------------------------------ *)

Theorem plain_maps_locked : forall keys sched i h,
  In (i, h) (c_log (run (init keys) sched)) -> h = Some i.
Proof.
  intros keys sched i h H. exact (inv_log _ _ (inv_reach keys sched) i h H).
Qed.

(* mutual exclusion, as a statement about reachable states *)
Theorem mutual_exclusion : forall keys sched,
  let s := run (init keys) sched in
  forall i j ti tj, nth_error (c_threads s) i = Some ti -> nth_error (c_threads s) j = Some tj ->
    in_crit (th_pc ti) = true -> in_crit (th_pc tj) = true -> i = j.
Proof.
  intros keys sched s i j ti tj Hi Hj Ci Cj.
  pose proof (inv_reach keys sched) as I. fold s in I.
  pose proof (inv_lock1 _ _ I _ _ Hi Ci) as A.
  pose proof (inv_lock1 _ _ I _ _ Hj Cj) as B. congruence.
Qed.

(* ------------------------------------------------------------------ *)
(* 4. published arrays are immutable                                   *)
(* ------------------------------------------------------------------ *)

Lemma step_heap : forall s i s', step s i = Some s' ->
  exists ext, heap (c_map s') = heap (c_map s) ++ ext.
Proof.
  intros s i s' H. destruct (step_map _ _ _ H) as [->|[k ->]].
  - exists []. rewrite app_nil_r. reflexivity.
  - apply heap_set.
Qed.

Lemma run_heap : forall sched s,
  exists ext, heap (c_map (run s sched)) = heap (c_map s) ++ ext.
Proof.
  induction sched as [|i r IH]; intros s.
  - exists []. rewrite app_nil_r. reflexivity.
  - cbn [run]. destruct (step s i) as [s'|] eqn:E; [|apply IH].
    destruct (step_heap _ _ _ E) as [e1 H1]. destruct (IH s') as [e2 H2].
    exists (e1 ++ e2). rewrite H2, H1, app_assoc. reflexivity.
Qed.

Theorem published_immutable : forall keys sched1 sched2,
  let s1 := run (init keys) sched1 in
  let s2 := run s1 sched2 in
  forall a, (a < length (heap (c_map s1)))%nat ->
    nth a (heap (c_map s2)) [] = nth a (heap (c_map s1)) [].
Proof.
  intros keys sched1 sched2 s1 s2 a H.
  destruct (run_heap sched2 s1) as [ext E]. fold s2 in E.
  rewrite E. apply app_nth1. exact H.
Qed.

(* every slot of a reachable map points to such an array *)
Theorem slots_in_heap : forall keys sched, wf_dmap (c_map (run (init keys) sched)).
Proof. intros. apply (inv_wf _ _ (inv_reach keys sched)). Qed.

(* ------------------------------------------------------------------ *)
(* 5. no deadlock                                                      *)
(* ------------------------------------------------------------------ *)

Definition is_done (t : thread) : bool :=
  match th_pc t with PDone _ => true | _ => false end.

Lemma forallb_false_nth : forall (f : thread -> bool) l,
  forallb f l = false -> exists i t, nth_error l i = Some t /\ f t = false.
Proof.
  induction l as [|x r IH]; intros H; [discriminate H|].
  cbn [forallb] in H. destruct (f x) eqn:F.
  - destruct (IH H) as [i [t [A B]]]. exists (S i), t. auto.
  - exists O, x. auto.
Qed.

Lemma no_deadlock_inv : forall keys s, Inv keys s -> finished s = false ->
  exists i s', step s i = Some s'.
Proof.
  intros keys s I F. destruct (c_lock s) as [h|] eqn:Hl.
  - destruct (inv_lock2 _ _ I h Hl) as [th [Hh C]].
    exists h. unfold step. rewrite Hh.
    destruct (th_pc th); try discriminate C; eexists; reflexivity.
  - apply forallb_false_nth in F as [i [t [Hi D]]].
    exists i. unfold step. rewrite Hi, Hl.
    destruct (th_pc t); try discriminate D; eexists; reflexivity.
Qed.

Theorem no_deadlock : forall keys sched,
  Forall (fun k => k <> 0) keys ->
  let s := run (init keys) sched in
  finished s = false -> exists i s', step s i = Some s'.
Proof.
  intros keys sched _ s F. eapply no_deadlock_inv; [apply inv_reach|exact F].
Qed.

(* ------------------------------------------------------------------ *)
(* 6. progress measure and termination under fair schedules           *)
(* ------------------------------------------------------------------ *)

Definition pc_measure (p : pc) : nat :=
  match p with
  | PStart => 7 | PLock => 6 | PRecheck => 5 | PBuild => 4
  | PPublish => 3 | PUnlock => 2 | PCodec _ => 1 | PDone _ => 0
  end%nat.

Definition th_measure (t : thread) : nat := pc_measure (th_pc t).
Fixpoint sum_measure (l : list thread) : nat :=
  match l with [] => 0 | t :: r => th_measure t + sum_measure r end%nat.
Definition measure (s : cstate) : nat := sum_measure (c_threads s).

Lemma measure_set_thread : forall l i t t0, nth_error l i = Some t0 ->
  (sum_measure (set_thread l i t) + th_measure t0
   = sum_measure l + th_measure t)%nat.
Proof.
  induction l as [|x r IH]; intros [|i] t t0 H; cbn [nth_error] in H; try discriminate H.
  - injection H as ->. cbn [set_thread sum_measure]. lia.
  - cbn [set_thread sum_measure]. pose proof (IH i t t0 H). lia.
Qed.

Theorem progress_measure : forall s i s',
  step s i = Some s' -> (measure s' < measure s)%nat.
Proof.
  intros s i s' H. step_inv H s i s' t Ht Hpc Hl; unfold measure;
    cbn [c_threads];
    match goal with |- context [set_thread _ _ ?t'] =>
      pose proof (measure_set_thread _ _ t' _ Ht) as M end;
    unfold th_measure in M; rewrite Hpc in M; cbn [th_pc pc_measure] in M;
    try (destruct (dm_get (c_map s) (th_key t) =? 0); cbn [pc_measure] in M); lia.
Qed.

Lemma measure_init : forall keys, measure (init keys) = (7 * length keys)%nat.
Proof.
  intros keys. unfold measure, init. cbn [c_threads].
  induction keys as [|k r IH]; [reflexivity|].
  cbn [map sum_measure length]. rewrite IH. unfold th_measure. cbn [th_pc pc_measure]. lia.
Qed.

Lemma measure_zero_finished : forall s, measure s = 0%nat -> finished s = true.
Proof.
  intros s. unfold measure, finished. induction (c_threads s) as [|t r IH]; intros H; [reflexivity|].
  cbn [sum_measure] in H. cbn [forallb].
  assert (A : th_measure t = 0%nat) by lia.
  assert (B : sum_measure r = 0%nat) by lia.
  rewrite (IH B), andb_true_r. unfold th_measure in A.
  destruct (th_pc t); try discriminate A; reflexivity.
Qed.

Lemma finished_stuck : forall s i, finished s = true -> step s i = None.
Proof.
  intros s i F. unfold step. destruct (nth_error (c_threads s) i) as [t|] eqn:Ht; [|reflexivity].
  unfold finished in F. rewrite forallb_forall in F.
  specialize (F t (nth_error_In _ _ Ht)).
  destruct (th_pc t); try discriminate F; reflexivity.
Qed.

Lemma finished_run : forall sched s, finished s = true -> run s sched = s.
Proof.
  induction sched as [|i r IH]; intros s F; [reflexivity|].
  cbn [run]. rewrite (finished_stuck s i F). apply IH, F.
Qed.

Lemma measure_run_le : forall sched s, (measure (run s sched) <= measure s)%nat.
Proof.
  induction sched as [|i r IH]; intros s; [apply le_n|].
  cbn [run]. destruct (step s i) as [s'|] eqn:E; [|apply IH].
  pose proof (progress_measure _ _ _ E). pose proof (IH s'). lia.
Qed.

(* number of effective (non-skipped) picks of a schedule *)
Fixpoint steps_taken (s : cstate) (sched : list nat) : nat :=
  match sched with
  | [] => 0
  | i :: r => match step s i with Some s' => S (steps_taken s' r) | None => steps_taken s r end
  end.

(* any schedule whatsoever makes at most 7 * (number of threads) steps *)
Theorem steps_bounded : forall keys sched,
  (steps_taken (init keys) sched <= 7 * length keys)%nat.
Proof.
  intros keys sched. rewrite <- measure_init.
  generalize (init keys). induction sched as [|i r IH]; intros s; cbn [steps_taken]; [lia|].
  destruct (step s i) as [s'|] eqn:E; [|apply IH].
  pose proof (progress_measure _ _ _ E). pose proof (IH s'). lia.
Qed.

(* a schedule fragment that offers an enabled thread makes progress *)
Lemma round_progress_gen : forall r s,
  (exists i, In i r /\ step s i <> None) -> (measure (run s r) < measure s)%nat.
Proof.
  induction r as [|a r IH]; intros s [i [Hin Hs]]; [destruct Hin|].
  cbn [run]. destruct (step s a) as [s'|] eqn:E.
  - pose proof (progress_measure _ _ _ E). pose proof (measure_run_le r s'). lia.
  - apply IH. exists i. split; [|exact Hs].
    destruct Hin as [->|Hin]; [congruence|exact Hin].
Qed.

Lemma step_some_lt : forall s i s', step s i = Some s' -> (i < length (c_threads s))%nat.
Proof.
  intros s i s' H. unfold step in H.
  destruct (nth_error (c_threads s) i) eqn:Ht; [|discriminate H].
  apply nth_error_Some. congruence.
Qed.

(* a round = a schedule fragment in which every thread index occurs *)
Definition covers (n : nat) (r : list nat) : Prop := forall i, (i < n)%nat -> In i r.

Lemma round_progress : forall keys s r, Inv keys s -> finished s = false ->
  covers (length keys) r -> (measure (run s r) < measure s)%nat.
Proof.
  intros keys s r I F C. apply round_progress_gen.
  destruct (no_deadlock_inv _ _ I F) as [i [s' E]]. exists i. split; [|congruence].
  apply C. rewrite <- (inv_keys _ _ I), map_length. eapply step_some_lt; eassumption.
Qed.

Lemma rounds_finish : forall keys rounds s, Inv keys s ->
  Forall (covers (length keys)) rounds ->
  (measure s <= length rounds)%nat -> finished (run s (concat rounds)) = true.
Proof.
  intros keys rounds. induction rounds as [|r rs IH]; intros s I C M.
  - cbn [concat run]. apply measure_zero_finished. cbn [length] in M. lia.
  - cbn [concat]. rewrite run_app. inversion C as [|? ? Cr Crs]; subst.
    destruct (finished s) eqn:F.
    + rewrite (finished_run r s F), (finished_run _ s F). exact F.
    + apply IH; [apply inv_run; exact I|exact Crs|].
      pose proof (round_progress _ _ _ I F Cr). cbn [length] in M. lia.
Qed.

(* Termination: with bound = 7 * number of threads, every schedule made of at
   least [bound] rounds, each of which offers every thread at least once (in
   any order, with any repetitions), ends with all calls done. *)
Theorem termination : forall keys, Forall (fun k => k <> 0) keys ->
  exists bound, forall rounds,
    Forall (covers (length keys)) rounds -> (bound <= length rounds)%nat ->
    finished (run (init keys) (concat rounds)) = true.
Proof.
  intros keys _. exists (7 * length keys)%nat. intros rounds C B.
  eapply rounds_finish; [apply inv_init|exact C|]. rewrite measure_init. exact B.
Qed.

(* and when finished, everything is released and every call has its descriptor *)
Theorem finished_quiescent : forall keys sched,
  let s := run (init keys) sched in
  finished s = true -> c_lock s = None /\
    map th_pc (c_threads s) = map (fun k => PDone (build k)) keys.
Proof.
  intros keys sched s F. pose proof (inv_reach keys sched) as I. fold s in I. split.
  - destruct (c_lock s) as [h|] eqn:Hl; [|reflexivity].
    destruct (inv_lock2 _ _ I h Hl) as [th [Hh C]].
    unfold finished in F. rewrite forallb_forall in F.
    specialize (F th (nth_error_In _ _ Hh)). destruct (th_pc th); discriminate.
  - rewrite <- (inv_keys _ _ I), map_map.
    assert (R : forall j t d, nth_error (c_threads s) j = Some t -> th_pc t = PDone d ->
                d = build (th_key t)) by (intros; eapply (inv_res _ _ I); eauto).
    unfold finished in F. revert F R. generalize (c_threads s) as l.
    induction l as [|t r IH]; intros F R; [reflexivity|].
    cbn [forallb] in F. apply andb_true_iff in F as [Ft Fr]. cbn [map]. f_equal.
    + destruct (th_pc t) eqn:P; try discriminate Ft.
      f_equal. apply (R O t d); [reflexivity|exact P].
    + apply IH; [exact Fr|]. intros j t' d' Hj. apply (R (S j) t' d'). exact Hj.
Qed.

(* ------------------------------------------------------------------ *)
(* extra: each type is built at most once (this is where keys <> 0     *)
(* matters: descriptor id 0 means "absent", so a key 0 is rebuilt by   *)
(* every caller)                                                       *)
(* ------------------------------------------------------------------ *)

Definition publishing (l : list thread) (k : N) : Prop :=
  exists j t, nth_error l j = Some t /\ th_pc t = PPublish /\ th_key t = k.

Record Inv2 (s : cstate) : Prop := mkInv2 {
  b_build : forall j t, nth_error (c_threads s) j = Some t -> th_pc t = PBuild ->
              dm_get (c_map s) (th_key t) = 0;
  b_plain : forall k, In k (c_plain s) ->
              dm_get (c_map s) k = build k \/ publishing (c_threads s) k;
  b_nodup : NoDup (c_plain s)
}.

Lemma inv2_init : forall keys, Inv2 (init keys).
Proof.
  intros keys. unfold init. constructor; cbn [c_map c_plain c_threads].
  - intros j t H C. apply nth_error_In in H. apply in_map_iff in H as [k [<- _]].
    discriminate C.
  - intros k [].
  - constructor.
Qed.

Lemma publishing_other : forall l i t t' k,
  nth_error l i = Some t -> th_pc t <> PPublish ->
  publishing l k -> publishing (set_thread l i t') k.
Proof.
  intros l i t t' k Ht C [j [tj [Hj [P K]]]]. exists j, tj. split; [|auto].
  rewrite nth_error_set_thread_neq; [exact Hj|].
  intros ->. rewrite Ht in Hj. injection Hj as <-. contradiction.
Qed.

Lemma inv2_step : forall keys s i s', Forall (fun k => k <> 0) keys ->
  Inv keys s -> Inv2 s -> step s i = Some s' -> Inv2 s'.
Proof.
  intros keys s i s' NZ [Hk L1 L2 Wf Fn Un Rs Lg] [Bb Bp Bn] H.
  step_inv H s i s' t Ht Hpc Hl.
  - (* PStart *)
    constructor; cbn [c_map c_plain c_threads]; try assumption.
    + intros j tj Hj C. thr j i Hj Ht; [|eauto].
      destruct (dm_get (c_map s) (th_key t) =? 0); discriminate C.
    + intros k Hin. destruct (Bp k Hin) as [G|W]; [left; exact G|right].
      eapply publishing_other; eauto. congruence.
  - (* PLock *)
    constructor; cbn [c_map c_plain c_threads]; try assumption.
    + intros j tj Hj C. thr j i Hj Ht; [discriminate C|eauto].
    + intros k Hin. destruct (Bp k Hin) as [G|W]; [left; exact G|right].
      eapply publishing_other; eauto. congruence.
  - (* PRecheck *)
    constructor; cbn [c_map c_plain c_threads]; try assumption.
    + intros j tj Hj C. thr j i Hj Ht; [|eauto].
      destruct (N.eqb_spec (dm_get (c_map s) (th_key t)) 0) as [E|E];
        [exact E|discriminate C].
    + intros k Hin. destruct (Bp k Hin) as [G|W]; [left; exact G|right].
      eapply publishing_other; eauto. congruence.
  - (* PBuild *)
    assert (Hi : c_lock s = Some i) by (eapply L1; [eassumption|rewrite Hpc; reflexivity]).
    assert (Kz : th_key t <> 0).
    { rewrite Forall_forall in NZ. apply NZ. rewrite <- Hk.
      apply in_map. eapply nth_error_In; eassumption. }
    constructor; cbn [c_map c_plain c_threads].
    + intros j tj Hj C. thr j i Hj Ht; [discriminate C|].
      assert (c_lock s = Some j) by (eapply L1; [eassumption|rewrite C; reflexivity]).
      congruence.
    + intros k [<-|Hin].
      * right. exists i. eexists. split; [eapply nth_error_set_thread_eq; eassumption|].
        cbn [th_pc th_key]. auto.
      * destruct (Bp k Hin) as [G|W]; [left; exact G|right].
        eapply publishing_other; eauto. congruence.
    + constructor; [|exact Bn]. intros Hin.
      destruct (Bp _ Hin) as [G|[j [tj [Hj [P K]]]]].
      * rewrite (Bb _ _ Ht Hpc) in G. unfold build in G. congruence.
      * assert (c_lock s = Some j) by (eapply L1; [eassumption|rewrite P; reflexivity]).
        assert (j = i) by congruence. subst j. congruence.
  - (* PPublish *)
    assert (Hi : c_lock s = Some i) by (eapply L1; [eassumption|rewrite Hpc; reflexivity]).
    constructor; cbn [c_map c_plain c_threads]; try assumption.
    + intros j tj Hj C. thr j i Hj Ht; [discriminate C|].
      assert (c_lock s = Some j) by (eapply L1; [eassumption|rewrite C; reflexivity]).
      congruence.
    + intros k Hin. left. rewrite dm_get_set by assumption.
      destruct (N.eqb_spec k (th_key t)) as [->|E]; [reflexivity|].
      destruct (Bp k Hin) as [G|[j [tj [Hj [P K]]]]]; [exact G|].
      assert (c_lock s = Some j) by (eapply L1; [eassumption|rewrite P; reflexivity]).
      assert (j = i) by congruence. subst j. congruence.
  - (* PUnlock *)
    constructor; cbn [c_map c_plain c_threads]; try assumption.
    + intros j tj Hj C. thr j i Hj Ht; [discriminate C|eauto].
    + intros k Hin. destruct (Bp k Hin) as [G|W]; [left; exact G|right].
      eapply publishing_other; eauto. congruence.
  - (* PCodec *)
    constructor; cbn [c_map c_plain c_threads]; try assumption.
    + intros j tj Hj C. thr j i Hj Ht; [discriminate C|eauto].
    + intros k Hin. destruct (Bp k Hin) as [G|W]; [left; exact G|right].
      eapply publishing_other; eauto. congruence.
Qed.

Lemma inv2_run : forall keys sched s, Forall (fun k => k <> 0) keys ->
  Inv keys s -> Inv2 s -> Inv2 (run s sched).
Proof.
  intros keys sched. induction sched as [|i r IH]; intros s NZ I I2; [exact I2|].
  cbn [run]. destruct (step s i) as [s'|] eqn:E; [|auto].
  apply IH; [exact NZ|eapply inv_step; eassumption|eapply inv2_step; eassumption].
Qed.

(* the builder runs at most once per type, whatever the number of racing callers *)
Theorem built_once : forall keys sched, Forall (fun k => k <> 0) keys ->
  NoDup (c_plain (run (init keys) sched)).
Proof.
  intros keys sched NZ. apply b_nodup.
  eapply inv2_run; [exact NZ|apply inv_init|apply inv2_init].
Qed.

(* without keys <> 0 it fails: two callers on key 0 both build *)
Example built_once_needs_nonzero :
  c_plain (run (init [0; 0]) [0;0;0;0;0;0;0; 1;1;1;1;1;1;1]%nat) = [0; 0].
Proof. vm_compute. reflexivity. Qed.

(* ------------------------------------------------------------------ *)
(* non-vacuity: three callers, two on the same type, the third on a    *)
(* type of the same bucket, under a schedule that makes all three miss *)
(* the lock-free lookup and queue on the mutex                         *)
(* ------------------------------------------------------------------ *)

Definition ex_keys : list N := [5; 5; 65541].

(* all three miss; 0 takes the mutex; 1 and 2 keep hitting the held mutex while
   0 rechecks, builds, publishes *)
Definition ex_sched1 : list nat := [0;1;2; 0; 1;2; 0; 1; 0; 2; 0; 1]%nat.
(* 0 unlocks; 1 gets the mutex, rechecks (hit: no second build), unlocks; 2 builds
   its own descriptor in the same bucket; everybody finishes; extra picks of
   finished threads are skipped *)
Definition ex_sched2 : list nat :=
  [0; 1;2; 1; 2; 1; 2;2; 0; 2;2; 1; 2; 0;1;2; 0;1;2]%nat.

Example ex_midway :
  let s := run (init ex_keys) ex_sched1 in
  c_lock s = Some 0%nat /\
  map th_pc (c_threads s) = [PUnlock; PLock; PLock] /\
  step s 1 = None /\ step s 2 = None /\
  dm_get (c_map s) 5 = 5 /\ dm_get (c_map s) 65541 = 0.
Proof. vm_compute. repeat split; reflexivity. Qed.

Example ex_final :
  let s := run (init ex_keys) (ex_sched1 ++ ex_sched2) in
  finished s = true /\
  map th_pc (c_threads s) = [PDone 5; PDone 5; PDone 65541] /\
  c_lock s = None /\
  c_plain s = [65541; 5] /\
  c_log s = [(2%nat, Some 2%nat); (0%nat, Some 0%nat)] /\
  dm_get (c_map s) 5 = 5 /\ dm_get (c_map s) 65541 = 65541 /\ dm_get (c_map s) 6 = 0 /\
  steps_taken (init ex_keys) (ex_sched1 ++ ex_sched2) = 19%nat.
Proof. vm_compute. repeat split; reflexivity. Qed.

Print Assumptions inv_step.
Print Assumptions sequential_results.
Print Assumptions plain_maps_locked.
Print Assumptions published_immutable.
Print Assumptions no_deadlock.
Print Assumptions progress_measure.
Print Assumptions termination.
Print Assumptions built_once.
