(* DecodeSound.v -- soundness of the byte-level decoder (the converse of
   DecodeRefines / Corollaries.decode_exact): whenever [decode_object]
   succeeds, the bytes it consumed are the encoding [put (WStruct fs [])] of a
   well-formed wire struct, the count it reports is the length of that
   encoding, and the value it returns is the one the reference decoder
   [absorb_top] computes from that struct.  No depth hypothesis.

   Part A: soundness of the model of the external skipper (Skip.v).
   Part B: soundness of the decoder (Decode.v), by induction on the budget. *)
From Coq Require Import List NArith Bool Lia ZifyN ZifyNat ZifyBool Arith.
From Frugal Require Import Bytes Wire Skip Values Desc Spec Decode Checks.
From Frugal.gen Require Import Params.
From Frugal.proofs Require Import BytesWire EncodeSpec SkipPut DecodeSafe DecodeRefines ParamsSplit.
Import ListNotations.
Open Scope N_scope.

(* ------------------------------------------------------------------ *)
(* bytes                                                                *)
(* ------------------------------------------------------------------ *)

Lemma be_get_snoc : forall h b, be_get (h ++ [b]) = be_get h * 256 + b.
Proof. intros h b. unfold be_get. rewrite fold_left_app. reflexivity. Qed.

Lemma is_byte_true : forall x, is_byte x = true -> x < 256.
Proof. intros x H. unfold is_byte in H. apply N.ltb_lt in H. exact H. Qed.

Lemma be_get_lt : forall h, bytes_ok h = true -> be_get h < 2 ^ (8 * N.of_nat (length h)).
Proof.
  induction h as [|x h IH] using rev_ind; intros H.
  - reflexivity.
  - rewrite bytes_ok_app in H. apply andb_true_iff in H. destruct H as [H1 H2].
    rewrite bytes_ok_cons, bytes_ok_nil, andb_true_r in H2. apply is_byte_true in H2.
    specialize (IH H1).
    rewrite be_get_snoc, app_length. cbn [length]. rewrite Nat.add_1_r, pow8_S.
    set (P := 2 ^ (8 * N.of_nat (length h))) in *. clearbody P. lia.
Qed.

Lemma be_put_get : forall h w, length h = w -> bytes_ok h = true -> be_put w (be_get h) = h.
Proof.
  induction h as [|x h IH] using rev_ind; intros w Hl H.
  - subst w. reflexivity.
  - rewrite bytes_ok_app in H. apply andb_true_iff in H. destruct H as [H1 H2].
    rewrite bytes_ok_cons, bytes_ok_nil, andb_true_r in H2. apply is_byte_true in H2.
    rewrite app_length in Hl. cbn [length] in Hl.
    destruct w as [|w]; [lia|].
    rewrite be_put_S, be_get_snoc.
    assert (E1 : (be_get h * 256 + x) / 256 = be_get h).
    { symmetry. apply (N.div_unique _ 256 _ x); [exact H2|lia]. }
    assert (E2 : (be_get h * 256 + x) mod 256 = x).
    { symmetry. apply (N.mod_unique _ 256 (be_get h) x); [exact H2|lia]. }
    rewrite E1, E2, (IH w); [reflexivity|lia|exact H1].
Qed.

Lemma be_put_get_len : forall h k, len h = N.of_nat k -> bytes_ok h = true -> be_put k (be_get h) = h.
Proof. intros h k Hl H. apply be_put_get; [unfold len in Hl; lia|exact H]. Qed.

Lemma be_get_lt_len : forall h k, len h = N.of_nat k -> bytes_ok h = true ->
  be_get h < 2 ^ (8 * N.of_nat k).
Proof.
  intros h k Hl H. pose proof (be_get_lt h H) as L.
  assert (E : length h = k) by (unfold len in Hl; lia). rewrite E in L. exact L.
Qed.

(* cut n bytes off the front *)
Lemma split_at : forall n (bs : list N), n <= len bs -> exists h r, bs = h ++ r /\ len h = n.
Proof.
  intros n bs H. destruct (take n bs) as [[h r]|] eqn:E.
  - exists h, r. apply take_some in E. exact E.
  - apply take_none in E. lia.
Qed.

Lemma firstn_app_len : forall k (h r : list N), len h = N.of_nat k -> firstn k (h ++ r) = h.
Proof.
  intros k h r Hl. assert (E : k = length h) by (unfold len in Hl; lia). subst k.
  apply firstn_length_app.
Qed.

Lemma app_inj_len : forall A (a a' b b' : list A),
  a ++ b = a' ++ b' -> length a = length a' -> a = a' /\ b = b'.
Proof.
  intros A a. induction a as [|x a IH]; intros a' b b' H Hl; destruct a' as [|x' a'];
    try discriminate Hl.
  - split; [reflexivity|exact H].
  - cbn [app] in H. injection H as Hx H. cbn [length] in Hl.
    destruct (IH a' b b' H ltac:(lia)) as [E1 E2]. subst. split; reflexivity.
Qed.

Lemma bytes_ok_app_l : forall a b, bytes_ok (a ++ b) = true -> bytes_ok a = true.
Proof. intros a b H. rewrite bytes_ok_app in H. apply andb_true_iff in H. tauto. Qed.

Lemma bytes_ok_app_r : forall a b, bytes_ok (a ++ b) = true -> bytes_ok b = true.
Proof. intros a b H. rewrite bytes_ok_app in H. apply andb_true_iff in H. tauto. Qed.

Lemma neg32_false : forall n, neg32 n = false -> n < 2 ^ 31.
Proof. intros n H. unfold neg32 in H. apply N.leb_gt in H. exact H. Qed.

Lemma neg8_false : forall c, neg8 c = false -> c < 128.
Proof. intros c H. unfold neg8 in H. apply N.leb_gt in H. exact H. Qed.

(* ------------------------------------------------------------------ *)
(* building well-formed wire values                                     *)
(* ------------------------------------------------------------------ *)

Lemma wf_list_intro : forall b ec es,
  len es < 2 ^ 31 -> ec < 128 -> (forall e, In e es -> code_of e = ec /\ wf e = true) ->
  wf (WList b ec es) = true.
Proof.
  intros b ec es Hl Hc H. cbn [wf]. unfold lt31.
  apply N.ltb_lt in Hl. apply N.ltb_lt in Hc. rewrite Hl, Hc. cbn [andb].
  apply forallb_forall. intros e He. destruct (H e He) as [H1 H2].
  rewrite H1, N.eqb_refl, H2. reflexivity.
Qed.

Lemma wf_map_intro : forall kc vc es,
  len es < 2 ^ 31 -> kc < 128 -> vc < 128 ->
  (forall kv, In kv es -> code_of (fst kv) = kc /\ code_of (snd kv) = vc
                          /\ wf (fst kv) = true /\ wf (snd kv) = true) ->
  wf (WMap kc vc es) = true.
Proof.
  intros kc vc es Hl Hk Hv H. cbn [wf]. unfold lt31.
  apply N.ltb_lt in Hl. apply N.ltb_lt in Hk. apply N.ltb_lt in Hv. rewrite Hl, Hk, Hv. cbn [andb].
  apply forallb_forall. intros kv He. destruct (H kv He) as (H1 & H2 & H3 & H4).
  rewrite H1, H2, !N.eqb_refl, H3, H4. reflexivity.
Qed.

Lemma wf_struct_intro : forall fs,
  (forall fv, In fv fs -> fst fv < 2 ^ 16 /\ wf (snd fv) = true) -> wf (WStruct fs []) = true.
Proof.
  intros fs H. cbn [wf]. rewrite andb_true_r.
  apply forallb_forall. intros fv He. destruct (H fv He) as [H1 H2].
  apply N.ltb_lt in H1. rewrite H1, H2. reflexivity.
Qed.

Lemma len_eq_of_nat : forall A (l : list A) n, length l = N.to_nat n -> len l = n.
Proof. intros A l n H. unfold len. lia. Qed.

(* ------------------------------------------------------------------ *)
(* scalars: any run of bytes of the right length is a scalar            *)
(* ------------------------------------------------------------------ *)

Definition scalar_codes : list N := [cBOOL; cBYTE; cDOUBLE; cI16; cI32; cI64].

Definition mk_scalar (c : N) (h : list N) : tv :=
  if c =? cBOOL then WBool (be_get h) else if c =? cBYTE then WI8 (be_get h)
  else if c =? cI16 then WI16 (be_get h) else if c =? cI32 then WI32 (be_get h)
  else if c =? cI64 then WI64 (be_get h) else WDbl (be_get h).

Lemma be_put_one_get : forall h, len h = 1 -> bytes_ok h = true -> [be_get h] = h.
Proof.
  intros h Hl H. pose proof (be_get_lt_len h 1 Hl H) as L.
  rewrite <- (be_put_one (be_get h)) by exact L.
  apply (be_put_get_len h 1 Hl H).
Qed.

Lemma mk_scalar_ok : forall c h, In c scalar_codes -> len h = min_size c -> bytes_ok h = true ->
  wf (mk_scalar c h) = true /\ code_of (mk_scalar c h) = c /\ put (mk_scalar c h) = h.
Proof.
  intros c h Hc Hl H. unfold scalar_codes in Hc. cbn [In] in Hc.
  destruct Hc as [E|[E|[E|[E|[E|[E|[]]]]]]]; subst c; unfold mk_scalar.
  - change (min_size cBOOL) with (N.of_nat 1) in Hl.
    change (cBOOL =? cBOOL) with true. cbv iota. cbn [wf code_of].
    pose proof (be_get_lt_len h 1 Hl H) as L. apply N.ltb_lt in L.
    split; [exact L|]. split; [reflexivity|]. rewrite put_bool_eq. apply be_put_one_get; assumption.
  - change (min_size cBYTE) with (N.of_nat 1) in Hl.
    change (cBYTE =? cBOOL) with false. change (cBYTE =? cBYTE) with true. cbv iota. cbn [wf code_of].
    pose proof (be_get_lt_len h 1 Hl H) as L. apply N.ltb_lt in L.
    split; [exact L|]. split; [reflexivity|]. rewrite put_i8_eq. apply be_put_one_get; assumption.
  - change (min_size cDOUBLE) with (N.of_nat 8) in Hl.
    change (cDOUBLE =? cBOOL) with false. change (cDOUBLE =? cBYTE) with false.
    change (cDOUBLE =? cI16) with false. change (cDOUBLE =? cI32) with false.
    change (cDOUBLE =? cI64) with false. cbv iota. cbn [wf code_of].
    pose proof (be_get_lt_len h 8 Hl H) as L. apply N.ltb_lt in L.
    split; [exact L|]. split; [reflexivity|]. rewrite put_dbl_eq. apply be_put_get_len; assumption.
  - change (min_size cI16) with (N.of_nat 2) in Hl.
    change (cI16 =? cBOOL) with false. change (cI16 =? cBYTE) with false.
    change (cI16 =? cI16) with true. cbv iota. cbn [wf code_of].
    pose proof (be_get_lt_len h 2 Hl H) as L. apply N.ltb_lt in L.
    split; [exact L|]. split; [reflexivity|]. rewrite put_i16_eq. apply be_put_get_len; assumption.
  - change (min_size cI32) with (N.of_nat 4) in Hl.
    change (cI32 =? cBOOL) with false. change (cI32 =? cBYTE) with false.
    change (cI32 =? cI16) with false. change (cI32 =? cI32) with true. cbv iota. cbn [wf code_of].
    pose proof (be_get_lt_len h 4 Hl H) as L. apply N.ltb_lt in L.
    split; [exact L|]. split; [reflexivity|]. rewrite put_i32_eq. apply be_put_get_len; assumption.
  - change (min_size cI64) with (N.of_nat 8) in Hl.
    change (cI64 =? cBOOL) with false. change (cI64 =? cBYTE) with false.
    change (cI64 =? cI16) with false. change (cI64 =? cI32) with false.
    change (cI64 =? cI64) with true. cbv iota. cbn [wf code_of].
    pose proof (be_get_lt_len h 8 Hl H) as L. apply N.ltb_lt in L.
    split; [exact L|]. split; [reflexivity|]. rewrite put_i64_eq. apply be_put_get_len; assumption.
Qed.

(* "the first n bytes of bs are a well-formed value of code t" *)
Definition is_put (n t : N) (bs : list N) : Prop :=
  exists w rest, wf w = true /\ code_of w = t /\ bs = put w ++ rest /\ n = len (put w).

Lemma scalar_sound : forall c bs, In c scalar_codes -> min_size c <= len bs -> bytes_ok bs = true ->
  is_put (min_size c) c bs.
Proof.
  intros c bs Hc Hl H. destruct (split_at _ _ Hl) as (h & r & E & Lh). subst bs.
  destruct (mk_scalar_ok c h Hc Lh (bytes_ok_app_l _ _ H)) as (W & C & P).
  exists (mk_scalar c h), r. rewrite P. repeat split; try assumption. symmetry. exact Lh.
Qed.

Lemma scalars_run : forall c k bs, In c scalar_codes ->
  N.of_nat k * min_size c <= len bs -> bytes_ok bs = true ->
  exists es rest, bs = cat_map put es ++ rest /\ length es = k
    /\ len (cat_map put es) = N.of_nat k * min_size c
    /\ forall e, In e es -> code_of e = c /\ wf e = true.
Proof.
  intros c k. induction k as [|k IH]; intros bs Hc Hl H.
  - exists [], bs. split; [reflexivity|]. split; [reflexivity|]. split; [reflexivity|]. intros e [].
  - rewrite Nat2N.inj_succ, N.mul_succ_l in Hl.
    assert (Hl1 : min_size c <= len bs) by lia.
    destruct (scalar_sound c bs Hc Hl1 H) as (w & r & W & C & E & Lw). subst bs.
    rewrite len_app in Hl.
    destruct (IH r Hc ltac:(lia) (bytes_ok_app_r _ _ H)) as (es & rest & E & Le & Lc & Hes).
    exists (w :: es), rest. rewrite cat_map_cons, <- app_assoc, <- E.
    split; [reflexivity|]. split; [cbn [length]; lia|]. split.
    + rewrite len_app, Nat2N.inj_succ, N.mul_succ_l. lia.
    + intros e [He|He]; [subst e; split; assumption|apply Hes; exact He].
Qed.

Lemma entries_run : forall kc vc k bs, In kc scalar_codes -> In vc scalar_codes ->
  N.of_nat k * (min_size kc + min_size vc) <= len bs -> bytes_ok bs = true ->
  exists es rest, bs = cat_map put_entry es ++ rest /\ length es = k
    /\ len (cat_map put_entry es) = N.of_nat k * (min_size kc + min_size vc)
    /\ forall kv, In kv es -> code_of (fst kv) = kc /\ code_of (snd kv) = vc
                              /\ wf (fst kv) = true /\ wf (snd kv) = true.
Proof.
  intros kc vc k. induction k as [|k IH]; intros bs Hk Hv Hl H.
  - exists [], bs. split; [reflexivity|]. split; [reflexivity|]. split; [reflexivity|]. intros e [].
  - rewrite Nat2N.inj_succ, N.mul_succ_l in Hl.
    assert (Hl1 : min_size kc <= len bs) by lia.
    destruct (scalar_sound kc bs Hk Hl1 H) as (w1 & r1 & W1 & C1 & E1 & L1). subst bs.
    rewrite len_app in Hl.
    assert (Hl2 : min_size vc <= len r1) by lia.
    pose proof (bytes_ok_app_r _ _ H) as H1.
    destruct (scalar_sound vc r1 Hv Hl2 H1) as (w2 & r2 & W2 & C2 & E2 & L2). subst r1.
    rewrite len_app in Hl.
    destruct (IH r2 Hk Hv ltac:(lia) (bytes_ok_app_r _ _ H1)) as (es & rest & E & Le & Lc & Hes).
    exists ((w1, w2) :: es), rest. rewrite cat_map_cons.
    change (put_entry (w1, w2)) with (put w1 ++ put w2).
    rewrite <- !app_assoc, <- E.
    split; [reflexivity|]. split; [cbn [length]; lia|]. split.
    + rewrite !len_app, Nat2N.inj_succ, N.mul_succ_l. lia.
    + intros kv [He|He]; [subst kv; cbn [fst snd]; repeat split; assumption|apply Hes; exact He].
Qed.

(* ================================================================== *)
(* Part A.  The skipper                                                 *)
(* ================================================================== *)

(* dec_params_ok fixes gk_size on a list of sample codes only; soundness needs
   to know that NO other code has a positive size in the skipper's table *)
Definition gk_tab_ok : bool :=
  forallb (fun kv : N * N =>
             (snd kv =? 0) || (memN (fst kv) scalar_codes && (snd kv =? min_size (fst kv))))
          gk_typeToSize_tab.

Lemma gk_tab_ok_holds : gk_tab_ok = true.
Proof. vm_compute. reflexivity. Qed.

Lemma lookup_pos_inv : forall t tab,
  forallb (fun kv : N * N =>
             (snd kv =? 0) || (memN (fst kv) scalar_codes && (snd kv =? min_size (fst kv)))) tab = true ->
  0 < Skip.lookupN t tab -> In t scalar_codes /\ Skip.lookupN t tab = min_size t.
Proof.
  intros t tab. induction tab as [|[k v] tab IH]; intros H Hp.
  - cbn [Skip.lookupN] in Hp. lia.
  - cbn [forallb] in H. apply andb_true_iff in H. destruct H as [H1 H2].
    cbn [Skip.lookupN] in Hp |- *. destruct (t =? k) eqn:E.
    + apply N.eqb_eq in E. subst k. cbn [fst snd] in H1.
      apply orb_true_iff in H1. destruct H1 as [H1|H1].
      * apply N.eqb_eq in H1. lia.
      * apply andb_true_iff in H1. destruct H1 as [H1 H3]. apply N.eqb_eq in H3.
        split; [|exact H3]. unfold memN in H1. apply existsb_exists in H1.
        destruct H1 as (x & Hx & Ex). apply N.eqb_eq in Ex. subst x. exact Hx.
    + apply IH; assumption.
Qed.

Definition sk_sound (sk : N -> list N -> sres) : Prop :=
  forall t bs n, sk t bs = SOk n -> n <= len bs -> bytes_ok bs = true -> is_put n t bs.

Section SkipSound.
  Hypothesis HP : dec_params_ok = true.
  Hypothesis HG : gk_tab_ok = true.

  Lemma gk_size_pos_inv : forall t, 0 < gk_size t -> In t scalar_codes /\ gk_size t = min_size t.
  Proof. intros t H. unfold gk_size in *. apply lookup_pos_inv; [exact HG|exact H]. Qed.

  Lemma skipstr_sound : forall bs n, skipstr bs = SOk n -> bytes_ok bs = true -> is_put n cSTRING bs.
  Proof.
    intros bs n H Hb. unfold skipstr in H.
    destruct (4 <=? len bs) eqn:E4; [|discriminate H]. apply N.leb_le in E4.
    destruct (split_at 4 bs E4) as (h & r & E & Lh). subst bs.
    rewrite (firstn_app_len 4 h r Lh) in H.
    destruct (neg32 (be_get h)) eqn:En; [discriminate H|]. apply neg32_false in En.
    destruct (4 + be_get h <=? len (h ++ r)) eqn:El; [|discriminate H]. apply N.leb_le in El.
    apply SOk_inj in H. subst n. rewrite len_app, Lh in El.
    destruct (split_at (be_get h) r ltac:(lia)) as (s & rest & E & Ls). subst r.
    pose proof (bytes_ok_app_l _ _ Hb) as Hh.
    pose proof (bytes_ok_app_l _ _ (bytes_ok_app_r _ _ Hb)) as Hs.
    exists (WStr s), rest. split; [|split; [reflexivity|split]].
    - cbn [wf]. unfold lt31. rewrite Ls, Hs. apply N.ltb_lt in En. rewrite En. reflexivity.
    - rewrite put_str_eq, Ls, (be_put_get_len h 4 Lh Hh), <- app_assoc. reflexivity.
    - rewrite put_str_eq, len_app, Ls, (be_put_get_len h 4 Lh Hh), Lh. reflexivity.
  Qed.

  Section Loops.
    Variable sk : N -> list N -> sres.
    Hypothesis sk_ok : sk_sound sk.

    Lemma skip_one_sound : forall t bs n,
      skip_one sk (gk_size t) t bs = SOk n -> n <= len bs -> bytes_ok bs = true -> is_put n t bs.
    Proof.
      intros t bs n H Hl Hb. unfold skip_one in H.
      destruct (0 <? gk_size t) eqn:E0.
      - apply N.ltb_lt in E0. apply SOk_inj in H. subst n.
        destruct (gk_size_pos_inv t E0) as [Hc Hs]. rewrite Hs in Hl |- *.
        apply scalar_sound; assumption.
      - destruct (t =? gk_STRING) eqn:Es.
        + apply N.eqb_eq in Es. rewrite (gk_STRING_eq HP) in Es. subst t.
          apply skipstr_sound; assumption.
        + apply sk_ok; assumption.
    Qed.

    Lemma skip_elems_sound : forall fuel vt bs i j n pre x,
      skip_elems sk fuel vt (gk_size vt) bs i j = SOk n -> n <= len bs -> bytes_ok bs = true ->
      bs = pre ++ x -> i = len pre ->
      exists es rest, x = cat_map put es ++ rest /\ n = i + len (cat_map put es) /\ len es = j
        /\ forall e, In e es -> code_of e = vt /\ wf e = true.
    Proof.
      induction fuel as [|fuel IH]; intros vt bs i j n pre x H Hn Hb Ebs Ei.
      - rewrite skip_elems_0 in H. destruct (j =? 0) eqn:Ej; [|discriminate H].
        apply N.eqb_eq in Ej. apply SOk_inj in H. subst n j.
        exists [], x. split; [reflexivity|]. split; [rewrite cat_map_nil, len_nil; lia|]. split; [reflexivity|]. intros e [].
      - rewrite skip_elems_S in H. destruct (j =? 0) eqn:Ej.
        { apply N.eqb_eq in Ej. apply SOk_inj in H. subst n j.
          exists [], x. split; [reflexivity|]. split; [rewrite cat_map_nil, len_nil; lia|]. split; [reflexivity|]. intros e []. }
        apply N.eqb_neq in Ej.
        destruct (len bs <=? i) eqn:El; [discriminate H|]. apply N.leb_gt in El.
        destruct (skip_one sk (gk_size vt) vt (drop i bs)) as [vi|e| |] eqn:E1; try discriminate H.
        pose proof (skip_elems_ge _ _ _ _ _ _ _ _ H) as Hge.
        assert (Ed : drop i bs = x) by (rewrite Ebs; apply drop_app_eq; exact Ei).
        rewrite Ed in E1. clear Ed.
        assert (Hlx : len bs = i + len x) by (rewrite Ebs, Ei; apply len_app).
        assert (Hbx : bytes_ok x = true) by (rewrite Ebs in Hb; eapply bytes_ok_app_r; exact Hb).
        destruct (skip_one_sound vt x vi E1 ltac:(lia) Hbx) as (w & x' & W & C & Ex & Lw).
        destruct (IH vt bs (i + vi) (j - 1) n (pre ++ put w) x' H Hn Hb) as (es & rest & E & En & Le & Hes).
        { rewrite Ebs, Ex, <- app_assoc. reflexivity. }
        { rewrite Ei, Lw, len_app. reflexivity. }
        exists (w :: es), rest. rewrite cat_map_cons, <- app_assoc, <- E.
        split; [exact Ex|]. split; [rewrite len_app; lia|]. split; [rewrite len_cons; lia|].
        intros e [He|He]; [subst e; split; assumption|apply Hes; exact He].
    Qed.

    Lemma skip_entries_sound : forall fuel kt vt bs i j n pre x,
      skip_entries sk fuel kt vt (gk_size kt) (gk_size vt) bs i j = SOk n ->
      n <= len bs -> bytes_ok bs = true ->
      bs = pre ++ x -> i = len pre ->
      exists es rest, x = cat_map put_entry es ++ rest /\ n = i + len (cat_map put_entry es)
        /\ len es = j
        /\ forall kv, In kv es -> code_of (fst kv) = kt /\ code_of (snd kv) = vt
                                  /\ wf (fst kv) = true /\ wf (snd kv) = true.
    Proof.
      induction fuel as [|fuel IH]; intros kt vt bs i j n pre x H Hn Hb Ebs Ei.
      - rewrite skip_entries_0 in H. destruct (j =? 0) eqn:Ej; [|discriminate H].
        apply N.eqb_eq in Ej. apply SOk_inj in H. subst n j.
        exists [], x. split; [reflexivity|]. split; [rewrite cat_map_nil, len_nil; lia|]. split; [reflexivity|]. intros e [].
      - rewrite skip_entries_S in H. destruct (j =? 0) eqn:Ej.
        { apply N.eqb_eq in Ej. apply SOk_inj in H. subst n j.
          exists [], x. split; [reflexivity|]. split; [rewrite cat_map_nil, len_nil; lia|]. split; [reflexivity|]. intros e []. }
        apply N.eqb_neq in Ej.
        destruct (len bs <=? i) eqn:El; [discriminate H|]. apply N.leb_gt in El.
        destruct (skip_one sk (gk_size kt) kt (drop i bs)) as [ki|e| |] eqn:E1; try discriminate H.
        destruct (len bs <=? i + ki) eqn:El1; [discriminate H|]. apply N.leb_gt in El1.
        destruct (skip_one sk (gk_size vt) vt (drop (i + ki) bs)) as [vi|e| |] eqn:E2; try discriminate H.
        pose proof (skip_entries_ge _ _ _ _ _ _ _ _ _ _ H) as Hge.
        assert (Ed : drop i bs = x) by (rewrite Ebs; apply drop_app_eq; exact Ei).
        rewrite Ed in E1. clear Ed.
        assert (Hlx : len bs = i + len x) by (rewrite Ebs, Ei; apply len_app).
        assert (Hbx : bytes_ok x = true) by (rewrite Ebs in Hb; eapply bytes_ok_app_r; exact Hb).
        destruct (skip_one_sound kt x ki E1 ltac:(lia) Hbx) as (w1 & x1 & W1 & C1 & Ex & L1).
        assert (Ed1 : drop (i + ki) bs = x1).
        { rewrite Ebs, Ex, app_assoc. apply drop_app_eq. rewrite Ei, L1, len_app. reflexivity. }
        rewrite Ed1 in E2. clear Ed1.
        assert (Hlx1 : len x = ki + len x1) by (rewrite Ex, L1; apply len_app).
        assert (Hbx1 : bytes_ok x1 = true) by (rewrite Ex in Hbx; eapply bytes_ok_app_r; exact Hbx).
        destruct (skip_one_sound vt x1 vi E2 ltac:(lia) Hbx1) as (w2 & x2 & W2 & C2 & Ex1 & L2).
        destruct (IH kt vt bs (i + ki + vi) (j - 1) n (pre ++ put w1 ++ put w2) x2 H Hn Hb)
          as (es & rest & E & En & Le & Hes).
        { rewrite Ebs, Ex, Ex1, <- !app_assoc. reflexivity. }
        { rewrite Ei, L1, L2, !len_app. lia. }
        exists ((w1, w2) :: es), rest. rewrite cat_map_cons.
        change (put_entry (w1, w2)) with (put w1 ++ put w2).
        rewrite <- !app_assoc, <- E.
        split; [rewrite Ex, Ex1; reflexivity|]. split; [rewrite !len_app; lia|].
        split; [rewrite len_cons; lia|].
        intros kv [He|He]; [subst kv; cbn [fst snd]; repeat split; assumption|apply Hes; exact He].
    Qed.

    Lemma nthN_split : forall (bs : list N) i c, nthN bs i = Some c ->
      exists pre x, bs = pre ++ c :: x /\ len pre = i.
    Proof.
      intros bs i c H. unfold nthN in H. destruct (len bs <=? i); [discriminate H|].
      apply nth_error_split in H. destruct H as (pre & x & E & L).
      exists pre, x. split; [exact E|]. unfold len. lia.
    Qed.

    Lemma skip_fields_sound : forall fuel bs i n pre x,
      skip_fields sk fuel bs i = SOk n -> n <= len bs -> bytes_ok bs = true ->
      bs = pre ++ x -> i = len pre ->
      exists fs rest, x = put_fields fs ++ cSTOP :: rest /\ n = i + len (put_fields fs) + 1
        /\ forall fv, In fv fs -> fst fv < 2 ^ 16 /\ wf (snd fv) = true.
    Proof.
      induction fuel as [|fuel IH]; intros bs i n pre x H Hn Hb Ebs Ei.
      - cbn [skip_fields] in H. discriminate H.
      - rewrite skip_fields_S in H.
        destruct (nthN bs i) as [ft|] eqn:En; [|discriminate H].
        apply nthN_split in En. destruct En as (pre' & x' & E' & L').
        assert (Epre : pre' = pre /\ ft :: x' = x).
        { rewrite Ebs in E'. apply app_inj_len in E'; [destruct E'; split; congruence|].
          unfold len in *. lia. }
        destruct Epre as [-> <-]. clear E' L'.
        destruct (ft =? gk_STOP) eqn:Es.
        { apply N.eqb_eq in Es. rewrite (gk_STOP_eq HP) in Es. subst ft.
          apply SOk_inj in H. subst n.
          exists [], x'. split; [reflexivity|]. split; [cbn [put_fields cat_map]; rewrite len_nil; lia|].
          intros fv []. }
        destruct (len bs <=? i + 3) eqn:El; [discriminate H|]. apply N.leb_gt in El.
        destruct (neg8 ft) eqn:E8; [discriminate H|].
        destruct (skip_one sk (gk_size ft) ft (drop (i + 3) bs)) as [fi|e| |] eqn:E1; try discriminate H.
        (* the two id bytes *)
        assert (Hlx : len bs = i + 1 + len x') by (subst bs i; rewrite len_app, len_cons; lia).
        destruct (split_at 2 x' ltac:(lia)) as (idb & y & Ey & Lid). subst x'.
        assert (Ed : drop (i + 3) bs = y).
        { subst bs. change (pre ++ ft :: idb ++ y) with (pre ++ (ft :: idb) ++ y).
          rewrite app_assoc. apply drop_app_eq. subst i. rewrite len_app, len_cons. lia. }
        rewrite Ed in E1. clear Ed.
        assert (Hby : bytes_ok y = true).
        { subst bs. apply bytes_ok_app_r in Hb. rewrite bytes_ok_cons in Hb.
          apply andb_true_iff in Hb. destruct Hb as [_ Hb]. eapply bytes_ok_app_r. exact Hb. }
        assert (Hbid : bytes_ok idb = true).
        { subst bs. apply bytes_ok_app_r in Hb. rewrite bytes_ok_cons in Hb.
          apply andb_true_iff in Hb. destruct Hb as [_ Hb]. eapply bytes_ok_app_l. exact Hb. }
        assert (Hge : i + 3 + fi <= n).
        { clear - H. revert H. generalize (i + 3 + fi). intros m H.
          destruct fuel as [|fuel]; [discriminate H|]. rewrite skip_fields_S in H.
          destruct (nthN bs m) as [c|] eqn:En; [|discriminate H].
          unfold nthN in En. destruct (len bs <=? m) eqn:E; [discriminate En|]. apply N.leb_gt in E.
          destruct (c =? gk_STOP). { apply SOk_inj in H. lia. }
          destruct (len bs <=? m + 3); [discriminate H|]. destruct (neg8 c); [discriminate H|].
          destruct (skip_one sk (gk_size c) c (drop (m + 3) bs)) as [fi'|e| |]; try discriminate H.
          (* the final offset is past every earlier one *)
          assert (G : forall f b k r, skip_fields sk f b k = SOk r -> k < r).
          { clear. induction f as [|f IHf]; intros b k r Hk; [discriminate Hk|].
            rewrite skip_fields_S in Hk. destruct (nthN b k); [|discriminate Hk].
            destruct (n =? gk_STOP). { apply SOk_inj in Hk. lia. }
            destruct (len b <=? k + 3); [discriminate Hk|]. destruct (neg8 n); [discriminate Hk|].
            destruct (skip_one sk (gk_size n) n (drop (k + 3) b)) as [q|e| |]; try discriminate Hk.
            apply IHf in Hk. lia. }
          apply G in H. lia. }
        rewrite len_app in Hlx.
        destruct (skip_one_sound ft y fi E1 ltac:(lia) Hby) as (w & y' & W & C & Ey & Lw).
        destruct (IH bs (i + 3 + fi) n (pre ++ ft :: idb ++ put w) y' H Hn Hb) as (fs & rest & E & En & Hfs).
        { rewrite Ebs, Ey. cbn [app]. rewrite <- ?app_assoc. cbn [app]. rewrite <- ?app_assoc. reflexivity. }
        { rewrite Ei, Lw, len_app, len_cons, len_app. lia. }
        exists ((be_get idb, w) :: fs), rest.
        rewrite put_fields_cons, put_field_eq.
        rewrite (be_put_get_len idb 2 Lid Hbid), C.
        split.
        { rewrite Ey, E. cbn [app]. rewrite <- ?app_assoc. cbn [app]. rewrite <- ?app_assoc. reflexivity. }
        split.
        { rewrite len_app, len_cons, len_app. lia. }
        intros fv [He|He]; [|apply Hfs; exact He]. subst fv. cbn [fst snd].
        split; [|exact W]. apply (be_get_lt_len idb 2 Lid Hbid).
    Qed.
  End Loops.

  Theorem skip_type_sound : forall d, sk_sound (skip_type d).
  Proof.
    destruct (gk_consts HP) as (_ & Gstr & Gstruct & Gmap & Gset & Glist).
    induction d as [|d IH]; intros t bs n H Hn Hb.
    - cbn [skip_type] in H. discriminate H.
    - rewrite skip_type_S in H.
      destruct (neg8 t) eqn:E8; [discriminate H|].
      destruct (0 <? gk_size t) eqn:E0.
      { apply N.ltb_lt in E0. destruct (len bs <? gk_size t) eqn:El; [discriminate H|].
        apply N.ltb_ge in El. apply SOk_inj in H. subst n.
        destruct (gk_size_pos_inv t E0) as [Hc Hs]. rewrite Hs in El |- *.
        apply scalar_sound; assumption. }
      rewrite Gstr, Gmap, Glist, Gset, Gstruct in H.
      destruct (t =? cSTRING) eqn:Es.
      { apply N.eqb_eq in Es. subst t. apply skipstr_sound; assumption. }
      destruct (t =? cMAP) eqn:Em.
      { apply N.eqb_eq in Em. subst t.
        destruct (len bs <? 6) eqn:E6; [discriminate H|]. apply N.ltb_ge in E6.
        destruct bs as [|kt [|vt r]]; try discriminate H.
        rewrite !len_cons in E6.
        destruct (split_at 4 r ltac:(lia)) as (h & r1 & Er & Lh). subst r.
        rewrite (firstn_app_len 4 h r1 Lh) in H.
        destruct (neg32 (be_get h)) eqn:E32; [discriminate H|]. apply neg32_false in E32.
        destruct (neg8 kt || neg8 vt) eqn:Ekv; [discriminate H|].
        apply orb_false_iff in Ekv. destruct Ekv as [Ek Ev].
        apply neg8_false in Ek. apply neg8_false in Ev.
        assert (Hbh : bytes_ok h = true).
        { rewrite !bytes_ok_cons in Hb. apply andb_true_iff in Hb. destruct Hb as [_ Hb].
          apply andb_true_iff in Hb. destruct Hb as [_ Hb]. eapply bytes_ok_app_l. exact Hb. }
        assert (Hb1 : bytes_ok r1 = true).
        { rewrite !bytes_ok_cons in Hb. apply andb_true_iff in Hb. destruct Hb as [_ Hb].
          apply andb_true_iff in Hb. destruct Hb as [_ Hb]. eapply bytes_ok_app_r. exact Hb. }
        pose proof (be_put_get_len h 4 Lh Hbh) as Eh.
        set (sz := be_get h) in *.
        destruct ((0 <? gk_size kt) && (0 <? gk_size vt)) eqn:Efast.
        - apply andb_true_iff in Efast. destruct Efast as [Fk Fv].
          apply N.ltb_lt in Fk. apply N.ltb_lt in Fv.
          destruct (gk_size_pos_inv kt Fk) as [Ck Sk]. destruct (gk_size_pos_inv vt Fv) as [Cv Sv].
          rewrite Sk, Sv in H.
          match type of H with (if ?c then _ else _) = _ => destruct c eqn:El end; [discriminate H|].
          apply N.ltb_ge in El. apply SOk_inj in H. subst n.
          rewrite !len_cons, len_app, Lh in El.
          destruct (entries_run kt vt (N.to_nat sz) r1 Ck Cv) as (es & rest & E & Le & Lc & Hes).
          { rewrite N2Nat.id. lia. }
          { exact Hb1. }
          rewrite N2Nat.id in Lc. apply len_eq_of_nat in Le.
          exists (WMap kt vt es), rest. split; [|split; [reflexivity|split]].
          + apply wf_map_intro; [rewrite Le; exact E32|exact Ek|exact Ev|exact Hes].
          + rewrite put_map_eq, Le, Eh. cbn [app]. rewrite <- app_assoc, <- E. reflexivity.
          + rewrite put_map_eq, Le, Eh, !len_cons, len_app, Lh, Lc. lia.
        - destruct (skip_entries_sound (skip_type d) IH _ kt vt _ 6 sz n (kt :: vt :: h) r1 H Hn Hb)
            as (es & rest & E & En & Le & Hes).
          { cbn [app]. reflexivity. }
          { rewrite !len_cons, Lh. reflexivity. }
          exists (WMap kt vt es), rest. split; [|split; [reflexivity|split]].
          + apply wf_map_intro; [rewrite Le; exact E32|exact Ek|exact Ev|exact Hes].
          + rewrite put_map_eq, Le, Eh. cbn [app]. rewrite <- app_assoc, <- E. reflexivity.
          + rewrite put_map_eq, Le, Eh, !len_cons, len_app, Lh. lia. }
      destruct ((t =? cLIST) || (t =? cSET)) eqn:Els.
      { destruct (len bs <? 5) eqn:E5; [discriminate H|]. apply N.ltb_ge in E5.
        destruct bs as [|vt r]; try discriminate H.
        rewrite len_cons in E5.
        destruct (split_at 4 r ltac:(lia)) as (h & r1 & Er & Lh). subst r.
        rewrite (firstn_app_len 4 h r1 Lh) in H.
        destruct (neg32 (be_get h)) eqn:E32; [discriminate H|]. apply neg32_false in E32.
        destruct (neg8 vt) eqn:Ev; [discriminate H|]. apply neg8_false in Ev.
        assert (Hbh : bytes_ok h = true).
        { rewrite bytes_ok_cons in Hb. apply andb_true_iff in Hb. destruct Hb as [_ Hb].
          eapply bytes_ok_app_l. exact Hb. }
        assert (Hb1 : bytes_ok r1 = true).
        { rewrite bytes_ok_cons in Hb. apply andb_true_iff in Hb. destruct Hb as [_ Hb].
          eapply bytes_ok_app_r. exact Hb. }
        pose proof (be_put_get_len h 4 Lh Hbh) as Eh.
        set (sz := be_get h) in *.
        assert (Ecode : exists b : bool, t = if b then cSET else cLIST).
        { apply orb_true_iff in Els. destruct Els as [E|E]; apply N.eqb_eq in E; subst t;
            [exists false|exists true]; reflexivity. }
        destruct Ecode as [b Et].
        destruct (0 <? gk_size vt) eqn:Efast.
        - apply N.ltb_lt in Efast. destruct (gk_size_pos_inv vt Efast) as [Cv Sv].
          rewrite Sv in H.
          match type of H with (if ?c then _ else _) = _ => destruct c eqn:El end; [discriminate H|].
          apply N.ltb_ge in El. apply SOk_inj in H. subst n.
          rewrite len_cons, len_app, Lh in El.
          destruct (scalars_run vt (N.to_nat sz) r1 Cv) as (es & rest & E & Le & Lc & Hes).
          { rewrite N2Nat.id. lia. }
          { exact Hb1. }
          rewrite N2Nat.id in Lc. apply len_eq_of_nat in Le.
          exists (WList b vt es), rest. split; [|split; [|split]].
          + apply wf_list_intro; [rewrite Le; exact E32|exact Ev|exact Hes].
          + rewrite code_of_list. symmetry. exact Et.
          + rewrite put_list_eq, Le, Eh. cbn [app]. rewrite <- app_assoc, <- E. reflexivity.
          + rewrite put_list_eq, Le, Eh, len_cons, len_app, Lh, Lc. lia.
        - destruct (skip_elems_sound (skip_type d) IH _ vt _ 5 sz n (vt :: h) r1 H Hn Hb)
            as (es & rest & E & En & Le & Hes).
          { cbn [app]. reflexivity. }
          { rewrite len_cons, Lh. reflexivity. }
          exists (WList b vt es), rest. split; [|split; [|split]].
          + apply wf_list_intro; [rewrite Le; exact E32|exact Ev|exact Hes].
          + rewrite code_of_list. symmetry. exact Et.
          + rewrite put_list_eq, Le, Eh. cbn [app]. rewrite <- app_assoc, <- E. reflexivity.
          + rewrite put_list_eq, Le, Eh, len_cons, len_app, Lh. lia. }
      destruct (t =? cSTRUCT) eqn:Est; [|discriminate H].
      apply N.eqb_eq in Est. subst t.
      destruct (skip_fields_sound (skip_type d) IH _ bs 0 n [] bs H Hn Hb eq_refl eq_refl)
        as (fs & rest & E & En & Hfs).
      exists (WStruct fs []), rest. split; [|split; [reflexivity|split]].
      + apply wf_struct_intro. exact Hfs.
      + rewrite put_struct_eq. cbn [app]. rewrite <- app_assoc. exact E.
      + rewrite put_struct_eq. cbn [app]. rewrite len_app. change (len [cSTOP]) with 1. lia.
  Qed.

  Corollary gk_skip_sound : forall bs t n,
    gk_skip bs t = SOk n -> n <= len bs -> bytes_ok bs = true -> is_put n t bs.
  Proof.
    intros bs t n H. unfold gk_skip in H. destruct bs as [|b bs]; [discriminate H|].
    revert H. apply skip_type_sound.
  Qed.
End SkipSound.

(* ================================================================== *)
(* Part B.  The decoder                                                 *)
(* ================================================================== *)

Lemma scalar_cwt : forall t, is_scalar_ty t = true ->
  In (cwt t) scalar_codes /\ min_size (cwt t) = wire_width t.
Proof.
  intros t H. destruct t; try discriminate H;
    (split; [unfold scalar_codes; cbn [cwt]; in_list|reflexivity]).
Qed.

Lemma rfc_rfu : forall t bs v r,
  read_fixed_checked t bs = DOk v r -> read_fixed_unchecked t bs = DOk v r.
Proof.
  intros t bs v r H. unfold read_fixed_checked in H.
  destruct (short bs (fixed_size t)); [discriminate H|exact H].
Qed.

Lemma dwrap_ok : forall t (x : dres val) v r, dwrap t x = DOk v r ->
  exists v0, x = DOk v0 r /\ v = wrap_ptr t v0.
Proof.
  intros t x v r H. destruct x as [v0 r0| | |]; cbn [dwrap] in H; try discriminate H.
  exists v0. injection H as Hv Hr. subst. split; reflexivity.
Qed.

Section DecSound.
  Variable env : senv.
  Variable fuel : nat.
  Variable pool : list N.
  Hypothesis HP : dec_params_ok = true.
  Hypothesis HE : env_ok env = true.
  Hypothesis HG : gk_tab_ok = true.

  (* the slot of type t was filled from the bytes of a well-formed value w of
     the slot's wire code, and holds what the reference decoder makes of w *)
  Definition slot_ok (t : ty) (bs : list N) (prior v : val) (rest : list N) : Prop :=
    exists w, wf w = true /\ code_of w = wt t /\ bs = put w ++ rest
              /\ absorb env t w prior = AOk v.

  Definition dt_sound (dt : ty -> list N -> val -> dres val) : Prop :=
    forall t bs prior v rest, dt t bs prior = DOk v rest ->
      ty_ok env t = true -> bytes_ok bs = true -> slot_ok t bs prior v rest.

  (* ---- fixed-size kinds ---- *)
  Lemma read_fixed_sound : forall t bs v rest prior,
    ty_ok env t = true -> (0 <? fixed_size t) = true ->
    read_fixed_unchecked (deref_ty t) bs = DOk v rest -> bytes_ok bs = true ->
    slot_ok t bs prior (wrap_ptr t v) rest.
  Proof.
    intros t bs v rest prior Hok Hf H Hb.
    pose proof (fixed_pos_scalar HP env t Hok Hf) as Hs.
    destruct (ty_ok_deref env t Hok) as [_ Hp].
    pose proof H as H'. unfold read_fixed_unchecked in H'.
    destruct (take (fixed_size (deref_ty t)) bs) as [[h r]|] eqn:Et; [|discriminate H'].
    assert (Er : r = rest) by congruence. subst r. clear H'.
    apply take_some in Et. destruct Et as [Ebs Lh].
    rewrite (fixed_size_nonptr HP _ Hp) in Lh.
    destruct (scalar_cwt _ Hs) as [Hc Hm].
    destruct (mk_scalar_ok (cwt (deref_ty t)) h Hc) as (W & C & P).
    { rewrite Lh. symmetry. exact Hm. }
    { rewrite Ebs in Hb. eapply bytes_ok_app_l. exact Hb. }
    assert (Hcode : code_of (mk_scalar (cwt (deref_ty t)) h) = wt t).
    { rewrite C, <- (wt_cwt HP), wt_deref. reflexivity. }
    exists (mk_scalar (cwt (deref_ty t)) h).
    split; [exact W|]. split; [exact Hcode|]. split; [rewrite P; exact Ebs|].
    destruct (fixed_slot HP env t _ rest prior Hok Hf Hcode W) as (v' & A & R1 & _).
    rewrite P, <- Ebs, H in R1. assert (v' = v) by congruence. subst v'. exact A.
  Qed.

  (* ---- strings ---- *)
  Lemma dec_string_sound : forall bs v rest, dec_string bs = DOk v rest -> bytes_ok bs = true ->
    exists s, wf (WStr s) = true /\ bs = put (WStr s) ++ rest /\ v = VB false s.
  Proof.
    intros bs v rest H Hb. destruct (hdr_eqs HP) as (_ & _ & _ & Hh).
    unfold dec_string in H. rewrite Hh in H.
    destruct (short bs 4); [discriminate H|].
    destruct (take 4 bs) as [[h r]|] eqn:Et; [|discriminate H].
    apply take_some in Et. destruct Et as [Ebs Lh]. cbv zeta in H.
    destruct (neg32 (be_get h)) eqn:E32; [discriminate H|]. apply neg32_false in E32.
    rewrite Ebs in Hb.
    pose proof (bytes_ok_app_l _ _ Hb) as Hbh. pose proof (bytes_ok_app_r _ _ Hb) as Hbr.
    pose proof (be_put_get_len h 4 Lh Hbh) as Eh.
    destruct (be_get h =? 0) eqn:E0.
    - apply N.eqb_eq in E0. injection H as Hv Hr. subst v r.
      exists []. split; [reflexivity|]. split; [|reflexivity].
      rewrite put_str_eq, len_nil, <- E0, Eh, app_nil_r. exact Ebs.
    - destruct (short r (be_get h)); [discriminate H|].
      destruct (take (be_get h) r) as [[s r']|] eqn:Et; [|discriminate H].
      injection H as Hv Hr. subst v r'.
      apply take_some in Et. destruct Et as [Er Ls].
      exists s. split; [|split; [|reflexivity]].
      + cbn [wf]. unfold lt31. rewrite Ls. apply N.ltb_lt in E32. rewrite E32.
        rewrite Er in Hbr. rewrite (bytes_ok_app_l _ _ Hbr). reflexivity.
      + rewrite put_str_eq, Ls, Eh, <- app_assoc, <- Er. exact Ebs.
  Qed.

  Lemma wt_strlike : forall t, is_strlike t = true -> wt t = cSTRING.
  Proof.
    intros t H. destruct (codes_eqs (dec_enc HP)) as (_ & _ & _ & _ & _ & _ & _ & E7 & _).
    unfold is_strlike in H. rewrite <- wt_deref.
    destruct (deref_ty t); try discriminate H; exact E7.
  Qed.

  Lemma string_slot : forall t bs v rest prior,
    is_strlike t = true -> dec_string bs = DOk v rest -> bytes_ok bs = true ->
    slot_ok t bs prior (wrap_ptr t v) rest.
  Proof.
    intros t bs v rest prior Hs H Hb.
    destruct (dec_string_sound bs v rest H Hb) as (s & W & Ebs & Ev). subst v.
    exists (WStr s). split; [exact W|]. split; [symmetry; apply wt_strlike; exact Hs|].
    split; [exact Ebs|]. rewrite absorb_WStr. unfold is_strlike in Hs.
    destruct (deref_ty t); try discriminate Hs; reflexivity.
  Qed.

  Section Loops.
    Variable dt : ty -> list N -> val -> dres val.
    Hypothesis dt_ok : dt_sound dt.

    Lemma dec_elem_sound : forall e bs v rest,
      dec_elem env dt e bs = DOk v rest -> ty_ok env e = true -> bytes_ok bs = true ->
      slot_ok e bs (zero_of env e) v rest.
    Proof.
      intros e bs v rest H Hok Hb. unfold dec_elem in H.
      destruct (0 <? fixed_size e) eqn:Ef.
      - apply (dwrap_ok e (read_fixed_unchecked (deref_ty e) bs)) in H.
        destruct H as (v0 & R & Ev). subst v.
        apply read_fixed_sound; assumption.
      - apply dt_ok; assumption.
    Qed.

    Lemma dec_kv_sound : forall e bs v rest,
      dec_kv env dt e bs = DOk v rest -> ty_ok env e = true -> bytes_ok bs = true ->
      slot_ok e bs (zero_of env e) v rest.
    Proof.
      intros e bs v rest H Hok Hb. unfold dec_kv in H.
      destruct (0 <? fixed_size e) eqn:Ef.
      - apply (dwrap_ok e (read_fixed_checked (deref_ty e) bs)) in H.
        destruct H as (v0 & R & Ev). subst v. apply rfc_rfu in R.
        apply read_fixed_sound; assumption.
      - apply dt_ok; assumption.
    Qed.

    (* ---- lists ---- *)
    Lemma dec_list_elems_sound : forall n e bs xs rest,
      dec_list_elems env dt n e bs = DOk xs rest -> ty_ok env e = true -> bytes_ok bs = true ->
      exists es, length es = n /\ bs = cat_map put es ++ rest
        /\ (forall x, In x es -> code_of x = wt e /\ wf x = true)
        /\ ab_elems (absorb env) env e es = AOk xs.
    Proof.
      induction n as [|n IH]; intros e bs xs rest H Hok Hb; cbn [dec_list_elems] in H.
      - injection H as Hx Hr. subst xs rest. exists [].
        split; [reflexivity|]. split; [reflexivity|]. split; [intros x []|reflexivity].
      - destruct (dec_elem env dt e bs) as [x r| | |] eqn:E1; try discriminate H.
        destruct (dec_list_elems env dt n e r) as [xs' r'| | |] eqn:E2; try discriminate H.
        injection H as Hx Hr. subst xs r'.
        destruct (dec_elem_sound e bs x r E1 Hok Hb) as (w & W & C & Ebs & A).
        assert (Hbr : bytes_ok r = true) by (rewrite Ebs in Hb; eapply bytes_ok_app_r; exact Hb).
        destruct (IH e r xs' rest E2 Hok Hbr) as (es & Le & Er & Hes & Aes).
        exists (w :: es). split; [cbn [length]; lia|]. split.
        { rewrite cat_map_cons, <- app_assoc, <- Er. exact Ebs. }
        split.
        { intros y [Hy|Hy]; [subst y; split; assumption|apply Hes; exact Hy]. }
        cbn [ab_elems]. rewrite A, Aes. reflexivity.
    Qed.

    Lemma dec_list_sound : forall e bs v rest (b : bool),
      dec_list env dt e bs = DOk v rest -> ty_ok env e = true -> bytes_ok bs = true ->
      exists es xs, wf (WList b (wt e) es) = true /\ bs = put (WList b (wt e) es) ++ rest
        /\ ab_elems (absorb env) env e es = AOk xs /\ v = VL (Some xs).
    Proof.
      intros e bs v rest b H Hok Hb. destruct (hdr_eqs HP) as (_ & _ & Hh & _).
      pose proof (wt_lt128 (dec_enc HP) e) as H128. apply N.ltb_lt in H128.
      unfold dec_list in H. rewrite Hh in H.
      destruct (short bs 5); [discriminate H|].
      destruct bs as [|tp r]; [discriminate H|].
      destruct (take 4 r) as [[h r1]|] eqn:Et; [|discriminate H].
      apply take_some in Et. destruct Et as [Er Lh]. cbv zeta in H.
      destruct (neg32 (be_get h)) eqn:E32; [discriminate H|]. apply neg32_false in E32.
      destruct (wt e =? tp) eqn:Etp; cbn [negb] in H; [|discriminate H].
      apply N.eqb_eq in Etp. subst tp.
      rewrite bytes_ok_cons in Hb. apply andb_true_iff in Hb. destruct Hb as [_ Hb].
      rewrite Er in Hb.
      pose proof (bytes_ok_app_l _ _ Hb) as Hbh. pose proof (bytes_ok_app_r _ _ Hb) as Hb1.
      pose proof (be_put_get_len h 4 Lh Hbh) as Eh.
      destruct (be_get h =? 0) eqn:E0.
      - apply N.eqb_eq in E0. injection H as Hv Hr. subst v r1.
        exists [], []. split; [apply wf_list_intro; [rewrite len_nil; lia|exact H128|intros x []]|].
        split; [|split; reflexivity].
        rewrite put_list_eq, len_nil, <- E0, Eh. cbn [cat_map]. rewrite app_nil_r, Er. reflexivity.
      - destruct (min_wire (wt e) =? 0); [discriminate H|].
        destruct (short r1 (be_get h * min_wire (wt e))); [discriminate H|].
        destruct (dec_list_elems env dt (N.to_nat (be_get h)) e r1) as [xs r'| | |] eqn:E1;
          try discriminate H.
        injection H as Hv Hr. subst v r'.
        destruct (dec_list_elems_sound _ e r1 xs rest E1 Hok Hb1) as (es & Le & Er1 & Hes & Aes).
        apply len_eq_of_nat in Le.
        exists es, xs. split; [apply wf_list_intro; [rewrite Le; exact E32|exact H128|exact Hes]|].
        split; [|split; [exact Aes|reflexivity]].
        rewrite put_list_eq, Le, Eh. cbn [app]. rewrite <- app_assoc, <- Er1, Er. reflexivity.
    Qed.

    (* ---- maps ---- *)
    Lemma dec_map_entries_sound : forall n kt vt bs acc m rest,
      dec_map_entries env dt n kt vt bs acc = DOk m rest ->
      ty_ok env kt = true -> ty_ok env vt = true -> bytes_ok bs = true ->
      exists es, length es = n /\ bs = cat_map put_entry es ++ rest
        /\ (forall kv, In kv es -> code_of (fst kv) = wt kt /\ code_of (snd kv) = wt vt
                                   /\ wf (fst kv) = true /\ wf (snd kv) = true)
        /\ ab_entries (absorb env) env kt vt es acc = AOk m.
    Proof.
      induction n as [|n IH]; intros kt vt bs acc m rest H Hk Hv Hb; cbn [dec_map_entries] in H.
      - injection H as Hx Hr. subst m rest. exists [].
        split; [reflexivity|]. split; [reflexivity|]. split; [intros x []|reflexivity].
      - destruct (dec_kv env dt kt bs) as [k r| | |] eqn:E1; try discriminate H.
        destruct (dec_kv env dt vt r) as [v r2| | |] eqn:E2; try discriminate H.
        destruct (dec_kv_sound kt bs k r E1 Hk Hb) as (w1 & W1 & C1 & Ebs & A1).
        assert (Hbr : bytes_ok r = true) by (rewrite Ebs in Hb; eapply bytes_ok_app_r; exact Hb).
        destruct (dec_kv_sound vt r v r2 E2 Hv Hbr) as (w2 & W2 & C2 & Er & A2).
        assert (Hbr2 : bytes_ok r2 = true) by (rewrite Er in Hbr; eapply bytes_ok_app_r; exact Hbr).
        destruct (IH kt vt r2 _ m rest H Hk Hv Hbr2) as (es & Le & Er2 & Hes & Aes).
        exists ((w1, w2) :: es). split; [cbn [length]; lia|]. split.
        { rewrite cat_map_cons. change (put_entry (w1, w2)) with (put w1 ++ put w2).
          rewrite <- !app_assoc, <- Er2, <- Er. exact Ebs. }
        split.
        { intros y [Hy|Hy]; [subst y; cbn [fst snd]; repeat split; assumption|apply Hes; exact Hy]. }
        cbn [ab_entries]. rewrite A1, A2, <- (map_insert_ainsert kt acc k v). exact Aes.
    Qed.

    Lemma dec_map_sound : forall kt vt bs v rest,
      dec_map env dt kt vt bs = DOk v rest ->
      ty_ok env kt = true -> ty_ok env vt = true -> bytes_ok bs = true ->
      exists es m, wf (WMap (wt kt) (wt vt) es) = true /\ bs = put (WMap (wt kt) (wt vt) es) ++ rest
        /\ ab_entries (absorb env) env kt vt es [] = AOk m /\ v = VM (Some m).
    Proof.
      intros kt vt bs v rest H Hk Hv Hb. destruct (hdr_eqs HP) as (_ & Hh & _ & _).
      pose proof (wt_lt128 (dec_enc HP) kt) as K128. apply N.ltb_lt in K128.
      pose proof (wt_lt128 (dec_enc HP) vt) as V128. apply N.ltb_lt in V128.
      unfold dec_map in H. rewrite Hh in H.
      destruct (short bs 6); [discriminate H|].
      destruct bs as [|t0 [|t1 r]]; try discriminate H.
      destruct (take 4 r) as [[h r1]|] eqn:Et; [|discriminate H].
      apply take_some in Et. destruct Et as [Er Lh]. cbv zeta in H.
      destruct (neg32 (be_get h)) eqn:E32; [discriminate H|]. apply neg32_false in E32.
      destruct ((t0 =? wt kt) && (t1 =? wt vt)) eqn:Etp; cbn [negb] in H; [|discriminate H].
      apply andb_true_iff in Etp. destruct Etp as [E0 E1].
      apply N.eqb_eq in E0. apply N.eqb_eq in E1. subst t0 t1.
      rewrite !bytes_ok_cons in Hb. apply andb_true_iff in Hb. destruct Hb as [_ Hb].
      apply andb_true_iff in Hb. destruct Hb as [_ Hb]. rewrite Er in Hb.
      pose proof (bytes_ok_app_l _ _ Hb) as Hbh. pose proof (bytes_ok_app_r _ _ Hb) as Hb1.
      pose proof (be_put_get_len h 4 Lh Hbh) as Eh.
      destruct (min_wire (wt kt) + min_wire (wt vt) =? 0); [discriminate H|].
      destruct (short r1 (be_get h * (min_wire (wt kt) + min_wire (wt vt)))); [discriminate H|].
      destruct (dec_map_entries env dt (N.to_nat (be_get h)) kt vt r1 []) as [m r'| | |] eqn:Em;
        try discriminate H.
      injection H as Hv' Hr. subst v r'.
      destruct (dec_map_entries_sound _ kt vt r1 [] m rest Em Hk Hv Hb1) as (es & Le & Er1 & Hes & Aes).
      apply len_eq_of_nat in Le.
      exists es, m.
      split; [apply wf_map_intro; [rewrite Le; exact E32|exact K128|exact V128|exact Hes]|].
      split; [|split; [exact Aes|reflexivity]].
      rewrite put_map_eq, Le, Eh. cbn [app]. rewrite <- app_assoc, <- Er1, Er. reflexivity.
    Qed.

    (* ---- structs ---- *)
    Lemma field_res_sound : forall f prior bs v rest,
      field_res dt f prior bs = DOk v rest -> field_ok env f = true -> bytes_ok bs = true ->
      slot_ok (fty f) bs prior v rest.
    Proof.
      intros f prior bs v rest H Hf Hb. unfold field_ok in Hf. andb_all.
      match goal with H : ty_ok env (fty f) = true |- _ => rename H into Hok end.
      match goal with H : negb (fnocopy f) || _ = true |- _ => rename H into Hnc end.
      unfold field_res in H.
      destruct (0 <? fixed_size (fty f)) eqn:Ef.
      - apply dwrap_ok in H. destruct H as (v0 & R & Ev). subst v. apply rfc_rfu in R.
        apply read_fixed_sound; assumption.
      - destruct (fnocopy f) eqn:En.
        + cbn [negb orb] in Hnc.
          apply dwrap_ok in H. destruct H as (v0 & R & Ev). subst v.
          apply string_slot; assumption.
        + apply dt_ok; assumption.
    Qed.

    Lemma dec_fields_sound : forall sd,
      (forall f, In f (sfields sd) -> field_ok env f = true) ->
      forall fl bs cur seen unk cur' seen' unk' rest,
      dec_fields dt fl sd bs cur seen unk = DOk (cur', seen', unk') rest -> bytes_ok bs = true ->
      exists fs sn, bs = put_fields fs ++ cSTOP :: rest
        /\ (forall fv, In fv fs -> fst fv < 2 ^ 16 /\ wf (snd fv) = true)
        /\ seen' = sn ++ seen
        /\ forall sa, ab_fields (absorb env) sd fs cur sa unk = AOk (cur', sn ++ sa, unk').
    Proof.
      intros sd Hsd. destruct (codes_eqs (dec_enc HP)) as (E0 & _).
      induction fl as [|fl IH]; intros bs cur seen unk cur' seen' unk' rest H Hb.
      - rewrite dec_fields_O in H. discriminate H.
      - rewrite dec_fields_S in H.
        destruct bs as [|tp r]; [discriminate H|].
        rewrite E0 in H.
        destruct (tp =? cSTOP) eqn:Es.
        { apply N.eqb_eq in Es. subst tp. injection H as H1 H2 H3 H4. subst cur' seen' unk' r.
          exists [], []. split; [reflexivity|]. split; [intros fv []|]. split; reflexivity. }
        destruct (short r 2); [discriminate H|].
        destruct (take 2 r) as [[idb r1]|] eqn:Et; [|discriminate H].
        apply take_some in Et. destruct Et as [Er Lid].
        rewrite bytes_ok_cons in Hb. apply andb_true_iff in Hb. destruct Hb as [_ Hb].
        rewrite Er in Hb.
        pose proof (bytes_ok_app_l _ _ Hb) as Hbid. pose proof (bytes_ok_app_r _ _ Hb) as Hb1.
        pose proof (be_put_get_len idb 2 Lid Hbid) as Eid.
        pose proof (be_get_lt_len idb 2 Lid Hbid) as Hid.
        set (id := be_get idb) in *.
        (* a skipped field *)
        assert (Hskip :
          (forall w sa fs', code_of w = tp ->
             ab_fields (absorb env) sd ((id, w) :: fs') cur sa unk
             = ab_fields (absorb env) sd fs' cur sa (unk ++ put_field (id, w))) ->
          match gk_skip r1 tp with
          | SOk n =>
              match take n r1 with
              | Some (sk, r2) => dec_fields dt fl sd r2 cur seen (unk ++ tp :: idb ++ sk)
              | None => DErr EShort
              end
          | SErr e => DErr (ESkip e)
          | SPanic => DErr (ESkip SkUnknownType)
          | SFuel => DFuel
          end = DOk (cur', seen', unk') rest ->
          exists fs sn, tp :: r = put_fields fs ++ cSTOP :: rest
            /\ (forall fv, In fv fs -> fst fv < 2 ^ 16 /\ wf (snd fv) = true)
            /\ seen' = sn ++ seen
            /\ forall sa, ab_fields (absorb env) sd fs cur sa unk = AOk (cur', sn ++ sa, unk')).
        { intros Hab Hk.
          destruct (gk_skip r1 tp) as [n|e| |] eqn:Eg; try discriminate Hk.
          destruct (take n r1) as [[sk r2]|] eqn:Etk; [|discriminate Hk].
          apply take_some in Etk. destruct Etk as [Er1 Lsk].
          assert (Hn : n <= len r1) by (rewrite Er1, len_app; lia).
          destruct (gk_skip_sound HP HG r1 tp n Eg Hn Hb1) as (w & r2' & W & C & Er1' & Lw).
          assert (E2 : sk = put w /\ r2 = r2').
          { rewrite Er1 in Er1'. apply app_inj_len in Er1'; [exact Er1'|]. unfold len in *. lia. }
          destruct E2 as [-> <-].
          assert (Hb2 : bytes_ok r2 = true) by (rewrite Er1 in Hb1; eapply bytes_ok_app_r; exact Hb1).
          destruct (IH r2 cur seen _ cur' seen' unk' rest Hk Hb2) as (fs & sn & E2 & Hfs & Esn & Afs).
          exists ((id, w) :: fs), sn. split.
          { rewrite put_fields_cons, put_field_eq, Eid, C, Er, Er1, E2.
            cbn [app]. rewrite <- ?app_assoc. reflexivity. }
          split.
          { intros fv [Hfv|Hfv]; [subst fv; cbn [fst snd]; split; assumption|apply Hfs; exact Hfv]. }
          split; [exact Esn|].
          intros sa. rewrite (Hab w sa fs C), put_field_eq, Eid, C. apply Afs. }
        destruct (get_field sd id) as [[i f]|] eqn:Egf.
        2:{ apply Hskip; [|exact H]. intros w sa fs' _. cbn [ab_fields]. rewrite Egf. reflexivity. }
        destruct (wt (fty f) =? tp) eqn:Ew.
        2:{ apply Hskip; [|exact H]. intros w sa fs' C. cbn [ab_fields]. rewrite Egf, C, Ew. reflexivity. }
        apply N.eqb_eq in Ew.
        assert (Hfok : field_ok env f = true).
        { apply Hsd. unfold get_field in Egf. eapply find_field_In. exact Egf. }
        destruct (field_res dt f (nth i cur (VS 0)) r1) as [v r2| | |] eqn:Ef; try discriminate H.
        destruct (field_res_sound f _ r1 v r2 Ef Hfok Hb1) as (w & W & C & Er1 & A).
        assert (Hb2 : bytes_ok r2 = true) by (rewrite Er1 in Hb1; eapply bytes_ok_app_r; exact Hb1).
        destruct (IH r2 _ _ unk cur' seen' unk' rest H Hb2) as (fs & sn & E2 & Hfs & Esn & Afs).
        exists ((id, w) :: fs), (sn ++ [id]). split.
        { rewrite put_fields_cons, put_field_eq, Eid, C, Ew, Er, Er1, E2.
          cbn [app]. rewrite <- ?app_assoc. reflexivity. }
        split.
        { intros fv [Hfv|Hfv]; [subst fv; cbn [fst snd]; split; assumption|apply Hfs; exact Hfv]. }
        split; [rewrite Esn, <- app_assoc; reflexivity|].
        intros sa. cbn [ab_fields]. rewrite Egf, C, Ew, N.eqb_refl, A, Afs, <- app_assoc. reflexivity.
    Qed.

    Lemma struct_body_sound : forall sd bs prior v rest,
      (forall f, In f (sfields sd) -> field_ok env f = true) ->
      dec_struct_body fuel dt sd pool bs prior = DOk v rest -> bytes_ok bs = true ->
      exists fs0 h0 fs, prior = VT fs0 h0 /\ wf (WStruct fs []) = true
        /\ bs = put (WStruct fs []) ++ rest
        /\ afinish sd h0 (ab_fields (absorb env) sd fs fs0 [] []) = AOk v.
    Proof.
      intros sd bs prior v rest Hsd H Hb.
      destruct prior as [x|n s|l|m|p|fs0 h0]; try (unfold dec_struct_body in H; discriminate H).
      rewrite dec_struct_body_VT in H.
      set (x := filter (fun i => negb (memN i (required_ids sd))) pool) in *.
      destruct (dec_fields dt fuel sd bs fs0 x []) as [[[c s] u] r| | |] eqn:Ed;
        cbn [dfinish] in H; try discriminate H.
      destruct (find (fun i => negb (memN i s)) (required_ids sd)) as [mi|] eqn:Efd; [discriminate H|].
      injection H as Hv Hr. subst v r.
      destruct (dec_fields_sound sd Hsd fuel bs fs0 x [] c s u rest Ed Hb) as (fs & sn & Ebs & Hfs & Esn & Afs).
      exists fs0, h0, fs. split; [reflexivity|]. split; [apply wf_struct_intro; exact Hfs|].
      split.
      { rewrite put_struct_eq. cbn [app]. rewrite <- app_assoc. exact Ebs. }
      rewrite (Afs []), app_nil_r. cbn [afinish].
      rewrite Esn in Efd. unfold x in Efd. rewrite required_find_pool in Efd. rewrite Efd. reflexivity.
    Qed.
  End Loops.

  (* ---- the mutual induction on the budget ---- *)
  Definition struct_sound (d : nat) : Prop :=
    forall sd bs prior v rest,
      (forall f, In f (sfields sd) -> field_ok env f = true) ->
      decode_struct env fuel pool d sd bs prior = DOk v rest -> bytes_ok bs = true ->
      exists fs0 h0 fs, prior = VT fs0 h0 /\ wf (WStruct fs []) = true
        /\ bs = put (WStruct fs []) ++ rest
        /\ afinish sd h0 (ab_fields (absorb env) sd fs fs0 [] []) = AOk v.

  Lemma decode_sound_d : forall d, struct_sound d /\ dt_sound (decode_type env fuel pool d).
  Proof.
    destruct (codes_eqs (dec_enc HP)) as (E0 & E1 & E2 & E3 & E4 & E5 & E6 & E7 & E8 & E9 & E10 & E11).
    induction d as [|d [IHs IHt]].
    - split.
      + intros sd bs prior v rest _ H. rewrite decode_struct_O in H. discriminate H.
      + intros t bs prior v rest H. rewrite decode_type_O in H. discriminate H.
    - split.
      + intros sd bs prior v rest Hsd H Hb. rewrite decode_struct_S in H.
        eapply struct_body_sound; eassumption.
      + intros t bs prior v rest H Hok Hb. rewrite decode_type_S in H.
        apply dwrap_ok in H. destruct H as (v0 & H & Ev). subst v.
        destruct (ty_ok_deref env t Hok) as [Hok0 _].
        destruct (0 <? fixed_size (deref_ty t)) eqn:Ef.
        { rewrite fixed_size_deref in Ef. apply read_fixed_sound; assumption. }
        destruct (deref_ty t) as [| | | | | | | | |b e|kt vt|sid|t'] eqn:Et; try discriminate H.
        * (* TString *)
          apply string_slot; [unfold is_strlike; rewrite Et; reflexivity|exact H|exact Hb].
        * (* TBinary *)
          apply string_slot; [unfold is_strlike; rewrite Et; reflexivity|exact H|exact Hb].
        * (* TList *)
          destruct (ty_ok_list env b e Hok0) as [Hoke _].
          destruct (dec_list_sound _ IHt e bs v0 rest b H Hoke Hb) as (es & xs & W & Ebs & A & Ev).
          subst v0. exists (WList b (wt e) es). split; [exact W|]. split.
          { rewrite code_of_list, <- wt_deref, Et. cbn [wt]. destruct b; congruence. }
          split; [exact Ebs|].
          rewrite absorb_WList, Et, N.eqb_refl. cbn [negb]. rewrite A. reflexivity.
        * (* TMap *)
          destruct (ty_ok_map env kt vt Hok0) as (_ & Hokk & Hokv & _).
          destruct (dec_map_sound _ IHt kt vt bs v0 rest H Hokk Hokv Hb) as (es & m & W & Ebs & A & Ev).
          subst v0. exists (WMap (wt kt) (wt vt) es). split; [exact W|]. split.
          { cbn [code_of]. rewrite <- wt_deref, Et. cbn [wt]. congruence. }
          split; [exact Ebs|].
          rewrite absorb_WMap, Et, !N.eqb_refl. cbn [andb negb]. rewrite A. reflexivity.
        * (* TStruct *)
          destruct (lookup_sd env sid) as [sd|] eqn:Esd; [|discriminate H].
          destruct (IHs sd bs _ v0 rest (fun f Hf => env_field_ok env sid sd f HE Esd Hf) H Hb)
            as (fs0 & h0 & fs & Ep & W & Ebs & A).
          exists (WStruct fs []). split; [exact W|]. split.
          { cbn [code_of]. rewrite <- wt_deref, Et. cbn [wt]. congruence. }
          split; [exact Ebs|].
          rewrite absorb_WStruct, Et, Esd, Ep, A. reflexivity.
  Qed.
End DecSound.

(* ================================================================== *)
(* The theorems                                                         *)
(* ================================================================== *)

(* with the side condition on the skipper's table explicit *)
Theorem decode_sound_gen : forall env pool sid bs dst v n rest,
  dec_params_ok = true -> gk_tab_ok = true -> env_ok env = true -> bytes_ok bs = true ->
  decode_object env pool sid bs dst = DOk (v, n) rest ->
  exists fs, wf (WStruct fs []) = true /\ bs = put (WStruct fs []) ++ rest
             /\ n = len (put (WStruct fs []))
             /\ absorb_top env sid (WStruct fs []) dst = AOk v.
Proof.
  intros env pool sid bs dst v n rest HP HG HE Hb H.
  unfold decode_object, decode_object_f in H.
  destruct (lookup_sd env sid) as [sd|] eqn:Esd; [|discriminate H].
  destruct (decode_struct env (S (length bs)) pool (N.to_nat maxDepthLimit) sd bs dst)
    as [v' r| | |] eqn:Ed; try discriminate H.
  injection H as Hv Hn Hr. subst v' n r.
  destruct (decode_sound_d env (S (length bs)) pool HP HE HG (N.to_nat maxDepthLimit)) as [Hs _].
  destruct (Hs sd bs dst v rest (fun f Hf => env_field_ok env sid sd f HE Esd Hf) Ed Hb)
    as (fs0 & h0 & fs & Ep & W & Ebs & A).
  exists fs. split; [exact W|]. split; [exact Ebs|]. split.
  - rewrite Ebs at 1. rewrite len_app. lia.
  - rewrite absorb_top_eq, Esd, Ep. exact A.
Qed.

(* C05, soundness: success means the input begins with a well-formed message,
   the count is its length, and the value is the reference decoder's *)
Theorem decode_sound : forall env pool sid bs dst v n rest,
  dec_params_ok = true -> env_ok env = true -> bytes_ok bs = true ->
  decode_object env pool sid bs dst = DOk (v, n) rest ->
  exists fs, wf (WStruct fs []) = true /\ bs = put (WStruct fs []) ++ rest
             /\ n = len (put (WStruct fs []))
             /\ absorb_top env sid (WStruct fs []) dst = AOk v.
Proof.
  intros env pool sid bs dst v n rest HP HE Hb H.
  exact (decode_sound_gen env pool sid bs dst v n rest HP gk_tab_ok_holds HE Hb H).
Qed.

(* value level: any slot type, any budget, any fuel *)
Theorem decode_type_sound : forall env fuel pool d t bs prior v rest,
  dec_params_ok = true -> env_ok env = true -> ty_ok env t = true -> bytes_ok bs = true ->
  decode_type env fuel pool d t bs prior = DOk v rest ->
  exists w, wf w = true /\ code_of w = wt t /\ bs = put w ++ rest
            /\ absorb env t w prior = AOk v.
Proof.
  intros env fuel pool d t bs prior v rest HP HE Hok Hb H.
  destruct (decode_sound_d env fuel pool HP HE gk_tab_ok_holds d) as [_ Ht].
  exact (Ht t bs prior v rest H Hok Hb).
Qed.

(* the skipper, stand-alone *)
Theorem skip_sound : dec_params_ok = true ->
  forall d t bs n, skip_type d t bs = SOk n -> n <= len bs -> bytes_ok bs = true ->
  exists w, wf w = true /\ code_of w = t /\ firstn (N.to_nat n) bs = put w.
Proof.
  intros HP d t bs n H Hn Hb.
  destruct (skip_type_sound HP gk_tab_ok_holds d t bs n H Hn Hb) as (w & rest & W & C & E & L).
  exists w. split; [exact W|]. split; [exact C|].
  rewrite E, L, len_length. apply firstn_length_app.
Qed.

Print Assumptions skip_sound.
Print Assumptions decode_type_sound.
Print Assumptions decode_sound.
