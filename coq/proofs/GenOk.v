(* GenOk.v -- the side conditions on the generated constants and tables hold
   for what the translator read from the Go sources of this run. *)
From Frugal Require Import Checks.

Lemma params_ok_holds : params_ok = true.
Proof. vm_compute. reflexivity. Qed.

Lemma tables_ok_holds : tables_ok = true.
Proof. vm_compute. reflexivity. Qed.

Lemma legacy_ok_holds : legacy_ok = true.
Proof. vm_compute. reflexivity. Qed.

Lemma access_ok_holds : access_ok = true.
Proof. vm_compute. reflexivity. Qed.
