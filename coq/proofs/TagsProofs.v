(* TagsProofs.v -- C12: the wire schema is exactly what the struct tags say;
   equivalent spellings behave identically.

   A printer [prints] from schemas ([sty]) to type annotations -- with
   arbitrary optional white space in front of every token, optional package
   qualification of names, and all alternative spellings the parser of
   Tags.v knows -- is inverted by the parser:
     parse_print            parse_type, followed by end / ":" / ">"
     parse_print_container  ... a container may be followed by anything
     parse_print_kw/_qual/_anon  ... keywords, qualified names, anonymous
                            structs only need the identifier to end
     rest_ok_needed         ... and an unqualified name needs exactly rest_ok
     parse_print_top        parse_type_top (the whole annotation)
     spellings_equivalent   two spellings of a schema parse alike
     parse_noannot_top      no annotation: the Go type decides (no list/set)
   and, wrapped into a struct tag, by resolve_one:
     resolve_frugal         frugal:"id,req,annotation[,nocopy]" (+ anything)
     resolve_thrift         thrift:"name,id,req,annotation[,nocopy]"
     resolve_thrift_frugal  thrift:"..." frugal:"...": frugal wins
     resolve_mk_*           the same for the unpadded tags mk_frugal_tag,
                            mk_thrift_tag; carriers_agree. *)
From Coq Require Import List NArith Bool Lia ZifyN ZifyNat ZifyBool.
From Frugal Require Import Bytes Values Desc Tags.
Import ListNotations.
Open Scope N_scope.

(* ------------------------------------------------------------------ *)
(* 1. schemas, their Go representation, the expected parse result      *)
(* ------------------------------------------------------------------ *)

Inductive sty :=
| SBool | SI8 | SI16 | SI32 | SI64 | SDouble | SString | SBinary
| SEnum (name : str)
| SStruct (sid : N) (name : str)
| SList (e : sty) | SSet (e : sty) | SMap (k v : sty)
| SPtr (t : sty).

Fixpoint go_of (t : sty) : gotype :=
  match t with
  | SBool => GBool | SI8 => GInt8 | SI16 => GInt16 | SI32 => GInt32
  | SI64 => GInt64 []
  | SDouble => GFloat64 | SString => GString
  | SBinary => GSlice GUint8
  | SEnum n => GInt64 n
  | SStruct sid n => GStruct sid n
  | SList e => GSlice (go_of e)
  | SSet e => GSlice (go_of e)
  | SMap k v => GMap (go_of k) (go_of v)
  | SPtr t' => GPtr (go_of t')
  end.

Fixpoint dt_of (t : sty) : dtype :=
  match t with
  | SBool => DT DBool None None 0
  | SI8 => DT DI8 None None 0
  | SI16 => DT DI16 None None 0
  | SI32 => DT DI32 None None 0
  | SI64 => DT DI64 None None 0
  | SDouble => DT DDouble None None 0
  | SString => DT DString None None 0
  | SBinary => DT DBinary None None 0
  | SEnum _ => DT DEnum None None 0
  | SStruct sid _ => DT DStruct None None sid
  | SList e => DT DList None (Some (dt_of e)) 0
  | SSet e => DT DSet None (Some (dt_of e)) 0
  | SMap k v => DT DMap (Some (dt_of k)) (Some (dt_of v)) 0
  | SPtr t' => DT DPointer None (Some (dt_of t')) 0
  end.

(* without annotation a named int64 is a plain i64 *)
Fixpoint dt_of' (t : sty) : dtype :=
  match t with
  | SEnum _ => DT DI64 None None 0
  | SList e => DT DList None (Some (dt_of' e)) 0
  | SSet e => DT DSet None (Some (dt_of' e)) 0
  | SMap k v => DT DMap (Some (dt_of' k)) (Some (dt_of' v)) 0
  | SPtr t' => DT DPointer None (Some (dt_of' t')) 0
  | _ => dt_of t
  end.

(* an identifier [A-Za-z_][A-Za-z0-9_]* *)
Definition is_identifier (s : str) : bool :=
  match s with
  | [] => false
  | c :: w => is_ident0 c && forallb is_ident w
  end.

Definition is_key_sty (t : sty) : bool :=
  match t with
  | SBool | SI8 | SI16 | SI32 | SI64 | SDouble | SString | SEnum _ => true
  | SPtr (SStruct _ _) => true
  | _ => false
  end.
Definition is_value_sty (t : sty) : bool :=
  match t with
  | SPtr (SStruct _ _) => true
  | SPtr _ => false
  | _ => true
  end.
Definition is_container_sty (t : sty) : bool :=
  match t with
  | SList _ | SSet _ | SMap _ _ => true
  | _ => false
  end.

(* what the parser accepts; [allow]: a pointer may stand here *)
Fixpoint sty_ok (allow : bool) (t : sty) : bool :=
  match t with
  | SEnum n => is_identifier n
  | SStruct _ n => match n with [] => true | _ => is_identifier n end   (* [] : anonymous struct *)
  | SList e => sty_ok true e && is_value_sty e
  | SSet e => sty_ok true e && is_value_sty e
  | SMap k v => sty_ok true k && is_key_sty k && sty_ok true v && is_value_sty v
  | SPtr t' => allow && negb (is_container_sty t') && sty_ok false t'
  | _ => true
  end.

(* ------------------------------------------------------------------ *)
(* 2. the printer                                                      *)
(* ------------------------------------------------------------------ *)

Definition spaces (ws : str) : Prop := Forall (fun c => is_space c = true) ws.

Definition s_map : str := [109; 97; 112].

(* the keyword class of a schema type: every member of [keywords tag] spells it *)
Definition kw_tag (t : sty) : option dtag :=
  match t with
  | SBool => Some DBool | SI8 => Some DI8 | SI16 => Some DI16 | SI32 => Some DI32
  | SI64 => Some DI64 | SDouble => Some DDouble | SString => Some DString
  | SBinary => Some DBinary
  | SStruct _ _ => Some DStruct                       (* "struct" *)
  | _ => None
  end.

(* the Go type name of a schema type: it spells the type as well *)
Definition type_name (t : sty) : option str :=
  match t with
  | SBool => Some [98; 111; 111; 108]                 (* bool *)
  | SI8 => Some [105; 110; 116; 56]                   (* int8 *)
  | SI16 => Some [105; 110; 116; 49; 54]              (* int16 *)
  | SI32 => Some [105; 110; 116; 51; 50]              (* int32 *)
  | SI64 => Some [105; 110; 116; 54; 52]              (* int64 *)
  | SDouble => Some [102; 108; 111; 97; 116; 54; 52]  (* float64 *)
  | SString => Some [115; 116; 114; 105; 110; 103]    (* string *)
  | SEnum n => Some n
  | SStruct _ n => match n with [] => None | _ => Some n end
  | _ => None
  end.

(* the keyword class tried first by the parser on the first identifier *)
Definition first_tag (t : sty) : dtag :=
  match t with
  | SBool => DBool | SI8 => DI8 | SI16 => DI16 | SI32 => DI32 | SI64 => DI64
  | SDouble => DDouble | SString => DString | SEnum _ => DI64
  | _ => DStruct
  end.

(* the unqualified name of an enum must not be "i64" (it would be a plain
   i64); all other names are unrestricted ("struct" for a struct, "bool"
   for bool are keywords giving the same result) *)
Definition name_ok (t : sty) : Prop :=
  match t with
  | SEnum n => is_keyword DI64 n = false
  | _ => True
  end.

Inductive prints : sty -> str -> Prop :=
| P_kw : forall t tag k ws,
    kw_tag t = Some tag -> In k (keywords tag) -> spaces ws ->
    prints t (ws ++ k)
| P_name : forall t n ws,
    type_name t = Some n -> name_ok t -> spaces ws ->
    prints t (ws ++ n)
| P_qual : forall t n pkg ws1 ws2 ws3,
    type_name t = Some n ->
    is_identifier pkg = true -> is_keyword (first_tag t) pkg = false ->
    spaces ws1 -> spaces ws2 -> spaces ws3 ->
    prints t (ws1 ++ pkg ++ ws2 ++ [46] ++ ws3 ++ n)
| P_list : forall e s ws1 ws2 ws3,
    prints e s -> spaces ws1 -> spaces ws2 -> spaces ws3 ->
    prints (SList e) (ws1 ++ s_list ++ ws2 ++ [60] ++ s ++ ws3 ++ [62])
| P_set : forall e s ws1 ws2 ws3,
    prints e s -> spaces ws1 -> spaces ws2 -> spaces ws3 ->
    prints (SSet e) (ws1 ++ s_set ++ ws2 ++ [60] ++ s ++ ws3 ++ [62])
| P_map : forall k v sk sv ws1 ws2 ws3 ws4,
    prints k sk -> prints v sv ->
    spaces ws1 -> spaces ws2 -> spaces ws3 -> spaces ws4 ->
    prints (SMap k v)
      (ws1 ++ s_map ++ ws2 ++ [60] ++ sk ++ ws3 ++ [58] ++ sv ++ ws4 ++ [62])
| P_ptr : forall t s, prints t s -> prints (SPtr t) s
(* an anonymous struct type matches every identifier *)
| P_anon : forall sid x ws,
    is_identifier x = true -> spaces ws -> prints (SStruct sid []) (ws ++ x).

(* what may follow an annotation: nothing, ":" or ">" (after white space) *)
Definition rest_ok (rest : str) : Prop :=
  match drop_while is_space rest with
  | [] => True
  | c :: _ => c = 58 \/ c = 62
  end.

(* the weaker condition sufficient for keywords and qualified names *)
Definition no_ident_start (rest : str) : Prop :=
  match rest with
  | [] => True
  | c :: _ => is_ident c = false
  end.

(* ------------------------------------------------------------------ *)
(* characters and the lexer                                            *)
(* ------------------------------------------------------------------ *)

Lemma ident0_not_space : forall c, is_ident0 c = true -> is_space c = false.
Proof. intros c. unfold is_ident0, is_space. lia. Qed.

Lemma ident0_ident : forall c, is_ident0 c = true -> is_ident c = true.
Proof. intros c H. unfold is_ident. rewrite H. reflexivity. Qed.

Lemma space_not_ident : forall c, is_space c = true -> is_ident c = false.
Proof. intros c. unfold is_ident, is_ident0, is_digit, is_space. lia. Qed.

Lemma ident_not_space : forall c, is_ident c = true -> is_space c = false.
Proof. intros c. unfold is_ident, is_ident0, is_digit, is_space. lia. Qed.

Lemma str_eqb_refl : forall a, str_eqb a a = true.
Proof.
  unfold str_eqb. induction a as [|x a IH]; cbn [list_eqb]; [reflexivity|].
  rewrite N.eqb_refl, IH. reflexivity.
Qed.

Lemma str_eqb_eq : forall a b, str_eqb a b = true <-> a = b.
Proof.
  unfold str_eqb. induction a as [|x a IH]; intros [|y b]; cbn [list_eqb];
    split; intros H; try reflexivity; try discriminate.
  - apply andb_true_iff in H. destruct H as [H1 H2].
    apply N.eqb_eq in H1. apply IH in H2. subst. reflexivity.
  - injection H as -> ->. rewrite N.eqb_refl. apply IH. reflexivity.
Qed.

Lemma str_eqb_neq : forall a b, a <> b -> str_eqb a b = false.
Proof.
  intros a b H. destruct (str_eqb a b) eqn:E; [|reflexivity].
  apply str_eqb_eq in E. contradiction.
Qed.

Lemma ident_nonempty : forall x, is_identifier x = true -> x <> [].
Proof. intros [|c w] H; [discriminate H|discriminate]. Qed.

Lemma app_nonempty_r : forall (a b : str), b <> [] -> a ++ b <> [].
Proof. intros a b H E. apply app_eq_nil in E. destruct E as [_ E]. contradiction. Qed.

Lemma app_nonempty_l : forall (a b : str), a <> [] -> a ++ b <> [].
Proof. intros a b H E. apply app_eq_nil in E. destruct E as [E _]. contradiction. Qed.

Lemma drop_while_spaces : forall ws x,
  spaces ws -> drop_while is_space (ws ++ x) = drop_while is_space x.
Proof.
  intros ws x H. induction H as [|c l Hc _ IH]; cbn [app drop_while].
  - reflexivity.
  - rewrite Hc. exact IH.
Qed.

Lemma drop_while_all_spaces : forall ws, spaces ws -> drop_while is_space ws = [].
Proof.
  intros ws H. induction H as [|c l Hc _ IH]; cbn [drop_while].
  - reflexivity.
  - rewrite Hc. exact IH.
Qed.

Lemma read_token_ws : forall ws x, spaces ws -> read_token (ws ++ x) = read_token x.
Proof. intros ws x H. unfold read_token. rewrite drop_while_spaces by exact H. reflexivity. Qed.

Lemma read_token_spaces : forall ws, spaces ws -> read_token ws = ([], []).
Proof. intros ws H. unfold read_token. rewrite drop_while_all_spaces by exact H. reflexivity. Qed.

Lemma take_while_ident : forall w rest,
  forallb is_ident w = true -> no_ident_start rest -> take_while is_ident (w ++ rest) = w.
Proof.
  induction w as [|c w IH]; intros rest Hw Hr; cbn [app].
  - destruct rest as [|c r]; cbn [take_while]; [reflexivity|].
    cbn in Hr. rewrite Hr. reflexivity.
  - cbn [forallb] in Hw. apply andb_true_iff in Hw. destruct Hw as [Hc Hw].
    cbn [take_while]. rewrite Hc. f_equal. apply IH; assumption.
Qed.

Lemma skipn_app_len : forall (w rest : str), skipn (length w) (w ++ rest) = rest.
Proof. induction w as [|c w IH]; intros rest; cbn [length app skipn]; [reflexivity|apply IH]. Qed.

Lemma read_token_ident : forall x rest,
  is_identifier x = true -> no_ident_start rest -> read_token (x ++ rest) = (x, rest).
Proof.
  intros [|c w] rest Hx Hr; [discriminate|].
  cbn [is_identifier] in Hx. apply andb_true_iff in Hx. destruct Hx as [Hc Hw].
  unfold read_token. cbn [app drop_while].
  rewrite (ident0_not_space c Hc), Hc.
  rewrite take_while_ident by assumption. rewrite skipn_app_len. reflexivity.
Qed.

Lemma read_token_char : forall c rest,
  is_space c = false -> is_ident0 c = false -> read_token (c :: rest) = ([c], rest).
Proof.
  intros c rest Hs Hi. unfold read_token. cbn [drop_while]. rewrite Hs, Hi. reflexivity.
Qed.

Lemma read_ident : forall ws x rest,
  spaces ws -> is_identifier x = true -> no_ident_start rest ->
  read_token (ws ++ x ++ rest) = (x, rest).
Proof. intros. rewrite read_token_ws by assumption. apply read_token_ident; assumption. Qed.

Lemma read_char : forall ws c rest,
  spaces ws -> is_space c = false -> is_ident0 c = false ->
  read_token (ws ++ c :: rest) = ([c], rest).
Proof. intros. rewrite read_token_ws by assumption. apply read_token_char; assumption. Qed.

Lemma tok_is_refl : forall c, tok_is [c] c = true.
Proof. intros c. unfold tok_is. apply str_eqb_refl. Qed.

Lemma expect_char : forall ws c rest,
  spaces ws -> is_space c = false -> is_ident0 c = false ->
  expect c (ws ++ c :: rest) = ROk rest.
Proof.
  intros ws c rest Hw Hs Hi. unfold expect. rewrite read_char by assumption.
  rewrite tok_is_refl. reflexivity.
Qed.

Lemma nis_ws_char : forall ws c x,
  spaces ws -> is_ident c = false -> no_ident_start (ws ++ c :: x).
Proof.
  intros ws c x Hw Hc. destruct Hw as [|d l Hd _]; cbn [app no_ident_start].
  - exact Hc.
  - apply space_not_ident. exact Hd.
Qed.

Lemma rest_ok_nil : rest_ok [].
Proof. exact I. Qed.

Lemma rest_ok_spaces : forall ws, spaces ws -> rest_ok ws.
Proof. intros ws H. unfold rest_ok. rewrite drop_while_all_spaces by exact H. exact I. Qed.

Lemma rest_ok_ws_char : forall ws c x,
  spaces ws -> c = 58 \/ c = 62 -> rest_ok (ws ++ c :: x).
Proof.
  intros ws c x Hw Hc. unfold rest_ok. rewrite drop_while_spaces by exact Hw.
  cbn [drop_while]. destruct Hc as [-> | ->]; cbn; auto.
Qed.

Lemma rest_ok_nis : forall rest, rest_ok rest -> no_ident_start rest.
Proof.
  intros [|c r] H; [exact I|]. unfold rest_ok in H. cbn [drop_while] in H.
  cbn [no_ident_start]. destruct (is_space c) eqn:Es.
  - apply space_not_ident. exact Es.
  - destruct H as [-> | ->]; reflexivity.
Qed.

(* [rest_ok] in terms of the lexer: the next token is the end, ":" or ">" *)
Lemma rest_ok_token : forall rest,
  rest_ok rest <->
  (fst (read_token rest) = [] \/ fst (read_token rest) = [58] \/ fst (read_token rest) = [62]).
Proof.
  intros rest. unfold rest_ok, read_token.
  destruct (drop_while is_space rest) as [|c r].
  - cbn. tauto.
  - destruct (is_ident0 c) eqn:Ei; cbn [fst].
    + split.
      * intros [-> | ->]; discriminate.
      * intros [H | [H | H]]; try discriminate; injection H as -> _; discriminate.
    + split.
      * intros [-> | ->]; auto.
      * intros [H | [H | H]]; try discriminate; injection H as ->; auto.
Qed.

(* ------------------------------------------------------------------ *)
(* unfolding the parser                                                *)
(* ------------------------------------------------------------------ *)

Definition is_leaf (vt : gotype) : bool :=
  match vt with
  | GBool | GInt | GInt8 | GInt16 | GInt32 | GInt64 _ | GFloat64 | GString | GStruct _ _ => true
  | _ => false
  end.
Definition tag0_of (vt : gotype) : dtag :=
  match vt with
  | GBool => DBool | GInt => DI64 | GInt8 => DI8 | GInt16 => DI16 | GInt32 => DI32
  | GInt64 _ => DI64 | GFloat64 => DDouble | GString => DString | _ => DStruct
  end.
Definition sid_of (vt : gotype) : N := match vt with GStruct s _ => s | _ => 0 end.
Definition tag1_of (vt : gotype) : dtag :=
  match vt with
  | GInt64 (_ :: _) => DEnum
  | _ => tag0_of vt
  end.

Definition leaf_parse (vt : gotype) (def : str) : pres (dtype * str) :=
  let '(tok, rest) := read_token def in
  match tok with
  | [] => RErr
  | c :: _ =>
      if is_keyword (tag0_of vt) tok then ROk (DT (tag0_of vt) None None (sid_of vt), rest)
      else if negb (is_ident0 c) then RErr
      else match match_struct vt tok rest with
           | RErr => RErr
           | ROk (false, _) => RErr
           | ROk (true, rest') => ROk (DT (tag1_of vt) None None (sid_of vt), rest')
           end
  end.

Lemma parse_leaf_eq : forall vt def allow,
  is_leaf vt = true -> parse_type vt true def allow = leaf_parse vt def.
Proof. intros vt def allow H. destruct vt; try discriminate H; reflexivity. Qed.

Lemma parse_leaf_noannot : forall vt def allow,
  is_leaf vt = true -> parse_type vt false def allow = ROk (DT (tag0_of vt) None None (sid_of vt), def).
Proof. intros vt def allow H. destruct vt; try discriminate H; reflexivity. Qed.

Definition binary_parse (def : str) : pres (dtype * str) :=
  let '(tok, rest) := read_token def in
  match tok with
  | [] => RErr
  | _ => if is_keyword DBinary tok then ROk (DT DBinary None None 0, rest) else RErr
  end.

Lemma parse_binary_eq : forall def allow,
  parse_type (GSlice GUint8) true def allow = binary_parse def.
Proof. reflexivity. Qed.

Definition slice_parse (e : gotype) (def : str) : pres (dtype * str) :=
  let '(tok, rest) := read_token def in
  let isset := str_eqb tok s_set in
  if negb (isset || str_eqb tok s_list) then RErr
  else match expect 60 rest with
       | ROk rest1 =>
           match parse_type e true rest1 true with
           | ROk (d, rest2) =>
               match expect 62 rest2 with
               | ROk rest3 =>
                   if is_value_type d then ROk (DT (if isset then DSet else DList) None (Some d) 0, rest3)
                   else RErr
               | RErr => RErr
               end
           | RErr => RErr
           end
       | RErr => RErr
       end.

Lemma parse_slice_eq : forall e def allow,
  e <> GUint8 -> parse_type (GSlice e) true def allow = slice_parse e def.
Proof. intros e def allow H. destruct e; try congruence; reflexivity. Qed.

Lemma parse_slice_rule : forall e def allow tok r0 r1 d r2 r3,
  e <> GUint8 ->
  read_token def = (tok, r0) -> (tok = s_set \/ tok = s_list) ->
  expect 60 r0 = ROk r1 ->
  parse_type e true r1 true = ROk (d, r2) ->
  expect 62 r2 = ROk r3 ->
  is_value_type d = true ->
  parse_type (GSlice e) true def allow
  = ROk (DT (if str_eqb tok s_set then DSet else DList) None (Some d) 0, r3).
Proof.
  intros e def allow tok r0 r1 d r2 r3 He Ht Hk H60 Hp H62 Hv.
  rewrite parse_slice_eq by exact He. unfold slice_parse.
  rewrite Ht. cbv iota beta zeta.
  replace (negb (str_eqb tok s_set || str_eqb tok s_list)) with false
    by (destruct Hk as [-> | ->]; reflexivity).
  rewrite H60, Hp. cbv iota beta. rewrite H62, Hv. reflexivity.
Qed.

Lemma parse_map_rule : forall kt et def allow r0 r1 kd r2 r3 vd r4 r5,
  read_token def = (s_map, r0) ->
  expect 60 r0 = ROk r1 ->
  parse_type kt true r1 true = ROk (kd, r2) ->
  is_key_type kd = true ->
  expect 58 r2 = ROk r3 ->
  parse_type et true r3 true = ROk (vd, r4) ->
  expect 62 r4 = ROk r5 ->
  is_value_type vd = true ->
  parse_type (GMap kt et) true def allow = ROk (DT DMap (Some kd) (Some vd) 0, r5).
Proof.
  intros kt et def allow r0 r1 kd r2 r3 vd r4 r5 Ht H60 Hk Hkt H58 Hv H62 Hvt.
  cbn [parse_type]. rewrite Ht. cbv iota beta.
  change (is_keyword DMap s_map) with true. cbv iota beta.
  unfold s_map. cbv iota beta. rewrite H60, Hk. cbv iota beta. rewrite Hkt. cbn [negb]. cbv iota.
  rewrite H58, Hv. cbv iota beta. rewrite H62, Hvt. reflexivity.
Qed.

Lemma parse_map_noannot : forall kt et def allow kd vd,
  parse_type kt false def true = ROk (kd, def) ->
  is_key_type kd = true ->
  parse_type et false def true = ROk (vd, def) ->
  is_value_type vd = true ->
  parse_type (GMap kt et) false def allow = ROk (DT DMap (Some kd) (Some vd) 0, def).
Proof.
  intros kt et def allow kd vd Hk Hkt Hv Hvt.
  cbn [parse_type]. rewrite Hk. cbv iota beta. rewrite Hkt. cbn [negb]. cbv iota.
  rewrite Hv. cbv iota beta. rewrite Hvt. reflexivity.
Qed.

Lemma parse_ptr_rule : forall e annot def d rest,
  parse_type e annot def false = ROk (d, rest) ->
  (dt_tag d <> DMap /\ dt_tag d <> DSet /\ dt_tag d <> DList) ->
  parse_type (GPtr e) annot def true = ROk (DT DPointer None (Some d) 0, rest).
Proof.
  intros e annot def d rest Hp (H1 & H2 & H3).
  cbn [parse_type negb]. cbv iota. rewrite Hp. cbv iota beta.
  destruct (dt_tag d); try reflexivity; congruence.
Qed.

(* ---- match_struct ---- *)

Definition match_struct_body (tn tv def : str) : pres (bool * str) :=
  let '(tok, rest) := read_token def in
  match tok with
  | [] => ROk (str_eqb tn tv, def)
  | _ =>
      if tok_is tok 58 || tok_is tok 62 then ROk (str_eqb tn tv, def)
      else if negb (tok_is tok 46) then RErr
      else
        let '(tv2, rest2) := read_token rest in
        match tv2 with
        | [] => RErr
        | c :: _ => if is_ident0 c then ROk (str_eqb tn tv2, rest2) else RErr
        end
  end.

Lemma match_struct_named : forall vt tv def,
  go_name vt <> [] -> match_struct vt tv def = match_struct_body (go_name vt) tv def.
Proof.
  intros vt tv def H. unfold match_struct, match_struct_body.
  destruct (read_token def) as [tok rest].
  destruct vt; try reflexivity.
  cbn [go_name] in *. destruct name; [congruence|reflexivity].
Qed.

Lemma match_struct_unqual : forall vt tv rest,
  go_name vt <> [] -> rest_ok rest ->
  match_struct vt tv rest = ROk (str_eqb (go_name vt) tv, rest).
Proof.
  intros vt tv rest Hn Hr. rewrite match_struct_named by exact Hn.
  unfold match_struct_body. apply rest_ok_token in Hr.
  destruct (read_token rest) as [tok r]. cbn [fst] in Hr.
  destruct Hr as [-> | [-> | ->]]; reflexivity.
Qed.

Lemma match_struct_qual : forall vt tv ws2 ws3 rest,
  is_identifier (go_name vt) = true -> spaces ws2 -> spaces ws3 -> no_ident_start rest ->
  match_struct vt tv (ws2 ++ 46 :: ws3 ++ go_name vt ++ rest) = ROk (true, rest).
Proof.
  intros vt tv ws2 ws3 rest Hn H2 H3 Hr.
  assert (Hne : go_name vt <> []) by (intros E; rewrite E in Hn; discriminate).
  rewrite match_struct_named by exact Hne. unfold match_struct_body.
  rewrite read_char by (try assumption; reflexivity). cbv iota beta.
  change (tok_is [46] 58 || tok_is [46] 62) with false.
  change (negb (tok_is [46] 46)) with false. cbv iota.
  rewrite read_ident by assumption.
  destruct (go_name vt) as [|c w]; [congruence|].
  cbn [is_identifier] in Hn. apply andb_true_iff in Hn. destruct Hn as [Hc _].
  rewrite Hc, str_eqb_refl. reflexivity.
Qed.

(* ---- keywords ---- *)

Lemma keywords_ident : forall tag k, In k (keywords tag) -> is_identifier k = true.
Proof.
  intros tag k H. destruct tag; cbn in H;
    repeat (destruct H as [<- | H]; [reflexivity|]); contradiction.
Qed.

Lemma keywords_is_keyword : forall tag k, In k (keywords tag) -> is_keyword tag k = true.
Proof.
  intros tag k H. unfold is_keyword. apply existsb_exists. exists k. split; [exact H|apply str_eqb_refl].
Qed.

(* ---- the three spellings of a leaf type ---- *)

Lemma leaf_kw_parse : forall vt ws k rest,
  In k (keywords (tag0_of vt)) -> spaces ws -> no_ident_start rest ->
  leaf_parse vt (ws ++ k ++ rest) = ROk (DT (tag0_of vt) None None (sid_of vt), rest).
Proof.
  intros vt ws k rest Hk Hw Hr. unfold leaf_parse.
  rewrite read_ident by (try assumption; eapply keywords_ident; exact Hk).
  pose proof (keywords_ident _ _ Hk) as Hi.
  destruct k as [|c w]; [discriminate|].
  rewrite (keywords_is_keyword _ _ Hk). reflexivity.
Qed.

Lemma leaf_name_parse : forall vt ws rest,
  is_identifier (go_name vt) = true ->
  (is_keyword (tag0_of vt) (go_name vt) = false \/ tag1_of vt = tag0_of vt) ->
  spaces ws -> rest_ok rest ->
  leaf_parse vt (ws ++ go_name vt ++ rest) = ROk (DT (tag1_of vt) None None (sid_of vt), rest).
Proof.
  intros vt ws rest Hn Hk Hw Hr. unfold leaf_parse.
  rewrite read_ident by (try assumption; apply rest_ok_nis; exact Hr).
  assert (Hne : go_name vt <> []) by (intros E; rewrite E in Hn; discriminate).
  rewrite match_struct_unqual by assumption. rewrite str_eqb_refl.
  destruct (go_name vt) as [|c w] eqn:En; [congruence|].
  cbn [is_identifier] in Hn. apply andb_true_iff in Hn. destruct Hn as [Hc _].
  destruct (is_keyword (tag0_of vt) (c :: w)) eqn:Ek.
  - destruct Hk as [Hk | Hk]; [discriminate|]. rewrite Hk. reflexivity.
  - rewrite Hc. reflexivity.
Qed.

Lemma leaf_qual_parse : forall vt ws1 pkg ws2 ws3 rest,
  is_identifier (go_name vt) = true ->
  is_identifier pkg = true -> is_keyword (tag0_of vt) pkg = false ->
  spaces ws1 -> spaces ws2 -> spaces ws3 -> no_ident_start rest ->
  leaf_parse vt (ws1 ++ pkg ++ ws2 ++ 46 :: ws3 ++ go_name vt ++ rest)
  = ROk (DT (tag1_of vt) None None (sid_of vt), rest).
Proof.
  intros vt ws1 pkg ws2 ws3 rest Hn Hp Hk H1 H2 H3 Hr. unfold leaf_parse.
  rewrite read_ident; try assumption.
  2:{ apply nis_ws_char; [assumption|reflexivity]. }
  rewrite match_struct_qual by assumption. rewrite Hk.
  destruct pkg as [|c w]; [discriminate|].
  cbn [is_identifier] in Hp. apply andb_true_iff in Hp. destruct Hp as [Hc _].
  rewrite Hc. reflexivity.
Qed.

Lemma match_struct_anon : forall sid tv def, match_struct (GStruct sid []) tv def = ROk (true, def).
Proof. intros sid tv def. unfold match_struct. destruct (read_token def); reflexivity. Qed.

Lemma leaf_anon_parse : forall sid ws x rest,
  is_identifier x = true -> spaces ws -> no_ident_start rest ->
  leaf_parse (GStruct sid []) (ws ++ x ++ rest) = ROk (DT DStruct None None sid, rest).
Proof.
  intros sid ws x rest Hx Hw Hr. unfold leaf_parse.
  rewrite read_ident by assumption.
  destruct x as [|c w]; [discriminate|].
  cbn [is_identifier] in Hx. apply andb_true_iff in Hx. destruct Hx as [Hc _].
  cbn [tag0_of sid_of tag1_of].
  destruct (is_keyword DStruct (c :: w)); [reflexivity|].
  rewrite Hc. cbn [negb]. rewrite match_struct_anon. reflexivity.
Qed.

(* ------------------------------------------------------------------ *)
(* schema-level facts                                                  *)
(* ------------------------------------------------------------------ *)

Lemma go_of_not_uint8 : forall t, go_of t <> GUint8.
Proof. intros t. destruct t; discriminate. Qed.

Lemma key_type_dt_of : forall t, is_key_type (dt_of t) = is_key_sty t.
Proof. intros t. destruct t; try reflexivity. destruct t; reflexivity. Qed.

Lemma value_type_dt_of : forall t, is_value_type (dt_of t) = is_value_sty t.
Proof. intros t. destruct t; try reflexivity. destruct t; reflexivity. Qed.

Lemma key_type_dt_of' : forall t, is_key_type (dt_of' t) = is_key_sty t.
Proof. intros t. destruct t; try reflexivity. destruct t; reflexivity. Qed.

Lemma value_type_dt_of' : forall t, is_value_type (dt_of' t) = is_value_sty t.
Proof. intros t. destruct t; try reflexivity. destruct t; reflexivity. Qed.

Lemma not_container_dt_of : forall t,
  is_container_sty t = false ->
  dt_tag (dt_of t) <> DMap /\ dt_tag (dt_of t) <> DSet /\ dt_tag (dt_of t) <> DList.
Proof. intros t H. destruct t; try discriminate H; cbn; repeat split; discriminate. Qed.

Lemma not_container_dt_of' : forall t,
  is_container_sty t = false ->
  dt_tag (dt_of' t) <> DMap /\ dt_tag (dt_of' t) <> DSet /\ dt_tag (dt_of' t) <> DList.
Proof. intros t H. destruct t; try discriminate H; cbn; repeat split; discriminate. Qed.

Lemma kw_tag_leaf : forall t tag,
  kw_tag t = Some tag -> t <> SBinary ->
  is_leaf (go_of t) = true /\ tag0_of (go_of t) = tag /\
  dt_of t = DT tag None None (sid_of (go_of t)).
Proof.
  intros t tag H Hb. destruct t; try discriminate H; try congruence;
    injection H as <-; repeat split; reflexivity.
Qed.

Lemma type_name_leaf : forall t n allow,
  type_name t = Some n -> sty_ok allow t = true ->
  is_leaf (go_of t) = true /\ go_name (go_of t) = n /\ is_identifier n = true /\
  first_tag t = tag0_of (go_of t) /\
  dt_of t = DT (tag1_of (go_of t)) None None (sid_of (go_of t)).
Proof.
  intros t n allow H Hok.
  destruct t as [ | | | | | | | | nm | sid nm | e | e | k v | t]; try discriminate H.
  1-7: injection H as <-; repeat split; reflexivity.
  - (* enum *) injection H as <-. cbn [sty_ok] in Hok.
    destruct nm as [|c w]; [discriminate Hok|]. repeat split; try reflexivity. exact Hok.
  - (* struct *) destruct nm as [|c w]; [discriminate H|]. injection H as <-.
    cbn [sty_ok] in Hok. repeat split; try reflexivity. exact Hok.
Qed.

Lemma name_ok_tag : forall t n,
  type_name t = Some n -> name_ok t ->
  is_keyword (tag0_of (go_of t)) n = false \/ tag1_of (go_of t) = tag0_of (go_of t).
Proof.
  intros t n H Hn. destruct t; try discriminate H; try (right; reflexivity).
  left. injection H as <-. exact Hn.
Qed.

(* ------------------------------------------------------------------ *)
(* 3. the parser inverts the printer                                   *)
(* ------------------------------------------------------------------ *)

(* keyword spellings and qualified names need less: the rest must only not
   continue the last identifier *)
Theorem parse_print_kw : forall t tag k ws rest allow,
  kw_tag t = Some tag -> In k (keywords tag) -> spaces ws -> no_ident_start rest ->
  parse_type (go_of t) true ((ws ++ k) ++ rest) allow = ROk (dt_of t, rest).
Proof.
  intros t tag k ws rest allow Hkw Hin Hws Hr.
  rewrite <- app_assoc.
  destruct t; try discriminate Hkw.
  8:{ (* binary *)
    injection Hkw as <-. cbn [go_of]. rewrite parse_binary_eq. unfold binary_parse.
    rewrite read_ident by (try assumption; eapply keywords_ident; exact Hin).
    pose proof (keywords_ident _ _ Hin) as Hi. destruct k as [|c w]; [discriminate|].
    rewrite (keywords_is_keyword _ _ Hin). reflexivity. }
  all: destruct (kw_tag_leaf _ _ Hkw) as (Hl & Ht & Hd); [discriminate|];
    rewrite parse_leaf_eq by exact Hl; rewrite Hd; rewrite <- Ht in Hin |- *;
    apply leaf_kw_parse; assumption.
Qed.

Theorem parse_print_qual : forall t n pkg ws1 ws2 ws3 rest allow,
  sty_ok allow t = true ->
  type_name t = Some n ->
  is_identifier pkg = true -> is_keyword (first_tag t) pkg = false ->
  spaces ws1 -> spaces ws2 -> spaces ws3 -> no_ident_start rest ->
  parse_type (go_of t) true ((ws1 ++ pkg ++ ws2 ++ [46] ++ ws3 ++ n) ++ rest) allow
  = ROk (dt_of t, rest).
Proof.
  intros t n pkg ws1 ws2 ws3 rest allow Hok Hnm Hpkg Hpk Hw1 Hw2 Hw3 Hr.
  destruct (type_name_leaf _ _ _ Hnm Hok) as (Hl & Hg & Hi & Hft & Hd).
  repeat rewrite <- app_assoc. cbn [app].
  rewrite parse_leaf_eq by exact Hl. rewrite Hd. rewrite Hft in Hpk.
  rewrite <- Hg in Hi |- *. apply leaf_qual_parse; assumption.
Qed.

(* containers end with ">": anything may follow them *)
Definition follow_ok (t : sty) (rest : str) : Prop :=
  is_container_sty t = true \/ rest_ok rest.

Lemma parse_print_gen : forall t s,
  prints t s ->
  forall rest allow, sty_ok allow t = true -> follow_ok t rest ->
  parse_type (go_of t) true (s ++ rest) allow = ROk (dt_of t, rest).
Proof.
  induction 1 as
    [ t tag k ws Hkw Hin Hws
    | t n ws Hnm Hnok Hws
    | t n pkg ws1 ws2 ws3 Hnm Hpkg Hpk Hw1 Hw2 Hw3
    | e s ws1 ws2 ws3 Hp IH Hw1 Hw2 Hw3
    | e s ws1 ws2 ws3 Hp IH Hw1 Hw2 Hw3
    | k v sk sv ws1 ws2 ws3 ws4 Hpk IHk Hpv IHv Hw1 Hw2 Hw3 Hw4
    | t s Hp IH
    | sid x ws Hx Hws ]; intros rest allow Hok Hf.
  - (* keyword *)
    apply (parse_print_kw t tag k ws rest allow Hkw Hin Hws).
    destruct Hf as [Hc | Hr]; [destruct t; discriminate|apply rest_ok_nis; exact Hr].
  - (* unqualified name *)
    assert (Hr : rest_ok rest).
    { destruct Hf as [Hc | Hr]; [destruct t; discriminate|exact Hr]. }
    destruct (type_name_leaf _ _ _ Hnm Hok) as (Hl & Hg & Hi & _ & Hd).
    rewrite <- app_assoc. rewrite parse_leaf_eq by exact Hl. rewrite Hd.
    pose proof (name_ok_tag _ _ Hnm Hnok) as Hk.
    rewrite <- Hg in Hi, Hk |- *. apply leaf_name_parse; assumption.
  - (* qualified name *)
    apply (parse_print_qual t n pkg ws1 ws2 ws3 rest allow Hok Hnm Hpkg Hpk Hw1 Hw2 Hw3).
    destruct Hf as [Hc | Hr]; [destruct t; discriminate|apply rest_ok_nis; exact Hr].
  - (* list *)
    cbn [sty_ok] in Hok. apply andb_true_iff in Hok. destruct Hok as [Hoe Hve].
    repeat rewrite <- app_assoc. cbn [app go_of dt_of].
    rewrite (parse_slice_rule (go_of e) _ allow s_list
               (ws2 ++ 60 :: s ++ ws3 ++ 62 :: rest) (s ++ ws3 ++ 62 :: rest)
               (dt_of e) (ws3 ++ 62 :: rest) rest).
    + reflexivity.
    + apply go_of_not_uint8.
    + apply read_ident; [assumption|reflexivity|apply nis_ws_char; [assumption|reflexivity]].
    + right; reflexivity.
    + apply expect_char; [assumption|reflexivity|reflexivity].
    + apply IH; [exact Hoe|]. right. apply rest_ok_ws_char; [assumption|right; reflexivity].
    + apply expect_char; [assumption|reflexivity|reflexivity].
    + rewrite value_type_dt_of. exact Hve.
  - (* set *)
    cbn [sty_ok] in Hok. apply andb_true_iff in Hok. destruct Hok as [Hoe Hve].
    repeat rewrite <- app_assoc. cbn [app go_of dt_of].
    rewrite (parse_slice_rule (go_of e) _ allow s_set
               (ws2 ++ 60 :: s ++ ws3 ++ 62 :: rest) (s ++ ws3 ++ 62 :: rest)
               (dt_of e) (ws3 ++ 62 :: rest) rest).
    + reflexivity.
    + apply go_of_not_uint8.
    + apply read_ident; [assumption|reflexivity|apply nis_ws_char; [assumption|reflexivity]].
    + left; reflexivity.
    + apply expect_char; [assumption|reflexivity|reflexivity].
    + apply IH; [exact Hoe|]. right. apply rest_ok_ws_char; [assumption|right; reflexivity].
    + apply expect_char; [assumption|reflexivity|reflexivity].
    + rewrite value_type_dt_of. exact Hve.
  - (* map *)
    cbn [sty_ok] in Hok. repeat rewrite andb_true_iff in Hok.
    destruct Hok as [[[Hok1 Hkk] Hov] Hvv].
    repeat rewrite <- app_assoc. cbn [app go_of dt_of].
    apply (parse_map_rule (go_of k) (go_of v) _ allow
             (ws2 ++ 60 :: sk ++ ws3 ++ 58 :: sv ++ ws4 ++ 62 :: rest)
             (sk ++ ws3 ++ 58 :: sv ++ ws4 ++ 62 :: rest)
             (dt_of k) (ws3 ++ 58 :: sv ++ ws4 ++ 62 :: rest)
             (sv ++ ws4 ++ 62 :: rest) (dt_of v) (ws4 ++ 62 :: rest) rest).
    + apply read_ident; [assumption|reflexivity|apply nis_ws_char; [assumption|reflexivity]].
    + apply expect_char; [assumption|reflexivity|reflexivity].
    + apply IHk; [exact Hok1|]. right. apply rest_ok_ws_char; [assumption|left; reflexivity].
    + rewrite key_type_dt_of. exact Hkk.
    + apply expect_char; [assumption|reflexivity|reflexivity].
    + apply IHv; [exact Hov|]. right. apply rest_ok_ws_char; [assumption|right; reflexivity].
    + apply expect_char; [assumption|reflexivity|reflexivity].
    + rewrite value_type_dt_of. exact Hvv.
  - (* pointer *)
    cbn [sty_ok] in Hok. repeat rewrite andb_true_iff in Hok.
    destruct Hok as [[Ha Hc] Hot]. subst allow.
    apply negb_true_iff in Hc.
    cbn [go_of dt_of]. apply parse_ptr_rule.
    + apply IH; [exact Hot|]. destruct Hf as [Hf | Hf]; [discriminate Hf|right; exact Hf].
    + apply not_container_dt_of. exact Hc.
  - (* anonymous struct *)
    assert (Hr : no_ident_start rest).
    { destruct Hf as [Hc | Hr]; [discriminate Hc|apply rest_ok_nis; exact Hr]. }
    rewrite <- app_assoc. cbn [go_of dt_of]. rewrite parse_leaf_eq by reflexivity.
    apply leaf_anon_parse; assumption.
Qed.

Theorem parse_print : forall t s rest allow,
  sty_ok allow t = true -> prints t s -> rest_ok rest ->
  parse_type (go_of t) true (s ++ rest) allow = ROk (dt_of t, rest).
Proof.
  intros t s rest allow Hok Hp Hr. apply parse_print_gen; [exact Hp|exact Hok|right; exact Hr].
Qed.

(* after a container annotation anything may follow *)
Theorem parse_print_container : forall t s rest allow,
  sty_ok allow t = true -> prints t s -> is_container_sty t = true ->
  parse_type (go_of t) true (s ++ rest) allow = ROk (dt_of t, rest).
Proof.
  intros t s rest allow Hok Hp Hc. apply parse_print_gen; [exact Hp|exact Hok|left; exact Hc].
Qed.

(* an anonymous struct: only the identifier must end *)
Theorem parse_print_anon : forall sid x ws rest allow,
  is_identifier x = true -> spaces ws -> no_ident_start rest ->
  parse_type (go_of (SStruct sid [])) true ((ws ++ x) ++ rest) allow
  = ROk (dt_of (SStruct sid []), rest).
Proof.
  intros sid x ws rest allow Hx Hws Hr.
  rewrite <- app_assoc. cbn [go_of dt_of]. rewrite parse_leaf_eq by reflexivity.
  apply leaf_anon_parse; assumption.
Qed.

(* ---- [rest_ok] cannot be weakened for unqualified names ---- *)

Lemma drop_while_len : forall p s, (length (drop_while p s) <= length s)%nat.
Proof.
  intros p s. induction s as [|c s IH]; cbn [drop_while]; [lia|].
  destruct (p c); cbn [length]; lia.
Qed.

Lemma read_token_len : forall s, (length (snd (read_token s)) <= length s)%nat.
Proof.
  intros s. unfold read_token. pose proof (drop_while_len is_space s) as H.
  destruct (drop_while is_space s) as [|c r]; [cbn; lia|].
  cbn [length] in H. destruct (is_ident0 c); cbn [snd].
  - rewrite skipn_length. lia.
  - lia.
Qed.

Lemma read_token_len_lt : forall s tok r,
  read_token s = (tok, r) -> tok <> [] -> (length r < length s)%nat.
Proof.
  intros s tok r H Hne. unfold read_token in H. pose proof (drop_while_len is_space s) as Hl.
  destruct (drop_while is_space s) as [|c r0]; [injection H as <- <-; congruence|].
  cbn [length] in Hl. destruct (is_ident0 c); injection H as <- <-.
  - rewrite skipn_length. lia.
  - lia.
Qed.

Theorem rest_ok_needed : forall t n ws rest allow,
  type_name t = Some n -> sty_ok allow t = true ->
  is_keyword (first_tag t) n = false ->
  spaces ws -> no_ident_start rest ->
  parse_type (go_of t) true ((ws ++ n) ++ rest) allow = ROk (dt_of t, rest) ->
  rest_ok rest.
Proof.
  intros t n ws rest allow Hnm Hok Hk Hws Hr H.
  destruct (type_name_leaf _ _ _ Hnm Hok) as (Hl & Hg & Hi & Hft & Hd).
  rewrite <- app_assoc in H. rewrite parse_leaf_eq in H by exact Hl.
  unfold leaf_parse in H. rewrite read_ident in H by assumption.
  assert (Hne : go_name (go_of t) <> []).
  { rewrite Hg. apply ident_nonempty. exact Hi. }
  rewrite match_struct_named in H by exact Hne.
  destruct n as [|c w]; [discriminate Hi|].
  rewrite Hft in Hk. rewrite Hk in H.
  cbn [is_identifier] in Hi. apply andb_true_iff in Hi. destruct Hi as [Hc _].
  rewrite Hc in H. cbn [negb] in H. cbv iota in H.
  unfold match_struct_body in H.
  apply rest_ok_token.
  destruct (read_token rest) as [tok r] eqn:Er. cbn [fst].
  destruct tok as [|d tok']; [left; reflexivity|].
  destruct (tok_is (d :: tok') 58) eqn:E58.
  { right; left. apply str_eqb_eq. exact E58. }
  destruct (tok_is (d :: tok') 62) eqn:E62.
  { right; right. apply str_eqb_eq. exact E62. }
  cbn [orb] in H. cbv iota in H.
  destruct (tok_is (d :: tok') 46); cbn [negb] in H; cbv iota in H; [|discriminate H].
  destruct (read_token r) as [tv2 rest2] eqn:Er2.
  destruct tv2 as [|c2 w2]; [discriminate H|].
  destruct (is_ident0 c2); [|discriminate H].
  destruct (str_eqb (go_name (go_of t)) (c2 :: w2)); [|discriminate H].
  injection H as _ H.
  pose proof (read_token_len r) as L1. rewrite Er2 in L1. cbn [snd] in L1.
  assert (L2 : (length r < length rest)%nat).
  { eapply read_token_len_lt; [exact Er|discriminate]. }
  rewrite H in L1. lia.
Qed.

(* ---- the whole annotation ---- *)

Lemma prints_nonempty : forall t s, prints t s -> forall allow, sty_ok allow t = true -> s <> [].
Proof.
  induction 1 as
    [ t tag k ws Hkw Hin Hws
    | t n ws Hnm Hnok Hws
    | t n pkg ws1 ws2 ws3 Hnm Hpkg Hpk Hw1 Hw2 Hw3
    | e s ws1 ws2 ws3 Hp IH Hw1 Hw2 Hw3
    | e s ws1 ws2 ws3 Hp IH Hw1 Hw2 Hw3
    | k v sk sv ws1 ws2 ws3 ws4 Hpk IHk Hpv IHv Hw1 Hw2 Hw3 Hw4
    | t s Hp IH
    | sid x ws Hx Hws ]; intros allow Hok.
  - apply app_nonempty_r. apply ident_nonempty. eapply keywords_ident. exact Hin.
  - apply app_nonempty_r. apply ident_nonempty.
    destruct (type_name_leaf _ _ _ Hnm Hok) as (_ & _ & Hi & _). exact Hi.
  - apply app_nonempty_r. apply app_nonempty_l. apply ident_nonempty. exact Hpkg.
  - apply app_nonempty_r. apply app_nonempty_l. discriminate.
  - apply app_nonempty_r. apply app_nonempty_l. discriminate.
  - apply app_nonempty_r. apply app_nonempty_l. discriminate.
  - cbn [sty_ok] in Hok. repeat rewrite andb_true_iff in Hok.
    destruct Hok as [_ Hot]. eapply IH. exact Hot.
  - apply app_nonempty_r. apply ident_nonempty. exact Hx.
Qed.

Theorem parse_print_top : forall t s ws,
  sty_ok true t = true -> prints t s -> spaces ws ->
  parse_type_top (go_of t) (s ++ ws) = ROk (dt_of t).
Proof.
  intros t s ws Hok Hp Hws. unfold parse_type_top.
  assert (Hne : s ++ ws <> []).
  { apply app_nonempty_l. eapply prints_nonempty; eassumption. }
  destruct (s ++ ws) as [|c r] eqn:E; [congruence|]. rewrite <- E.
  rewrite (parse_print t s ws true Hok Hp (rest_ok_spaces ws Hws)).
  rewrite read_token_spaces by exact Hws. reflexivity.
Qed.

Corollary parse_print_top0 : forall t s,
  sty_ok true t = true -> prints t s -> parse_type_top (go_of t) s = ROk (dt_of t).
Proof.
  intros t s Hok Hp. rewrite <- (app_nil_r s). apply parse_print_top; [assumption|assumption|constructor].
Qed.

(* all spellings of a schema are equivalent *)
Corollary spellings_equivalent : forall t s1 s2,
  sty_ok true t = true -> prints t s1 -> prints t s2 ->
  parse_type_top (go_of t) s1 = parse_type_top (go_of t) s2.
Proof.
  intros t s1 s2 Hok H1 H2. rewrite (parse_print_top0 t s1 Hok H1).
  rewrite (parse_print_top0 t s2 Hok H2). reflexivity.
Qed.

(* ---- no annotation: the Go type alone determines the schema ---- *)

Fixpoint no_slice (t : sty) : bool :=
  match t with
  | SList _ | SSet _ => false
  | SMap k v => no_slice k && no_slice v
  | SPtr t' => no_slice t'
  | _ => true
  end.

Theorem parse_noannot : forall t allow,
  sty_ok allow t = true -> no_slice t = true ->
  parse_type (go_of t) false [] allow = ROk (dt_of' t, []).
Proof.
  induction t as [ | | | | | | | | n | sid n | e IH | e IH | k IHk v IHv | t IH];
    intros allow Hok Hns; try reflexivity; try discriminate Hns.
  - (* map *)
    cbn [sty_ok] in Hok. repeat rewrite andb_true_iff in Hok.
    destruct Hok as [[[Hok1 Hkk] Hov] Hvv].
    cbn [no_slice] in Hns. apply andb_true_iff in Hns. destruct Hns as [Hn1 Hn2].
    cbn [go_of dt_of']. apply parse_map_noannot.
    + apply IHk; assumption.
    + rewrite key_type_dt_of'. exact Hkk.
    + apply IHv; assumption.
    + rewrite value_type_dt_of'. exact Hvv.
  - (* pointer *)
    cbn [sty_ok] in Hok. repeat rewrite andb_true_iff in Hok.
    destruct Hok as [[Ha Hc] Hot]. subst allow. apply negb_true_iff in Hc.
    cbn [go_of dt_of']. apply parse_ptr_rule.
    + apply IH; assumption.
    + apply not_container_dt_of'. exact Hc.
Qed.

Theorem parse_noannot_top : forall t,
  sty_ok true t = true -> no_slice t = true ->
  parse_type_top (go_of t) [] = ROk (dt_of' t).
Proof.
  intros t Hok Hns. unfold parse_type_top. rewrite parse_noannot by assumption. reflexivity.
Qed.

(* a list or set cannot do without annotation *)
Lemma parse_noannot_slice : forall e def allow,
  parse_type (go_of (SList e)) false def allow = RErr /\
  parse_type (go_of (SSet e)) false def allow = RErr.
Proof.
  intros e def allow. cbn [go_of]. pose proof (go_of_not_uint8 e) as H.
  destruct (go_of e); try congruence; split; reflexivity.
Qed.

(* ------------------------------------------------------------------ *)
(* 4. the field level: struct tags                                     *)
(* ------------------------------------------------------------------ *)

(* ---- tag lookup ---- *)

Definition keychar (c : N) : bool :=
  negb (c =? 58) && negb (c =? 34) && negb (c =? 32) && (32 <? c) && negb (c =? 127).
Definition blanks (sp : str) : Prop := Forall (fun c => c = 32) sp.
Definition no_quote (s : str) : Prop := Forall (fun c => c <> 34) s.
Definition no_comma (s : str) : Prop := Forall (fun c => c <> 44) s.

(* key:"value" *)
Definition tag_entry (key v : str) : str := key ++ 58 :: 34 :: v ++ [34].

Lemma drop_blanks : forall sp x, blanks sp -> drop_while (N.eqb 32) (sp ++ x) = drop_while (N.eqb 32) x.
Proof.
  intros sp x H. induction H as [|c l Hc _ IH]; cbn [app drop_while]; [reflexivity|].
  subst c. rewrite N.eqb_refl. exact IH.
Qed.

Lemma take_while_stop : forall (p : N -> bool) k c x,
  forallb p k = true -> p c = false -> take_while p (k ++ c :: x) = k.
Proof.
  intros p k c x. induction k as [|d k IH]; intros Hk Hc; cbn [app take_while].
  - rewrite Hc. reflexivity.
  - cbn [forallb] in Hk. apply andb_true_iff in Hk. destruct Hk as [Hd Hk].
    rewrite Hd. f_equal. apply IH; assumption.
Qed.

Lemma until_quote_app : forall v acc r,
  no_quote v -> until_quote (v ++ 34 :: r) acc = Some (rev acc ++ v, r).
Proof.
  induction v as [|c v IH]; intros acc r Hv; cbn [app until_quote].
  - rewrite N.eqb_refl. rewrite app_nil_r. reflexivity.
  - inversion Hv as [|? ? Hc Hv']; subst.
    apply N.eqb_neq in Hc. rewrite Hc. rewrite IH by exact Hv'.
    cbn [rev]. rewrite <- app_assoc. reflexivity.
Qed.

Lemma tag_lookup_S : forall f tag key,
  tag_lookup (S f) tag key =
  match drop_while (N.eqb 32) tag with
  | [] => None
  | t =>
      let name := take_while keychar t in
      let rest := skipn (length name) t in
      match name, rest with
      | _ :: _, 58 :: 34 :: r =>
          match until_quote r [] with
          | Some (v, r') => if str_eqb name key then Some v else tag_lookup f r' key
          | None => None
          end
      | _, _ => None
      end
  end.
Proof. intros f tag key. cbn [tag_lookup]. destruct (drop_while (N.eqb 32) tag); reflexivity. Qed.

Lemma tag_lookup_blank : forall f sp key, blanks sp -> tag_lookup f sp key = None.
Proof.
  intros [|f] sp key H; [reflexivity|]. rewrite tag_lookup_S.
  rewrite <- (app_nil_r sp). rewrite drop_blanks by exact H. reflexivity.
Qed.

Lemma tag_lookup_entry : forall f sp k v r key,
  blanks sp -> k <> [] -> forallb keychar k = true -> no_quote v ->
  tag_lookup (S f) (sp ++ tag_entry k v ++ r) key
  = if str_eqb k key then Some v else tag_lookup f r key.
Proof.
  intros f sp k v r key Hsp Hk Hkc Hv. rewrite tag_lookup_S.
  rewrite drop_blanks by exact Hsp. unfold tag_entry.
  repeat (rewrite <- app_assoc; cbn [app]).
  destruct k as [|c k']; [congruence|].
  assert (Hc : keychar c = true).
  { cbn [forallb] in Hkc. apply andb_true_iff in Hkc. tauto. }
  cbn [app drop_while].
  assert (Hc32 : (32 =? c) = false) by (unfold keychar in Hc; lia).
  rewrite Hc32. cbv zeta.
  change (c :: k' ++ 58 :: 34 :: v ++ 34 :: r) with ((c :: k') ++ 58 :: 34 :: v ++ 34 :: r).
    rewrite take_while_stop by (try exact Hkc; reflexivity).
  rewrite skipn_app_len. rewrite until_quote_app by exact Hv. reflexivity.
Qed.

Lemma s_frugal_key : s_frugal <> [] /\ forallb keychar s_frugal = true.
Proof. split; [discriminate|reflexivity]. Qed.
Lemma s_thrift_key : s_thrift <> [] /\ forallb keychar s_thrift = true.
Proof. split; [discriminate|reflexivity]. Qed.

(* frugal:"v" first: whatever follows (a thrift:"..." entry, say) is ignored *)
Lemma lookup_frugal_first : forall sp v r,
  blanks sp -> no_quote v ->
  lookup_struct_tag (sp ++ tag_entry s_frugal v ++ r)
  = Some (map trim_space (split_comma v [])).
Proof.
  intros sp v r Hsp Hv. unfold lookup_struct_tag.
  rewrite tag_lookup_entry; try assumption; try apply s_frugal_key.
  reflexivity.
Qed.

(* thrift:"v" alone *)
Lemma lookup_thrift_only : forall sp v sp',
  blanks sp -> no_quote v -> blanks sp' ->
  lookup_struct_tag (sp ++ tag_entry s_thrift v ++ sp')
  = Some (map trim_space (tl (split_comma v []))).
Proof.
  intros sp v sp' Hsp Hv Hsp'. unfold lookup_struct_tag.
  rewrite tag_lookup_entry; try assumption; try apply s_thrift_key.
  change (str_eqb s_thrift s_frugal) with false. cbv iota.
  rewrite tag_lookup_blank by exact Hsp'.
  rewrite tag_lookup_entry; try assumption; try apply s_thrift_key.
  reflexivity.
Qed.

(* thrift:"v1" frugal:"v2": frugal wins *)
Lemma lookup_thrift_frugal : forall sp v1 sp' v2 r,
  blanks sp -> no_quote v1 -> blanks sp' -> no_quote v2 ->
  lookup_struct_tag (sp ++ tag_entry s_thrift v1 ++ sp' ++ tag_entry s_frugal v2 ++ r)
  = Some (map trim_space (split_comma v2 [])).
Proof.
  intros sp v1 sp' v2 r Hsp Hv1 Hsp' Hv2. unfold lookup_struct_tag.
  rewrite tag_lookup_entry; try assumption; try apply s_thrift_key.
  change (str_eqb s_thrift s_frugal) with false. cbv iota.
  assert (Hlen : exists f, length (sp ++ tag_entry s_thrift v1 ++ sp' ++ tag_entry s_frugal v2 ++ r) = S f).
  { destruct (length (sp ++ tag_entry s_thrift v1 ++ sp' ++ tag_entry s_frugal v2 ++ r)) eqn:E.
    - apply length_zero_iff_nil in E. apply app_eq_nil in E. destruct E as [_ E].
      apply app_eq_nil in E. destruct E as [E _]. discriminate E.
    - eexists; reflexivity. }
  destruct Hlen as [f ->].
  rewrite tag_lookup_entry; try assumption; try apply s_frugal_key.
  reflexivity.
Qed.

(* ---- splitting at commas ---- *)

Lemma split_comma_last : forall p cur, no_comma p -> split_comma p cur = [rev cur ++ p].
Proof.
  induction p as [|c p IH]; intros cur Hp; cbn [split_comma].
  - rewrite app_nil_r. reflexivity.
  - inversion Hp as [|? ? Hc Hp']; subst. apply N.eqb_neq in Hc. rewrite Hc.
    rewrite IH by exact Hp'. cbn [rev]. rewrite <- app_assoc. reflexivity.
Qed.

Lemma split_comma_app : forall p cur r,
  no_comma p -> split_comma (p ++ 44 :: r) cur = (rev cur ++ p) :: split_comma r [].
Proof.
  induction p as [|c p IH]; intros cur r Hp; cbn [app split_comma].
  - rewrite N.eqb_refl. rewrite app_nil_r. reflexivity.
  - inversion Hp as [|? ? Hc Hp']; subst. apply N.eqb_neq in Hc. rewrite Hc.
    rewrite IH by exact Hp'. cbn [rev]. rewrite <- app_assoc. reflexivity.
Qed.

(* strings.Join(parts, ",") for a non-empty list *)
Fixpoint join_comma (p : str) (ps : list str) : str :=
  match ps with
  | [] => p
  | q :: ps' => p ++ 44 :: join_comma q ps'
  end.

Lemma split_join : forall ps p,
  no_comma p -> Forall no_comma ps -> split_comma (join_comma p ps) [] = p :: ps.
Proof.
  induction ps as [|q ps IH]; intros p Hp Hps; cbn [join_comma].
  - rewrite split_comma_last by exact Hp. reflexivity.
  - inversion Hps as [|? ? Hq Hps']; subst.
    rewrite split_comma_app by exact Hp. rewrite IH by assumption. reflexivity.
Qed.

Lemma no_quote_join : forall ps p,
  no_quote p -> Forall no_quote ps -> no_quote (join_comma p ps).
Proof.
  induction ps as [|q ps IH]; intros p Hp Hps; cbn [join_comma]; [exact Hp|].
  inversion Hps as [|? ? Hq Hps']; subst.
  apply Forall_app. split; [exact Hp|]. constructor; [discriminate|]. apply IH; assumption.
Qed.

(* ---- trimming ---- *)

Definition starts_ns (x : str) : Prop :=
  match x with c :: _ => is_space c = false | [] => False end.
Definition ends_ns (x : str) : Prop := starts_ns (rev x).
(* x surrounded by optional white space *)
Inductive padded (x : str) : str -> Prop :=
| padded_intro : forall ws1 ws2, spaces ws1 -> spaces ws2 -> padded x (ws1 ++ x ++ ws2).

Lemma padded_self : forall x, padded x x.
Proof.
  intros x. pose proof (padded_intro x [] [] (Forall_nil _) (Forall_nil _)) as H.
  cbn [app] in H. rewrite app_nil_r in H. exact H.
Qed.

Lemma drop_while_starts_ns : forall x, starts_ns x -> drop_while is_space x = x.
Proof. intros [|c r] H; [reflexivity|]. cbn in H. cbn [drop_while]. rewrite H. reflexivity. Qed.

Lemma spaces_rev : forall ws, spaces ws -> spaces (rev ws).
Proof. intros ws H. apply Forall_rev. exact H. Qed.

Lemma starts_ns_app : forall a b, starts_ns a -> starts_ns (a ++ b).
Proof. intros [|c a] b H; [destruct H|exact H]. Qed.

Lemma ends_ns_app : forall a b, ends_ns b -> ends_ns (a ++ b).
Proof. intros a b H. unfold ends_ns in *. rewrite rev_app_distr. apply starts_ns_app. exact H. Qed.

Lemma trim_padded : forall x p, padded x p -> starts_ns x -> ends_ns x -> trim_space p = x.
Proof.
  intros x p [ws1 ws2 H1 H2] Hs He. unfold trim_space.
  rewrite drop_while_spaces by exact H1.
  rewrite (drop_while_starts_ns (x ++ ws2)) by (apply starts_ns_app; exact Hs).
  rewrite rev_app_distr. rewrite drop_while_spaces by (apply spaces_rev; exact H2).
  rewrite drop_while_starts_ns by exact He. apply rev_involutive.
Qed.

Lemma nonspace_tight : forall x,
  x <> [] -> Forall (fun c => is_space c = false) x -> starts_ns x /\ ends_ns x.
Proof.
  intros x Hne Hx. split.
  - destruct x as [|c r]; [congruence|]. inversion Hx; subst. assumption.
  - unfold ends_ns. apply Forall_rev in Hx.
    destruct (rev x) as [|c r] eqn:E.
    + apply (f_equal (@rev N)) in E. rewrite rev_involutive in E. cbn in E. congruence.
    + inversion Hx; subst. assumption.
Qed.

Lemma ident_nonspace : forall x, is_identifier x = true -> Forall (fun c => is_space c = false) x.
Proof.
  intros [|c w] H; [discriminate H|]. cbn [is_identifier] in H.
  apply andb_true_iff in H. destruct H as [Hc Hw]. constructor.
  - apply ident0_not_space. exact Hc.
  - rewrite forallb_forall in Hw. apply Forall_forall. intros d Hd.
    apply ident_not_space. apply Hw. exact Hd.
Qed.

Lemma ident_tight : forall x, is_identifier x = true -> starts_ns x /\ ends_ns x.
Proof.
  intros x H. apply nonspace_tight; [apply ident_nonempty; exact H|apply ident_nonspace; exact H].
Qed.

(* a printed annotation is white space followed by a printed annotation that
   starts and ends with a non-space character *)
Lemma prints_tight : forall t s,
  prints t s -> forall allow, sty_ok allow t = true ->
  exists ws s', s = ws ++ s' /\ spaces ws /\ prints t s' /\ starts_ns s' /\ ends_ns s'.
Proof.
  induction 1 as
    [ t tag k ws Hkw Hin Hws
    | t n ws Hnm Hnok Hws
    | t n pkg ws1 ws2 ws3 Hnm Hpkg Hpk Hw1 Hw2 Hw3
    | e s ws1 ws2 ws3 Hp IH Hw1 Hw2 Hw3
    | e s ws1 ws2 ws3 Hp IH Hw1 Hw2 Hw3
    | k v sk sv ws1 ws2 ws3 ws4 Hpk IHk Hpv IHv Hw1 Hw2 Hw3 Hw4
    | t s Hp IH
    | sid x ws Hx Hws ]; intros allow Hok.
  - exists ws, k. destruct (ident_tight k (keywords_ident _ _ Hin)) as [Hs He].
    split; [reflexivity|]. split; [assumption|]. split; [|split; assumption].
    apply (P_kw t tag k [] Hkw Hin (Forall_nil _)).
  - exists ws, n. destruct (type_name_leaf _ _ _ Hnm Hok) as (_ & _ & Hi & _).
    destruct (ident_tight n Hi) as [Hs He].
    split; [reflexivity|]. split; [assumption|]. split; [|split; assumption].
    apply (P_name t n [] Hnm Hnok (Forall_nil _)).
  - exists ws1, (pkg ++ ws2 ++ [46] ++ ws3 ++ n).
    destruct (type_name_leaf _ _ _ Hnm Hok) as (_ & _ & Hi & _).
    destruct (ident_tight n Hi) as [_ He]. destruct (ident_tight pkg Hpkg) as [Hs _].
    split; [reflexivity|]. split; [assumption|]. split; [|split].
    + apply (P_qual t n pkg [] ws2 ws3 Hnm Hpkg Hpk (Forall_nil _) Hw2 Hw3).
    + apply starts_ns_app. exact Hs.
    + repeat apply ends_ns_app. exact He.
  - exists ws1, (s_list ++ ws2 ++ [60] ++ s ++ ws3 ++ [62]).
    split; [reflexivity|]. split; [assumption|]. split; [|split].
    + apply (P_list e s [] ws2 ws3 Hp (Forall_nil _) Hw2 Hw3).
    + reflexivity.
    + repeat apply ends_ns_app. reflexivity.
  - exists ws1, (s_set ++ ws2 ++ [60] ++ s ++ ws3 ++ [62]).
    split; [reflexivity|]. split; [assumption|]. split; [|split].
    + apply (P_set e s [] ws2 ws3 Hp (Forall_nil _) Hw2 Hw3).
    + reflexivity.
    + repeat apply ends_ns_app. reflexivity.
  - exists ws1, (s_map ++ ws2 ++ [60] ++ sk ++ ws3 ++ [58] ++ sv ++ ws4 ++ [62]).
    split; [reflexivity|]. split; [assumption|]. split; [|split].
    + apply (P_map k v sk sv [] ws2 ws3 ws4 Hpk Hpv (Forall_nil _) Hw2 Hw3 Hw4).
    + reflexivity.
    + repeat apply ends_ns_app. reflexivity.
  - cbn [sty_ok] in Hok. repeat rewrite andb_true_iff in Hok. destruct Hok as [_ Hot].
    destruct (IH _ Hot) as (ws & s' & -> & Hws & Hp' & Hs & He).
    exists ws, s'. split; [reflexivity|]. split; [assumption|]. split; [|split; assumption].
    apply P_ptr. exact Hp'.
  - exists ws, x. destruct (ident_tight x Hx) as [Hs He].
    split; [reflexivity|]. split; [assumption|]. split; [|split; assumption].
    apply (P_anon sid x [] Hx (Forall_nil _)).
Qed.

Lemma trim_padded_prints : forall t s p,
  sty_ok true t = true -> prints t s -> padded s p ->
  prints t (trim_space p) /\ trim_space p <> [].
Proof.
  intros t s p Hok Hp Hpad.
  destruct (prints_tight t s Hp true Hok) as (ws & s' & -> & Hws & Hp' & Hs & He).
  destruct Hpad as [ws1 ws2 H1 H2].
  assert (E : trim_space (ws1 ++ (ws ++ s') ++ ws2) = s').
  { apply trim_padded; try assumption.
    replace (ws1 ++ (ws ++ s') ++ ws2) with ((ws1 ++ ws) ++ s' ++ ws2)
      by (repeat rewrite <- app_assoc; reflexivity).
    constructor; [apply Forall_app; split; assumption|assumption]. }
  rewrite E. split; [exact Hp'|]. destruct s'; [destruct Hs|discriminate].
Qed.

(* ---- field ids ---- *)

Fixpoint print_nat_f (fuel : nat) (n : N) : str :=
  match fuel with
  | O => []
  | S f => (if n <? 10 then [] else print_nat_f f (n / 10)) ++ [48 + n mod 10]
  end.
(* the decimal numeral of n (for n < 100000) *)
Definition print_nat (n : N) : str := print_nat_f 5 n.

Fixpoint pow10 (k : nat) : N := match k with O => 1 | S k' => 10 * pow10 k' end.

Lemma parse_digits_app : forall s1 s2 acc,
  parse_digits (s1 ++ s2) acc
  = match parse_digits s1 acc with Some a => parse_digits s2 a | None => None end.
Proof.
  induction s1 as [|c s1 IH]; intros s2 acc; cbn [app parse_digits]; [reflexivity|].
  destruct (is_digit c); [|reflexivity].
  destruct (65535 <? acc * 10 + (c - 48)); [reflexivity|]. apply IH.
Qed.

Lemma parse_digit_one : forall d acc,
  d < 10 -> acc * 10 + d <= 65535 -> parse_digits [48 + d] acc = Some (acc * 10 + d).
Proof.
  intros d acc Hd Ha. cbn [parse_digits].
  assert (E1 : is_digit (48 + d) = true) by (unfold is_digit; lia).
  assert (E2 : 48 + d - 48 = d) by lia.
  rewrite E1, E2.
  assert (E3 : (65535 <? acc * 10 + d) = false) by lia.
  rewrite E3. reflexivity.
Qed.

Lemma parse_digits_print : forall f n,
  (0 < f)%nat -> n < pow10 f -> n <= 65535 -> parse_digits (print_nat_f f n) 0 = Some n.
Proof.
  induction f as [|f IH]; intros n Hf Hn Hm; [lia|].
  cbn [print_nat_f]. cbn [pow10] in Hn.
  destruct (n <? 10) eqn:E.
  - cbn [app]. assert (E1 : n mod 10 = n) by (apply N.mod_small; lia).
    rewrite E1. rewrite parse_digit_one by lia. f_equal.
  - assert (Hge : 10 <= n) by lia.
    assert (Hf' : (0 < f)%nat).
    { destruct f; [cbn [pow10] in Hn; lia|lia]. }
    pose proof (N.div_mod n 10) as Hdm.
    pose proof (N.mod_lt n 10) as Hml.
    rewrite parse_digits_app. rewrite IH; [|exact Hf'| |]; try lia.
    rewrite parse_digit_one by lia. f_equal. lia.
Qed.

Lemma print_nat_f_digits : forall f n, Forall (fun c => is_digit c = true) (print_nat_f f n).
Proof.
  induction f as [|f IH]; intros n; cbn [print_nat_f]; [constructor|].
  apply Forall_app. split.
  - destruct (n <? 10); [constructor|apply IH].
  - constructor; [|constructor]. pose proof (N.mod_lt n 10). unfold is_digit. lia.
Qed.

Lemma print_nat_nonempty : forall n, print_nat n <> [].
Proof. intros n. unfold print_nat. cbn [print_nat_f]. apply app_nonempty_r. discriminate. Qed.

Lemma parse_uint16_print : forall n, n < 65536 -> parse_uint16 (print_nat n) = Some n.
Proof.
  intros n Hn. unfold parse_uint16. pose proof (print_nat_nonempty n) as Hne.
  destruct (print_nat n) eqn:E; [congruence|]. rewrite <- E.
  unfold print_nat. apply parse_digits_print; [lia|cbn; lia|lia].
Qed.

(* ---- requiredness ---- *)

Definition req_name (r : req) : str :=
  match r with RDefault => s_default | RRequired => s_required | ROptional => s_optional end.

Definition req_of_name (rq : str) : option req :=
  if str_eqb rq s_default then Some RDefault
  else if str_eqb rq s_required then Some RRequired
  else if str_eqb rq s_optional then Some ROptional else None.

Lemma req_of_name_name : forall r, req_of_name (req_name r) = Some r.
Proof. intros r. destruct r; reflexivity. Qed.

(* ---- characters of the parts: no comma, no quote ---- *)

Definition plain (c : N) : Prop := c <> 44 /\ c <> 34.

Lemma spaces_plain : forall ws, spaces ws -> Forall plain ws.
Proof.
  intros ws H. eapply Forall_impl; [|exact H]. intros c Hc. unfold is_space in Hc.
  unfold plain. lia.
Qed.

Lemma ident_plain : forall x, is_identifier x = true -> Forall plain x.
Proof.
  intros [|c w] H; [discriminate H|]. cbn [is_identifier] in H.
  apply andb_true_iff in H. destruct H as [Hc Hw]. constructor.
  - unfold is_ident0 in Hc. unfold plain. lia.
  - rewrite forallb_forall in Hw. apply Forall_forall. intros d Hd.
    apply Hw in Hd. unfold is_ident, is_ident0, is_digit in Hd. unfold plain. lia.
Qed.

Lemma digits_plain : forall x, Forall (fun c => is_digit c = true) x -> Forall plain x.
Proof.
  intros x H. eapply Forall_impl; [|exact H]. intros c Hc. unfold is_digit in Hc.
  unfold plain. lia.
Qed.

Lemma digits_nonspace : forall x,
  Forall (fun c => is_digit c = true) x -> Forall (fun c => is_space c = false) x.
Proof.
  intros x H. eapply Forall_impl; [|exact H]. intros c Hc. unfold is_digit in Hc.
  unfold is_space. lia.
Qed.

Lemma plain_one : forall c, c <> 44 -> c <> 34 -> Forall plain [c].
Proof. intros c H1 H2. constructor; [split; assumption|constructor]. Qed.

Lemma prints_plain : forall t s,
  prints t s -> forall allow, sty_ok allow t = true -> Forall plain s.
Proof.
  induction 1 as
    [ t tag k ws Hkw Hin Hws
    | t n ws Hnm Hnok Hws
    | t n pkg ws1 ws2 ws3 Hnm Hpkg Hpk Hw1 Hw2 Hw3
    | e s ws1 ws2 ws3 Hp IH Hw1 Hw2 Hw3
    | e s ws1 ws2 ws3 Hp IH Hw1 Hw2 Hw3
    | k v sk sv ws1 ws2 ws3 ws4 Hpk IHk Hpv IHv Hw1 Hw2 Hw3 Hw4
    | t s Hp IH
    | sid x ws Hx Hws ]; intros allow Hok.
  - apply Forall_app. split; [apply spaces_plain; assumption|].
    apply ident_plain. eapply keywords_ident. exact Hin.
  - destruct (type_name_leaf _ _ _ Hnm Hok) as (_ & _ & Hi & _).
    apply Forall_app. split; [apply spaces_plain; assumption|apply ident_plain; exact Hi].
  - destruct (type_name_leaf _ _ _ Hnm Hok) as (_ & _ & Hi & _).
    repeat (apply Forall_app; split);
      try (apply spaces_plain; assumption); try (apply ident_plain; assumption).
    apply plain_one; discriminate.
  - cbn [sty_ok] in Hok. apply andb_true_iff in Hok. destruct Hok as [Hoe _].
    repeat (apply Forall_app; split);
      try (apply spaces_plain; assumption); try (apply plain_one; discriminate).
    + apply ident_plain. reflexivity.
    + eapply IH. exact Hoe.
  - cbn [sty_ok] in Hok. apply andb_true_iff in Hok. destruct Hok as [Hoe _].
    repeat (apply Forall_app; split);
      try (apply spaces_plain; assumption); try (apply plain_one; discriminate).
    + apply ident_plain. reflexivity.
    + eapply IH. exact Hoe.
  - cbn [sty_ok] in Hok. repeat rewrite andb_true_iff in Hok.
    destruct Hok as [[[Hok1 _] Hov] _].
    repeat (apply Forall_app; split);
      try (apply spaces_plain; assumption); try (apply plain_one; discriminate).
    + apply ident_plain. reflexivity.
    + eapply IHk. exact Hok1.
    + eapply IHv. exact Hov.
  - cbn [sty_ok] in Hok. repeat rewrite andb_true_iff in Hok. destruct Hok as [_ Hot].
    eapply IH. exact Hot.
  - apply Forall_app. split; [apply spaces_plain; assumption|apply ident_plain; exact Hx].
Qed.

Lemma padded_plain : forall x p, padded x p -> Forall plain x -> Forall plain p.
Proof.
  intros x p [ws1 ws2 H1 H2] Hx.
  repeat (apply Forall_app; split); try (apply spaces_plain; assumption). exact Hx.
Qed.

Lemma plain_no_comma : forall x, Forall plain x -> no_comma x.
Proof. intros x H. eapply Forall_impl; [|exact H]. intros c [Hc _]. exact Hc. Qed.
Lemma plain_no_quote : forall x, Forall plain x -> no_quote x.
Proof. intros x H. eapply Forall_impl; [|exact H]. intros c [_ Hc]. exact Hc. Qed.

(* ---- resolve_one ---- *)

Definition field_ptr_okd (pt : dtype) (rx : req) : bool :=
  match pt with
  | DT DPointer _ (Some (DT DStruct _ _ _)) _ => true
  | DT DPointer _ _ _ => req_eqb rx ROptional
  | _ => true
  end.

Lemma resolve_one_parts : forall gf idx seen ids rqs an (nc : bool) n rq pt,
  gf_anonymous gf = false -> gf_exported gf = true ->
  lookup_struct_tag (gf_tag gf) = Some (ids :: rqs :: an :: (if nc then [s_nocopy] else [])) ->
  parse_uint16 ids = Some n -> memN n seen = false ->
  req_of_name rqs = Some rq ->
  parse_type_top (gf_type gf) an = ROk pt ->
  field_ptr_okd pt rq = true ->
  (nc = true -> d_wire pt = DString) ->
  resolve_one gf idx seen = ROk (Some (mkDField n pt rq nc idx)).
Proof.
  intros gf idx seen ids rqs an nc n rq pt Ha He Hl Hid Hmem Hrq Hpt Hptr Hnc.
  unfold resolve_one. rewrite Ha, He. cbn [orb negb]. cbv iota.
  rewrite Hl, Hid, Hmem. cbv iota beta zeta.
  unfold req_of_name in Hrq. rewrite Hrq. cbv iota beta.
  rewrite Hpt. unfold field_ptr_okd in Hptr. rewrite Hptr. cbn [negb]. cbv iota.
  destruct nc.
  - rewrite (Hnc eq_refl). reflexivity.
  - reflexivity.
Qed.

(* pointers at the field level: to a struct, or optional *)
Definition field_ptr_ok (t : sty) (rq : req) : bool :=
  match t with
  | SPtr (SStruct _ _) => true
  | SPtr _ => req_eqb rq ROptional
  | _ => true
  end.
(* nocopy: on string and binary (also behind a pointer) *)
Definition is_stringlike (t : sty) : bool :=
  match t with
  | SString | SBinary | SPtr SString | SPtr SBinary => true
  | _ => false
  end.

Lemma field_ptr_ok_dt : forall t rq, field_ptr_okd (dt_of t) rq = field_ptr_ok t rq.
Proof. intros t rq. destruct t; try reflexivity. destruct t; reflexivity. Qed.

Lemma stringlike_wire : forall t, is_stringlike t = true -> d_wire (dt_of t) = DString.
Proof.
  intros t H. destruct t; try discriminate H; try reflexivity.
  destruct t; try discriminate H; reflexivity.
Qed.

(* the comma-separated parts of the tag value
     <id> , <req> , <annotation> [, nocopy]
   each with optional white space around it *)
Inductive field_parts (n : N) (rq : req) (s : str) (nc : bool) : str -> list str -> Prop :=
| field_parts_intro : forall pid prq pan popt,
    padded (print_nat n) pid -> padded (req_name rq) prq -> padded s pan ->
    padded s_nocopy popt ->
    field_parts n rq s nc pid (prq :: pan :: (if nc then [popt] else [])).

Lemma req_name_tight : forall rq, starts_ns (req_name rq) /\ ends_ns (req_name rq).
Proof. intros rq. destruct rq; split; reflexivity. Qed.

Lemma req_name_plain : forall rq, Forall plain (req_name rq).
Proof. intros rq. apply ident_plain. destruct rq; reflexivity. Qed.

Lemma print_nat_tight : forall n, starts_ns (print_nat n) /\ ends_ns (print_nat n).
Proof.
  intros n. apply nonspace_tight; [apply print_nat_nonempty|].
  apply digits_nonspace. apply print_nat_f_digits.
Qed.

Lemma print_nat_plain : forall n, Forall plain (print_nat n).
Proof. intros n. apply digits_plain. apply print_nat_f_digits. Qed.

Lemma field_parts_plain : forall t s n rq nc p ps,
  sty_ok true t = true -> prints t s -> field_parts n rq s nc p ps ->
  Forall plain p /\ Forall (Forall plain) ps.
Proof.
  intros t s n rq nc p ps Hok Hp [pid prq pan popt H1 H2 H3 H4].
  split.
  - eapply padded_plain; [exact H1|apply print_nat_plain].
  - constructor; [eapply padded_plain; [exact H2|apply req_name_plain]|].
    constructor; [eapply padded_plain; [exact H3|eapply prints_plain; eassumption]|].
    destruct nc; [|constructor].
    constructor; [|constructor]. eapply padded_plain; [exact H4|]. apply ident_plain. reflexivity.
Qed.

(* from the trimmed parts to the field *)
Lemma resolve_from_parts : forall t s n rq nc p ps gf idx seen,
  sty_ok true t = true -> prints t s -> n < 65536 ->
  field_parts n rq s nc p ps ->
  field_ptr_ok t rq = true -> (nc = true -> is_stringlike t = true) ->
  gf_anonymous gf = false -> gf_exported gf = true -> gf_type gf = go_of t ->
  memN n seen = false ->
  lookup_struct_tag (gf_tag gf) = Some (map trim_space (p :: ps)) ->
  resolve_one gf idx seen = ROk (Some (mkDField n (dt_of t) rq nc idx)).
Proof.
  intros t s n rq nc p ps gf idx seen Hok Hp Hn Hparts Hptr Hnc Ha He Hty Hmem Hl.
  destruct Hparts as [pid prq pan popt H1 H2 H3 H4].
  destruct (trim_padded_prints t s pan Hok Hp H3) as [Hp' Hne'].
  apply (resolve_one_parts gf idx seen (print_nat n) (req_name rq) (trim_space pan) nc n rq (dt_of t));
    try assumption.
  - rewrite Hl. cbn [map].
    rewrite (trim_padded _ _ H1) by apply print_nat_tight.
    rewrite (trim_padded _ _ H2) by apply req_name_tight.
    destruct nc; cbn [map]; [|reflexivity].
    rewrite (trim_padded _ _ H4) by reflexivity. reflexivity.
  - apply parse_uint16_print. exact Hn.
  - apply req_of_name_name.
  - rewrite Hty. apply parse_print_top0; assumption.
  - rewrite field_ptr_ok_dt. exact Hptr.
  - intros E. apply stringlike_wire. apply Hnc. exact E.
Qed.

(* frugal:"<id>,<req>,<annotation>[,nocopy]", possibly followed by anything
   (e.g. a thrift:"..." entry: frugal wins) *)
Theorem resolve_frugal : forall t s n rq nc p ps gf idx seen sp r,
  sty_ok true t = true -> prints t s -> n < 65536 ->
  field_parts n rq s nc p ps ->
  field_ptr_ok t rq = true -> (nc = true -> is_stringlike t = true) ->
  gf_anonymous gf = false -> gf_exported gf = true -> gf_type gf = go_of t ->
  memN n seen = false ->
  blanks sp ->
  gf_tag gf = sp ++ tag_entry s_frugal (join_comma p ps) ++ r ->
  resolve_one gf idx seen = ROk (Some (mkDField n (dt_of t) rq nc idx)).
Proof.
  intros t s n rq nc p ps gf idx seen sp r Hok Hp Hn Hparts Hptr Hnc Ha He Hty Hmem Hsp Htag.
  destruct (field_parts_plain _ _ _ _ _ _ _ Hok Hp Hparts) as [Hpp Hpps].
  eapply resolve_from_parts; try eassumption.
  rewrite Htag. rewrite lookup_frugal_first; [|exact Hsp|].
  - rewrite split_join; [reflexivity|apply plain_no_comma; exact Hpp|].
    eapply Forall_impl; [|exact Hpps]. apply plain_no_comma.
  - apply no_quote_join; [apply plain_no_quote; exact Hpp|].
    eapply Forall_impl; [|exact Hpps]. apply plain_no_quote.
Qed.

(* thrift:"<name>,<id>,<req>,<annotation>[,nocopy]": the same field *)
Theorem resolve_thrift : forall t s n rq nc p ps gf idx seen sp sp' name,
  sty_ok true t = true -> prints t s -> n < 65536 ->
  field_parts n rq s nc p ps ->
  field_ptr_ok t rq = true -> (nc = true -> is_stringlike t = true) ->
  gf_anonymous gf = false -> gf_exported gf = true -> gf_type gf = go_of t ->
  memN n seen = false ->
  blanks sp -> blanks sp' -> Forall plain name ->
  gf_tag gf = sp ++ tag_entry s_thrift (join_comma name (p :: ps)) ++ sp' ->
  resolve_one gf idx seen = ROk (Some (mkDField n (dt_of t) rq nc idx)).
Proof.
  intros t s n rq nc p ps gf idx seen sp sp' name Hok Hp Hn Hparts Hptr Hnc Ha He Hty Hmem
    Hsp Hsp' Hname Htag.
  destruct (field_parts_plain _ _ _ _ _ _ _ Hok Hp Hparts) as [Hpp Hpps].
  eapply resolve_from_parts; try eassumption.
  rewrite Htag. rewrite lookup_thrift_only; [|exact Hsp| |exact Hsp'].
  - rewrite split_join; [reflexivity|apply plain_no_comma; exact Hname|].
    constructor; [apply plain_no_comma; exact Hpp|].
    eapply Forall_impl; [|exact Hpps]. apply plain_no_comma.
  - apply no_quote_join; [apply plain_no_quote; exact Hname|].
    constructor; [apply plain_no_quote; exact Hpp|].
    eapply Forall_impl; [|exact Hpps]. apply plain_no_quote.
Qed.

(* thrift:"whatever" frugal:"<id>,<req>,<annotation>[,nocopy]": frugal wins *)
Theorem resolve_thrift_frugal : forall t s n rq nc p ps gf idx seen sp sp' v1 r,
  sty_ok true t = true -> prints t s -> n < 65536 ->
  field_parts n rq s nc p ps ->
  field_ptr_ok t rq = true -> (nc = true -> is_stringlike t = true) ->
  gf_anonymous gf = false -> gf_exported gf = true -> gf_type gf = go_of t ->
  memN n seen = false ->
  blanks sp -> blanks sp' -> no_quote v1 ->
  gf_tag gf = sp ++ tag_entry s_thrift v1 ++ sp' ++ tag_entry s_frugal (join_comma p ps) ++ r ->
  resolve_one gf idx seen = ROk (Some (mkDField n (dt_of t) rq nc idx)).
Proof.
  intros t s n rq nc p ps gf idx seen sp sp' v1 r Hok Hp Hn Hparts Hptr Hnc Ha He Hty Hmem
    Hsp Hsp' Hv1 Htag.
  destruct (field_parts_plain _ _ _ _ _ _ _ Hok Hp Hparts) as [Hpp Hpps].
  eapply resolve_from_parts; try eassumption.
  rewrite Htag. rewrite lookup_thrift_frugal; [|exact Hsp|exact Hv1|exact Hsp'|].
  - rewrite split_join; [reflexivity|apply plain_no_comma; exact Hpp|].
    eapply Forall_impl; [|exact Hpps]. apply plain_no_comma.
  - apply no_quote_join; [apply plain_no_quote; exact Hpp|].
    eapply Forall_impl; [|exact Hpps]. apply plain_no_quote.
Qed.

(* ---- the concrete tag construction ---- *)

Definition field_opts (nc : bool) : list str := if nc then [s_nocopy] else [].

(* <id>,<req>,<annotation>[,nocopy] *)
Definition field_value (n : N) (rq : req) (s : str) (nc : bool) : str :=
  join_comma (print_nat n) (req_name rq :: s :: field_opts nc).

(* frugal:"<id>,<req>,<annotation>[,nocopy]" *)
Definition mk_frugal_tag (n : N) (rq : req) (s : str) (nc : bool) : str :=
  tag_entry s_frugal (field_value n rq s nc).

(* thrift:"<name>,<id>,<req>,<annotation>[,nocopy]" *)
Definition mk_thrift_tag (name : str) (n : N) (rq : req) (s : str) (nc : bool) : str :=
  tag_entry s_thrift (join_comma name (print_nat n :: req_name rq :: s :: field_opts nc)).

Lemma field_parts_canonical : forall n rq s nc,
  field_parts n rq s nc (print_nat n) (req_name rq :: s :: field_opts nc).
Proof.
  intros n rq s nc.
  pose proof (field_parts_intro n rq s nc _ _ _ _
                (padded_self (print_nat n)) (padded_self (req_name rq)) (padded_self s)
                (padded_self s_nocopy)) as H.
  unfold field_opts. exact H.
Qed.

Section FieldLevel.
  Variables (t : sty) (s : str) (n : N) (rq : req) (nc : bool).
  Variables (gf : gofield) (idx : nat) (seen : list N).
  Hypothesis Hok : sty_ok true t = true.
  Hypothesis Hp : prints t s.
  Hypothesis Hn : n < 65536.
  Hypothesis Hptr : field_ptr_ok t rq = true.
  Hypothesis Hnc : nc = true -> is_stringlike t = true.
  Hypothesis Ha : gf_anonymous gf = false.
  Hypothesis He : gf_exported gf = true.
  Hypothesis Hty : gf_type gf = go_of t.
  Hypothesis Hmem : memN n seen = false.

  Let result := ROk (Some (mkDField n (dt_of t) rq nc idx)).

  Theorem resolve_mk_frugal :
    gf_tag gf = mk_frugal_tag n rq s nc -> resolve_one gf idx seen = result.
  Proof.
    intros Htag.
    apply (resolve_frugal t s n rq nc _ _ gf idx seen [] [] Hok Hp Hn
             (field_parts_canonical n rq s nc) Hptr Hnc Ha He Hty Hmem (Forall_nil _)).
    rewrite Htag. cbn [app]. rewrite app_nil_r. reflexivity.
  Qed.

  Theorem resolve_mk_thrift : forall name,
    Forall plain name ->
    gf_tag gf = mk_thrift_tag name n rq s nc -> resolve_one gf idx seen = result.
  Proof.
    intros name Hname Htag.
    apply (resolve_thrift t s n rq nc _ _ gf idx seen [] [] name Hok Hp Hn
             (field_parts_canonical n rq s nc) Hptr Hnc Ha He Hty Hmem
             (Forall_nil _) (Forall_nil _) Hname).
    rewrite Htag. cbn [app]. rewrite app_nil_r. reflexivity.
  Qed.

  (* both carriers present, in either order, the thrift one saying anything *)
  Theorem resolve_mk_frugal_thrift : forall other,
    gf_tag gf = mk_frugal_tag n rq s nc ++ [32] ++ tag_entry s_thrift other ->
    resolve_one gf idx seen = result.
  Proof.
    intros other Htag.
    apply (resolve_frugal t s n rq nc _ _ gf idx seen [] ([32] ++ tag_entry s_thrift other)
             Hok Hp Hn (field_parts_canonical n rq s nc) Hptr Hnc Ha He Hty Hmem (Forall_nil _)).
    rewrite Htag. reflexivity.
  Qed.

  Theorem resolve_mk_thrift_frugal : forall other,
    no_quote other ->
    gf_tag gf = tag_entry s_thrift other ++ [32] ++ mk_frugal_tag n rq s nc ->
    resolve_one gf idx seen = result.
  Proof.
    intros other Hother Htag.
    apply (resolve_thrift_frugal t s n rq nc _ _ gf idx seen [] [32] other []
             Hok Hp Hn (field_parts_canonical n rq s nc) Hptr Hnc Ha He Hty Hmem
             (Forall_nil _)).
    - constructor; [reflexivity|constructor].
    - exact Hother.
    - rewrite Htag. cbn [app]. rewrite app_nil_r. reflexivity.
  Qed.
End FieldLevel.

(* the carrier and the spelling of the annotation do not matter *)
Corollary carriers_agree : forall t s1 s2 n rq nc gf1 gf2 idx seen name,
  sty_ok true t = true -> prints t s1 -> prints t s2 -> n < 65536 ->
  field_ptr_ok t rq = true -> (nc = true -> is_stringlike t = true) ->
  gf_anonymous gf1 = false -> gf_exported gf1 = true -> gf_type gf1 = go_of t ->
  gf_anonymous gf2 = false -> gf_exported gf2 = true -> gf_type gf2 = go_of t ->
  memN n seen = false -> Forall plain name ->
  gf_tag gf1 = mk_frugal_tag n rq s1 nc ->
  gf_tag gf2 = mk_thrift_tag name n rq s2 nc ->
  resolve_one gf1 idx seen = resolve_one gf2 idx seen.
Proof.
  intros t s1 s2 n rq nc gf1 gf2 idx seen name Hok H1 H2 Hn Hptr Hnc A1 E1 T1 A2 E2 T2 Hmem Hname G1 G2.
  rewrite (resolve_mk_frugal t s1 n rq nc gf1 idx seen Hok H1 Hn Hptr Hnc A1 E1 T1 Hmem G1).
  rewrite (resolve_mk_thrift t s2 n rq nc gf2 idx seen Hok H2 Hn Hptr Hnc A2 E2 T2 Hmem name Hname G2).
  reflexivity.
Qed.

(* ------------------------------------------------------------------ *)
(* examples: the hypotheses are satisfiable, the side conditions needed *)
(* ------------------------------------------------------------------ *)

Definition sp1 : str := [32].
Lemma sp1_spaces : spaces sp1.
Proof. constructor; [reflexivity|constructor]. Qed.
Lemma nil_spaces : spaces [].
Proof. constructor. Qed.

Definition n_Leaf : str := [76; 101; 97; 102].       (* Leaf *)
Definition n_base : str := [98; 97; 115; 101].       (* base *)
Definition n_Color : str := [67; 111; 108; 111; 114]. (* Color *)

(* map<Color:list<*Leaf>> as   " map <Color : list< base . Leaf>>"   *)
Definition ex_t : sty := SMap (SEnum n_Color) (SList (SPtr (SStruct 3 n_Leaf))).
Definition ex_s : str :=
  sp1 ++ s_map ++ sp1 ++ [60]
      ++ ([] ++ n_Color)
      ++ sp1 ++ [58]
      ++ (sp1 ++ s_list ++ [] ++ [60]
              ++ (sp1 ++ n_base ++ sp1 ++ [46] ++ sp1 ++ n_Leaf)
              ++ [] ++ [62])
      ++ [] ++ [62].

Lemma ex_prints : prints ex_t ex_s.
Proof.
  unfold ex_t, ex_s.
  apply P_map; try apply sp1_spaces; try apply nil_spaces.
  - apply P_name; [reflexivity|reflexivity|apply nil_spaces].
  - apply P_list; try apply sp1_spaces; try apply nil_spaces.
    apply P_ptr.
    apply P_qual; try apply sp1_spaces; reflexivity.
Qed.

Lemma ex_ok : sty_ok true ex_t = true.
Proof. reflexivity. Qed.

Example ex_by_theorem : parse_type_top (go_of ex_t) ex_s = ROk (dt_of ex_t).
Proof. apply parse_print_top0; [exact ex_ok|exact ex_prints]. Qed.

Example ex_by_computation : parse_type_top (go_of ex_t) ex_s = ROk (dt_of ex_t).
Proof. vm_compute. reflexivity. Qed.

Example ex_field :
  resolve_one (mkGoField [70] (go_of ex_t) (mk_frugal_tag 513 RRequired ex_s false) true false) 7 [1; 2]
  = ROk (Some (mkDField 513 (dt_of ex_t) RRequired false 7)).
Proof. vm_compute. reflexivity. Qed.

Example ex_field_thrift :
  resolve_one (mkGoField [70] (go_of ex_t) (mk_thrift_tag [102] 513 RRequired ex_s false) true false) 7 [1; 2]
  = ROk (Some (mkDField 513 (dt_of ex_t) RRequired false 7)).
Proof. vm_compute. reflexivity. Qed.

(* an enum named "i64", spelled without qualification, is a plain i64 ... *)
Example enum_named_i64 :
  parse_type_top (go_of (SEnum [105; 54; 52])) [105; 54; 52] = ROk (dt_of SI64).
Proof. vm_compute. reflexivity. Qed.
(* ... but fine when qualified *)
Example enum_named_i64_qualified :
  parse_type_top (go_of (SEnum [105; 54; 52])) (n_base ++ [46] ++ [105; 54; 52])
  = ROk (dt_of (SEnum [105; 54; 52])).
Proof. vm_compute. reflexivity. Qed.
(* a struct named "struct" is a struct *)
Example struct_named_struct :
  parse_type_top (go_of (SStruct 2 [115; 116; 114; 117; 99; 116])) [115; 116; 114; 117; 99; 116]
  = ROk (dt_of (SStruct 2 [115; 116; 114; 117; 99; 116])).
Proof. vm_compute. reflexivity. Qed.
(* the package must not be the keyword of the kind *)
Example pkg_named_struct :
  parse_type_top (go_of (SStruct 2 n_Leaf)) ([115; 116; 114; 117; 99; 116] ++ [46] ++ n_Leaf) = RErr.
Proof. vm_compute. reflexivity. Qed.
(* [rest_ok] is needed after an unqualified name: "Leaf," and "Leaf<" are rejected,
   while a keyword only needs [no_ident_start] *)
Example name_then_comma :
  parse_type (go_of (SStruct 2 n_Leaf)) true (n_Leaf ++ [44]) true = RErr.
Proof. vm_compute. reflexivity. Qed.
Example kw_then_comma :
  parse_type (go_of SI32) true ([105; 51; 50] ++ [44]) true = ROk (dt_of SI32, [44]).
Proof. vm_compute. reflexivity. Qed.
(* the Go names of the scalar kinds are spellings too *)
Example int32_spelling :
  parse_type_top (go_of SI32) [105; 110; 116; 51; 50] = ROk (dt_of SI32).
Proof. vm_compute. reflexivity. Qed.

(* an anonymous struct type is matched by any identifier *)
Example anon_struct :
  parse_type_top (go_of (SStruct 5 [])) n_Leaf = ROk (dt_of (SStruct 5 []))
  /\ prints (SStruct 5 []) ([] ++ n_Leaf) /\ sty_ok true (SStruct 5 []) = true.
Proof.
  split; [vm_compute; reflexivity|]. split; [|reflexivity].
  apply P_anon; [reflexivity|apply nil_spaces].
Qed.

Print Assumptions parse_print.
Print Assumptions parse_print_top.
Print Assumptions parse_noannot_top.
Print Assumptions resolve_frugal.
Print Assumptions resolve_thrift.
Print Assumptions resolve_thrift_frugal.
Print Assumptions resolve_mk_thrift_frugal.
