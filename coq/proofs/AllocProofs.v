(* AllocProofs.v -- the bump allocator of Alloc.v hands out aligned, in-bounds,
   pairwise disjoint regions; scan-class soundness; large/typed requests get
   their own block.  defaultDecoderMemSize is never unfolded. *)
From Coq Require Import List NArith ZArith Bool Lia ZifyN ZifyNat ZifyBool.
From Frugal.gen Require Import Params.
From Frugal Require Import Alloc.
Import ListNotations.
Open Scope N_scope.
Ltac Zify.zify_post_hook ::= Z.div_mod_to_equations.

Definition span_inv (s : span) : Prop := sp_p s <= sp_n s.

Lemma span_init_inv : span_inv span_init.
Proof. unfold span_inv, span_init. cbn [sp_p sp_n]. apply N.le_0_l. Qed.

Lemma align_ok_cases : forall a, align_ok a = true -> a = 1 \/ a = 2 \/ a = 4 \/ a = 8.
Proof. intros a H. unfold align_ok in H. lia. Qed.

(* region g was handed out "after" state s: in a later block, or in the
   current block at or beyond the bump pointer *)
Definition after (s : span) (g : region) : Prop :=
  sp_blk s < rg_blk g \/ (rg_blk g = sp_blk s /\ sp_p s <= rg_off g).

Theorem span_region_ok : forall s n a,
  span_inv s -> align_ok a = true ->
  let '(s', g) := span_malloc s n a in
  span_inv s' /\
  rg_off g mod a = 0 /\
  rg_off g + rg_len g <= sp_n s' /\
  rg_len g = n /\
  rg_blk g = sp_blk s' /\
  (sp_blk s' = sp_blk s /\ sp_p s <= rg_off g \/ sp_blk s' = sp_blk s + 1) /\
  rg_off g + rg_len g <= sp_p s'.
Proof.
  intros s n a Hinv Ha. unfold span_inv in *. unfold span_malloc. cbv zeta.
  destruct s as [blk p sz]. cbn [sp_blk sp_p sp_n] in *.
  destruct (sz <? p + n + (a - 1)) eqn:E;
    cbn [sp_blk sp_p sp_n rg_blk rg_off rg_len];
    destruct (align_ok_cases a Ha) as [A|[A|[A|A]]]; subst a;
    repeat split; try lia.
Qed.

Lemma span_malloc_inv : forall s n a,
  span_inv s -> align_ok a = true -> span_inv (fst (span_malloc s n a)).
Proof.
  intros s n a Hinv Ha. pose proof (span_region_ok s n a Hinv Ha) as H.
  destruct (span_malloc s n a) as [s' g]. cbn [fst]. tauto.
Qed.

(* the bump pointer / block ordinal only move forward *)
Lemma after_mono : forall s n a g',
  span_inv s -> align_ok a = true ->
  after (fst (span_malloc s n a)) g' -> after s g'.
Proof.
  intros s n a g' Hinv Ha. pose proof (span_region_ok s n a Hinv Ha) as H.
  destruct (span_malloc s n a) as [s' g]. cbn [fst]. unfold after.
  destruct H as (_ & _ & _ & _ & _ & H6 & H7). lia.
Qed.

(* ---------- runs ---------- *)

Definition req_ok (r : N * N) : Prop := align_ok (snd r) = true.

(* region g answers request r = (n, align) *)
Definition serves (r : N * N) (g : region) : Prop :=
  rg_len g = fst r /\ rg_off g mod snd r = 0.

Lemma disjoint_after : forall s n a g',
  span_inv s -> align_ok a = true ->
  after (fst (span_malloc s n a)) g' ->
  disjoint (snd (span_malloc s n a)) g' = true.
Proof.
  intros s n a g' Hinv Ha. pose proof (span_region_ok s n a Hinv Ha) as H.
  destruct (span_malloc s n a) as [s' g]. cbn [fst snd]. unfold after, disjoint.
  destruct H as (_ & _ & _ & _ & H5 & _ & H7). lia.
Qed.

Lemma span_run_inv : forall reqs s,
  span_inv s -> Forall req_ok reqs ->
  pairwise_disjoint (span_run s reqs) = true /\
  Forall (after s) (span_run s reqs) /\
  Forall2 serves reqs (span_run s reqs).
Proof.
  induction reqs as [|[n a] r IH]; intros s Hinv Hreqs; cbn [span_run].
  - repeat split; constructor.
  - inversion Hreqs as [|x y Ha Hr]; subst. unfold req_ok in Ha. cbn [snd] in Ha.
    pose proof (span_region_ok s n a Hinv Ha) as Hok.
    pose proof (fun g' => disjoint_after s n a g' Hinv Ha) as Hdis.
    pose proof (fun g' => after_mono s n a g' Hinv Ha) as Hmono.
    destruct (span_malloc s n a) as [s' g]. cbn [fst snd] in *.
    destruct Hok as (Hinv' & Hal & _ & Hlen & Hblk & Hpos & _).
    destruct (IH s' Hinv' Hr) as (IHd & IHa & IHs).
    cbn [pairwise_disjoint]. repeat split.
    + apply andb_true_intro. split; [|exact IHd].
      apply forallb_forall. intros g' Hg'. apply Hdis.
      rewrite Forall_forall in IHa. apply IHa. exact Hg'.
    + constructor.
      * unfold after. lia.
      * eapply Forall_impl; [|exact IHa]. exact Hmono.
    + constructor; [|exact IHs]. unfold serves. cbn [fst snd]. auto.
Qed.

Theorem span_run_disjoint : forall reqs s,
  span_inv s -> Forall (fun r => align_ok (snd r) = true) reqs ->
  pairwise_disjoint (span_run s reqs) = true.
Proof. intros reqs s Hinv Hr. apply (span_run_inv reqs s Hinv Hr). Qed.

Theorem span_run_after : forall reqs s,
  span_inv s -> Forall (fun r => align_ok (snd r) = true) reqs ->
  Forall (fun g => sp_blk s < rg_blk g \/ (rg_blk g = sp_blk s /\ sp_p s <= rg_off g))
         (span_run s reqs).
Proof. intros reqs s Hinv Hr. apply (span_run_inv reqs s Hinv Hr). Qed.

Theorem span_run_aligned : forall reqs s,
  span_inv s -> Forall (fun r => align_ok (snd r) = true) reqs ->
  Forall2 (fun r g => rg_len g = fst r /\ rg_off g mod snd r = 0) reqs (span_run s reqs).
Proof. intros reqs s Hinv Hr. apply (span_run_inv reqs s Hinv Hr). Qed.

(* ---------- history: a later run never overlaps an earlier one ---------- *)

Definition span_final (s : span) (reqs : list (N * N)) : span :=
  fold_left (fun s r => fst (span_malloc s (fst r) (snd r))) reqs s.

Lemma span_final_inv : forall reqs s,
  span_inv s -> Forall (fun r => align_ok (snd r) = true) reqs -> span_inv (span_final s reqs).
Proof.
  unfold span_final.
  induction reqs as [|[n a] r IH]; intros s Hinv Hreqs; cbn [fold_left fst snd]; [exact Hinv|].
  inversion Hreqs as [|x y Ha Hr]; subst. cbn [snd] in Ha.
  apply IH; [|exact Hr]. apply span_malloc_inv; assumption.
Qed.

Theorem span_run_app : forall r1 r2 s,
  span_run s (r1 ++ r2) = span_run s r1 ++ span_run (span_final s r1) r2.
Proof.
  unfold span_final.
  induction r1 as [|[n a] r IH]; intros r2 s; cbn [span_run app fold_left fst snd]; [reflexivity|].
  destruct (span_malloc s n a) as [s' g]. cbn [fst app]. rewrite IH. reflexivity.
Qed.

Lemma pairwise_disjoint_app : forall l1 l2,
  pairwise_disjoint (l1 ++ l2) = true ->
  forall g1 g2, In g1 l1 -> In g2 l2 -> disjoint g1 g2 = true.
Proof.
  induction l1 as [|g l1 IH]; intros l2 H g1 g2 H1 H2; [destruct H1|].
  cbn [app pairwise_disjoint] in H. apply andb_prop in H. destruct H as [Hg Hrest].
  destruct H1 as [E|H1].
  - subst g1. rewrite forallb_forall in Hg. apply Hg. apply in_or_app. right. exact H2.
  - eapply IH; eassumption.
Qed.

Theorem span_history_disjoint : forall r1 r2 s,
  span_inv s ->
  Forall (fun r => align_ok (snd r) = true) r1 ->
  Forall (fun r => align_ok (snd r) = true) r2 ->
  pairwise_disjoint (span_run s r1 ++ span_run (span_final s r1) r2) = true /\
  forall g1 g2, In g1 (span_run s r1) -> In g2 (span_run (span_final s r1) r2) ->
                disjoint g1 g2 = true.
Proof.
  intros r1 r2 s Hinv H1 H2.
  assert (D : pairwise_disjoint (span_run s r1 ++ span_run (span_final s r1) r2) = true).
  { rewrite <- span_run_app. apply span_run_disjoint; [exact Hinv|].
    apply Forall_app. split; assumption. }
  split; [exact D|]. apply pairwise_disjoint_app. exact D.
Qed.

(* ---------- scan class / placement ---------- *)

Theorem scan_class_sound : forall k, kind_has_pointers k = true -> kind_typed k = true.
Proof. intros k. destruct k; cbn; intros H; auto; discriminate. Qed.

Lemma big_or_typed_own_block : forall n typed,
  (defaultDecoderMemSize / 8 < n \/ typed = true) -> malloc_where n typed = OwnBlock.
Proof.
  intros n typed H. unfold malloc_where.
  destruct H as [H|H].
  - apply N.ltb_lt in H. rewrite H. reflexivity.
  - rewrite H, orb_true_r. reflexivity.
Qed.

(* converse, for completeness: small untyped requests are served from the span *)
Lemma small_untyped_in_span : forall n,
  n <= defaultDecoderMemSize / 8 -> malloc_where n false = InSpan.
Proof.
  intros n H. unfold malloc_where. apply N.ltb_ge in H. rewrite H. reflexivity.
Qed.

Print Assumptions span_init_inv.
Print Assumptions span_malloc_inv.
Print Assumptions span_region_ok.
Print Assumptions span_run_disjoint.
Print Assumptions span_run_after.
Print Assumptions span_run_aligned.
Print Assumptions span_run_app.
Print Assumptions span_history_disjoint.
Print Assumptions scan_class_sound.
Print Assumptions big_or_typed_own_block.
