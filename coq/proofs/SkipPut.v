(* SkipPut.v -- the model of gopkg's thrift.Binary.Skip (Skip.v) computes the
   encoded length of every well-formed wire value written by the reference
   writer [put], whatever follows it in the buffer. *)
From Coq Require Import List NArith Bool Lia ZifyN ZifyNat ZifyBool Arith.
From Frugal Require Import Bytes Wire Skip Desc Checks.
From Frugal.gen Require Import Params.
From Frugal.proofs Require Import BytesWire ParamsSplit.
Import ListNotations.
Open Scope N_scope.

(* ------------------------------------------------------------------ *)
(* offsets into a buffer                                               *)

Lemma drop_app : forall pre x, drop (len pre) (pre ++ x) = x.
Proof.
  intros pre x. unfold drop. rewrite len_app, len_length, skipn_length_app.
  destruct (len pre + len x <=? len pre) eqn:E; [|reflexivity].
  apply N.leb_le in E. destruct x as [|y x]; [reflexivity|].
  rewrite len_cons in E. lia.
Qed.

Lemma drop_app_eq : forall i pre x, i = len pre -> drop i (pre ++ x) = x.
Proof. intros i pre x H. subst i. apply drop_app. Qed.

Lemma nthN_app : forall pre c x, nthN (pre ++ c :: x) (len pre) = Some c.
Proof.
  intros pre c x. unfold nthN. rewrite len_app, len_cons.
  destruct (len pre + (len x + 1) <=? len pre) eqn:E.
  - apply N.leb_le in E. lia.
  - rewrite len_length. rewrite nth_error_app2 by apply Nat.le_refl.
    rewrite Nat.sub_diag. reflexivity.
Qed.

Lemma nthN_app_eq : forall i pre c x, i = len pre -> nthN (pre ++ c :: x) i = Some c.
Proof. intros i pre c x H. subst i. apply nthN_app. Qed.

Lemma firstn4_put : forall n tl, firstn 4 (be_put 4 n ++ tl) = be_put 4 n.
Proof.
  intros n tl. pose proof (firstn_length_app _ (be_put 4 n) tl) as H.
  rewrite be_put_length in H. exact H.
Qed.

Lemma be_put4_len : forall n, len (be_put 4 n) = 4.
Proof. intros n. rewrite be_put_len. reflexivity. Qed.

Lemma be_put2_len : forall n, len (be_put 2 n) = 2.
Proof. intros n. rewrite be_put_len. reflexivity. Qed.

Lemma length_len_le : forall A B (a : list A) (b : list B),
  len a <= len b -> (length a <= length b)%nat.
Proof. intros A B a b H. unfold len in H. lia. Qed.

(* ------------------------------------------------------------------ *)
(* sizes of encodings                                                  *)

Lemma min_size_code_pos : forall w, 1 <= min_size (code_of w).
Proof.
  intros w. apply N.leb_le.
  destruct w as [x|x|x|x|x|x|s|fs raw|kc vc es|[|] ec es]; reflexivity.
Qed.

Lemma put_pos : forall w, 1 <= len (put w).
Proof.
  intros w. pose proof (min_size_code_pos w). pose proof (min_size_put' w). lia.
Qed.

Lemma neg8_code_of : forall w, neg8 (code_of w) = false.
Proof. intros w. destruct w as [x|x|x|x|x|x|s|fs raw|kc vc es|[|] ec es]; reflexivity. Qed.

Lemma neg8_small : forall c, c < 128 -> neg8 c = false.
Proof. intros c H. unfold neg8. apply N.leb_gt. exact H. Qed.

Lemma len_cat_map_const : forall A (f : A -> list N) m l,
  (forall x, In x l -> len (f x) = m) -> len (cat_map f l) = len l * m.
Proof.
  intros A f m l. induction l as [|x l IH]; intros H.
  - reflexivity.
  - rewrite cat_map_cons, len_app, len_cons, N.mul_add_distr_r, N.mul_1_l.
    rewrite (H x (or_introl eq_refl)).
    rewrite IH by (intros y Hy; apply H; right; exact Hy). lia.
Qed.

Lemma len_cat_map_ge : forall A (f : A -> list N) l,
  (forall x, In x l -> 1 <= len (f x)) -> len l <= len (cat_map f l).
Proof.
  intros A f l H. pose proof (cat_map_min A f 1 l H) as H1. lia.
Qed.

(* ------------------------------------------------------------------ *)
(* what dec_params_ok says about the skipper's constants                   *)

Section WithParams.
Hypothesis Hok : dec_params_ok = true.

Lemma gk_ok_holds : gk_ok = true.
Proof.
  exact (dec_gk Hok).
Qed.

Lemma gk_consts :
  gk_STOP = cSTOP /\ gk_STRING = cSTRING /\ gk_STRUCT = cSTRUCT /\ gk_MAP = cMAP
  /\ gk_SET = cSET /\ gk_LIST = cLIST.
Proof.
  pose proof gk_ok_holds as H. unfold gk_ok in H.
  apply andb_true_iff in H. destruct H as [H _].
  apply andb_true_iff in H. destruct H as [H H6].
  apply andb_true_iff in H. destruct H as [H H5].
  apply andb_true_iff in H. destruct H as [H H4].
  apply andb_true_iff in H. destruct H as [H H3].
  apply andb_true_iff in H. destruct H as [H1 H2].
  apply N.eqb_eq in H1, H2, H3, H4, H5, H6. tauto.
Qed.

Lemma gk_STOP_eq : gk_STOP = cSTOP. Proof. apply gk_consts. Qed.
Lemma gk_STRING_eq : gk_STRING = cSTRING. Proof. apply gk_consts. Qed.
Lemma gk_STRUCT_eq : gk_STRUCT = cSTRUCT. Proof. apply gk_consts. Qed.
Lemma gk_MAP_eq : gk_MAP = cMAP. Proof. apply gk_consts. Qed.
Lemma gk_SET_eq : gk_SET = cSET. Proof. apply gk_consts. Qed.
Lemma gk_LIST_eq : gk_LIST = cLIST. Proof. apply gk_consts. Qed.

Lemma gk_size_tab : forall c,
  In c (wire_codes ++ [0; 1; 5; 7; 9; 16; 17; 127]) ->
  gk_size c = if memN c [cBOOL; cBYTE; cDOUBLE; cI16; cI32; cI64] then min_size c else 0.
Proof.
  intros c Hin. pose proof gk_ok_holds as H. unfold gk_ok in H.
  apply andb_true_iff in H. destruct H as [_ H].
  rewrite forallb_forall in H. specialize (H c Hin). apply N.eqb_eq in H. exact H.
Qed.

Ltac in_codes := unfold wire_codes; cbn [app In]; tauto.

Lemma gk_size_bool : gk_size cBOOL = 1.
Proof. rewrite gk_size_tab by in_codes. reflexivity. Qed.
Lemma gk_size_byte : gk_size cBYTE = 1.
Proof. rewrite gk_size_tab by in_codes. reflexivity. Qed.
Lemma gk_size_i16 : gk_size cI16 = 2.
Proof. rewrite gk_size_tab by in_codes. reflexivity. Qed.
Lemma gk_size_i32 : gk_size cI32 = 4.
Proof. rewrite gk_size_tab by in_codes. reflexivity. Qed.
Lemma gk_size_i64 : gk_size cI64 = 8.
Proof. rewrite gk_size_tab by in_codes. reflexivity. Qed.
Lemma gk_size_double : gk_size cDOUBLE = 8.
Proof. rewrite gk_size_tab by in_codes. reflexivity. Qed.
Lemma gk_size_string : gk_size cSTRING = 0.
Proof. rewrite gk_size_tab by in_codes. reflexivity. Qed.
Lemma gk_size_struct : gk_size cSTRUCT = 0.
Proof. rewrite gk_size_tab by in_codes. reflexivity. Qed.
Lemma gk_size_map : gk_size cMAP = 0.
Proof. rewrite gk_size_tab by in_codes. reflexivity. Qed.
Lemma gk_size_set : gk_size cSET = 0.
Proof. rewrite gk_size_tab by in_codes. reflexivity. Qed.
Lemma gk_size_list : gk_size cLIST = 0.
Proof. rewrite gk_size_tab by in_codes. reflexivity. Qed.

(* a value of a fixed-size code occupies exactly gk_size bytes *)
Lemma put_len_fixed : forall w, 0 < gk_size (code_of w) -> len (put w) = gk_size (code_of w).
Proof.
  intros w H.
  destruct w as [x|x|x|x|x|x|s|fs raw|kc vc es|[|] ec es]; cbn [code_of] in *.
  - rewrite gk_size_bool, put_bool_eq. reflexivity.
  - rewrite gk_size_byte, put_i8_eq. reflexivity.
  - rewrite gk_size_i16, put_i16_eq, be_put_len. reflexivity.
  - rewrite gk_size_i32, put_i32_eq, be_put_len. reflexivity.
  - rewrite gk_size_i64, put_i64_eq, be_put_len. reflexivity.
  - rewrite gk_size_double, put_dbl_eq, be_put_len. reflexivity.
  - rewrite gk_size_string in H. lia.
  - rewrite gk_size_struct in H. lia.
  - rewrite gk_size_map in H. lia.
  - rewrite gk_size_set in H. lia.
  - rewrite gk_size_list in H. lia.
Qed.


(* ------------------------------------------------------------------ *)
(* strings and single elements                                         *)

Lemma skipstr_put : forall s tl,
  len s < 2 ^ 31 -> skipstr (be_put 4 (len s) ++ s ++ tl) = SOk (4 + len s).
Proof.
  intros s tl Hl. unfold skipstr.
  rewrite firstn4_put. cbv zeta.
  rewrite be_get_count by exact Hl. rewrite neg32_small by exact Hl.
  rewrite !len_app, be_put4_len.
  destruct (4 <=? 4 + (len s + len tl)) eqn:E1; [|apply N.leb_gt in E1; lia].
  destruct (4 + len s <=? 4 + (len s + len tl)) eqn:E2; [|apply N.leb_gt in E2; lia].
  reflexivity.
Qed.

Lemma skip_one_fixed : forall sk sz t bs, 0 < sz -> skip_one sk sz t bs = SOk sz.
Proof.
  intros sk sz t bs H. unfold skip_one.
  apply N.ltb_lt in H. rewrite H. reflexivity.
Qed.

Lemma skip_one_string : forall sk bs, skip_one sk (gk_size cSTRING) cSTRING bs = skipstr bs.
Proof.
  intros sk bs. unfold skip_one. rewrite gk_size_string, gk_STRING_eq.
  rewrite N.eqb_refl. reflexivity.
Qed.

Lemma skip_one_other : forall sk t bs,
  gk_size t = 0 -> (t =? cSTRING) = false -> skip_one sk (gk_size t) t bs = sk t bs.
Proof.
  intros sk t bs H0 Hs. unfold skip_one. rewrite H0, gk_STRING_eq, Hs. reflexivity.
Qed.

Lemma wf_str_len : forall s, wf (WStr s) = true -> len s < 2 ^ 31.
Proof.
  intros s H. cbn [wf] in H. apply andb_true_iff in H. destruct H as [H _].
  unfold lt31 in H. apply N.ltb_lt in H. exact H.
Qed.

(* one element/key/value/field value, given that the recursive skipper handles it *)
Lemma skip_one_put : forall sk v tl,
  wf v = true ->
  sk (code_of v) (put v ++ tl) = SOk (len (put v)) ->
  skip_one sk (gk_size (code_of v)) (code_of v) (put v ++ tl) = SOk (len (put v)).
Proof.
  intros sk v tl Hwf Hsk.
  destruct (0 <? gk_size (code_of v)) eqn:E.
  - apply N.ltb_lt in E. rewrite skip_one_fixed by exact E.
    rewrite put_len_fixed by exact E. reflexivity.
  - apply N.ltb_ge in E.
    destruct v as [x|x|x|x|x|x|s|fs raw|kc vc es|[|] ec es]; cbn [code_of] in *.
    + rewrite gk_size_bool in E. lia.
    + rewrite gk_size_byte in E. lia.
    + rewrite gk_size_i16 in E. lia.
    + rewrite gk_size_i32 in E. lia.
    + rewrite gk_size_i64 in E. lia.
    + rewrite gk_size_double in E. lia.
    + rewrite skip_one_string, put_str_eq, <- app_assoc.
      rewrite skipstr_put by (apply wf_str_len; exact Hwf).
      rewrite len_app, be_put4_len. reflexivity.
    + rewrite skip_one_other; [exact Hsk | apply gk_size_struct | reflexivity].
    + rewrite skip_one_other; [exact Hsk | apply gk_size_map | reflexivity].
    + rewrite skip_one_other; [exact Hsk | apply gk_size_set | reflexivity].
    + rewrite skip_one_other; [exact Hsk | apply gk_size_list | reflexivity].
Qed.


(* ------------------------------------------------------------------ *)
(* the three loops; the buffer is pre ++ (remaining items) ++ rest and
   the offset reached is len pre                                       *)

Lemma skip_elems_put : forall sk vt es fuel bs i j pre rest,
  (forall e, In e es ->
     code_of e = vt /\ wf e = true /\
     forall tl, sk vt (put e ++ tl) = SOk (len (put e))) ->
  (length es <= fuel)%nat ->
  bs = pre ++ cat_map put es ++ rest -> i = len pre -> j = len es ->
  skip_elems sk fuel vt (gk_size vt) bs i j = SOk (i + len (cat_map put es)).
Proof.
  intros sk vt es. induction es as [|e es IH]; intros fuel bs i j pre rest H Hfuel Hbs Hi Hj.
  - subst j. destruct fuel as [|fuel]; cbn [skip_elems]; rewrite len_nil;
      change (0 =? 0) with true; cbv iota; rewrite cat_map_nil, len_nil; f_equal; lia.
  - destruct fuel as [|fuel]; [cbn [length] in Hfuel; lia|].
    cbn [length] in Hfuel.
    destruct (H e (or_introl eq_refl)) as [Hc [Hwf Hsk]].
    pose proof (put_pos e) as Hpos.
    cbn [skip_elems].
    assert (Ej : (j =? 0) = false) by (apply N.eqb_neq; subst j; rewrite len_cons; lia).
    rewrite Ej.
    rewrite cat_map_cons, <- app_assoc in Hbs.
    assert (El : (len bs <=? i) = false).
    { apply N.leb_gt. subst bs i. rewrite !len_app. lia. }
    rewrite El.
    assert (Ed : drop i bs = put e ++ cat_map put es ++ rest).
    { subst bs. apply drop_app_eq. exact Hi. }
    rewrite Ed. subst vt.
    rewrite skip_one_put; [| exact Hwf | apply Hsk].
    rewrite (IH fuel bs (i + len (put e)) (j - 1) (pre ++ put e) rest).
    + rewrite cat_map_cons, len_app. f_equal; lia.
    + intros e' He'. apply H. right. exact He'.
    + lia.
    + subst bs. rewrite <- app_assoc. reflexivity.
    + subst i. rewrite len_app. reflexivity.
    + subst j. rewrite len_cons. lia.
Qed.

Lemma skip_entries_put : forall sk kt vt es fuel bs i j pre rest,
  (forall kv, In kv es ->
     code_of (fst kv) = kt /\ code_of (snd kv) = vt /\
     wf (fst kv) = true /\ wf (snd kv) = true /\
     (forall tl, sk kt (put (fst kv) ++ tl) = SOk (len (put (fst kv)))) /\
     (forall tl, sk vt (put (snd kv) ++ tl) = SOk (len (put (snd kv))))) ->
  (length es <= fuel)%nat ->
  bs = pre ++ cat_map put_entry es ++ rest -> i = len pre -> j = len es ->
  skip_entries sk fuel kt vt (gk_size kt) (gk_size vt) bs i j
  = SOk (i + len (cat_map put_entry es)).
Proof.
  intros sk kt vt es. induction es as [|[k v] es IH]; intros fuel bs i j pre rest H Hfuel Hbs Hi Hj.
  - subst j. destruct fuel as [|fuel]; cbn [skip_entries]; rewrite len_nil;
      change (0 =? 0) with true; cbv iota; rewrite cat_map_nil, len_nil; f_equal; lia.
  - destruct fuel as [|fuel]; [cbn [length] in Hfuel; lia|].
    cbn [length] in Hfuel.
    destruct (H (k, v) (or_introl eq_refl)) as [Hck [Hcv [Hwk [Hwv [Hsk Hsv]]]]].
    cbn [fst snd] in Hck, Hcv, Hwk, Hwv, Hsk, Hsv.
    pose proof (put_pos k) as Hposk. pose proof (put_pos v) as Hposv.
    cbn [skip_entries].
    assert (Ej : (j =? 0) = false) by (apply N.eqb_neq; subst j; rewrite len_cons; lia).
    rewrite Ej.
    rewrite cat_map_cons in Hbs. unfold put_entry at 1 in Hbs. cbn [fst snd] in Hbs.
    rewrite <- !app_assoc in Hbs.
    assert (El : (len bs <=? i) = false).
    { apply N.leb_gt. subst bs i. rewrite !len_app. lia. }
    rewrite El.
    assert (Ed : drop i bs = put k ++ put v ++ cat_map put_entry es ++ rest).
    { subst bs. apply drop_app_eq. exact Hi. }
    rewrite Ed. subst kt.
    rewrite skip_one_put; [| exact Hwk | apply Hsk].
    cbv zeta.
    assert (El1 : (len bs <=? i + len (put k)) = false).
    { apply N.leb_gt. subst bs i. rewrite !len_app. lia. }
    rewrite El1.
    assert (Ed1 : drop (i + len (put k)) bs = put v ++ cat_map put_entry es ++ rest).
    { subst bs. rewrite (app_assoc pre). apply drop_app_eq. subst i. rewrite len_app. reflexivity. }
    rewrite Ed1. subst vt.
    rewrite skip_one_put; [| exact Hwv | apply Hsv].
    rewrite (IH fuel bs (i + len (put k) + len (put v)) (j - 1) (pre ++ put k ++ put v) rest).
    + rewrite cat_map_cons. unfold put_entry at 2. cbn [fst snd].
      rewrite !len_app. f_equal; lia.
    + intros kv' He'. apply H. right. exact He'.
    + lia.
    + subst bs. rewrite <- !app_assoc. reflexivity.
    + subst i. rewrite !len_app. lia.
    + subst j. rewrite len_cons. lia.
Qed.

Lemma skip_fields_put : forall sk fs fuel bs i pre rest,
  (forall fv, In fv fs ->
     wf (snd fv) = true /\
     forall tl, sk (code_of (snd fv)) (put (snd fv) ++ tl) = SOk (len (put (snd fv)))) ->
  (length fs < fuel)%nat ->
  bs = pre ++ put_fields fs ++ cSTOP :: rest -> i = len pre ->
  skip_fields sk fuel bs i = SOk (i + len (put_fields fs) + 1).
Proof.
  intros sk fs. induction fs as [|[id v] fs IH]; intros fuel bs i pre rest H Hfuel Hbs Hi.
  - destruct fuel as [|fuel]; [inversion Hfuel|].
    cbn [skip_fields]. cbn [put_fields cat_map app] in Hbs. subst bs.
    rewrite nthN_app_eq by exact Hi.
    rewrite gk_STOP_eq, N.eqb_refl.
    cbn [put_fields cat_map]. rewrite len_nil. f_equal; lia.
  - destruct fuel as [|fuel]; [inversion Hfuel|].
    cbn [length] in Hfuel.
    destruct (H (id, v) (or_introl eq_refl)) as [Hwf Hsk]. cbn [fst snd] in Hwf, Hsk.
    pose proof (put_pos v) as Hpos.
    rewrite put_fields_cons, put_field_eq, <- app_assoc in Hbs.
    cbn [skip_fields].
    assert (En : nthN bs i = Some (code_of v)).
    { subst bs. cbn [app]. apply nthN_app_eq. exact Hi. }
    rewrite En. rewrite gk_STOP_eq, code_of_not_stop.
    assert (El : (len bs <=? i + 3) = false).
    { apply N.leb_gt. subst bs i. rewrite !len_app, len_cons, !len_app, be_put2_len. lia. }
    rewrite El. rewrite neg8_code_of.
    assert (Ed : drop (i + 3) bs = put v ++ put_fields fs ++ cSTOP :: rest).
    { subst bs.
      assert (E : pre ++ (code_of v :: be_put 2 id ++ put v) ++ put_fields fs ++ cSTOP :: rest
                  = (pre ++ code_of v :: be_put 2 id) ++ put v ++ put_fields fs ++ cSTOP :: rest).
      { cbn [app]. rewrite <- ?app_assoc. cbn [app]. rewrite <- ?app_assoc. reflexivity. }
      rewrite E. apply drop_app_eq. subst i. rewrite len_app, len_cons, be_put2_len. lia. }
    rewrite Ed.
    rewrite skip_one_put; [| exact Hwf | apply Hsk].
    rewrite (IH fuel bs (i + 3 + len (put v)) (pre ++ code_of v :: be_put 2 id ++ put v) rest).
    + rewrite put_fields_cons, put_field_eq, len_app, len_cons, len_app, be_put2_len.
      f_equal; lia.
    + intros fv' He'. apply H. right. exact He'.
    + lia.
    + subst bs. cbn [app]. rewrite <- ?app_assoc. cbn [app]. rewrite <- ?app_assoc. reflexivity.
    + subst i. rewrite len_app, len_cons, len_app, be_put2_len. lia.
Qed.


(* ------------------------------------------------------------------ *)
(* skip_type, one equation per kind of code                            *)

Lemma skip_type_fixed : forall d c bs,
  neg8 c = false -> 0 < gk_size c -> gk_size c <= len bs ->
  skip_type (S d) c bs = SOk (gk_size c).
Proof.
  intros d c bs Hn Hpos Hlen. cbn [skip_type]. rewrite Hn.
  apply N.ltb_lt in Hpos. rewrite Hpos.
  apply N.ltb_ge in Hlen. rewrite Hlen. reflexivity.
Qed.

Lemma skip_type_string : forall d bs, skip_type (S d) cSTRING bs = skipstr bs.
Proof.
  intros d bs. cbn [skip_type]. change (neg8 cSTRING) with false. cbv iota.
  rewrite gk_size_string. change (0 <? 0) with false. cbv iota.
  rewrite gk_STRING_eq, N.eqb_refl. reflexivity.
Qed.

Lemma skip_type_struct : forall d bs,
  skip_type (S d) cSTRUCT bs = skip_fields (skip_type d) (S (length bs)) bs 0.
Proof.
  intros d bs. cbn [skip_type]. change (neg8 cSTRUCT) with false. cbv iota.
  rewrite gk_size_struct. change (0 <? 0) with false. cbv iota.
  rewrite gk_STRING_eq, gk_MAP_eq, gk_LIST_eq, gk_SET_eq, gk_STRUCT_eq.
  change (cSTRUCT =? cSTRING) with false. change (cSTRUCT =? cMAP) with false.
  change (cSTRUCT =? cLIST) with false. change (cSTRUCT =? cSET) with false.
  cbn [orb]. rewrite N.eqb_refl. reflexivity.
Qed.

Lemma skip_type_map : forall d kt vt n tl,
  n < 2 ^ 31 -> kt < 128 -> vt < 128 ->
  skip_type (S d) cMAP (kt :: vt :: be_put 4 n ++ tl) =
  if (0 <? gk_size kt) && (0 <? gk_size vt) then
    (if len (kt :: vt :: be_put 4 n ++ tl) <? 6 + n * (gk_size kt + gk_size vt)
     then SErr SkShort else SOk (6 + n * (gk_size kt + gk_size vt)))
  else skip_entries (skip_type d) (S (length (kt :: vt :: be_put 4 n ++ tl)))
         kt vt (gk_size kt) (gk_size vt) (kt :: vt :: be_put 4 n ++ tl) 6 n.
Proof.
  intros d kt vt n tl Hn Hk Hv. cbn [skip_type]. change (neg8 cMAP) with false. cbv iota.
  rewrite gk_size_map. change (0 <? 0) with false. cbv iota.
  rewrite gk_STRING_eq, gk_MAP_eq.
  change (cMAP =? cSTRING) with false. cbv iota. rewrite N.eqb_refl.
  assert (E6 : (len (kt :: vt :: be_put 4 n ++ tl) <? 6) = false).
  { apply N.ltb_ge. rewrite !len_cons, len_app, be_put4_len. lia. }
  rewrite E6. rewrite firstn4_put.
  rewrite be_get_count by exact Hn. rewrite neg32_small by exact Hn.
  rewrite (neg8_small kt) by exact Hk. rewrite (neg8_small vt) by exact Hv.
  reflexivity.
Qed.

Lemma skip_type_list : forall d (b : bool) vt n tl,
  n < 2 ^ 31 -> vt < 128 ->
  skip_type (S d) (if b then cSET else cLIST) (vt :: be_put 4 n ++ tl) =
  if 0 <? gk_size vt then
    (if len (vt :: be_put 4 n ++ tl) <? 5 + n * gk_size vt
     then SErr SkShort else SOk (5 + n * gk_size vt))
  else skip_elems (skip_type d) (S (length (vt :: be_put 4 n ++ tl)))
         vt (gk_size vt) (vt :: be_put 4 n ++ tl) 5 n.
Proof.
  intros d b vt n tl Hn Hv. cbn [skip_type].
  assert (E5 : (len (vt :: be_put 4 n ++ tl) <? 5) = false).
  { apply N.ltb_ge. rewrite !len_cons, len_app, be_put4_len. lia. }
  rewrite gk_STRING_eq, gk_MAP_eq, gk_LIST_eq, gk_SET_eq.
  destruct b.
  - change (neg8 cSET) with false. cbv iota.
    rewrite gk_size_set. change (0 <? 0) with false. cbv iota.
    change (cSET =? cSTRING) with false. change (cSET =? cMAP) with false.
    change (cSET =? cLIST) with false. rewrite N.eqb_refl. cbn [orb].
    rewrite E5, firstn4_put.
    rewrite be_get_count by exact Hn. rewrite neg32_small by exact Hn.
    rewrite (neg8_small vt) by exact Hv. reflexivity.
  - change (neg8 cLIST) with false. cbv iota.
    rewrite gk_size_list. change (0 <? 0) with false. cbv iota.
    change (cLIST =? cSTRING) with false. change (cLIST =? cMAP) with false.
    rewrite N.eqb_refl. cbn [orb].
    rewrite E5, firstn4_put.
    rewrite be_get_count by exact Hn. rewrite neg32_small by exact Hn.
    rewrite (neg8_small vt) by exact Hv. reflexivity.
Qed.


(* ------------------------------------------------------------------ *)
(* the theorem                                                         *)

Lemma skip_scalar : forall d w rest,
  0 < gk_size (code_of w) ->
  skip_type (S d) (code_of w) (put w ++ rest) = SOk (len (put w)).
Proof.
  intros d w rest Hpos.
  rewrite skip_type_fixed.
  - rewrite put_len_fixed by exact Hpos. reflexivity.
  - apply neg8_code_of.
  - exact Hpos.
  - rewrite len_app, <- put_len_fixed by exact Hpos. lia.
Qed.

Theorem skip_put_S : forall w d rest, wf w = true -> (wdepth w < d)%nat ->
  skip_type d (code_of w) (put w ++ rest) = SOk (len (put w)).
Proof.
  induction w as [x|x|x|x|x|x|s|fs raw IHfs|kc vc es IHes|b ec es IHes] using tv_ind';
    intros d rest Hwf Hd; (destruct d as [|d]; [inversion Hd|]).
  - apply skip_scalar. cbn [code_of]. rewrite gk_size_bool. lia.
  - apply skip_scalar. cbn [code_of]. rewrite gk_size_byte. lia.
  - apply skip_scalar. cbn [code_of]. rewrite gk_size_i16. lia.
  - apply skip_scalar. cbn [code_of]. rewrite gk_size_i32. lia.
  - apply skip_scalar. cbn [code_of]. rewrite gk_size_i64. lia.
  - apply skip_scalar. cbn [code_of]. rewrite gk_size_double. lia.
  - (* WStr *)
    cbn [code_of]. rewrite skip_type_string, put_str_eq, <- app_assoc.
    rewrite skipstr_put by (apply wf_str_len; exact Hwf).
    rewrite len_app, be_put4_len. reflexivity.
  - (* WStruct *)
    apply wf_struct in Hwf. destruct Hwf as [Hraw Hwf]. subst raw.
    cbn [code_of]. rewrite skip_type_struct, put_struct_eq.
    assert (E : (put_fields fs ++ [] ++ [cSTOP]) ++ rest = [] ++ put_fields fs ++ cSTOP :: rest)
      by (rewrite <- app_assoc; reflexivity).
    rewrite E.
    rewrite (skip_fields_put (skip_type d) fs _ _ 0 [] rest); [ | | | reflexivity | reflexivity].
    + rewrite !len_app. cbn [app]. change (len [cSTOP]) with 1. f_equal; lia.
    + intros fv Hin. destruct (Hwf fv Hin) as [_ Hw]. split; [exact Hw|].
      intros tl. rewrite Forall_forall in IHfs. apply (IHfs fv Hin); [exact Hw|].
      apply (wdepth_struct_in fs [] d fv Hd Hin).
    + cbn [app]. rewrite app_length. pose proof (length_put_fields fs). cbn [length]. lia.
  - (* WMap *)
    apply wf_map in Hwf. destruct Hwf as [Hl [Hkc [Hvc Hwf]]].
    cbn [code_of]. rewrite put_map_eq. cbn [app]. rewrite <- app_assoc.
    rewrite skip_type_map by assumption.
    rewrite !len_cons, !len_app, be_put4_len.
    destruct ((0 <? gk_size kc) && (0 <? gk_size vc)) eqn:Efix.
    + apply andb_true_iff in Efix. destruct Efix as [Ek Ev].
      apply N.ltb_lt in Ek. apply N.ltb_lt in Ev.
      assert (Elen : len (cat_map put_entry es) = len es * (gk_size kc + gk_size vc)).
      { apply len_cat_map_const. intros kv Hin.
        destruct (Hwf kv Hin) as [H1 [H2 _]].
        unfold put_entry. rewrite len_app.
        rewrite !put_len_fixed; rewrite ?H1, ?H2; [reflexivity | exact Ev | exact Ek]. }
      rewrite Elen. set (m := len es * (gk_size kc + gk_size vc)).
      destruct (4 + (m + len rest) + 1 + 1 <? 6 + m) eqn:E; [apply N.ltb_lt in E; lia|].
      f_equal; lia.
    + rewrite (skip_entries_put (skip_type d) kc vc es _ _ 6 (len es)
                 (kc :: vc :: be_put 4 (len es)) rest).
      * f_equal; lia.
      * intros kv Hin. rewrite Forall_forall in IHes.
        destruct (IHes kv Hin) as [IHk IHv].
        destruct (Hwf kv Hin) as [H1 [H2 [H3 H4]]].
        destruct (wdepth_map_in kc vc es d kv Hd Hin) as [D1 D2].
        split; [exact H1|]. split; [exact H2|]. split; [exact H3|]. split; [exact H4|].
        split; intros tl.
        -- rewrite <- H1. apply IHk; assumption.
        -- rewrite <- H2. apply IHv; assumption.
      * apply Nat.le_trans with (m := length (cat_map put_entry es)).
        -- apply length_len_le. apply len_cat_map_ge. intros kv _.
           unfold put_entry. rewrite len_app. pose proof (put_pos (fst kv)). lia.
        -- cbn [length]. rewrite !app_length. lia.
      * reflexivity.
      * rewrite !len_cons, be_put4_len. reflexivity.
      * reflexivity.
  - (* WList *)
    apply wf_list in Hwf. destruct Hwf as [Hl [Hec Hwf]].
    rewrite code_of_list, put_list_eq. cbn [app]. rewrite <- app_assoc.
    rewrite skip_type_list by assumption.
    rewrite !len_cons, !len_app, be_put4_len.
    destruct (0 <? gk_size ec) eqn:Efix.
    + apply N.ltb_lt in Efix.
      assert (Elen : len (cat_map put es) = len es * gk_size ec).
      { apply len_cat_map_const. intros e Hin.
        destruct (Hwf e Hin) as [H1 _].
        rewrite put_len_fixed; rewrite H1; [reflexivity | exact Efix]. }
      rewrite Elen. set (m := len es * gk_size ec).
      destruct (4 + (m + len rest) + 1 <? 5 + m) eqn:E; [apply N.ltb_lt in E; lia|].
      f_equal; lia.
    + rewrite (skip_elems_put (skip_type d) ec es _ _ 5 (len es)
                 (ec :: be_put 4 (len es)) rest).
      * f_equal; lia.
      * intros e Hin. rewrite Forall_forall in IHes.
        destruct (Hwf e Hin) as [H1 H2].
        split; [exact H1|]. split; [exact H2|].
        intros tl. rewrite <- H1. apply (IHes e Hin); [exact H2|].
        apply (wdepth_list_in b ec es d e Hd Hin).
      * apply Nat.le_trans with (m := length (cat_map put es)).
        -- apply length_len_le. apply len_cat_map_ge. intros e _. apply put_pos.
        -- cbn [length]. rewrite !app_length. lia.
      * reflexivity.
      * rewrite !len_cons, be_put4_len. reflexivity.
      * reflexivity.
Qed.

End WithParams.

Theorem skip_put : dec_params_ok = true ->
  forall w d rest, wf w = true -> (wdepth w < d)%nat ->
  skip_type d (code_of w) (put w ++ rest) = SOk (len (put w)).
Proof. intros Hok w d rest. apply skip_put_S. exact Hok. Qed.

Corollary gk_skip_put : dec_params_ok = true ->
  forall w rest, wf w = true -> (wdepth w < N.to_nat gk_defaultRecursionDepth)%nat ->
  gk_skip (put w ++ rest) (code_of w) = SOk (len (put w)).
Proof.
  intros Hok w rest Hwf Hd. unfold gk_skip.
  destruct (put w ++ rest) as [|b bs] eqn:E.
  - pose proof (put_pos w) as Hpos. pose proof (f_equal (@len N) E) as El.
    rewrite len_app, len_nil in El. lia.
  - rewrite <- E. apply skip_put; assumption.
Qed.

Print Assumptions skip_put.
Print Assumptions gk_skip_put.
