(* SizeExact.v -- the size walk (enc_size) and the encoder (append_any) agree. *)
From Coq Require Import List NArith Bool Lia ZifyN ZifyNat ZifyBool.
From Frugal Require Import Bytes Wire Values Desc Spec Routines Encode Checks.
From Frugal.gen Require Import Params Tables.
From Frugal.proofs Require Import ParamsSplit.
Import ListNotations.
Open Scope N_scope.

(* ------------------------------------------------------------------ *)
(* lengths *)

Lemma len_nil : forall A, len (@nil A) = 0.
Proof. reflexivity. Qed.

Lemma len_cons : forall A (x : A) l, len (x :: l) = 1 + len l.
Proof. intros. unfold len. cbn [length]. lia. Qed.

Lemma len_app : forall A (a b : list A), len (a ++ b) = len a + len b.
Proof. intros. unfold len. rewrite app_length. lia. Qed.

Lemma len_be_put : forall w x, len (be_put w x) = N.of_nat w.
Proof.
  induction w as [|w IH]; intros x.
  - reflexivity.
  - cbn [be_put]. rewrite len_app, IH, len_cons, len_nil. lia.
Qed.

Lemma len_zero_nil : forall A (l : list A), len l = 0 -> l = [].
Proof. intros A [|x l] H. reflexivity. rewrite len_cons in H. lia. Qed.

(* ------------------------------------------------------------------ *)
(* sums *)

Lemma len_cat_map : forall A (f : A -> list N) l,
  len (cat_map f l) = sum_map (fun x => len (f x)) l.
Proof.
  induction l as [|x r IH]. reflexivity.
  cbn [cat_map sum_map]. rewrite len_app, IH. reflexivity.
Qed.

Lemma sum_map_ext_in : forall A (f g : A -> N) l,
  (forall x, In x l -> f x = g x) -> sum_map f l = sum_map g l.
Proof.
  induction l as [|x r IH]; intros H. reflexivity.
  cbn [sum_map]. rewrite (H x (or_introl eq_refl)), IH. reflexivity.
  intros y Hy. apply H. right. exact Hy.
Qed.

Lemma sum_map_const : forall A (f : A -> N) c l,
  (forall x, In x l -> f x = c) -> sum_map f l = len l * c.
Proof.
  induction l as [|x r IH]; intros H. reflexivity.
  cbn [sum_map]. rewrite (H x (or_introl eq_refl)), IH, len_cons. lia.
  intros y Hy. apply H. right. exact Hy.
Qed.

Lemma sum_map_plus : forall A (f g : A -> N) l,
  sum_map (fun x => f x + g x) l = sum_map f l + sum_map g l.
Proof.
  induction l as [|x r IH]. reflexivity.
  cbn [sum_map]. rewrite IH. lia.
Qed.

Lemma fold_fixed : forall l a,
  fold_left (fun a f => a + field_fixed_size f) l a = a + sum_map field_fixed_size l.
Proof.
  induction l as [|f r IH]; intros a; cbn [fold_left sum_map]. lia.
  rewrite IH. lia.
Qed.

(* ------------------------------------------------------------------ *)
(* facts extracted from enc_params_ok *)

Lemma params_codes : enc_params_ok = true -> codes_ok = true.
Proof. exact enc_codes. Qed.

Lemma params_fixed : enc_params_ok = true -> fixed_ok = true.
Proof. exact enc_fixed. Qed.

Lemma hdr_lens : enc_params_ok = true ->
  fieldHeaderLen = 3 /\ mapHeaderLen = 6 /\ listHeaderLen = 5 /\ strHeaderLen = 4.
Proof.
  intros H. apply params_codes in H. unfold codes_ok in H.
  apply andb_prop in H. destruct H as [H H4].
  apply andb_prop in H. destruct H as [H H3].
  apply andb_prop in H. destruct H as [H H2].
  apply andb_prop in H. destruct H as [_ H1].
  apply N.eqb_eq in H1, H2, H3, H4. auto.
Qed.

Lemma fs_kind : forall t t', kind t = kind t' -> fixed_size t = fixed_size t'.
Proof. intros t t' H. unfold fixed_size. rewrite H. reflexivity. Qed.

Lemma fs_scalar : enc_params_ok = true -> forall t, is_scalar_ty t = true -> fixed_size t = wire_width t.
Proof.
  intros H t Ht. apply params_fixed in H. unfold fixed_ok in H.
  apply andb_prop in H. destruct H as [H _].
  apply N.eqb_eq. apply (proj1 (forallb_forall _ _) H t).
  unfold scalar_tys. destruct t; try discriminate Ht; simpl; tauto.
Qed.

Lemma fs_other : enc_params_ok = true -> forall t, In t other_tys -> fixed_size t = 0.
Proof.
  intros H t Ht. apply params_fixed in H. unfold fixed_ok in H.
  apply andb_prop in H. destruct H as [_ H].
  apply N.eqb_eq. apply (proj1 (forallb_forall _ _) H t Ht).
Qed.

(* the non-scalar, non-pointer types have no fixed size *)
Definition is_var_ty (t : ty) : bool :=
  match t with
  | TString | TBinary | TList _ _ | TMap _ _ | TStruct _ => true
  | _ => false
  end.

Lemma fs_var : enc_params_ok = true -> forall t, is_var_ty t = true -> fixed_size t = 0.
Proof.
  intros H t Ht. destruct t as [| | | | | | | | |b e|k v|sid|t']; try discriminate Ht.
  - apply (fs_other H). unfold other_tys. simpl. tauto.
  - apply (fs_other H). unfold other_tys. simpl. tauto.
  - destruct b.
    + rewrite (fs_kind _ (TList true TI32)) by reflexivity.
      apply (fs_other H). unfold other_tys. simpl. tauto.
    + rewrite (fs_kind _ (TList false TI32)) by reflexivity.
      apply (fs_other H). unfold other_tys. simpl. tauto.
  - rewrite (fs_kind _ (TMap TI32 TI32)) by reflexivity.
    apply (fs_other H). unfold other_tys. simpl. tauto.
  - rewrite (fs_kind _ (TStruct 0)) by reflexivity.
    apply (fs_other H). unfold other_tys. simpl. tauto.
Qed.

Lemma fs_ptr : forall t, fixed_size (TPtr t) = fixed_size t.
Proof. intros. apply fs_kind. reflexivity. Qed.

Lemma wire_width_pos : forall t, is_scalar_ty t = true -> 0 < wire_width t.
Proof. intros t Ht. destruct t; try discriminate Ht; cbn [wire_width]; lia. Qed.

(* ------------------------------------------------------------------ *)
(* typing inversions *)

Lemma ht_VS : forall env t x, has_type env t (VS x) = true -> is_scalar_ty t = true.
Proof. intros env t x H. destruct t; cbn [has_type] in H; try discriminate H; reflexivity. Qed.

Lemma ht_VB : forall env t n s, has_type env t (VB n s) = true -> t = TString \/ t = TBinary.
Proof. intros env t n s H. destruct t; cbn [has_type] in H; try discriminate H; auto. Qed.

Lemma ht_VLn : forall env t, has_type env t (VL None) = true -> exists b e, t = TList b e.
Proof. intros env t H. destruct t; cbn [has_type] in H; try discriminate H; eauto. Qed.

Lemma ht_VL : forall env t l, has_type env t (VL (Some l)) = true ->
  exists b e, t = TList b e /\ forallb (has_type env e) l = true.
Proof.
  intros env t l H. destruct t; cbn [has_type] in H; try discriminate H.
  apply andb_prop in H. destruct H as [H _]. eauto.
Qed.

Lemma ht_VMn : forall env t, has_type env t (VM None) = true -> exists k v, t = TMap k v.
Proof. intros env t H. destruct t; cbn [has_type] in H; try discriminate H; eauto. Qed.

Lemma ht_VM : forall env t m, has_type env t (VM (Some m)) = true ->
  exists kt vt, t = TMap kt vt /\
    forallb (fun kv : val * val => has_type env kt (fst kv) && has_type env vt (snd kv)) m = true.
Proof.
  intros env t m H. destruct t; cbn [has_type] in H; try discriminate H.
  apply andb_prop in H. destruct H as [H _].
  apply andb_prop in H. destruct H as [H _]. eauto.
Qed.

Lemma ht_VPn : forall env t, has_type env t (VP None) = true -> exists t', t = TPtr t'.
Proof. intros env t H. destruct t; cbn [has_type] in H; try discriminate H; eauto. Qed.

Lemma ht_VP : forall env t v, has_type env t (VP (Some v)) = true ->
  exists t', t = TPtr t' /\ has_type env t' v = true.
Proof. intros env t v H. destruct t; cbn [has_type] in H; try discriminate H; eauto. Qed.

Lemma ht_VT : forall env t fs h, has_type env t (VT fs h) = true ->
  exists sid sd, t = TStruct sid /\ lookup_sd env sid = Some sd /\
    fields_all (fun f v' => has_type env (fty f) v') (sfields sd) fs = true.
Proof.
  intros env t fs h H. destruct t as [| | | | | | | | | | |sid|]; cbn [has_type] in H; try discriminate H.
  destruct (lookup_sd env sid) as [sd|] eqn:E; try discriminate H.
  apply andb_prop in H. destruct H as [H _].
  apply andb_prop in H. destruct H as [H _]. eauto.
Qed.

Lemma scalar_val : forall env t v, is_scalar_ty t = true -> has_type env t v = true -> exists x, v = VS x.
Proof.
  intros env t v Ht H.
  destruct v as [x|n s|[l|]|[m|]|[p|]|fs h]; [eauto | idtac ..];
    exfalso; destruct t; try discriminate Ht; cbn [has_type] in H; discriminate H.
Qed.

Lemma str_val : forall env t v, (t = TString \/ t = TBinary) -> has_type env t v = true ->
  exists n s, v = VB n s.
Proof.
  intros env t v Ht H.
  destruct v as [x|n s|[l|]|[m|]|[p|]|fs h]; [idtac | eauto | idtac ..];
    exfalso; destruct Ht; subst t; cbn [has_type] in H; discriminate H.
Qed.

(* ------------------------------------------------------------------ *)
(* one-step unfoldings *)

Definition W (env : senv) (w : wr) (t : ty) (x : val) : list N :=
  match w with
  | WrFunc | WrAny => append_any env t x
  | WrBool => wr_apply WrBool x
  | WrByte => wr_apply WrByte x
  | WrU16 => wr_apply WrU16 x
  | WrU32 => wr_apply WrU32 x
  | WrU64 => wr_apply WrU64 x
  | WrEnum => wr_apply WrEnum x
  | WrStr => wr_apply WrStr x
  | WrBad => wr_apply WrBad x
  end.

Definition enc_field (env : senv) (f : field) (v' : val) : list N :=
  if can_skip_nil f && is_nil v' then []
  else if can_skip_default f
          && match fdflt f with Some d => go_equal (fty f) d v' | None => false end
       then []
       else wt (fty f) :: be_put 2 (fid f) ++ append_any env (fty f) v'.

Definition sz_field (env : senv) (f : field) (v' : val) : N :=
  if negb (field_fixed_size f =? 0) then 0
  else if can_skip_nil f && is_nil v' then 0
  else if can_skip_default f
          && match fdflt f with Some d => go_equal (fty f) d v' | None => false end
       then 0
  else if 0 <? fixed_size (fty f) then fieldHeaderLen + fixed_size (fty f)
  else if kind (fty f) =? tSTRING then
         fieldHeaderLen + str_size (match v' with VP (Some x) => x | _ => v' end)
  else fieldHeaderLen + enc_size env (fty f) v'.

Definition elem_sz (env : senv) (t : ty) (x : val) : N :=
  if kind t =? tSTRING then str_size x else enc_size env t x.

Lemma app_VS : forall env t x, append_any env t (VS x) = wr_apply (simple_wr (kind t)) (VS x).
Proof. reflexivity. Qed.
Lemma app_VB : forall env t n s, append_any env t (VB n s) = wr_apply (simple_wr (kind t)) (VB n s).
Proof. reflexivity. Qed.
Lemma app_VPn : forall env t, append_any env t (VP None) = [tSTOP].
Proof. reflexivity. Qed.
Lemma app_VP : forall env t v, append_any env (TPtr t) (VP (Some v)) = append_any env t v.
Proof. reflexivity. Qed.
Lemma app_VLn : forall env b e, append_any env (TList b e) (VL None) =
  if l_shape (list_routine (kind e)) then wt e :: be_put 4 0 else [].
Proof. reflexivity. Qed.
Lemma app_VL : forall env b e l, append_any env (TList b e) (VL (Some l)) =
  if l_shape (list_routine (kind e))
  then wt e :: be_put 4 (len l) ++ cat_map (W env (l_elem (list_routine (kind e))) e) l
  else [].
Proof. reflexivity. Qed.
Lemma app_VMn : forall env kt vt, append_any env (TMap kt vt) (VM None) =
  if m_shape (map_routine kt vt) then wt kt :: wt vt :: be_put 4 0 else [].
Proof. reflexivity. Qed.
Lemma app_VM : forall env kt vt m, append_any env (TMap kt vt) (VM (Some m)) =
  if m_shape (map_routine kt vt)
  then wt kt :: wt vt :: be_put 4 (len m)
       ++ cat_map (fun kv : val * val =>
                     W env (m_key (map_routine kt vt)) kt (fst kv)
                     ++ W env (m_val (map_routine kt vt)) vt (snd kv)) m
  else [].
Proof. reflexivity. Qed.
Lemma app_VT : forall env sid fs h, append_any env (TStruct sid) (VT fs h) =
  match lookup_sd env sid with
  | Some sd => fields_cat (enc_field env) (sfields sd) fs ++ (if sholder sd then h else []) ++ [tSTOP]
  | None => []
  end.
Proof. reflexivity. Qed.

Lemma enc_VS : forall env t x, enc_size env t (VS x) = fixed_size t.
Proof. reflexivity. Qed.
Lemma enc_VB : forall env t n s, enc_size env t (VB n s) = strHeaderLen + len s.
Proof. reflexivity. Qed.
Lemma enc_VPn : forall env t, enc_size env t (VP None) = 1.
Proof. reflexivity. Qed.
Lemma enc_VP : forall env t v, enc_size env (TPtr t) (VP (Some v)) = enc_size env t v.
Proof. reflexivity. Qed.
Lemma enc_VLn : forall env t, enc_size env t (VL None) = listHeaderLen.
Proof. reflexivity. Qed.
Lemma enc_VL : forall env b e l, enc_size env (TList b e) (VL (Some l)) =
  if 0 <? fixed_size e then listHeaderLen + len l * fixed_size e
  else listHeaderLen + sum_map (fun x => elem_sz env e x) l.
Proof. reflexivity. Qed.
Lemma enc_VMn : forall env t, enc_size env t (VM None) = mapHeaderLen.
Proof. reflexivity. Qed.
Lemma enc_VM : forall env kt vt m, enc_size env (TMap kt vt) (VM (Some m)) =
  if len m =? 0 then mapHeaderLen
  else
    let ret := mapHeaderLen + (if 0 <? fixed_size kt then len m * fixed_size kt else 0)
               + (if 0 <? fixed_size vt then len m * fixed_size vt else 0) in
    if (0 <? fixed_size kt) && (0 <? fixed_size vt) then ret
    else ret + sum_map (fun kv : val * val =>
                          (if 0 <? fixed_size kt then 0 else elem_sz env kt (fst kv))
                          + (if 0 <? fixed_size vt then 0 else elem_sz env vt (snd kv))) m.
Proof. reflexivity. Qed.
Lemma enc_VT : forall env sid fs h, enc_size env (TStruct sid) (VT fs h) =
  match lookup_sd env sid with
  | Some sd => fixed_len_field_size sd + fields_sum (sz_field env) (sfields sd) fs
               + (if sholder sd then len h else 0) + 1
  | None => 0
  end.
Proof. reflexivity. Qed.

(* ------------------------------------------------------------------ *)
(* admissible element / value / key types and their representatives *)

Definition elem_adm (env : senv) (t : ty) : bool :=
  ty_ok env t && (negb (is_ptr t) || is_struct_ptr t).

Definition nn (t : ty) (v : val) : bool :=
  negb (is_ptr t) || is_struct_ptr t || negb (is_nil v).

Definition rep (t : ty) : ty :=
  match t with
  | TList b _ => TList b TI32
  | TMap _ _ => TMap TI32 TI32
  | TStruct _ => TStruct 0
  | TPtr _ => TPtr (TStruct 0)
  | _ => t
  end.

Lemma struct_ptr_inv : forall t, is_struct_ptr t = true -> exists sid, t = TPtr (TStruct sid).
Proof.
  intros t H. destruct t as [| | | | | | | | | | | |t']; try discriminate H.
  destruct t'; try discriminate H. eauto.
Qed.

Lemma adm_shape : forall t, negb (is_ptr t) || is_struct_ptr t = true ->
  is_ptr t = false \/ exists sid, t = TPtr (TStruct sid).
Proof.
  intros t H. apply orb_prop in H. destruct H as [H|H].
  - left. apply negb_true_iff in H. exact H.
  - right. apply struct_ptr_inv. exact H.
Qed.

Lemma kind_rep : forall t, negb (is_ptr t) || is_struct_ptr t = true -> kind (rep t) = kind t.
Proof.
  intros t H. apply adm_shape in H. destruct H as [H|[sid H]].
  - destruct t; try discriminate H; reflexivity.
  - subst t. reflexivity.
Qed.

Lemma binary_rep : forall t, is_binary (rep t) = is_binary t.
Proof. intros t. destruct t; reflexivity. Qed.

Lemma wr_ok_rep : forall t w, wr_ok (rep t) w = wr_ok t w.
Proof. intros t w. destruct t; reflexivity. Qed.

Lemma rep_in_elem : forall t, negb (is_ptr t) || is_struct_ptr t = true -> In (rep t) elem_reps.
Proof.
  intros t H. apply adm_shape in H. destruct H as [H|[sid H]].
  - destruct t as [| | | | | | | | |b e|k v|sid|t']; try discriminate H;
      unfold elem_reps; cbn [rep In]; try tauto.
    destruct b; tauto.
  - subst t. unfold elem_reps. cbn [rep In]. tauto.
Qed.

Lemma key_adm : forall t, key_ty_ok t = true -> negb (is_ptr t) || is_struct_ptr t = true.
Proof.
  intros t H. unfold key_ty_ok in H.
  apply orb_prop in H. destruct H as [H|H].
  - apply orb_prop in H. destruct H as [H|H]; destruct t; try discriminate H; reflexivity.
  - rewrite H. apply orb_true_r.
Qed.

Lemma rep_in_key : forall t, key_ty_ok t = true -> In (rep t) key_reps.
Proof.
  intros t H. unfold key_ty_ok in H.
  apply orb_prop in H. destruct H as [H|H].
  - apply orb_prop in H.
    destruct H as [H|H]; destruct t; try discriminate H; unfold key_reps; cbn [rep In]; tauto.
  - apply struct_ptr_inv in H. destruct H as [sid H]. subst t.
    unfold key_reps. cbn [rep In]. tauto.
Qed.

(* ------------------------------------------------------------------ *)
(* facts extracted from tables_ok *)

Lemma tables_list : tables_ok = true -> list_tables_ok = true.
Proof. unfold tables_ok. intros H. apply andb_prop in H. destruct H as [H _].
  apply andb_prop in H. destruct H as [H _]. exact H. Qed.
Lemma tables_map : tables_ok = true -> map_tables_ok = true.
Proof. unfold tables_ok. intros H. apply andb_prop in H. destruct H as [H _].
  apply andb_prop in H. destruct H as [_ H]. exact H. Qed.
Lemma tables_simple : tables_ok = true -> simple_tables_ok = true.
Proof. unfold tables_ok. intros H. apply andb_prop in H. destruct H as [_ H]. exact H. Qed.

Lemma list_rt : tables_ok = true -> forall e, negb (is_ptr e) || is_struct_ptr e = true ->
  l_shape (list_routine (kind e)) = true /\ wr_ok e (l_elem (list_routine (kind e))) = true.
Proof.
  intros HT e He. apply tables_list in HT. unfold list_tables_ok in HT.
  pose proof (proj1 (forallb_forall _ _) HT (rep e) (rep_in_elem e He)) as H.
  cbv beta zeta in H. rewrite (kind_rep e He), wr_ok_rep in H.
  apply andb_prop in H. exact H.
Qed.

Lemma map_routine_rep : forall k v,
  negb (is_ptr k) || is_struct_ptr k = true -> negb (is_ptr v) || is_struct_ptr v = true ->
  map_routine (rep k) (rep v) = map_routine k v.
Proof.
  intros k v Hk Hv. unfold map_routine.
  rewrite (kind_rep k Hk), (kind_rep v Hv), binary_rep. reflexivity.
Qed.

Lemma map_rt : tables_ok = true -> forall k v,
  key_ty_ok k = true -> negb (is_ptr v) || is_struct_ptr v = true ->
  m_shape (map_routine k v) = true /\ wr_ok k (m_key (map_routine k v)) = true
  /\ wr_ok v (m_val (map_routine k v)) = true.
Proof.
  intros HT k v Hk Hv. apply tables_map in HT. unfold map_tables_ok in HT.
  pose proof (proj1 (forallb_forall _ _) HT (rep k) (rep_in_key k Hk)) as H1.
  cbv beta in H1.
  pose proof (proj1 (forallb_forall _ _) H1 (rep v) (rep_in_elem v Hv)) as H.
  cbv beta zeta in H.
  rewrite (map_routine_rep k v (key_adm k Hk) Hv), !wr_ok_rep in H.
  apply andb_prop in H. destruct H as [H _].
  apply andb_prop in H. destruct H as [H H3].
  apply andb_prop in H. destruct H as [H1' H2]. auto.
Qed.

Lemma simple_rt : tables_ok = true -> forall t,
  is_scalar_ty t = true \/ t = TString \/ t = TBinary ->
  wr_ok t (simple_wr (kind t)) = true /\ simple_wr (kind t) <> WrFunc /\ simple_wr (kind t) <> WrAny.
Proof.
  intros HT t Ht. apply tables_simple in HT. unfold simple_tables_ok in HT.
  assert (Hin : In t [TBool; TI8; TI16; TI32; TI64; TDouble; TEnum; TString; TBinary]).
  { destruct Ht as [Ht|[Ht|Ht]].
    - destruct t; try discriminate Ht; cbn [In]; tauto.
    - subst t. cbn [In]. tauto.
    - subst t. cbn [In]. tauto. }
  pose proof (proj1 (forallb_forall _ _) HT t Hin) as H. cbv beta in H.
  apply andb_prop in H. destruct H as [H H3].
  apply andb_prop in H. destruct H as [H1 H2].
  split. exact H1.
  split; intros E; rewrite E in *; discriminate.
Qed.

(* ------------------------------------------------------------------ *)
(* direct writers *)

Section Main.
Variable env : senv.
Hypothesis HP : enc_params_ok = true.
Hypothesis HT : tables_ok = true.

Lemma direct_len : forall t w x,
  wr_ok t w = true -> w <> WrFunc -> w <> WrAny -> has_type env t x = true ->
  len (wr_apply w x) = enc_size env t x.
Proof.
  intros t w x Hw Hf Ha Hx.
  destruct (hdr_lens HP) as (_ & _ & _ & Hstr).
  assert (Hcase : (is_scalar_ty t = true /\ exists y, x = VS y)
                  \/ ((t = TString \/ t = TBinary) /\ exists n s, x = VB n s)).
  { destruct w; try congruence; try discriminate Hw;
      destruct t; try discriminate Hw.
    all: try (left; split; [reflexivity | eapply scalar_val; [|exact Hx]; reflexivity]).
    all: right; split; [auto | eapply str_val; [|exact Hx]; auto]. }
  destruct Hcase as [[Hs [y Hy]]|[Hs (n & s & Hy)]]; subst x.
  - rewrite enc_VS, (fs_scalar HP t Hs).
    destruct w; try congruence; try discriminate Hw;
      destruct t; try discriminate Hs; try discriminate Hw;
      cbn [wr_apply wire_width]; rewrite ?len_be_put; reflexivity.
  - rewrite enc_VB, Hstr.
    destruct w; try congruence; try discriminate Hw;
      destruct Hs; subst t; try discriminate Hw;
      cbn [wr_apply]; rewrite len_app, len_be_put; reflexivity.
Qed.

Lemma W_len : forall t w x,
  wr_ok t w = true -> has_type env t x = true ->
  enc_size env t x = len (append_any env t x) ->
  len (W env w t x) = enc_size env t x.
Proof.
  intros t w x Hw Hx IH.
  destruct w; try (cbn [W]; symmetry; exact IH); try discriminate Hw;
    cbn [W]; apply direct_len; try assumption; discriminate.
Qed.

Lemma simple_len : forall t x,
  (is_scalar_ty t = true \/ t = TString \/ t = TBinary) -> has_type env t x = true ->
  len (wr_apply (simple_wr (kind t)) x) = enc_size env t x.
Proof.
  intros t x Ht Hx. destruct (simple_rt HT t Ht) as (H1 & H2 & H3).
  apply direct_len; assumption.
Qed.

(* ------------------------------------------------------------------ *)
(* when the size is known from the type *)

Lemma fs_pos_cases : forall t, ty_ok env t = true -> 0 <? fixed_size t = true ->
  is_scalar_ty t = true \/ exists t', t = TPtr t' /\ is_scalar_ty t' = true.
Proof.
  intros t Hok Hfs. apply N.ltb_lt in Hfs.
  destruct t as [| | | | | | | | |b e|k v|sid|t']; try (left; reflexivity);
    try (rewrite (fs_var HP) in Hfs by reflexivity; lia).
  right. exists t'. split. reflexivity.
  rewrite fs_ptr in Hfs.
  destruct t' as [| | | | | | | | |b e|k v|sid|t'']; try reflexivity;
    try discriminate Hok;
    rewrite (fs_var HP) in Hfs by reflexivity; lia.
Qed.

Lemma fixed_enc : forall t v, ty_ok env t = true -> 0 <? fixed_size t = true ->
  has_type env t v = true -> nn t v = true -> enc_size env t v = fixed_size t.
Proof.
  intros t v Hok Hfs Hv Hnn.
  destruct (fs_pos_cases t Hok Hfs) as [Hs|(t' & Et & Hs)].
  - destruct (scalar_val env t v Hs Hv) as [x Ex]. subst v. apply enc_VS.
  - subst t. destruct v as [x|n s|[l|]|[m|]|[p|]|fs h]; cbn [has_type] in Hv; try discriminate Hv.
    + destruct (scalar_val env t' p Hs Hv) as [x Ex]. subst p.
      rewrite enc_VP, enc_VS, fs_ptr. reflexivity.
    + unfold nn in Hnn. cbn [is_ptr is_nil negb orb] in Hnn.
      destruct t'; try discriminate Hs; discriminate Hnn.
Qed.

Lemma kind_str_cases : forall t, ty_ok env t = true -> kind t =? tSTRING = true ->
  (t = TString \/ t = TBinary) \/ exists t', t = TPtr t' /\ (t' = TString \/ t' = TBinary).
Proof.
  intros t Hok Hk.
  destruct t as [| | | | | | | | |b e|k v|sid|t']; try discriminate Hk; auto.
  - destruct b; discriminate Hk.
  - right. exists t'. split. reflexivity.
    destruct t' as [| | | | | | | | |b e|k v|sid|t'']; try discriminate Hk; try discriminate Hok; auto.
Qed.

Lemma str_enc : forall t v, ty_ok env t = true -> kind t =? tSTRING = true ->
  has_type env t v = true -> nn t v = true ->
  str_size (match v with VP (Some x) => x | _ => v end) = enc_size env t v.
Proof.
  intros t v Hok Hk Hv Hnn.
  destruct (kind_str_cases t Hok Hk) as [Hs|(t' & Et & Hs)].
  - destruct (str_val env t v Hs Hv) as (n & s & Ev). subst v. reflexivity.
  - subst t. destruct v as [x|n s|[l|]|[m|]|[p|]|fs h]; cbn [has_type] in Hv; try discriminate Hv.
    + destruct (str_val env t' p Hs Hv) as (n & s & Ev). subst p. reflexivity.
    + unfold nn in Hnn. cbn [is_ptr is_nil negb orb] in Hnn.
      destruct Hs; subst t'; discriminate Hnn.
Qed.

Lemma adm_nn : forall t v, negb (is_ptr t) || is_struct_ptr t = true -> nn t v = true.
Proof. intros t v H. unfold nn. rewrite H. reflexivity. Qed.

Lemma elem_sz_eq : forall t x, ty_ok env t = true -> negb (is_ptr t) || is_struct_ptr t = true ->
  has_type env t x = true -> elem_sz env t x = enc_size env t x.
Proof.
  intros t x Hok Hadm Hx. unfold elem_sz.
  destruct (kind t =? tSTRING) eqn:Hk; [|reflexivity].
  destruct (kind_str_cases t Hok Hk) as [Hs|(t' & Et & Hs)].
  - destruct (str_val env t x Hs Hx) as (n & s & Ex). subst x. reflexivity.
  - subst t. destruct Hs; subst t'; discriminate Hadm.
Qed.

(* a container side: [count * width] shortcut or per-element walk *)
Lemma side_sum : forall (A : Type) (p : A -> val) t (m : list A),
  ty_ok env t = true -> negb (is_ptr t) || is_struct_ptr t = true ->
  (forall a, In a m -> has_type env t (p a) = true) ->
  (if 0 <? fixed_size t then len m * fixed_size t else 0)
  + sum_map (fun a => if 0 <? fixed_size t then 0 else elem_sz env t (p a)) m
  = sum_map (fun a => enc_size env t (p a)) m.
Proof.
  intros A p t m Hok Hadm Hm.
  destruct (0 <? fixed_size t) eqn:Hfs.
  - rewrite (sum_map_const _ _ 0) by reflexivity.
    rewrite (sum_map_const _ (fun a => enc_size env t (p a)) (fixed_size t)).
    + lia.
    + intros a Ha. apply fixed_enc; auto. apply adm_nn. exact Hadm.
  - rewrite (sum_map_ext_in _ _ (fun a => enc_size env t (p a))). lia.
    intros a Ha. apply elem_sz_eq; auto.
Qed.

Lemma sum_map_zero : forall A (m : list A), sum_map (fun _ => 0) m = 0.
Proof. induction m as [|x r IH]. reflexivity. cbn [sum_map]. rewrite IH. reflexivity. Qed.

(* ------------------------------------------------------------------ *)
(* struct fields *)

Definition P (v : val) : Prop :=
  forall t, has_type env t v = true -> ty_ok env t = true ->
  enc_size env t v = len (append_any env t v).

Lemma field_len : forall f v',
  field_ok env f = true -> has_type env (fty f) v' = true -> P v' ->
  field_fixed_size f + sz_field env f v' = len (enc_field env f v').
Proof.
  intros f v' Hf Hv IH.
  destruct (hdr_lens HP) as (Hfh & _).
  unfold field_ok in Hf.
  apply andb_prop in Hf. destruct Hf as [Hf _].
  apply andb_prop in Hf. destruct Hf as [Hf Hptr].
  apply andb_prop in Hf. destruct Hf as [_ Hok].
  specialize (IH (fty f) Hv Hok).
  assert (Hnn : can_skip_nil f && is_nil v' = false -> nn (fty f) v' = true).
  { intros Hs. unfold nn. apply orb_prop in Hptr. destruct Hptr as [Hptr|Hopt].
    - rewrite Hptr. reflexivity.
    - unfold can_skip_nil in Hs. rewrite Hopt in Hs. cbn [andb] in Hs.
      destruct (is_ptr (fty f)) eqn:Ep.
      + cbn [orb andb] in Hs. rewrite Hs. cbn [negb]. apply orb_true_r.
      + reflexivity. }
  unfold sz_field, enc_field.
  set (d := can_skip_default f
            && match fdflt f with Some d => go_equal (fty f) d v' | None => false end).
  destruct (field_fixed_size f =? 0) eqn:E0.
  - apply N.eqb_eq in E0. rewrite E0. cbn [negb].
    destruct (can_skip_nil f && is_nil v') eqn:E1. { rewrite len_nil. clear - Hfh; lia. }
    destruct d eqn:E2. { rewrite len_nil. clear - Hfh; lia. }
    specialize (Hnn eq_refl).
    rewrite len_cons, len_app, len_be_put, <- IH.
    destruct (0 <? fixed_size (fty f)) eqn:E3.
    + rewrite (fixed_enc _ _ Hok E3 Hv Hnn). clear - Hfh; lia.
    + destruct (kind (fty f) =? tSTRING) eqn:E4.
      * rewrite (str_enc _ _ Hok E4 Hv Hnn). clear - Hfh; lia.
      * clear - Hfh; lia.
  - cbn [negb]. unfold field_fixed_size in E0 |- *.
    destruct (is_ptr (fty f)) eqn:Ep; [discriminate E0|].
    destruct (req_eqb (freq f) ROptional) eqn:Er; [discriminate E0|].
    destruct (0 <? fixed_size (fty f)) eqn:E3; [|discriminate E0].
    assert (Hn : can_skip_nil f = false). { unfold can_skip_nil. rewrite Er. reflexivity. }
    assert (Hd : d = false). { unfold d, can_skip_default. rewrite Er. reflexivity. }
    rewrite Hn, Hd. cbn [andb].
    rewrite len_cons, len_app, len_be_put, <- IH.
    rewrite (fixed_enc _ _ Hok E3 Hv).
    + clear - Hfh; lia.
    + apply adm_nn. rewrite Ep. reflexivity.
Qed.

Lemma fields_len : forall fs fds,
  fields_all (fun f v' => has_type env (fty f) v') fds fs = true ->
  forallb (field_ok env) fds = true -> Forall P fs ->
  sum_map field_fixed_size fds + fields_sum (sz_field env) fds fs
  = len (fields_cat (enc_field env) fds fs).
Proof.
  induction fs as [|v vr IH]; intros fds Hall Hok HPs; destruct fds as [|f fr];
    cbn [fields_all] in Hall; try discriminate Hall.
  - reflexivity.
  - apply andb_prop in Hall. destruct Hall as [Hv Hall].
    cbn [forallb] in Hok. apply andb_prop in Hok. destruct Hok as [Hf Hok].
    inversion HPs as [|? ? Pv Pr]; subst.
    cbn [sum_map fields_sum fields_cat]. rewrite len_app.
    rewrite <- (IH fr Hall Hok Pr), <- (field_len f v Hf Hv Pv). lia.
Qed.

Lemma lookup_sd_In : forall sid sd, lookup_sd env sid = Some sd -> In sd env.
Proof.
  intros sid sd H. unfold lookup_sd in H.
  destruct (len env <=? sid); [discriminate H|].
  eapply nth_error_In. exact H.
Qed.

(* ------------------------------------------------------------------ *)
(* the main induction *)

Hypothesis HE : env_ok env = true.

Lemma fields_ok_of_lookup : forall sid sd, lookup_sd env sid = Some sd ->
  forallb (field_ok env) (sfields sd) = true.
Proof.
  intros sid sd H. apply lookup_sd_In in H.
  unfold env_ok in HE. pose proof (proj1 (forallb_forall _ _) HE sd H) as Hsd.
  unfold sdesc_ok in Hsd.
  apply andb_prop in Hsd. destruct Hsd as [Hsd _].
  apply andb_prop in Hsd. destruct Hsd as [Hsd _]. exact Hsd.
Qed.

Lemma main : forall v, P v.
Proof.
  destruct (hdr_lens HP) as (Hfh & Hmh & Hlh & Hsh).
  apply val_ind'; unfold P.
  - (* VS *)
    intros x t Hv Hok. rewrite app_VS. symmetry. apply simple_len; [|exact Hv].
    left. eapply ht_VS. exact Hv.
  - (* VB *)
    intros n s t Hv Hok. rewrite app_VB. symmetry. apply simple_len; [|exact Hv].
    right. eapply ht_VB. exact Hv.
  - (* VL None *)
    intros t Hv Hok. destruct (ht_VLn _ _ Hv) as (b & e & Et). subst t.
    cbn [ty_ok] in Hok. apply andb_prop in Hok. destruct Hok as [Hoke Hadm].
    destruct (list_rt HT e Hadm) as [Hshape _].
    rewrite enc_VLn, app_VLn, Hshape, len_cons, len_be_put. clear - Hlh; lia.
  - (* VL Some *)
    intros l IHl t Hv Hok. destruct (ht_VL _ _ _ Hv) as (b & e & Et & Hall). subst t.
    cbn [ty_ok] in Hok. apply andb_prop in Hok. destruct Hok as [Hoke Hadm].
    destruct (list_rt HT e Hadm) as [Hshape Hw].
    rewrite Forall_forall in IHl. rewrite forallb_forall in Hall.
    rewrite enc_VL, app_VL, Hshape, len_cons, len_app, len_be_put, len_cat_map.
    rewrite (sum_map_ext_in _ (fun x => len (W env (l_elem (list_routine (kind e))) e x))
                            (fun x => enc_size env e x)).
    2:{ intros x Hx. apply W_len; auto. }
    pose proof (side_sum val (fun x => x) e l Hoke Hadm Hall) as S.
    cbv beta in S. revert S.
    destruct (0 <? fixed_size e) eqn:E; cbv beta iota; intros S;
      rewrite ?sum_map_zero in S; clear - S Hlh; lia.
  - (* VM None *)
    intros t Hv Hok. destruct (ht_VMn _ _ Hv) as (kt & vt & Et). subst t.
    cbn [ty_ok] in Hok.
    apply andb_prop in Hok. destruct Hok as [Hok Hadm].
    apply andb_prop in Hok. destruct Hok as [Hok Hokv].
    apply andb_prop in Hok. destruct Hok as [Hkey Hokk].
    destruct (map_rt HT kt vt Hkey Hadm) as (Hshape & _ & _).
    rewrite enc_VMn, app_VMn, Hshape, !len_cons, len_be_put. clear - Hmh; lia.
  - (* VM Some *)
    intros m IHm t Hv Hok. destruct (ht_VM _ _ _ Hv) as (kt & vt & Et & Hall). subst t.
    cbn [ty_ok] in Hok.
    apply andb_prop in Hok. destruct Hok as [Hok Hadm].
    apply andb_prop in Hok. destruct Hok as [Hok Hokv].
    apply andb_prop in Hok. destruct Hok as [Hkey Hokk].
    destruct (map_rt HT kt vt Hkey Hadm) as (Hshape & Hwk & Hwv).
    rewrite Forall_forall in IHm. rewrite forallb_forall in Hall.
    assert (HallK : forall kv, In kv m -> has_type env kt (fst kv) = true).
    { intros kv Hin. apply Hall in Hin. apply andb_prop in Hin. tauto. }
    assert (HallV : forall kv, In kv m -> has_type env vt (snd kv) = true).
    { intros kv Hin. apply Hall in Hin. apply andb_prop in Hin. tauto. }
    rewrite enc_VM, app_VM, Hshape, !len_cons, len_app, len_be_put, len_cat_map.
    rewrite (sum_map_ext_in _
               (fun kv : val * val => len (W env (m_key (map_routine kt vt)) kt (fst kv)
                                          ++ W env (m_val (map_routine kt vt)) vt (snd kv)))
               (fun kv => enc_size env kt (fst kv) + enc_size env vt (snd kv))).
    2:{ intros kv Hin. destruct (IHm kv Hin) as [Pk Pv].
        rewrite len_app, W_len, W_len; auto. }
    rewrite sum_map_plus.
    pose proof (side_sum _ fst kt m Hokk (key_adm kt Hkey) HallK) as SK.
    pose proof (side_sum _ snd vt m Hokv Hadm HallV) as SV.
    destruct (len m =? 0) eqn:El.
    + apply N.eqb_eq in El. apply len_zero_nil in El. subst m. cbn [sum_map]. clear - Hmh; lia.
    + revert SK SV.
      destruct (0 <? fixed_size kt) eqn:Ek; destruct (0 <? fixed_size vt) eqn:Ev;
        cbv beta iota zeta; cbn [andb]; intros SK SV;
        clear - SK SV Hmh;
        rewrite ?sum_map_plus, ?sum_map_zero in *; lia.
  - (* VP None *)
    intros t Hv Hok. rewrite enc_VPn, app_VPn, len_cons, len_nil. reflexivity.
  - (* VP Some *)
    intros v IHv t Hv Hok. destruct (ht_VP _ _ _ Hv) as (t' & Et & Hv'). subst t.
    rewrite enc_VP, app_VP. apply IHv. exact Hv'.
    destruct t'; try discriminate Hok; exact Hok.
  - (* VT *)
    intros fs h IHfs t Hv Hok. destruct (ht_VT _ _ _ _ Hv) as (sid & sd & Et & Hl & Hall). subst t.
    rewrite enc_VT, app_VT, Hl.
    pose proof (fields_len fs (sfields sd) Hall (fields_ok_of_lookup sid sd Hl) IHfs) as HF.
    unfold fixed_len_field_size. rewrite fold_fixed.
    rewrite !len_app, len_cons, len_nil, <- HF.
    destruct (sholder sd); rewrite ?len_nil; clear; lia.
Qed.

End Main.

(* ------------------------------------------------------------------ *)

Definition slot_ok (env : senv) (t : ty) (v : val) : bool :=
  ty_ok env t && (negb (is_ptr t) || is_struct_ptr t || negb (is_nil v)).

(* the pointer condition of slot_ok is not needed *)
Theorem size_exact_ty : forall env, enc_params_ok = true -> tables_ok = true -> env_ok env = true ->
  forall v t, has_type env t v = true -> ty_ok env t = true ->
  enc_size env t v = len (append_any env t v).
Proof. intros env HP HT HE v t Hv Hok. exact (main env HP HT HE v t Hv Hok). Qed.

Theorem size_exact_gen : forall env, enc_params_ok = true -> tables_ok = true -> env_ok env = true ->
  forall v t, has_type env t v = true -> slot_ok env t v = true ->
  enc_size env t v = len (append_any env t v).
Proof.
  intros env HP HT HE v t Hv Hs. unfold slot_ok in Hs.
  apply andb_prop in Hs. destruct Hs as [Hok _].
  exact (main env HP HT HE v t Hv Hok).
Qed.

Theorem size_exact : forall env sid v, enc_params_ok = true -> tables_ok = true -> env_ok env = true ->
  has_type env (TStruct sid) v = true ->
  encoded_size env sid v = len (append_struct env sid v).
Proof.
  intros env sid v HP HT HE Hv. unfold encoded_size, append_struct.
  apply (main env HP HT HE v (TStruct sid) Hv).
  destruct v as [x|n s|[l|]|[m|]|[p|]|fs h]; cbn [has_type] in Hv; try discriminate Hv.
  destruct (lookup_sd env sid) as [sd|] eqn:E; [|discriminate Hv].
  unfold lookup_sd in E. cbn [ty_ok].
  destruct (len env <=? sid) eqn:El; [discriminate E|].
  apply N.leb_gt in El. apply N.ltb_lt. exact El.
Qed.

Print Assumptions size_exact_gen.
Print Assumptions size_exact.
