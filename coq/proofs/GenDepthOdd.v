(* GenDepthOdd.v -- maxDepthLimit is odd (used by roundtrip's 2 * vdepth + 1 bound only), re-proved
   on every run against what the translator read from the Go sources. *)
From Frugal Require Import Checks.

Lemma depth_odd_ok_holds : depth_odd_ok = true.
Proof. vm_compute. reflexivity. Qed.
